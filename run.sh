#!/bin/bash
# usage: ./run.sh <ID> quick|thorough|replay <path>
# Rebuilds the check binary from /repo's current working tree (hooks on: -tags verif)
# and runs it. Exit: 0 held / 1 VIOLATION / 2 broken machinery or build failure.
cd "$(dirname "$0")" || exit 2
. scripts/env.sh
id="$1"; shift
lc=$(echo "$id" | tr 'A-Z' 'a-z')
if [ ! -d "checks/$lc" ]; then echo "BROKEN-CHECK unknown check $id"; exit 2; fi
mkdir -p bin evidence
if [ -x "checks/$lc/run.sh" ]; then exec "checks/$lc/run.sh" "$@"; fi
if ! $VGO build -tags verif -o "bin/$lc" "./checks/$lc" 2> "bin/$lc.buildlog"; then
  cat "bin/$lc.buildlog" | head -50
  echo "BROKEN-CHECK property=$id build failed against /repo working tree"
  exit 2
fi
ulimit -v 33554432 2>/dev/null
exec "bin/$lc" "$@"
