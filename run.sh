#!/bin/bash
# usage: ./run.sh <ID> quick|thorough|replay <path>
# Rebuilds the check binary from /repo's current working tree (hooks on: -tags verif)
# and runs it. Exit: 0 held / 1 VIOLATION / 2 broken machinery or build failure.
#
# Development aid (never used by registered commands): VERIF_REPO=/some/worktree
# builds against that copy of btcd instead of /repo (mutation testing) and writes
# evidence under $VERIF_REPO/.verif-evidence instead of /verif/evidence.
cd "$(dirname "$0")" || exit 2
. scripts/env.sh
id="$1"; shift
lc=$(echo "$id" | tr 'A-Z' 'a-z')
if [ ! -d "checks/$lc" ]; then echo "BROKEN-CHECK unknown check $id"; exit 2; fi
mkdir -p bin evidence
out="bin/$lc"
modflag=""
if [ -n "$VERIF_REPO" ]; then
  tagid=$(echo "$VERIF_REPO" | md5sum | cut -c1-8)
  sed "s#=> /repo#=> $VERIF_REPO#" go.mod > "bin/alt-$tagid.mod"; cp go.sum "bin/alt-$tagid.sum"
  modflag="-modfile=bin/alt-$tagid.mod"
  out="bin/$lc-$tagid"
  export VERIF_EVIDENCE_DIR="$VERIF_REPO/.verif-evidence"; mkdir -p "$VERIF_EVIDENCE_DIR"
fi
export VERIF_OUT="$out" VERIF_MODFLAG="$modflag"
if [ -x "checks/$lc/run.sh" ]; then exec "checks/$lc/run.sh" "$@"; fi
if ! $VGO build $modflag -tags verif -o "$out" "./checks/$lc" 2> "$out.buildlog"; then
  head -50 "$out.buildlog"
  echo "BROKEN-CHECK property=$id build failed against the btcd working tree"
  exit 2
fi
ulimit -v 33554432 2>/dev/null
exec "$out" "$@"
