// Package lab ("ChainLab") builds real btcd chain instances (ffldb on /dev/shm +
// blockchain.BlockChain) and independent, hand-built blocks for the explorers.
// Nothing here asks btcd what a valid block looks like: merkle roots, witness
// commitments, subsidy and PoW are computed by this package's own naive code.
package lab

import (
	"bytes"
	"crypto/sha256"
	"encoding/binary"
	"fmt"
	"math/big"
	"os"
	"sync/atomic"
	"time"

	"github.com/btcsuite/btcd/blockchain"
	"github.com/btcsuite/btcd/btcutil/v2"
	"github.com/btcsuite/btcd/chaincfg/v2"
	"github.com/btcsuite/btcd/chainhash/v2"
	"github.com/btcsuite/btcd/database"
	_ "github.com/btcsuite/btcd/database/ffldb"
	"github.com/btcsuite/btcd/wire/v2"
)

// CloneParams returns a deep copy of p whose deployment starters/enders are
// fresh objects (blockchain.New re-targets them at the newest chain instance,
// so sharing them between instances cross-talks).
func CloneParams(p *chaincfg.Params) *chaincfg.Params {
	c := *p
	for i := range c.Deployments {
		d := &c.Deployments[i]
		if s, ok := d.DeploymentStarter.(*chaincfg.MedianTimeDeploymentStarter); ok && s != nil {
			d.DeploymentStarter = chaincfg.NewMedianTimeDeploymentStarter(s.StartTime())
		}
		if e, ok := d.DeploymentEnder.(*chaincfg.MedianTimeDeploymentEnder); ok && e != nil {
			d.DeploymentEnder = chaincfg.NewMedianTimeDeploymentEnder(e.EndTime())
		}
	}
	c.Checkpoints = append([]chaincfg.Checkpoint(nil), p.Checkpoints...)
	if p.PowLimit != nil {
		c.PowLimit = new(big.Int).Set(p.PowLimit)
	}
	return &c
}

// RegtestLike returns the default synthetic parameter set: regtest with coinbase
// maturity 2, halving every 5 blocks, BIP34/65/66 from height 1 (as regtest),
// CSV/segwit/taproot always active from height 1 (as regtest).
func RegtestLike() *chaincfg.Params {
	p := CloneParams(&chaincfg.RegressionNetParams)
	p.CoinbaseMaturity = 2
	p.SubsidyReductionInterval = 5
	return p
}

// FixedTime is a MedianTimeSource returning a constant.
type FixedTime struct{ T time.Time }

func (f *FixedTime) AdjustedTime() time.Time         { return f.T }
func (f *FixedTime) AddTimeSample(string, time.Time) {}
func (f *FixedTime) Offset() time.Duration           { return 0 }

// Now is the adjusted time every lab chain believes in (fixed => deterministic).
var Now = time.Unix(1_600_000_000, 0)

// Note is one chain notification, recorded in order.
type Note struct {
	Type blockchain.NotificationType
	Hash chainhash.Hash
}

// ChainOpts configures a chain instance.
type ChainOpts struct {
	CacheSize uint64 // UtxoCacheMaxSize
	Prune     uint64
	// WrapDB, when set, wraps the opened database before it is given to the chain.
	WrapDB func(database.DB) database.DB
	Now    time.Time
}

// Chain is one real chain instance.
type Chain struct {
	BC     *blockchain.BlockChain
	DB     database.DB // possibly wrapped
	RawDB  database.DB
	Dir    string
	Params *chaincfg.Params
	Opts   ChainOpts
	Notes  []Note
}

var dirSeq int64

// ShmRoot is the scratch root; everything under it is removed on Destroy.
func ShmRoot() string {
	if v := os.Getenv("VERIF_SCRATCH"); v != "" {
		return v
	}
	return "/dev/shm"
}

// NewChain creates a fresh database directory and a chain on it.
func NewChain(params *chaincfg.Params, opts ChainOpts) (*Chain, error) {
	n := atomic.AddInt64(&dirSeq, 1)
	dir := fmt.Sprintf("%s/verif-%d-%d", ShmRoot(), os.Getpid(), n)
	os.RemoveAll(dir)
	c := &Chain{Dir: dir, Params: params, Opts: opts}
	if err := c.open(true); err != nil {
		os.RemoveAll(dir)
		return nil, err
	}
	return c, nil
}

func (c *Chain) open(create bool) error {
	var db database.DB
	var err error
	if create {
		db, err = database.Create("ffldb", c.Dir, c.Params.Net)
	} else {
		db, err = database.Open("ffldb", c.Dir, c.Params.Net)
	}
	if err != nil {
		return fmt.Errorf("db open: %w", err)
	}
	c.RawDB = db
	c.DB = db
	if c.Opts.WrapDB != nil {
		c.DB = c.Opts.WrapDB(db)
	}
	now := c.Opts.Now
	if now.IsZero() {
		now = Now
	}
	bc, err := blockchain.New(&blockchain.Config{
		DB:               c.DB,
		ChainParams:      c.Params,
		TimeSource:       &FixedTime{T: now},
		UtxoCacheMaxSize: c.Opts.CacheSize,
		Prune:            c.Opts.Prune,
	})
	if err != nil {
		db.Close()
		return fmt.Errorf("blockchain.New: %w", err)
	}
	c.BC = bc
	bc.Subscribe(func(n *blockchain.Notification) {
		if b, ok := n.Data.(*btcutil.Block); ok {
			c.Notes = append(c.Notes, Note{Type: n.Type, Hash: *b.Hash()})
		}
	})
	return nil
}

// NewChainP is NewChain that publishes the *Chain through out before the
// database/chain are opened, so that a caller that recovers from a panic raised
// inside blockchain.New (crash injection) can still close and remove it.
func NewChainP(params *chaincfg.Params, opts ChainOpts, out **Chain) error {
	n := atomic.AddInt64(&dirSeq, 1)
	dir := fmt.Sprintf("%s/verif-%d-%d", ShmRoot(), os.Getpid(), n)
	os.RemoveAll(dir)
	c := &Chain{Dir: dir, Params: params, Opts: opts}
	*out = c
	return c.open(true)
}

// ReopenWith is Reopen with new options (e.g. a different database wrapper).
func (c *Chain) ReopenWith(opts ChainOpts) error {
	c.Opts = opts
	c.Notes = nil
	return c.open(false)
}

// CloseDB closes the database without flushing the utxo cache (an "unclean"
// but durable stop: everything committed so far stays).
func (c *Chain) CloseDB() error {
	if c.RawDB == nil {
		return nil
	}
	err := c.RawDB.Close()
	c.RawDB, c.DB, c.BC = nil, nil, nil
	return err
}

// CleanClose flushes the utxo cache (as btcd's shutdown does) and closes.
func (c *Chain) CleanClose() error {
	if c.BC != nil {
		if err := c.BC.FlushUtxoCache(blockchain.FlushRequired); err != nil {
			return err
		}
	}
	return c.CloseDB()
}

// Reopen opens the existing directory again with a fresh BlockChain.
func (c *Chain) Reopen() error {
	c.Notes = nil
	return c.open(false)
}

// Destroy closes and removes everything.
func (c *Chain) Destroy() {
	if c.RawDB != nil {
		c.RawDB.Close()
	}
	os.RemoveAll(c.Dir)
}

// ---------------------------------------------------------------------------
// naive primitives

func dsha(b []byte) chainhash.Hash {
	a := sha256.Sum256(b)
	return chainhash.Hash(sha256.Sum256(a[:]))
}

// MerkleRoot is the naive Bitcoin merkle root of the given leaves.
func MerkleRoot(leaves []chainhash.Hash) chainhash.Hash {
	if len(leaves) == 0 {
		return chainhash.Hash{}
	}
	level := append([]chainhash.Hash(nil), leaves...)
	for len(level) > 1 {
		if len(level)%2 == 1 {
			level = append(level, level[len(level)-1])
		}
		next := make([]chainhash.Hash, 0, len(level)/2)
		for i := 0; i < len(level); i += 2 {
			var buf [64]byte
			copy(buf[:32], level[i][:])
			copy(buf[32:], level[i+1][:])
			next = append(next, dsha(buf[:]))
		}
		level = next
	}
	return level[0]
}

// Subsidy is the naive block subsidy.
func Subsidy(height int32, p *chaincfg.Params) int64 {
	if p.SubsidyReductionInterval == 0 {
		return 50 * 1e8
	}
	h := uint(height / p.SubsidyReductionInterval)
	if h >= 64 {
		return 0
	}
	return int64(50*1e8) >> h
}

// OpTrue is the anyone-can-spend script used for lab outputs.
var OpTrue = []byte{0x51}

// HeightScript returns the minimal BIP34 push of height followed by tag bytes.
func HeightScript(height int32, tag uint32) []byte {
	var s []byte
	switch {
	case height == 0:
		s = []byte{0x00}
	case height >= 1 && height <= 16:
		s = []byte{byte(0x50 + height)}
	default:
		// minimal little-endian signed number
		v := int64(height)
		var n []byte
		for v > 0 {
			n = append(n, byte(v&0xff))
			v >>= 8
		}
		if n[len(n)-1]&0x80 != 0 {
			n = append(n, 0)
		}
		s = append([]byte{byte(len(n))}, n...)
	}
	var t [4]byte
	binary.LittleEndian.PutUint32(t[:], tag)
	s = append(s, 0x04)
	s = append(s, t[:]...)
	return s
}

// Blk is a lab block with its position.
type Blk struct {
	Msg    *wire.MsgBlock
	Hash   chainhash.Hash
	Height int32
	Parent *Blk
	Name   string
}

// Block returns a fresh btcutil.Block (btcd caches per-object state, so each
// delivery gets its own wrapper built from serialized bytes).
func (b *Blk) Block() *btcutil.Block {
	var buf bytes.Buffer
	if err := b.Msg.Serialize(&buf); err != nil {
		panic(err)
	}
	blk, err := btcutil.NewBlockFromBytes(buf.Bytes())
	if err != nil {
		panic(err)
	}
	return blk
}

// Genesis wraps the params' genesis block.
func Genesis(p *chaincfg.Params) *Blk {
	return &Blk{Msg: p.GenesisBlock, Hash: *p.GenesisHash, Height: 0, Name: "G"}
}

// BOpt are the block-building knobs.
type BOpt struct {
	Name           string
	Time           time.Time     // zero: parent time + 60 s
	Version        int32         // zero: 0x20000000
	Bits           uint32        // zero: params.PowLimitBits
	Tag            uint32        // uniqueness tag put in the coinbase script
	CoinbaseScript []byte        // nil: HeightScript(height, Tag)
	CoinbaseOuts   []*wire.TxOut // nil: one OpTrue output of subsidy+Fees
	NumCbOuts      int           // when CoinbaseOuts nil: split into this many OpTrue outputs (default 1)
	Fees           int64
	Txs            []*wire.MsgTx
	ForceWitCommit bool // add a witness commitment even without witness txs
	NoWitCommit    bool
	// PreMerkle may edit the block after the coinbase is assembled and before
	// the merkle root is computed; PostMerkle after the merkle root and before
	// PoW is solved; PostPoW after everything.
	PreMerkle, PostMerkle, PostPoW func(*wire.MsgBlock)
	NoSolve                        bool
}

// WitnessMagic is the BIP141 commitment header.
var WitnessMagic = []byte{0x6a, 0x24, 0xaa, 0x21, 0xa9, 0xed}

func hasWitness(txs []*wire.MsgTx) bool {
	for _, tx := range txs {
		for _, in := range tx.TxIn {
			if len(in.Witness) > 0 {
				return true
			}
		}
	}
	return false
}

// TxID / WTxID computed from the serializations (the wire codec is C08's subject;
// the hash itself is naive here).
func TxID(tx *wire.MsgTx) chainhash.Hash {
	var buf bytes.Buffer
	tx.SerializeNoWitness(&buf)
	return dsha(buf.Bytes())
}
func WTxID(tx *wire.MsgTx) chainhash.Hash {
	var buf bytes.Buffer
	tx.Serialize(&buf)
	return dsha(buf.Bytes())
}

// HeaderHash is the naive header hash.
func HeaderHash(h *wire.BlockHeader) chainhash.Hash {
	var buf bytes.Buffer
	var b4 [4]byte
	binary.LittleEndian.PutUint32(b4[:], uint32(h.Version))
	buf.Write(b4[:])
	buf.Write(h.PrevBlock[:])
	buf.Write(h.MerkleRoot[:])
	binary.LittleEndian.PutUint32(b4[:], uint32(h.Timestamp.Unix()))
	buf.Write(b4[:])
	binary.LittleEndian.PutUint32(b4[:], h.Bits)
	buf.Write(b4[:])
	binary.LittleEndian.PutUint32(b4[:], h.Nonce)
	buf.Write(b4[:])
	return dsha(buf.Bytes())
}

// CompactToBig is the naive compact-bits decoding (positive targets only).
func CompactToBig(c uint32) *big.Int {
	mant := int64(c & 0x007fffff)
	exp := uint(c >> 24)
	var bn *big.Int
	if exp <= 3 {
		bn = big.NewInt(mant >> (8 * (3 - exp)))
	} else {
		bn = new(big.Int).Lsh(big.NewInt(mant), 8*(exp-3))
	}
	if c&0x00800000 != 0 {
		bn.Neg(bn)
	}
	return bn
}

func hashToBig(h chainhash.Hash) *big.Int {
	var r [32]byte
	for i := 0; i < 32; i++ {
		r[i] = h[31-i]
	}
	return new(big.Int).SetBytes(r[:])
}

// Solve finds a nonce with hash <= target(bits).
func Solve(h *wire.BlockHeader) {
	target := CompactToBig(h.Bits)
	for n := uint32(0); ; n++ {
		h.Nonce = n
		if hashToBig(HeaderHash(h)).Cmp(target) <= 0 {
			return
		}
		if n == ^uint32(0) {
			panic("no nonce")
		}
	}
}

// Unsolve finds a nonce with hash > target(bits) (a PoW failure).
func Unsolve(h *wire.BlockHeader) {
	target := CompactToBig(h.Bits)
	for n := uint32(0); ; n++ {
		h.Nonce = n
		if hashToBig(HeaderHash(h)).Cmp(target) > 0 {
			return
		}
	}
}

// Recommit recomputes merkle root (and nothing else) from the tx list.
func Recommit(m *wire.MsgBlock) {
	ids := make([]chainhash.Hash, len(m.Transactions))
	for i, tx := range m.Transactions {
		ids[i] = TxID(tx)
	}
	m.Header.MerkleRoot = MerkleRoot(ids)
}

// WitnessCommitment computes the BIP141 commitment for the block's txs with a
// zero 32-byte nonce.
func WitnessCommitment(txs []*wire.MsgTx) [32]byte {
	ids := make([]chainhash.Hash, len(txs))
	for i, tx := range txs {
		if i == 0 {
			continue // coinbase wtxid is zero
		}
		ids[i] = WTxID(tx)
	}
	root := MerkleRoot(ids)
	var buf [64]byte
	copy(buf[:32], root[:])
	return dsha(buf[:])
}

// Build assembles a block on parent.
func Build(p *chaincfg.Params, parent *Blk, o BOpt) *Blk {
	height := parent.Height + 1
	cbScript := o.CoinbaseScript
	if cbScript == nil {
		cbScript = HeightScript(height, o.Tag)
	}
	cb := wire.NewMsgTx(1)
	cb.AddTxIn(&wire.TxIn{
		PreviousOutPoint: wire.OutPoint{Index: 0xffffffff},
		SignatureScript:  cbScript,
		Sequence:         0xffffffff,
	})
	if o.CoinbaseOuts != nil {
		for _, out := range o.CoinbaseOuts {
			cb.AddTxOut(&wire.TxOut{Value: out.Value, PkScript: append([]byte(nil), out.PkScript...)})
		}
	} else {
		n := o.NumCbOuts
		if n <= 0 {
			n = 1
		}
		total := Subsidy(height, p) + o.Fees
		each := total / int64(n)
		for i := 0; i < n; i++ {
			v := each
			if i == n-1 {
				v = total - each*int64(n-1)
			}
			cb.AddTxOut(&wire.TxOut{Value: v, PkScript: OpTrue})
		}
	}
	txs := append([]*wire.MsgTx{cb}, o.Txs...)
	if (hasWitness(o.Txs) || o.ForceWitCommit) && !o.NoWitCommit {
		cb.TxIn[0].Witness = wire.TxWitness{make([]byte, 32)}
		c := WitnessCommitment(txs)
		cb.AddTxOut(&wire.TxOut{Value: 0, PkScript: append(append([]byte(nil), WitnessMagic...), c[:]...)})
	}
	ts := o.Time
	if ts.IsZero() {
		ts = parent.Msg.Header.Timestamp.Add(60 * time.Second)
		if parent.Height == 0 {
			// first block after the (2011) genesis: jump to the lab's present so
			// that BIP16's timestamp switch (April 2012) is behind every lab block.
			ts = Now.Add(-30 * 24 * time.Hour)
		}
	}
	ver := o.Version
	if ver == 0 {
		ver = 0x20000000
	}
	bits := o.Bits
	if bits == 0 {
		bits = p.PowLimitBits
	}
	m := &wire.MsgBlock{Header: wire.BlockHeader{Version: ver, PrevBlock: parent.Hash, Timestamp: ts, Bits: bits}}
	m.Transactions = txs
	if o.PreMerkle != nil {
		o.PreMerkle(m)
	}
	Recommit(m)
	if o.PostMerkle != nil {
		o.PostMerkle(m)
	}
	if !o.NoSolve {
		Solve(&m.Header)
	}
	if o.PostPoW != nil {
		o.PostPoW(m)
	}
	return &Blk{Msg: m, Hash: HeaderHash(&m.Header), Height: height, Parent: parent, Name: o.Name}
}

// Spend builds a version-1 tx spending the given OpTrue outpoints into n OpTrue
// outputs of the given values.
func Spend(ins []wire.OutPoint, outs []int64) *wire.MsgTx {
	tx := wire.NewMsgTx(1)
	for _, op := range ins {
		tx.AddTxIn(&wire.TxIn{PreviousOutPoint: op, Sequence: 0xffffffff})
	}
	for _, v := range outs {
		tx.AddTxOut(&wire.TxOut{Value: v, PkScript: OpTrue})
	}
	return tx
}

// Chain returns the blocks from genesis (exclusive) to b (inclusive).
func (b *Blk) Chain() []*Blk {
	var out []*Blk
	for n := b; n != nil && n.Parent != nil; n = n.Parent {
		out = append([]*Blk{n}, out...)
	}
	return out
}
