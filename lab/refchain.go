package lab

import (
	"bytes"
	"fmt"
	"sort"

	"github.com/btcsuite/btcd/wire/v2"
)

// Coin is one reference unspent output.
type Coin struct {
	Amount   int64
	Script   []byte
	Height   int32
	Coinbase bool
}

func (c Coin) String() string {
	return fmt.Sprintf("{amt=%d script=%x h=%d cb=%v}", c.Amount, c.Script, c.Height, c.Coinbase)
}

// Equal compares two coins.
func (c Coin) Equal(o Coin) bool {
	return c.Amount == o.Amount && c.Height == o.Height && c.Coinbase == o.Coinbase && bytes.Equal(c.Script, o.Script)
}

// UtxoSet is the reference UTXO set.
type UtxoSet map[wire.OutPoint]Coin

// Unspendable mirrors the protocol-level pruning rule used for the UTXO set:
// outputs starting with OP_RETURN or longer than 10000 bytes are never added.
// (Lab scripts never use unparseable scripts, where btcd prunes more than Core.)
func Unspendable(s []byte) bool {
	return (len(s) > 0 && s[0] == 0x6a) || len(s) > 10000
}

// FoldResult is the reference state of a chain.
type FoldResult struct {
	Utxos UtxoSet
	// Journal[i] is the list of coins spent by chain[i], in spend order
	// (transaction order, input order; coinbase excluded).
	Journal [][]Coin
	TotalTx uint64 // including the genesis block's single tx
}

// Fold applies the blocks (genesis exclusive) in order from the genesis UTXO
// set (btcd, like Core, never adds the genesis coinbase) and returns the result.
// It returns an error if a block spends a missing output: the reference fold is
// only defined on valid chains.
func Fold(chain []*Blk) (*FoldResult, error) {
	r := &FoldResult{Utxos: UtxoSet{}, TotalTx: 1}
	for _, b := range chain {
		var spent []Coin
		for ti, tx := range b.Msg.Transactions {
			if ti > 0 {
				for _, in := range tx.TxIn {
					c, ok := r.Utxos[in.PreviousOutPoint]
					if !ok {
						return nil, fmt.Errorf("block %s tx %d spends missing %v", b.Name, ti, in.PreviousOutPoint)
					}
					spent = append(spent, c)
					delete(r.Utxos, in.PreviousOutPoint)
				}
			}
			id := TxID(tx)
			for oi, out := range tx.TxOut {
				if Unspendable(out.PkScript) {
					continue
				}
				r.Utxos[wire.OutPoint{Hash: id, Index: uint32(oi)}] = Coin{
					Amount: out.Value, Script: append([]byte(nil), out.PkScript...), Height: b.Height, Coinbase: ti == 0,
				}
			}
		}
		r.Journal = append(r.Journal, spent)
		r.TotalTx += uint64(len(b.Msg.Transactions))
	}
	return r, nil
}

// Universe returns every outpoint created by any of the blocks (sorted), the
// finite universe over which UTXO views are compared.
func Universe(blocks []*Blk) []wire.OutPoint {
	seen := map[wire.OutPoint]bool{}
	var out []wire.OutPoint
	for _, b := range blocks {
		for _, tx := range b.Msg.Transactions {
			id := TxID(tx)
			for oi := range tx.TxOut {
				op := wire.OutPoint{Hash: id, Index: uint32(oi)}
				if !seen[op] {
					seen[op] = true
					out = append(out, op)
				}
			}
		}
	}
	sort.Slice(out, func(i, j int) bool {
		if c := bytes.Compare(out[i].Hash[:], out[j].Hash[:]); c != 0 {
			return c < 0
		}
		return out[i].Index < out[j].Index
	})
	return out
}
