package lab

import (
	"github.com/btcsuite/btcd/chaincfg/v2"
	"github.com/btcsuite/btcd/chainhash/v2"
	"github.com/btcsuite/btcd/wire/v2"
)

// TwoBranch is a fixed block tree with two competing branches that spend the
// same coins differently and re-create a coinbase txid (see BuildTwoBranch).
type TwoBranch struct {
	Params   *chaincfg.Params
	A, B     []*Blk // A[i] is the (i+1)-th block of branch A, B[0] is the first block after the fork
	ForkA    int    // number of A blocks B forks after
	ByHash   map[chainhash.Hash]*Blk
	Universe []wire.OutPoint
	All      []*Blk
}

func twoBranchParams() *chaincfg.Params {
	p := CloneParams(&chaincfg.RegressionNetParams)
	p.CoinbaseMaturity = 2
	p.BIP0034Height = 1_000_000 // off: duplicate coinbases possible, BIP30 enforced
	p.BIP0065Height = 1_000_000
	p.BIP0066Height = 1_000_000
	return p
}

func txOut(v int64, s []byte) *wire.TxOut { return &wire.TxOut{Value: v, PkScript: s} }

func spendTx(ins []wire.OutPoint, outs []*wire.TxOut) *wire.MsgTx {
	tx := wire.NewMsgTx(1)
	for _, op := range ins {
		tx.AddTxIn(&wire.TxIn{PreviousOutPoint: op, Sequence: 0xffffffff})
	}
	for _, o := range outs {
		tx.AddTxOut(o)
	}
	return tx
}

func op(tx *wire.MsgTx, i uint32) wire.OutPoint { return wire.OutPoint{Hash: TxID(tx), Index: i} }

// BuildTwoBranch constructs the fixed block tree.  depth selects how long the two
// branches are (quick: shorter).
func BuildTwoBranch(long bool) *TwoBranch {
	p := twoBranchParams()
	w := &TwoBranch{Params: p, ByHash: map[chainhash.Hash]*Blk{}}
	g := Genesis(p)
	w.ByHash[g.Hash] = g
	sub := Subsidy(1, p)
	dupScript := []byte{0x02, 0xd0, 0x0d}
	dupOuts := []*wire.TxOut{txOut(sub/2, OpTrue), txOut(sub-sub/2, OpTrue)}
	opRet := []byte{0x6a, 0x01, 0x42}
	tag := uint32(100)
	add := func(list *[]*Blk, parent *Blk, name string, o BOpt) *Blk {
		tag++
		o.Tag = tag
		o.Name = name
		b := Build(p, parent, o)
		*list = append(*list, b)
		w.ByHash[b.Hash] = b
		w.All = append(w.All, b)
		return b
	}
	// ---- branch A
	a1 := add(&w.A, g, "A1", BOpt{CoinbaseScript: dupScript, CoinbaseOuts: dupOuts})
	cb := a1.Msg.Transactions[0]
	a2 := add(&w.A, a1, "A2", BOpt{})
	s1 := spendTx([]wire.OutPoint{op(cb, 0)}, []*wire.TxOut{txOut(1000, OpTrue), txOut(sub/2-1000, OpTrue)})
	s2 := spendTx([]wire.OutPoint{op(s1, 0)}, []*wire.TxOut{txOut(1000, OpTrue), txOut(0, opRet)})
	a3 := add(&w.A, a2, "A3", BOpt{Txs: []*wire.MsgTx{s1, s2}})
	t4 := spendTx([]wire.OutPoint{op(cb, 1), op(s1, 1)}, []*wire.TxOut{txOut(sub-1000, OpTrue)})
	a4 := add(&w.A, a3, "A4", BOpt{Txs: []*wire.MsgTx{t4}})
	a5 := add(&w.A, a4, "A5", BOpt{CoinbaseScript: dupScript, CoinbaseOuts: dupOuts}) // re-created txid
	a6 := add(&w.A, a5, "A6", BOpt{})
	// A7 repeats s1 byte for byte: once the coinbase exists again, so can its
	// descendants, with the same txids (s1:0 was created and spent inside A3,
	// s1:1 was created in A3 and spent in A4); A8 spends both incarnations' worth
	a7 := add(&w.A, a6, "A7", BOpt{Txs: []*wire.MsgTx{s1}})
	u8 := spendTx([]wire.OutPoint{op(cb, 1), op(s1, 0), op(s1, 1)}, []*wire.TxOut{txOut(sub, OpTrue)})
	a8 := add(&w.A, a7, "A8", BOpt{Txs: []*wire.MsgTx{u8}})
	if long {
		add(&w.A, a8, "A9", BOpt{CoinbaseScript: dupScript, CoinbaseOuts: dupOuts}) // third incarnation
	}
	// ---- branch B forks after A2
	w.ForkA = 2
	r3 := spendTx([]wire.OutPoint{op(cb, 0), op(cb, 1)}, []*wire.TxOut{txOut(sub, OpTrue)})
	b3 := add(&w.B, a2, "B3", BOpt{Txs: []*wire.MsgTx{r3}})
	b4 := add(&w.B, b3, "B4", BOpt{CoinbaseScript: dupScript, CoinbaseOuts: dupOuts})
	r5 := spendTx([]wire.OutPoint{op(r3, 0)}, []*wire.TxOut{txOut(sub-5, OpTrue), txOut(5, OpTrue)})
	b5 := add(&w.B, b4, "B5", BOpt{Txs: []*wire.MsgTx{r5}})
	z6 := spendTx([]wire.OutPoint{op(cb, 0)}, []*wire.TxOut{txOut(sub/2, OpTrue)})
	b6 := add(&w.B, b5, "B6", BOpt{Txs: []*wire.MsgTx{z6}})
	z7 := spendTx([]wire.OutPoint{op(cb, 1), op(z6, 0), op(r5, 1)}, []*wire.TxOut{txOut(sub, OpTrue), txOut(0, opRet)})
	b7 := add(&w.B, b6, "B7", BOpt{Txs: []*wire.MsgTx{z7}})
	b8 := add(&w.B, b7, "B8", BOpt{})
	if long {
		b9 := add(&w.B, b8, "B9", BOpt{CoinbaseScript: dupScript, CoinbaseOuts: dupOuts})
		add(&w.B, b9, "B10", BOpt{})
	} else {
		// branch B stays the longer one (A ends at height 8)
		add(&w.B, b8, "B9", BOpt{})
	}
	w.Universe = Universe(w.All)
	return w
}
