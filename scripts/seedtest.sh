#!/bin/bash
# usage: scripts/seedtest.sh <ID> <patch.diff> [tier]   — applies a seeded change to /repo, runs the check, reverts.
id=$1; patch=$2; tier=${3:-quick}
cd /repo || exit 2
if ! git diff --quiet; then echo "repo has uncommitted tracked changes; abort"; exit 2; fi
git apply "$patch" || { echo "patch does not apply"; exit 2; }
cd /verif
timeout 3000 ./run.sh $id $tier > /dev/shm/seedtest-$id.log 2>&1; rc=$?
git -C /repo checkout -- .
grep -E "^(VIOLATION|KNOWN|SUMMARY|BROKEN)" /dev/shm/seedtest-$id.log | cut -c1-220 | head -6
grep -A0 "detail:" /dev/shm/seedtest-$id.log | head -3 | cut -c1-400
echo "exit=$rc"
# restore the unchanged-tree evidence afterwards is the caller's job
