#!/bin/bash
# Runs the repository's own test suite with the verif guard OFF (no -tags verif)
# and compares the passing set with /root/.vp/BASELINE.json's stable_pass.
# exit 0 iff every stable_pass test still passes.
out=${1:-/dev/shm/verif-baseline.json}
: > "$out"
for m in . ./address ./btcec ./btcutil ./chaincfg ./chainhash ./psbt ./txscript ./v2transport ./wire; do
  (cd /repo/$m && go test -mod=mod -json -vet=off -count=1 -timeout 25m ./... >> "$out" 2>/dev/null)
done
python3 - "$out" <<'PY'
import json,sys
passed=set()
for l in open(sys.argv[1], errors='replace'):
    try: e=json.loads(l)
    except Exception: continue
    if e.get('Action')=='pass' and e.get('Test'):
        passed.add(e['Package']+'::'+e['Test'])
base=json.load(open('/root/.vp/BASELINE.json'))['stable_pass']
missing=[t for t in base if t not in passed]
print(f"baseline: {len(base)} stable tests, {len(base)-len(missing)} pass now, {len(missing)} missing")
for t in missing[:40]: print("  MISSING", t)
sys.exit(1 if missing else 0)
PY
rc=$?
rm -f "$out"
exit $rc
