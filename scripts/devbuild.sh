#!/bin/bash
# dev helper: build a check while ignoring other agents' in-flux hook files
# usage: scripts/devbuild.sh c02 [keep-pattern]
cd "$(dirname "$0")/.."; . scripts/env.sh
keep=${2:-__none__}
python3 - "$keep" > bin/dev-overlay.json <<'PY'
import glob,json,sys
keep=sys.argv[1]
rep={f:"" for f in glob.glob('/repo/**/verif_c*_export.go', recursive=True) if keep not in f}
print(json.dumps({"Replace":rep}))
PY
$VGO build -overlay bin/dev-overlay.json -tags verif -o bin/$1 ./checks/$1
