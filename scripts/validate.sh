#!/bin/bash
# validates MANIFEST.json and every evidence file against the given schemas
cd "$(dirname "$0")/.."
python3-vt - <<'PY'
import json,jsonschema,glob,sys
ok=True
try:
    jsonschema.validate(json.load(open('MANIFEST.json')), json.load(open('/root/.vp/MANIFEST.schema.json')))
    print('MANIFEST valid')
except Exception as e:
    ok=False; print('MANIFEST INVALID', str(e)[:400])
es=json.load(open('/root/.vp/EVIDENCE.schema.json'))
for f in sorted(glob.glob('evidence/*.json')):
    try:
        jsonschema.validate(json.load(open(f)), es); print(f,'valid')
    except Exception as e:
        ok=False; print(f,'INVALID',str(e)[:400])
sys.exit(0 if ok else 1)
PY
