#!/bin/bash
# usage: scripts/seedall.sh [jobs]   — regression over every seeded change: scratch worktree of /repo HEAD
# (outside /repo and /verif), apply seeded/<id>/patch.diff, run the targeted check's quick tier against it
# (VERIF_REPO), expect exit 1 with a VIOLATION line; the worktree is removed afterwards.
jobs=${1:-3}
out=/dev/shm/seedall; mkdir -p $out; rm -f $out/*.res
one() {
  id=$1; prop=$(python3 -c "import json;m=json.load(open('/verif/seeded/$id/meta.json'));print(m.get('check',m['property']))")
  wt=/tmp/seedall-$id
  git -C /repo worktree remove --force $wt >/dev/null 2>&1; rm -rf $wt
  git -C /repo worktree add --detach $wt HEAD -q || { echo "$id $prop WORKTREE-FAILED" > $out/$id.res; return; }
  if ! git -C $wt apply /verif/seeded/$id/patch.diff 2>$out/$id.apply; then
    echo "$id $prop PATCH-DOES-NOT-APPLY" > $out/$id.res
  else
    VERIF_REPO=$wt timeout 3000 /verif/run.sh $prop quick > $out/$id.log 2>&1; rc=$?
    nv=$(grep -c '^VIOLATION' $out/$id.log)
    echo "$id $prop exit=$rc violations=$nv" > $out/$id.res
  fi
  git -C /repo worktree remove --force $wt >/dev/null 2>&1; rm -rf $wt
}
export -f one; export out
ls /verif/seeded | xargs -P $jobs -I{} bash -c 'one {}'
cat $out/*.res | sort
