ENGINES = [
    dict(name="bfs", path="engine/bfs", serves_properties=["C03"], kind_free_text="explicit-state breadth-first search over real btcd objects; state = shortest event history, successor = replay on a fresh instance + 1 event, dedup on a canonical future-determining key"),
    dict(name="ev", path="engine/ev", serves_properties=["C03"], kind_free_text="evidence writer, verdict lines, known-findings matcher, replay files"),
    dict(name="lab", path="lab", serves_properties=["C03"], kind_free_text="ChainLab: real ffldb+BlockChain instances on /dev/shm, independent block builder and naive reference fold"),
]
NOTES = "All checks are bounded exhaustive enumerations against the real code (see DESIGN.md). ./run.sh <ID> <tier> rebuilds the check from /repo's working tree with -tags verif."

check("C03", "bfs",
      "explicit-state BFS (exhaustive within bounds) over connect/reorg/flush/reopen histories on the real BlockChain, oracle = naive UTXO fold of the active chain",
      "Every history (up to the stated bounds) of block deliveries on two competing branches that re-create a coinbase txid, interleaved with FlushUtxoCache in all three modes, clean/unclean reopen and cache-populating queries, for three cache sizes, is executed on the real chain; after every transition the full UTXO universe, spend journals, TotalTxns and the persisted bucket are compared with an independent fold. States are deduplicated on the complete cache+disk state, so the exploration is exhaustive for the block tree and event bound.",
      "Trusted: ffldb/leveldb commit atomicity (C05), script semantics (lab uses OP_TRUE/OP_RETURN), bound: fixed 2-branch block tree, <=3 (quick) / <=4 (thorough) non-delivery events per history.",
      "DESIGN.md §4 C03")

ENGINES += [
    dict(name="vsched", path="engine/vsched", serves_properties=["C18"], kind_free_text="cooperative scheduler + stateless DFS over schedules of the real code (iterative preemption / deviation bounding, data-choice points, exact quiescence, deadlock = leak detection, replay with divergence check; buffered channels by len/cap, unbuffered channels as a sender-initiated rendezvous)"),
    dict(name="rewrite+vsync+vtime", path="engine/rewrite", serves_properties=["C18"], kind_free_text="go/ast rewriter producing a -overlay that maps sync->vsync and makes goroutines/channel ops/selects/timers of peer.go visible to vsched; regenerated from the current tree on every run"),
]

check("C02", "bfs",
      "explicit-state BFS over all delivery / header / invalidate / reconsider histories on every small block tree, oracle = naive most-work-valid-chain reference + agreement of all views",
      "For every unordered rooted tree up to N blocks and every labelling with invalid blocks (sanity / acceptance / connect time), every history of block deliveries in any order (orphans, one re-delivery), header deliveries and InvalidateBlock/ReconsiderBlock calls is executed on the real BlockChain; after each transition the tip must be a most-work fully-valid delivered chain (first-active wins ties), and BestSnapshot, height<->hash lookups, MainChainHasBlock, BlockByHeight, ChainTips and the connect/disconnect notification stream must agree.",
      "Bounds: N<=4 quick / <=5 thorough, <=1-2 invalid blocks, <=2 invalidate/reconsider events; equal work per block, blocks below depth 1 carry 1..3 transactions (BestSnapshot TotalTxns/NumTxns/Bits/BlockSize/MedianTime are compared with the active chain's blocks); orphan expiry and the 100-orphan cap outside the horizon. The InvalidateBlock/ReconsiderBlock defects it found are repaired (known_findings.json, fixed).",
      "DESIGN.md §4 C02")
check("C11", "enum",
      "exhaustive enumeration of boundary grids (messages x keys x (r,s) x pubkey byte shapes, all DER strings with <=2 grammar deviations, all MuSig2 signer lists/orders/tweak chains) against an independent math/big reference",
      "Every case runs on btcec/ecdsa/schnorr/musig2 and is compared with refec (affine big.Int secp256k1, ECDSA, BIP340, BIP327, DER grammar model) which is first bound to the shipped BIP340/BIP327/RFC6979 vectors.",
      "Trusted: decred secp256k1 field/group arithmetic (module cache); values outside the boundary alphabets are not reached. The musig2 nonce-encoding defect it found is repaired (known_findings.json, fixed). CombineSigs-style helpers are also checked for input preservation and repeatability.",
      "DESIGN.md §4 C11")
check("C13", "enum",
      "exhaustive small-scope enumeration (tx lists 0..33, all coinbase layouts, all scripts <=3 tokens, all coinbase-height prefixes, lock-time/sequence-lock boundary products on real chains) against a naive reference",
      "Merkle roots through every construction path, witness commitment extraction/validation, weight, sigop cost, coinbase height extraction, finality and BIP68 sequence locks are compared with refmerkle (no btcd imports), bound first to 264 shipped blocks and tx_valid.json.",
      "Trusted: sha256. Sig-op cost kinds include witness programs spent with no / an empty witness. Sequence locks: exported CalcSequenceLock on every best-chain tip of 10 lab chains, and (hook VerifCalcSequenceLockAt) calcSequenceLock from every block of an inactive side branch in 60 two-branch worlds.",
      "DESIGN.md §4 C13")
check("C15", "enum",
      "exhaustive enumeration of values (all VLQ < 2^21, all amounts < 10^6 + boundaries, script classes x curve points, entry/journal shapes) and of hostile byte strings (all strings <=3 bytes, VLQ-overflow family, every truncation) against an independent codec",
      "Encode side: bytes == reference bytes, size == length, decode(encode)=id; hostile side: value or error, never a panic, out-of-range slice or oversized allocation. Reference bound to the literal examples in the format comments and tests.",
      "Calls predicted to allocate > 4 MiB are not executed (would OOM the harness) and are counted.",
      "DESIGN.md §4 C15")
check("C16", "enum",
      "exhaustive enumeration (payload patterns x networks x address types, witness version x every program length, every edit-distance-1 string and distance-2 on the checksum, all BIP32 paths of depth<=3 over 6 boundary indices, every taproot tree shape <=6 leaves) against an independent reference",
      "Round trips, network separation, address<->script agreement, rejection of corrupted strings (accepted only if the reference decoder accepts them), WIF, BIP32 derivation incl. Neuter commutation, taproot control blocks; refaddr is bound to the shipped BIP173/350/32/86 and taproot-ref vectors.",
      "Edit distance 3-4 not enumerated; sha256/ripemd160 trusted.",
      "DESIGN.md §4 C16")
check("C18", "vsched",
      "stateless exploration of thread schedules of the real peer code under a cooperative scheduler (all schedules with <=k deviations, deadlock/leak detection, schedule replay) + exhaustive enumeration of remote frame sequences against a reference handshake state machine + separate free-running -race pass",
      "peer.go is compiled through an overlay (sync->vsync, goroutines/channels/selects/timers hooked) regenerated from the current tree. (a) every sequence of <=3 (quick) / <=4 (thorough) remote frames over a 17-frame alphabet, both directions; (b) QueueMessage/QueueInventory callers vs Disconnect / remote close / write errors / inbound ping / trickle tick: FIFO on the wire, completion signalled exactly once for sends queued before the disconnect request, no goroutine left blocked after WaitForDisconnect.",
      "Atomics are not scheduling points; timers fire only when the harness says so; deviation bound 2 (quick; 3 for the inbound-ping and two-caller cases) / 3 (thorough); lifecycle cases cover a silent / version-only remote during the handshake ended by API disconnect, remote close or timeout, and a peer paired with itself. Unbuffered channels are modelled as a rendezvous; a construct the scheduler does not model stops the check as BROKEN-CHECK rather than passing. Data races only via the separate -race pass (sampling, reported as such). The stallHandler and handshake-queue defects it found are repaired (known_findings.json, fixed).",
      "DESIGN.md §4 C18, §3.1")
check("C19", "enum",
      "exhaustive enumeration of handshake configurations (roles x garbage lengths x decoys), long packet schedules across rekeys and every single-position tampering of the stream, with an independent BIP324 implementation playing the other endpoint",
      "refbip324 (own ChaCha20/Poly1305/HKDF/ElligatorSwift over math/big) is bound to the shipped BIP324 vectors, then acts as the remote: session ids, every ciphertext byte, delivery order and contents must agree; any modification/truncation/reorder/duplication must be reported and never deliver altered plaintext.",
      "Keys from a fixed pool; crypto/rand replaced by a seeded stream for reproducibility; thorough covers all garbage lengths 0..4095 per side. Packet schedules include contents at the 2^24 length limit; slices handed to / returned by the API are checked for later modification.",
      "DESIGN.md §4 C19")
check("C20", "enum",
      "exhaustive enumeration (all multisets <=4/5 elements x P x M x keys, all query subsets, every 2^n matched subset of n-tx blocks, all murmur3 inputs <=2/3 bytes, bloom parameter grids) against independent BIP158/BIP37 references",
      "GCS bytes/round trips/no false negatives/batch==element-wise, BuildBasicFilter element set and BIP157 header chain (incl. the cfindex on real chains), bloom no-false-negatives and MatchTxAndUpdate semantics, merkle blocks verified by the BIP37 extraction algorithm; references bound to shipped vectors.",
      "siphash/murmur written independently; large-N filters use fixed deterministic element lists.",
      "DESIGN.md §4 C20")

check("C04", "crashdb+crash-images",
      "crash-point enumeration: (1) for every durable commit k of each workload (and, nested, every commit j of the recovery, also with a different cache size on restart) the process dies and the store is reopened; (2) for every prefix of the block-file I/O log x subsets of unsynced writes lost x torn last write x flush regime, the crash image is reopened through ffldb reconcile + blockchain.New; both compared with the naive fold",
      "Workloads (extension with spends and re-created txids, reorganisation there and back, invalid block, pruning with tiny block files) x utxo-cache sizes; after each reopen: no error, tip previously active, full UTXO universe == fold of the tip's chain, acknowledged blocks still known, re-feeding converges to the uninterrupted run.",
      "goleveldb atomic/durable per commit (its observed write markers are part of the crash log); only bytes not covered by a later Sync may be lost or torn; subset caps reported. Known finding: a block stored but not yet connected when the process died is refused as a duplicate on re-delivery. The prune-ordering defect (node could not restart after a crash during pruning) is repaired (known_findings.json, fixed).",
      "DESIGN.md §4 C04")
check("C07", "enum",
      "exhaustive enumeration of tx shapes x input index x every one-byte hash type x script codes x annex/codesep variants against independent legacy/BIP143/BIP341 digests; signer round trips and per-field commitment mutations through the real engine",
      "Digests byte for byte (fresh midstate, shared HashCache), SigCache cold/warm agreement, every helper of sign.go for 28 spend kinds verifies under StandardVerifyFlags, and a mutated field makes the signature fail iff the reference digest changes. refsighash is bound to sighash.json, tx_valid.json and the taproot-ref vectors.",
      "Signature math itself is C11's subject; sha256 trusted. Inputs handed to the digest/sign helpers are private copies compared afterwards (no mutation of the caller's transaction); each mutation run uses its own SigCache; midstates are also computed before witnesses exist (signing flow).",
      "DESIGN.md §4 C07")
check("C08", "enum",
      "exhaustive enumeration of per-field boundary domains for all 31 message types x 28 protocol versions x encodings against table-driven reference layouts, and of hostile byte strings (all strings <=2 bytes, every truncation / single-byte substitution / non-minimal or oversized count of each valid encoding) with allocation measurement in single-goroutine worker processes",
      "Encode == reference bytes, decode(encode)=id, sizes, hashes, btcutil wrappers, framing; hostile input: value or error, never a panic, allocation <= 5 x MaxMessagePayload, accepted input re-encodes to the consumed bytes (documented per-message exemptions).",
      "Known finding: wtxidrelay frame is not readable. Pairs of substitutions only in thorough and only inside count/length/flag fields. A stability phase decodes every accepted input twice and through every call order of the btcutil.Block/Tx accessors; the btcutil.Block.Transactions defect it found is repaired (known_findings.json, fixed).",
      "DESIGN.md §4 C08")
check("C09", "enum",
      "exhaustive enumeration: compact grid (quick) / all 2^32 compact values (thorough, time-boxed), targets 2^k±1, header histories around every retarget boundary for mainnet/testnet3/testnet4/no-retarget-like parameter sets, all timestamp orders for MTP, all halving boundaries, against a math/big reference written from Core",
      "CompactToBig/BigToCompact/CalcWork/PoW range verdict, calcNextRequiredDifficulty and header-context acceptance through ProcessBlockHeader, median time past, subsidy schedule and 21M cap, strictly increasing cumulative work; refpow bound to Core's arith_uint256/pow test literals and the shipped genesis blocks.",
      "Where Core's 256-bit arithmetic would wrap (powLimit > 2^232) equality is not demanded; negative inexact big.Ints are outside the property's domain. The header DFS also checks the easiest-difficulty bound used below checkpoints as a necessary condition (hook VerifC09EasiestDifficulty), except on min-difficulty networks.",
      "DESIGN.md §4 C09")

check("C14", "enum",
      "exhaustive enumeration of all vote patterns over several confirmation windows (complete binary vote trees in one real block index), deployment-definition products, two-arm forks with every query order on a shared cache, against a cache-free BIP9 reference; end-to-end rule gating with real blocks",
      "Threshold state at every node for 6 deployments per chain, CalcNextBlockVersion, IsDeploymentActive, absorbing Active/Failed, order-independence of queries (all 4!/5! orders from empty caches), and CSV enforcement switching on exactly at the first Active block on both arms of a fork (real ProcessBlock). refbip9 is bound to the repo's thresholdstate and bip0009 integration test rows.",
      "Window 3 only; BIP9's precondition (start <= timeout, timestamps above MTP) respected; speedy/plain mode as btcd documents it.",
      "DESIGN.md §4 C14")
check("C17", "enum+dfs",
      "exhaustive enumeration of every rooted tree shape (<=8 quick / <=10 thorough nodes) x every tip x all node pairs/heights/locators/stops/maxima against naive parent walks, deep two-branch families for the skip list, and a path-sharing DFS over every interleaving of header and block deliveries on real chains",
      "Ancestor/FindFork/locators/LocateBlocks/LocateHeaders/HeightRange/IntervalBlockHashes/HeightToHashRange and the chain-view API on index-only chains; on real lab chains BestHeader, IsValidHeader, HeaderHashByHeight, BestChainHeaderForkHeight, refusal of headers below an invalid block, and equality of the final chain with a blocks-only delivery. Reference bound to the doc-comment examples and the TestLocateInventory/TestHeightToHashRange vectors.",
      "Part (b'): manual invalidation probes (every tree <= K blocks x knowledge vector x invalidated node: headers below it refused, accepted again after ReconsiderBlock). Part (b): trees <=4 (quick; plus the 5-block configurations where the invalid block has a descendant two levels below it and a competing branch, and the K+1 reorganisation-failure family) / <=5 (thorough) blocks, one kind of invalid block, block deliveries parents-first or while the parent is known by header only (orphan pool); worlds with equal and with mixed per-block difficulty (most work != most blocks).",
      "DESIGN.md §4 C17")

check("C06", "enum",
      "exhaustive enumeration of script programs (every byte string <=2/3 bytes in 7 placements, every token sequence <=2-4 over a 132/50-token alphabet x initial stacks x bare/P2SH/P2WSH/tapscript wrappings, signature-opcode shape products, exact-limit programs, lock-time grids) x the flag sets block validation and relay can produce, against an independent interpreter written from Bitcoin Core's semantics",
      "NewEngine(...).Execute()==nil must equal refscript.VerifyScript for every case and btcd must never panic; refscript reproduces all of script_tests.json, tx_valid/tx_invalid.json and the taproot-ref corpus before anything is compared. A disagreement is labelled with a named deviation only when the reference with exactly that emulated deviation agrees with btcd on the case (so mutants keep generic keys).",
      "Signature equation via btcec (C11's subject); programs longer than the bounds only via the constructed limit cases; 7 known deviations from Core are listed in known_findings.json (2 consensus-level in obscure/historical paths, 5 relay-policy-level).",
      "DESIGN.md §4 C06")

check("C01", "enum",
      "exhaustive enumeration of a rule catalogue (every consensus rule exactly at and one past its limit, all other rules satisfied) x 15 chain contexts (tip, reorg, deferred, orphan, headers-first, template check, reopen, unrelated forks, sibling orders) x cache sizes x parameter sets, verdicts compared with an independent contextual block validator and with each other across contexts",
      "Every candidate's label is reproduced by refblock (independent serialisation, merkle, sigops, subsidy, MTP, finality, BIP30/34/65/66/68/113/141, scripts via refscript) before btcd is consulted; btcd's verdict is read from BestSnapshot/MainChainHasBlock/ChainTips after the deliveries of the context. refblock is bound to fullblocktests.Generate (182 blocks) and the shipped block data.",
      "One rule violated per candidate; segwit/taproot active from genesis except in the late-segwit world (activation at height 8, candidates on both sides of the boundary); orphan-sibling delivery orders; retargeting/min-difficulty/BIP94 parameter sets in thorough only.",
      "DESIGN.md §4 C01")
check("C05", "dfs+fault+crash+vsched",
      "DFS with state hashing over operation sequences on the real ffldb vs a reference ordered-map model; every single (and second) I/O call failed in turn; every crash image (write-log prefix x dropped unsynced writes x torn last write) reopened; stateless exploration of reader/writer thread schedules under a cooperative scheduler (sync->vsync overlay) + free-running -race pass",
      "(a) every sequence of <= D bucket/key/cursor/block/prune operations in <= 3 transactions, per file-size regime and flush policy, compared op by op and dump by dump (also after reopen); (a') exhaustive treap op sequences with every earlier version re-checked; (b) fault enumeration with atomicity oracle; (c) crash enumeration with prefix-durability oracle; (d) all schedules with <= 2/3 deviations of one writer (cache commit, flush-path commit, cache commit) against readers: every snapshot is repeatable and equals the state after a prefix of the commits.",
      "goleveldb atomic/durable per commit; directory operations durable. Scheduler scenarios include two read-modify-write writers (lost-update oracle); bulk fetches are asked in non-disk order with a distinct region per block. The defects it found (snapshot outside the lock, region bound, treap iterator, roll-over sync, prune ordering, cursor direction change) are repaired (known_findings.json, fixed).",
      "DESIGN.md §4 C05")
check("C10", "bfs+enum",
      "explicit-state BFS over histories of ProcessTransaction/MaybeAcceptTransaction/RemoveTransaction/RemoveDoubleSpends/ProcessOrphans/block connect/disconnect (through the real netsync handler) on the real TxPool, invariants after every transition; exhaustive replacement-threshold grid; free-running -race pass for the concurrency clause",
      "I1 no double spend, I2 spend index == pool, I3 inputs available, I4 orphan bounds, I5 the pool in dependency order passes CheckConnectBlockTemplate, I6 rejected calls and CheckMempoolAcceptance change nothing, I7 replacement rules (evicted set, <=100, absolute fee, strictly higher fee rate than every evicted tx) computed by an independent reference from the pre-state; 8 policy configurations.",
      "Every TxPool method holds the pool mutex for its whole duration, so lock-granularity interleavings are the sequential orders the BFS covers; data races only via the -race pass (sampling). Worlds with witness spends, version-2 transactions with relative lock-times and a custom TxVersion. Known finding: sequence locks are not re-checked for pooled transactions after a reorganisation.",
      "DESIGN.md §4 C10")
check("C12", "enum",
      "exhaustive enumeration of pool states (all subsets of an 8-tx universe in both submission orders + constructed limit pools) x 9 tip worlds (plain, halving, after reorg, segwit boundary, MTP ahead) x mining policies x source orders, every template validated by full consensus on a fresh identical chain and recomputed by a naive reference",
      "NewBlockTemplate succeeds; solved block accepted by ProcessBlock on a fresh chain; topological order; weight/size/sigops within policy and consensus; coinbase == subsidy + fees exactly; witness commitment correct; Fees/SigOpCosts equal naive values; UpdateBlockTime/UpdateExtraNonce keep it valid.",
      "Known finding: Policy.BlockMaxSize is not enforced by the generator. Rate limiter off (reads the wall clock). Worlds include MTP equal to the tip time, a min-difficulty network with the clock crossing tip+20 min, and P2SH spends in the pool.",
      "DESIGN.md §4 C12")
