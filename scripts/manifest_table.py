ENGINES = [
    dict(name="bfs", path="engine/bfs", serves_properties=["C03"], kind_free_text="explicit-state breadth-first search over real btcd objects; state = shortest event history, successor = replay on a fresh instance + 1 event, dedup on a canonical future-determining key"),
    dict(name="ev", path="engine/ev", serves_properties=["C03"], kind_free_text="evidence writer, verdict lines, known-findings matcher, replay files"),
    dict(name="lab", path="lab", serves_properties=["C03"], kind_free_text="ChainLab: real ffldb+BlockChain instances on /dev/shm, independent block builder and naive reference fold"),
]
NOTES = "All checks are bounded exhaustive enumerations against the real code (see DESIGN.md). ./run.sh <ID> <tier> rebuilds the check from /repo's working tree with -tags verif."

check("C03", "bfs",
      "explicit-state BFS (exhaustive within bounds) over connect/reorg/flush/reopen histories on the real BlockChain, oracle = naive UTXO fold of the active chain",
      "Every history (up to the stated bounds) of block deliveries on two competing branches that re-create a coinbase txid, interleaved with FlushUtxoCache in all three modes, clean/unclean reopen and cache-populating queries, for three cache sizes, is executed on the real chain; after every transition the full UTXO universe, spend journals, TotalTxns and the persisted bucket are compared with an independent fold. States are deduplicated on the complete cache+disk state, so the exploration is exhaustive for the block tree and event bound.",
      "Trusted: ffldb/leveldb commit atomicity (C05), script semantics (lab uses OP_TRUE/OP_RETURN), bound: fixed 2-branch block tree, <=3 (quick) / <=4 (thorough) non-delivery events per history.",
      "DESIGN.md §4 C03")
