#!/bin/bash
# usage: scripts/seedverify.sh <ID> <module-rel-dir> <pkg> <demo -run regex> [extra test pkgs...]
# Confirms in the scratch worktree /tmp/seed-<ID>: demo fails with the change, passes without, package tests pass with it.
id=$1; mod=$2; pkg=$3; rx=$4; shift 4
wt=/tmp/seed-$id; demo=/tmp/seed-$id-demo
cd $wt/$mod || exit 2
git -C $wt diff -- . ':!*zz_seed_demo_test.go' > /tmp/seed-$id.cur.diff
cmp -s /tmp/seed-$id.cur.diff $demo/patch.diff && echo "patch==worktree diff: yes" || echo "patch==worktree diff: NO"
go test -mod=mod -vet=off -count=1 -run "$rx" $pkg > /tmp/seed-$id.with.log 2>&1; echo "demo with change: exit $? (expect non-zero)"
git -C $wt apply -R $demo/patch.diff
go test -mod=mod -vet=off -count=1 -run "$rx" $pkg > /tmp/seed-$id.without.log 2>&1; echo "demo without change: exit $? (expect 0)"
git -C $wt apply $demo/patch.diff
go test -mod=mod -vet=off -count=1 -skip "TestFlushOnPrune|TestInitConsistentState|$rx" $pkg "$@" > /tmp/seed-$id.tests.log 2>&1; echo "existing tests with change: exit $? (expect 0)"
tail -3 /tmp/seed-$id.tests.log
