#!/usr/bin/env python3
"""Regenerates /verif/MANIFEST.json from the table below (single source of truth)."""
import json, os, subprocess
ROOT = os.path.dirname(os.path.dirname(os.path.abspath(__file__)))

CHECKS = {}
NA = {}

def check(pid, engine, technique, text, note, design_ref):
    CHECKS[pid] = dict(
        property_id=pid,
        quick_cmd=f"./run.sh {pid} quick",
        thorough_cmd=f"./run.sh {pid} thorough",
        evidence_file=f"/verif/evidence/{pid}.json",
        replay_cmd_template=f"./run.sh {pid} replay {{path}}",
        engine=engine,
        level_claimed=dict(category="model_checking", text=text, design_ref=design_ref),
        level_note=note,
        technique=technique,
    )

exec(open(os.path.join(ROOT, "scripts", "manifest_table.py")).read())

props = [json.loads(l)["id"] for l in open(os.path.join(ROOT, "properties.jsonl"))]
na = [dict(property_id=p, reason=NA.get(p, "check not built yet in this session (planned in DESIGN.md); not claimed until it exists and passes")) for p in props if p not in CHECKS]
hooks_commits = subprocess.run(["git", "-C", "/repo", "log", "--format=%h %s", "--grep=^verif hooks"], capture_output=True, text=True).stdout.strip().splitlines()
m = dict(
    version=1,
    setup_cmd="./scripts/setup.sh",
    hooks=dict(
        guard="verif",
        enable="go build -tags verif (hook files are new *verif*.go files guarded by //go:build verif; run.sh passes the tag)",
        baseline_off_cmd="./scripts/baseline.sh",
        source_commits=[c.split()[0] for c in hooks_commits],
        add_only=True,
    ),
    engines=ENGINES,
    checks=[CHECKS[p] for p in props if p in CHECKS],
    not_applicable=na,
    notes=NOTES,
)
json.dump(m, open(os.path.join(ROOT, "MANIFEST.json"), "w"), indent=1)
print("checks:", [c["property_id"] for c in m["checks"]], "not claimed:", [n["property_id"] for n in na])
