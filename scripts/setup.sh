#!/bin/bash
# Offline setup after a fresh restore: writes go.sum from the repo's own sums and
# pre-builds every check binary (warms the Go build cache so that the first
# check does not pay the cold build).
cd "$(dirname "$0")/.." || exit 2
. scripts/env.sh
cat /repo/go.sum /repo/*/go.sum 2>/dev/null | sort -u > go.sum.new
# keep extra sums already present (harness-only deps)
cat go.sum go.sum.new 2>/dev/null | sort -u > go.sum.merged && mv go.sum.merged go.sum; rm -f go.sum.new
mkdir -p bin evidence
rc=0
for d in checks/*/; do
  n=$(basename "$d")
  if [ -x "$d/setup.sh" ]; then "$d/setup.sh" || rc=2; continue; fi
  if ls "$d"/*.go >/dev/null 2>&1; then
    $VGO build -tags verif -o "bin/$n" "./$d" || { echo "setup: build of $n failed"; rc=2; }
  fi
done
exit $rc
