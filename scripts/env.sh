# sourced by every script: offline Go environment that builds /repo's working tree
export GOROOT_125=/root/go/pkg/mod/golang.org/toolchain@v0.0.1-go1.25.0.linux-amd64
if [ -x "$GOROOT_125/bin/go" ]; then
  export VGO="$GOROOT_125/bin/go"
else
  export VGO="$(command -v go1.26 || command -v go)"
fi
export GOTOOLCHAIN=local GOFLAGS=-mod=mod GOPROXY=off GOSUMDB=off
export GOCACHE=${GOCACHE:-/root/.cache/go-build}
