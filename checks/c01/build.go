package main

// Builder-side helpers: fixed keys, script templates and signing.  The builder
// may use btcd's signing helpers (it only has to *produce* candidates); the
// verdict oracle (verif/ref/refblock + refscript) never does.

import (
	"crypto/sha256"
	"time"

	"github.com/btcsuite/btcd/btcec/v2"
	"github.com/btcsuite/btcd/txscript/v2"
	"github.com/btcsuite/btcd/wire/v2"

	"verif/lab"
	"verif/ref/refscript"
)

func fixedKey(name string) *btcec.PrivateKey {
	h := sha256.Sum256([]byte("verif-c01-key-" + name))
	k, _ := btcec.PrivKeyFromBytes(h[:])
	return k
}

var (
	key1 = fixedKey("1")
	key2 = fixedKey("2")
)

func pub(k *btcec.PrivateKey) []byte { return k.PubKey().SerializeCompressed() }

func push(b []byte) []byte { return refscript.PushData(b) }

func cat(parts ...[]byte) []byte {
	var out []byte
	for _, p := range parts {
		out = append(out, p...)
	}
	return out
}

func rep(op byte, n int) []byte {
	out := make([]byte, n)
	for i := range out {
		out[i] = op
	}
	return out
}

const (
	opIf     = 0x63
	opEndIf  = 0x68
	opDrop   = 0x75
	opDup    = 0x76
	opEqual  = 0x87
	opEqualV = 0x88
	opHash   = 0xa9
	opCS     = 0xac
	opCMS    = 0xae
	opCLTV   = 0xb1
	opCSV    = 0xb2
	op16     = 0x60
	op1      = 0x51
)

func p2pkh(k *btcec.PrivateKey) []byte {
	return cat([]byte{opDup, opHash, 0x14}, refscript.Hash160(pub(k)), []byte{opEqualV, opCS})
}
func p2sh(redeem []byte) []byte {
	return cat([]byte{opHash, 0x14}, refscript.Hash160(redeem), []byte{opEqual})
}
func p2wsh(ws []byte) []byte {
	h := sha256.Sum256(ws)
	return cat([]byte{0x00, 0x20}, h[:])
}
func p2wpkh(k *btcec.PrivateKey) []byte {
	return cat([]byte{0x00, 0x14}, refscript.Hash160(pub(k)))
}

// deadBranch is "OP_0 OP_IF <ops> OP_ENDIF OP_1": the ops are counted by every
// static sigop counter but never executed, so the script needs no signatures.
func deadBranch(ops []byte) []byte {
	return cat([]byte{0x00, opIf}, ops, []byte{opEndIf, op1})
}

// dropScript is "OP_DROP OP_1": spends with one arbitrary stack item.
var dropScript = []byte{opDrop, op1}

// signP2PKH returns the scriptSig "<sig> <pubkey>" for input idx.
func signP2PKH(tx *wire.MsgTx, idx int, k *btcec.PrivateKey, pkScript []byte) []byte {
	s, err := txscript.SignatureScript(tx, idx, pkScript, txscript.SigHashAll, k, true)
	if err != nil {
		panic(err)
	}
	return s
}

// signP2PKHNonDER is signP2PKH with R padded by one superfluous zero byte: a
// signature every lax (pre-BIP66) parser accepts and strict DER rejects.
func signP2PKHNonDER(tx *wire.MsgTx, idx int, k *btcec.PrivateKey, pkScript []byte) []byte {
	sig, err := txscript.RawTxInSignature(tx, idx, pkScript, txscript.SigHashAll, k)
	if err != nil {
		panic(err)
	}
	// 30 L 02 rl R 02 sl S ht
	rl := int(sig[3])
	r := sig[4 : 4+rl]
	rest := sig[4+rl:] // 02 sl S ht
	out := []byte{0x30, sig[1] + 1, 0x02, byte(rl + 1), 0x00}
	out = append(out, r...)
	out = append(out, rest...)
	return cat(push(out), push(pub(k)))
}

// signP2WPKH returns the witness for a P2WPKH (or P2SH-P2WPKH) input.
func signP2WPKH(tx *wire.MsgTx, idx int, amt int64, k *btcec.PrivateKey) wire.TxWitness {
	sc := p2pkh(k) // BIP143 script code of a P2WPKH program
	hashes := txscript.NewTxSigHashes(tx, txscript.NewCannedPrevOutputFetcher(p2wpkh(k), amt))
	w, err := txscript.WitnessSignature(tx, hashes, idx, amt, p2wpkh(k), txscript.SigHashAll, k, true)
	_ = sc
	if err != nil {
		panic(err)
	}
	return w
}

// ---------------------------------------------------------------------------
// chain helpers

func blkTime(b *lab.Blk) int64 { return b.Msg.Header.Timestamp.Unix() }

// mtpOf is the median time past of the chain ending at b (builder-side helper;
// the reference has its own).
func mtpOf(b *lab.Blk) int64 {
	var ts []int64
	for n, i := b, 0; n != nil && i < 11; n, i = n.Parent, i+1 {
		ts = append(ts, blkTime(n))
	}
	for i := 1; i < len(ts); i++ {
		for j := i; j > 0 && ts[j] < ts[j-1]; j-- {
			ts[j], ts[j-1] = ts[j-1], ts[j]
		}
	}
	return ts[len(ts)/2]
}

// childTime picks a valid timestamp for a filler block built on parent.
func childTime(parent *lab.Blk) time.Time {
	t := blkTime(parent)
	if m := mtpOf(parent); m > t {
		t = m
	}
	t++
	if t > lab.Now.Unix()+2*3600 {
		t = mtpOf(parent) + 1
	}
	return time.Unix(t, 0)
}

// out is a named funded output of a world.
type out struct {
	Op     wire.OutPoint
	Value  int64
	Script []byte
	Height int32
}

// spend builds a transaction spending the given outputs (empty scriptSigs:
// callers fill in what the script type needs) into the given outputs.
func spendTx(version int32, ins []out, seq uint32, outs []*wire.TxOut, lock uint32) *wire.MsgTx {
	tx := wire.NewMsgTx(version)
	for _, o := range ins {
		tx.AddTxIn(&wire.TxIn{PreviousOutPoint: o.Op, Sequence: seq})
	}
	for _, o := range outs {
		tx.AddTxOut(o)
	}
	tx.LockTime = lock
	return tx
}

func txo(v int64, script []byte) *wire.TxOut { return &wire.TxOut{Value: v, PkScript: script} }

func outpoint(tx *wire.MsgTx, i uint32) wire.OutPoint {
	return wire.OutPoint{Hash: lab.TxID(tx), Index: i}
}
