package main

// Binding of the reference validator to ground truth the repository ships: the
// consensus test vectors produced by blockchain/fullblocktests (the ~280-block
// sequence the repo's own TestFullBlocks replays on regtest parameters, each
// block annotated with accepted / rejected + reject code).  Every main-chain
// accepted block must be valid for the reference, every rejected block invalid
// with the rule class that corresponds to the annotated reject code.  A
// disagreement is a broken oracle (exit 2), never a violation.

import (
	"bytes"
	"compress/bzip2"
	"encoding/binary"
	"io"
	"math/big"
	"os"
	"path/filepath"
	"time"

	"github.com/btcsuite/btcd/blockchain"
	"github.com/btcsuite/btcd/blockchain/fullblocktests"
	"github.com/btcsuite/btcd/chaincfg/v2"
	"github.com/btcsuite/btcd/chainhash/v2"
	"github.com/btcsuite/btcd/wire/v2"

	"verif/engine/ev"
	"verif/ref/refblock"
)

// classOf maps btcd reject codes used by the vectors to reference rule classes
// (any one of the listed classes must be reported).
var classOf = map[blockchain.ErrorCode][]string{
	blockchain.ErrBadCoinbaseValue:          {"cb-value"},
	blockchain.ErrTooManySigOps:             {"sigops"},
	blockchain.ErrMissingTxOut:              {"missing-input"},
	blockchain.ErrImmatureSpend:             {"immature"},
	blockchain.ErrBlockTooBig:               {"size", "weight"},
	blockchain.ErrBlockWeightTooHigh:        {"weight"},
	blockchain.ErrFirstTxNotCoinbase:        {"first-not-coinbase"},
	blockchain.ErrMultipleCoinbases:         {"multiple-coinbase"},
	blockchain.ErrBadMerkleRoot:             {"merkle"},
	blockchain.ErrDuplicateTx:               {"dup-tx"},
	blockchain.ErrUnexpectedDifficulty:      {"bits-expected", "bits-range"},
	blockchain.ErrTimeTooOld:                {"time-mtp"},
	blockchain.ErrTimeTooNew:                {"time-future"},
	blockchain.ErrHighHash:                  {"pow-hash"},
	blockchain.ErrSpendTooHigh:              {"value"},
	blockchain.ErrBadTxOutValue:             {"txout-range"},
	blockchain.ErrBadCoinbaseScriptLen:      {"cb-script-len"},
	blockchain.ErrNoTransactions:            {"no-tx"},
	blockchain.ErrNoTxInputs:                {"tx-no-inputs"},
	blockchain.ErrNoTxOutputs:               {"tx-no-outputs"},
	blockchain.ErrDuplicateTxInputs:         {"dup-input"},
	blockchain.ErrBadTxInput:                {"null-prevout"},
	blockchain.ErrUnfinalizedTx:             {"nonfinal", "bip68"},
	blockchain.ErrBadCoinbaseHeight:         {"bip34"},
	blockchain.ErrMissingCoinbaseHeight:     {"bip34"},
	blockchain.ErrOverwriteTx:               {"bip30"},
	blockchain.ErrBlockVersionTooOld:        {"version"},
	blockchain.ErrScriptMalformed:           {"script"},
	blockchain.ErrScriptValidation:          {"script"},
	blockchain.ErrUnexpectedWitness:         {"wc-unexpected-witness"},
	blockchain.ErrInvalidWitnessCommitment:  {"wc-nonce"},
	blockchain.ErrWitnessCommitmentMismatch: {"wc-mismatch"},
}

var stageB = map[string]bool{"bip30": true, "missing-input": true, "immature": true, "input-range": true, "value": true,
	"bip68": true, "sigops": true, "script": true, "cb-value": true}

// bindLiteralVectors: (a) the coinbase-height vectors of the repo's
// TestCheckSerializedHeight (blockchain/validate_test.go), (b) the first mainnet
// block file blockchain/testdata/blk_0_to_4.dat.bz2 (a synthetic five-block
// chain at real mainnet difficulty that the repo's TestHaveBlock /
// TestNotifications accept with mainnet parameters and coinbase maturity 1; with
// maturity 100 block 2 spends an immature coinbase, which the reference must
// also see; with the nonce changed the proof of work must fail).
func bindLiteralVectors(r *ev.Run) {
	hv := []struct {
		script []byte
		height int32
		ok     bool
	}{
		{[]byte{}, 0, false},
		{[]byte{0x02}, 0, false},
		{[]byte{0x02, 0x4a}, 0, false},
		{[]byte{0x02, 0x4a, 0x52}, 21066, true},
		{[]byte{0x02, 0x4a, 0x52}, 19026, false},
		{[]byte{0x03, 0x40, 0x0d, 0x03}, 200000, true},
		{[]byte{0x03, 0x40, 0x0d, 0x03}, 1074594560, false},
	}
	for i, v := range hv {
		if got := refblock.HeightPrefixOK(v.script, v.height); got != v.ok {
			r.Broken("TestCheckSerializedHeight vector #%d: reference says %v, shipped vector says %v", i, got, v.ok)
		}
	}
	repo := os.Getenv("VERIF_REPO")
	if repo == "" {
		repo = "/repo"
	}
	f, err := os.Open(filepath.Join(repo, "blockchain/testdata/blk_0_to_4.dat.bz2"))
	if err != nil {
		r.Broken("shipped mainnet blocks: %v", err)
	}
	defer f.Close()
	raw, err := io.ReadAll(bzip2.NewReader(f))
	if err != nil {
		r.Broken("shipped mainnet blocks: %v", err)
	}
	var blocks []*wire.MsgBlock
	for len(raw) >= 8 {
		if binary.LittleEndian.Uint32(raw) != uint32(wire.MainNet) {
			break
		}
		n := int(binary.LittleEndian.Uint32(raw[4:]))
		if len(raw) < 8+n {
			r.Broken("shipped mainnet blocks: truncated file")
		}
		var b wire.MsgBlock
		if err := b.Deserialize(bytes.NewReader(raw[8 : 8+n])); err != nil {
			r.Broken("shipped mainnet blocks: %v", err)
		}
		blocks = append(blocks, &b)
		raw = raw[8+n:]
	}
	if len(blocks) != 5 {
		r.Broken("shipped mainnet blocks: got %d blocks, want 5", len(blocks))
	}
	limit := new(big.Int).Sub(new(big.Int).Lsh(big.NewInt(1), 224), big.NewInt(1))
	mp := &refblock.Params{PowLimit: limit, ExpectedBits: func([]wire.BlockHeader, int64) uint32 { return 0x1d00ffff },
		BIP34Height: 227931, BIP66Height: 363725, BIP65Height: 388381, CSVHeight: 419328, SegwitHeight: 481824, TaprootHeight: 709632,
		Maturity: 1, HalvingInterval: 210000, BIP16Time: 1333238400, BIP30Always: true}
	st := refblock.NewState(blocks[0])
	now := int64(1_300_000_000)
	mp100 := *mp
	mp100.Maturity = 100
	sawImmature := false
	for h, b := range blocks[1:] {
		if v := refblock.Validate(&mp100, st, b, now); len(v) == 1 && v[0] == "immature" {
			sawImmature = true
		} else if len(v) != 0 {
			r.Broken("mainnet-difficulty block %d (shipped testdata), maturity 100: reference says %v", h+1, v)
		}
		if v := refblock.Validate(mp, st, b, now); len(v) != 0 {
			r.Broken("mainnet block %d (shipped testdata) is invalid for the reference: %v", h+1, v)
		}
		bad := *b
		bad.Header.Nonce++
		if v := refblock.Validate(mp, st, &bad, now); len(v) != 1 || v[0] != "pow-hash" {
			r.Broken("mainnet block %d with nonce+1: reference says %v, want [pow-hash]", h+1, v)
		}
		st.Apply(b)
	}
	if !sawImmature {
		r.Broken("shipped testdata: the repo's tests lower the coinbase maturity to 1 for these blocks, but the reference finds no immature spend at maturity 100")
	}
}

func bindFullBlockTests(r *ev.Run) {
	bindLiteralVectors(r)
	tests, err := fullblocktests.Generate(false)
	if err != nil {
		r.Broken("fullblocktests.Generate: %v", err)
	}
	spec := Spec{Name: "fullblocktests", BIP34: chaincfg.RegressionNetParams.BIP0034Height, BIP65: chaincfg.RegressionNetParams.BIP0065Height,
		BIP66: chaincfg.RegressionNetParams.BIP0066Height, CSV: 1, Maturity: int32(chaincfg.RegressionNetParams.CoinbaseMaturity),
		Halving: chaincfg.RegressionNetParams.SubsidyReductionInterval}
	rp := spec.Ref()
	now := time.Now().Unix() // the vectors are generated relative to the wall clock (first block = now, "too new" = now+3h)
	states := map[chainhash.Hash]*refblock.State{}
	gen := chaincfg.RegressionNetParams.GenesisBlock
	states[gen.BlockHash()] = refblock.NewState(gen)
	nAcc, nRej, nSide := 0, 0, 0
	judge := func(name string, b *wire.MsgBlock) ([]string, *refblock.State, bool) {
		st, ok := states[b.Header.PrevBlock]
		if !ok {
			return nil, nil, false
		}
		return refblock.Validate(rp, st, b, now), st, true
	}
	// blocks delivered before their parent (the vectors then annotate the parent's
	// delivery with the verdict of the orphan chain, see b12/b13/b14)
	orphans := map[chainhash.Hash][]*wire.MsgBlock{}
	hits := func(v []string, code blockchain.ErrorCode) bool {
		want, mapped := classOf[code]
		if !mapped {
			return len(v) > 0
		}
		for _, c := range v {
			for _, w := range want {
				if c == w {
					return true
				}
			}
		}
		return false
	}
	// drainOrphans connects the pending orphan descendants of h and reports
	// whether one of them is invalid with the given reject code.
	var drainOrphans func(h chainhash.Hash, code blockchain.ErrorCode) bool
	drainOrphans = func(h chainhash.Hash, code blockchain.ErrorCode) bool {
		found := false
		for _, o := range orphans[h] {
			st := states[h]
			v := refblock.Validate(rp, st, o, now)
			if len(v) == 0 {
				ns := st.Clone()
				ns.Apply(o)
				states[o.BlockHash()] = ns
				if drainOrphans(o.BlockHash(), code) {
					found = true
				}
			} else if hits(v, code) {
				found = true
			}
		}
		delete(orphans, h)
		return found
	}
	for _, group := range tests {
		for _, inst := range group {
			switch it := inst.(type) {
			case fullblocktests.OrphanOrRejectedBlock:
				if _, ok := states[it.Block.Header.PrevBlock]; !ok {
					orphans[it.Block.Header.PrevBlock] = append(orphans[it.Block.Header.PrevBlock], it.Block)
				}
			case fullblocktests.AcceptedBlock:
				if it.IsOrphan {
					orphans[it.Block.Header.PrevBlock] = append(orphans[it.Block.Header.PrevBlock], it.Block)
					continue
				}
				v, st, ok := judge(it.Name, it.Block)
				if !ok {
					if it.IsMainChain {
						r.Broken("fullblocktests binding: accepted main-chain block %s has no valid parent for the reference", it.Name)
					}
					continue
				}
				if it.IsMainChain {
					if len(v) != 0 {
						r.Broken("fullblocktests binding: block %s (height %d) is accepted on the main chain by the shipped vectors, the reference says %v", it.Name, it.Height, v)
					}
					nAcc++
				} else {
					// a side-chain block passed only the context-free and contextual checks
					for _, c := range v {
						if !stageB[c] {
							r.Broken("fullblocktests binding: block %s is accepted (side chain) by the shipped vectors, the reference reports the non-connect violation %v", it.Name, v)
						}
					}
					nSide++
				}
				if len(v) == 0 {
					ns := st.Clone()
					ns.Apply(it.Block)
					states[it.Block.BlockHash()] = ns
					drainOrphans(it.Block.BlockHash(), 0)
				}
			case fullblocktests.RejectedBlock:
				v, st, ok := judge(it.Name, it.Block)
				if !ok {
					continue
				}
				if len(v) == 0 && len(orphans[it.Block.BlockHash()]) > 0 {
					// the annotated error belongs to an orphan descendant
					ns := st.Clone()
					ns.Apply(it.Block)
					states[it.Block.BlockHash()] = ns
					if !drainOrphans(it.Block.BlockHash(), it.RejectCode) {
						r.Broken("fullblocktests binding: block %s is annotated %v; neither it nor its pending orphan descendants violate that rule for the reference", it.Name, it.RejectCode)
					}
					nRej++
					continue
				}
				if len(v) == 0 {
					r.Broken("fullblocktests binding: block %s (height %d) is rejected with %v by the shipped vectors, the reference says valid", it.Name, it.Height, it.RejectCode)
				}
				if want, mapped := classOf[it.RejectCode]; mapped {
					hit := false
					for _, c := range v {
						for _, w := range want {
							if c == w {
								hit = true
							}
						}
					}
					if !hit {
						r.Broken("fullblocktests binding: block %s is rejected with %v by the shipped vectors, the reference reports %v (expected one of %v)", it.Name, it.RejectCode, v, want)
					}
				}
				nRej++
			}
		}
	}
	if nAcc < 100 || nRej < 35 {
		r.Broken("fullblocktests binding covered too little: %d accepted, %d rejected", nAcc, nRej)
	}
	r.Set("reference_bound_to_fullblocktests", map[string]int{"accepted_main_chain": nAcc, "accepted_side_chain": nSide, "rejected": nRej})
}
