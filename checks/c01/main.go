// C01 — a block is connected iff it satisfies every consensus rule in its context.
//
// A catalogue of consensus rules, each with a defect injector that produces, on
// a small valid base chain, the candidate block exactly AT the limit (valid)
// and/or one PAST it (invalid) with every other rule satisfied.  Each candidate
// is first judged by the independent reference validator verif/ref/refblock
// (which must reproduce the injector's label: exactly the intended rule class is
// violated, nothing else) and is then offered to real btcd chain instances
// (ffldb on /dev/shm) in every chain context: extending the tip, on a side branch
// that becomes best by itself (reorganisation path), on a side branch made best
// later by a child (deferred verdict), as an orphan before its parent, through
// CheckConnectBlockTemplate, after a clean restart, with an empty or large UTXO
// cache, with unrelated forks (also one whose reorganisation fails) present, and
// after / before its invalid / valid sibling.  The verdict is read from
// BestSnapshot / MainChainHasBlock / ChainTips and must equal the label in every
// context (differential across contexts + ground truth by construction).
package main

import (
	"fmt"
	"os"
	"reflect"
	"runtime"
	"sort"
	"strings"
	"sync/atomic"
	"time"

	"verif/engine/ev"
	"verif/lab"
	"verif/ref/refblock"
)

// maxReported bounds the number of individually confirmed (3 re-runs each) and
// reported violations; a systematic break fails thousands of cases.
const maxReported = 40

type job struct {
	pl      *plan
	ctx     ctxSpec
	sibling *plan // non-nil: sibling job (pl = at, sibling = past)
	pastFst bool
	orphans bool   // sibling job: both candidates are delivered before their parent
	name    string // context name
}

type replay struct {
	Rule string `json:"rule"`
	Side string `json:"side"`
	Ctx  string `json:"context"`
	Tier string `json:"tier"`
}

func contextsFor(cs *Case, idx int, thorough bool) []ctxSpec {
	all := []int{kTip, kReorg, kDeferred, kOrphan, kTemplate, kReopen, kFork, kForkBad, kReopenReorg, kReopenDeferred, kOrphanReorg,
		kHeaderFirst, kHeaderFirstReorg, kChildAfter, kReorgDeep, kRestore, kReopenRestore, kReactivated}
	var out []ctxSpec
	if thorough {
		for _, k := range all {
			out = append(out, ctxSpec{k, 0}, ctxSpec{k, bigCache})
		}
		return out
	}
	if cs.Big {
		return []ctxSpec{{kTip, bigCache}, {kReorg, 0}, {kTemplate, bigCache}, {kRestore, 0}}
	}
	// quick: every context once; the cache size alternates with the case so that
	// both sizes meet every context kind across the catalogue (thorough: the full product)
	a, b := uint64(0), uint64(bigCache)
	if idx%2 == 1 {
		a, b = b, a
	}
	return []ctxSpec{
		{kTip, a}, {kTip, b}, {kReorg, a}, {kReorg, b},
		{kDeferred, b}, {kOrphan, a}, {kTemplate, b}, {kReopen, a},
		{kFork, b}, {kForkBad, a}, {kReopenReorg, b}, {kReopenDeferred, a}, {kOrphanReorg, b},
		{kHeaderFirst, a}, {kHeaderFirstReorg, b}, {kChildAfter, a}, {kReorgDeep, b},
		{kRestore, a}, {kRestore, b}, {kReopenRestore, b}, {kReactivated, a},
	}
}

func runJob(j job) (result, string) {
	if j.sibling != nil {
		res, who := runSibling(j.pl, j.sibling, j.pastFst, j.orphans, j.ctx.Cache)
		return res, who
	}
	return runContext(j.pl, j.ctx), ""
}

func main() {
	r := ev.Start("C01")
	r.Rule("catalogue of consensus rules x {exactly at the limit (valid), one past it (invalid)} x chain contexts {tip, reorg, deferred, orphan, template, reopen, unrelated fork, failed reorg on an unrelated fork, reopen+reorg, reopen+deferred, orphan+reorg, after/before the sibling candidate} x utxo cache {0, 64 MiB}; a case is distinct by (rule, side, context); every case executes real ProcessBlock deliveries on a fresh ffldb chain and compares the resulting active chain with the label confirmed by the independent reference validator")
	r.Assume("leveldb/ffldb commit atomicity (C05's subject)")
	r.Assume("the reference script interpreter verif/ref/refscript (bound to the shipped script vectors by C06) for the script-validity label of candidates")
	r.Assume("lab.Now as the node's adjusted time (fixed MedianTimeSource)")

	t0 := time.Now()
	phase := func(name string) {
		if os.Getenv("C01_TIMING") != "" {
			fmt.Fprintf(os.Stderr, "phase %-12s %6.1fs\n", name, time.Since(t0).Seconds())
		}
	}
	thorough := r.Thorough()
	var rp replay
	if r.ReplayPath != "" {
		r.LoadReplay(&rp)
		thorough = rp.Tier == "thorough"
	}

	// 1. the reference is bound to the repo's own consensus vectors first
	bound := make(chan struct{})
	go func() {
		if r.ReplayPath == "" {
			bindFullBlockTests(r)
		}
		close(bound)
	}()

	phase("bind")
	// 2. the catalogue, labelled by the reference
	cat := buildCatalog(thorough)
	phase("catalog")
	states := map[*World][]*refblock.State{}
	for _, cs := range cat.cases {
		if _, ok := states[cs.W]; !ok {
			st, err := refStates(cs.W)
			if err != nil {
				r.Broken("%v", err)
			}
			states[cs.W] = st
		}
	}
	plans := make([]*plan, len(cat.cases))
	var labelErr atomic.Value
	ev.Par(len(cat.cases), runtime.NumCPU(), func(i int) {
		cs := cat.cases[i]
		if cs.ParentH < 2 {
			labelErr.Store(fmt.Sprintf("%s: parent height < 2", cs.Key()))
			return
		}
		st := states[cs.W]
		now := lab.Now.Unix()
		rep := refblock.Check(cs.W.RP, st[cs.ParentH], cs.Cand.Msg, now)
		if !sameSet(rep.Violations, cs.Expect) {
			labelErr.Store(fmt.Sprintf("%s: injector label %v, reference says %v", cs.Key(), cs.Expect, rep.Violations))
			return
		}
		if msg := exactness(cs, rep); msg != "" {
			labelErr.Store(cs.Key() + ": " + msg)
			return
		}
		pl := mkPlan(cs, i, st[cs.ParentH])
		plans[i] = pl
		// filler blocks must be valid (UBad: exactly the coinbase value)
		chk := func(b *lab.Blk, on *refblock.State, want []string) *refblock.State {
			if v := refblock.Validate(cs.W.RP, on, b.Msg, now); !sameSet(v, want) {
				labelErr.Store(fmt.Sprintf("%s: filler %s: reference says %v, want %v", cs.Key(), b.Name, v, want))
			}
			n := on.Clone()
			n.Apply(b.Msg)
			return n
		}
		sA1 := chk(pl.A1, st[cs.ParentH-1], nil)
		chk(pl.A2, sA1, nil)
		if cs.Valid() {
			sC := st[cs.ParentH].Clone()
			sC.Apply(cs.Cand.Msg)
			chk(pl.D, sC, nil)
		}
		uh := cs.ParentH - 2
		su := st[uh]
		for _, u := range pl.U {
			su = chk(u, su, nil)
		}
		chk(pl.UBad, su, []string{"cb-value"})
		sR1 := chk(pl.R1, st[cs.ParentH], nil)
		chk(pl.R2, sR1, nil)
		if cs.Valid() {
			sC := st[cs.ParentH].Clone()
			sC.Apply(cs.Cand.Msg)
			sD := sC.Clone()
			sD.Apply(pl.D.Msg)
			chk(pl.E, sD, nil)
		}
		if len(pl.X) == 3 {
			sx := st[cs.ParentH-3]
			for _, x := range pl.X {
				sx = chk(x, sx, nil)
			}
		}
	})
	if e := labelErr.Load(); e != nil {
		r.Broken("label check failed: %v", e)
	}

	<-bound
	phase("labels")
	// 3. jobs
	var jobs []job
	skipped := 0
	byRule := map[string]map[string]*plan{}
	for i, cs := range cat.cases {
		if byRule[cs.Rule] == nil {
			byRule[cs.Rule] = map[string]*plan{}
		}
		byRule[cs.Rule][cs.Side] = plans[i]
		for _, k := range contextsFor(cs, i, thorough || r.ReplayPath != "") {
			if plans[i].skip[k.Kind] {
				skipped++
				continue
			}
			jobs = append(jobs, job{pl: plans[i], ctx: k, name: k.Name()})
		}
	}
	var rules []string
	for rl := range byRule {
		rules = append(rules, rl)
	}
	sort.Strings(rules)
	for _, rl := range rules {
		at, past := byRule[rl]["at"], byRule[rl]["past"]
		if at == nil || past == nil || at.cs.W != past.cs.W || at.cs.ParentH != past.cs.ParentH {
			continue
		}
		if at.cs.Big && !thorough {
			continue
		}
		jobs = append(jobs,
			job{pl: at, sibling: past, pastFst: true, ctx: ctxSpec{kTip, bigCache}, name: "sibling-past-first/cL"},
			job{pl: at, sibling: past, pastFst: false, ctx: ctxSpec{kTip, 0}, name: "sibling-at-first/c0"},
			job{pl: at, sibling: past, pastFst: true, orphans: true, ctx: ctxSpec{kTip, 0}, name: "sibling-orphans-past-first/c0"},
			job{pl: at, sibling: past, pastFst: false, orphans: true, ctx: ctxSpec{kTip, bigCache}, name: "sibling-orphans-at-first/cL"})
	}
	if r.ReplayPath != "" {
		var sel []job
		for _, j := range jobs {
			if j.pl.cs.Rule == rp.Rule && j.name == rp.Ctx && (j.sibling != nil || j.pl.cs.Side == rp.Side) {
				sel = append(sel, j)
			}
		}
		if len(sel) == 0 {
			r.Broken("replay: no job %s/%s/%s in tier %s", rp.Rule, rp.Side, rp.Ctx, rp.Tier)
		}
		jobs = sel
	}

	// 4. run
	results := make([]result, len(jobs))
	whos := make([]string, len(jobs))
	workers := runtime.NumCPU()
	if workers > 16 {
		workers = 16
	}
	ev.Par(len(jobs), workers, func(i int) {
		results[i], whos[i] = runJob(jobs[i])
	})

	phase("run")
	// 5. verdicts
	type agg struct{ connected, not []string }
	perCase := map[string]*agg{}
	ctxCount := map[string]int{}
	nonRule := 0
	tier := "quick"
	if thorough {
		tier = "thorough"
	}
	for i, j := range jobs {
		res := results[i]
		cs := j.pl.cs
		side := cs.Side
		if j.sibling != nil && whos[i] == "past" {
			side = "past"
		}
		key := "rule/" + cs.Rule + "/" + side + "/" + j.name
		r.Eval(1)
		r.Trace(1)
		r.State(res.Deliveries)
		r.Trans(res.Deliveries)
		r.Nontrivial(key)
		ctxCount[j.name]++
		if res.NonRuleErr {
			nonRule++
		}
		if j.sibling == nil {
			a := perCase[cs.Key()]
			if a == nil {
				a = &agg{}
				perCase[cs.Key()] = a
			}
			if res.Connected {
				a.connected = append(a.connected, j.name)
			} else {
				a.not = append(a.not, j.name)
			}
		}
		if os.Getenv("C01_DUMP") != "" && (j.name == os.Getenv("C01_DUMP") || os.Getenv("C01_DUMP") == "all") {
			fmt.Fprintf(os.Stderr, "DUMP %-55s connected=%-5v expect=%v err=%.110s\n", key, res.Connected, cs.Expect, res.CandErr)
		}
		if res.Fail == "" {
			continue
		}
		if r.Violations() >= maxReported {
			r.Add("further_failing_cases_not_individually_confirmed", 1)
			continue
		}
		// confirm 3x before believing it
		for k := 0; k < 3; k++ {
			again, _ := runJob(j)
			if again.Fail == "" {
				r.Broken("violation did not reproduce deterministically: %s: %s", key, res.Fail)
			}
		}
		if strings.HasPrefix(res.Fail, "harness:") {
			r.Broken("%s: %s", key, res.Fail)
		}
		what := fmt.Sprintf("%s (%s candidate at height %d, params %s, reference verdict %v): %s", key, labelWord(cs), cs.ParentH+1, cs.W.Spec.Name, cs.Expect, res.Fail)
		if res.CandErr != "" {
			what += " [ProcessBlock(candidate): " + res.CandErr + "]"
		}
		r.Violation(key, what, replay{Rule: cs.Rule, Side: side, Ctx: j.name, Tier: tier})
	}
	// differential summary (information: every disagreement is already a violation above)
	disagree := 0
	for _, a := range perCase {
		if len(a.connected) > 0 && len(a.not) > 0 {
			disagree++
		}
	}

	// 6. evidence
	nAt, nPast := 0, 0
	ruleSet := map[string]bool{}
	classes := map[string]bool{}
	for _, cs := range cat.cases {
		ruleSet[cs.Rule] = true
		if cs.Valid() {
			nAt++
		} else {
			nPast++
			classes[strings.Join(cs.Expect, "+")] = true
		}
	}
	var cl []string
	for k := range classes {
		cl = append(cl, k)
	}
	sort.Strings(cl)
	r.Set("bounds", map[string]interface{}{
		"rules":                                   len(ruleSet),
		"candidates_valid_at_limit":               nAt,
		"candidates_invalid_past":                 nPast,
		"violation_classes_injected":              cl,
		"contexts":                                ctxCount,
		"parameter_sets":                          paramSets(cat),
		"utxo_cache_sizes":                        []uint64{0, bigCache},
		"base_chain_max_height":                   maxHeight(cat),
		"contexts_with_mixed_verdict":             disagree,
		"contexts_skipped_for_unequal_chain_work": skipped,
	})
	r.Add("non_rule_errors_returned_for_invalid_blocks", int64(nonRule))
	for i := 0; i < len(jobs) && i < 2000; i += 97 {
		j := jobs[i]
		r.Sample(map[string]interface{}{"rule": j.pl.cs.Rule, "side": j.pl.cs.Side, "context": j.name, "expect": j.pl.cs.Expect,
			"candidate": j.pl.cs.Cand.Hash.String(), "connected": results[i].Connected, "deliveries": results[i].Deliveries})
	}
	if r.ReplayPath != "" {
		r.Finish(false)
	}
	r.Finish(true)
}

func labelWord(cs *Case) string {
	if cs.Valid() {
		return "VALID"
	}
	return "INVALID"
}

func sameSet(a, b []string) bool {
	if len(a) == 0 && len(b) == 0 {
		return true
	}
	x := append([]string(nil), a...)
	y := append([]string(nil), b...)
	sort.Strings(x)
	sort.Strings(y)
	return reflect.DeepEqual(x, y)
}

// exactness asserts that the "at"/"past" candidates of the measured limits sit
// exactly on / one past the limit (so a label can not be right for the wrong
// reason).
func exactness(cs *Case, rep refblock.Report) string {
	want := func(got, at, past int, what string) string {
		w := at
		if cs.Side == "past" {
			w = past
		}
		if got != w {
			return fmt.Sprintf("%s is %d, want %d", what, got, w)
		}
		return ""
	}
	switch cs.Rule {
	case "size":
		return want(rep.BaseSize, 1_000_000, 1_000_001, "stripped size")
	case "weight":
		if rep.BaseSize >= 1_000_000 {
			return "weight candidate also exceeds the stripped size"
		}
		return want(rep.Weight, 4_000_000, 4_000_001, "weight")
	case "sigops-legacy", "sigops-coinbase", "sigops-bare-multisig":
		return want(rep.LegacyCost, 80_000, 80_004, "legacy sigop cost")
	case "sigops-p2sh":
		if rep.LegacyCost > 80_000 {
			return "legacy part alone exceeds the limit"
		}
		return want(rep.SigOpCost, 80_000, 80_004, "sigop cost")
	case "sigops-witness", "sigops-mixed":
		if rep.LegacyCost > 80_000 {
			return "legacy part alone exceeds the limit"
		}
		return want(rep.SigOpCost, 80_000, 80_001, "sigop cost")
	}
	return ""
}

func paramSets(c *catalog) []string {
	m := map[string]bool{}
	for _, cs := range c.cases {
		m[cs.W.Spec.Name] = true
	}
	var out []string
	for k := range m {
		out = append(out, k)
	}
	sort.Strings(out)
	return out
}

func maxHeight(c *catalog) int32 {
	var m int32
	for _, cs := range c.cases {
		if cs.ParentH+1 > m {
			m = cs.ParentH + 1
		}
	}
	return m
}
