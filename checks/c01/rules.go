package main

// The rule catalogue: one defect injector per consensus rule.  Every injector
// produces, on top of a valid base chain, a candidate exactly AT the limit
// (valid) and/or one PAST it (invalid) with every other rule satisfied; the
// reference validator (refblock) confirms the label before btcd sees the block.

import (
	"fmt"
	"math"
	"time"

	"github.com/btcsuite/btcd/chainhash/v2"
	"github.com/btcsuite/btcd/wire/v2"

	"verif/lab"
	"verif/ref/refblock"
)

// Case is one labelled candidate.
type Case struct {
	Rule, Side string // Side: "at" (valid) or "past" (invalid)
	W          *World
	ParentH    int32 // the candidate extends W.Blocks[ParentH-1]
	Cand       *lab.Blk
	Expect     []string // reference violation classes (nil: valid)
	InMemory   bool     // not representable on the wire: delivered as an in-memory block
	Big        bool     // ~1 MB candidate: fewer contexts in the quick tier
	// TemplateValid: CheckConnectBlockTemplate documents that it skips the
	// proof-of-work hash check; for the pow-hash candidate it must say "valid".
	TemplateValid bool
	AltTxs        []*wire.MsgTx // transactions of the competing sibling of the parent (reorg contexts)
	// optional coinbase of that sibling (BIP30 across branches)
	AltCoinbaseScript []byte
	AltCoinbaseOuts   []*wire.TxOut
	Note              string
}

func (c *Case) Valid() bool { return len(c.Expect) == 0 }
func (c *Case) Key() string { return "rule/" + c.Rule + "/" + c.Side }
func (c *Case) base() []*lab.Blk {
	return c.W.Blocks[:c.ParentH]
}
func (c *Case) parent() *lab.Blk { return c.W.at(c.ParentH) }

type catalog struct {
	cases []*Case
	tag   uint32
	seen  map[string]bool
}

func (c *catalog) add(rule, side string, w *World, ph int32, o lab.BOpt, expect ...string) *Case {
	if o.Time.IsZero() {
		o.Time = w.timeAt(ph + 1)
	}
	if o.Tag == 0 {
		c.tag++
		o.Tag = 0x10000 + c.tag
	}
	o.Name = rule + "/" + side
	cs := &Case{Rule: rule, Side: side, W: w, ParentH: ph, Expect: expect}
	cs.Cand = lab.Build(w.params(), w.at(ph), o)
	if (side == "at") != (len(expect) == 0) {
		panic("label/side mismatch in " + rule)
	}
	if c.seen == nil {
		c.seen = map[string]bool{}
	}
	if c.seen[cs.Key()] {
		panic("duplicate case " + cs.Key())
	}
	c.seen[cs.Key()] = true
	c.cases = append(c.cases, cs)
	return cs
}

func (w *World) pay(name string, fee int64) *wire.MsgTx {
	o := w.Outs[name]
	return spendTx(1, []out{o}, 0xffffffff, []*wire.TxOut{txo(o.Value-fee, lab.OpTrue)}, 0)
}

func txs(t ...*wire.MsgTx) []*wire.MsgTx { return t }

// bulkSigops returns value-0 outputs whose scripts are n bare OP_CHECKSIGs in
// total (at most 10000 per script).
func bulkSigops(n int) []*wire.TxOut {
	var outs []*wire.TxOut
	for n > 0 {
		k := n
		if k > 10000 {
			k = 10000
		}
		outs = append(outs, txo(0, rep(opCS, k)))
		n -= k
	}
	return outs
}

// fillerOuts: the coinbase pays the full subsidy to OP_TRUE and carries a
// value-0 output with an n-byte all-zero script (OP_0s: no sigops, never
// spendable because it is longer than 10000 bytes).
func fillerOuts(w *World, h int32, fees int64, n int) []*wire.TxOut {
	return []*wire.TxOut{txo(lab.Subsidy(h, w.params())+fees, lab.OpTrue), txo(0, make([]byte, n))}
}

// sizedOpt searches the filler length that gives exactly the wanted stripped
// size (wantBase > 0) or weight (wantWeight > 0).
func sizedOpt(w *World, ph int32, mk func(n int) lab.BOpt, wantBase, wantWeight int) (lab.BOpt, bool) {
	n := 900_000
	for iter := 0; iter < 6; iter++ {
		o := mk(n)
		o.Time = w.timeAt(ph + 1)
		o.Tag = 0x7777
		o.NoSolve = true
		b := lab.Build(w.params(), w.at(ph), o)
		base, _, weight := refblock.BlockSizes(b.Msg)
		if wantBase > 0 {
			if base == wantBase {
				return mk(n), true
			}
			n += wantBase - base
		} else {
			if weight == wantWeight {
				return mk(n), true
			}
			d := wantWeight - weight
			if d%4 != 0 {
				return lab.BOpt{}, false
			}
			n += d / 4
		}
	}
	return lab.BOpt{}, false
}

func buildCatalog(thorough bool) *catalog {
	c := &catalog{}
	w0 := buildStd(specRegtest, 12, nil)
	const ph = int32(9) // default parent height: candidates at height 10 (second halving)
	H := ph + 1
	p0 := w0.params()
	sub := func(h int32) int64 { return lab.Subsidy(h, p0) }

	// ---------------------------------------------------------------- baseline
	c.add("baseline-empty", "at", w0, ph, lab.BOpt{})

	// ---------------------------------------------------------------- proof of work
	c.add("pow-hash", "at", w0, ph, lab.BOpt{})
	cs := c.add("pow-hash", "past", w0, ph, lab.BOpt{NoSolve: true, PostPoW: func(m *wire.MsgBlock) { lab.Unsolve(&m.Header) }}, "pow-hash")
	cs.TemplateValid = true
	c.add("bits-expected", "past", w0, ph, lab.BOpt{Bits: 0x207ffffe}, "bits-expected")
	c.add("bits-harder", "past", w0, ph, lab.BOpt{Bits: 0x1f7fffff}, "bits-expected")
	setBits := func(bits uint32) lab.BOpt {
		return lab.BOpt{NoSolve: true, PostMerkle: func(m *wire.MsgBlock) { m.Header.Bits = bits }}
	}
	c.add("bits-zero", "past", w0, ph, setBits(0), "bits-expected", "bits-range")
	c.add("bits-zero-mantissa", "past", w0, ph, setBits(0x20000000), "bits-expected", "bits-range")
	c.add("bits-negative", "past", w0, ph, setBits(0x20ffffff), "bits-expected", "bits-range")
	c.add("bits-above-limit", "past", w0, ph, lab.BOpt{Bits: 0x2100ffff}, "bits-expected", "bits-range")

	// ---------------------------------------------------------------- timestamps
	mtp := mtpOf(w0.at(ph))
	c.add("time-mtp", "at", w0, ph, lab.BOpt{Time: time.Unix(mtp+1, 0)})
	c.add("time-mtp", "past", w0, ph, lab.BOpt{Time: time.Unix(mtp, 0)}, "time-mtp")
	for _, x := range []struct {
		name string
		ph   int32
	}{{"time-mtp-full-window", 12}, {"time-mtp-short-window", 2}, {"time-mtp-window-11", 10}} {
		m := mtpOf(w0.at(x.ph))
		c.add(x.name, "at", w0, x.ph, lab.BOpt{Time: time.Unix(m+1, 0)})
		c.add(x.name, "past", w0, x.ph, lab.BOpt{Time: time.Unix(m, 0)}, "time-mtp")
	}
	c.add("time-future", "at", w0, ph, lab.BOpt{Time: lab.Now.Add(2 * time.Hour)})
	c.add("time-future", "past", w0, ph, lab.BOpt{Time: lab.Now.Add(2*time.Hour + time.Second)}, "time-future")

	// ---------------------------------------------------------------- size / weight
	{
		mk := func(n int) lab.BOpt { return lab.BOpt{CoinbaseOuts: fillerOuts(w0, H, 0, n)} }
		for _, s := range []struct {
			side string
			size int
			exp  []string
		}{{"at", 1_000_000, nil}, {"past", 1_000_001, []string{"size", "weight"}}} {
			o, ok := sizedOpt(w0, ph, mk, s.size, 0)
			if !ok {
				panic("size search failed")
			}
			c.add("size", s.side, w0, ph, o, s.exp...).Big = true
		}
		// weight with witness data: the stripped size stays below 1 000 000
		wd := w0.Outs["wdrop"]
		for _, s := range []struct {
			side   string
			weight int
			exp    []string
		}{{"at", 4_000_000, nil}, {"past", 4_000_001, []string{"weight"}}} {
			found := false
			for L := 100; L < 108 && !found; L++ {
				L := L
				mkw := func(n int) lab.BOpt {
					tx := spendTx(1, []out{wd}, 0xffffffff, []*wire.TxOut{txo(wd.Value, lab.OpTrue)}, 0)
					tx.TxIn[0].Witness = wire.TxWitness{make([]byte, L), dropScript}
					return lab.BOpt{CoinbaseOuts: fillerOuts(w0, H, 0, n), Txs: txs(tx)}
				}
				if o, ok := sizedOpt(w0, ph, mkw, 0, s.weight); ok {
					c.add("weight", s.side, w0, ph, o, s.exp...).Big = true
					found = true
				}
			}
			if !found {
				panic("weight search failed")
			}
		}
	}

	// ---------------------------------------------------------------- sigops
	{
		t0 := w0.Outs["t0"]
		legacy := func(n int, extraIns []out) *wire.MsgTx {
			ins := append([]out{t0}, extraIns...)
			var total int64
			for _, i := range ins {
				total += i.Value
			}
			outs := append([]*wire.TxOut{txo(total, lab.OpTrue)}, bulkSigops(n)...)
			return spendTx(1, ins, 0xffffffff, outs, 0)
		}
		c.add("sigops-legacy", "at", w0, ph, lab.BOpt{Txs: txs(legacy(20000, nil))})
		c.add("sigops-legacy", "past", w0, ph, lab.BOpt{Txs: txs(legacy(20001, nil))}, "sigops")
		// coinbase scripts count too
		c.add("sigops-coinbase", "at", w0, ph, lab.BOpt{CoinbaseOuts: append([]*wire.TxOut{txo(sub(H), lab.OpTrue)}, bulkSigops(20000)...)})
		c.add("sigops-coinbase", "past", w0, ph, lab.BOpt{CoinbaseOuts: append([]*wire.TxOut{txo(sub(H), lab.OpTrue)}, bulkSigops(20001)...)}, "sigops")
		// bare multisig counts 20 in an output script whatever precedes it
		ms := func(n int) *wire.MsgTx {
			outs := []*wire.TxOut{txo(t0.Value, lab.OpTrue)}
			for i := 0; i < n/20; i++ {
				outs = append(outs, txo(0, []byte{op1, opCMS}))
			}
			outs = append(outs, bulkSigops(n%20)...)
			return spendTx(1, []out{t0}, 0xffffffff, outs, 0)
		}
		c.add("sigops-bare-multisig", "at", w0, ph, lab.BOpt{Txs: txs(ms(20000))})
		c.add("sigops-bare-multisig", "past", w0, ph, lab.BOpt{Txs: txs(ms(20001))}, "sigops")

		p2shTx := func(name string, redeem []byte, n int) *wire.MsgTx {
			tx := legacy(n, []out{w0.Outs[name]})
			tx.TxIn[1].SignatureScript = push(redeem)
			return tx
		}
		c.add("sigops-p2sh", "at", w0, ph, lab.BOpt{Txs: txs(p2shTx("sh100", redeem100, 19900))})
		c.add("sigops-p2sh", "past", w0, ph, lab.BOpt{Txs: txs(p2shTx("sh101", redeem101, 19900))}, "sigops")
		wshTx := func(name string, ws []byte, n int) *wire.MsgTx {
			tx := legacy(n, []out{w0.Outs[name]})
			tx.TxIn[1].Witness = wire.TxWitness{ws}
			return tx
		}
		c.add("sigops-witness", "at", w0, ph, lab.BOpt{Txs: txs(wshTx("wsh400", wit400, 19900))})
		c.add("sigops-witness", "past", w0, ph, lab.BOpt{Txs: txs(wshTx("wsh401", wit401, 19900))}, "sigops")
		// everything together: 4*19799 + 4*100 (P2SH) + 401 (P2WSH) + 1+1 (P2WPKH) + 1 (P2SH-P2WPKH) = 80000; + wsh1 = 80001
		mixed := func(withOne bool) *wire.MsgTx {
			ins := []out{w0.Outs["sh100"], w0.Outs["wsh401"], w0.Outs["wpkh0"], w0.Outs["wpkh1"], w0.Outs["shwpkh0"]}
			if withOne {
				ins = append(ins, w0.Outs["wsh1"])
			}
			tx := legacy(19799, ins)
			tx.TxIn[1].SignatureScript = push(redeem100)
			tx.TxIn[2].Witness = wire.TxWitness{wit401}
			tx.TxIn[5].SignatureScript = push(p2wpkh(key1))
			if withOne {
				tx.TxIn[6].Witness = wire.TxWitness{wit1}
			}
			for _, i := range []int{3, 4, 5} {
				tx.TxIn[i].Witness = signP2WPKH(tx, i, coin, key1)
			}
			return tx
		}
		// a truncated push ends the static count: nothing after it counts, what precedes it does
		trunc := func(n int, script []byte) *wire.MsgTx {
			tx := legacy(n, nil)
			tx.AddTxOut(txo(0, script))
			return tx
		}
		c.add("sigops-truncated-push", "at", w0, ph, lab.BOpt{Txs: txs(trunc(20000, []byte{0x4b, opCS, opCS, opCS}))})
		c.add("sigops-before-truncated-push", "at", w0, ph, lab.BOpt{Txs: txs(trunc(19996, []byte{opCS, opCS, opCS, opCS, 0x4b, opCS}))})
		c.add("sigops-before-truncated-push", "past", w0, ph, lab.BOpt{Txs: txs(trunc(19997, []byte{opCS, opCS, opCS, opCS, 0x4b, opCS}))}, "sigops")
		c.add("sigops-in-push-data", "at", w0, ph, lab.BOpt{Txs: txs(trunc(20000, []byte{0x03, opCS, opCMS, opCS}))})
		// the coinbase's signature script counts
		cbs := func(k int) []byte { return cat([]byte{byte(0x50 + H)}, rep(opCS, k)) }
		c.add("sigops-coinbase-script", "at", w0, ph, lab.BOpt{CoinbaseScript: cbs(50), Txs: txs(legacy(19950, nil))})
		c.add("sigops-coinbase-script", "past", w0, ph, lab.BOpt{CoinbaseScript: cbs(51), Txs: txs(legacy(19950, nil))}, "sigops")
		// an input's signature script counts (dead branch in front of an OP_TRUE output)
		ssig := func(k int) *wire.MsgTx {
			tx := legacy(19900, nil)
			tx.TxIn[0].SignatureScript = cat([]byte{0x00, opIf}, rep(opCS, k), []byte{opEndIf})
			return tx
		}
		c.add("sigops-sigscript", "at", w0, ph, lab.BOpt{Txs: txs(ssig(100))})
		c.add("sigops-sigscript", "past", w0, ph, lab.BOpt{Txs: txs(ssig(101))}, "sigops")
		c.add("sigops-mixed", "at", w0, ph, lab.BOpt{Txs: txs(mixed(false))})
		c.add("sigops-mixed", "past", w0, ph, lab.BOpt{Txs: txs(mixed(true))}, "sigops")
	}

	// ---------------------------------------------------------------- block structure
	c.add("no-tx", "past", w0, ph, lab.BOpt{PreMerkle: func(m *wire.MsgBlock) { m.Transactions = nil }}, "no-tx")
	c.add("first-not-coinbase", "past", w0, ph, lab.BOpt{Txs: txs(w0.pay("t0", 0)), PreMerkle: func(m *wire.MsgBlock) { m.Transactions = m.Transactions[1:] }}, "first-not-coinbase")
	c.add("coinbase-not-first", "past", w0, ph, lab.BOpt{Txs: txs(w0.pay("t0", 0)), PreMerkle: func(m *wire.MsgBlock) {
		m.Transactions[0], m.Transactions[1] = m.Transactions[1], m.Transactions[0]
	}}, "first-not-coinbase", "multiple-coinbase")
	{
		cb2 := wire.NewMsgTx(1)
		cb2.AddTxIn(&wire.TxIn{PreviousOutPoint: wire.OutPoint{Index: 0xffffffff}, SignatureScript: []byte{0x5a, 0x01, 0x02}, Sequence: 0xffffffff})
		cb2.AddTxOut(txo(0, lab.OpTrue))
		c.add("multiple-coinbase", "past", w0, ph, lab.BOpt{Txs: txs(cb2)}, "multiple-coinbase")
	}
	c.add("merkle", "past", w0, ph, lab.BOpt{PostMerkle: func(m *wire.MsgBlock) { m.Header.MerkleRoot[0] ^= 1 }}, "merkle")
	{
		// CVE-2012-2459: [cb,a,b] and [cb,a,b,b] have the same merkle root and
		// therefore the same block hash; 6 -> 8 transactions likewise.
		dupLast := func(k int) func(m *wire.MsgBlock) {
			return func(m *wire.MsgBlock) {
				n := len(m.Transactions)
				m.Transactions = append(m.Transactions, m.Transactions[n-k:]...)
			}
		}
		two := func() []*wire.MsgTx { return txs(w0.pay("t0", 0), w0.pay("t1", 0)) }
		c.tag++
		tg := 0x10000 + c.tag
		a := c.add("merkle-dup-3to4", "at", w0, ph, lab.BOpt{Tag: tg, Txs: two()})
		b := c.add("merkle-dup-3to4", "past", w0, ph, lab.BOpt{Tag: tg, Txs: two(), PostMerkle: dupLast(1)}, "dup-tx")
		if a.Cand.Hash != b.Cand.Hash {
			panic("CVE-2012-2459 pair does not share the block hash")
		}
		five := func() []*wire.MsgTx {
			return txs(w0.pay("t0", 0), w0.pay("t1", 0), w0.pay("t2", 0), w0.pay("t3", 0), w0.pay("t4", 0))
		}
		c.tag++
		tg = 0x10000 + c.tag
		a = c.add("merkle-dup-6to8", "at", w0, ph, lab.BOpt{Tag: tg, Txs: five()})
		b = c.add("merkle-dup-6to8", "past", w0, ph, lab.BOpt{Tag: tg, Txs: five(), PostMerkle: dupLast(2)}, "dup-tx")
		if a.Cand.Hash != b.Cand.Hash {
			panic("CVE-2012-2459 pair (6->8) does not share the block hash")
		}
		// a plain duplicate (root recomputed, so only the duplicate rule fires)
		c.add("dup-tx", "past", w0, ph, lab.BOpt{Txs: txs(w0.pay("t0", 0), w0.pay("t1", 0), w0.pay("t2", 0)), PreMerkle: func(m *wire.MsgBlock) {
			m.Transactions = append(m.Transactions, m.Transactions[1])
		}}, "dup-tx")
	}

	// ---------------------------------------------------------------- transaction sanity
	{
		t0, t1 := w0.Outs["t0"], w0.Outs["t1"]
		noIn := wire.NewMsgTx(1)
		noIn.AddTxOut(txo(0, lab.OpTrue))
		c.add("tx-no-inputs", "past", w0, ph, lab.BOpt{Txs: txs(noIn)}, "tx-no-inputs").InMemory = true
		c.add("tx-no-outputs", "at", w0, ph, lab.BOpt{Txs: txs(spendTx(1, []out{t0}, 0xffffffff, []*wire.TxOut{txo(0, lab.OpTrue)}, 0))})
		c.add("tx-no-outputs", "past", w0, ph, lab.BOpt{Txs: txs(spendTx(1, []out{t0}, 0xffffffff, nil, 0))}, "tx-no-outputs")
		two := func(a, b int64) *wire.MsgTx {
			return spendTx(1, []out{t0}, 0xffffffff, []*wire.TxOut{txo(a, lab.OpTrue), txo(b, lab.OpTrue)}, 0)
		}
		c.add("txout-negative", "at", w0, ph, lab.BOpt{Txs: txs(two(t0.Value, 0))})
		c.add("txout-negative", "past", w0, ph, lab.BOpt{Txs: txs(two(t0.Value, -1))}, "txout-range")
		c.add("txout-min-int64", "past", w0, ph, lab.BOpt{Txs: txs(two(t0.Value, math.MinInt64))}, "txout-range")
		c.add("txout-above-max", "past", w0, ph, lab.BOpt{Txs: txs(two(0, refblock.MaxMoney+1))}, "txout-range")
		c.add("txout-max-unfunded", "past", w0, ph, lab.BOpt{Txs: txs(two(0, refblock.MaxMoney))}, "value")
		c.add("txout-sum-above-max", "past", w0, ph, lab.BOpt{Txs: txs(two(refblock.MaxMoney/2+1, refblock.MaxMoney/2))}, "txout-range")
		c.add("txout-sum-overflow", "past", w0, ph, lab.BOpt{Txs: txs(two(refblock.MaxMoney, math.MaxInt64-refblock.MaxMoney+1))}, "txout-range")
		c.add("dup-input", "at", w0, ph, lab.BOpt{Txs: txs(spendTx(1, []out{t0, t1}, 0xffffffff, []*wire.TxOut{txo(2*coin, lab.OpTrue)}, 0))})
		c.add("dup-input", "past", w0, ph, lab.BOpt{Txs: txs(spendTx(1, []out{t0, t0}, 0xffffffff, []*wire.TxOut{txo(coin, lab.OpTrue)}, 0))}, "dup-input")
		nullIn := spendTx(1, []out{t0, {Op: wire.OutPoint{Index: 0xffffffff}}}, 0xffffffff, []*wire.TxOut{txo(coin, lab.OpTrue)}, 0)
		c.add("null-prevout", "past", w0, ph, lab.BOpt{Txs: txs(nullIn)}, "null-prevout")
		// almost null: zero hash with index 0xfffffffe is an ordinary (missing) outpoint
		almost := spendTx(1, []out{t0, {Op: wire.OutPoint{Index: 0xfffffffe}}}, 0xffffffff, []*wire.TxOut{txo(coin, lab.OpTrue)}, 0)
		c.add("almost-null-prevout", "past", w0, ph, lab.BOpt{Txs: txs(almost)}, "missing-input")
	}
	{
		hs := byte(0x50 + H) // OP_10: the BIP34 height push at height 10
		script := func(n int) []byte {
			s := make([]byte, n)
			s[0] = hs
			for i := 1; i < n; i++ {
				s[i] = 0x01 // harmless
			}
			return s
		}
		c.add("cb-script-min", "at", w0, ph, lab.BOpt{CoinbaseScript: script(2)})
		c.add("cb-script-min", "past", w0, ph, lab.BOpt{CoinbaseScript: script(1)}, "cb-script-len")
		c.add("cb-script-max", "at", w0, ph, lab.BOpt{CoinbaseScript: script(100)})
		c.add("cb-script-max", "past", w0, ph, lab.BOpt{CoinbaseScript: script(101)}, "cb-script-len")
	}

	// ---------------------------------------------------------------- BIP34 (always active in w0)
	{
		tagged := func(prefix ...byte) []byte { return append(prefix, 0x04, 0xde, 0xad, 0xbe, 0xef) }
		c.add("bip34-h10", "at", w0, ph, lab.BOpt{CoinbaseScript: tagged(0x5a)})
		c.add("bip34-h10-wrong", "past", w0, ph, lab.BOpt{CoinbaseScript: tagged(0x5b)}, "bip34")
		c.add("bip34-h10-nonminimal", "past", w0, ph, lab.BOpt{CoinbaseScript: tagged(0x01, 0x0a)}, "bip34")
		c.add("bip34-h10-missing", "past", w0, ph, lab.BOpt{CoinbaseScript: tagged()}, "bip34")
		c.add("bip34-h10-not-first", "past", w0, ph, lab.BOpt{CoinbaseScript: tagged(0x00, 0x5a)}, "bip34")
	}

	// ---------------------------------------------------------------- lock times (CSV active: compared with the MTP)
	{
		t0 := w0.Outs["t0"]
		lt := func(lock uint32, seq uint32) []*wire.MsgTx {
			return txs(spendTx(1, []out{t0}, seq, []*wire.TxOut{txo(t0.Value, lab.OpTrue)}, lock))
		}
		c.add("locktime-height", "at", w0, ph, lab.BOpt{Txs: lt(uint32(H-1), 0xfffffffe)})
		c.add("locktime-height", "past", w0, ph, lab.BOpt{Txs: lt(uint32(H), 0xfffffffe)}, "nonfinal")
		c.add("locktime-height-final-seq", "at", w0, ph, lab.BOpt{Txs: lt(uint32(H), 0xffffffff)})
		c.add("locktime-mtp", "at", w0, ph, lab.BOpt{Txs: lt(uint32(mtp-1), 0)})
		c.add("locktime-mtp", "past", w0, ph, lab.BOpt{Txs: lt(uint32(mtp), 0)}, "nonfinal")
		c.add("locktime-threshold", "at", w0, ph, lab.BOpt{Txs: lt(500_000_000, 0)})               // smallest time lock, long past
		c.add("locktime-threshold", "past", w0, ph, lab.BOpt{Txs: lt(499_999_999, 0)}, "nonfinal") // largest height lock
		// a non-final coinbase
		c.add("locktime-coinbase", "past", w0, ph, lab.BOpt{PreMerkle: func(m *wire.MsgBlock) {
			m.Transactions[0].LockTime = uint32(H)
			m.Transactions[0].TxIn[0].Sequence = 0
		}}, "nonfinal")
	}
	// ---------------------------------------------------------------- BIP68
	{
		t0 := w0.Outs["t0"] // confirmed at height 3
		rl := func(ver int32, seq uint32) []*wire.MsgTx {
			return txs(spendTx(ver, []out{t0}, seq, []*wire.TxOut{txo(t0.Value, lab.OpTrue)}, 0))
		}
		k := uint32(H - t0.Height) // satisfied exactly at this height
		c.add("bip68-height", "at", w0, ph, lab.BOpt{Txs: rl(2, k)})
		c.add("bip68-height", "past", w0, ph, lab.BOpt{Txs: rl(2, k+1)}, "bip68")
		c.add("bip68-version1", "at", w0, ph, lab.BOpt{Txs: rl(1, k+1)})
		c.add("bip68-disabled", "at", w0, ph, lab.BOpt{Txs: rl(2, 1<<31|(k+1))})
		c.add("bip68-version-negative", "past", w0, ph, lab.BOpt{Txs: rl(-1, k+1)}, "bip68") // version is compared as unsigned
		// seconds: coin time = MTP(height 2), the lock is met iff coinTime + n*512 <= MTP(parent)
		ct := mtpOf(w0.at(t0.Height - 1))
		if (mtp-ct)%512 != 0 {
			panic("world spacing is not a multiple of 512")
		}
		n := uint32((mtp - ct) / 512)
		c.add("bip68-time", "at", w0, ph, lab.BOpt{Txs: rl(2, 1<<22|n)})
		c.add("bip68-time", "past", w0, ph, lab.BOpt{Txs: rl(2, 1<<22|(n+1))}, "bip68")
		// one second short: the same chain with block 5 (the parent's median) one second earlier
		w0s := buildStd(specRegtest, 9, map[int32]int64{5: -1})
		if mtpOf(w0s.at(ph)) != mtp-1 {
			panic("time tweak did not move the MTP")
		}
		t0s := w0s.Outs["t0"]
		c.add("bip68-time-1s", "past", w0s, ph, lab.BOpt{Txs: txs(spendTx(2, []out{t0s}, 1<<22|n, []*wire.TxOut{txo(t0s.Value, lab.OpTrue)}, 0))}, "bip68")
		// the lock of an in-block parent counts from this block
		pa := w0.pay("t1", 0)
		ch1 := spendTx(2, []out{{Op: outpoint(pa, 0), Value: coin}}, 1, []*wire.TxOut{txo(coin, lab.OpTrue)}, 0)
		ch0 := spendTx(2, []out{{Op: outpoint(pa, 0), Value: coin}}, 0, []*wire.TxOut{txo(coin, lab.OpTrue)}, 0)
		c.add("bip68-inblock", "at", w0, ph, lab.BOpt{Txs: txs(pa, ch0)})
		c.add("bip68-inblock", "past", w0, ph, lab.BOpt{Txs: txs(pa, ch1)}, "bip68")
	}

	// ---------------------------------------------------------------- witness commitment
	{
		wd := w0.Outs["wdrop"]
		wtx := func() *wire.MsgTx {
			tx := spendTx(1, []out{wd}, 0xffffffff, []*wire.TxOut{txo(wd.Value, lab.OpTrue)}, 0)
			tx.TxIn[0].Witness = wire.TxWitness{{0x42}, dropScript}
			return tx
		}
		commitWith := func(m *wire.MsgBlock, nonce []byte) []byte {
			// BIP141: dSHA256(witness merkle root || nonce), coinbase wtxid = 0
			ids := make([]chainhash.Hash, len(m.Transactions))
			for i, tx := range m.Transactions {
				if i > 0 {
					ids[i] = lab.WTxID(tx)
				}
			}
			root := lab.MerkleRoot(ids)
			h := chainhash.DoubleHashB(append(root[:], nonce...))
			return append(append([]byte(nil), lab.WitnessMagic...), h...)
		}
		last := func(m *wire.MsgBlock) *wire.TxOut { cb := m.Transactions[0]; return cb.TxOut[len(cb.TxOut)-1] }
		c.add("wc-missing", "at", w0, ph, lab.BOpt{Txs: txs(wtx())})
		c.add("wc-missing", "past", w0, ph, lab.BOpt{Txs: txs(wtx()), NoWitCommit: true}, "wc-unexpected-witness")
		c.add("wc-wrong", "past", w0, ph, lab.BOpt{Txs: txs(wtx()), PreMerkle: func(m *wire.MsgBlock) { last(m).PkScript[37] ^= 1 }}, "wc-mismatch")
		c.add("wc-wrong-first-byte", "past", w0, ph, lab.BOpt{Txs: txs(wtx()), PreMerkle: func(m *wire.MsgBlock) { last(m).PkScript[6] ^= 0x80 }}, "wc-mismatch")
		nz := rep(0xa5, 32)
		c.add("wc-nonce-nonzero", "at", w0, ph, lab.BOpt{Txs: txs(wtx()), PreMerkle: func(m *wire.MsgBlock) {
			m.Transactions[0].TxIn[0].Witness = wire.TxWitness{nz}
			last(m).PkScript = commitWith(m, nz)
		}})
		c.add("wc-nonce-not-committed", "past", w0, ph, lab.BOpt{Txs: txs(wtx()), PreMerkle: func(m *wire.MsgBlock) {
			m.Transactions[0].TxIn[0].Witness = wire.TxWitness{nz}
		}}, "wc-mismatch")
		for _, n := range []int{0, 31, 33} {
			n := n
			c.add(fmt.Sprintf("wc-nonce-%d-bytes", n), "past", w0, ph, lab.BOpt{Txs: txs(wtx()), PreMerkle: func(m *wire.MsgBlock) {
				nonce := make([]byte, n)
				m.Transactions[0].TxIn[0].Witness = wire.TxWitness{nonce}
				last(m).PkScript = commitWith(m, nonce)
			}}, "wc-nonce")
		}
		c.add("wc-nonce-two-items", "past", w0, ph, lab.BOpt{Txs: txs(wtx()), PreMerkle: func(m *wire.MsgBlock) {
			m.Transactions[0].TxIn[0].Witness = wire.TxWitness{make([]byte, 32), make([]byte, 32)}
		}}, "wc-nonce")
		c.add("wc-nonce-absent", "past", w0, ph, lab.BOpt{Txs: txs(wtx()), PreMerkle: func(m *wire.MsgBlock) {
			m.Transactions[0].TxIn[0].Witness = nil
		}}, "wc-nonce")
		// several commitment outputs: the one with the highest index counts
		c.add("wc-last-wins", "at", w0, ph, lab.BOpt{Txs: txs(wtx()), PreMerkle: func(m *wire.MsgBlock) {
			cb := m.Transactions[0]
			good := last(m)
			bad := txo(0, append([]byte(nil), good.PkScript...))
			bad.PkScript[20] ^= 1
			cb.TxOut = append(cb.TxOut[:len(cb.TxOut)-1], bad, good)
		}})
		c.add("wc-last-wins", "past", w0, ph, lab.BOpt{Txs: txs(wtx()), PreMerkle: func(m *wire.MsgBlock) {
			cb := m.Transactions[0]
			good := last(m)
			bad := txo(0, append([]byte(nil), good.PkScript...))
			bad.PkScript[20] ^= 1
			cb.TxOut = append(cb.TxOut[:len(cb.TxOut)-1], good, bad)
		}}, "wc-mismatch")
		c.add("wc-script-longer", "at", w0, ph, lab.BOpt{Txs: txs(wtx()), PreMerkle: func(m *wire.MsgBlock) {
			last(m).PkScript = append(last(m).PkScript, 0x01, 0x02, 0x03)
		}})
		c.add("wc-script-37-bytes", "past", w0, ph, lab.BOpt{Txs: txs(wtx()), PreMerkle: func(m *wire.MsgBlock) {
			// a 37-byte script is not a commitment at all: witness data without commitment
			last(m).PkScript = last(m).PkScript[:37]
			last(m).PkScript[1] = 0x23
		}}, "wc-unexpected-witness")
		c.add("wc-without-witness-txs", "at", w0, ph, lab.BOpt{ForceWitCommit: true})
		c.add("wc-nonce-absent-no-witness-txs", "past", w0, ph, lab.BOpt{ForceWitCommit: true, PreMerkle: func(m *wire.MsgBlock) {
			m.Transactions[0].TxIn[0].Witness = nil
		}}, "wc-nonce")
		c.add("wc-coinbase-witness-only", "past", w0, ph, lab.BOpt{PreMerkle: func(m *wire.MsgBlock) {
			m.Transactions[0].TxIn[0].Witness = wire.TxWitness{make([]byte, 32)}
		}}, "wc-unexpected-witness")
		c.add("wc-wrong-no-witness-txs", "past", w0, ph, lab.BOpt{ForceWitCommit: true, PreMerkle: func(m *wire.MsgBlock) { last(m).PkScript[10] ^= 1 }}, "wc-mismatch")
	}

	// ---------------------------------------------------------------- coinbase value
	{
		fee := int64(1000)
		for _, hh := range []int32{10, 9, 5} {
			phh := hh - 1
			nm := fmt.Sprintf("cb-value-h%d", hh)
			c.add(nm, "at", w0, phh, lab.BOpt{Txs: txs(w0.pay("t0", fee)), Fees: fee})
			c.add(nm, "past", w0, phh, lab.BOpt{Txs: txs(w0.pay("t0", fee)), Fees: fee + 1}, "cb-value")
		}
		c.add("cb-value-no-fees", "at", w0, ph, lab.BOpt{})
		c.add("cb-value-no-fees", "past", w0, ph, lab.BOpt{Fees: 1}, "cb-value")
		c.add("cb-value-old-subsidy", "past", w0, ph, lab.BOpt{CoinbaseOuts: []*wire.TxOut{txo(sub(H-1), lab.OpTrue)}}, "cb-value")
		c.add("cb-value-under", "at", w0, ph, lab.BOpt{Txs: txs(w0.pay("t0", fee)), CoinbaseOuts: []*wire.TxOut{txo(1, lab.OpTrue)}})
		c.add("cb-value-zero-outputs-split", "at", w0, ph, lab.BOpt{Txs: txs(w0.pay("t0", fee)), CoinbaseOuts: []*wire.TxOut{txo(sub(H), lab.OpTrue), txo(fee, lab.OpTrue), txo(0, lab.OpTrue)}})
		c.add("cb-value-zero-outputs-split", "past", w0, ph, lab.BOpt{Txs: txs(w0.pay("t0", fee)), CoinbaseOuts: []*wire.TxOut{txo(sub(H), lab.OpTrue), txo(fee, lab.OpTrue), txo(1, lab.OpTrue)}}, "cb-value")
	}

	// ---------------------------------------------------------------- inputs
	{
		t0, t1 := w0.Outs["t0"], w0.Outs["t1"]
		one := func(in out) *wire.MsgTx {
			return spendTx(1, []out{in}, 0xffffffff, []*wire.TxOut{txo(in.Value, lab.OpTrue)}, 0)
		}
		var rnd chainhash.Hash
		copy(rnd[:], rep(0x77, 32))
		c.add("missing-input", "past", w0, ph, lab.BOpt{Txs: txs(one(out{Op: wire.OutPoint{Hash: rnd}, Value: coin}))}, "missing-input")
		c.add("missing-input-index", "past", w0, ph, lab.BOpt{Txs: txs(one(out{Op: wire.OutPoint{Hash: t0.Op.Hash, Index: 999}, Value: coin}))}, "missing-input")
		sp := w0.Outs["spent"] // (a different transaction than the ancestor's spender, which would also trip BIP30)
		c.add("spent-in-ancestor", "past", w0, ph, lab.BOpt{Txs: txs(spendTx(1, []out{sp}, 0xffffffff, []*wire.TxOut{txo(sp.Value-7, lab.OpTrue)}, 0))}, "missing-input")
		if spp, ok := w0.Outs["spent-in-parent"]; ok {
			c.add("spent-in-parent", "past", w0, ph, lab.BOpt{Txs: txs(spendTx(1, []out{spp}, 0xffffffff, []*wire.TxOut{txo(spp.Value-9, lab.OpTrue)}, 0))}, "missing-input")
		}
		a := one(t0)
		b := spendTx(1, []out{t0}, 0xffffffff, []*wire.TxOut{txo(coin-1, lab.OpTrue), txo(1, lab.OpTrue)}, 0)
		c.add("spent-in-block", "at", w0, ph, lab.BOpt{Txs: txs(a, one(t1))})
		c.add("spent-in-block", "past", w0, ph, lab.BOpt{Txs: txs(a, b)}, "missing-input")
		child := one(out{Op: outpoint(a, 0), Value: coin})
		c.add("order", "at", w0, ph, lab.BOpt{Txs: txs(a, child)})
		c.add("order", "past", w0, ph, lab.BOpt{Txs: txs(child, a)}, "missing-input")
		grand := one(out{Op: outpoint(child, 0), Value: coin})
		c.add("order-chain3", "at", w0, ph, lab.BOpt{Txs: txs(a, child, grand)})
		c.add("order-chain3", "past", w0, ph, lab.BOpt{Txs: txs(a, grand, child)}, "missing-input")
		// maturity 2
		c.add("maturity", "at", w0, ph, lab.BOpt{Txs: txs(one(w0.cbOut(H - 2)))})
		c.add("maturity", "past", w0, ph, lab.BOpt{Txs: txs(one(w0.cbOut(H - 1)))}, "immature")
		// the block's own coinbase
		probe := lab.Build(p0, w0.at(ph), lab.BOpt{Tag: 0x4242, Time: w0.timeAt(H)})
		own := out{Op: outpoint(probe.Msg.Transactions[0], 0), Value: sub(H)}
		c.add("maturity-own-coinbase", "past", w0, ph, lab.BOpt{Tag: 0x4242, Txs: txs(one(own))}, "immature")
		// value conservation
		c.add("value", "at", w0, ph, lab.BOpt{Txs: txs(one(t0))})
		c.add("value", "past", w0, ph, lab.BOpt{Txs: txs(spendTx(1, []out{t0}, 0xffffffff, []*wire.TxOut{txo(t0.Value+1, lab.OpTrue)}, 0))}, "value")
		c.add("value-two-inputs", "at", w0, ph, lab.BOpt{Txs: txs(spendTx(1, []out{t0, t1}, 0xffffffff, []*wire.TxOut{txo(t0.Value, lab.OpTrue), txo(t1.Value, lab.OpTrue)}, 0))})
		c.add("value-two-inputs", "past", w0, ph, lab.BOpt{Txs: txs(spendTx(1, []out{t0, t1}, 0xffffffff, []*wire.TxOut{txo(t0.Value, lab.OpTrue), txo(t1.Value+1, lab.OpTrue)}, 0))}, "value")
	}

	// ---------------------------------------------------------------- the UTXO view is the candidate's own branch
	{
		t5, t6 := w0.Outs["t5"], w0.Outs["t6"]
		// an output that exists only on the competing branch
		alt := w0.pay("t5", 0)
		cs := c.add("input-only-on-other-branch", "past", w0, ph, lab.BOpt{Txs: txs(spendTx(1, []out{{Op: outpoint(alt, 0), Value: t5.Value}}, 0xffffffff, []*wire.TxOut{txo(t5.Value, lab.OpTrue)}, 0))}, "missing-input")
		cs.AltTxs = txs(alt)
		// an output spent only on the competing branch
		cs = c.add("input-spent-on-other-branch", "at", w0, ph, lab.BOpt{Txs: txs(w0.pay("t6", 5))})
		cs.AltTxs = txs(w0.pay("t6", 0))
		_ = t6
		// outputs created by the parent block itself (the parent is B3 with the fan-out, B4 with a spend)
		pk := w0.Outs["pkh1"]
		sp := spendTx(1, []out{w0.Outs["t7"], pk}, 0xffffffff, []*wire.TxOut{txo(2*coin, lab.OpTrue)}, 0)
		sp.TxIn[1].SignatureScript = signP2PKH(sp, 1, key1, pk.Script)
		c.add("spend-parent-output", "at", w0, 3, lab.BOpt{Txs: txs(sp)})
		cb1 := w0.at(1).Msg.Transactions[0]
		c.add("spend-parent-output", "past", w0, 3, lab.BOpt{Txs: txs(spendTx(1, []out{{Op: outpoint(cb1, 0)}}, 0xffffffff, []*wire.TxOut{txo(coin, lab.OpTrue)}, 0))}, "missing-input")
		b4tx := w0.at(4).Msg.Transactions[1]
		c.add("spend-parent-output-h5", "at", w0, 4, lab.BOpt{Txs: txs(spendTx(1, []out{{Op: outpoint(b4tx, 0)}}, 0xffffffff, []*wire.TxOut{txo(b4tx.TxOut[0].Value, lab.OpTrue)}, 0))})
		c.add("spend-parent-output-h5", "past", w0, 4, lab.BOpt{Txs: txs(spendTx(1, []out{{Op: outpoint(b4tx, 0)}}, 0xffffffff, []*wire.TxOut{txo(b4tx.TxOut[0].Value+1, lab.OpTrue)}, 0))}, "value")
	}

	// ---------------------------------------------------------------- scripts
	{
		t8 := w0.Outs["t8"]
		uw := spendTx(1, []out{t8}, 0xffffffff, []*wire.TxOut{txo(t8.Value, lab.OpTrue)}, 0)
		uw.TxIn[0].Witness = wire.TxWitness{{0x01}}
		c.add("script-witness-unexpected", "past", w0, ph, lab.BOpt{Txs: txs(uw)}, "script")
		pk := w0.Outs["pkh0"]
		mk := func(k func(tx *wire.MsgTx)) *wire.MsgTx {
			tx := spendTx(1, []out{pk}, 0xffffffff, []*wire.TxOut{txo(pk.Value, lab.OpTrue)}, 0)
			k(tx)
			return tx
		}
		good := mk(func(tx *wire.MsgTx) { tx.TxIn[0].SignatureScript = signP2PKH(tx, 0, key1, pk.Script) })
		wrongKey := mk(func(tx *wire.MsgTx) {
			// a well-formed signature by another key, presented with the right public key
			s := signP2PKH(tx, 0, key2, pk.Script)
			sigLen := int(s[0])
			tx.TxIn[0].SignatureScript = cat(s[:1+sigLen], push(pub(key1)))
		})
		otherTx := mk(func(tx *wire.MsgTx) {
			// a signature for different outputs (sighash mismatch)
			tx.TxOut[0].Value--
			s := signP2PKH(tx, 0, key1, pk.Script)
			tx.TxOut[0].Value++
			tx.TxIn[0].SignatureScript = s
		})
		c.add("script-sig", "at", w0, ph, lab.BOpt{Txs: txs(good)})
		c.add("script-sig", "past", w0, ph, lab.BOpt{Txs: txs(wrongKey)}, "script")
		c.add("script-sig-other-tx", "past", w0, ph, lab.BOpt{Txs: txs(otherTx)}, "script")
		c.add("script-empty-sigscript", "past", w0, ph, lab.BOpt{Txs: txs(mk(func(*wire.MsgTx) {}))}, "script")
		nonDER := mk(func(tx *wire.MsgTx) { tx.TxIn[0].SignatureScript = signP2PKHNonDER(tx, 0, key1, pk.Script) })
		c.add("script-nonder-after-bip66", "past", w0, ph, lab.BOpt{Txs: txs(nonDER)}, "script")
		// segwit spends
		wp := w0.Outs["wpkh0"]
		wtx := spendTx(1, []out{wp}, 0xffffffff, []*wire.TxOut{txo(wp.Value, lab.OpTrue)}, 0)
		wtx.TxIn[0].Witness = signP2WPKH(wtx, 0, wp.Value, key1)
		c.add("script-p2wpkh", "at", w0, ph, lab.BOpt{Txs: txs(wtx)})
		wbad := spendTx(1, []out{wp}, 0xffffffff, []*wire.TxOut{txo(wp.Value, lab.OpTrue)}, 0)
		wbad.TxIn[0].Witness = signP2WPKH(wbad, 0, wp.Value-1, key1) // BIP143 commits to the amount
		c.add("script-p2wpkh", "past", w0, ph, lab.BOpt{Txs: txs(wbad)}, "script")
		wnone := spendTx(1, []out{wp}, 0xffffffff, []*wire.TxOut{txo(wp.Value, lab.OpTrue)}, 0)
		c.add("script-p2wpkh-no-witness", "past", w0, ph, lab.BOpt{Txs: txs(wnone)}, "script")
		// version-1 spender of "1 CSV" (CSV active)
		cv := w0.Outs["csvop"]
		c.add("script-csv-v2", "at", w0, ph, lab.BOpt{Txs: txs(spendTx(2, []out{cv}, 1, []*wire.TxOut{txo(cv.Value, lab.OpTrue)}, 0))})
		c.add("script-csv-v1", "past", w0, ph, lab.BOpt{Txs: txs(spendTx(1, []out{cv}, 1, []*wire.TxOut{txo(cv.Value, lab.OpTrue)}, 0))}, "script")
		// "5 CLTV DROP 1" needs nLockTime >= 5 and a non-final sequence
		cl := w0.Outs["cltv"]
		c.add("script-cltv", "at", w0, ph, lab.BOpt{Txs: txs(spendTx(1, []out{cl}, 0, []*wire.TxOut{txo(cl.Value, lab.OpTrue)}, 5))})
		c.add("script-cltv", "past", w0, ph, lab.BOpt{Txs: txs(spendTx(1, []out{cl}, 0, []*wire.TxOut{txo(cl.Value, lab.OpTrue)}, 4))}, "script")
	}

	// ---------------------------------------------------------------- staged activation heights
	{
		w1 := buildStd(specStaged, 9, nil)
		v := func(ver int32) lab.BOpt { return lab.BOpt{Version: ver} }
		c.add("version-bip34", "at", w1, 2, v(1))
		c.add("version-bip34", "past", w1, 3, v(1), "version")
		c.add("version-bip66", "at", w1, 4, v(2))
		c.add("version-bip66", "past", w1, 5, v(2), "version")
		c.add("version-bip65", "at", w1, 6, v(3))
		c.add("version-bip65", "past", w1, 7, v(3), "version")
		c.add("version-4-at-bip65", "at", w1, 7, v(4))
		c.add("version-negative", "past", w1, 3, v(-1), "version")
		c.add("version-min-int32", "past", w1, 7, v(math.MinInt32), "version")
		c.add("version-max-int32", "at", w1, 7, v(math.MaxInt32))
		c.add("version-0-before-bip34", "at", w1, 2, lab.BOpt{PostMerkle: func(m *wire.MsgBlock) { m.Header.Version = 0 }})
		// BIP34 from height 4
		tagged := func(prefix ...byte) []byte { return append(prefix, 0x04, 0xca, 0xfe, 0xba, 0xbe) }
		c.add("bip34-activation-missing", "at", w1, 2, lab.BOpt{CoinbaseScript: tagged()})
		c.add("bip34-activation-missing", "past", w1, 3, lab.BOpt{CoinbaseScript: tagged()}, "bip34")
		c.add("bip34-activation-wrong", "at", w1, 2, lab.BOpt{CoinbaseScript: tagged(0x55)})
		c.add("bip34-activation-wrong", "past", w1, 3, lab.BOpt{CoinbaseScript: tagged(0x55)}, "bip34")
		c.add("bip34-activation-nonminimal", "at", w1, 3, lab.BOpt{CoinbaseScript: tagged(0x54)})
		c.add("bip34-activation-nonminimal", "past", w1, 3, lab.BOpt{CoinbaseScript: tagged(0x01, 0x04)}, "bip34")
		// BIP66 from height 6: a padded-R signature
		pk := w1.Outs["pkh0"]
		nonDER := spendTx(1, []out{pk}, 0xffffffff, []*wire.TxOut{txo(pk.Value, lab.OpTrue)}, 0)
		nonDER.TxIn[0].SignatureScript = signP2PKHNonDER(nonDER, 0, key1, pk.Script)
		c.add("bip66-nonder", "at", w1, 4, lab.BOpt{Version: 2, Txs: txs(nonDER)})
		c.add("bip66-nonder", "past", w1, 5, lab.BOpt{Version: 3, Txs: txs(nonDER)}, "script")
		c.add("bip66-nonder-v4-before", "at", w1, 4, lab.BOpt{Version: 4, Txs: txs(nonDER)})
		// BIP65 from height 8
		cl := w1.Outs["cltv"]
		cltvFail := spendTx(1, []out{cl}, 0, []*wire.TxOut{txo(cl.Value, lab.OpTrue)}, 4)
		c.add("bip65-cltv", "at", w1, 6, lab.BOpt{Version: 3, Txs: txs(cltvFail)})
		c.add("bip65-cltv", "past", w1, 7, lab.BOpt{Version: 4, Txs: txs(cltvFail)}, "script")
		c.add("bip65-cltv-v4-before", "at", w1, 6, lab.BOpt{Version: 4, Txs: txs(cltvFail)})
	}

	// ---------------------------------------------------------------- segwit activating at height 8
	// A witness program is anyone-can-spend until the block at the activation
	// height: the last block before it (judged with its own, not its child's,
	// deployment state) may spend one with an empty witness, the first block at
	// it may not.
	{
		w4 := buildStd(specSegLate, 9, nil)
		wp := w4.Outs["wpkh0"]
		bare := func() []*wire.MsgTx {
			return txs(spendTx(1, []out{wp}, 0xffffffff, []*wire.TxOut{txo(wp.Value, lab.OpTrue)}, 0))
		}
		c.add("segwit-activation-bare-spend", "at", w4, 6, lab.BOpt{Txs: bare()})
		c.add("segwit-activation-bare-spend", "past", w4, 7, lab.BOpt{Txs: bare()}, "script")
		ws := w4.Outs["wsh1"]
		c.add("segwit-activation-bare-spend-wsh", "at", w4, 6, lab.BOpt{Txs: txs(spendTx(1, []out{ws}, 0xffffffff, []*wire.TxOut{txo(ws.Value, lab.OpTrue)}, 0))})
	}

	// ---------------------------------------------------------------- CSV not active
	{
		w3 := buildStd(specCsvOff, 9, nil)
		t0 := w3.Outs["t0"]
		bt := w3.timeAt(H).Unix()
		lt := func(lock uint32) []*wire.MsgTx {
			return txs(spendTx(1, []out{t0}, 0, []*wire.TxOut{txo(t0.Value, lab.OpTrue)}, lock))
		}
		c.add("locktime-blocktime-precsv", "at", w3, ph, lab.BOpt{Txs: lt(uint32(bt - 1))})
		c.add("locktime-blocktime-precsv", "past", w3, ph, lab.BOpt{Txs: lt(uint32(bt))}, "nonfinal")
		c.add("bip68-precsv", "at", w3, ph, lab.BOpt{Txs: txs(spendTx(2, []out{t0}, 100, []*wire.TxOut{txo(t0.Value, lab.OpTrue)}, 0))})
		cv := w3.Outs["csvop"]
		c.add("script-csv-precsv", "at", w3, ph, lab.BOpt{Txs: txs(spendTx(1, []out{cv}, 1, []*wire.TxOut{txo(cv.Value, lab.OpTrue)}, 0))})
	}

	// ---------------------------------------------------------------- BIP30 (BIP34 off)
	{
		for _, full := range []bool{true, false} {
			w := buildBip30(full)
			o := lab.BOpt{CoinbaseScript: bip30Script, CoinbaseOuts: bip30Outs(w)}
			if full {
				c.add("bip30", "at", w, 3, o)
			} else {
				cs := c.add("bip30", "past", w, 3, o, "bip30")
				// on the competing branch the first incarnation is fully spent
				cb1 := w.at(1).Msg.Transactions[0]
				cs.AltTxs = txs(spendTx(1, []out{{Op: outpoint(cb1, 0)}, {Op: outpoint(cb1, 1)}}, 0xffffffff, []*wire.TxOut{txo(cb1.TxOut[0].Value+cb1.TxOut[1].Value, lab.OpTrue)}, 0))
			}
		}
	}

	{
		// the duplicated coinbase lives only on the competing branch: no overwrite
		w := buildBip30(true)
		cs := c.add("bip30-other-branch", "at", w, 3, lab.BOpt{CoinbaseScript: []byte{0x02, 0xbe, 0xef}, CoinbaseOuts: bip30Outs(w)})
		cs.AltCoinbaseScript = []byte{0x02, 0xbe, 0xef}
		cs.AltCoinbaseOuts = bip30Outs(w)
	}

	// ---------------------------------------------------------------- BIP34 encodings at larger heights
	{
		type enc struct {
			h         int32
			good, bad []byte
		}
		encs := []enc{
			{16, []byte{0x60}, []byte{0x01, 0x10}},
			{17, []byte{0x01, 0x11}, []byte{0x02, 0x11, 0x00}},
		}
		if thorough {
			encs = append(encs,
				enc{127, []byte{0x01, 0x7f}, []byte{0x02, 0x7f, 0x00}},
				enc{128, []byte{0x02, 0x80, 0x00}, []byte{0x01, 0x80}},
				enc{129, []byte{0x02, 0x81, 0x00}, []byte{0x01, 0x81}},
				enc{255, []byte{0x02, 0xff, 0x00}, []byte{0x01, 0xff}},
				enc{256, []byte{0x02, 0x00, 0x01}, []byte{0x03, 0x00, 0x01, 0x00}},
			)
		}
		var maxH int32
		for _, e := range encs {
			if e.h > maxH {
				maxH = e.h
			}
		}
		wl := buildStd(specRegtest, maxH-1, nil)
		// the height push alone is exactly the minimum coinbase script length
		c.add("bip34-h17-exact-min-length", "at", wl, 16, lab.BOpt{CoinbaseScript: []byte{0x01, 0x11}})
		for _, e := range encs {
			tail := []byte{0x04, 0x0b, 0x0b, 0x0b, 0x0b}
			nm := fmt.Sprintf("bip34-h%d", e.h)
			c.add(nm, "at", wl, e.h-1, lab.BOpt{CoinbaseScript: cat(e.good, tail)})
			c.add(nm, "past", wl, e.h-1, lab.BOpt{CoinbaseScript: cat(e.bad, tail)}, "bip34")
		}
	}

	// ---------------------------------------------------------------- retargeting parameter set (thorough)
	if thorough {
		addRetarget(c)
	}
	return c
}

var bip30Script = []byte{0x02, 0xd0, 0x0d}

func bip30Outs(w *World) []*wire.TxOut {
	s := lab.Subsidy(1, w.params())
	return []*wire.TxOut{txo(s/2, lab.OpTrue), txo(s-s/2, lab.OpTrue)}
}

// buildBip30: block 1's coinbase is the one that will be duplicated; block 3
// spends both of its outputs (full) or only the first.
func buildBip30(full bool) *World {
	spec := specBip30
	if !full {
		spec.Name = "bip30-partial"
	}
	w := &World{Spec: spec, RP: spec.Ref(), Outs: map[string]out{}}
	p := w.params()
	parent := lab.Genesis(p)
	for h := int32(1); h <= 3; h++ {
		o := lab.BOpt{Name: fmt.Sprintf("%s.B%d", spec.Name, h), Tag: w.nextTag(), Time: w.timeAt(h)}
		switch h {
		case 1:
			o.CoinbaseScript = bip30Script
			o.CoinbaseOuts = bip30Outs(w)
		case 3:
			cb1 := w.Blocks[0].Msg.Transactions[0]
			ins := []out{{Op: outpoint(cb1, 0), Value: cb1.TxOut[0].Value}}
			if full {
				ins = append(ins, out{Op: outpoint(cb1, 1), Value: cb1.TxOut[1].Value})
			}
			var total int64
			for _, i := range ins {
				total += i.Value
			}
			o.Txs = txs(spendTx(1, ins, 0xffffffff, []*wire.TxOut{txo(total, lab.OpTrue)}, 0))
		}
		b := lab.Build(p, parent, o)
		w.Blocks = append(w.Blocks, b)
		parent = b
	}
	return w
}

// buildTimed builds a chain of empty blocks whose timestamps follow the given
// gaps (gaps[h] = seconds between block h-1 and block h; block 1 is at Now-30d)
// and whose bits are the ones the reference difficulty rule demands.
func buildTimed(spec Spec, gaps map[int32]int64, n int32) *World {
	w := &World{Spec: spec, RP: spec.Ref(), Outs: map[string]out{}}
	p := w.params()
	parent := lab.Genesis(p)
	t := lab.Now.Add(-30 * 24 * time.Hour).Unix()
	for h := int32(1); h <= n; h++ {
		if h > 1 {
			g, ok := gaps[h]
			if !ok {
				g = spec.Spacing
			}
			t += g
		}
		bits := w.RP.ExpectedBits(headersOf(parent), t)
		b := lab.Build(p, parent, lab.BOpt{Name: fmt.Sprintf("%s.B%d", spec.Name, h), Tag: w.nextTag(), Time: time.Unix(t, 0), Bits: bits})
		w.Blocks = append(w.Blocks, b)
		parent = b
	}
	return w
}

func after(b *lab.Blk, sec int64) time.Time { return time.Unix(blkTime(b)+sec, 0) }

// addRetarget: difficulty parameter sets retargeting every 4 blocks (target
// spacing 512 s).  Blocks 5..7 come 128 s apart, so block 8 must be 4x harder.
func addRetarget(c *catalog) {
	fast := map[int32]int64{5: 128, 6: 128, 7: 128}
	const limit = regtestPowLimitBits
	{
		// mainnet-like
		w := buildTimed(specRetgt, fast, 8)
		hard := w.at(8).Msg.Header.Bits
		if hard == limit || w.at(7).Msg.Header.Bits != limit {
			panic("retarget world did not retarget at height 8")
		}
		c.add("retarget-new-bits", "at", w, 7, lab.BOpt{Time: after(w.at(7), 512), Bits: hard})
		c.add("retarget-new-bits", "past", w, 7, lab.BOpt{Time: after(w.at(7), 512), Bits: limit}, "bits-expected")
		c.add("retarget-bits-persist", "at", w, 8, lab.BOpt{Time: after(w.at(8), 5000), Bits: hard})
		c.add("retarget-bits-persist", "past", w, 8, lab.BOpt{Time: after(w.at(8), 5000), Bits: limit}, "bits-expected")
		c.add("retarget-early", "past", w, 6, lab.BOpt{Time: after(w.at(6), 128), Bits: hard}, "bits-expected")
	}
	{
		// testnet3-like: a block more than 2*512 s after its parent may use the limit
		gaps := map[int32]int64{5: 128, 6: 128, 7: 128, 9: 1025}
		w := buildTimed(specMinDiff, gaps, 10)
		hard := w.at(8).Msg.Header.Bits
		if hard == limit || w.at(9).Msg.Header.Bits != limit || w.at(10).Msg.Header.Bits != hard {
			panic("min-difficulty world is not as designed")
		}
		c.add("mindiff-gap", "at", w, 8, lab.BOpt{Time: after(w.at(8), 1025), Bits: limit})
		c.add("mindiff-gap", "past", w, 8, lab.BOpt{Time: after(w.at(8), 1024), Bits: limit}, "bits-expected")
		c.add("mindiff-gap-real-bits", "at", w, 8, lab.BOpt{Time: after(w.at(8), 1024), Bits: hard})
		c.add("mindiff-gap-real-bits", "past", w, 8, lab.BOpt{Time: after(w.at(8), 1025), Bits: hard}, "bits-expected")
		// after a min-difficulty block the real difficulty comes back
		c.add("mindiff-return", "at", w, 9, lab.BOpt{Time: after(w.at(9), 512), Bits: hard})
		c.add("mindiff-return", "past", w, 9, lab.BOpt{Time: after(w.at(9), 512), Bits: limit}, "bits-expected")
	}
	{
		// testnet4-like (BIP94)
		gaps := map[int32]int64{11: 1025}
		w := buildTimed(specBip94, gaps, 11)
		hard1 := w.at(8).Msg.Header.Bits
		if hard1 == limit || w.at(11).Msg.Header.Bits != limit || w.at(10).Msg.Header.Bits != hard1 {
			panic("bip94 world is not as designed")
		}
		c.add("bip94-timewarp", "at", w, 7, lab.BOpt{Time: after(w.at(7), -600), Bits: hard1})
		c.add("bip94-timewarp", "past", w, 7, lab.BOpt{Time: after(w.at(7), -601), Bits: hard1}, "timewarp")
		c.add("bip94-timewarp-not-boundary", "at", w, 8, lab.BOpt{Time: after(w.at(8), -601), Bits: hard1})
		// the retarget at height 12 starts from the bits of the period's FIRST block
		// (height 8), not from the last one (height 11, a min-difficulty block)
		hdrs := headersOf(w.at(11))
		t12 := blkTime(w.at(11)) + 512
		fromFirst := w.RP.ExpectedBits(hdrs, t12)
		nonBip94 := refRetarget(hdrs, t12, retargetSpec{Window: 4, Spacing: 512, MinDiff: true})
		if fromFirst == nonBip94 || fromFirst == hard1 {
			panic("bip94 retarget does not discriminate")
		}
		c.add("bip94-retarget-first-block", "at", w, 11, lab.BOpt{Time: time.Unix(t12, 0), Bits: fromFirst})
		c.add("bip94-retarget-first-block", "past", w, 11, lab.BOpt{Time: time.Unix(t12, 0), Bits: nonBip94}, "bits-expected")
	}
}
