package main

import (
	"fmt"
	"math/big"
	"time"

	"github.com/btcsuite/btcd/chaincfg/v2"
	"github.com/btcsuite/btcd/wire/v2"

	"verif/lab"
	"verif/ref/refblock"
)

// never is an activation height no lab chain reaches.
const never = int32(1_000_000)

// Spec is a synthetic parameter set described once and translated separately
// into btcd's chaincfg.Params (implementation side) and refblock.Params
// (reference side).
type Spec struct {
	Name                string
	BIP34, BIP65, BIP66 int32
	CSV                 int32 // activation height (1 = always, never = off)
	Segwit              int32 // segwit + taproot activation height (0 = 1 = always)
	Maturity            int32
	Halving             int32
	Spacing             int64 // seconds between lab blocks
	retarget            *retargetSpec
}

type retargetSpec struct {
	Window  int32 // blocks per retarget
	Spacing int64 // target seconds per block
	MinDiff bool  // testnet rule: a block more than 2*Spacing after its parent may use the limit
	BIP94   bool  // testnet4: retarget from the period's first block, time-warp rule
}

func (s Spec) Impl() *chaincfg.Params {
	p := lab.CloneParams(&chaincfg.RegressionNetParams)
	p.Name = "c01-" + s.Name
	p.Checkpoints = nil
	p.CoinbaseMaturity = uint16(s.Maturity)
	p.SubsidyReductionInterval = s.Halving
	p.BIP0034Height, p.BIP0065Height, p.BIP0066Height = s.BIP34, s.BIP65, s.BIP66
	p.BIP0034Hash = nil
	if s.CSV >= never {
		p.Deployments[chaincfg.DeploymentCSV].AlwaysActiveHeight = 0
	} else {
		p.Deployments[chaincfg.DeploymentCSV].AlwaysActiveHeight = uint32(s.CSV)
	}
	if s.Segwit > 1 {
		p.Deployments[chaincfg.DeploymentSegwit].AlwaysActiveHeight = uint32(s.Segwit)
		p.Deployments[chaincfg.DeploymentTaproot].AlwaysActiveHeight = uint32(s.Segwit)
	}
	if s.retarget != nil {
		p.PoWNoRetargeting = false
		p.ReduceMinDifficulty = false
		p.TargetTimePerBlock = time.Duration(s.retarget.Spacing) * time.Second
		p.TargetTimespan = time.Duration(s.retarget.Spacing*int64(s.retarget.Window)) * time.Second
		p.RetargetAdjustmentFactor = 4
		p.ReduceMinDifficulty = s.retarget.MinDiff
		p.MinDiffReductionTime = 2 * p.TargetTimePerBlock
		p.EnforceBIP94 = s.retarget.BIP94
	}
	return p
}

func max32(a, b int32) int32 {
	if a > b {
		return a
	}
	return b
}

var regtestPowLimit = new(big.Int).Sub(new(big.Int).Lsh(big.NewInt(1), 255), big.NewInt(1))

const regtestPowLimitBits = 0x207fffff

func (s Spec) Ref() *refblock.Params {
	rp := &refblock.Params{
		PowLimit:        regtestPowLimit,
		BIP34Height:     s.BIP34,
		BIP65Height:     s.BIP65,
		BIP66Height:     s.BIP66,
		CSVHeight:       s.CSV,
		SegwitHeight:    max32(1, s.Segwit),
		TaprootHeight:   max32(1, s.Segwit),
		Maturity:        s.Maturity,
		HalvingInterval: s.Halving,
		BIP16Time:       1333238400,
		BIP30Always:     true,
	}
	if s.retarget == nil {
		rp.ExpectedBits = func([]wire.BlockHeader, int64) uint32 { return regtestPowLimitBits }
	} else {
		rt := *s.retarget
		rp.ExpectedBits = func(h []wire.BlockHeader, t int64) uint32 { return refRetarget(h, t, rt) }
		rp.BIP94 = rt.BIP94
		rp.Window = rt.Window
	}
	return rp
}

// refRetarget is Bitcoin's difficulty rule (pow.cpp GetNextWorkRequired without
// the testnet exceptions), naive: the window's first block is height-(W-1), the
// timespan is clamped to [T/4, 4T], the new target is old*span/T capped at the
// limit and rounded to compact form.
func refRetarget(h []wire.BlockHeader, blockTime int64, rt retargetSpec) uint32 {
	last := len(h) - 1
	next := int32(last + 1)
	if next%rt.Window != 0 {
		if rt.MinDiff {
			// testnet: after more than twice the spacing the limit is allowed;
			// otherwise the last bits that were not such an exception
			if blockTime > h[last].Timestamp.Unix()+2*rt.Spacing {
				return regtestPowLimitBits
			}
			i := last
			for i > 0 && int32(i)%rt.Window != 0 && h[i].Bits == regtestPowLimitBits {
				i--
			}
			return h[i].Bits
		}
		return h[last].Bits
	}
	first := last - int(rt.Window-1)
	span := h[last].Timestamp.Unix() - h[first].Timestamp.Unix()
	T := rt.Spacing * int64(rt.Window)
	if span < T/4 {
		span = T / 4
	}
	if span > T*4 {
		span = T * 4
	}
	from := h[last].Bits
	if rt.BIP94 {
		from = h[first].Bits
	}
	old, _, _ := refblock.DecodeCompact(from)
	n := new(big.Int).Mul(old, big.NewInt(span))
	n.Div(n, big.NewInt(T))
	if n.Cmp(regtestPowLimit) > 0 {
		n.Set(regtestPowLimit)
	}
	return encodeCompact(n)
}

// encodeCompact is arith_uint256::GetCompact for positive values.
func encodeCompact(n *big.Int) uint32 {
	size := (n.BitLen() + 7) / 8
	var c uint64
	if size <= 3 {
		c = n.Uint64() << uint(8*(3-size))
	} else {
		c = new(big.Int).Rsh(n, uint(8*(size-3))).Uint64()
	}
	if c&0x00800000 != 0 {
		c >>= 8
		size++
	}
	return uint32(c) | uint32(size)<<24
}

// World is a parameter set plus a valid base chain with named funded outputs.
type World struct {
	Spec   Spec
	RP     *refblock.Params
	Blocks []*lab.Blk // Blocks[h-1] is the block at height h
	Outs   map[string]out
	Tag    uint32
	F      *wire.MsgTx // the fan-out transaction (block 3)
	P      *chaincfg.Params
}

// params returns the world's prototype parameters (read-only use by the block
// builder; every chain instance gets its own clone from Spec.Impl).
func (w *World) params() *chaincfg.Params {
	if w.P == nil {
		w.P = w.Spec.Impl()
	}
	return w.P
}

// headersOf lists the headers from genesis to b.
func headersOf(b *lab.Blk) []wire.BlockHeader {
	var out []wire.BlockHeader
	for n := b; n != nil; n = n.Parent {
		out = append(out, n.Msg.Header)
	}
	for i, j := 0, len(out)-1; i < j; i, j = i+1, j-1 {
		out[i], out[j] = out[j], out[i]
	}
	return out
}

// filler builds a valid block on parent (expected bits from the reference rule).
func (w *World) filler(parent *lab.Blk, name string, tag uint32, txs []*wire.MsgTx, extraCoinbase int64) *lab.Blk {
	return w.fillerOpt(parent, lab.BOpt{Name: name, Tag: tag, Txs: txs, Fees: extraCoinbase})
}

func (w *World) fillerOpt(parent *lab.Blk, o lab.BOpt) *lab.Blk {
	o.Time = childTime(parent)
	o.Bits = w.RP.ExpectedBits(headersOf(parent), o.Time.Unix())
	return lab.Build(w.params(), parent, o)
}

func (w *World) at(h int32) *lab.Blk {
	if h == 0 {
		return w.genesis()
	}
	return w.Blocks[h-1]
}

func (w *World) genesis() *lab.Blk {
	if len(w.Blocks) > 0 {
		n := w.Blocks[0]
		return n.Parent
	}
	return lab.Genesis(w.Spec.Impl())
}

func (w *World) timeAt(h int32) time.Time {
	t1 := lab.Now.Add(-30 * 24 * time.Hour).Unix()
	return time.Unix(t1+int64(h-1)*w.Spec.Spacing, 0)
}

func (w *World) nextTag() uint32 { w.Tag++; return w.Tag }

// sigop carriers (see deadBranch): accurate counts 100 / 101 for P2SH and
// 400 / 401 for P2WSH, mixing OP_CHECKSIG and "OP_16 OP_CHECKMULTISIG" so that an
// inaccurate (20 per multisig) count would be off.
var (
	redeem100 = deadBranch(cat(rep(opCS, 84), []byte{op16, opCMS}))
	redeem101 = deadBranch(cat(rep(opCS, 85), []byte{op16, opCMS}))
	wit400    = deadBranch(repPair(op16, opCMS, 25))
	wit401    = deadBranch(cat(repPair(op16, opCMS, 25), []byte{opCS}))
	wit1      = deadBranch([]byte{opCS})
	cltvScr   = []byte{0x55, opCLTV, opDrop, op1} // "5 CLTV DROP 1": fails with nLockTime 0 once enforced
	csvScr    = []byte{op1, opCSV}                // "1 CSV": fails for a version-1 spender once enforced
)

func repPair(a, b byte, n int) []byte {
	var out []byte
	for i := 0; i < n; i++ {
		out = append(out, a, b)
	}
	return out
}

const coin = int64(100_000_000)

// fanOutputs is the layout of the fan-out transaction of every standard world.
func fanOutputs() (names []string, outs []*wire.TxOut) {
	add := func(n string, v int64, s []byte) {
		names = append(names, n)
		outs = append(outs, txo(v, s))
	}
	for i := 0; i < 10; i++ {
		add(fmt.Sprintf("t%d", i), coin, lab.OpTrue)
	}
	add("pkh0", coin, p2pkh(key1))
	add("pkh1", coin, p2pkh(key1))
	add("sh100", coin, p2sh(redeem100))
	add("sh101", coin, p2sh(redeem101))
	add("wsh400", coin, p2wsh(wit400))
	add("wsh401", coin, p2wsh(wit401))
	add("wdrop", coin, p2wsh(dropScript))
	add("wpkh0", coin, p2wpkh(key1))
	add("wpkh1", coin, p2wpkh(key1))
	add("wsh1", coin, p2wsh(wit1))
	add("shwpkh0", coin, p2sh(p2wpkh(key1)))
	add("cltv", coin, cltvScr)
	add("csvop", coin, csvScr)
	return
}

// buildStd builds the standard base chain of n blocks:
//
//	1: coinbase with 4 anyone-can-spend outputs
//	2: coinbase only
//	3: fan-out F spending coinbase(1):0,1 into the named typed outputs
//	4: a transaction spending coinbase(1):2 (an output "spent in an ancestor")
//	5..n: coinbase only
//
// timeTweak (may be nil) shifts the timestamp of single blocks (seconds).
func buildStd(spec Spec, n int32, timeTweak map[int32]int64) *World {
	w := &World{Spec: spec, RP: spec.Ref(), Outs: map[string]out{}}
	p := w.params()
	parent := lab.Genesis(p)
	for h := int32(1); h <= n; h++ {
		o := lab.BOpt{Name: fmt.Sprintf("%s.B%d", spec.Name, h), Tag: w.nextTag(), Time: w.timeAt(h)}
		if d, ok := timeTweak[h]; ok {
			o.Time = o.Time.Add(time.Duration(d) * time.Second)
		}
		switch h {
		case 1:
			o.NumCbOuts = 4
		case 3:
			cb1 := w.Blocks[0].Msg.Transactions[0]
			in0 := out{Op: outpoint(cb1, 0), Value: cb1.TxOut[0].Value}
			in1 := out{Op: outpoint(cb1, 1), Value: cb1.TxOut[1].Value}
			names, outs := fanOutputs()
			var total int64
			for _, x := range outs {
				total += x.Value
			}
			names = append(names, "big")
			outs = append(outs, txo(in0.Value+in1.Value-total, lab.OpTrue))
			f := spendTx(1, []out{in0, in1}, 0xffffffff, outs, 0)
			w.F = f
			for i, nm := range names {
				w.Outs[nm] = out{Op: outpoint(f, uint32(i)), Value: outs[i].Value, Script: outs[i].PkScript, Height: 3}
			}
			o.Txs = []*wire.MsgTx{f}
		case 9:
			// the default parent of the candidates (height 9) spends
			// coinbase(1):3: an output "spent in the parent"
			cb1 := w.Blocks[0].Msg.Transactions[0]
			in := out{Op: outpoint(cb1, 3), Value: cb1.TxOut[3].Value}
			w.Outs["spent-in-parent"] = out{Op: in.Op, Value: in.Value, Script: lab.OpTrue, Height: 1}
			o.Txs = []*wire.MsgTx{spendTx(1, []out{in}, 0xffffffff, []*wire.TxOut{txo(in.Value-3, lab.OpTrue)}, 0)}
		case 4:
			cb1 := w.Blocks[0].Msg.Transactions[0]
			in := out{Op: outpoint(cb1, 2), Value: cb1.TxOut[2].Value}
			w.Outs["spent"] = out{Op: in.Op, Value: in.Value, Script: lab.OpTrue, Height: 1}
			tx := spendTx(1, []out{in}, 0xffffffff, []*wire.TxOut{txo(in.Value, lab.OpTrue)}, 0)
			o.Txs = []*wire.MsgTx{tx}
		}
		b := lab.Build(p, parent, o)
		w.Blocks = append(w.Blocks, b)
		parent = b
	}
	return w
}

// cbOut is the first coinbase output of the block at height h.
func (w *World) cbOut(h int32) out {
	cb := w.at(h).Msg.Transactions[0]
	return out{Op: outpoint(cb, 0), Value: cb.TxOut[0].Value, Script: cb.TxOut[0].PkScript, Height: h}
}

var (
	specRegtest = Spec{Name: "regtest", BIP34: 1, BIP65: 1, BIP66: 1, CSV: 1, Maturity: 2, Halving: 5, Spacing: 512}
	specStaged  = Spec{Name: "staged", BIP34: 4, BIP66: 6, BIP65: 8, CSV: 1, Maturity: 2, Halving: 5, Spacing: 512}
	specSegLate = Spec{Name: "seglate", BIP34: 1, BIP65: 1, BIP66: 1, CSV: 1, Segwit: 8, Maturity: 2, Halving: 5, Spacing: 512}
	specCsvOff  = Spec{Name: "csvoff", BIP34: 1, BIP65: 1, BIP66: 1, CSV: never, Maturity: 2, Halving: 5, Spacing: 512}
	specBip30   = Spec{Name: "bip30", BIP34: never, BIP65: never, BIP66: never, CSV: 1, Maturity: 2, Halving: 150, Spacing: 512}
	specRetgt   = Spec{Name: "retarget", BIP34: 1, BIP65: 1, BIP66: 1, CSV: 1, Maturity: 2, Halving: 5, Spacing: 512,
		retarget: &retargetSpec{Window: 4, Spacing: 512}}
	specMinDiff = Spec{Name: "mindiff", BIP34: 1, BIP65: 1, BIP66: 1, CSV: 1, Maturity: 2, Halving: 5, Spacing: 512,
		retarget: &retargetSpec{Window: 4, Spacing: 512, MinDiff: true}}
	specBip94 = Spec{Name: "bip94", BIP34: 1, BIP65: 1, BIP66: 1, CSV: 1, Maturity: 2, Halving: 5, Spacing: 512,
		retarget: &retargetSpec{Window: 4, Spacing: 512, MinDiff: true, BIP94: true}}
)
