package main

// Chain contexts: the same candidate with the same ancestors is offered to a
// fresh real chain instance in different positions / delivery orders / cache and
// restart states.  The verdict ("did the candidate end up on the active chain")
// is read from BestSnapshot / MainChainHasBlock / ChainTips after the deliveries,
// not from ProcessBlock's return value alone.

import (
	"bytes"
	"fmt"
	"math/big"

	"github.com/btcsuite/btcd/blockchain"
	"github.com/btcsuite/btcd/btcutil/v2"
	"github.com/btcsuite/btcd/chainhash/v2"
	"github.com/btcsuite/btcd/wire/v2"

	"verif/lab"
	"verif/ref/refblock"
)

const (
	kTip = iota
	kReorg
	kDeferred
	kOrphan
	kTemplate
	kReopen
	kFork
	kForkBad
	kReopenReorg
	kReopenDeferred
	kOrphanReorg
	kHeaderFirst
	kHeaderFirstReorg
	kChildAfter
	kReorgDeep
	kRestore
	kReopenRestore
	kReactivated
)

var kindNames = map[int]string{kTip: "tip", kReorg: "reorg", kDeferred: "deferred", kOrphan: "orphan", kTemplate: "template",
	kReopen: "reopen", kFork: "fork", kForkBad: "fork-failed-reorg", kReopenReorg: "reopen-reorg", kReopenDeferred: "reopen-deferred",
	kOrphanReorg: "orphan-reorg", kHeaderFirst: "header-first", kHeaderFirstReorg: "header-first-reorg", kChildAfter: "child-after", kReorgDeep: "reorg-depth3", kRestore: "restore-from-journal", kReopenRestore: "reopen-restore-from-journal", kReactivated: "reactivated"}

const bigCache = 64 << 20

type ctxSpec struct {
	Kind  int
	Cache uint64
}

func (k ctxSpec) Name() string {
	c := "c0"
	if k.Cache != 0 {
		c = "cL"
	}
	return kindNames[k.Kind] + "/" + c
}

// plan holds the filler blocks of a case (built once, shared by the contexts).
type plan struct {
	cs     *Case
	A1, A2 *lab.Blk   // competing sibling of the parent, and its child
	D      *lab.Blk   // child of the candidate
	U      []*lab.Blk // unrelated fork (2 blocks) off an older ancestor
	UBad   *lab.Blk   // invalid block on top of U (would have most work)
	X      []*lab.Blk // three blocks competing with the parent's last three ancestors (deep reorganisation)
	// R1, R2 extend the PARENT on the old main chain; R2 validly spends the very
	// outputs the candidate spends, so a reorganisation onto the candidate's
	// branch (candidate, D, E) has to restore them from R2's spend journal
	// (coinbase flag, height, amount, script) before the candidate is validated.
	R1, R2   *lab.Blk
	E        *lab.Blk // child of D
	Restored int      // number of outputs R2 spends
	// skip: context kinds whose chain-work preconditions do not hold for this
	// case (only in parameter sets where blocks carry different work)
	skip map[int]bool
}

// workOf is the cumulative work of the chain ending at b.
func workOf(b *lab.Blk) *big.Int {
	sum := new(big.Int)
	one := big.NewInt(1)
	for n := b; n != nil && n.Parent != nil; n = n.Parent {
		t, _, _ := refblock.DecodeCompact(n.Msg.Header.Bits)
		if t.Sign() <= 0 {
			continue
		}
		w := new(big.Int).Lsh(one, 256)
		w.Div(w, new(big.Int).Add(t, one))
		sum.Add(sum, w)
	}
	return sum
}

// validSpender builds a transaction that validly spends the given coin (one of
// the lab's script templates) into one anyone-can-spend output; nil if the
// script is not one of the templates.
func validSpender(op wire.OutPoint, c refblock.Coin) *wire.MsgTx {
	o := out{Op: op, Value: c.Value, Script: c.Script}
	mk := func(ver int32, seq, lock uint32) *wire.MsgTx {
		return spendTx(ver, []out{o}, seq, []*wire.TxOut{txo(c.Value, lab.OpTrue)}, lock)
	}
	is := func(s []byte) bool { return bytes.Equal(c.Script, s) }
	switch {
	case is(lab.OpTrue):
		return mk(1, 0xffffffff, 0)
	case is(p2pkh(key1)):
		tx := mk(1, 0xffffffff, 0)
		tx.TxIn[0].SignatureScript = signP2PKH(tx, 0, key1, c.Script)
		return tx
	case is(p2sh(redeem100)), is(p2sh(redeem101)):
		tx := mk(1, 0xffffffff, 0)
		r := redeem100
		if is(p2sh(redeem101)) {
			r = redeem101
		}
		tx.TxIn[0].SignatureScript = push(r)
		return tx
	case is(p2wsh(dropScript)):
		tx := mk(1, 0xffffffff, 0)
		tx.TxIn[0].Witness = wire.TxWitness{{0x07}, dropScript}
		return tx
	case is(p2wpkh(key1)):
		tx := mk(1, 0xffffffff, 0)
		tx.TxIn[0].Witness = signP2WPKH(tx, 0, c.Value, key1)
		return tx
	case is(p2sh(p2wpkh(key1))):
		tx := mk(1, 0xffffffff, 0)
		tx.TxIn[0].SignatureScript = push(p2wpkh(key1))
		tx.TxIn[0].Witness = signP2WPKH(tx, 0, c.Value, key1)
		return tx
	case is(cltvScr):
		return mk(1, 0, 5)
	case is(csvScr):
		return mk(2, 1, 0)
	}
	for _, ws := range [][]byte{wit400, wit401, wit1} {
		if is(p2wsh(ws)) {
			tx := mk(1, 0xffffffff, 0)
			tx.TxIn[0].Witness = wire.TxWitness{ws}
			return tx
		}
	}
	return nil
}

func mkPlan(cs *Case, idx int, atParent *refblock.State) *plan {
	w := cs.W
	pl := &plan{cs: cs}
	tag := uint32(0x200000 + idx*16)
	P := cs.parent()
	PP := P.Parent
	altTxs := cs.AltTxs
	if _, std := w.Outs["t9"]; std && altTxs == nil && cs.ParentH >= 4 {
		// adversarial default: the competing branch spends the anyone-can-spend
		// outputs the candidates use, so the candidate's branch view has to
		// restore them when the main chain is rolled back
		var ins []out
		var total int64
		for i := 0; i < 10; i++ {
			o := w.Outs[fmt.Sprintf("t%d", i)]
			ins = append(ins, o)
			total += o.Value
		}
		altTxs = []*wire.MsgTx{spendTx(1, ins, 0xffffffff, []*wire.TxOut{txo(total, lab.OpTrue)}, 0)}
	}
	pl.A1 = w.fillerOpt(PP, lab.BOpt{Name: cs.Key() + "/A1", Tag: tag + 1, Txs: altTxs, CoinbaseScript: cs.AltCoinbaseScript, CoinbaseOuts: cs.AltCoinbaseOuts})
	if cs.ParentH >= 4 {
		x := w.at(cs.ParentH - 3)
		for i := 0; i < 3; i++ {
			var t []*wire.MsgTx
			if i == 0 && x.Height >= 3 {
				t = altTxs
			}
			x = w.fillerOpt(x, lab.BOpt{Name: fmt.Sprintf("%s/X%d", cs.Key(), i+1), Tag: tag + 12 + uint32(i), Txs: t})
			pl.X = append(pl.X, x)
		}
	}
	pl.A2 = w.filler(pl.A1, cs.Key()+"/A2", tag+2, nil, 0)
	pl.D = w.filler(cs.Cand, cs.Key()+"/D", tag+3, nil, 0)
	uh := cs.ParentH - 2
	if uh < 0 {
		uh = 0
	}
	root := w.at(uh)
	u1 := w.filler(root, cs.Key()+"/U1", tag+4, nil, 0)
	u2 := w.filler(u1, cs.Key()+"/U2", tag+5, nil, 0)
	pl.U = []*lab.Blk{u1, u2}
	// u2 is at the parent's height (or below); extend until one above the parent
	top := u2
	for top.Height < cs.ParentH {
		top = w.filler(top, cs.Key()+"/Ux", tag+6+uint32(top.Height), nil, 0)
		pl.U = append(pl.U, top)
	}
	pl.UBad = w.filler(top, cs.Key()+"/Ubad", tag+15, nil, 1) // coinbase pays 1 satoshi too much
	// the old main chain spends what the candidate spends
	pl.R1 = w.filler(P, cs.Key()+"/R1", tag+9, nil, 0)
	var rtx []*wire.MsgTx
	seenOp := map[wire.OutPoint]bool{}
	for ti, tx := range cs.Cand.Msg.Transactions {
		if ti == 0 && refblock.IsCoinbase(tx) {
			continue
		}
		for _, in := range tx.TxIn {
			op := in.PreviousOutPoint
			c, ok := atParent.Utxo[op]
			if !ok || seenOp[op] {
				continue
			}
			seenOp[op] = true
			if sp := validSpender(op, c); sp != nil {
				rtx = append(rtx, sp)
			}
		}
	}
	pl.Restored = len(rtx)
	pl.R2 = w.filler(pl.R1, cs.Key()+"/R2", tag+10, rtx, 0)
	pl.E = w.filler(pl.D, cs.Key()+"/E", tag+11, nil, 0)
	// chain-work preconditions of the context shapes
	pl.skip = map[int]bool{}
	if wR2 := workOf(pl.R2); !(workOf(cs.Cand).Cmp(wR2) <= 0 && workOf(pl.D).Cmp(wR2) <= 0 && workOf(pl.E).Cmp(wR2) > 0) {
		pl.skip[kRestore], pl.skip[kReopenRestore] = true, true
	}
	wP, wC, wD := workOf(P), workOf(cs.Cand), workOf(pl.D)
	wA1, wA2 := workOf(pl.A1), workOf(pl.A2)
	if !(wP.Cmp(wA1) <= 0 && wC.Cmp(wA1) > 0) {
		for _, k := range []int{kReorg, kReopenReorg, kOrphanReorg, kHeaderFirstReorg} {
			pl.skip[k] = true
		}
	}
	if !(wP.Cmp(wA2) <= 0 && wC.Cmp(wA2) <= 0 && wD.Cmp(wA2) > 0) {
		pl.skip[kDeferred], pl.skip[kReopenDeferred] = true, true
	}
	// reactivated: A1 stays a side block next to the active parent, A2 overtakes,
	// the candidate does not, its child does
	if !(wA1.Cmp(wP) <= 0 && wA2.Cmp(wP) > 0 && wC.Cmp(wA2) <= 0 && wD.Cmp(wA2) > 0) {
		pl.skip[kReactivated] = true
	}
	if len(pl.X) != 3 || !(wP.Cmp(workOf(pl.X[2])) <= 0 && wC.Cmp(workOf(pl.X[2])) > 0) {
		pl.skip[kReorgDeep] = true
	}
	okU := workOf(pl.UBad).Cmp(wP) > 0
	for _, u := range pl.U {
		if workOf(u).Cmp(workOf(w.at(min32(u.Height, cs.ParentH)))) > 0 {
			okU = false
		}
	}
	if !okU {
		pl.skip[kFork], pl.skip[kForkBad] = true, true
	}
	return pl
}

// result of one (case, context) execution.
type result struct {
	Connected  bool   // the candidate ended on the active chain
	Fail       string // non-empty: the implementation disagreed with the label / an invariant broke
	Deliveries int
	CandErr    string // error text of the candidate's delivery (information only)
	NonRuleErr bool
}

type driver struct {
	ch  *lab.Chain
	res *result
}

func copyMsg(m *wire.MsgBlock) *wire.MsgBlock {
	c := &wire.MsgBlock{Header: m.Header}
	for _, tx := range m.Transactions {
		c.Transactions = append(c.Transactions, tx.Copy())
	}
	return c
}

func (d *driver) block(b *lab.Blk, inMem bool) *btcutil.Block {
	if inMem {
		return btcutil.NewBlock(copyMsg(b.Msg))
	}
	return b.Block()
}

func (d *driver) failf(format string, a ...interface{}) {
	if d.res.Fail == "" {
		d.res.Fail = fmt.Sprintf(format, a...)
	}
}

// valid delivers a block known to be valid and checks ProcessBlock's answer.
func (d *driver) valid(b *lab.Blk, wantMain bool) {
	if d.res.Fail != "" {
		return
	}
	main, orphan, err := d.ch.BC.ProcessBlock(b.Block(), blockchain.BFNone)
	d.res.Deliveries++
	if err != nil || orphan || main != wantMain {
		d.failf("valid block %s: ProcessBlock = (main=%v orphan=%v err=%v), want main=%v", b.Name, main, orphan, err, wantMain)
	}
}

// any delivers a block without expectations on the return value.
func (d *driver) any(b *lab.Blk, inMem bool) (bool, bool, error) {
	main, orphan, err := d.ch.BC.ProcessBlock(d.block(b, inMem), blockchain.BFNone)
	d.res.Deliveries++
	if err != nil {
		if _, ok := err.(blockchain.RuleError); !ok {
			d.res.NonRuleErr = true
		}
	}
	return main, orphan, err
}

func (d *driver) best() chainhash.Hash { return d.ch.BC.BestSnapshot().Hash }

// settle checks the final state: the best block, the candidate's membership in
// the active chain, and that ChainTips shows exactly one active tip (the best).
func (d *driver) settle(cs *Case, wantBest *lab.Blk, wantCandOnMain bool, checkCand bool) {
	if d.res.Fail != "" {
		return
	}
	best := d.best()
	on := d.ch.BC.MainChainHasBlock(&cs.Cand.Hash)
	d.res.Connected = on
	if best != wantBest.Hash {
		d.failf("best block is %s, want %s (%s); candidate on active chain=%v", short(best), short(wantBest.Hash), wantBest.Name, on)
		return
	}
	if checkCand && on != wantCandOnMain {
		d.failf("MainChainHasBlock(candidate)=%v, want %v (best %s)", on, wantCandOnMain, wantBest.Name)
		return
	}
	active := 0
	for _, t := range d.ch.BC.ChainTips() {
		if t.Status == blockchain.StatusActive {
			active++
			if t.BlockHash != best {
				d.failf("ChainTips marks %s active but the best block is %s", short(t.BlockHash), short(best))
			}
		}
	}
	if active != 1 {
		d.failf("ChainTips reports %d active tips", active)
	}
}

func min32(a, b int32) int32 {
	if a < b {
		return a
	}
	return b
}

func short(h chainhash.Hash) string { return h.String()[:12] }

func runContext(pl *plan, k ctxSpec) (res result) {
	cs := pl.cs
	defer func() {
		if r := recover(); r != nil {
			res.Fail = fmt.Sprintf("panic: %v", r)
		}
	}()
	ch, err := lab.NewChain(cs.W.Spec.Impl(), lab.ChainOpts{CacheSize: k.Cache})
	if err != nil {
		res.Fail = "harness: " + err.Error()
		return
	}
	defer func() { ch.Destroy() }()
	d := &driver{ch: ch, res: &res}
	base := cs.base()
	n := len(base)
	P := cs.parent()
	valid := cs.Valid()
	reopen := func() {
		if res.Fail != "" {
			return
		}
		if err := ch.CleanClose(); err != nil {
			d.failf("clean close: %v", err)
			return
		}
		if err := ch.Reopen(); err != nil {
			d.failf("reopen: %v", err)
		}
	}
	// cand delivers the candidate; mustErr: an invalid candidate offered directly
	// on the tip must make ProcessBlock return an error.
	cand := func(onTip bool) {
		if res.Fail != "" {
			return
		}
		main, orphan, err := d.any(cs.Cand, cs.InMemory)
		if err != nil {
			res.CandErr = err.Error()
		}
		if valid {
			if err != nil || orphan {
				d.failf("valid candidate: ProcessBlock = (main=%v orphan=%v err=%v)", main, orphan, err)
			} else if onTip && !main {
				d.failf("valid candidate extending the tip: ProcessBlock reports main=false")
			}
		} else if onTip && err == nil {
			d.failf("invalid candidate (%v) extending the tip: ProcessBlock returned no error (main=%v orphan=%v)", cs.Expect, main, orphan)
		}
	}
	tipOutcome := func() {
		if valid {
			d.settle(cs, cs.Cand, true, true)
		} else {
			d.settle(cs, P, false, true)
		}
	}

	// header announces a block header first (headers-first sync); an invalid
	// header may be refused, a valid one must be accepted.
	header := func(b *lab.Blk, mustAccept bool) {
		if res.Fail != "" {
			return
		}
		hdr := b.Msg.Header
		_, err := ch.BC.ProcessBlockHeader(&hdr, blockchain.BFNone, false)
		if mustAccept && err != nil {
			d.failf("ProcessBlockHeader(%s) of a valid block: %v", b.Name, err)
		}
	}

	switch k.Kind {
	case kTip, kReopen, kFork, kForkBad, kTemplate, kHeaderFirst, kChildAfter:
		for _, b := range base {
			d.valid(b, true)
		}
		switch k.Kind {
		case kHeaderFirst:
			header(cs.Cand, valid)
			if res.Fail == "" && d.best() != P.Hash {
				d.failf("a header alone moved the best block")
			}
		case kReopen:
			reopen()
		case kFork, kForkBad:
			for _, u := range pl.U {
				d.valid(u, false)
			}
			if k.Kind == kForkBad && res.Fail == "" {
				_, _, err := d.any(pl.UBad, false)
				if err == nil {
					d.failf("the invalid block on the unrelated fork was accepted without error")
				}
				if d.best() != P.Hash {
					d.failf("after the failed reorganisation to the unrelated fork the best block is %s, want the parent", short(d.best()))
				}
			}
		case kTemplate:
			if res.Fail == "" {
				terr := ch.BC.CheckConnectBlockTemplate(d.block(cs.Cand, cs.InMemory))
				want := valid || cs.TemplateValid
				if (terr == nil) != want {
					d.failf("CheckConnectBlockTemplate = %v, want valid=%v (reference: %v)", terr, want, cs.Expect)
				}
				if d.best() != P.Hash {
					d.failf("CheckConnectBlockTemplate moved the best block")
				}
				if res.Fail != "" {
					res.Connected = terr == nil
					return
				}
			}
		}
		cand(true)
		if k.Kind == kChildAfter && res.Fail == "" {
			// the candidate's child follows: it may only connect on a valid candidate
			main, orphan, err := d.any(pl.D, false)
			if valid {
				if err != nil || orphan || !main {
					d.failf("child of a valid candidate: ProcessBlock = (main=%v orphan=%v err=%v)", main, orphan, err)
				}
				d.settle(cs, pl.D, true, true)
			} else {
				d.settle(cs, P, false, true)
			}
			break
		}
		tipOutcome()

	case kHeaderFirstReorg:
		// main: base[:n-1] + A1; the headers of P and of the candidate are announced
		// first, then the candidate's block arrives BEFORE its parent's block
		for _, b := range base[:n-1] {
			d.valid(b, true)
		}
		d.valid(pl.A1, true)
		header(P, true)
		header(cs.Cand, valid)
		if res.Fail == "" && d.best() != pl.A1.Hash {
			d.failf("headers alone moved the best block")
		}
		if res.Fail == "" {
			_, _, err := d.any(cs.Cand, cs.InMemory)
			if err != nil {
				res.CandErr = err.Error()
			}
			if valid && err != nil {
				d.failf("valid candidate delivered after its header and before its parent's data: err=%v", err)
			}
			_, _, err = d.any(P, false)
			if valid && err != nil {
				d.failf("parent of a valid candidate: ProcessBlock err=%v", err)
			}
		}
		if valid {
			d.settle(cs, cs.Cand, true, true)
		} else {
			d.settle(cs, pl.A1, false, true)
		}

	case kRestore, kReopenRestore:
		// old main chain: base + R1 + R2 (R2 spends the candidate's inputs, validly);
		// then the candidate's branch arrives: candidate, D (both stored: not more
		// work) and E, which forces the reorganisation that must restore those
		// outputs from R2's spend journal before the candidate is judged
		for _, b := range base {
			d.valid(b, true)
		}
		d.valid(pl.R1, true)
		d.valid(pl.R2, true)
		if k.Kind == kReopenRestore {
			reopen()
		}
		cand(false)
		for _, b := range []*lab.Blk{pl.D, pl.E} {
			if res.Fail != "" {
				break
			}
			_, orphan, err := d.any(b, false)
			if valid && (err != nil || orphan) {
				d.failf("descendant %s of a valid candidate: ProcessBlock = (orphan=%v err=%v)", b.Name, orphan, err)
			}
			if b == pl.D && res.Fail == "" && d.best() != pl.R2.Hash {
				d.failf("a side branch without more work moved the best block")
			}
		}
		if valid {
			d.settle(cs, pl.E, true, true)
		} else {
			d.settle(cs, pl.R2, false, true)
		}

	case kReorgDeep:
		// main: base[:n-3] + X1 X2 X3; side: the parent's last three ancestors
		// (incl. the parent); the candidate then forces a 3-deep reorganisation
		for _, b := range base[:n-3] {
			d.valid(b, true)
		}
		for _, x := range pl.X {
			d.valid(x, true)
		}
		for _, b := range base[n-3:] {
			d.valid(b, false)
		}
		cand(false)
		if valid {
			d.settle(cs, cs.Cand, true, true)
		} else {
			d.settle(cs, pl.X[2], false, true)
		}

	case kReorg, kReopenReorg, kOrphanReorg:
		// main: base[:n-1] + A1; side: P; then the candidate has the most work
		for _, b := range base[:n-1] {
			d.valid(b, true)
		}
		d.valid(pl.A1, true)
		if k.Kind == kOrphanReorg {
			// candidate first (orphan), then its parent arrives on the side branch
			if res.Fail == "" {
				_, orphan, err := d.any(cs.Cand, cs.InMemory)
				if valid && (err != nil || !orphan) {
					d.failf("valid candidate delivered before its parent: orphan=%v err=%v", orphan, err)
				}
				_, _, err = d.any(P, false)
				if valid && err != nil {
					d.failf("parent of a valid orphan: ProcessBlock err=%v", err)
				}
			}
		} else {
			d.valid(P, false)
			if k.Kind == kReopenReorg {
				reopen()
			}
			cand(false)
		}
		if valid {
			d.settle(cs, cs.Cand, true, true)
		} else {
			d.settle(cs, pl.A1, false, true)
		}

	case kDeferred, kReopenDeferred:
		// main: base[:n-1] + A1 + A2; side: P, candidate (equal work: stored,
		// not connected); then the candidate's child makes the branch best
		for _, b := range base[:n-1] {
			d.valid(b, true)
		}
		d.valid(pl.A1, true)
		d.valid(pl.A2, true)
		d.valid(P, false)
		cand(false)
		if res.Fail == "" && d.best() != pl.A2.Hash {
			d.failf("a side-branch block with equal work moved the best block")
		}
		if k.Kind == kReopenDeferred {
			reopen()
		}
		if res.Fail == "" {
			main, orphan, err := d.any(pl.D, false)
			if valid && (err != nil || orphan || !main) {
				d.failf("child of a valid candidate: ProcessBlock = (main=%v orphan=%v err=%v)", main, orphan, err)
			}
		}
		if valid {
			d.settle(cs, pl.D, true, true)
		} else {
			d.settle(cs, pl.A2, false, true)
		}

	case kReactivated:
		// the candidate's branch was active once (its parent was validated as the
		// tip), lost to A1<-A2, and comes back when the candidate's child arrives:
		// the parent is re-attached as a block known to be valid
		for _, b := range base {
			d.valid(b, true)
		}
		d.valid(pl.A1, false)
		d.valid(pl.A2, true)
		cand(false)
		if res.Fail == "" && d.best() != pl.A2.Hash {
			d.failf("a side-branch block with equal work moved the best block")
		}
		if res.Fail == "" {
			main, orphan, err := d.any(pl.D, false)
			if valid && (err != nil || orphan || !main) {
				d.failf("child of a valid candidate: ProcessBlock = (main=%v orphan=%v err=%v)", main, orphan, err)
			}
		}
		if valid {
			d.settle(cs, pl.D, true, true)
		} else {
			d.settle(cs, pl.A2, false, true)
		}

	case kOrphan:
		for _, b := range base[:n-1] {
			d.valid(b, true)
		}
		if res.Fail == "" {
			_, orphan, err := d.any(cs.Cand, cs.InMemory)
			if err != nil {
				res.CandErr = err.Error()
			}
			if valid && (err != nil || !orphan) {
				d.failf("valid candidate delivered before its parent: orphan=%v err=%v", orphan, err)
			}
			// btcd reports an invalid orphan's error from the parent's call; only
			// the resulting chain matters here.
			_, _, err = d.any(P, false)
			if valid && err != nil {
				d.failf("parent of a valid orphan: ProcessBlock err=%v", err)
			}
		}
		tipOutcome()
	}
	return
}

// runSibling delivers both sides of a rule on one chain: the invalid sibling
// must not influence the valid one (and vice versa).  past-first: after "past"
// the tip is the parent, after "at" the tip is "at".  at-first: the tip stays.
//
// orphans: both candidates arrive before their common parent (two orphans
// waiting for the same block, in either order), then the parent: the valid one
// must end up connected whatever happens to its sibling.
func runSibling(at, past *plan, pastFirst, orphans bool, cache uint64) (res result, who string) {
	a, p := at.cs, past.cs
	defer func() {
		if r := recover(); r != nil {
			res.Fail = fmt.Sprintf("panic: %v", r)
		}
	}()
	ch, err := lab.NewChain(a.W.Spec.Impl(), lab.ChainOpts{CacheSize: cache})
	if err != nil {
		res.Fail = "harness: " + err.Error()
		return
	}
	defer ch.Destroy()
	d := &driver{ch: ch, res: &res}
	P := a.parent()
	if orphans {
		base := a.base()
		for _, b := range base[:len(base)-1] {
			d.valid(b, true)
		}
		if base[len(base)-1].Hash != P.Hash {
			res.Fail = "harness: the parent is not the last base block"
			return
		}
		order := []*Case{a, p}
		who = "at"
		if pastFirst {
			order = []*Case{p, a}
			who = "past"
		}
		for _, c := range order {
			if res.Fail != "" {
				return
			}
			_, orphan, err := d.any(c.Cand, c.InMemory)
			if c == a && (err != nil || !orphan) {
				d.failf("valid candidate delivered before its parent: orphan=%v err=%v", orphan, err)
			}
		}
		if res.Fail == "" {
			// btcd reports an invalid orphan's error from the parent's call; only
			// the resulting chain matters
			who = "parent"
			d.any(P, false)
			d.settle(a, a.Cand, true, true)
		}
		return
	}
	for _, b := range a.base() {
		d.valid(b, true)
	}
	if pastFirst {
		who = "past"
		if res.Fail == "" {
			d.any(p.Cand, p.InMemory)
			if d.best() != P.Hash {
				d.failf("after the invalid sibling (%v) the best block is %s, want the parent", p.Expect, short(d.best()))
			}
		}
		if res.Fail == "" {
			who = "at"
			main, orphan, err := d.any(a.Cand, a.InMemory)
			if err != nil || orphan || !main {
				d.failf("valid candidate after its invalid sibling: ProcessBlock = (main=%v orphan=%v err=%v)", main, orphan, err)
			}
			d.settle(a, a.Cand, true, true)
		}
	} else {
		who = "at"
		d.valid(a.Cand, true)
		if res.Fail == "" {
			who = "past"
			d.any(p.Cand, p.InMemory)
			d.settle(a, a.Cand, true, true)
		}
	}
	return
}

// refStates folds a world's base chain through the reference validator and
// returns the state after each height (index = height).
func refStates(w *World) ([]*refblock.State, error) {
	st := refblock.NewState(w.genesis().Msg)
	out := []*refblock.State{st.Clone()}
	for _, b := range w.Blocks {
		if v := refblock.Validate(w.RP, st, b.Msg, lab.Now.Unix()); len(v) != 0 {
			return nil, fmt.Errorf("base block %s is invalid for the reference: %v", b.Name, v)
		}
		st.Apply(b.Msg)
		out = append(out, st.Clone())
	}
	return out, nil
}
