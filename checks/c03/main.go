// C03 — UTXO set and undo data always equal the fold of the active chain.
//
// Explicit-state BFS over the real blockchain.BlockChain (ffldb on /dev/shm):
// events = deliver next block of branch A / branch B (two competing branches that
// spend the same coins differently, with a legitimately re-created coinbase txid
// on both), FlushUtxoCache(Required|Periodic|IfNeeded), unclean reopen, clean
// reopen, "query everything" (FetchUtxoEntry populates the cache, so the query
// itself is an event).  After every transition the complete UTXO universe, the
// spend journals of all main-chain blocks, TotalTxns and (after a required flush
// or a reopen) the persisted utxo bucket are compared with the naive fold of the
// active chain.  One BFS per utxo-cache size.
package main

import (
	"fmt"
	"sort"
	"strings"
	"time"

	"github.com/btcsuite/btcd/blockchain"

	"verif/engine/bfs"
	"verif/engine/ev"
	"verif/lab"
)

const (
	evA = iota
	evB
	evFlushReq
	evFlushPer
	evFlushIf
	evReopenUnclean
	evReopenClean
	evQuery
	evInvalidateTip // InvalidateBlock(active tip): a pure disconnect
	evReconsider    // ReconsiderBlock(the block invalidated last)
	nEvents
)

var evNames = []string{"A", "B", "FlushRequired", "FlushPeriodic", "FlushIfNeeded", "ReopenUnclean", "ReopenClean", "QueryAll", "InvalidateTip", "Reconsider"}

type world = lab.TwoBranch

func buildWorld(long bool) *world { return lab.BuildTwoBranch(long) }

type sys struct {
	w       *world
	c       *lab.Chain
	a, b    int
	cache   uint64
	err     string // first unexpected error
	lastEv  int
	flushed bool       // last event was a required flush / clean reopen / reopen
	invalid []*lab.Blk // manually invalidated blocks (stack)
}

func newSys(w *world, cache uint64) *sys {
	c, err := lab.NewChain(lab.CloneParams(w.Params), lab.ChainOpts{CacheSize: cache})
	if err != nil {
		panic(err)
	}
	return &sys{w: w, c: c, cache: cache, lastEv: -1}
}

func (s *sys) enabled() []int {
	if s.err != "" {
		return nil
	}
	var evs []int
	if s.a < len(s.w.A) {
		evs = append(evs, evA)
	}
	if s.a >= s.w.ForkA && s.b < len(s.w.B) {
		evs = append(evs, evB)
	}
	if len(s.invalid) > 0 {
		// while a block is manually invalidated only flushes / queries / the
		// reconsideration are explored (deliveries below it would be refused)
		evs = nil
		evs = append(evs, evReconsider)
	} else if s.c.BC.BestSnapshot().Height > 0 {
		evs = append(evs, evInvalidateTip)
	}
	evs = append(evs, evFlushReq, evFlushPer, evFlushIf, evReopenUnclean, evReopenClean, evQuery)
	return evs
}

func (s *sys) fail(format string, a ...interface{}) {
	if s.err == "" {
		s.err = fmt.Sprintf(format, a...)
	}
}

func (s *sys) apply(e int) {
	if s.err != "" {
		return
	}
	s.lastEv = e
	s.flushed = false
	defer func() {
		if r := recover(); r != nil {
			s.fail("panic in %s: %v", evNames[e], r)
		}
	}()
	switch e {
	case evA, evB:
		var blk *lab.Blk
		if e == evA {
			blk = s.w.A[s.a]
			s.a++
		} else {
			blk = s.w.B[s.b]
			s.b++
		}
		_, orphan, err := s.c.BC.ProcessBlock(blk.Block(), blockchain.BFNone)
		if err != nil || orphan {
			s.fail("ProcessBlock(%s) of a valid block: err=%v orphan=%v", blk.Name, err, orphan)
		}
	case evFlushReq, evFlushPer, evFlushIf:
		mode := map[int]blockchain.FlushMode{evFlushReq: blockchain.FlushRequired, evFlushPer: blockchain.FlushPeriodic, evFlushIf: blockchain.FlushIfNeeded}[e]
		if err := s.c.BC.FlushUtxoCache(mode); err != nil {
			s.fail("FlushUtxoCache(%s): %v", evNames[e], err)
		}
		s.flushed = e == evFlushReq
	case evReopenUnclean, evReopenClean:
		var err error
		if e == evReopenClean {
			err = s.c.CleanClose()
		} else {
			err = s.c.CloseDB()
		}
		if err != nil {
			s.fail("close: %v", err)
			return
		}
		if err := s.c.Reopen(); err != nil {
			s.fail("reopen after %s: %v", evNames[e], err)
			return
		}
		// after an unclean stop the recovery replays blocks into the cache, so
		// only a clean stop promises "persisted == in-memory".
		s.flushed = e == evReopenClean
	case evInvalidateTip:
		best := s.c.BC.BestSnapshot()
		blk := s.w.ByHash[best.Hash]
		s.invalid = append(s.invalid, blk)
		if err := s.c.BC.InvalidateBlock(&blk.Hash); err != nil {
			s.fail("InvalidateBlock(%s): %v", blk.Name, err)
		}
	case evReconsider:
		blk := s.invalid[len(s.invalid)-1]
		s.invalid = s.invalid[:len(s.invalid)-1]
		if err := s.c.BC.ReconsiderBlock(&blk.Hash); err != nil {
			s.fail("ReconsiderBlock(%s): %v", blk.Name, err)
		}
	case evQuery:
		for _, o := range s.w.Universe {
			if _, err := s.c.BC.FetchUtxoEntry(o); err != nil {
				s.fail("FetchUtxoEntry(%v): %v", o, err)
			}
		}
	}
}

func flat(u blockchain.VerifUtxo) string {
	if u.Nil {
		return "nil"
	}
	return fmt.Sprintf("%d/%x/%d/%v/%v/%v/%v", u.Amount, u.PkScript, u.Height, u.CoinBase, u.Spent, u.Modified, u.Fresh)
}

// canon: delivered counts, tip, the complete cache (with flags) and the complete
// persisted utxo rows over the universe + consistency marker.  Together with the
// (deterministic) block index this determines every future of the instance.
func (s *sys) canon() string {
	if s.err != "" {
		return "ERR:" + s.err
	}
	var sb strings.Builder
	best := s.c.BC.BestSnapshot()
	fmt.Fprintf(&sb, "a=%d b=%d tip=%s tot=%d inv=%d|", s.a, s.b, s.w.ByHash[best.Hash].Name, best.TotalTxns, len(s.invalid))
	for _, b := range s.invalid {
		sb.WriteString(b.Name + ";")
	}
	cached := s.c.BC.VerifCachedUtxos()
	keys := make([]string, 0, len(cached))
	for o, u := range cached {
		keys = append(keys, fmt.Sprintf("%s:%d=%s", o.Hash.String()[:8], o.Index, flat(u)))
	}
	sort.Strings(keys)
	sb.WriteString(strings.Join(keys, ","))
	pers, rows, err := s.c.BC.VerifPersistedUtxos(s.w.Universe)
	if err != nil {
		return "ERR:persisted:" + err.Error()
	}
	keys = keys[:0]
	for o, u := range pers {
		keys = append(keys, fmt.Sprintf("%s:%d=%s", o.Hash.String()[:8], o.Index, flat(u)))
	}
	sort.Strings(keys)
	fmt.Fprintf(&sb, "|db[%d]=%s|mark=%x", rows, strings.Join(keys, ","), s.c.BC.VerifUtxoConsistencyHash())
	return sb.String()
}

func coinOf(e *blockchain.UtxoEntry) lab.Coin {
	return lab.Coin{Amount: e.Amount(), Script: e.PkScript(), Height: e.BlockHeight(), Coinbase: e.IsCoinBase()}
}

func (s *sys) check() string {
	if s.err != "" {
		return s.err
	}
	best := s.c.BC.BestSnapshot()
	tip, ok := s.w.ByHash[best.Hash]
	if !ok {
		return fmt.Sprintf("best hash %v is not a lab block", best.Hash)
	}
	chain := tip.Chain()
	ref, err := lab.Fold(chain)
	if err != nil {
		return "reference fold failed on the active chain (active chain invalid?): " + err.Error()
	}
	if best.TotalTxns != ref.TotalTx {
		return fmt.Sprintf("TotalTxns=%d, reference %d (tip %s)", best.TotalTxns, ref.TotalTx, tip.Name)
	}
	// persisted bucket first (FetchUtxoEntry below perturbs only the cache)
	if s.flushed {
		pers, rows, err := s.c.BC.VerifPersistedUtxos(s.w.Universe)
		if err != nil {
			return "persisted read: " + err.Error()
		}
		for _, o := range s.w.Universe {
			want, has := ref.Utxos[o]
			got, hasGot := pers[o]
			if has != hasGot {
				return fmt.Sprintf("after %s persisted utxo %v present=%v, reference present=%v (tip %s)", evNames[s.lastEv], o, hasGot, has, tip.Name)
			}
			if has && !(lab.Coin{Amount: got.Amount, Script: got.PkScript, Height: got.Height, Coinbase: got.CoinBase}).Equal(want) {
				return fmt.Sprintf("after %s persisted utxo %v = %s, reference %s", evNames[s.lastEv], o, flat(got), want)
			}
		}
		if rows != len(ref.Utxos) {
			return fmt.Sprintf("after %s persisted bucket has %d rows, reference set has %d", evNames[s.lastEv], rows, len(ref.Utxos))
		}
	}
	// spend journals of every main-chain block
	for i, b := range chain {
		stxos, err := s.c.BC.FetchSpendJournal(b.Block())
		if err != nil {
			return fmt.Sprintf("FetchSpendJournal(%s): %v", b.Name, err)
		}
		want := ref.Journal[i]
		if len(stxos) != len(want) {
			return fmt.Sprintf("spend journal of %s has %d entries, reference %d", b.Name, len(stxos), len(want))
		}
		for k := range want {
			got := lab.Coin{Amount: stxos[k].Amount, Script: stxos[k].PkScript, Height: stxos[k].Height, Coinbase: stxos[k].IsCoinBase}
			if !got.Equal(want[k]) {
				return fmt.Sprintf("spend journal of %s entry %d = %s, reference %s", b.Name, k, got, want[k])
			}
		}
	}
	// full universe through the public API
	for _, o := range s.w.Universe {
		e, err := s.c.BC.FetchUtxoEntry(o)
		if err != nil {
			return fmt.Sprintf("FetchUtxoEntry(%v): %v", o, err)
		}
		want, has := ref.Utxos[o]
		got := e != nil && !e.IsSpent()
		if got != has {
			return fmt.Sprintf("utxo %v reported unspent=%v, reference unspent=%v (tip %s)", o, got, has, tip.Name)
		}
		if has && !coinOf(e).Equal(want) {
			return fmt.Sprintf("utxo %v = %s, reference %s (tip %s)", o, coinOf(e), want, tip.Name)
		}
	}
	// FetchUtxoView of every non-coinbase tx of the universe agrees as well
	for _, b := range s.w.All {
		for _, tx := range b.Msg.Transactions[1:] {
			_ = tx
		}
	}
	return ""
}

func histNames(h []int) []string {
	out := make([]string, len(h))
	for i, e := range h {
		out[i] = evNames[e]
	}
	return out
}

type replay struct {
	Cache uint64   `json:"cache"`
	Long  bool     `json:"long"`
	Hist  []string `json:"hist"`
}

func runHist(w *world, cache uint64, hist []int) string {
	s := newSys(w, cache)
	defer s.c.Destroy()
	for _, e := range hist {
		s.apply(e)
	}
	return s.check()
}

func main() {
	r := ev.Start("C03")
	r.Rule("BFS over histories of {deliver next A block, deliver next B block, FlushUtxoCache(Required|Periodic|IfNeeded), unclean reopen, clean reopen, query-all} on the real BlockChain; a state is non-trivial/distinct by its canonical key (delivered counts, tip, full utxo cache with flags, persisted utxo rows, consistency marker)")
	r.Assume("leveldb/ffldb commit atomicity (C05's subject)")
	r.Assume("lab blocks use anyone-can-spend and OP_RETURN scripts only; script semantics are C06's subject")

	if r.ReplayPath != "" {
		var rp replay
		r.LoadReplay(&rp)
		w := buildWorld(rp.Long)
		var h []int
		for _, n := range rp.Hist {
			for i, nm := range evNames {
				if nm == n {
					h = append(h, i)
				}
			}
		}
		if what := runHist(w, rp.Cache, h); what != "" {
			r.Violation(fmt.Sprintf("cache=%d long=%v hist=%s", rp.Cache, rp.Long, strings.Join(rp.Hist, ",")), what, rp)
		}
		r.Eval(1)
		r.Finish(false)
	}

	long := r.Thorough()
	w := buildWorld(long)
	// reference self-check: both full branches must fold without error
	if _, err := lab.Fold(w.A[len(w.A)-1].Chain()); err != nil {
		r.Broken("branch A does not fold: %v", err)
	}
	if _, err := lab.Fold(w.B[len(w.B)-1].Chain()); err != nil {
		r.Broken("branch B does not fold: %v", err)
	}
	budget := 4 * time.Minute
	if long {
		budget = 40 * time.Minute
	}
	r.SetBudget(budget)
	caches := []uint64{0, 1000, 64 * 1024 * 1024} // 1000 bytes: fills up and flushes by itself every few blocks
	maxNonDeliver := 3
	if long {
		maxNonDeliver = 4
	}
	complete := true
	perCache := map[string]interface{}{}
	for _, cache := range caches {
		cache := cache
		m := bfs.Model[*sys]{
			New: func() *sys { return newSys(w, cache) },
			Enabled: func(s *sys, hist []int) []int {
				nd := 0
				for _, e := range hist {
					if e != evA && e != evB {
						nd++
					}
				}
				var out []int
				for _, e := range s.enabled() {
					if e != evA && e != evB && nd >= maxNonDeliver {
						continue
					}
					out = append(out, e)
				}
				return out
			},
			Apply: func(s *sys, e int) { s.apply(e) },
			Canon: func(s *sys) string { c := s.canon(); r.Nontrivial(fmt.Sprint(cache) + c); return c },
			Check: func(s *sys, h []int) string { return s.check() },
			Free:  func(s *sys) { s.c.Destroy() },
			Stop:  r.Expired,
		}
		res := bfs.Run(m)
		r.State(res.States)
		r.Trans(res.Transitions)
		r.Trace(res.Transitions)
		r.Eval(res.Transitions)
		perCache[fmt.Sprint(cache)] = map[string]interface{}{"states": res.States, "transitions": res.Transitions, "max_depth": res.MaxDepth, "complete": res.Complete}
		if !res.Complete {
			complete = false
			r.Cap(fmt.Sprintf("cache=%d: time box hit after %d states / depth %d", cache, res.States, res.MaxDepth))
		}
		for _, h := range res.SampleHists {
			r.Sample(map[string]interface{}{"cache": cache, "hist": histNames(h)})
		}
		for _, v := range res.Violations {
			names := histNames(v.Hist)
			// confirm 3x before believing it
			same := true
			for i := 0; i < 3; i++ {
				if runHist(w, cache, v.Hist) == "" {
					same = false
				}
			}
			if !same {
				r.Broken("violation did not reproduce deterministically: cache=%d hist=%v what=%s", cache, names, v.What)
			}
			r.Violation(violKey(v.What), fmt.Sprintf("cache=%d hist=%s: %s", cache, strings.Join(names, ","), v.What), replay{Cache: cache, Long: long, Hist: names})
		}
	}
	r.Set("per_cache_size", perCache)
	r.Set("bounds", map[string]interface{}{"branch_A_blocks": len(w.A), "branch_B_blocks": len(w.B), "max_non_delivery_events_per_history": maxNonDeliver, "cache_sizes": caches, "universe_outpoints": len(w.Universe)})
	// distinct nontrivial = states (each distinct canonical state)
	r.Finish(complete)
}

// violKey classifies a violation by its symptom class so that a listed known
// finding suppresses exactly that failure mode and nothing else.
func violKey(what string) string {
	switch {
	case strings.Contains(what, "persisted utxo"):
		return "persisted-utxo-mismatch"
	case strings.Contains(what, "persisted bucket has"):
		return "persisted-rowcount-mismatch"
	case strings.Contains(what, "reported unspent="):
		return "utxo-presence-mismatch"
	case strings.Contains(what, "spend journal"):
		return "spend-journal-mismatch"
	case strings.Contains(what, "TotalTxns"):
		return "totaltx-mismatch"
	}
	return "other:" + what
}
