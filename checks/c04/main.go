// C04 — chain state recovers to a consistent, previously-active state after any crash.
//
// Crash-point enumeration on the real BlockChain + ffldb: a workload of block
// deliveries (extensions with spends, side chain, reorganisation there and back,
// an invalid block, duplicate-coinbase txids, optional pruning) is first run
// uninterrupted through a database wrapper that counts durable commits
// (db.Update calls).  Then, for EVERY k in [0, N], the workload is re-run and the
// process "dies" on entry to commit k+1 (the chain object is abandoned, the
// store is closed so that exactly the first k commits are durable), the database
// is reopened with blockchain.New, and — nested — for EVERY commit j of that
// recovery the process dies again and is reopened once more.
//
// Oracle after each reopen: no error / panic; the tip is one the node had made
// active before the crash; the complete UTXO universe equals the naive fold of
// that tip's chain; every block whose ProcessBlock returned before the crash is
// still known; feeding the whole workload again converges to the uninterrupted
// run's final tip and UTXO set.
//
// Part 2 (crashimg.go) drops the assumption that a crash leaves a prefix of
// commits durable: it records the block-file I/O of the same workloads and opens
// every crash image (log prefix x lost unsynced writes x torn last write, with the
// leveldb state of the newest ffldb flush) under the same oracle.
package main

import (
	"fmt"
	"os"
	"runtime"
	"strings"
	"sync"
	"time"

	"github.com/btcsuite/btcd/blockchain"
	"github.com/btcsuite/btcd/chainhash/v2"
	"github.com/btcsuite/btcd/database"
	"github.com/btcsuite/btcd/database/ffldb"
	"github.com/btcsuite/btcd/wire/v2"

	"verif/engine/ev"
	"verif/lab"
)

type crashSentinel struct{ at int }

// crashDB counts Update calls and dies on entry to the (crashAt+1)-th.
type crashDB struct {
	database.DB
	commits int
	crashAt int // -1: never
	// afterCommit is called after each successful Update (uninterrupted run)
	afterCommit func(n int)
}

func (c *crashDB) Update(fn func(tx database.Tx) error) error {
	if c.crashAt >= 0 && c.commits >= c.crashAt {
		panic(crashSentinel{c.commits})
	}
	err := c.DB.Update(fn)
	// a failed Update commits nothing but still is a point in the history
	c.commits++
	if c.afterCommit != nil {
		c.afterCommit(c.commits)
	}
	return err
}

type workload struct {
	Name      string
	w         *lab.TwoBranch
	order     []*lab.Blk // deliveries (may include an invalid block)
	invalid   map[chainhash.Hash]bool
	prune     uint64
	blockFile uint32 // max block file size (0 = default)
	// invAfter[i]: after delivery i the operator invalidates this block
	invAfter map[int]*lab.Blk
}

func mkWorkloads(long bool) []*workload {
	w := lab.BuildTwoBranch(long)
	A, B := w.A, w.B
	seq := func(names ...*lab.Blk) []*lab.Blk { return names }
	// an invalid block on top of A's tip candidate: coinbase overpays
	bad := lab.Build(w.Params, A[2], lab.BOpt{Tag: 9001, Name: "X4bad", Fees: 1})
	w.ByHash[bad.Hash] = bad
	inv := map[chainhash.Hash]bool{bad.Hash: true}
	var wl []*workload
	// 1. plain extension with spends (branch A only)
	wl = append(wl, &workload{Name: "extend", w: w, order: append([]*lab.Blk(nil), A...)})
	// 2. side chain + reorg (A to 3, then B overtakes), then A comes back and wins
	o := seq(A[0], A[1], A[2], B[0], B[1], A[3], A[4], B[2], B[3], B[4])
	o = append(o, A[5:]...)
	o = append(o, B[5:]...)
	wl = append(wl, &workload{Name: "reorg-there-and-back", w: w, order: o})
	// 3. invalid block in the middle of a reorg attempt
	o2 := seq(A[0], A[1], A[2], bad, B[0], B[1], A[3], A[4])
	wl = append(wl, &workload{Name: "invalid-block", w: w, order: o2, invalid: inv})
	// 4. pruning with tiny block files
	o3 := append(append([]*lab.Blk(nil), A...), B...)
	wl = append(wl, &workload{Name: "prune", w: w, order: o3, prune: 2500, blockFile: 600})
	// 5. pruning on a long linear chain: the node keeps two small block files, so
	// files written after a flush are pruned again while the node runs on (what a
	// recovery leaves in memory decides whether the cache is flushed first)
	o4 := append([]*lab.Blk(nil), A...)
	prev := A[len(A)-1]
	for i := 1; i <= 14; i++ {
		e := lab.Build(w.Params, prev, lab.BOpt{Tag: uint32(9100 + i), Name: fmt.Sprintf("E%d", i)})
		w.ByHash[e.Hash] = e
		w.All = append(w.All, e)
		o4 = append(o4, e)
		prev = e
	}
	w.Universe = lab.Universe(w.All)
	wl = append(wl, &workload{Name: "prune-long", w: w, order: o4, prune: 1400, blockFile: 700})
	// 6. the operator invalidates a block of the active chain (tip moves back),
	// then the other branch arrives and takes over
	o5 := seq(A[0], A[1], A[2], A[3], A[4])
	o5 = append(o5, B[:2]...) // B4 (height 4) wins only because A4 and A5 are gone
	wl = append(wl, &workload{Name: "invalidate", w: w, order: o5, invAfter: map[int]*lab.Blk{4: A[3]}})
	return wl
}

type run struct {
	wl    *workload
	cache uint64
	c     *lab.Chain
	cdb   *crashDB
	retOK []bool // per delivery: ProcessBlock returned (before the crash)
}

func (r *run) open(crashAt int, create bool) (crashed bool, err error) {
	wrap := func(db database.DB) database.DB {
		r.cdb = &crashDB{DB: db, crashAt: crashAt}
		return r.cdb
	}
	defer func() {
		if p := recover(); p != nil {
			if _, ok := p.(crashSentinel); ok {
				crashed = true
				return
			}
			panic(p)
		}
	}()
	if create {
		err = lab.NewChainP(lab.CloneParams(r.wl.w.Params), lab.ChainOpts{CacheSize: r.cache, Prune: r.wl.prune, WrapDB: wrap}, &r.c)
	} else {
		err = r.c.ReopenWith(lab.ChainOpts{CacheSize: r.cache, Prune: r.wl.prune, WrapDB: wrap})
	}
	return false, err
}

// deliver feeds the workload; returns true if the crash sentinel fired.
func (r *run) deliver(onTip func(tip chainhash.Hash)) (crashed bool, problem string) {
	defer func() {
		if p := recover(); p != nil {
			if _, ok := p.(crashSentinel); ok {
				crashed = true
				return
			}
			problem = fmt.Sprintf("panic: %v", p)
		}
	}()
	body := func() {
		for i, b := range r.wl.order {
			_, _, err := r.c.BC.ProcessBlock(b.Block(), blockchain.BFNone)
			if i < len(r.retOK) {
				r.retOK[i] = true
			}
			if err != nil {
				if re, ok := err.(blockchain.RuleError); ok {
					if re.ErrorCode == blockchain.ErrDuplicateBlock || r.wl.invalid[b.Hash] {
						goto next
					}
					// a block on top of a known-invalid one etc. is fine too
				}
				if !r.wl.invalid[b.Hash] {
					problem = fmt.Sprintf("ProcessBlock(%s): %v", b.Name, err)
					return
				}
			}
		next:
			if x := r.wl.invAfter[i]; x != nil {
				if err := r.c.BC.InvalidateBlock(&x.Hash); err != nil {
					problem = fmt.Sprintf("InvalidateBlock(%s): %v", x.Name, err)
					return
				}
			}
			if onTip != nil {
				onTip(r.c.BC.BestSnapshot().Hash)
			}
		}
	}
	if r.wl.blockFile != 0 {
		ffldb.TstRunWithMaxBlockFileSize(r.c.RawDB, r.wl.blockFile, body)
	} else {
		body()
	}
	return false, problem
}

// die abandons the chain object and makes exactly the commits so far durable.
func (r *run) die() {
	if r.c != nil && r.c.RawDB != nil {
		r.c.RawDB.Close()
		r.c.RawDB, r.c.DB, r.c.BC = nil, nil, nil
	}
}

func coinOf(e *blockchain.UtxoEntry) lab.Coin {
	return lab.Coin{Amount: e.Amount(), Script: e.PkScript(), Height: e.BlockHeight(), Coinbase: e.IsCoinBase()}
}

// checkState compares the reopened node with the reference fold of its tip.
func (r *run) checkState(activeBefore map[chainhash.Hash]bool, delivered []bool, pruned bool) string {
	bc := r.c.BC
	best := bc.BestSnapshot()
	tip, ok := r.wl.w.ByHash[best.Hash]
	if !ok {
		return fmt.Sprintf("tip %v after reopen is not a workload block", best.Hash)
	}
	if activeBefore != nil && !activeBefore[best.Hash] {
		return fmt.Sprintf("tip %s after reopen was never active before the crash", tip.Name)
	}
	if r.wl.invalid[best.Hash] {
		return "tip after reopen is the invalid block"
	}
	ref, err := lab.Fold(tip.Chain())
	if err != nil {
		return "active chain after reopen does not fold: " + err.Error()
	}
	if best.TotalTxns != ref.TotalTx {
		return fmt.Sprintf("TotalTxns=%d after reopen, reference %d (tip %s)", best.TotalTxns, ref.TotalTx, tip.Name)
	}
	for _, o := range r.wl.w.Universe {
		e, err := bc.FetchUtxoEntry(o)
		if err != nil {
			return fmt.Sprintf("FetchUtxoEntry(%v): %v", o, err)
		}
		want, has := ref.Utxos[o]
		got := e != nil && !e.IsSpent()
		if got != has {
			return fmt.Sprintf("utxo %v reported unspent=%v after reopen, reference unspent=%v (tip %s)", o, got, has, tip.Name)
		}
		if has && !coinOf(e).Equal(want) {
			return fmt.Sprintf("utxo %v = %s after reopen, reference %s", o, coinOf(e), want)
		}
	}
	// every block acknowledged before the crash is still known
	for i, ok := range delivered {
		b := r.wl.order[i]
		if !ok || r.wl.invalid[b.Hash] {
			continue
		}
		have, err := bc.HaveBlock(&b.Hash)
		if err != nil || !have {
			return fmt.Sprintf("block %s was acknowledged before the crash but is unknown after reopen (err=%v)", b.Name, err)
		}
	}
	// main chain blocks are readable unless pruned away
	if !pruned {
		for _, b := range tip.Chain() {
			if _, err := bc.BlockByHash(&b.Hash); err != nil {
				return fmt.Sprintf("main-chain block %s unreadable after reopen: %v", b.Name, err)
			}
		}
	}
	return ""
}

type crashCase struct {
	Workload string `json:"workload"`
	Cache    uint64 `json:"cache"`
	K        int    `json:"crash_before_commit"`
	J        int    `json:"second_crash_before_recovery_commit"` // -1: none
	Long     bool   `json:"long"`
	// RecCache is the utxo cache size used when reopening after the crash
	// (operators restart with different settings); -1 = same as before.
	RecCache int64 `json:"recovery_cache"`
	// LaterCrash = m+1: after the recovery the workload is fed again and the
	// process dies a second time before commit m of that run; 0 = no later crash.
	LaterCrash int `json:"later_crash_before_refeed_commit_plus_1,omitempty"`
}

type baseline struct {
	commits    int
	finalTip   chainhash.Hash
	finalUtxo  lab.UtxoSet
	activeAt   []map[chainhash.Hash]bool // activeAt[k]: tips active before commit k+1 was entered
	recCommits map[int]int               // k -> number of commits of the recovery after crash at k
}

func runBaseline(wl *workload, cache uint64) (*baseline, string) {
	r := &run{wl: wl, cache: cache, retOK: make([]bool, len(wl.order))}
	if _, err := r.open(-1, true); err != nil {
		return nil, "baseline open: " + err.Error()
	}
	defer r.c.Destroy()
	b := &baseline{recCommits: map[int]int{}}
	active := map[chainhash.Hash]bool{*wl.w.Params.GenesisHash: true}
	snap := func() map[chainhash.Hash]bool {
		m := map[chainhash.Hash]bool{}
		for k := range active {
			m[k] = true
		}
		return m
	}
	// the in-memory tip changes right after a commit; sample it at every commit
	// and after every delivery.  activeAt[k] must contain every tip that was
	// active at any time before commit k+1 is entered.
	b.activeAt = append(b.activeAt, snap()) // k = 0 .. (commits during New are before any delivery)
	for i := 0; i < r.cdb.commits; i++ {
		b.activeAt = append(b.activeAt, snap())
	}
	r.cdb.afterCommit = func(n int) {
		// the tip recorded by this commit becomes active immediately afterwards;
		// the persisted best state tells which one it is
		if h, _, _, err := r.c.BC.VerifPersistedBestState(); err == nil {
			active[h] = true
		}
		active[r.c.BC.BestSnapshot().Hash] = true
		b.activeAt = append(b.activeAt, snap())
	}
	_, problem := r.deliver(func(t chainhash.Hash) { active[t] = true })
	if problem != "" {
		return nil, "baseline: " + problem
	}
	b.commits = r.cdb.commits
	best := r.c.BC.BestSnapshot()
	b.finalTip = best.Hash
	ref, err := lab.Fold(wl.w.ByHash[best.Hash].Chain())
	if err != nil {
		return nil, "baseline final chain does not fold: " + err.Error()
	}
	b.finalUtxo = ref.Utxos
	return b, ""
}

// runCase executes one crash case; returns a violation description or "".
func runCase(wl *workload, base *baseline, cc crashCase) (string, int) {
	r := &run{wl: wl, cache: cc.Cache, retOK: make([]bool, len(wl.order))}
	crashed, err := r.open(cc.K, true)
	if err != nil {
		return "open: " + err.Error(), 0
	}
	defer func() {
		if r.c != nil {
			r.c.Destroy()
		}
	}()
	if !crashed {
		var problem string
		crashed, problem = r.deliver(nil)
		if problem != "" {
			return "before crash: " + problem, 0
		}
	}
	if !crashed {
		return fmt.Sprintf("crash point %d was never reached (baseline had %d commits): nondeterministic commit count", cc.K, base.commits), 0
	}
	r.die()
	delivered := append([]bool(nil), r.retOK...)
	if cc.RecCache >= 0 {
		r.cache = uint64(cc.RecCache)
	}
	// first recovery
	crashAt2 := -1
	if cc.J >= 0 {
		crashAt2 = cc.J
	}
	crashed2, err := r.open(crashAt2, false)
	recCommits := 0
	if r.cdb != nil {
		recCommits = r.cdb.commits
	}
	if cc.J >= 0 {
		if !crashed2 && err == nil {
			// recovery has fewer commits than j: nothing to do for this j
			return "", -1
		}
		if err != nil {
			return "", -1
		}
		r.die()
		if _, err := r.open(-1, false); err != nil {
			return fmt.Sprintf("second reopen (after a crash before recovery commit %d) failed: %v", cc.J, err), recCommits
		}
	} else if err != nil {
		return "reopen failed: " + err.Error(), recCommits
	}
	recCommits = r.cdb.commits
	if what := r.checkState(base.activeAt[min(cc.K, len(base.activeAt)-1)], delivered, wl.prune != 0); what != "" {
		return what, recCommits
	}
	if cc.LaterCrash > 0 {
		// the recovered node keeps running (same deliveries again) and dies later
		r.cdb.crashAt = r.cdb.commits + cc.LaterCrash - 1
		crashed3, problem := r.deliver(nil)
		if problem != "" {
			return "re-feeding the workload after recovery: " + problem, recCommits
		}
		if !crashed3 {
			return "", -2 // the second run has fewer commits than m
		}
		r.die()
		if _, err := r.open(-1, false); err != nil {
			return fmt.Sprintf("reopen failed after a later crash (first crash before commit %d, recovery, workload fed again, second crash before commit %d of that run): %v", cc.K, cc.LaterCrash-1, err), recCommits
		}
		all := make([]bool, len(delivered))
		copy(all, delivered)
		for i := range all {
			all[i] = all[i] || r.retOK[i]
		}
		if what := r.checkState(base.activeAt[len(base.activeAt)-1], all, wl.prune != 0); what != "" {
			return "after a later crash: " + what, recCommits
		}
	}
	// convergence: feed everything again
	if what := r.converge(base.finalTip, base.finalUtxo); what != "" {
		return what, recCommits
	}
	return "", recCommits
}

// converge feeds the whole workload to the recovered node again and compares the
// result with the uninterrupted run's final tip and UTXO set (shared by the
// commit-prefix phase and the crash-image phase).
func (r *run) converge(finalTip chainhash.Hash, finalUtxo lab.UtxoSet) string {
	if _, problem := r.deliver(nil); problem != "" {
		return "re-feeding the workload after recovery: " + problem
	}
	best := r.c.BC.BestSnapshot()
	if best.Hash != finalTip {
		cause := "other"
		// diagnosis: every block of the uninterrupted final chain beyond the
		// recovered tip is stored and indexed, but re-delivery is refused as a
		// duplicate, so it is never connected (crash fell between the block-store
		// commit and the connect commit)
		ft := r.wl.w.ByHash[finalTip]
		onRecovered := map[chainhash.Hash]bool{}
		for _, b := range r.wl.w.ByHash[best.Hash].Chain() {
			onRecovered[b.Hash] = true
		}
		stuck := 0
		extends := false
		for _, b := range ft.Chain() {
			if onRecovered[b.Hash] {
				continue
			}
			if b.Parent != nil && b.Parent.Hash == best.Hash {
				extends = true
			}
			st, known := r.c.BC.VerifNodeStatus(&b.Hash)
			if known && st&1 != 0 && st&(4|8) == 0 {
				stuck++
			} else {
				stuck = -1000
			}
		}
		_ = extends
		if stuck > 0 && ft.Height > r.wl.w.ByHash[best.Hash].Height {
			cause = "stored-but-unconnected-block-is-refused-as-duplicate"
		}
		// diagnosis: the recovered active chain holds a block that carries an
		// invalid flag (the process died inside InvalidateBlock, after the flags
		// were written and before the block was disconnected; the repeated call
		// returns early because the block "is already invalid")
		for _, b := range r.wl.w.ByHash[best.Hash].Chain() {
			if st, known := r.c.BC.VerifNodeStatus(&b.Hash); known && st&(4|8) != 0 {
				cause = "active-chain-holds-a-block-flagged-invalid"
				break
			}
		}
		return fmt.Sprintf("after re-feeding the workload the tip is %s, the uninterrupted run ended at %s [cause: %s]", r.wl.w.ByHash[best.Hash].Name, r.wl.w.ByHash[finalTip].Name, cause)
	}
	for _, o := range r.wl.w.Universe {
		e, err := r.c.BC.FetchUtxoEntry(o)
		if err != nil {
			return "FetchUtxoEntry after convergence: " + err.Error()
		}
		want, has := finalUtxo[o]
		got := e != nil && !e.IsSpent()
		if got != has || (has && !coinOf(e).Equal(want)) {
			return fmt.Sprintf("after convergence utxo %v differs from the uninterrupted run", o)
		}
	}
	return ""
}

func main() {
	r := ev.Start("C04")
	r.Rule("for each workload x utxo-cache size: crash before every durable commit k (db.Update) of the run, reopen; nested: crash before every commit j of that recovery, reopen again; a case (workload, cache, k, j) is non-trivial when the crash point was reached. Part 2: for each workload x cache x ffldb flush regime the block-file I/O is recorded; every log prefix x every subset of the newest cap (see crash_images.subset_cap_bits) writes, plus all, of the writes not covered by a later Sync lost x last write torn gives a crash image (block files + the newest OBSERVED state of the leveldb directory inside the prefix); every distinct image is opened with database.Open + blockchain.New and judged by the same oracle")
	r.Assume("part 1: ffldb makes a prefix of the committed updates durable and reopens to it; crashes are placed between commits (part 2 drops this assumption)")
	r.Assume("lab scripts are OP_TRUE / OP_RETURN")
	_ = wire.OutPoint{}

	long := r.Thorough()
	wls := mkWorkloads(long)
	byName := map[string]*workload{}
	for _, w := range wls {
		byName[w.Name] = w
	}
	if r.ReplayPath != "" {
		var kind struct {
			Kind string `json:"kind"`
		}
		r.LoadReplay(&kind)
		if kind.Kind == "pruneflush" {
			var pc pruneFlushCase
			r.LoadReplay(&pc)
			if what := pruneFlushOne(wls[0].w, pc); what != "" {
				r.Violation("prune-flush-decision", what, pc)
			}
			r.Eval(1)
			r.Finish(false)
		}
		if kind.Kind == "img" { // part 2: one crash image
			var ic imgCase
			r.LoadReplay(&ic)
			replayImage(r, ic)
			r.Finish(false)
		}
		var cc crashCase
		r.LoadReplay(&cc)
		wl := byName[cc.Workload]
		if cc.Long != long {
			wls = mkWorkloads(cc.Long)
			for _, w := range wls {
				if w.Name == cc.Workload {
					wl = w
				}
			}
		}
		base, p := runBaseline(wl, cc.Cache)
		if p != "" {
			r.Broken("%s", p)
		}
		if what, _ := runCase(wl, base, cc); what != "" {
			r.Violation("replay", what, cc)
		}
		r.Eval(1)
		r.Finish(false)
	}
	budget := 4 * time.Minute
	if long {
		budget = 40 * time.Minute
	}
	r.SetBudget(budget)
	partPruneFlush(r, wls[0].w)
	caches := []uint64{0, 1000, 64 << 20} // 1000 bytes: fills up and flushes by itself every few blocks
	nested := true
	complete := true
	stats := map[string]interface{}{}
	var mu sync.Mutex
	for _, wl := range wls {
		if os.Getenv("C04_SKIP_PART1") != "" { // development aid
			break
		}
		for _, cache := range caches {
			base, p := runBaseline(wl, cache)
			if p != "" {
				r.Violation("baseline/"+wl.Name, fmt.Sprintf("uninterrupted run of workload %s cache=%d failed: %s", wl.Name, cache, p), crashCase{Workload: wl.Name, Cache: cache, K: -1, J: -1, Long: long, RecCache: -1})
				continue
			}
			// determinism of the commit count (the crash space is defined by it)
			b2, _ := runBaseline(wl, cache)
			if b2 == nil || b2.commits != base.commits {
				r.Broken("commit count of workload %s is not deterministic", wl.Name)
			}
			n1, n2 := 0, 0
			type job struct {
				k, j int
				rc   int64
			}
			recCaches := []int64{-1}
			if cache == 64<<20 {
				recCaches = append(recCaches, 0) // restart with a tiny cache: recovery flushes after every replayed block
			}
			var jobs []job
			for _, rc := range recCaches {
				for k := 0; k < base.commits; k++ {
					jobs = append(jobs, job{k, -1, rc})
				}
			}
			recN := make([]int, len(jobs))
			ev.Par(len(jobs), runtime.NumCPU(), func(i int) {
				if r.Expired() {
					mu.Lock()
					complete = false
					mu.Unlock()
					return
				}
				cc := crashCase{Workload: wl.Name, Cache: cache, K: jobs[i].k, J: -1, Long: long, RecCache: jobs[i].rc}
				what, rc := runCase(wl, base, cc)
				recN[i] = rc
				r.Eval(1)
				r.Trace(1)
				r.Nontrivial(fmt.Sprintf("%s/%d/%d/-1/%d", wl.Name, cache, jobs[i].k, jobs[i].rc))
				mu.Lock()
				n1++
				mu.Unlock()
				if what != "" {
					report(r, wl, base, cc, what)
				}
			})
			if nested {
				var j2 []job
				for i, jb := range jobs {
					for j := 0; j < recN[i]; j++ {
						j2 = append(j2, job{jb.k, j, jb.rc})
					}
				}
				ev.Par(len(j2), runtime.NumCPU(), func(i int) {
					if r.Expired() {
						mu.Lock()
						complete = false
						mu.Unlock()
						return
					}
					cc := crashCase{Workload: wl.Name, Cache: cache, K: j2[i].k, J: j2[i].j, Long: long, RecCache: j2[i].rc}
					what, rc := runCase(wl, base, cc)
					if rc == -1 {
						return
					}
					r.Eval(1)
					r.Trace(1)
					r.Nontrivial(fmt.Sprintf("%s/%d/%d/%d/%d", wl.Name, cache, j2[i].k, j2[i].j, j2[i].rc))
					mu.Lock()
					n2++
					mu.Unlock()
					if what != "" {
						report(r, wl, base, cc, what)
					}
				})
			}
			// a later, independent crash of the recovered node (pruning workloads:
			// what is deleted then depends on what the recovery left in memory)
			n3 := 0
			if wl.prune != 0 && (long || (cache == 64<<20 && wl.Name == "prune-long")) {
				ev.Par(base.commits, runtime.NumCPU(), func(k int) {
					for m := 0; ; m++ {
						if r.Expired() {
							mu.Lock()
							complete = false
							mu.Unlock()
							return
						}
						cc := crashCase{Workload: wl.Name, Cache: cache, K: k, J: -1, Long: long, RecCache: -1, LaterCrash: m + 1}
						what, rc := runCase(wl, base, cc)
						if rc == -2 {
							return
						}
						r.Eval(1)
						r.Trace(1)
						r.Nontrivial(fmt.Sprintf("%s/%d/%d/later%d", wl.Name, cache, k, m))
						mu.Lock()
						n3++
						mu.Unlock()
						if what != "" {
							report(r, wl, base, cc, what)
							return
						}
					}
				})
			}
			stats[fmt.Sprintf("%s/cache=%d", wl.Name, cache)] = map[string]interface{}{"commits": base.commits, "crash_points": n1, "nested_crash_points": n2, "later_crash_points": n3}
			r.State(n1 + n2 + n3)
			r.Trans((n1 + n2 + n3) * len(wl.order))
			if n1 > 0 {
				r.Sample(crashCase{Workload: wl.Name, Cache: cache, K: base.commits / 2, J: -1, Long: long, RecCache: -1})
			}
		}
	}
	if !complete {
		r.Cap("time box hit; see per-workload counts")
	}
	r.Set("workloads", stats)
	// part 2: crashes at any point of the block-file I/O (crashimg.go)
	if !phaseImages(r, wls, long) {
		complete = false
	}
	r.Finish(complete)
}

func report(r *ev.Run, wl *workload, base *baseline, cc crashCase, what string) {
	// confirm twice
	for i := 0; i < 2; i++ {
		if w2, _ := runCase(wl, base, cc); w2 == "" {
			r.Broken("crash case %+v did not reproduce: %s", cc, what)
		}
	}
	cls := what
	for _, p := range []string{"reopen failed", "second reopen", "never active", "reported unspent", "TotalTxns", "acknowledged before the crash", "unreadable", "after re-feeding", "after convergence", "re-feeding the workload", "does not fold", "before crash"} {
		if strings.Contains(what, p) {
			cls = p
			break
		}
	}
	nest := "single"
	if cc.J >= 0 {
		nest = "nested"
	}
	if cc.LaterCrash > 0 {
		nest = "later-crash"
	}
	if i := strings.Index(what, "[cause: "); i >= 0 {
		cls = "convergence/" + strings.TrimSuffix(what[i+8:], "]")
		nest = "any"
	}
	r.Violation(fmt.Sprintf("%s/%s/%s", wl.Name, nest, strings.ReplaceAll(cls, " ", "-")), fmt.Sprintf("workload=%s cache=%d recovery-cache=%d crash-before-commit=%d second-crash=%d later-crash=%d: %s", cc.Workload, cc.Cache, cc.RecCache, cc.K, cc.J, cc.LaterCrash-1, what), cc)
}
