// C04 part 2 — the process may die at ANY point of the underlying file I/O.
//
// Part 1 (main.go) assumes that a crash leaves exactly a prefix of the db.Update
// commits durable.  This part removes the assumption.  The ChainLab workloads of
// part 1 are executed by a real blockchain.BlockChain on a real ffldb whose block
// files go through a recording layer (installed through
// database/ffldb/verif_c05_export.go, the seam file of the C05 check; the
// recorder and the crash-image materialiser are ported from checks/c05/fsim.go
// and checks/c05/crash.go).  The log holds
//
//	OpenWrite / WriteAt(file,off,bytes) / Sync(file) / Truncate / Close / Delete
//
// events, StepEnd(c[,flushed]) events written by the database wrapper when the
// c-th db.Update (or the final Close) has returned ("flushed": the call promised
// durability of everything committed so far), and LDB#k markers.
//
// LDB#k markers are OBSERVED, not inferred: before any event is appended the
// recorder looks at the leveldb directory of the database under test; if its
// logical content changed since the last look, a verified point-in-time copy of
// the directory (opened with goleveldb read-only, every key/value hashed) becomes
// "metadata state #k" and the marker is placed BEFORE the current event.
// Everything runs in one goroutine, so a marker is ordered exactly with respect
// to the block-file events around it (sync-before-commit, delete-before/after-
// commit ...).  Physical-only changes (compaction, journal rotation) leave no
// marker.  Two leveldb commits with no event between them are seen as one change.
//
// ffldb keeps committed transactions in its own dbCache and writes them to
// leveldb only when it flushes; the flush timing of the real ffldb is time/size
// driven, i.e. arbitrary.  Here it is taken over with VerifSetFlushPolicy per
// commit: regime "every" flushes on every commit, regime "never" only on Close,
// regime "pS+R" exactly on the commits c with c mod S == R (all phases R are
// run, so every commit is a flush point in some recording and the metadata lags
// the chain by up to S-1 commits).
//
// For EVERY prefix of every log and EVERY subset of the writes not covered by a
// later Sync of the same file inside the prefix being lost (the newest `cap`
// unsynced writes are varied exhaustively, older ones are kept, plus the
// all-lost image), and additionally the last write torn at half length, the
// block-file directory is materialised and the copy of metadata state #k (k =
// last marker inside the prefix) is put next to it.  Identical images (same
// logical leveldb content, same file contents) are opened once per configuration.
//
// Oracle per image: database.Open (ffldb's reconcileDB) succeeds, blockchain.New
// succeeds, and then exactly part 1's oracle: the tip is one the node had made
// active before that point of the run, the full UTXO universe equals lab.Fold of
// the tip's chain, TotalTxns matches, every block acknowledged before the newest
// commit that had been promised durable is known, every main-chain block is
// readable (unless pruning is on), and after feeding the whole workload again the
// node converges to the uninterrupted run's final tip and UTXO set.
package main

import (
	"crypto/sha256"
	"fmt"
	"os"
	"path/filepath"
	"runtime"
	"runtime/debug"
	"runtime/pprof"
	"sort"
	"strconv"
	"strings"
	"sync"
	"sync/atomic"
	"time"

	"github.com/btcsuite/btcd/blockchain"
	"github.com/btcsuite/btcd/chainhash/v2"
	"github.com/btcsuite/btcd/database"
	"github.com/btcsuite/btcd/database/ffldb"
	"github.com/syndtr/goleveldb/leveldb"
	"github.com/syndtr/goleveldb/leveldb/opt"

	"verif/engine/ev"
	"verif/lab"
)

// ---------------------------------------------------------------- recording file layer

const (
	evOpenW = iota
	evWrite
	evSync
	evTrunc
	evClose
	evDelete
	evMark // OBSERVED change of the leveldb directory: N = running number of the observed metadata state
	evStep // a db.Update (or the final Close) has returned: N = db.Update calls returned so far, Off = 1 if it promised durability (flush / close)
)

var evKindNames = []string{"OpenWrite", "WriteAt", "Sync", "Truncate", "Close", "Delete", "LDB#", "StepEnd"}

type fsEvent struct {
	Kind int
	File uint32
	Off  int64
	Data []byte
	N    int // evMark: number of the observed metadata state; evStep: db.Update calls returned; evTrunc: size
	Done int // number of db.Update calls that had returned when the event was logged
	Upto int // evMark: number of db.Update calls that had been STARTED when the state was observed (the state holds commits <= Upto)
}

func (e fsEvent) String() string {
	switch e.Kind {
	case evWrite:
		return fmt.Sprintf("WriteAt(f%d,%d,%dB)", e.File, e.Off, len(e.Data))
	case evTrunc:
		return fmt.Sprintf("Truncate(f%d,%d)", e.File, e.N)
	case evMark:
		return fmt.Sprintf("LDB#%d", e.N)
	case evStep:
		if e.Off == 1 {
			return fmt.Sprintf("StepEnd(%d,flushed)", e.N)
		}
		return fmt.Sprintf("StepEnd(%d)", e.N)
	}
	return fmt.Sprintf("%s(f%d)", evKindNames[e.Kind], e.File)
}

// metaDir is an in-memory copy of a leveldb directory.
type metaDir map[string][]byte

// recorder logs the write-side block-file events of the database under test and
// OBSERVES its leveldb ("metadata") directory: before any event is appended the
// directory is looked at, so a leveldb commit that happened since the previous
// event is placed before the current one (ported from checks/c05/fsim.go).
type recorder struct {
	mu  sync.Mutex
	log []fsEvent
	db  *recDB // commit counters of the run

	dir      string           // <db dir>/metadata
	lastSig  string           // physical signature (names, sizes, mtimes) at the last look
	lastHash [32]byte         // hash of the logical leveldb content of the newest kept state
	nStates  int              // number of observed logical states so far
	snaps    map[int]metaDir  // state number -> verified copy
	hashes   map[int][32]byte // state number -> logical hash
	obsErr   string           // harness problem while copying / verifying (=> BROKEN, never a verdict)
}

func (s *recorder) tag(e *fsEvent) {
	if s.db != nil {
		e.Done = s.db.commits
		e.Upto = s.db.commits
		if s.db.inUpdate {
			e.Upto++
		}
	}
}

func (s *recorder) rec(e fsEvent) {
	s.mu.Lock()
	// a leveldb commit that happened since the previous event is placed BEFORE
	// the current event
	s.observeLocked()
	s.tag(&e)
	s.log = append(s.log, e)
	s.mu.Unlock()
}

// stepEnd is called by the database wrapper when a db.Update (or the final
// Close) has returned: n = db.Update calls returned so far, flushed = the call
// promised durability of everything committed so far.
func (s *recorder) stepEnd(n int, flushed bool) {
	off := int64(0)
	if flushed {
		off = 1
	}
	s.rec(fsEvent{Kind: evStep, N: n, Off: off})
}

// observe looks at the leveldb directory now (used right after Create).
func (s *recorder) observe() {
	s.mu.Lock()
	s.observeLocked()
	s.mu.Unlock()
}

func skipMetaFile(name string) bool { return name == "LOCK" || name == "LOG" || name == "LOG.old" }

// dirSig is the physical signature of a directory: names, sizes, mtimes.
func dirSig(dir string) string {
	ents, err := os.ReadDir(dir)
	if err != nil {
		return "unreadable: " + err.Error()
	}
	var parts []string
	for _, e := range ents {
		if e.IsDir() || skipMetaFile(e.Name()) {
			continue
		}
		fi, err := e.Info()
		if err != nil {
			parts = append(parts, e.Name()+":gone")
			continue
		}
		parts = append(parts, fmt.Sprintf("%s:%d:%d", e.Name(), fi.Size(), fi.ModTime().UnixNano()))
	}
	sort.Strings(parts)
	return fmt.Sprint(parts)
}

// readMeta copies the leveldb files (not LOCK / LOG) into memory.
func readMeta(src string) (metaDir, error) {
	ents, err := os.ReadDir(src)
	if err != nil {
		return nil, err
	}
	md := metaDir{}
	for _, e := range ents {
		if e.IsDir() || skipMetaFile(e.Name()) {
			continue
		}
		b, err := os.ReadFile(filepath.Join(src, e.Name()))
		if err != nil {
			return nil, err
		}
		md[e.Name()] = b
	}
	return md, nil
}

func (md metaDir) writeTo(dst string) error {
	if err := os.MkdirAll(dst, 0o700); err != nil {
		return err
	}
	for name, b := range md {
		if err := os.WriteFile(filepath.Join(dst, name), b, 0o600); err != nil {
			return err
		}
	}
	return nil
}

var scratchSeq int64

func newScratch(tag string) string {
	return fmt.Sprintf("%s/verif-%d-%s%d", lab.ShmRoot(), os.Getpid(), tag, atomic.AddInt64(&scratchSeq, 1))
}

// logicalHash opens a scratch copy of a leveldb directory with goleveldb itself
// (read-only) and hashes every key/value pair: proof that the copy is a
// consistent, openable leveldb state, and the identity of its logical content.
func logicalHash(md metaDir) ([32]byte, error) {
	var out [32]byte
	tmp := newScratch("ldbchk")
	defer os.RemoveAll(tmp)
	if err := md.writeTo(tmp); err != nil {
		return out, err
	}
	db, err := leveldb.OpenFile(tmp, &opt.Options{ErrorIfMissing: true, ReadOnly: true, Strict: opt.DefaultStrict})
	if err != nil {
		return out, err
	}
	defer db.Close()
	h := sha256.New()
	it := db.NewIterator(nil, nil)
	for it.Next() {
		fmt.Fprintf(h, "%d:%d:", len(it.Key()), len(it.Value()))
		h.Write(it.Key())
		h.Write(it.Value())
	}
	it.Release()
	if err := it.Error(); err != nil {
		return out, err
	}
	copy(out[:], h.Sum(nil))
	return out, nil
}

// observeLocked compares the leveldb directory with the last look.  If it
// changed physically, a point-in-time copy is taken (retried until the signature
// is the same before and after copying: goleveldb's background compaction may
// still be renaming / deleting files), verified by opening it with goleveldb, and
// -- if the LOGICAL content differs from the newest kept state -- kept as
// metadata state #k with an LDB#k marker appended to the log.  Physical-only
// changes (compaction, journal rotation, recovery at open) leave no marker, so
// the log is a deterministic function of the workload and the flush regime.
func (s *recorder) observeLocked() {
	if s.dir == "" || s.obsErr != "" {
		return
	}
	sig := dirSig(s.dir)
	if sig == s.lastSig {
		return
	}
	var lastErr error
	for attempt := 0; attempt < 200; attempt++ {
		before := dirSig(s.dir)
		md, err := readMeta(s.dir)
		after := dirSig(s.dir)
		if err != nil || before != after {
			lastErr = fmt.Errorf("directory changed while copying (%v)", err)
			continue
		}
		hash, err := logicalHash(md)
		if err != nil {
			lastErr = err
			continue
		}
		s.lastSig = after
		if s.nStates > 0 && hash == s.lastHash {
			return // physical change only
		}
		if s.snaps == nil {
			s.snaps, s.hashes = map[int]metaDir{}, map[int][32]byte{}
		}
		s.snaps[s.nStates] = md
		s.hashes[s.nStates] = hash
		s.lastHash = hash
		e := fsEvent{Kind: evMark, N: s.nStates}
		s.tag(&e)
		s.log = append(s.log, e)
		s.nStates++
		return
	}
	s.obsErr = fmt.Sprintf("cannot take a consistent, openable copy of %s: %v", s.dir, lastErr)
}

func (s *recorder) install(db database.DB) {
	ffldb.VerifInstallFileHooks(db, ffldb.VerifFileHooks{
		OpenWrite: func(n uint32, open func() (ffldb.VerifFiler, error)) (ffldb.VerifFiler, error) {
			f, err := open()
			if err != nil {
				return nil, err
			}
			s.rec(fsEvent{Kind: evOpenW, File: n})
			return &recFile{s: s, n: n, f: f}, nil
		},
		Delete: func(n uint32, del func() error) error {
			if err := del(); err != nil {
				return err
			}
			s.rec(fsEvent{Kind: evDelete, File: n})
			return nil
		},
	})
}

type recFile struct {
	s *recorder
	n uint32
	f ffldb.VerifFiler
}

func (f *recFile) WriteAt(b []byte, off int64) (int, error) {
	n, err := f.f.WriteAt(b, off)
	if n > 0 {
		f.s.rec(fsEvent{Kind: evWrite, File: f.n, Off: off, Data: append([]byte{}, b[:n]...)})
	}
	return n, err
}

func (f *recFile) ReadAt(b []byte, off int64) (int, error) { return f.f.ReadAt(b, off) }

func (f *recFile) Sync() error {
	err := f.f.Sync()
	if err == nil {
		f.s.rec(fsEvent{Kind: evSync, File: f.n})
	}
	return err
}

func (f *recFile) Truncate(size int64) error {
	err := f.f.Truncate(size)
	if err == nil {
		f.s.rec(fsEvent{Kind: evTrunc, File: f.n, N: int(size)})
	}
	return err
}

func (f *recFile) Close() error {
	err := f.f.Close()
	f.s.rec(fsEvent{Kind: evClose, File: f.n})
	return err
}

// ---------------------------------------------------------------- flush regimes and the database wrapper

// flushRegime says on which commits (1-based db.Update number) ffldb flushes its
// cache to leveldb: Period 0 = never (only Close), 1 = every commit, S > 1 = the
// commits c with c mod S == Phase.
type flushRegime struct {
	Period int `json:"period"`
	Phase  int `json:"phase"`
}

func (f flushRegime) String() string {
	switch f.Period {
	case 0:
		return "never"
	case 1:
		return "every"
	}
	return fmt.Sprintf("p%d+%d", f.Period, f.Phase)
}

func (f flushRegime) flushAt(c int) bool {
	switch f.Period {
	case 0:
		return false
	case 1:
		return true
	}
	return c%f.Period == f.Phase
}

// setFlush: true makes the next commit take dbCache's flush path
// (needsFlush: time.Since(lastFlush) > -1ns always holds, no clock dependence),
// false makes it stay in the cache.
func setFlush(db database.DB, flush bool) {
	if flush {
		ffldb.VerifSetFlushPolicy(db, -1, 1<<62)
	} else {
		ffldb.VerifSetFlushPolicy(db, time.Duration(1<<62), 1<<62)
	}
}

// recDB numbers the db.Update calls like part 1's crashDB, drives the flush
// policy per commit and logs the step boundaries.
type recDB struct {
	database.DB
	rec         *recorder
	regime      flushRegime
	commits     int  // db.Update calls that have returned
	inUpdate    bool // a db.Update call is running
	afterCommit func(n int)
}

func (d *recDB) Update(fn func(tx database.Tx) error) error {
	c := d.commits + 1
	fl := d.regime.flushAt(c)
	setFlush(d.DB, fl)
	d.inUpdate = true
	err := d.DB.Update(fn)
	// a failed Update commits nothing (rolled back before any file or leveldb
	// I/O) but still is a point in the history, as in part 1
	d.inUpdate = false
	d.commits = c
	d.rec.stepEnd(c, err == nil && fl)
	if d.afterCommit != nil {
		d.afterCommit(c)
	}
	return err
}

// ---------------------------------------------------------------- one configuration

type imgConfig struct {
	wl    *workload // blockFile already set to the configuration's value
	cache uint64
	long  bool
}

func (c imgConfig) String() string {
	return fmt.Sprintf("%s/cache=%d/blockfile=%d", c.wl.Name, c.cache, c.wl.blockFile)
}

func (c imgConfig) opts(ch **lab.Chain, d **recDB, rec *recorder, reg flushRegime) lab.ChainOpts {
	return lab.ChainOpts{CacheSize: c.cache, Prune: c.wl.prune, WrapDB: func(db database.DB) database.DB {
		if c.wl.blockFile != 0 {
			ffldb.VerifSetMaxBlockFileSize(db, c.wl.blockFile)
		}
		w := &recDB{DB: db, rec: rec, regime: reg}
		rec.db = w
		rec.install(db)
		// metadata state #0: the freshly created database (database.Create has
		// returned, blockchain.New has not started)
		rec.dir = filepath.Join((*ch).Dir, ffldb.VerifMetadataDirName)
		rec.observe()
		*d = w
		return w
	}}
}

// recording is one recorded uninterrupted run.
type recording struct {
	regime      flushRegime
	log         []fsEvent
	snaps       map[int]metaDir        // observed metadata state #k -> verified copy of the leveldb directory
	hashes      map[int][32]byte       // observed metadata state #k -> hash of its logical content
	commits     int                    // db.Update calls including the shutdown flush
	firstActive map[chainhash.Hash]int // tip -> number of completed commits when it was first seen active
	retCommit   []int                  // per delivery: completed commits when ProcessBlock returned
	finalTip    chainhash.Hash
}

// drive runs the workload on a fresh chain: blockchain.New, all deliveries, the
// shutdown flush of the utxo cache (what btcd does on a clean stop).  The
// database is left open; the caller closes it.
func (c imgConfig) drive(ch **lab.Chain, d **recDB, rec *recorder, reg flushRegime, onOpen func(), onRet func(i int)) (problem string) {
	defer func() {
		if p := recover(); p != nil {
			problem = fmt.Sprintf("panic: %v", p)
		}
	}()
	if err := lab.NewChainP(lab.CloneParams(c.wl.w.Params), c.opts(ch, d, rec, reg), ch); err != nil {
		return "open: " + err.Error()
	}
	if onOpen != nil {
		onOpen()
	}
	r := &run{wl: c.wl, cache: c.cache, c: *ch}
	n := 0
	_, p := r.deliver(func(chainhash.Hash) {
		if onRet != nil {
			onRet(n)
		}
		n++
	})
	if p != "" {
		return p
	}
	if err := (*ch).BC.FlushUtxoCache(blockchain.FlushRequired); err != nil {
		return "FlushUtxoCache: " + err.Error()
	}
	return ""
}

func (c imgConfig) record(reg flushRegime) (*recording, string) {
	rec := &recorder{}
	var ch *lab.Chain
	var d *recDB
	rc := &recording{regime: reg, firstActive: map[chainhash.Hash]int{*c.wl.w.Params.GenesisHash: 0}, retCommit: make([]int, len(c.wl.order))}
	for i := range rc.retCommit {
		rc.retCommit[i] = 1 << 30
	}
	defer func() {
		if ch != nil {
			ch.Destroy()
		}
	}()
	see := func(h chainhash.Hash) {
		if _, ok := rc.firstActive[h]; !ok {
			rc.firstActive[h] = d.commits
		}
	}
	onOpen := func() {
		d.afterCommit = func(int) {
			// the tip recorded by this commit becomes active right afterwards;
			// the persisted best state tells which one it is (as in part 1)
			if h, _, _, err := ch.BC.VerifPersistedBestState(); err == nil {
				see(h)
			}
			see(ch.BC.BestSnapshot().Hash)
		}
	}
	problem := c.drive(&ch, &d, rec, reg, onOpen, func(i int) {
		rc.retCommit[i] = d.commits
		see(ch.BC.BestSnapshot().Hash)
	})
	if problem != "" {
		return nil, "recording run failed: " + problem
	}
	rc.finalTip = ch.BC.BestSnapshot().Hash
	rc.commits = d.commits
	d.afterCommit = nil
	// clean stop: Close flushes whatever is cached (Sync, then leveldb)
	if err := ch.RawDB.Close(); err != nil {
		return nil, "close: " + err.Error()
	}
	ch.RawDB, ch.DB, ch.BC = nil, nil, nil
	rec.stepEnd(rc.commits, true)
	rec.mu.Lock()
	rc.log = append([]fsEvent{}, rec.log...)
	rc.snaps, rc.hashes = rec.snaps, rec.hashes
	obsErr := rec.obsErr
	rec.mu.Unlock()
	if obsErr != "" {
		return nil, "metadata observation: " + obsErr
	}
	if len(rc.log) == 0 || rc.log[0].Kind != evMark || rc.log[0].N != 0 {
		return nil, "metadata observation: the log does not start with LDB#0"
	}
	return rc, ""
}

// ---------------------------------------------------------------- image construction (from checks/c05/crash.go)

type pendingWrite struct {
	idx  int // index in the log
	file uint32
	off  int64
	data []byte
}

type diskState struct {
	files            map[uint32][]byte // durable content
	pending          []pendingWrite    // unsynced writes in log order
	m                int               // newest observed metadata state inside the prefix (LDB#m; -1: none)
	mUpto            int               // db.Update calls that had been started when LDB#m was observed: the state holds commits <= mUpto
	jmin             int               // newest StepEnd(j,flushed) inside the prefix: commits <= jmin had been promised durable
	done             int               // db.Update calls completed at the crash point
	lastIsWrite      bool
	deletedAfterMark bool // a Delete happened after the newest LDB marker in the prefix
}

func applyWrite(buf []byte, off int64, data []byte) []byte {
	end := int(off) + len(data)
	if end > len(buf) {
		nb := make([]byte, end)
		copy(nb, buf)
		buf = nb
	}
	copy(buf[off:], data)
	return buf
}

// stateAt replays the first p events.  Directory operations (create, delete) and
// Truncate are durable at once; file data only through Sync.
func stateAt(log []fsEvent, p int) *diskState {
	ds := &diskState{files: map[uint32][]byte{}, m: -1}
	for i := 0; i < p; i++ {
		e := log[i]
		ds.lastIsWrite = false
		ds.done = e.Done
		switch e.Kind {
		case evOpenW:
			if _, ok := ds.files[e.File]; !ok {
				ds.files[e.File] = []byte{}
			}
		case evWrite:
			ds.pending = append(ds.pending, pendingWrite{i, e.File, e.Off, e.Data})
			ds.lastIsWrite = true
		case evSync:
			var keep []pendingWrite
			for _, w := range ds.pending {
				if w.file == e.File {
					ds.files[w.file] = applyWrite(ds.files[w.file], w.off, w.data)
				} else {
					keep = append(keep, w)
				}
			}
			ds.pending = keep
		case evTrunc:
			if b, ok := ds.files[e.File]; ok {
				if len(b) > e.N {
					ds.files[e.File] = b[:e.N]
				} else if len(b) < e.N {
					ds.files[e.File] = applyWrite(b, int64(e.N), nil)
				}
			}
			var keep []pendingWrite
			for _, w := range ds.pending {
				if w.file == e.File {
					if w.off >= int64(e.N) {
						continue
					}
					if w.off+int64(len(w.data)) > int64(e.N) {
						w.data = w.data[:int64(e.N)-w.off]
					}
				}
				keep = append(keep, w)
			}
			ds.pending = keep
		case evDelete:
			delete(ds.files, e.File)
			var keep []pendingWrite
			for _, w := range ds.pending {
				if w.file != e.File {
					keep = append(keep, w)
				}
			}
			ds.pending = keep
			ds.deletedAfterMark = true
		case evMark:
			if e.N > ds.m {
				ds.m, ds.mUpto = e.N, e.Upto
			}
			ds.deletedAfterMark = false
		case evStep:
			if e.Off == 1 && e.N > ds.jmin {
				ds.jmin = e.N
			}
		}
	}
	return ds
}

// image materialises the files with the pending writes in `drop` omitted and
// optionally the last pending write torn to half its length.
func (ds *diskState) image(drop map[int]bool, tornLast bool) map[uint32][]byte {
	out := map[uint32][]byte{}
	for f, b := range ds.files {
		out[f] = append([]byte{}, b...)
	}
	for i, w := range ds.pending {
		if drop[w.idx] {
			continue
		}
		data := w.data
		if tornLast && i == len(ds.pending)-1 {
			data = data[:len(data)/2]
			if len(data) == 0 {
				continue
			}
		}
		if _, ok := out[w.file]; !ok {
			out[w.file] = []byte{}
		}
		out[w.file] = applyWrite(out[w.file], w.off, data)
	}
	return out
}

func imageHash(meta [32]byte, files map[uint32][]byte) [32]byte {
	h := sha256.New()
	fmt.Fprintf(h, "m=%x|", meta)
	var nums []int
	for f := range files {
		nums = append(nums, int(f))
	}
	sort.Ints(nums)
	for _, f := range nums {
		fmt.Fprintf(h, "f%d:%d:", f, len(files[uint32(f)]))
		h.Write(files[uint32(f)])
	}
	var o [32]byte
	copy(o[:], h.Sum(nil))
	return o
}

// cause names the mechanism behind a failing image (stable part of the key).
func imgCause(ds *diskState, dropped []int, torn bool) string {
	lost := len(dropped) > 0
	if torn && len(ds.pending) > 0 {
		lost = true
	}
	switch {
	case ds.deletedAfterMark:
		return "block-files-deleted-before-metadata-durable"
	case lost:
		return "unsynced-write-lost"
	}
	return "no-write-lost"
}

// ---------------------------------------------------------------- the oracle on one image

// imgCase is the replay object of one crash image.
type imgCase struct {
	Kind      string      `json:"kind"` // "img"
	Workload  string      `json:"workload"`
	Cache     uint64      `json:"cache"`
	BlockFile uint32      `json:"max_block_file_size"`
	Regime    flushRegime `json:"flush_regime"`
	Prefix    int         `json:"log_prefix"`
	Dropped   []int       `json:"unsynced_writes_dropped"` // log indices
	Torn      bool        `json:"last_write_torn"`
	Long      bool        `json:"long"`
	RecCache  int64       `json:"recovery_cache"` // -1: same as before
}

type imgCtx struct {
	cfg  imgConfig
	base *baseline
}

// ffldb.openDB does not close the leveldb handle when reconcileDB fails, so every
// image whose database.Open fails leaks file descriptors and two 4 MiB memdbs.
// (Never happens on a tree that satisfies the property.)  After maxFailedOpens
// such images part 2 stops enumerating; the violations found so far stand.
const maxFailedOpens = 200

var failedOpens int64

// check materialises and opens one image; returns (class, description) or ("","").
func (ic *imgCtx) check(rc *recording, cc imgCase) (string, string) {
	ds := stateAt(rc.log, cc.Prefix)
	drop := map[int]bool{}
	for _, i := range cc.Dropped {
		drop[i] = true
	}
	files := ds.image(drop, cc.Torn)
	md, ok := rc.snaps[ds.m]
	if !ok {
		return "harness", fmt.Sprintf("no copy of metadata state #%d", ds.m)
	}
	dir := newScratch("img")
	os.RemoveAll(dir)
	defer os.RemoveAll(dir)
	if err := md.writeTo(filepath.Join(dir, ffldb.VerifMetadataDirName)); err != nil {
		return "harness", err.Error()
	}
	for f, b := range files {
		if err := os.WriteFile(filepath.Join(dir, ffldb.VerifBlockFileName(f)), b, 0o600); err != nil {
			return "harness", err.Error()
		}
	}
	cache := ic.cfg.cache
	if cc.RecCache >= 0 {
		cache = uint64(cc.RecCache)
	}
	wl := ic.cfg.wl
	ch := &lab.Chain{Dir: dir, Params: lab.CloneParams(wl.w.Params)}
	defer ch.Destroy()
	var oerr error
	var panicked string
	func() {
		defer func() {
			if p := recover(); p != nil {
				panicked = fmt.Sprint(p)
			}
		}()
		oerr = ch.ReopenWith(lab.ChainOpts{CacheSize: cache, Prune: wl.prune, WrapDB: func(db database.DB) database.DB {
			if wl.blockFile != 0 {
				ffldb.VerifSetMaxBlockFileSize(db, wl.blockFile)
			}
			if os.Getenv("C04_IMG_DEBUG") != "" { // development aid: who reads a missing block file
				ffldb.VerifInstallFileHooks(db, ffldb.VerifFileHooks{OpenRead: func(n uint32, open func() (ffldb.VerifFiler, error)) (ffldb.VerifFiler, error) {
					f, err := open()
					if err != nil {
						fmt.Fprintf(os.Stderr, "open f%d: %v\n%s\n", n, err, debug.Stack())
					}
					return f, err
				}})
			}
			return db
		}})
	}()
	where := fmt.Sprintf("leveldb directory = observed state LDB#%d (seen when %d of %d db.Update calls had been started), commits <= %d had been flushed, %d db.Update calls had returned", ds.m, ds.mUpto, rc.commits, ds.jmin, ds.done)
	if panicked != "" {
		return "open-panic", fmt.Sprintf("opening the crash image panicked: %s (%s)", panicked, where)
	}
	if oerr != nil {
		if strings.Contains(oerr.Error(), "too many open files") {
			return "harness", oerr.Error()
		}
		if strings.HasPrefix(oerr.Error(), "db open:") {
			atomic.AddInt64(&failedOpens, 1)
			return "database-open-failed", fmt.Sprintf("database.Open of the crash image failed: %v (%s)", oerr, where)
		}
		return "chain-init-failed", fmt.Sprintf("blockchain.New on the crash image failed: %v (%s)", oerr, where)
	}
	r := &run{wl: wl, cache: cache, c: ch}
	// tips made active by any db.Update that had returned before the crash, or
	// by one whose commit is already in the observed leveldb state (a commit
	// that reached leveldb makes its tip the active one, as in part 1)
	bound := ds.done
	if ds.mUpto > bound {
		bound = ds.mUpto
	}
	allowed := map[chainhash.Hash]bool{}
	for h, c := range rc.firstActive {
		if c <= bound {
			allowed[h] = true
		}
	}
	// blocks acknowledged before the last commit that was promised durable
	delivered := make([]bool, len(wl.order))
	for i, c := range rc.retCommit {
		delivered[i] = c <= ds.jmin
	}
	var what string
	func() {
		defer func() {
			if p := recover(); p != nil {
				what = fmt.Sprintf("panic after reopen: %v", p)
			}
		}()
		what = r.checkState(allowed, delivered, wl.prune != 0)
		if what == "" {
			what = r.converge(ic.base.finalTip, ic.base.finalUtxo)
		}
	}()
	if what == "" {
		return "", ""
	}
	return imgClass(what), what + " (" + where + ")"
}

func imgClass(what string) string {
	if i := strings.Index(what, "[cause: "); i >= 0 {
		return "convergence/" + strings.TrimSuffix(what[i+8:], "]")
	}
	for _, p := range []string{"never active", "not a workload block", "invalid block", "reported unspent", "TotalTxns", "acknowledged before the crash", "unreadable", "after convergence", "re-feeding the workload", "does not fold", "FetchUtxoEntry", "panic after reopen"} {
		if strings.Contains(what, p) {
			return strings.ReplaceAll(p, " ", "-")
		}
	}
	if strings.Contains(what, "utxo ") {
		return "utxo-differs"
	}
	return "other"
}

// ---------------------------------------------------------------- enumeration

type imgJob struct {
	rec      int // index of the recording
	prefix   int
	dropped  []int
	torn     bool
	recCache int64 // utxo cache size of the restarted node; -1: as before the crash
}

type imgStats struct {
	Commits        int            `json:"commits"`
	LogEvents      map[string]int `json:"log_events_per_regime"`
	Enumerated     int            `json:"images_enumerated"`
	Distinct       int            `json:"distinct_images_opened"` // x recovery cache sizes
	MaxUnsynced    int            `json:"max_unsynced_writes"`
	PrefixesCapped int            `json:"prefixes_with_subset_cap_applied"`
	MetaStates     int            `json:"distinct_leveldb_states"`
	Failing        int            `json:"failing_images"`
}

func regimesFor(long bool) []flushRegime {
	rs := []flushRegime{{Period: 1}}
	periods := []int{3}
	if long {
		periods = []int{2, 3, 5}
	}
	for _, s := range periods {
		for ph := 0; ph < s; ph++ {
			rs = append(rs, flushRegime{Period: s, Phase: ph})
		}
	}
	return append(rs, flushRegime{Period: 0})
}

// capFor: how many of the newest unsynced writes are varied exhaustively.
func capFor(reg flushRegime, long bool) int {
	if reg.Period == 0 {
		// nothing but database.Create is durable in leveldb: every image is
		// rolled back to an empty store, only the file lengths matter
		if long {
			return 2
		}
		return 1
	}
	if long {
		return 6
	}
	if v := os.Getenv("C04_IMG_CAP"); v != "" { // development aid
		n, _ := strconv.Atoi(v)
		return n
	}
	return 2
}

func withBlockFile(wl *workload, bf uint32) *workload {
	c := *wl
	if c.blockFile == 0 {
		c.blockFile = bf
	}
	return &c
}

// imgWorkloads: part 1's workloads plus one in which pruning happens during a
// plain extension (no reorganisation): the pruned files are then always older
// than the tip's, as on a real node.
func imgWorkloads(wls []*workload) []*workload {
	w := wls[0].w
	out := append([]*workload(nil), wls...)
	return append(out, &workload{Name: "prune-extend", w: w, order: append([]*lab.Blk(nil), w.A...), prune: 1300, blockFile: 600})
}

// imgConfigs: which (workload, cache, block file size) combinations are run.
func imgConfigs(wls []*workload, long bool) []imgConfig {
	var out []imgConfig
	for _, wl := range imgWorkloads(wls) {
		if only := os.Getenv("C04_IMG_WL"); only != "" && only != wl.Name { // development aid
			continue
		}
		caches := []uint64{0, 1 << 20} // 1 MiB: never fills in these workloads (like part 1's 64 MiB) but costs 64x less to allocate per open
		if long {
			caches = []uint64{0, 1000, 1 << 20}
		}
		for _, cache := range caches {
			// tiny block files (1-2 blocks per file) so that roll-overs happen
			out = append(out, imgConfig{wl: withBlockFile(wl, 600), cache: cache, long: long})
			if long && wl.blockFile == 0 {
				out = append(out, imgConfig{wl: wl, cache: cache, long: long}) // default 512 MiB: one file
			}
		}
	}
	return out
}

func (ic *imgCtx) caseOf(rc *recording, j imgJob) imgCase {
	return imgCase{Kind: "img", Workload: ic.cfg.wl.Name, Cache: ic.cfg.cache, BlockFile: ic.cfg.wl.blockFile, Regime: rc.regime, Prefix: j.prefix, Dropped: j.dropped, Torn: j.torn, Long: ic.cfg.long, RecCache: j.recCache}
}

// prepare records all regimes of a configuration, enumerates the distinct
// images and produces the leveldb states they need.
func prepareImages(r *ev.Run, cfg imgConfig, regimes []flushRegime, st *imgStats) (*imgCtx, []*recording, []imgJob) {
	base, p := runBaseline(cfg.wl, cfg.cache)
	if p != "" {
		r.Broken("part 2: uninterrupted run of %s failed: %s", cfg, p)
	}
	t0 := time.Now()
	lap := func(what string) {
		if os.Getenv("C04_IMG_TIMING") != "" { // development aid
			fmt.Fprintf(os.Stderr, "timing %s %s: %v\n", cfg, what, time.Since(t0))
		}
		t0 = time.Now()
	}
	ic := &imgCtx{cfg: cfg, base: base}
	recs := make([]*recording, len(regimes))
	probs := make([]string, len(regimes))
	ev.Par(len(regimes), runtime.NumCPU(), func(i int) {
		recs[i], probs[i] = cfg.record(regimes[i])
	})
	for i, p := range probs {
		if p != "" {
			r.Broken("part 2: %s regime %s: %s", cfg, regimes[i], p)
		}
	}
	// the flush timing must not influence what the chain does: same commits,
	// same file writes, same final tip in every regime
	sig := func(rc *recording) string {
		h := sha256.New()
		for _, e := range rc.log {
			if e.Kind == evWrite || e.Kind == evDelete || e.Kind == evOpenW {
				fmt.Fprintf(h, "%d:%d:%d:%x|", e.Kind, e.File, e.Off, e.Data)
			}
		}
		return fmt.Sprintf("%d/%v/%x", rc.commits, rc.finalTip, h.Sum(nil))
	}
	for _, rc := range recs[1:] {
		if sig(rc) != sig(recs[0]) {
			r.Broken("part 2: %s: the recorded run depends on the flush regime (%s vs %s)", cfg, rc.regime, recs[0].regime)
		}
	}
	if recs[0].finalTip != base.finalTip {
		r.Broken("part 2: %s: recorded run ends at another tip than the part-1 baseline", cfg)
	}
	lap("record")
	if os.Getenv("C04_IMG_DUMPLOG") == cfg.String() { // development aid: the recorded logs of one configuration
		for _, rc := range recs {
			var evs []string
			for _, e := range rc.log {
				evs = append(evs, e.String())
			}
			fmt.Fprintf(os.Stderr, "LOG %s %s: %s\n", cfg, rc.regime, strings.Join(evs, " "))
		}
	}
	st.Commits = recs[0].commits
	st.LogEvents = map[string]int{}
	// enumerate
	var jobs []imgJob
	seen := map[[32]byte]bool{}
	need := map[[32]byte]bool{}
	for ri, rc := range recs {
		st.LogEvents[rc.regime.String()] = len(rc.log)
		capBits := capFor(rc.regime, cfg.long)
		add := func(ds *diskState, j imgJob) {
			drop := map[int]bool{}
			for _, i := range j.dropped {
				drop[i] = true
			}
			st.Enumerated++
			h := imageHash(rc.hashes[ds.m], ds.image(drop, j.torn))
			if seen[h] {
				return
			}
			seen[h] = true
			need[rc.hashes[ds.m]] = true
			jobs = append(jobs, j)
		}
		// prefix 0 is "database.Create has not returned"; every other prefix
		// starts with LDB#0, the freshly created database
		for p := 1; p <= len(rc.log); p++ {
			ds := stateAt(rc.log, p)
			n := len(ds.pending)
			if n > st.MaxUnsynced {
				st.MaxUnsynced = n
			}
			vary := n
			if vary > capBits {
				vary = capBits
				st.PrefixesCapped++
			}
			for mask := 0; mask < 1<<vary; mask++ {
				var dropped []int
				for b := 0; b < vary; b++ {
					if mask&(1<<b) != 0 {
						dropped = append(dropped, ds.pending[n-1-b].idx)
					}
				}
				sort.Ints(dropped)
				add(ds, imgJob{ri, p, dropped, false, -1})
				// torn last write (only meaningful when the last write is kept)
				if ds.lastIsWrite && n > 0 && mask&1 == 0 {
					add(ds, imgJob{ri, p, dropped, true, -1})
				}
			}
			if vary < n { // the all-lost image
				var dropped []int
				for _, w := range ds.pending {
					dropped = append(dropped, w.idx)
				}
				add(ds, imgJob{ri, p, dropped, false, -1})
			}
		}
	}
	if cfg.long && cfg.cache == 1<<20 {
		// operators restart with other settings: the same images once more with
		// a zero-size utxo cache (recovery then flushes after every replayed block)
		for _, j := range jobs[:len(jobs):len(jobs)] {
			j.recCache = 0
			jobs = append(jobs, j)
		}
	}
	st.Distinct = len(jobs)
	lap("enumerate")
	st.MetaStates = len(need)
	return ic, recs, jobs
}

type imgFail struct {
	job         int
	class, what string
}

// cleanupScratch removes this process's scratch directories (before an abnormal exit).
func cleanupScratch() {
	m, _ := filepath.Glob(fmt.Sprintf("%s/verif-%d-*", lab.ShmRoot(), os.Getpid()))
	for _, d := range m {
		os.RemoveAll(d)
	}
}

// phaseImages is the second phase of the check; returns false if it was cut short.
func phaseImages(r *ev.Run, wls []*workload, long bool) bool {
	r.Assume("part 2: goleveldb is atomic and durable per write batch (a leveldb commit is either completely there after the crash or not at all, and stays); the leveldb directory of an image is the newest OBSERVED state of the directory inside the log prefix (a verified point-in-time copy taken by the recorder before the next block-file event / step end was logged; everything runs in one goroutine)")
	r.Assume("part 2, blind spot of the observation: two leveldb commits with no block-file event and no db.Update return between them are seen as one change (the intermediate state is a commit prefix with the same block files, i.e. a part-1 state)")
	r.Assume("part 2: directory operations (file creation, deletion) and Truncate are durable at once; file data becomes durable only through a later Sync of the same file; only bytes not covered by such a Sync may be lost or torn (torn = first half of the last write)")
	r.Assume("part 2: database.Create itself is not interrupted")
	if pf := os.Getenv("C04_CPUPROF"); pf != "" { // development aid
		if f, err := os.Create(pf); err == nil {
			pprof.StartCPUProfile(f)
			defer pprof.StopCPUProfile()
		}
	}
	complete := true
	regimes := regimesFor(long)
	var names []string
	for _, g := range regimes {
		names = append(names, g.String())
	}
	stats := map[string]*imgStats{}
	var total, capped int64
	sampled := false
	for _, cfg := range imgConfigs(wls, long) {
		if r.Expired() {
			complete = false
			r.Cap("part 2: time box hit before configuration " + cfg.String())
			break
		}
		if atomic.LoadInt64(&failedOpens) > maxFailedOpens {
			complete = false
			r.Cap(fmt.Sprintf("part 2: stopped before configuration %s after %d images whose database.Open failed (each leaks the leveldb handle inside ffldb.openDB)", cfg, maxFailedOpens))
			break
		}
		st := &imgStats{}
		stats[cfg.String()] = st
		ic, recs, jobs := prepareImages(r, cfg, regimes, st)
		capped += int64(st.PrefixesCapped)
		var mu sync.Mutex
		harness := ""
		fails := map[string]imgFail{}
		ev.Par(len(jobs), runtime.NumCPU(), func(i int) {
			if r.Expired() || atomic.LoadInt64(&failedOpens) > maxFailedOpens {
				mu.Lock()
				complete = false
				mu.Unlock()
				return
			}
			j := jobs[i]
			rc := recs[j.rec]
			cc := ic.caseOf(rc, j)
			class, what := ic.check(rc, cc)
			r.Eval(1)
			r.Trace(1)
			r.Nontrivial(fmt.Sprintf("img|%s|%s|%d|%v|%v|%d", cfg, rc.regime, j.prefix, j.dropped, j.torn, j.recCache))
			atomic.AddInt64(&total, 1)
			if class == "" {
				return
			}
			if class == "harness" {
				mu.Lock()
				harness = what
				mu.Unlock()
				return
			}
			mu.Lock()
			st.Failing++
			// keep the first failing job (enumeration order) per key so that the
			// reported representative does not depend on worker timing
			k := imgKey(cfg.wl, class, rc, cc)
			if f, ok := fails[k]; !ok || i < f.job {
				fails[k] = imgFail{i, class, what}
			}
			mu.Unlock()
		})
		if harness != "" {
			cleanupScratch()
			r.Broken("part 2: cannot materialise crash images: %s", harness)
		}
		var fkeys []string
		for k := range fails {
			fkeys = append(fkeys, k)
		}
		sort.Strings(fkeys)
		for _, k := range fkeys {
			f := fails[k]
			rc := recs[jobs[f.job].rec]
			reportImage(r, ic, rc, ic.caseOf(rc, jobs[f.job]), f.class, f.what)
		}
		r.State(len(jobs))
		r.Trans(len(jobs) * len(cfg.wl.order))
		if !sampled && len(jobs) > 0 {
			sampled = true
			r.Sample(ic.caseOf(recs[jobs[len(jobs)/2].rec], jobs[len(jobs)/2]))
		}
	}
	if !complete {
		r.Cap("part 2: time box hit; see crash_images for the configurations that were completed")
	}
	r.Set("crash_images", map[string]interface{}{
		"flush_regimes":                        names,
		"subset_cap_bits":                      map[string]int{"every_and_periodic": capFor(flushRegime{Period: 1}, long), "never": capFor(flushRegime{}, long)},
		"subset_bound":                         "per log prefix: every subset of the newest subset_cap_bits unsynced writes lost (older unsynced writes kept), plus the image with ALL unsynced writes lost; each additionally with the last write torn",
		"prefixes_where_the_bound_cut_subsets": capped,
		"leveldb_states":                       "observed (verified copies of the live directory), not inferred",
		"torn_variants":                        "last write cut at half length",
		"distinct_images_opened":               total,
		"per_configuration":                    stats,
		"crash_during_recovery":                "enumerated at commit granularity only (part 1)",
		"recovery_cache_dimension":             map[bool]string{false: "same cache size as before the crash", true: "same cache size as before the crash; configurations with the 1 MiB cache additionally restarted with cache size 0"}[long],
	})
	return complete
}

// imgKey builds the violation key of a failing image.
func imgKey(wl *workload, class string, rc *recording, cc imgCase) string {
	if class == "convergence/stored-but-unconnected-block-is-refused-as-duplicate" {
		// same cause, same key as in part 1 (the prune-extend workload is filed
		// under "prune" so that the existing known-findings pattern matches)
		return fmt.Sprintf("%s/any/%s", strings.TrimSuffix(wl.Name, "-extend"), class)
	}
	ds := stateAt(rc.log, cc.Prefix)
	return fmt.Sprintf("img/%s/%s/%s", wl.Name, class, imgCause(ds, cc.Dropped, cc.Torn))
}

func reportImage(r *ev.Run, ic *imgCtx, rc *recording, cc imgCase, class, what string) {
	// confirm twice
	for i := 0; i < 2; i++ {
		if c2, w2 := ic.check(rc, cc); c2 != class {
			cleanupScratch()
			r.Broken("crash image %+v did not reproduce (%s, then %q: %s): %s", cc, class, c2, w2, what)
		}
	}
	key := imgKey(ic.cfg.wl, class, rc, cc)
	if os.Getenv("C04_IMG_VERBOSE") != "" { // development aid: every failing image, not only one per key
		var last []string
		for _, e := range rc.log[max(0, cc.Prefix-10):cc.Prefix] {
			last = append(last, e.String())
		}
		fmt.Fprintf(os.Stderr, "FAIL %s cfg=%s regime=%s prefix=%d [.. %s] dropped=%v torn=%v: %s\n", key, ic.cfg, cc.Regime, cc.Prefix, strings.Join(last, " "), cc.Dropped, cc.Torn, what)
	}
	from := cc.Prefix - 12
	if from < 0 {
		from = 0
	}
	var evs []string
	for _, e := range rc.log[from:cc.Prefix] {
		evs = append(evs, e.String())
	}
	r.Violation(key, fmt.Sprintf("workload=%s cache=%d max-block-file=%d flush-regime=%s: crash after I/O log prefix %d (last events: %s), unsynced writes lost (log indices) %v, last write torn=%v => %s", cc.Workload, cc.Cache, cc.BlockFile, cc.Regime, cc.Prefix, strings.Join(evs, " "), cc.Dropped, cc.Torn, what), cc)
}

// replayImage re-runs exactly one crash image.
func replayImage(r *ev.Run, cc imgCase) {
	var wl *workload
	for _, w := range imgWorkloads(mkWorkloads(cc.Long)) {
		if w.Name == cc.Workload {
			wl = w
		}
	}
	if wl == nil {
		r.Broken("replay: unknown workload %q", cc.Workload)
	}
	w2 := *wl
	w2.blockFile = cc.BlockFile
	cfg := imgConfig{wl: &w2, cache: cc.Cache, long: cc.Long}
	base, p := runBaseline(cfg.wl, cfg.cache)
	if p != "" {
		r.Broken("replay: %s", p)
	}
	rc, p := cfg.record(cc.Regime)
	if p != "" {
		r.Broken("replay: %s", p)
	}
	if cc.Prefix < 1 || cc.Prefix > len(rc.log) {
		r.Broken("replay: log has only %d events", len(rc.log))
	}
	ic := &imgCtx{cfg: cfg, base: base}
	class, what := ic.check(rc, cc)
	r.Eval(1)
	if class == "harness" {
		r.Broken("replay: %s", what)
	}
	if class != "" {
		r.Violation(imgKey(cfg.wl, class, rc, cc), what, cc)
	}
}
