package main

import (
	"fmt"

	"github.com/btcsuite/btcd/blockchain"
	"github.com/btcsuite/btcd/chainhash/v2"

	"verif/engine/ev"
	"verif/lab"
)

// Part 0: the decision that keeps pruning crash safe.  Before the block files of
// a set of blocks are deleted the utxo cache must be flushed exactly when one of
// those blocks is at or above the block the cache was last flushed at (otherwise
// a crash leaves a utxo set that can only be rolled forward with blocks that are
// gone).  The crash enumerations below reach that decision only with the file
// layouts and hash orders of the fixed workloads; here it is asked directly
// (hook VerifC04FlushNeededAfterPrune) on a real chain for every last-flush
// height and every ordered list of <= 3 distinct blocks (plus an unknown hash):
// the database reports pruned blocks in hash order, not in height order.
type pruneFlushCase struct {
	Kind      string `json:"kind"` // "pruneflush"
	LastFlush int    `json:"last_flush_height"`
	List      []int  `json:"deleted_heights"` // -1 = unknown hash
}

func pruneFlushOne(w *lab.TwoBranch, c pruneFlushCase) string {
	ch, err := lab.NewChain(lab.CloneParams(w.Params), lab.ChainOpts{CacheSize: 64 << 20})
	if err != nil {
		return "HARNESS: " + err.Error()
	}
	defer ch.Destroy()
	for i, b := range w.A {
		if i == c.LastFlush {
			break
		}
		if _, _, err := ch.BC.ProcessBlock(b.Block(), blockchain.BFNone); err != nil {
			return "HARNESS: ProcessBlock: " + err.Error()
		}
	}
	if err := ch.BC.FlushUtxoCache(blockchain.FlushRequired); err != nil {
		return "HARNESS: flush: " + err.Error()
	}
	for i := c.LastFlush; i < len(w.A); i++ {
		if _, _, err := ch.BC.ProcessBlock(w.A[i].Block(), blockchain.BFNone); err != nil {
			return "HARNESS: ProcessBlock: " + err.Error()
		}
	}
	return pruneFlushAsk(ch, w, c)
}

func pruneFlushAsk(ch *lab.Chain, w *lab.TwoBranch, c pruneFlushCase) string {
	var hs []chainhash.Hash
	want := false
	for _, h := range c.List {
		if h < 0 {
			hs = append(hs, chainhash.Hash{0xee, 0x01})
			continue
		}
		hs = append(hs, w.A[h-1].Hash)
		want = want || h >= c.LastFlush
	}
	got, err := ch.BC.VerifC04FlushNeededAfterPrune(hs)
	if err != nil || got != want {
		return fmt.Sprintf("utxo cache last flushed at height %d, blocks at heights %v (in this order; -1 = not in the index) are about to be pruned: flush needed = %v err=%v, must be %v", c.LastFlush, c.List, got, err, want)
	}
	return ""
}

func partPruneFlush(r *ev.Run, w *lab.TwoBranch) {
	n := len(w.A)
	cands := []int{-1}
	for h := 1; h <= n; h++ {
		cands = append(cands, h)
	}
	asked := 0
	for lf := 0; lf <= n; lf++ {
		base := pruneFlushCase{Kind: "pruneflush", LastFlush: lf}
		ch, err := lab.NewChain(lab.CloneParams(w.Params), lab.ChainOpts{CacheSize: 64 << 20})
		if err != nil {
			r.Broken("pruneflush: %v", err)
		}
		for i, b := range w.A {
			if i == lf {
				if err := ch.BC.FlushUtxoCache(blockchain.FlushRequired); err != nil {
					r.Broken("pruneflush: flush: %v", err)
				}
			}
			if _, _, err := ch.BC.ProcessBlock(b.Block(), blockchain.BFNone); err != nil {
				r.Broken("pruneflush: ProcessBlock: %v", err)
			}
		}
		if lf == n {
			if err := ch.BC.FlushUtxoCache(blockchain.FlushRequired); err != nil {
				r.Broken("pruneflush: flush: %v", err)
			}
		}
		var rec func(list []int)
		rec = func(list []int) {
			if len(list) > 0 {
				c := base
				c.List = append([]int(nil), list...)
				asked++
				if what := pruneFlushAsk(ch, w, c); what != "" {
					// confirm on a fresh chain built only for this case
					if w2 := pruneFlushOne(w, c); w2 == "" || w2[:3] == "HAR" {
						r.Broken("pruneflush: case %+v does not reproduce on a fresh chain: %q vs %q", c, what, w2)
					}
					r.Violation("prune-flush-decision", what, c)
					return
				}
			}
			if len(list) == 3 {
				return
			}
			for _, x := range cands {
				dup := false
				for _, y := range list {
					dup = dup || x == y
				}
				if !dup {
					rec(append(list, x))
				}
			}
		}
		rec(nil)
		ch.Destroy()
	}
	r.Eval(asked)
	r.Trans(asked)
	r.Add("prune_flush_decisions_asked", int64(asked))
}
