// C07 — signature hashes commit to exactly the specified data; signers verify.
//
// Bounded exhaustive enumeration of transaction shapes x input index x hash
// type x script code x amount x (taproot) annex / ext flag / code separator
// position, each digest computed by the real txscript code and compared byte
// for byte with the independent reference in verif/ref/refsighash; cache
// equivalence (fresh TxSigHashes, shared HashCache, warmed SigCache); signer
// round trips through the real Engine for every standard output type and
// defined hash type; and the "commits to exactly these fields" property by
// mutating every field of every signed transaction.
package main

import (
	"fmt"
	"os"
	"runtime"
	"time"

	"verif/engine/ev"
)

var workers = runtime.NumCPU()

func main() {
	r := ev.Start("C07")
	initKeys()
	r.Rule("digest cases: every (tx shape, input index, hash type, script code, amount[, prevout kind, annex, ext flag, codesep pos]) tuple " +
		"of the declared alphabets, each evaluated on txscript.Calc*SignatureHash (fresh TxSigHashes and shared HashCache) and on the reference; " +
		"a case is non-trivial when the reference produces a digest or a specified error for it (all are); distinct_nontrivial counts distinct " +
		"(algorithm, shape, index, hash type) tuples of the digest part plus distinct (spend kind, shape, index, other-input kind, hash type, mutation) " +
		"tuples of the signer/commitment part. signer cases: every spend kind x signing shape x index x defined hash type, signed by the sign.go helper, " +
		"executed by Engine.Execute with StandardVerifyFlags; commitment cases: every single-field mutation of each signed tx, engine verdict compared " +
		"with 'reference digest changed'.")
	r.Assume("btcec ECDSA/Schnorr sign+verify, SHA256, RIPEMD160 and wire.MsgTx deserialization are correct (other properties cover them)")
	r.Assume("taproot output key / control block construction by txscript.AssembleTaprootScriptTree & ComputeTaprootOutputKey is used as test scaffolding")
	r.Assume("reference digests are bound to sighash.json (direct), and to tx_valid.json + taproot-ref (signature validity under the reference digest)")

	if r.ReplayPath != "" {
		replay(r)
		return
	}

	t0 := time.Now()
	bindAll(r)
	fmt.Fprintf(os.Stderr, "binding done in %.1fs\n", time.Since(t0).Seconds())

	runDigests(r)
	fmt.Fprintf(os.Stderr, "digests done at %.1fs\n", time.Since(t0).Seconds())
	runSigners(r)
	fmt.Fprintf(os.Stderr, "signers done at %.1fs\n", time.Since(t0).Seconds())
	runExtras(r)
	fmt.Fprintf(os.Stderr, "extras done at %.1fs\n", time.Since(t0).Seconds())

	r.Add("engine_executions", engineRuns)
	r.Finish(true)
}

func replay(r *ev.Run) {
	var probe struct {
		Kind string `json:"kind"`
	}
	r.LoadReplay(&probe)
	initAlphabets()
	initSpendKinds()
	var what, key string
	switch probe.Kind {
	case "digest":
		var c DigestCase
		r.LoadReplay(&c)
		key, what = c.key(), evalDigestCase(c)
	case "sign":
		var c SignCase
		r.LoadReplay(&c)
		key, what = c.key(), evalSignCase(c)
	case "extra":
		var c ExtraCase
		r.LoadReplay(&c)
		key, what = c.key(), evalExtraCase(c)
	default:
		r.Broken("unknown replay kind %q", probe.Kind)
	}
	r.Eval(1)
	r.Trace(1)
	if what != "" {
		var obj interface{}
		r.LoadReplay(&obj)
		r.Violation(key, what, obj)
	}
	r.Finish(false)
}
