package main

import (
	"bytes"
	"fmt"
	"sync"
	"sync/atomic"

	"github.com/btcsuite/btcd/chainhash/v2"
	"github.com/btcsuite/btcd/txscript/v2"
	"github.com/btcsuite/btcd/wire/v2"

	"verif/engine/ev"
	"verif/ref/refsighash"
)

// DigestCase is one enumerated digest comparison (also the replay object).
type DigestCase struct {
	Kind     string `json:"kind"` // "digest"
	Algo     string `json:"algo"` // legacy | v0 | taproot
	Shape    Shape  `json:"shape"`
	Idx      int    `json:"idx"`
	HashType uint32 `json:"hash_type"`
	Script   int    `json:"script"`    // script code (legacy, v0) / leaf script (taproot with ext)
	Amount   int    `json:"amount"`    // index into amounts (own input)
	PrevKind int    `json:"prev_kind"` // 0 homogeneous prevouts, 1 other inputs of the other witness version
	Annex    int    `json:"annex"`
	Ext      bool   `json:"ext"`
	CodeSep  int    `json:"codesep"`
}

func (c DigestCase) key() string {
	return fmt.Sprintf("digest/%s/%s/idx%d/ht%#x/script%d/amt%d/pk%d/annex%d/ext%v/cs%d",
		c.Algo, c.Shape, c.Idx, c.HashType, c.Script, c.Amount, c.PrevKind, c.Annex, c.Ext, c.CodeSep)
}

var scriptCodes [][]byte
var scriptCodeNames = []string{"plain-p2pkh", "codesep-front", "codesep-middle", "codesep-end", "two-codesep+0xab-in-pushdata",
	"empty", "len253", "len252", "p2wpkh-program", "unparseable"}

var leafScripts [][]byte
var annexes [][]byte
var codeSepPositions = []uint32{0xffffffff, 0, 5}

func initAlphabets() {
	plain := p2pkh(keys[0].h160C)
	scriptCodes = [][]byte{
		plain,
		cat([]byte{opCodeSep}, plain),
		cat([]byte{opDup, opHash160, opCodeSep}, push(keys[0].h160C), []byte{opEqualVerify, opCheckSig}),
		cat(plain, []byte{opCodeSep}),
		cat([]byte{opCodeSep}, push([]byte{0xab, 0xab, 0xab}), []byte{0x75, opCodeSep}, push(keys[0].pubC), []byte{opCheckSig}),
		{},
		cat([]byte{0x4c, 250}, bytes.Repeat([]byte{0xab}, 250), []byte{0x75}),
		cat([]byte{0x4c, 249}, bytes.Repeat([]byte{0xab}, 249), []byte{0x75}),
		p2wpkh(keys[0].h160C),
		{0x05, 0x01},
	}
	leafScripts = [][]byte{
		cat(push(keys[1].xonly), []byte{opCheckSig}),
		cat([]byte{0x4c, 250}, bytes.Repeat([]byte{0xab}, 250), []byte{0x75}),
	}
	annexes = [][]byte{nil, {0x50}, {0x50, 'x'}, cat([]byte{0x50}, bytes.Repeat([]byte{0x07}, 252))}
}

// prevoutsFor builds the spent outputs for a digest case.
func prevoutsFor(algo string, nIn, idx, amount, prevKind int) []refsighash.PrevOut {
	prev := make([]refsighash.PrevOut, nIn)
	for j := 0; j < nIn; j++ {
		tr := p2tr(keys[j%len(keys)].xonly)
		v0 := p2wpkh(keys[j%len(keys)].h160C)
		var own, other []byte
		if algo == "taproot" {
			own, other = tr, tr
			if prevKind == 1 {
				other = v0
			}
		} else {
			own, other = p2wsh([]byte{op1, byte(j)}), v0
			if prevKind == 1 {
				other = tr
			}
		}
		if j == idx {
			prev[j] = refsighash.PrevOut{Value: amounts[amount], PkScript: own}
		} else {
			prev[j] = refsighash.PrevOut{Value: int64(5000 + j), PkScript: other}
		}
	}
	return prev
}

type btcdDigest struct {
	d   []byte
	err error
	pan string
}

func (b btcdDigest) String() string {
	if b.pan != "" {
		return "PANIC " + b.pan
	}
	if b.err != nil {
		return "error(" + b.err.Error() + ")"
	}
	return hx(b.d)
}

func call(f func() ([]byte, error)) (r btcdDigest) {
	r.pan = safely(func() { r.d, r.err = f() })
	return
}

// checkLegacy compares CalcSignatureHash with the reference.
func checkLegacy(shared *wire.MsgTx, idx int, ht uint32, script []byte) string {
	// the digest is a pure function of the transaction: it runs on a private
	// copy (a write cannot leak into the next case) and must leave it untouched
	tx := shared.Copy()
	var before bytes.Buffer
	tx.SerializeNoWitness(&before)
	got := call(func() ([]byte, error) { return txscript.CalcSignatureHash(script, txscript.SigHashType(ht), tx, idx) })
	var after bytes.Buffer
	tx.SerializeNoWitness(&after)
	if !bytes.Equal(before.Bytes(), after.Bytes()) {
		return fmt.Sprintf("CalcSignatureHash changed the transaction it was given: %x -> %x", before.Bytes(), after.Bytes())
	}
	want := refsighash.Legacy(script, ht, tx, idx)
	if got.pan != "" {
		return "CalcSignatureHash " + got.String()
	}
	if !refsighash.Parses(script) {
		// outside the documented contract of CalcSignatureHash (btcd rejects
		// scripts that do not parse); accept the error or Core's digest.
		if got.err != nil || bytes.Equal(got.d, want[:]) {
			return ""
		}
		return fmt.Sprintf("CalcSignatureHash on undecodable script: got %s want error or %s", got, hx(want[:]))
	}
	if got.err != nil || !bytes.Equal(got.d, want[:]) {
		return fmt.Sprintf("CalcSignatureHash got %s want %s", got, hx(want[:]))
	}
	return ""
}

// checkV0 compares CalcWitnessSigHash (fresh midstate and cached midstate).
func checkV0(tx *wire.MsgTx, idx int, ht uint32, script []byte, amount int64, f txscript.PrevOutputFetcher, cached *txscript.TxSigHashes) string {
	code := script
	if isP2WPKH(script) {
		code = refsighash.P2WPKHScriptCode(script[2:])
	}
	want := refsighash.WitnessV0(code, ht, tx, idx, amount)
	for pass, sh := range []*txscript.TxSigHashes{nil, cached} {
		name := "cached HashCache midstate"
		if pass == 0 {
			name = "fresh NewTxSigHashes"
		}
		got := call(func() ([]byte, error) {
			h := sh
			if h == nil {
				h = txscript.NewTxSigHashes(tx, f)
			}
			return txscript.CalcWitnessSigHash(script, h, txscript.SigHashType(ht), tx, idx, amount)
		})
		if got.pan != "" {
			return "CalcWitnessSigHash " + got.String()
		}
		if !refsighash.Parses(script) {
			if got.err != nil || bytes.Equal(got.d, want[:]) {
				continue
			}
			return fmt.Sprintf("CalcWitnessSigHash(%s) on undecodable script: got %s", name, got)
		}
		if got.err != nil || !bytes.Equal(got.d, want[:]) {
			return fmt.Sprintf("CalcWitnessSigHash(%s) got %s want %s", name, got, hx(want[:]))
		}
	}
	return ""
}

// checkTaproot compares CalcTaprootSignatureHash / CalcTapscriptSignaturehash.
func checkTaproot(tx *wire.MsgTx, idx int, ht uint32, prev []refsighash.PrevOut, annex []byte, ext bool, leaf []byte, codeSep uint32,
	f txscript.PrevOutputFetcher, cached *txscript.TxSigHashes) string {

	var rext *refsighash.TapscriptExt
	if ext {
		rext = &refsighash.TapscriptExt{LeafHash: refsighash.TapLeafHash(0xc0, leaf), KeyVersion: 0, CodeSepPos: codeSep}
	}
	want, werr := refsighash.Taproot(tx, idx, ht, prev, annex, rext)
	for pass, sh := range []*txscript.TxSigHashes{nil, cached} {
		name := "cached HashCache midstate"
		if pass == 0 {
			name = "fresh NewTxSigHashes"
		}
		api := ""
		got := call(func() ([]byte, error) {
			h := sh
			if h == nil {
				h = txscript.NewTxSigHashes(tx, f)
			}
			var opts []txscript.TaprootSigHashOption
			if annex != nil {
				opts = append(opts, txscript.WithAnnex(annex))
			}
			if ext {
				api = "CalcTapscriptSignaturehash"
				if codeSep != 0xffffffff {
					opts = append(opts, txscript.WithBaseTapscriptVersion(codeSep, rext.LeafHash[:]))
				}
				return txscript.CalcTapscriptSignaturehash(h, txscript.SigHashType(ht), tx, idx, f, txscript.NewBaseTapLeaf(leaf), opts...)
			}
			if annex == nil {
				api = "CalcTaprootSignatureHash"
				return txscript.CalcTaprootSignatureHash(h, txscript.SigHashType(ht), tx, idx, f)
			}
			api = "calcTaprootSignatureHashRaw+WithAnnex"
			return txscript.VerifCalcTaprootSignatureHashRaw(h, txscript.SigHashType(ht), tx, idx, f, opts...)
		})
		if got.pan != "" {
			return api + " " + got.String()
		}
		if werr != nil {
			if got.err == nil {
				return fmt.Sprintf("%s(%s) got %s want error (%v)", api, name, got, werr)
			}
			continue
		}
		if got.err != nil || !bytes.Equal(got.d, want[:]) {
			return fmt.Sprintf("%s(%s) got %s want %s", api, name, got, hx(want[:]))
		}
	}
	return ""
}

// evalDigestCase runs one case from scratch (used for confirmation and replay).
func evalDigestCase(c DigestCase) string {
	tx := buildTx(c.Shape)
	if c.Idx < 0 || c.Idx >= len(tx.TxIn) {
		return ""
	}
	switch c.Algo {
	case "legacy":
		return checkLegacy(tx, c.Idx, c.HashType, scriptCodes[c.Script])
	case "v0":
		prev := prevoutsFor("v0", c.Shape.NIn, c.Idx, c.Amount, c.PrevKind)
		f := fetcherFor(tx, prev)
		hc := txscript.NewHashCache(4)
		hc.AddSigHashes(tx, f)
		h := tx.TxHash()
		cached, _ := hc.GetSigHashes(&h)
		return checkV0(tx, c.Idx, c.HashType, scriptCodes[c.Script], amounts[c.Amount], f, cached)
	case "taproot":
		prev := prevoutsFor("taproot", c.Shape.NIn, c.Idx, c.Amount, c.PrevKind)
		f := fetcherFor(tx, prev)
		hc := txscript.NewHashCache(4)
		hc.AddSigHashes(tx, f)
		h := tx.TxHash()
		cached, _ := hc.GetSigHashes(&h)
		return checkTaproot(tx, c.Idx, c.HashType, prev, annexes[c.Annex], c.Ext, leafScripts[c.Script%len(leafScripts)], codeSepPositions[c.CodeSep], f, cached)
	}
	return ""
}

var violBudget = map[string]*int64{"legacy": new(int64), "v0": new(int64), "taproot": new(int64), "sign": new(int64), "commit": new(int64), "extra": new(int64)}

// report confirms a failing case three more times and records it.
func report(r *ev.Run, class, key, what string, replayObj interface{}, again func() string) {
	for i := 0; i < 3; i++ {
		if w := again(); (w == "") != (what == "") {
			r.Broken("verdict of %s flipped on re-run (%q vs %q)", key, what, w)
		}
	}
	if atomic.AddInt64(violBudget[class], 1) > 25 {
		r.Add("violations_suppressed_"+class, 1)
		return
	}
	r.Violation(key, what, replayObj)
}

func allShapes() []Shape {
	var s []Shape
	for nin := 1; nin <= 3; nin++ {
		for nout := 0; nout <= 3; nout++ {
			for _, v := range []int32{1, 2} {
				for _, lt := range []uint32{0, 1} {
					for seq := 0; seq < 3; seq++ {
						for _, g := range []bool{false, true} {
							s = append(s, Shape{nin, nout, v, lt, seq, g})
						}
					}
				}
			}
		}
	}
	return s
}

func runDigests(r *ev.Run) {
	initAlphabets()
	shapes := allShapes()
	hts := hashTypeAlphabet(r.Thorough())

	// shared HashCaches: one per (algo, idx, prevKind, amount); every shape's
	// midstate is added first so that retrieval happens from a populated cache.
	type ck struct {
		algo         string
		idx, pk, amt int
	}
	caches := map[ck]*txscript.HashCache{}
	seenTxid := map[chainhash.Hash]string{}
	for _, s := range shapes {
		tx := buildTx(s)
		h := tx.TxHash()
		if o, dup := seenTxid[h]; dup {
			r.Broken("two enumerated shapes share a txid: %s and %s", o, s)
		}
		seenTxid[h] = s.String()
	}
	var mu sync.Mutex
	getCache := func(k ck) *txscript.HashCache {
		mu.Lock()
		defer mu.Unlock()
		c, ok := caches[k]
		if !ok {
			c = txscript.NewHashCache(uint(len(shapes)))
			caches[k] = c
		}
		return c
	}
	ev.Par(len(shapes), workers, func(i int) {
		s := shapes[i]
		tx := buildTx(s)
		for idx := 0; idx < s.NIn; idx++ {
			for pk := 0; pk < 2; pk++ {
				for a := range amounts {
					for _, algo := range []string{"v0", "taproot"} {
						prev := prevoutsFor(algo, s.NIn, idx, a, pk)
						getCache(ck{algo, idx, pk, a}).AddSigHashes(tx, fetcherFor(tx, prev))
					}
				}
			}
		}
	})

	var nLegacy, nV0, nTap, nTapErr int64
	ev.Par(len(shapes), workers, func(i int) {
		s := shapes[i]
		tx := buildTx(s)
		txid := tx.TxHash()
		var lLegacy, lV0, lTap, lTapErr int64
		for idx := 0; idx < s.NIn; idx++ {
			// ---- legacy
			for _, ht := range hts {
				r.Nontrivial(fmt.Sprintf("legacy/%s/%d/%x", s, idx, ht))
				for si, sc := range scriptCodes {
					lLegacy++
					if w := checkLegacy(tx, idx, ht, sc); w != "" {
						c := DigestCase{Kind: "digest", Algo: "legacy", Shape: s, Idx: idx, HashType: ht, Script: si}
						report(r, "legacy", c.key(), w, c, func() string { return evalDigestCase(c) })
					}
				}
			}
			// ---- witness v0
			for pk := 0; pk < 2; pk++ {
				for a := range amounts {
					prev := prevoutsFor("v0", s.NIn, idx, a, pk)
					f := fetcherFor(tx, prev)
					cached, ok := getCache(ck{"v0", idx, pk, a}).GetSigHashes(&txid)
					if !ok {
						r.Broken("HashCache lost an entry")
					}
					for _, ht := range hts {
						r.Nontrivial(fmt.Sprintf("v0/%s/%d/%x", s, idx, ht))
						for si, sc := range scriptCodes {
							if pk == 1 && si > 1 {
								continue // prevout-kind variation only matters for the midstate
							}
							lV0++
							if w := checkV0(tx, idx, ht, sc, amounts[a], f, cached); w != "" {
								c := DigestCase{Kind: "digest", Algo: "v0", Shape: s, Idx: idx, HashType: ht, Script: si, Amount: a, PrevKind: pk}
								report(r, "v0", c.key(), w, c, func() string { return evalDigestCase(c) })
							}
						}
					}
				}
			}
			// ---- taproot
			for pk := 0; pk < 2; pk++ {
				for a := range amounts {
					prev := prevoutsFor("taproot", s.NIn, idx, a, pk)
					f := fetcherFor(tx, prev)
					cached, ok := getCache(ck{"taproot", idx, pk, a}).GetSigHashes(&txid)
					if !ok {
						r.Broken("HashCache lost an entry")
					}
					for _, ht := range hts {
						r.Nontrivial(fmt.Sprintf("taproot/%s/%d/%x", s, idx, ht))
						for ai := range annexes {
							// key path
							lTap++
							if !refsighash.ValidTaprootHashType(ht) {
								lTapErr++
							}
							if w := checkTaproot(tx, idx, ht, prev, annexes[ai], false, nil, 0, f, cached); w != "" {
								c := DigestCase{Kind: "digest", Algo: "taproot", Shape: s, Idx: idx, HashType: ht, Amount: a, PrevKind: pk, Annex: ai}
								report(r, "taproot", c.key(), w, c, func() string { return evalDigestCase(c) })
							}
							// tapscript
							for li := range leafScripts {
								for ci, cs := range codeSepPositions {
									if li == 1 && ci > 0 {
										continue
									}
									lTap++
									if !refsighash.ValidTaprootHashType(ht) {
										lTapErr++
									}
									if w := checkTaproot(tx, idx, ht, prev, annexes[ai], true, leafScripts[li], cs, f, cached); w != "" {
										c := DigestCase{Kind: "digest", Algo: "taproot", Shape: s, Idx: idx, HashType: ht, Script: li, Amount: a, PrevKind: pk, Annex: ai, Ext: true, CodeSep: ci}
										report(r, "taproot", c.key(), w, c, func() string { return evalDigestCase(c) })
									}
								}
							}
						}
					}
				}
			}
		}
		r.Eval(int(lLegacy + lV0 + lTap))
		r.Trace(int(lLegacy + lV0 + lTap))
		atomic.AddInt64(&nLegacy, lLegacy)
		atomic.AddInt64(&nV0, lV0)
		atomic.AddInt64(&nTap, lTap)
		atomic.AddInt64(&nTapErr, lTapErr)
	})
	r.Add("digest_cases_legacy", nLegacy)
	r.Add("digest_cases_bip143", nV0*2)
	r.Add("digest_cases_bip341_342", nTap*2)
	r.Add("digest_cases_taproot_undefined_hash_type_error_expected", nTapErr)
	r.Sample(DigestCase{Kind: "digest", Algo: "taproot", Shape: shapes[len(shapes)-1], Idx: 2, HashType: 0x83, Script: 0, Amount: 2, PrevKind: 1, Annex: 2, Ext: true, CodeSep: 2})
	r.Sample(DigestCase{Kind: "digest", Algo: "legacy", Shape: shapes[30], Idx: 0, HashType: 0xffffff03, Script: 4})
	var htl []string
	for _, h := range hts {
		htl = append(htl, fmt.Sprintf("%#x", h))
	}
	r.Set("bounds", map[string]interface{}{
		"shapes":            fmt.Sprintf("%d = inputs 1..3 x outputs 0..3 x version{1,2} x locktime{0,1} x sequences{all final, all 0, distinct} x {bare, with sigScripts+witnesses}; every input index", len(shapes)),
		"hash_types":        htl,
		"script_codes":      scriptCodeNames,
		"amounts":           amounts,
		"prevout_kinds":     "own input of the digest's witness version; other inputs {same version, other version}",
		"annex":             []string{"none", "50", "50 78", "50 || 252 bytes (compact-size 0xfd boundary)"},
		"ext_flag":          "key path (0) and tapscript (1)",
		"leaf_scripts":      []string{"<xonly> CHECKSIG", "253-byte script"},
		"codesep_positions": codeSepPositions,
	})
}
