package main

// Binding of the reference digests to ground truth shipped with the repo:
//   - data/sighash.json: 500 direct legacy digest vectors (Bitcoin Core).
//   - data/tx_valid.json: valid segwit v0 spends incl. the BIP143 examples; the
//     ECDSA signatures in the witnesses must verify against the reference
//     BIP143 digest (a wrong digest makes verification fail).
//   - data/taproot-ref/*: Bitcoin Core's feature_taproot.py vectors; the BIP340
//     signatures of the "success" witnesses (key path and script path, with and
//     without annex, with OP_CODESEPARATOR) must verify against the reference
//     BIP341/342 digest.
// Any disagreement is a broken oracle (exit 2), never a violation.

import (
	"bytes"
	"encoding/hex"
	"encoding/json"
	"fmt"
	"os"
	"path/filepath"
	"sort"
	"strconv"
	"strings"
	"sync"
	"sync/atomic"
	"time"

	"github.com/btcsuite/btcd/btcec/v2"
	"github.com/btcsuite/btcd/btcec/v2/ecdsa"
	"github.com/btcsuite/btcd/btcec/v2/schnorr"
	"github.com/btcsuite/btcd/wire/v2"

	"verif/engine/ev"
	"verif/ref/refsighash"
)

func repoRoot() string {
	if v := os.Getenv("VERIF_REPO"); v != "" {
		return v
	}
	return "/repo"
}

func parseTx(h string) (*wire.MsgTx, error) {
	raw, err := hex.DecodeString(h)
	if err != nil {
		return nil, err
	}
	var tx wire.MsgTx
	if err := tx.Deserialize(bytes.NewReader(raw)); err != nil {
		return nil, err
	}
	return &tx, nil
}

func reverseHex(b []byte) string {
	r := make([]byte, len(b))
	for i := range b {
		r[len(b)-1-i] = b[i]
	}
	return hex.EncodeToString(r)
}

func bindSighashJSON(r *ev.Run) int {
	raw, err := os.ReadFile(filepath.Join(repoRoot(), "txscript/data/sighash.json"))
	if err != nil {
		r.Broken("cannot read sighash.json: %v", err)
	}
	var tests [][]interface{}
	if err := json.Unmarshal(raw, &tests); err != nil {
		r.Broken("sighash.json: %v", err)
	}
	n := 0
	for i, t := range tests {
		if len(t) != 5 {
			continue
		}
		tx, err := parseTx(t[0].(string))
		if err != nil {
			r.Broken("sighash.json #%d: tx does not parse: %v", i, err)
		}
		script, _ := hex.DecodeString(t[1].(string))
		idx := int(t[2].(float64))
		ht := uint32(int32(int64(t[3].(float64))))
		got := refsighash.Legacy(script, ht, tx, idx)
		if reverseHex(got[:]) != t[4].(string) {
			r.Broken("reference legacy digest disagrees with sighash.json #%d: got %s want %s", i, reverseHex(got[:]), t[4].(string))
		}
		n++
	}
	if n < 400 {
		r.Broken("sighash.json: only %d vectors", n)
	}
	return n
}

// ------------------------------------------------- signature based binding

type bindStats struct {
	v0Bound, v0Unbound int
	v0Types            map[uint32]int
	trKeyBound         int
	trKeyTypes         map[uint32]int
	trKeyAnnex         int
	trScriptBound      int
	trScriptUnbound    int
	trScriptTypes      map[uint32]int
	trScriptAnnex      int
	trScriptCodeSep    int
}

func (a *bindStats) merge(b *bindStats) {
	a.v0Bound += b.v0Bound
	a.v0Unbound += b.v0Unbound
	a.trKeyBound += b.trKeyBound
	a.trKeyAnnex += b.trKeyAnnex
	a.trScriptBound += b.trScriptBound
	a.trScriptUnbound += b.trScriptUnbound
	a.trScriptAnnex += b.trScriptAnnex
	a.trScriptCodeSep += b.trScriptCodeSep
	for k, v := range b.v0Types {
		a.v0Types[k] += v
	}
	for k, v := range b.trKeyTypes {
		a.trKeyTypes[k] += v
	}
	for k, v := range b.trScriptTypes {
		a.trScriptTypes[k] += v
	}
}

func newBindStats() *bindStats {
	return &bindStats{v0Types: map[uint32]int{}, trKeyTypes: map[uint32]int{}, trScriptTypes: map[uint32]int{}}
}

func looksDER(e []byte) bool {
	return len(e) >= 9 && len(e) <= 73 && e[0] == 0x30 && int(e[1]) == len(e)-2
}

func ecdsaOK(sig, pk []byte, digest [32]byte) bool {
	s, err := ecdsa.ParseDERSignature(sig)
	if err != nil {
		return false
	}
	p, err := btcec.ParsePubKey(pk)
	if err != nil {
		return false
	}
	return s.Verify(digest[:], p)
}

func schnorrOK(sig, xonly []byte, digest [32]byte) bool {
	s, err := schnorr.ParseSignature(sig)
	if err != nil {
		return false
	}
	p, err := schnorr.ParsePubKey(xonly)
	if err != nil {
		return false
	}
	return s.Verify(digest[:], p)
}

// pushesOf returns the data pushes of a script that decodes (direct pushes and
// OP_PUSHDATA1/2 only).
func pushesOf(script []byte) [][]byte {
	var r [][]byte
	i := 0
	for i < len(script) {
		op := script[i]
		switch {
		case op >= 1 && op <= 75:
			if i+1+int(op) > len(script) {
				return r
			}
			r = append(r, script[i+1:i+1+int(op)])
			i += 1 + int(op)
		case op == 76:
			if i+2 > len(script) || i+2+int(script[i+1]) > len(script) {
				return r
			}
			r = append(r, script[i+2:i+2+int(script[i+1])])
			i += 2 + int(script[i+1])
		case op == 77:
			if i+3 > len(script) {
				return r
			}
			l := int(script[i+1]) | int(script[i+2])<<8
			if i+3+l > len(script) {
				return r
			}
			r = append(r, script[i+3:i+3+l])
			i += 3 + l
		case op == 78:
			return r
		default:
			i++
		}
	}
	return r
}

// suffixesAfterCodeSep returns the script itself and every suffix that starts
// right after an OP_CODESEPARATOR opcode.
func suffixesAfterCodeSep(script []byte) [][]byte {
	r := [][]byte{script}
	if !refsighash.Parses(script) {
		return r
	}
	// walk opcodes
	i := 0
	for i < len(script) {
		op := script[i]
		n := 1
		switch {
		case op >= 1 && op <= 75:
			n = 1 + int(op)
		case op == 76:
			n = 2 + int(script[i+1])
		case op == 77:
			n = 3 + int(script[i+1]) + int(script[i+2])<<8
		case op == 78:
			n = 5 + int(script[i+1]) + int(script[i+2])<<8 + int(script[i+3])<<16 + int(script[i+4])<<24
		}
		i += n
		if op == 0xab {
			r = append(r, script[i:])
		}
	}
	return r
}

// bindInput tries to tie the signatures found in the witness of input idx to
// the reference digests.  mustTaproot makes an unbound taproot key path
// signature fatal (the vector is known to be a successful, active spend).
func bindInput(r *ev.Run, st *bindStats, name string, tx *wire.MsgTx, idx int, prev []refsighash.PrevOut, taprootActive bool) {
	spk := prev[idx].PkScript
	in := tx.TxIn[idx]
	wit := in.Witness
	if isP2SH(spk) {
		ps := pushesOf(in.SignatureScript)
		if len(ps) != 1 || len(in.SignatureScript) != len(ps[0])+1 {
			return
		}
		spk = ps[0]
	}
	switch {
	case isP2WPKH(spk):
		if len(wit) != 2 || !looksDER(wit[0][:max(0, len(wit[0])-1)]) {
			return
		}
		ht := uint32(wit[0][len(wit[0])-1])
		d := refsighash.WitnessV0(refsighash.P2WPKHScriptCode(spk[2:]), ht, tx, idx, prev[idx].Value)
		if ecdsaOK(wit[0][:len(wit[0])-1], wit[1], d) {
			st.v0Bound++
			st.v0Types[ht]++
		} else {
			st.v0Unbound++
		}
	case isP2WSH(spk):
		if len(wit) < 1 {
			return
		}
		ws := wit[len(wit)-1]
		var pks [][]byte
		for _, p := range pushesOf(ws) {
			if len(p) == 33 || len(p) == 65 {
				pks = append(pks, p)
			}
		}
		for _, e := range wit[:len(wit)-1] {
			if len(e) < 10 || !looksDER(e[:len(e)-1]) {
				continue
			}
			ht := uint32(e[len(e)-1])
			ok := false
			for _, code := range suffixesAfterCodeSep(ws) {
				d := refsighash.WitnessV0(code, ht, tx, idx, prev[idx].Value)
				for _, pk := range pks {
					if ecdsaOK(e[:len(e)-1], pk, d) {
						ok = true
					}
				}
			}
			if ok {
				st.v0Bound++
				st.v0Types[ht]++
			} else {
				st.v0Unbound++
			}
		}
	case isP2TR(spk) && taprootActive && prev[idx].PkScript[0] == 0x51:
		if len(wit) == 0 {
			return
		}
		var annex []byte
		if len(wit) >= 2 && len(wit[len(wit)-1]) > 0 && wit[len(wit)-1][0] == 0x50 {
			annex = wit[len(wit)-1]
			wit = wit[:len(wit)-1]
		}
		sigParts := func(e []byte) (sig []byte, ht uint32, ok bool) {
			if len(e) == 64 {
				return e, 0, true
			}
			if len(e) == 65 && e[64] != 0 {
				return e[:64], uint32(e[64]), true
			}
			return nil, 0, false
		}
		if len(wit) == 1 {
			sig, ht, ok := sigParts(wit[0])
			if !ok {
				r.Broken("taproot-ref %s: successful key path spend with a %d byte signature", name, len(wit[0]))
			}
			d, err := refsighash.Taproot(tx, idx, ht, prev, annex, nil)
			if err != nil || !schnorrOK(sig, spk[2:], d) {
				r.Broken("reference BIP341 key path digest does not validate the signature of successful vector %s (hash type %#x, annex %v, err %v)", name, ht, annex != nil, err)
			}
			st.trKeyBound++
			st.trKeyTypes[ht]++
			if annex != nil {
				st.trKeyAnnex++
			}
			return
		}
		script, control := wit[len(wit)-2], wit[len(wit)-1]
		if len(control) < 33 || control[0]&0xfe != 0xc0 || !refsighash.Parses(script) {
			return
		}
		var pks [][]byte
		for _, p := range pushesOf(script) {
			if len(p) == 32 {
				pks = append(pks, p)
			}
		}
		nsig := 0
		for _, e := range wit[:len(wit)-2] {
			if _, _, ok := sigParts(e); ok {
				nsig++
			}
		}
		if nsig*len(pks) > 64 {
			return // e.g. tapscript/bigmulti (999 keys): too many combinations to attribute
		}
		positions := append([]uint32{0xffffffff}, refsighash.CodeSepPositions(script)...)
		leaf := refsighash.TapLeafHash(0xc0, script)
		for _, e := range wit[:len(wit)-2] {
			sig, ht, ok := sigParts(e)
			if !ok {
				continue
			}
			found, foundPos := false, uint32(0)
			for _, pos := range positions {
				d, err := refsighash.Taproot(tx, idx, ht, prev, annex, &refsighash.TapscriptExt{LeafHash: leaf, CodeSepPos: pos})
				if err != nil {
					continue
				}
				for _, pk := range pks {
					if schnorrOK(sig, pk, d) {
						found, foundPos = true, pos
					}
				}
			}
			if found {
				st.trScriptBound++
				st.trScriptTypes[ht]++
				if annex != nil {
					st.trScriptAnnex++
				}
				if foundPos != 0xffffffff {
					st.trScriptCodeSep++
				}
			} else {
				st.trScriptUnbound++
			}
		}
	}
}

// ------------------------------------------------------ tx_valid.json parse

var shortOps = map[string]byte{
	"DUP": 0x76, "HASH160": 0xa9, "EQUAL": 0x87, "EQUALVERIFY": 0x88, "CHECKSIG": 0xac,
	"CHECKSIGVERIFY": 0xad, "CHECKMULTISIG": 0xae, "CHECKMULTISIGVERIFY": 0xaf, "CODESEPARATOR": 0xab,
	"IF": 0x63, "ELSE": 0x67, "ENDIF": 0x68, "NOT": 0x91, "DROP": 0x75, "SWAP": 0x7c, "NOP": 0x61,
	"HASH256": 0xaa, "SHA256": 0xa8, "VERIFY": 0x69, "SIZE": 0x82, "1NEGATE": 0x4f,
}

func parseShort(s string) ([]byte, bool) {
	var b []byte
	for _, tok := range strings.Fields(s) {
		switch {
		case strings.HasPrefix(tok, "0x"):
			d, err := hex.DecodeString(tok[2:])
			if err != nil {
				return nil, false
			}
			b = append(b, d...)
		case tok == "0":
			b = append(b, 0)
		default:
			if n, err := strconv.Atoi(tok); err == nil {
				if n >= 1 && n <= 16 {
					b = append(b, byte(0x50+n))
					continue
				}
				return nil, false
			}
			op, ok := shortOps[strings.TrimPrefix(tok, "OP_")]
			if !ok {
				return nil, false
			}
			b = append(b, op)
		}
	}
	return b, true
}

func bindTxValid(r *ev.Run, st *bindStats) int {
	raw, err := os.ReadFile(filepath.Join(repoRoot(), "txscript/data/tx_valid.json"))
	if err != nil {
		r.Broken("cannot read tx_valid.json: %v", err)
	}
	var tests [][]interface{}
	if err := json.Unmarshal(raw, &tests); err != nil {
		r.Broken("tx_valid.json: %v", err)
	}
	used := 0
	for ti, t := range tests {
		if len(t) != 3 {
			continue
		}
		ins, ok := t[0].([]interface{})
		txHex, ok2 := t[1].(string)
		if !ok || !ok2 {
			continue
		}
		tx, err := parseTx(txHex)
		if err != nil {
			continue
		}
		type po struct {
			script []byte
			amount int64
		}
		m := map[wire.OutPoint]po{}
		good := true
		for _, e := range ins {
			a, ok := e.([]interface{})
			if !ok || len(a) < 3 {
				good = false
				break
			}
			hs, _ := a[0].(string)
			hb, err := hex.DecodeString(hs)
			if err != nil || len(hb) != 32 {
				good = false
				break
			}
			var op wire.OutPoint
			for i := 0; i < 32; i++ {
				op.Hash[i] = hb[31-i]
			}
			op.Index = uint32(int32(a[1].(float64)))
			sc, ok := parseShort(a[2].(string))
			if !ok {
				good = false
				break
			}
			var amt int64
			if len(a) >= 4 {
				amt = int64(a[3].(float64))
			}
			m[op] = po{sc, amt}
		}
		if !good {
			continue
		}
		prev := make([]refsighash.PrevOut, len(tx.TxIn))
		for i, in := range tx.TxIn {
			p, ok := m[in.PreviousOutPoint]
			if !ok {
				good = false
				break
			}
			prev[i] = refsighash.PrevOut{Value: p.amount, PkScript: p.script}
		}
		if !good {
			continue
		}
		before := st.v0Bound
		for i := range tx.TxIn {
			if len(tx.TxIn[i].Witness) > 0 {
				bindInput(r, st, fmt.Sprintf("tx_valid#%d", ti), tx, i, prev, false)
			}
		}
		if st.v0Bound > before {
			used++
		}
	}
	return used
}

type taprootVec struct {
	Tx       string   `json:"tx"`
	Prevouts []string `json:"prevouts"`
	Index    int      `json:"index"`
	Flags    string   `json:"flags"`
	Comment  string   `json:"comment"`
	Success  *struct {
		ScriptSig string   `json:"scriptSig"`
		Witness   []string `json:"witness"`
	} `json:"success"`
}

func bindTaprootRef(r *ev.Run, st *bindStats) int {
	dir := filepath.Join(repoRoot(), "txscript/data/taproot-ref")
	ents, err := os.ReadDir(dir)
	if err != nil {
		r.Broken("cannot read taproot-ref: %v", err)
	}
	var names []string
	for _, e := range ents {
		if !e.IsDir() {
			names = append(names, e.Name())
		}
	}
	sort.Strings(names)
	var n int64
	var mu sync.Mutex
	ev.Par(len(names), workers, func(ni int) {
		name := names[ni]
		raw, err := os.ReadFile(filepath.Join(dir, name))
		if err != nil {
			r.Broken("taproot-ref %s: %v", name, err)
		}
		raw = bytes.TrimSuffix(bytes.TrimSpace(raw), []byte(","))
		var v taprootVec
		if err := json.Unmarshal(raw, &v); err != nil {
			r.Broken("taproot-ref %s: %v", name, err)
		}
		if v.Success == nil {
			return
		}
		tx, err := parseTx(v.Tx)
		if err != nil || len(v.Prevouts) != len(tx.TxIn) || v.Index >= len(tx.TxIn) {
			return
		}
		prev := make([]refsighash.PrevOut, len(tx.TxIn))
		good := true
		for i, p := range v.Prevouts {
			b, err := hex.DecodeString(p)
			if err != nil {
				good = false
				break
			}
			// serialized CTxOut: value (8, LE) || compact size || script
			if len(b) < 9 || b[8] >= 0xfd || len(b) != 9+int(b[8]) {
				good = false
				break
			}
			var val uint64
			for k := 0; k < 8; k++ {
				val |= uint64(b[k]) << (8 * uint(k))
			}
			prev[i] = refsighash.PrevOut{Value: int64(val), PkScript: b[9:]}
		}
		if !good {
			return
		}
		ss, _ := hex.DecodeString(v.Success.ScriptSig)
		tx.TxIn[v.Index].SignatureScript = ss
		var wit wire.TxWitness
		for _, w := range v.Success.Witness {
			e, _ := hex.DecodeString(w)
			wit = append(wit, e)
		}
		tx.TxIn[v.Index].Witness = wit
		active := false
		for _, f := range strings.Split(v.Flags, ",") {
			if f == "TAPROOT" {
				active = true
			}
		}
		local := newBindStats()
		bindInput(r, local, name+" ("+v.Comment+")", tx, v.Index, prev, active)
		mu.Lock()
		st.merge(local)
		mu.Unlock()
		atomic.AddInt64(&n, 1)
	})
	return int(n)
}

func max(a, b int) int {
	if a > b {
		return a
	}
	return b
}

func typesList(m map[uint32]int) []string {
	var ks []int
	for k := range m {
		ks = append(ks, int(k))
	}
	sort.Ints(ks)
	var r []string
	for _, k := range ks {
		r = append(r, fmt.Sprintf("%#02x:%d", k, m[uint32(k)]))
	}
	return r
}

// bindAll binds the reference to every shipped vector set.
func bindAll(r *ev.Run) {
	t0 := time.Now()
	nLegacy := bindSighashJSON(r)
	st := newBindStats()
	t1 := time.Now()
	nTxValid := bindTxValid(r, st)
	t2 := time.Now()
	nTap := bindTaprootRef(r, st)
	if os.Getenv("C07_DEBUG") != "" {
		fmt.Fprintf(os.Stderr, "bind: sighash.json %v tx_valid %v taproot-ref %v; %+v\n", t1.Sub(t0), t2.Sub(t1), time.Since(t2), *st)
	}
	r.Set("reference_binding", map[string]interface{}{
		"sighash_json_vectors_matched":           nLegacy,
		"tx_valid_segwit_txs_bound":              nTxValid,
		"taproot_ref_vectors_read":               nTap,
		"bip143_sigs_verified_under_ref_digest":  st.v0Bound,
		"bip143_sigs_not_attributed":             st.v0Unbound,
		"bip143_hash_types":                      typesList(st.v0Types),
		"bip341_keypath_sigs_verified":           st.trKeyBound,
		"bip341_keypath_hash_types":              typesList(st.trKeyTypes),
		"bip341_keypath_with_annex":              st.trKeyAnnex,
		"bip342_scriptpath_sigs_verified":        st.trScriptBound,
		"bip342_scriptpath_sigs_not_attributed":  st.trScriptUnbound,
		"bip342_scriptpath_hash_types":           typesList(st.trScriptTypes),
		"bip342_scriptpath_with_annex":           st.trScriptAnnex,
		"bip342_scriptpath_codesep_pos_not_none": st.trScriptCodeSep,
	})
	// Coverage requirements of the binding itself: every defined hash type must
	// have been bound at least once for each digest algorithm.
	for _, ht := range []uint32{1, 2, 3, 0x81, 0x82, 0x83} {
		if st.v0Types[ht] == 0 {
			r.Broken("binding: no shipped BIP143 vector validated hash type %#x under the reference digest", ht)
		}
	}
	for _, ht := range []uint32{0, 1, 2, 3, 0x81, 0x82, 0x83} {
		if st.trKeyTypes[ht] == 0 {
			r.Broken("binding: no shipped taproot key path vector validated hash type %#x", ht)
		}
		if st.trScriptTypes[ht] == 0 {
			r.Broken("binding: no shipped tapscript vector validated hash type %#x", ht)
		}
	}
	if st.trKeyAnnex == 0 || st.trScriptAnnex == 0 || st.trScriptCodeSep == 0 {
		r.Broken("binding: annex / code separator position not covered by shipped vectors (key annex %d, script annex %d, codesep %d)",
			st.trKeyAnnex, st.trScriptAnnex, st.trScriptCodeSep)
	}
}
