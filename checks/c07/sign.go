package main

import (
	"bytes"
	"errors"
	"fmt"
	"reflect"
	"sync/atomic"

	"github.com/btcsuite/btcd/address/v2"
	"github.com/btcsuite/btcd/btcec/v2"
	"github.com/btcsuite/btcd/btcec/v2/schnorr"
	"github.com/btcsuite/btcd/chaincfg/v2"
	"github.com/btcsuite/btcd/txscript/v2"
	"github.com/btcsuite/btcd/wire/v2"

	"verif/engine/ev"
	"verif/ref/refsighash"
)

// spendCtx is a transaction with the input under test and all spent outputs.
type spendCtx struct {
	tx   *wire.MsgTx
	idx  int
	prev []refsighash.PrevOut
}

func (c *spendCtx) clone() *spendCtx {
	return &spendCtx{tx: copyTx(c.tx), idx: c.idx, prev: copyPrev(c.prev)}
}

func (c *spendCtx) sigHashes() *txscript.TxSigHashes {
	return txscript.NewTxSigHashes(c.tx, fetcherFor(c.tx, c.prev))
}

type mutation struct {
	name  string
	apply func(c *spendCtx) bool // false: not applicable
}

type spendKind struct {
	name     string
	taproot  bool
	manual   bool // signature produced from the reference digest (no helper supports this form)
	pkScript []byte
	sign     func(c *spendCtx, ht uint32) error
	ref      func(c *spendCtx, ht uint32) []string
	extra    []mutation
	flags    txscript.ScriptFlags // 0 = StandardVerifyFlags
}

func (k *spendKind) vflags() txscript.ScriptFlags {
	if k.flags != 0 {
		return k.flags
	}
	return txscript.StandardVerifyFlags
}

var (
	params     = &chaincfg.MainNetParams
	keyDB      txscript.KeyDB
	scriptDB   txscript.ScriptDB
	spendKinds []*spendKind
)

func dstr(d [32]byte, err error) string {
	if err != nil {
		return "err:" + err.Error()
	}
	return hx(d[:])
}

func legacyRef(codes ...[]byte) func(c *spendCtx, ht uint32) []string {
	return func(c *spendCtx, ht uint32) []string {
		var r []string
		for _, code := range codes {
			r = append(r, dstr(refsighash.Legacy(code, ht, c.tx, c.idx), nil))
		}
		return r
	}
}

func v0Ref(codes ...[]byte) func(c *spendCtx, ht uint32) []string {
	return func(c *spendCtx, ht uint32) []string {
		var r []string
		for _, code := range codes {
			r = append(r, dstr(refsighash.WitnessV0(code, ht, c.tx, c.idx, c.prev[c.idx].Value), nil))
		}
		return r
	}
}

// splitAnnex applies the BIP341 annex rule to a witness stack.
func splitAnnex(w wire.TxWitness) (wire.TxWitness, []byte) {
	if len(w) >= 2 && len(w[len(w)-1]) > 0 && w[len(w)-1][0] == 0x50 {
		return w[:len(w)-1], w[len(w)-1]
	}
	return w, nil
}

func trKeyRef(c *spendCtx, ht uint32) []string {
	_, annex := splitAnnex(c.tx.TxIn[c.idx].Witness)
	return []string{dstr(refsighash.Taproot(c.tx, c.idx, ht, c.prev, annex, nil))}
}

// trScriptRef: one digest per signature; positions are the code separator
// positions in force when each signature is checked.
func trScriptRef(positions ...uint32) func(c *spendCtx, ht uint32) []string {
	return func(c *spendCtx, ht uint32) []string {
		w, annex := splitAnnex(c.tx.TxIn[c.idx].Witness)
		if len(w) < 2 {
			return []string{"err:no script"}
		}
		script, ctrl := w[len(w)-2], w[len(w)-1]
		leaf := refsighash.TapLeafHash(ctrl[0]&0xfe, script)
		var r []string
		for _, p := range positions {
			r = append(r, dstr(refsighash.Taproot(c.tx, c.idx, ht, c.prev, annex, &refsighash.TapscriptExt{LeafHash: leaf, CodeSepPos: p})))
		}
		return r
	}
}

func refDigestBytes(s string) ([]byte, error) {
	if len(s) != 64 {
		return nil, errors.New(s)
	}
	var b [32]byte
	for i := 0; i < 32; i++ {
		fmt.Sscanf(s[2*i:2*i+2], "%02x", &b[i])
	}
	return b[:], nil
}

func schnorrSignRef(priv *btcec.PrivateKey, digest string, ht uint32) ([]byte, error) {
	d, err := refDigestBytes(digest)
	if err != nil {
		return nil, err
	}
	s, err := schnorr.Sign(priv, d)
	if err != nil {
		return nil, err
	}
	sig := s.Serialize()
	if ht != 0 {
		sig = append(sig, byte(ht))
	}
	return sig, nil
}

type tapTree struct {
	pkScript []byte
	root     []byte
	ctrl     map[string][]byte // script -> control block
}

func mkTapTree(internal *btcec.PublicKey, scripts ...[]byte) *tapTree {
	var leaves []txscript.TapLeaf
	for _, s := range scripts {
		leaves = append(leaves, txscript.NewBaseTapLeaf(s))
	}
	tree := txscript.AssembleTaprootScriptTree(leaves...)
	root := tree.RootNode.TapHash()
	out := txscript.ComputeTaprootOutputKey(internal, root[:])
	t := &tapTree{pkScript: p2tr(schnorr.SerializePubKey(out)), root: root[:], ctrl: map[string][]byte{}}
	for i, l := range leaves {
		p := tree.LeafMerkleProofs[tree.LeafProofIndex[l.TapHash()]]
		cb := p.ToControlBlock(internal)
		b, err := cb.ToBytes()
		if err != nil {
			panic(err)
		}
		t.ctrl[string(scripts[i])] = b
	}
	return t
}

func initSpendKinds() {
	type kv struct {
		k *btcec.PrivateKey
		c bool
	}
	km := map[string]kv{}
	for _, k := range keys {
		a, _ := address.NewAddressPubKeyHash(k.h160C, params)
		km[a.EncodeAddress()] = kv{k.priv, true}
		a, _ = address.NewAddressPubKeyHash(k.h160U, params)
		km[a.EncodeAddress()] = kv{k.priv, false}
	}
	keyDB = txscript.KeyClosure(func(a address.Address) (*btcec.PrivateKey, bool, error) {
		e, ok := km[a.EncodeAddress()]
		if !ok {
			return nil, false, errors.New("no key")
		}
		return e.k, e.c, nil
	})
	sm := map[string][]byte{}
	scriptDB = txscript.ScriptClosure(func(a address.Address) ([]byte, error) {
		s, ok := sm[a.EncodeAddress()]
		if !ok {
			return nil, errors.New("no script")
		}
		return s, nil
	})

	k0, k1, k2, k3 := keys[0], keys[1], keys[2], keys[3]
	_ = k3

	// ---- legacy, via SignTxOutput (+ direct helper cross check)
	addLegacy := func(name string, pk []byte, cross func(c *spendCtx, ht uint32) ([]byte, error)) {
		mk := func(name string, spk []byte, wrap func([]byte) []byte) {
			spendKinds = append(spendKinds, &spendKind{
				name: name, pkScript: spk,
				sign: func(c *spendCtx, ht uint32) error {
					ss, err := txscript.SignTxOutput(params, c.tx, c.idx, spk, txscript.SigHashType(ht), keyDB, scriptDB, nil)
					if err != nil {
						return err
					}
					if cross != nil {
						alt, err := cross(c, ht)
						if err != nil {
							return fmt.Errorf("direct helper failed: %v", err)
						}
						if !bytes.Equal(wrap(alt), ss) {
							return fmt.Errorf("SignTxOutput and the direct helper disagree: %x vs %x", ss, wrap(alt))
						}
					}
					c.tx.TxIn[c.idx].SignatureScript = ss
					return nil
				},
				ref: legacyRef(pk),
			})
		}
		mk(name, pk, func(b []byte) []byte { return b })
		a, _ := address.NewAddressScriptHash(pk, params)
		sm[a.EncodeAddress()] = pk
		mk("p2sh-"+name, p2sh(pk), func(b []byte) []byte { return cat(b, push(pk)) })
		// the same output signed twice: the second SignTxOutput call is handed the
		// complete script of the first one as previousScript (mergeScripts); what
		// it returns must still spend the output
		for _, w := range []struct {
			name string
			spk  []byte
		}{{name + "-resigned", pk}, {"p2sh-" + name + "-resigned", p2sh(pk)}} {
			w := w
			spendKinds = append(spendKinds, &spendKind{
				name: w.name, pkScript: w.spk,
				sign: func(c *spendCtx, ht uint32) error {
					first, err := txscript.SignTxOutput(params, c.tx, c.idx, w.spk, txscript.SigHashType(ht), keyDB, scriptDB, nil)
					if err != nil {
						return err
					}
					second, err := txscript.SignTxOutput(params, c.tx, c.idx, w.spk, txscript.SigHashType(ht), keyDB, scriptDB, first)
					if err != nil {
						return err
					}
					c.tx.TxIn[c.idx].SignatureScript = second
					return nil
				},
				ref: legacyRef(pk),
			})
		}
	}
	rawPush := func(k *keyT, code []byte) func(c *spendCtx, ht uint32) ([]byte, error) {
		return func(c *spendCtx, ht uint32) ([]byte, error) {
			sig, err := txscript.RawTxInSignature(c.tx, c.idx, code, txscript.SigHashType(ht), k.priv)
			return push(sig), err
		}
	}
	addLegacy("p2pk-compressed", p2pk(k0.pubC), rawPush(k0, p2pk(k0.pubC)))
	addLegacy("p2pk-uncompressed", p2pk(k1.pubU), rawPush(k1, p2pk(k1.pubU)))
	addLegacy("p2pkh-compressed", p2pkh(k0.h160C), func(c *spendCtx, ht uint32) ([]byte, error) {
		return txscript.SignatureScript(c.tx, c.idx, p2pkh(k0.h160C), txscript.SigHashType(ht), k0.priv, true)
	})
	addLegacy("p2pkh-uncompressed", p2pkh(k1.h160U), func(c *spendCtx, ht uint32) ([]byte, error) {
		return txscript.SignatureScript(c.tx, c.idx, p2pkh(k1.h160U), txscript.SigHashType(ht), k1.priv, false)
	})
	ms12 := multisig(1, k0.pubC, k1.pubC)
	addLegacy("multisig-1of2", ms12, func(c *spendCtx, ht uint32) ([]byte, error) {
		sig, err := txscript.RawTxInSignature(c.tx, c.idx, ms12, txscript.SigHashType(ht), k0.priv)
		return cat([]byte{0}, push(sig)), err
	})
	ms23 := multisig(2, k0.pubC, k1.pubC, k2.pubC)
	addLegacy("multisig-2of3", ms23, func(c *spendCtx, ht uint32) ([]byte, error) {
		s0, err := txscript.RawTxInSignature(c.tx, c.idx, ms23, txscript.SigHashType(ht), k0.priv)
		if err != nil {
			return nil, err
		}
		s1, err := txscript.RawTxInSignature(c.tx, c.idx, ms23, txscript.SigHashType(ht), k1.priv)
		return cat([]byte{0}, push(s0), push(s1)), err
	})

	// ---- two co-signers of the 2-of-3 multisig, each with its own key store and
	// its own hash type (the second one's differs in SIGHASH_ANYONECANPAY): the
	// second SignTxOutput call merges the first one's partial script
	// (mergeScripts / mergeMultiSig), which re-derives each signature's digest
	// from the hash type byte it carries
	oneKey := func(k *keyT) txscript.KeyDB {
		return txscript.KeyClosure(func(a address.Address) (*btcec.PrivateKey, bool, error) {
			for _, compressed := range []bool{true, false} {
				h := k.h160C
				if !compressed {
					h = k.h160U
				}
				if o, _ := address.NewAddressPubKeyHash(h, params); o != nil && o.EncodeAddress() == a.EncodeAddress() {
					return k.priv, compressed, nil
				}
			}
			return nil, false, errors.New("no key")
		})
	}
	for _, w := range []struct {
		name string
		spk  []byte
	}{{"multisig-2of3-cosigned", ms23}, {"p2sh-multisig-2of3-cosigned", p2sh(ms23)}} {
		w := w
		for _, order := range [][2]*keyT{{k0, k1}, {k2, k0}} {
			order := order
			name := w.name
			if order[0] == k2 {
				name += "-k2-first"
			}
			spendKinds = append(spendKinds, &spendKind{
				name: name, pkScript: w.spk,
				sign: func(c *spendCtx, ht uint32) error {
					first, err := txscript.SignTxOutput(params, c.tx, c.idx, w.spk, txscript.SigHashType(ht), oneKey(order[0]), scriptDB, nil)
					if err != nil {
						return err
					}
					second, err := txscript.SignTxOutput(params, c.tx, c.idx, w.spk, txscript.SigHashType(ht^0x80), oneKey(order[1]), scriptDB, first)
					if err != nil {
						return err
					}
					c.tx.TxIn[c.idx].SignatureScript = second
					return nil
				},
				ref: func(c *spendCtx, ht uint32) []string {
					return []string{dstr(refsighash.Legacy(ms23, ht, c.tx, c.idx), nil), dstr(refsighash.Legacy(ms23, ht^0x80, c.tx, c.idx), nil)}
				},
			})
		}
	}

	// ---- legacy script with an executed OP_CODESEPARATOR (RawTxInSignature)
	csScript := cat(push(k0.pubC), []byte{opCheckSigVer, opCodeSep}, push(k1.pubC), []byte{opCheckSig})
	csSuffix := cat(push(k1.pubC), []byte{opCheckSig})
	spendKinds = append(spendKinds, &spendKind{
		name: "bare-codeseparator", pkScript: csScript,
		// OP_CODESEPARATOR in a non-segwit script is policy-rejected by CONST_SCRIPTCODE
		flags: txscript.StandardVerifyFlags &^ txscript.ScriptVerifyConstScriptCode,
		sign: func(c *spendCtx, ht uint32) error {
			s0, err := txscript.RawTxInSignature(c.tx, c.idx, csScript, txscript.SigHashType(ht), k0.priv)
			if err != nil {
				return err
			}
			s1, err := txscript.RawTxInSignature(c.tx, c.idx, csSuffix, txscript.SigHashType(ht), k1.priv)
			if err != nil {
				return err
			}
			c.tx.TxIn[c.idx].SignatureScript = cat(push(s1), push(s0))
			return nil
		},
		ref: legacyRef(csScript, csSuffix),
	})

	// the same with OP_CHECKMULTISIG behind the separator (its script code, too,
	// starts after the last executed OP_CODESEPARATOR)
	csmSuffix := multisig(1, k1.pubC, k2.pubC)
	csmScript := cat(push(k0.pubC), []byte{opCheckSigVer, opCodeSep}, csmSuffix)
	spendKinds = append(spendKinds, &spendKind{
		name: "bare-codeseparator-multisig", pkScript: csmScript,
		flags: txscript.StandardVerifyFlags &^ txscript.ScriptVerifyConstScriptCode,
		sign: func(c *spendCtx, ht uint32) error {
			s0, err := txscript.RawTxInSignature(c.tx, c.idx, csmScript, txscript.SigHashType(ht), k0.priv)
			if err != nil {
				return err
			}
			s1, err := txscript.RawTxInSignature(c.tx, c.idx, csmSuffix, txscript.SigHashType(ht), k1.priv)
			if err != nil {
				return err
			}
			c.tx.TxIn[c.idx].SignatureScript = cat([]byte{0}, push(s1), push(s0))
			return nil
		},
		ref: legacyRef(csmScript, csmSuffix),
	})

	// ---- witness v0
	wpkh := p2wpkh(k0.h160C)
	wpkhSign := func(c *spendCtx, ht uint32) error {
		w, err := txscript.WitnessSignature(c.tx, c.sigHashes(), c.idx, c.prev[c.idx].Value, wpkh, txscript.SigHashType(ht), k0.priv, true)
		if err != nil {
			return err
		}
		c.tx.TxIn[c.idx].Witness = w
		return nil
	}
	spendKinds = append(spendKinds, &spendKind{name: "p2wpkh", pkScript: wpkh, sign: wpkhSign, ref: v0Ref(refsighash.P2WPKHScriptCode(k0.h160C))})
	spendKinds = append(spendKinds, &spendKind{name: "p2sh-p2wpkh", pkScript: p2sh(wpkh),
		sign: func(c *spendCtx, ht uint32) error {
			c.tx.TxIn[c.idx].SignatureScript = push(wpkh)
			return wpkhSign(c, ht)
		}, ref: v0Ref(refsighash.P2WPKHScriptCode(k0.h160C))})

	addWsh := func(name string, ws []byte, signers []*keyT, codes [][]byte, order func(sigs [][]byte) wire.TxWitness) {
		mk := func(name string, spk []byte, nested bool) {
			spendKinds = append(spendKinds, &spendKind{name: name, pkScript: spk,
				sign: func(c *spendCtx, ht uint32) error {
					if nested {
						c.tx.TxIn[c.idx].SignatureScript = push(p2wsh(ws))
					}
					sh := c.sigHashes()
					var sigs [][]byte
					for i, k := range signers {
						s, err := txscript.RawTxInWitnessSignature(c.tx, sh, c.idx, c.prev[c.idx].Value, codes[i], txscript.SigHashType(ht), k.priv)
						if err != nil {
							return err
						}
						sigs = append(sigs, s)
					}
					c.tx.TxIn[c.idx].Witness = append(order(sigs), ws)
					return nil
				}, ref: v0Ref(codes...)})
		}
		mk("p2wsh-"+name, p2wsh(ws), false)
		mk("p2sh-p2wsh-"+name, p2sh(p2wsh(ws)), true)
	}
	wsPk := p2pk(k0.pubC)
	addWsh("pk", wsPk, []*keyT{k0}, [][]byte{wsPk}, func(s [][]byte) wire.TxWitness { return wire.TxWitness{s[0]} })
	addWsh("multisig-2of3", ms23, []*keyT{k0, k1}, [][]byte{ms23, ms23}, func(s [][]byte) wire.TxWitness { return wire.TxWitness{{}, s[0], s[1]} })
	addWsh("codeseparator", csScript, []*keyT{k0, k1}, [][]byte{csScript, csSuffix}, func(s [][]byte) wire.TxWitness { return wire.TxWitness{s[1], s[0]} })
	addWsh("codeseparator-multisig", csmScript, []*keyT{k0, k1}, [][]byte{csmScript, csmSuffix}, func(s [][]byte) wire.TxWitness { return wire.TxWitness{{}, s[1], s[0]} })

	// ---- taproot
	internal := k2
	bip86 := p2tr(schnorr.SerializePubKey(txscript.ComputeTaprootKeyNoScript(internal.pubKey)))
	spendKinds = append(spendKinds, &spendKind{name: "p2tr-keypath-bip86", taproot: true, pkScript: bip86,
		sign: func(c *spendCtx, ht uint32) error {
			w, err := txscript.TaprootWitnessSignature(c.tx, c.sigHashes(), c.idx, c.prev[c.idx].Value, bip86, txscript.SigHashType(ht), internal.priv)
			if err != nil {
				return err
			}
			c.tx.TxIn[c.idx].Witness = w
			return nil
		}, ref: trKeyRef})

	leafA := cat(push(k1.xonly), []byte{opCheckSig})
	leafB := cat(push(k1.xonly), []byte{opCheckSigVer, op1})
	leafC := cat(push(k1.xonly), []byte{opCheckSigVer, opCodeSep}, push(k3.xonly), []byte{opCheckSig})
	t1 := mkTapTree(internal.pubKey, leafA)
	t2 := mkTapTree(internal.pubKey, leafA, leafB)
	t3 := mkTapTree(internal.pubKey, leafC, leafB)
	kindRoot = t2.root

	spendKinds = append(spendKinds, &spendKind{name: "p2tr-keypath-with-script-root", taproot: true, pkScript: t2.pkScript,
		sign: func(c *spendCtx, ht uint32) error {
			sig, err := txscript.RawTxInTaprootSignature(c.tx, c.sigHashes(), c.idx, c.prev[c.idx].Value, t2.pkScript, t2.root, txscript.SigHashType(ht), internal.priv)
			if err != nil {
				return err
			}
			c.tx.TxIn[c.idx].Witness = wire.TxWitness{sig}
			return nil
		}, ref: trKeyRef})

	scriptSign := func(t *tapTree, leaf []byte) func(c *spendCtx, ht uint32) error {
		return func(c *spendCtx, ht uint32) error {
			sig, err := txscript.RawTxInTapscriptSignature(c.tx, c.sigHashes(), c.idx, c.prev[c.idx].Value, t.pkScript, txscript.NewBaseTapLeaf(leaf), txscript.SigHashType(ht), k1.priv)
			if err != nil {
				return err
			}
			c.tx.TxIn[c.idx].Witness = wire.TxWitness{sig, leaf, t.ctrl[string(leaf)]}
			return nil
		}
	}
	spendKinds = append(spendKinds, &spendKind{name: "p2tr-scriptpath-single-leaf", taproot: true, pkScript: t1.pkScript,
		sign: scriptSign(t1, leafA), ref: trScriptRef(0xffffffff)})
	spendKinds = append(spendKinds, &spendKind{name: "p2tr-scriptpath-two-leaves", taproot: true, pkScript: t2.pkScript,
		sign: scriptSign(t2, leafA), ref: trScriptRef(0xffffffff),
		extra: []mutation{{"present-other-leaf", func(c *spendCtx) bool {
			w := c.tx.TxIn[c.idx].Witness
			c.tx.TxIn[c.idx].Witness = wire.TxWitness{w[0], leafB, t2.ctrl[string(leafB)]}
			return true
		}}}})

	// tapscript with an executed OP_CODESEPARATOR: the first signature uses
	// the helper (no separator executed yet), the second one has to commit to
	// position 2 which no helper supports: signed from the reference digest.
	spendKinds = append(spendKinds, &spendKind{name: "p2tr-scriptpath-codeseparator", taproot: true, manual: true, pkScript: t3.pkScript,
		sign: func(c *spendCtx, ht uint32) error {
			s1, err := txscript.RawTxInTapscriptSignature(c.tx, c.sigHashes(), c.idx, c.prev[c.idx].Value, t3.pkScript, txscript.NewBaseTapLeaf(leafC), txscript.SigHashType(ht), k1.priv)
			if err != nil {
				return err
			}
			c.tx.TxIn[c.idx].Witness = wire.TxWitness{nil, s1, leafC, t3.ctrl[string(leafC)]}
			ds := trScriptRef(2)(c, ht)
			s3, err := schnorrSignRef(k3.priv, ds[0], ht)
			if err != nil {
				return err
			}
			c.tx.TxIn[c.idx].Witness[0] = s3
			return nil
		}, ref: trScriptRef(0xffffffff, 2)})

	// annex: no helper supports it; sign the reference digest.
	annexMuts := []mutation{
		{"change-annex", func(c *spendCtx) bool {
			w := c.tx.TxIn[c.idx].Witness
			a := append([]byte{}, w[len(w)-1]...)
			a[len(a)-1] ^= 1
			if len(a) == 1 {
				a = append(a, 0)
			}
			w[len(w)-1] = a
			return true
		}},
		{"drop-annex", func(c *spendCtx) bool {
			w := c.tx.TxIn[c.idx].Witness
			c.tx.TxIn[c.idx].Witness = w[:len(w)-1]
			return true
		}},
	}
	annex := []byte{0x50, 0xaa, 0xbb}
	tweaked := txscript.TweakTaprootPrivKey(*internal.priv, t2.root)
	spendKinds = append(spendKinds, &spendKind{name: "p2tr-keypath-annex", taproot: true, manual: true, pkScript: t2.pkScript,
		sign: func(c *spendCtx, ht uint32) error {
			c.tx.TxIn[c.idx].Witness = wire.TxWitness{nil, annex}
			sig, err := schnorrSignRef(tweaked, trKeyRef(c, ht)[0], ht)
			if err != nil {
				return err
			}
			c.tx.TxIn[c.idx].Witness[0] = sig
			return nil
		}, ref: trKeyRef, extra: annexMuts})
	spendKinds = append(spendKinds, &spendKind{name: "p2tr-scriptpath-annex", taproot: true, manual: true, pkScript: t1.pkScript,
		sign: func(c *spendCtx, ht uint32) error {
			c.tx.TxIn[c.idx].Witness = wire.TxWitness{nil, leafA, t1.ctrl[string(leafA)], annex}
			sig, err := schnorrSignRef(k1.priv, trScriptRef(0xffffffff)(c, ht)[0], ht)
			if err != nil {
				return err
			}
			c.tx.TxIn[c.idx].Witness[0] = sig
			return nil
		}, ref: trScriptRef(0xffffffff), extra: annexMuts})
}

func kindByName(n string) *spendKind {
	for _, k := range spendKinds {
		if k.name == n {
			return k
		}
	}
	return nil
}

// ---------------------------------------------------------------- engine

type verdict struct {
	ok  bool
	err string
}

func runEngineOnce(c *spendCtx, flags txscript.ScriptFlags, sc *txscript.SigCache, withHashCache bool) (v verdict) {
	p := safely(func() {
		f := fetcherFor(c.tx, c.prev)
		var hc *txscript.TxSigHashes
		if withHashCache {
			hc = txscript.NewTxSigHashes(c.tx, f)
		}
		vm, err := txscript.NewEngine(c.prev[c.idx].PkScript, c.tx, c.idx, flags, sc, hc, c.prev[c.idx].Value, f)
		if err != nil {
			v = verdict{false, "NewEngine: " + err.Error()}
			return
		}
		if err := vm.Execute(); err != nil {
			v = verdict{false, err.Error()}
			return
		}
		v = verdict{true, ""}
	})
	if p != "" {
		v = verdict{false, "PANIC: " + p}
	}
	return
}

var engineRuns int64

// runEngine executes the spend without caches, with the shared (warmed)
// SigCache and, for non-taproot inputs, without a precomputed midstate; all
// verdicts must agree.  It returns the verdict and a non-empty complaint when
// the variants disagree or the engine panicked.
func runEngine(c *spendCtx, taproot bool, flags txscript.ScriptFlags, sigCache *txscript.SigCache) (verdict, string) {
	v1 := runEngineOnce(c, flags, nil, true)
	v2 := runEngineOnce(c, flags, sigCache, true)
	v2b := runEngineOnce(c, flags, sigCache, true)
	n := int64(3)
	complaint := ""
	if v1.ok != v2.ok || v1.ok != v2b.ok {
		complaint = fmt.Sprintf("verdict depends on the SigCache: none=%v(%s) cold/warm=%v(%s) warm=%v(%s)", v1.ok, v1.err, v2.ok, v2.err, v2b.ok, v2b.err)
	}
	// a script with k signature checks needs k warm runs before an entry wrongly
	// left in the cache by a failed check can turn the verdict (k <= 3 here)
	for i := 0; i < 2 && complaint == ""; i++ {
		vw := runEngineOnce(c, flags, sigCache, true)
		n++
		if vw.ok != v1.ok {
			complaint = fmt.Sprintf("verdict depends on the SigCache: none=%v(%s), warm run %d with the same cache=%v(%s)", v1.ok, v1.err, i+3, vw.ok, vw.err)
		}
	}
	if !taproot {
		v3 := runEngineOnce(c, flags, nil, false)
		n++
		if v3.ok != v1.ok {
			complaint = fmt.Sprintf("verdict depends on the precomputed TxSigHashes: with=%v(%s) without=%v(%s)", v1.ok, v1.err, v3.ok, v3.err)
		}
	}
	for _, v := range []verdict{v1, v2, v2b} {
		if len(v.err) >= 6 && v.err[:6] == "PANIC:" {
			complaint = "engine " + v.err
		}
	}
	atomic.AddInt64(&engineRuns, n)
	return v1, complaint
}

// ------------------------------------------------------------- mutations

func otherPrevout(otherKind, j int) refsighash.PrevOut {
	if otherKind == 1 {
		return refsighash.PrevOut{Value: int64(7000 + j), PkScript: p2tr(keys[(j+1)%len(keys)].xonly)}
	}
	return refsighash.PrevOut{Value: int64(7000 + j), PkScript: p2pkh(keys[(j+1)%len(keys)].h160C)}
}

func mutationsFor(k *spendKind, nIn, nOut, idx, otherKind int) []mutation {
	var ms []mutation
	add := func(name string, f func(c *spendCtx) bool) { ms = append(ms, mutation{name, f}) }
	add("version", func(c *spendCtx) bool { c.tx.Version++; return true })
	add("locktime", func(c *spendCtx) bool { c.tx.LockTime++; return true })
	for j := 0; j < nIn; j++ {
		j := j
		add(fmt.Sprintf("in%d.prevout-hash", j), func(c *spendCtx) bool { c.tx.TxIn[j].PreviousOutPoint.Hash[5] ^= 0x40; return true })
		add(fmt.Sprintf("in%d.prevout-index", j), func(c *spendCtx) bool { c.tx.TxIn[j].PreviousOutPoint.Index++; return true })
		add(fmt.Sprintf("in%d.sequence", j), func(c *spendCtx) bool { c.tx.TxIn[j].Sequence ^= 1; return true })
		add(fmt.Sprintf("in%d.amount", j), func(c *spendCtx) bool { c.prev[j].Value++; return true })
		if j != idx {
			add(fmt.Sprintf("in%d.pkscript", j), func(c *spendCtx) bool { s := c.prev[j].PkScript; s[len(s)-3] ^= 1; return true })
			add(fmt.Sprintf("in%d.sigscript", j), func(c *spendCtx) bool { c.tx.TxIn[j].SignatureScript = []byte{op1}; return true })
			add(fmt.Sprintf("in%d.witness", j), func(c *spendCtx) bool { c.tx.TxIn[j].Witness = wire.TxWitness{{0x01}}; return true })
			add(fmt.Sprintf("drop-in%d", j), func(c *spendCtx) bool {
				c.tx.TxIn = append(c.tx.TxIn[:j:j], c.tx.TxIn[j+1:]...)
				c.prev = append(c.prev[:j:j], c.prev[j+1:]...)
				if j < c.idx {
					c.idx--
				}
				return true
			})
		}
	}
	add("add-input", func(c *spendCtx) bool {
		c.tx.AddTxIn(&wire.TxIn{PreviousOutPoint: wire.OutPoint{Hash: prevHash(9), Index: 9}, Sequence: 0xffffffff})
		c.prev = append(c.prev, otherPrevout(otherKind, 9))
		return true
	})
	for o := 0; o < nOut; o++ {
		o := o
		add(fmt.Sprintf("out%d.value", o), func(c *spendCtx) bool { c.tx.TxOut[o].Value++; return true })
		add(fmt.Sprintf("out%d.script", o), func(c *spendCtx) bool { c.tx.TxOut[o].PkScript = append(c.tx.TxOut[o].PkScript, opNop); return true })
	}
	add("add-output", func(c *spendCtx) bool { c.tx.AddTxOut(&wire.TxOut{Value: 1, PkScript: []byte{op1}}); return true })
	if nOut > 0 {
		add("drop-last-output", func(c *spendCtx) bool { c.tx.TxOut = c.tx.TxOut[:len(c.tx.TxOut)-1]; return true })
	}
	if nOut >= 2 {
		add("swap-outputs-0-1", func(c *spendCtx) bool { c.tx.TxOut[0], c.tx.TxOut[1] = c.tx.TxOut[1], c.tx.TxOut[0]; return true })
	}
	if k.taproot {
		add("add-annex", func(c *spendCtx) bool {
			w := c.tx.TxIn[c.idx].Witness
			if _, a := splitAnnex(w); a != nil {
				return false
			}
			c.tx.TxIn[c.idx].Witness = append(append(wire.TxWitness{}, w...), []byte{0x50})
			return true
		})
	}
	return append(ms, k.extra...)
}

// SignCase identifies one signer / commitment case (replay object).
type SignCase struct {
	Kind      string `json:"kind"` // "sign"
	Spend     string `json:"spend"`
	NIn       int    `json:"nin"`
	NOut      int    `json:"nout"`
	Idx       int    `json:"idx"`
	OtherKind int    `json:"other_kind"`
	HashType  uint32 `json:"hash_type"`
	Mutation  string `json:"mutation"` // "" = the signed transaction itself
}

func (c SignCase) key() string {
	m := c.Mutation
	if m == "" {
		m = "signed"
	}
	return fmt.Sprintf("sign/%s/in%d/out%d/idx%d/others%d/ht%#x/%s", c.Spend, c.NIn, c.NOut, c.Idx, c.OtherKind, c.HashType, m)
}

func baseCtx(k *spendKind, nIn, nOut, idx, otherKind int) *spendCtx {
	tx := buildTx(Shape{NIn: nIn, NOut: nOut, Version: 2, LockTime: 0, Seq: 2})
	prev := make([]refsighash.PrevOut, nIn)
	for j := range prev {
		if j == idx {
			prev[j] = refsighash.PrevOut{Value: 1_0000_0000 + int64(j), PkScript: append([]byte{}, k.pkScript...)}
		} else {
			prev[j] = otherPrevout(otherKind, j)
		}
	}
	return &spendCtx{tx: tx, idx: idx, prev: prev}
}

// signResult: outcome of signing the base transaction.
type signResult struct {
	ctx      *spendCtx
	refs     []string
	signErr  error
	refErr   bool
	signPan  string
	complain string
}

func signBase(k *spendKind, nIn, nOut, idx, otherKind int, ht uint32) signResult {
	c := baseCtx(k, nIn, nOut, idx, otherKind)
	var res signResult
	res.signPan = safely(func() { res.signErr = k.sign(c, ht) })
	res.ctx = c
	res.refs = k.ref(c, ht)
	for _, d := range res.refs {
		if len(d) != 64 {
			res.refErr = true
		}
	}
	return res
}

// evalSignCase evaluates one case; "" means the property held.
// When onlyMutation is "*", all mutations are evaluated and reported through f.
func evalSignCase(sc SignCase) string {
	k := kindByName(sc.Spend)
	if k == nil {
		return ""
	}
	res := signBase(k, sc.NIn, sc.NOut, sc.Idx, sc.OtherKind, sc.HashType)
	if res.signPan != "" {
		return "signing helper panicked: " + res.signPan
	}
	if res.refErr {
		// the specification has no digest for this (taproot SIGHASH_SINGLE
		// without matching output): the helper must refuse to sign.
		if res.signErr == nil {
			return fmt.Sprintf("helper produced a signature although the specification defines no digest (%v)", res.refs)
		}
		return ""
	}
	if res.signErr != nil {
		return "signing helper failed: " + res.signErr.Error()
	}
	base := res.ctx
	// one SigCache per signed spend: cold for the first execution of the
	// signed transaction, warm for the second one and for every mutation.
	cache := txscript.NewSigCache(1000)
	v, complaint := runEngine(base, k.taproot, k.vflags(), cache)
	if sc.Mutation == "" {
		if complaint != "" {
			return complaint
		}
		if !v.ok {
			return fmt.Sprintf("helper-signed input does not verify under the standard flags: %s (reference digests %v)", v.err, res.refs)
		}
		return ""
	}
	for _, m := range mutationsFor(k, sc.NIn, sc.NOut, sc.Idx, sc.OtherKind) {
		if m.name != sc.Mutation {
			continue
		}
		mc := base.clone()
		if !m.apply(mc) {
			return ""
		}
		mrefs := k.ref(mc, sc.HashType)
		committed := !reflect.DeepEqual(mrefs, res.refs)
		v, complaint := runEngine(mc, k.taproot, k.vflags(), cache)
		if complaint != "" {
			return "after mutating " + m.name + ": " + complaint
		}
		if committed && v.ok {
			return fmt.Sprintf("signature still verifies after mutating %s although hash type %#x commits to it (reference digest %v -> %v)", m.name, sc.HashType, res.refs, mrefs)
		}
		if !committed && !v.ok {
			return fmt.Sprintf("signature fails (%s) after mutating %s although hash type %#x does not commit to it (reference digest unchanged %v)", v.err, m.name, sc.HashType, res.refs)
		}
		return ""
	}
	return ""
}

type signShape struct{ nIn, nOut int }

func runSigners(r *ev.Run) {
	initSpendKinds()
	var shapes []signShape
	if r.Thorough() {
		for i := 1; i <= 3; i++ {
			for o := 0; o <= 3; o++ {
				shapes = append(shapes, signShape{i, o})
			}
		}
	} else {
		shapes = []signShape{{1, 1}, {2, 2}, {3, 2}, {2, 1}}
	}
	type item struct {
		k          *spendKind
		s          signShape
		idx, other int
	}
	var items []item
	for _, k := range spendKinds {
		for _, s := range shapes {
			for idx := 0; idx < s.nIn; idx++ {
				for other := 0; other < 2; other++ {
					if s.nIn == 1 && other == 1 {
						continue
					}
					items = append(items, item{k, s, idx, other})
				}
			}
		}
	}
	var nSigned, nSignErrExpected, nMut, nCommitted, nUncommitted int64
	ev.Par(len(items), workers, func(i int) {
		it := items[i]
		hts := []uint32{1, 2, 3, 0x81, 0x82, 0x83}
		if it.k.taproot {
			hts = append([]uint32{0}, hts...)
		}
		for _, ht := range hts {
			sc := SignCase{Kind: "sign", Spend: it.k.name, NIn: it.s.nIn, NOut: it.s.nOut, Idx: it.idx, OtherKind: it.other, HashType: ht}
			r.Eval(1)
			r.Trace(1)
			r.Nontrivial(sc.key())
			if i%97 == 0 && ht == 0x83 {
				r.Sample(sc)
			}
			// signed tx itself
			res := signBase(it.k, it.s.nIn, it.s.nOut, it.idx, it.other, ht)
			cache := txscript.NewSigCache(1000)
			bad := res.signPan != "" || (res.signErr != nil) != res.refErr
			if !bad && !res.refErr {
				v, complaint := runEngine(res.ctx, it.k.taproot, it.k.vflags(), cache)
				bad = complaint != "" || !v.ok
			}
			if bad {
				w := evalSignCase(sc)
				if w == "" {
					r.Broken("signer verdict of %s not reproducible", sc.key())
				}
				report(r, "sign", sc.key(), w, sc, func() string { return evalSignCase(sc) })
				continue
			}
			if res.refErr {
				atomic.AddInt64(&nSignErrExpected, 1)
				continue
			}
			atomic.AddInt64(&nSigned, 1)
			for _, m := range mutationsFor(it.k, it.s.nIn, it.s.nOut, it.idx, it.other) {
				mc := res.ctx.clone()
				if !m.apply(mc) {
					continue
				}
				msc := sc
				msc.Mutation = m.name
				r.Eval(1)
				r.Trace(1)
				r.Nontrivial(msc.key())
				atomic.AddInt64(&nMut, 1)
				mrefs := it.k.ref(mc, ht)
				committed := !reflect.DeepEqual(mrefs, res.refs)
				if committed {
					atomic.AddInt64(&nCommitted, 1)
				} else {
					atomic.AddInt64(&nUncommitted, 1)
				}
				// every mutation gets a cache of its own, warmed by the signed
				// transaction only (as evalSignCase does): what one mutation
				// leaves in the cache cannot influence the next one
				mcache := txscript.NewSigCache(1000)
				runEngineOnce(res.ctx, it.k.vflags(), mcache, true)
				v, complaint := runEngine(mc, it.k.taproot, it.k.vflags(), mcache)
				if complaint != "" || committed == v.ok {
					w := evalSignCase(msc)
					if w == "" {
						r.Broken("commitment verdict of %s not reproducible", msc.key())
					}
					report(r, "commit", msc.key(), w, msc, func() string { return evalSignCase(msc) })
				}
			}
		}
	})
	var names []string
	for _, k := range spendKinds {
		n := k.name
		if k.manual {
			n += " (signed from the reference digest: no helper supports annex / codesep position)"
		}
		names = append(names, n)
	}
	r.Add("signed_spends_verified", nSigned)
	r.Add("signer_refusals_expected_no_digest_defined", nSignErrExpected)
	r.Add("commitment_mutations", nMut)
	r.Add("commitment_mutations_committed_must_fail", nCommitted)
	r.Add("commitment_mutations_uncommitted_must_verify", nUncommitted)
	r.Set("spend_kinds", names)
	var ss []string
	for _, s := range shapes {
		ss = append(ss, fmt.Sprintf("%din/%dout", s.nIn, s.nOut))
	}
	r.Set("signing_shapes", ss)
	r.Set("signing_hash_types", "ECDSA kinds {1,2,3,0x81,0x82,0x83}; taproot kinds additionally 0 (SIGHASH_DEFAULT)")
	r.Set("other_input_kinds", "other inputs spend {P2PKH, P2TR} outputs")
}
