package main

import (
	"fmt"

	"github.com/btcsuite/btcd/txscript/v2"
	"github.com/btcsuite/btcd/wire/v2"

	"verif/engine/ev"
	"verif/ref/refsighash"
)

// consensusFlags: no STRICTENC / DERSIG hash type policing, so that undefined
// legacy / BIP143 hash types reach the digest code as they do in block
// validation.
const consensusFlags = txscript.ScriptBip16 | txscript.ScriptVerifyWitness | txscript.ScriptVerifyTaproot

// ExtraCase is the replay object of the engine-level extra checks.
type ExtraCase struct {
	Kind     string `json:"kind"` // "extra"
	Sub      string `json:"sub"`
	NIn      int    `json:"nin"`
	NOut     int    `json:"nout"`
	Idx      int    `json:"idx"`
	HashType uint32 `json:"hash_type"`
	Variant  int    `json:"variant"`
}

func (c ExtraCase) key() string {
	return fmt.Sprintf("extra/%s/in%d/out%d/idx%d/ht%#x/v%d", c.Sub, c.NIn, c.NOut, c.Idx, c.HashType, c.Variant)
}

func extraCtx(pk []byte, nIn, nOut, idx int) *spendCtx {
	return baseCtx(&spendKind{pkScript: pk}, nIn, nOut, idx, idx%2)
}

func expectEngine(c *spendCtx, taproot bool, flags txscript.ScriptFlags, want bool, what string) string {
	v, complaint := runEngine(c, taproot, flags, txscript.NewSigCache(100))
	if complaint != "" {
		return what + ": " + complaint
	}
	if v.ok != want {
		return fmt.Sprintf("%s: engine verdict ok=%v (%s), want ok=%v", what, v.ok, v.err, want)
	}
	return ""
}

func evalExtraCase(e ExtraCase) string {
	k0, k1, k2, k3 := keys[0], keys[1], keys[2], keys[3]
	ht := e.HashType
	switch e.Sub {
	// every one-byte hash type, legacy: RawTxInSignature -> reference digest and engine
	case "alltypes-legacy":
		pk := p2pkh(k0.h160C)
		c := extraCtx(pk, e.NIn, e.NOut, e.Idx)
		sig, err := txscript.RawTxInSignature(c.tx, c.idx, pk, txscript.SigHashType(ht), k0.priv)
		if err != nil {
			return "RawTxInSignature failed: " + err.Error()
		}
		if sig[len(sig)-1] != byte(ht) {
			return fmt.Sprintf("RawTxInSignature appended hash type byte %#x, want %#x", sig[len(sig)-1], byte(ht))
		}
		if !ecdsaOK(sig[:len(sig)-1], k0.pubC, refsighash.Legacy(pk, ht, c.tx, c.idx)) {
			return "RawTxInSignature signature does not verify against the reference legacy digest"
		}
		c.tx.TxIn[c.idx].SignatureScript = cat(push(sig), push(k0.pubC))
		return expectEngine(c, false, consensusFlags, true, "P2PKH spend with (possibly undefined) hash type under consensus flags")
	case "alltypes-v0":
		pk := p2wpkh(k0.h160C)
		c := extraCtx(pk, e.NIn, e.NOut, e.Idx)
		sig, err := txscript.RawTxInWitnessSignature(c.tx, c.sigHashes(), c.idx, c.prev[c.idx].Value, pk, txscript.SigHashType(ht), k0.priv)
		if err != nil {
			return "RawTxInWitnessSignature failed: " + err.Error()
		}
		if sig[len(sig)-1] != byte(ht) {
			return fmt.Sprintf("RawTxInWitnessSignature appended hash type byte %#x, want %#x", sig[len(sig)-1], byte(ht))
		}
		if !ecdsaOK(sig[:len(sig)-1], k0.pubC, refsighash.WitnessV0(refsighash.P2WPKHScriptCode(k0.h160C), ht, c.tx, c.idx, c.prev[c.idx].Value)) {
			return "RawTxInWitnessSignature signature does not verify against the reference BIP143 digest"
		}
		c.tx.TxIn[c.idx].Witness = wire.TxWitness{sig, k0.pubC}
		return expectEngine(c, false, consensusFlags, true, "P2WPKH spend with (possibly undefined) hash type under consensus flags")
	case "alltypes-taproot":
		kind := kindByName("p2tr-keypath-bip86")
		c := baseCtx(kind, e.NIn, e.NOut, e.Idx, e.Idx%2)
		_, refErr := refsighash.Taproot(c.tx, c.idx, ht, c.prev, nil, nil)
		var serr error
		if p := safely(func() { serr = kind.sign(c, ht) }); p != "" {
			return "TaprootWitnessSignature panicked: " + p
		}
		if refErr != nil {
			if serr == nil {
				return fmt.Sprintf("TaprootWitnessSignature signed with hash type %#x for which BIP341 defines no digest (%v)", ht, refErr)
			}
			// forge: valid SIGHASH_ALL signature relabelled with this hash type byte.
			if kind.sign(c, 1) != nil {
				return "cannot sign SIGHASH_ALL"
			}
			w := c.tx.TxIn[c.idx].Witness
			w[0][64] = byte(ht)
			if ht > 0xff {
				return ""
			}
			return expectEngine(c, true, consensusFlags, false, "taproot key path signature carrying an undefined hash type byte")
		}
		if serr != nil {
			return "TaprootWitnessSignature failed: " + serr.Error()
		}
		d, _ := refsighash.Taproot(c.tx, c.idx, ht, c.prev, nil, nil)
		w := c.tx.TxIn[c.idx].Witness
		if !schnorrOK(w[0][:64], kind.pkScript[2:], d) {
			return "TaprootWitnessSignature signature does not verify against the reference BIP341 digest"
		}
		if (ht == 0) != (len(w[0]) == 64) {
			return fmt.Sprintf("signature length %d for hash type %#x", len(w[0]), ht)
		}
		if w := expectEngine(c, true, consensusFlags, true, "taproot key path spend"); w != "" {
			return w
		}
		if ht == 0 {
			// explicit 0x00 byte must be rejected
			c.tx.TxIn[c.idx].Witness = wire.TxWitness{append(append([]byte{}, w[0]...), 0x00)}
			return expectEngine(c, true, consensusFlags, false, "65-byte taproot signature with explicit 0x00 hash type")
		}
		return ""

	// FindAndDelete: the signature push inside the executed script is removed
	// before hashing (canonical push), and is NOT removed when pushed
	// non-canonically.
	case "find-and-delete":
		code := p2pk(k0.pubC)
		c := extraCtx(code, e.NIn, e.NOut, e.Idx)
		sig, err := txscript.RawTxInSignature(c.tx, c.idx, code, txscript.SigHashType(ht), k0.priv)
		if err != nil {
			return "RawTxInSignature failed: " + err.Error()
		}
		switch e.Variant {
		case 0: // canonical push inside scriptPubKey: removed -> verifies
			c.prev[c.idx].PkScript = cat(push(sig), code)
			return expectEngine(c, false, txscript.ScriptBip16, true, "signature pushed canonically inside the script code (FindAndDelete applies)")
		case 1: // OP_PUSHDATA1 push: not removed -> digest covers the signature -> fails
			full := cat([]byte{0x4c, byte(len(sig))}, sig, code)
			c.prev[c.idx].PkScript = full
			// fails unless the digest does not depend on the script code at all
			// (SIGHASH_SINGLE out-of-range digest "one")
			want := refsighash.Legacy(full, ht, c.tx, c.idx) == refsighash.Legacy(code, ht, c.tx, c.idx)
			return expectEngine(c, false, txscript.ScriptBip16, want, "signature pushed with OP_PUSHDATA1 inside the script code (FindAndDelete must not apply)")
		default: // a different signature-like push is not removed: commit check
			other, _ := txscript.RawTxInSignature(c.tx, c.idx, code, txscript.SigHashType(ht), k1.priv)
			full := cat(push(other), []byte{0x75}, code)
			sig2, err := txscript.RawTxInSignature(c.tx, c.idx, full, txscript.SigHashType(ht), k0.priv)
			if err != nil {
				return err.Error()
			}
			c.prev[c.idx].PkScript = full
			c.tx.TxIn[c.idx].SignatureScript = push(sig2)
			return expectEngine(c, false, txscript.ScriptBip16, true, "unrelated signature-like push stays in the script code")
		}

	// tapscript: the second signature must commit to code separator position 2
	// and to ext_flag 1.
	case "codesep-position":
		kind := kindByName("p2tr-scriptpath-codeseparator")
		c := baseCtx(kind, e.NIn, e.NOut, e.Idx, e.Idx%2)
		if err := kind.sign(c, ht); err != nil {
			if _, rerr := refsighash.Taproot(c.tx, c.idx, ht, c.prev, nil, nil); rerr != nil {
				return ""
			}
			return "signing failed: " + err.Error()
		}
		positions := []uint32{2, 0xffffffff, 0, 1, 3}
		pos := positions[e.Variant%len(positions)]
		var d string
		if e.Variant >= len(positions) {
			// key path digest (ext_flag 0) used inside a script path spend
			d = trKeyRef(c, ht)[0]
		} else {
			d = trScriptRef(pos)(c, ht)[0]
		}
		s3, err := schnorrSignRef(k3.priv, d, ht)
		if err != nil {
			return ""
		}
		c.tx.TxIn[c.idx].Witness[0] = s3
		want := e.Variant == 0
		return expectEngine(c, true, txscript.StandardVerifyFlags, want, fmt.Sprintf("tapscript signature after OP_CODESEPARATOR signed for position %#x / variant %d", pos, e.Variant))

	// key path spend signed with the tapscript digest must fail
	case "extflag-keypath":
		kind := kindByName("p2tr-keypath-with-script-root")
		c := baseCtx(kind, e.NIn, e.NOut, e.Idx, e.Idx%2)
		if err := kind.sign(c, ht); err != nil {
			return ""
		}
		leaf := refsighash.TapLeafHash(0xc0, cat(push(k1.xonly), []byte{opCheckSig}))
		d, err := refsighash.Taproot(c.tx, c.idx, ht, c.prev, nil, &refsighash.TapscriptExt{LeafHash: leaf, CodeSepPos: 0xffffffff})
		if err != nil {
			return ""
		}
		t2root := kindRoot
		tweaked := txscript.TweakTaprootPrivKey(*k2.priv, t2root)
		sig, err := schnorrSignRef(tweaked, hx(d[:]), ht)
		if err != nil {
			return ""
		}
		c.tx.TxIn[c.idx].Witness = wire.TxWitness{sig}
		return expectEngine(c, true, txscript.StandardVerifyFlags, false, "taproot key path spend signed with the ext_flag=1 digest")
	}
	return ""
}

var kindRoot []byte

func runExtras(r *ev.Run) {
	hts := boundaryHashTypes
	if r.Thorough() {
		hts = nil
		for i := 0; i < 256; i++ {
			hts = append(hts, uint32(i))
		}
	}
	shapes := []signShape{{2, 2}, {2, 1}, {1, 0}}
	var cases []ExtraCase
	for _, s := range shapes {
		for idx := 0; idx < s.nIn; idx++ {
			for _, ht := range hts {
				for _, sub := range []string{"alltypes-legacy", "alltypes-v0", "alltypes-taproot"} {
					cases = append(cases, ExtraCase{"extra", sub, s.nIn, s.nOut, idx, ht, 0})
				}
			}
			for _, ht := range []uint32{1, 2, 3, 0x81, 0x82, 0x83} {
				for v := 0; v < 3; v++ {
					cases = append(cases, ExtraCase{"extra", "find-and-delete", s.nIn, s.nOut, idx, ht, v})
				}
			}
			for _, ht := range []uint32{0, 1, 2, 3, 0x81, 0x82, 0x83} {
				for v := 0; v < 6; v++ {
					cases = append(cases, ExtraCase{"extra", "codesep-position", s.nIn, s.nOut, idx, ht, v})
				}
				cases = append(cases, ExtraCase{"extra", "extflag-keypath", s.nIn, s.nOut, idx, ht, 0})
			}
		}
	}
	ev.Par(len(cases), workers, func(i int) {
		c := cases[i]
		r.Eval(1)
		r.Trace(1)
		r.Nontrivial(c.key())
		if w := evalExtraCase(c); w != "" {
			report(r, "extra", c.key(), w, c, func() string { return evalExtraCase(c) })
		}
	})
	r.Add("engine_level_extra_cases", int64(len(cases)))
	r.Set("extra_checks", []string{
		"alltypes-{legacy,v0,taproot}: every one-byte hash type of the tier's alphabet signed by RawTxInSignature / RawTxInWitnessSignature / TaprootWitnessSignature, signature checked against the reference digest and executed by the engine under consensus flags (undefined taproot types: helper must refuse, forged type byte must fail, explicit 0x00 must fail)",
		"find-and-delete: signature pushed inside the script code canonically (removed) / via OP_PUSHDATA1 (not removed) / unrelated signature push (kept)",
		"codesep-position: tapscript signature after an executed OP_CODESEPARATOR verifies only for position 2 and ext_flag 1",
		"extflag-keypath: key path spend signed with the tapscript digest fails",
	})
}
