package main

import (
	"bytes"
	"crypto/sha256"
	"encoding/hex"
	"fmt"

	"github.com/btcsuite/btcd/address/v2"
	"github.com/btcsuite/btcd/btcec/v2"
	"github.com/btcsuite/btcd/btcec/v2/schnorr"
	"github.com/btcsuite/btcd/chainhash/v2"
	"github.com/btcsuite/btcd/txscript/v2"
	"github.com/btcsuite/btcd/wire/v2"

	"verif/ref/refsighash"
)

// ---------------------------------------------------------------- fixed keys

type keyT struct {
	priv   *btcec.PrivateKey
	pubC   []byte // compressed
	pubU   []byte // uncompressed
	xonly  []byte
	h160C  []byte
	h160U  []byte
	pubKey *btcec.PublicKey
}

var keys []*keyT

func initKeys() {
	for i := 0; i < 4; i++ {
		seed := sha256.Sum256([]byte(fmt.Sprintf("verif-c07-fixed-key-%d", i)))
		priv, pub := btcec.PrivKeyFromBytes(seed[:])
		k := &keyT{priv: priv, pubKey: pub}
		k.pubC = pub.SerializeCompressed()
		k.pubU = pub.SerializeUncompressed()
		k.xonly = schnorr.SerializePubKey(pub)
		k.h160C = address.Hash160(k.pubC)
		k.h160U = address.Hash160(k.pubU)
		keys = append(keys, k)
	}
}

// ------------------------------------------------------------ script pieces

func push(data []byte) []byte {
	n := len(data)
	switch {
	case n <= 75:
		return append([]byte{byte(n)}, data...)
	case n <= 255:
		return append([]byte{0x4c, byte(n)}, data...)
	default:
		return append([]byte{0x4d, byte(n), byte(n >> 8)}, data...)
	}
}

func cat(parts ...[]byte) []byte {
	var b []byte
	for _, p := range parts {
		b = append(b, p...)
	}
	return b
}

const (
	opDup         = 0x76
	opHash160     = 0xa9
	opEqual       = 0x87
	opEqualVerify = 0x88
	opCheckSig    = 0xac
	opCheckSigVer = 0xad
	opCheckMulti  = 0xae
	opCodeSep     = 0xab
	op1           = 0x51
	op2           = 0x52
	op3           = 0x53
	opNop         = 0x61
)

func p2pkh(h []byte) []byte {
	return cat([]byte{opDup, opHash160}, push(h), []byte{opEqualVerify, opCheckSig})
}
func p2pk(pk []byte) []byte { return cat(push(pk), []byte{opCheckSig}) }
func p2sh(script []byte) []byte {
	return cat([]byte{opHash160}, push(address.Hash160(script)), []byte{opEqual})
}
func p2wpkh(h []byte) []byte { return cat([]byte{0x00}, push(h)) }
func p2wsh(script []byte) []byte {
	h := sha256.Sum256(script)
	return cat([]byte{0x00}, push(h[:]))
}
func p2tr(x []byte) []byte { return cat([]byte{0x51}, push(x)) }
func multisig(m int, pks ...[]byte) []byte {
	b := []byte{byte(0x50 + m)}
	for _, pk := range pks {
		b = append(b, push(pk)...)
	}
	return append(b, byte(0x50+len(pks)), opCheckMulti)
}

func isP2TR(s []byte) bool   { return len(s) == 34 && s[0] == 0x51 && s[1] == 0x20 }
func isP2WPKH(s []byte) bool { return len(s) == 22 && s[0] == 0x00 && s[1] == 0x14 }
func isP2WSH(s []byte) bool  { return len(s) == 34 && s[0] == 0x00 && s[1] == 0x20 }
func isP2SH(s []byte) bool {
	return len(s) == 23 && s[0] == opHash160 && s[1] == 0x14 && s[22] == opEqual
}

// ------------------------------------------------------------------ tx shape

// Shape describes one enumerated transaction skeleton.
type Shape struct {
	NIn      int    `json:"nin"`
	NOut     int    `json:"nout"`
	Version  int32  `json:"version"`
	LockTime uint32 `json:"locktime"`
	Seq      int    `json:"seq"`     // 0 all final, 1 all zero, 2 distinct
	Garnish  bool   `json:"garnish"` // inputs carry signature scripts and witnesses
}

func (s Shape) String() string {
	return fmt.Sprintf("in%d/out%d/v%d/lt%d/seq%d/g%v", s.NIn, s.NOut, s.Version, s.LockTime, s.Seq, s.Garnish)
}

func prevHash(i int) chainhash.Hash {
	return chainhash.Hash(sha256.Sum256([]byte(fmt.Sprintf("verif-c07-prevout-%d", i))))
}

var outValues = []int64{100_000, 2_100_000_000_000_000, 0, 546}

func outScript(j int) []byte {
	switch j {
	case 0:
		return p2pkh(bytes.Repeat([]byte{0x11}, 20))
	case 1:
		return []byte{} // empty script: boundary
	case 2:
		return []byte{0x6a, 0x02, 0xab, 0xcd}
	default:
		return p2wpkh(bytes.Repeat([]byte{0x22}, 20))
	}
}

func buildTx(s Shape) *wire.MsgTx {
	tx := wire.NewMsgTx(s.Version)
	tx.LockTime = s.LockTime
	for i := 0; i < s.NIn; i++ {
		in := &wire.TxIn{PreviousOutPoint: wire.OutPoint{Hash: prevHash(i), Index: uint32(2*i + 1)}}
		switch s.Seq {
		case 0:
			in.Sequence = 0xffffffff
		case 1:
			in.Sequence = 0
		default:
			in.Sequence = 0xfffffff0 + uint32(i)
		}
		if s.Garnish {
			in.SignatureScript = []byte{0x02, 0xab, byte(i), opNop}
			in.Witness = wire.TxWitness{{0x30, byte(i)}, {}}
		}
		tx.AddTxIn(in)
	}
	for j := 0; j < s.NOut; j++ {
		tx.AddTxOut(&wire.TxOut{Value: outValues[j], PkScript: outScript(j)})
	}
	return tx
}

func copyTx(tx *wire.MsgTx) *wire.MsgTx { return tx.Copy() }

func copyPrev(p []refsighash.PrevOut) []refsighash.PrevOut {
	q := make([]refsighash.PrevOut, len(p))
	for i := range p {
		q[i] = refsighash.PrevOut{Value: p[i].Value, PkScript: append([]byte{}, p[i].PkScript...)}
	}
	return q
}

func fetcherFor(tx *wire.MsgTx, prev []refsighash.PrevOut) *txscript.MultiPrevOutFetcher {
	f := txscript.NewMultiPrevOutFetcher(nil)
	for i, in := range tx.TxIn {
		f.AddPrevOut(in.PreviousOutPoint, &wire.TxOut{Value: prev[i].Value, PkScript: prev[i].PkScript})
	}
	return f
}

func hx(b []byte) string { return hex.EncodeToString(b) }

// safely runs f converting a panic into an error string.
func safely(f func()) (panicked string) {
	defer func() {
		if e := recover(); e != nil {
			panicked = fmt.Sprint(e)
		}
	}()
	f()
	return ""
}

var amounts = []int64{0, 1, 2_100_000_000_000_000}

// hash type alphabets
var boundaryHashTypes = []uint32{0, 1, 2, 3, 4, 0x1f, 0x20, 0x41, 0x7f, 0x80, 0x81, 0x82, 0x83, 0x84, 0xc1, 0xff}
var wideHashTypes = []uint32{0x100, 0x101, 0x00000203, 0x80000001, 0xffffff03, 0x12345682, 0x7fffff83, 0xffffffff}

func hashTypeAlphabet(thorough bool) []uint32 {
	var r []uint32
	if thorough {
		for i := 0; i < 256; i++ {
			r = append(r, uint32(i))
		}
	} else {
		r = append(r, boundaryHashTypes...)
	}
	return append(r, wideHashTypes...)
}
