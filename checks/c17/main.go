// C17 — block-index queries and headers-first tracking are exact on any block tree.
//
// Part (a), index-only (hook blockchain/verif_c17_export.go): every rooted tree
// shape up to N nodes is built as a real block index (newBlockNode, so the
// skip-list pointers are the real ones), every node is taken as active tip and
// as best-header tip, and every block-node / chain-view / locator / inventory
// query is compared with naive parent-pointer walks (verif/ref/c17tree).  A deep
// family (trunk + two linear branches) exercises the skip list and the
// exponential part of block locators.
//
// Part (b), headers-first on real chains (verif/lab): for every tree shape with
// up to K blocks, optionally one of them invalid, explicit-state BFS over every
// interleaving of header deliveries (ProcessBlockHeader) and block deliveries
// (ProcessBlock) in headers-first order; after every event the best-header view
// and its queries are compared with a naive model and the active chain with a
// blocks-only delivery of the same blocks in the same order.
package main

import (
	"fmt"
	"os"
	"runtime"
	"sync/atomic"
	"runtime/debug"
	"runtime/pprof"
	"sort"
	"strings"
	"sync"
	"time"

	"verif/engine/ev"
	"verif/ref/c17tree"
)

type replayObj struct {
	Part    string   `json:"part"` // "a" | "deep" | "b"
	Parents []int    `json:"parents,omitempty"`
	F       int      `json:"fork_height,omitempty"`
	L       int      `json:"branch_len,omitempty"`
	Invalid int      `json:"invalid_node,omitempty"`
	Heavy   []bool   `json:"heavy,omitempty"` // mixed-difficulty world (part b)
	Hist    []string `json:"hist,omitempty"`
	Fn      string   `json:"fn,omitempty"`
	Know    string   `json:"knowledge,omitempty"` // part "binv": per node n/h/b
	HdrFst  bool     `json:"headers_first,omitempty"`
	X       int      `json:"invalidated_node,omitempty"`
}

type finding struct {
	ord, key, what string
	rp             replayObj
}

type collector struct {
	mu sync.Mutex
	m  map[string]*finding
}

func (c *collector) add(key, ord, what string, rp replayObj) {
	c.mu.Lock()
	defer c.mu.Unlock()
	if f, ok := c.m[key]; !ok || ord < f.ord {
		c.m[key] = &finding{ord, key, what, rp}
	}
}

func (c *collector) sorted() []*finding {
	var out []*finding
	for _, f := range c.m {
		out = append(out, f)
	}
	sort.Slice(out, func(i, j int) bool { return out[i].key < out[j].key })
	return out
}

// failing re-runs the case described by rp and returns the failing keys with
// their descriptions.
func failing(rp replayObj) map[string]string {
	out := map[string]string{}
	var mu sync.Mutex
	rep := func(prefix string) func(fn, what string) {
		return func(fn, what string) {
			mu.Lock()
			if _, ok := out[prefix+fn]; !ok {
				out[prefix+fn] = what
			}
			mu.Unlock()
		}
	}
	switch rp.Part {
	case "a":
		runShape(rp.Parents, rep("a/"))
	case "deep":
		runDepth(rp.F, rp.L, rep("a-deep/"))
	case "binv":
		for k, v := range runInv(rp.Parents, rp.Know, rp.HdrFst, rp.X) {
			out[k] = v
		}
	case "b":
		w := newBWorld(rp.Parents, rp.Invalid)
		if rp.Heavy != nil {
			w = newBWorldHeavy(rp.Parents, rp.Heavy)
		}
		var h []int
		for _, n := range rp.Hist {
			h = append(h, evParse(n))
		}
		for _, f := range runHistB(w, h) {
			kv := strings.SplitN(f, "|", 2)
			if _, ok := out[kv[0]]; !ok {
				out[kv[0]] = kv[1]
			}
		}
	}
	return out
}

func markedCanon(parents []int, mark int) string {
	n := len(parents)
	kids := make([][]int, n)
	for i := 1; i < n; i++ {
		kids[parents[i]] = append(kids[parents[i]], i)
	}
	var enc func(x int) string
	enc = func(x int) string {
		parts := make([]string, 0, len(kids[x]))
		for _, c := range kids[x] {
			parts = append(parts, enc(c))
		}
		sort.Strings(parts)
		m := ""
		if x == mark {
			m = "*"
		}
		return "(" + m + strings.Join(parts, "") + ")"
	}
	return enc(0)
}

func histNames(h []int) []string {
	out := make([]string, len(h))
	for i, e := range h {
		out[i] = evName(e)
	}
	return out
}

func main() {
	if pf := os.Getenv("C17_CPUPROF"); pf != "" { // development aid
		f, _ := os.Create(pf)
		pprof.StartCPUProfile(f)
		defer pprof.StopCPUProfile()
	}
	r := ev.Start("C17")
	r.Rule("(a) every rooted tree shape (all parent vectors p[i]<i, one per AHU isomorphism class) up to N nodes built as a real block index; every node as active tip x every node as best-header tip; per (shape,tip) every query listed in bounds is compared with a naive parent walk; a case is distinct/non-trivial by (shape canonical form, active tip) with at least 2 nodes; plus trunk+two-linear-branch trees (every fork height <= F, every pair of branch prefixes <= L). (b) explicit-state BFS over all interleavings of header and block deliveries (header before own block, parents before children, headers optional) for every tree shape with <= K blocks x {no invalid block, each node invalid up to symmetry} on real chains; distinct = canonical state (delivered sets, best header, active tip, node statuses, blocks-only reference state)")
	r.Assume("node hashes are collision free (checked per instance)")
	r.Assume("(b) every lab block carries the same work (regtest bits), so cumulative work is strictly monotone in height and ties are exactly equal heights")
	r.Assume("(b) 'known to be invalid' is what the block index itself has flagged (statusValidateFailed/statusInvalidAncestor read through VerifNodeStatus); the oracle only demands the consequences (refusal of descendants' headers, IsValidHeader) and that no valid block is ever flagged")
	r.Assume("(b) the blocks-only reference delivery runs on the real chain as well (the property is an equivalence of two real executions)")

	if err := c17tree.SelfTest(); err != nil {
		r.Broken("reference model disagrees with vectors shipped in btcd: %v", err)
	}
	for n := 1; n <= 8; n++ {
		if got := len(allShapes(n)); got != knownShapeCounts[n] {
			r.Broken("tree enumerator yields %d shapes on %d nodes, A000081 says %d", got, n, knownShapeCounts[n])
		}
	}

	if r.ReplayPath != "" {
		var rp replayObj
		r.LoadReplay(&rp)
		for k, what := range failing(rp) {
			if rp.Fn == "" || rp.Fn == k {
				r.Violation(k, what, rp)
			}
		}
		r.Eval(1)
		r.Finish(false)
	}

	thorough := r.Thorough()
	N := r.Pick(8, 10)                    // nodes per tree, part (a)
	F := r.Pick(20, 30)                   // fork heights, deep family
	L := r.Pick(70, 130)                  // branch lengths, deep family
	K := r.Pick(4, 5)                     // non-genesis nodes, part (b)
	if v := os.Getenv("C17_K"); v != "" { // development aid
		fmt.Sscan(v, &K)
	}
	budget := 170 * time.Second
	if thorough {
		budget = 13 * time.Minute
	}
	r.SetBudget(budget)
	workers := runtime.NumCPU()
	only := os.Getenv("C17_ONLY") // development aid: run a single phase
	phase := map[string]float64{}
	t0 := time.Now()
	col := &collector{m: map[string]*finding{}}
	complete := true

	// ------------------------------------------------------------- part (a)
	type shape struct {
		parents []int
		idx     int
	}
	var shapes []shape
	perSize := map[string]int{}
	for n := N; n >= 1; n-- { // big ones first: better load balance
		ss := allShapes(n)
		perSize[fmt.Sprint(n)] = len(ss)
		for i, p := range ss {
			shapes = append(shapes, shape{p, i})
		}
	}
	var aSkipped int64
	var amu sync.Mutex
	if only != "" && only != "a" {
		shapes = nil
	}
	ev.Par(len(shapes), workers, func(i int) {
		sh := shapes[i]
		if r.Expired() {
			amu.Lock()
			aSkipped++
			amu.Unlock()
			return
		}
		n := len(sh.parents)
		seen := map[string]bool{}
		evals := runShape(sh.parents, func(fn, what string) {
			if seen[fn] {
				return
			}
			seen[fn] = true
			col.add("a/"+fn, fmt.Sprintf("%02d/%05d", n, sh.idx), fmt.Sprintf("tree parents=%v: %s", sh.parents, what), replayObj{Part: "a", Parents: sh.parents, Fn: "a/" + fn})
		})
		r.Eval(int(evals))
		r.Trace(n)
		r.Add("a_queries", evals)
		if n >= 2 {
			c := canonTree(sh.parents)
			for t := 0; t < n; t++ {
				r.Nontrivial(fmt.Sprintf("a|%s|%d", c, t))
			}
		}
		if n == 5 {
			r.Sample(map[string]interface{}{"part": "a", "parents": sh.parents, "canonical": canonTree(sh.parents), "queries": evals})
		}
	})
	if aSkipped > 0 {
		complete = false
		r.Cap(fmt.Sprintf("part (a): time box hit, %d of %d shapes not run", aSkipped, len(shapes)))
	}
	r.Add("a_shapes", int64(len(shapes))-aSkipped)

	phase["a_shapes"] = time.Since(t0).Seconds()
	t0 = time.Now()

	// deep family
	var dSkipped int64
	nDeep := F + 1
	if only != "" && only != "deep" {
		nDeep = 0
	}
	ev.Par(nDeep, workers, func(i int) {
		f := F - i
		if r.Expired() {
			amu.Lock()
			dSkipped++
			amu.Unlock()
			return
		}
		seen := map[string]bool{}
		evals := runDepth(f, L, func(fn, what string) {
			if seen[fn] {
				return
			}
			seen[fn] = true
			col.add("a-deep/"+fn, fmt.Sprintf("%03d", f), fmt.Sprintf("trunk %d + two branches of %d: %s", f, L, what), replayObj{Part: "deep", F: f, L: L, Fn: "a-deep/" + fn})
		})
		r.Eval(int(evals))
		r.Trace(L + 1)
		r.Add("deep_queries", evals)
		for a := 0; a <= L; a++ {
			r.Nontrivial(fmt.Sprintf("deep|%d|%d", f, a))
		}
	})
	if dSkipped > 0 {
		complete = false
		r.Cap(fmt.Sprintf("deep family: time box hit, %d of %d fork heights not run", dSkipped, F+1))
	}

	phase["a_deep"] = time.Since(t0).Seconds()
	t0 = time.Now()

	// ------------------------------------------------------------- part (b)
	type cfg struct {
		parents []int
		invalid int
		heavy   []bool
	}
	var cfgs []cfg
	// reorgFailShape: the invalid node has a descendant two levels below it and
	// the tree has a branch that competes with it (a node that is neither its
	// descendant nor its ancestor): the smallest shapes in which the invalid block
	// can fail on the reorganisation path while a header-only descendant chain of
	// length 2 exists.  The quick tier runs these K+1-block configurations on top
	// of the complete K-block family.
	reorgFailShape := func(p []int, inv int) bool {
		if inv <= 0 {
			return false
		}
		under := func(x, a int) bool { // a is an ancestor of x or x itself
			for ; x >= 0; x = p[x] {
				if x == a {
					return true
				}
			}
			return false
		}
		deep, rival := false, false
		for x := 1; x < len(p); x++ {
			if under(x, inv) && x != inv && p[x] != inv {
				deep = true
			}
			if !under(x, inv) && !under(inv, x) {
				rival = true
			}
		}
		return deep && rival
	}
	kTop := K
	if r.Tier == "quick" {
		kTop = K + 1
	}
	for k := kTop; k >= 1; k-- {
		for _, p := range allShapes(k + 1) {
			seen := map[string]bool{}
			for inv := -1; inv <= k; inv++ {
				if inv == 0 {
					continue
				}
				if k > K && !reorgFailShape(p, inv) {
					continue
				}
				c := markedCanon(p, inv)
				if seen[c] {
					continue
				}
				seen[c] = true
				cfgs = append(cfgs, cfg{p, inv, nil})
			}
		}
	}
	// mixed-difficulty worlds: a light branch of a blocks and a heavy branch of b
	// blocks, both from genesis: the most-work chain is not the longest one
	for _, ab := range [][2]int{{2, 1}, {3, 1}, {3, 2}} {
		a, b := ab[0], ab[1]
		parents := []int{-1}
		heavy := []bool{false}
		for i := 1; i <= a; i++ {
			parents = append(parents, i-1)
			heavy = append(heavy, false)
		}
		for i := 1; i <= b; i++ {
			par := a + i - 1
			if i == 1 {
				par = 0
			}
			parents = append(parents, par)
			heavy = append(heavy, true)
		}
		cfgs = append(cfgs, cfg{parents, -1, heavy})
	}
	if only != "" && only != "b" {
		cfgs = nil
	}
	// Every chain instance allocates ~13 MB of short-lived leveldb buffers.  On
	// this (micro-VM) box first-touch page faults dominate everything else, so
	// part (b) keeps a small resident heap and reuses it: automatic pacing off, one
	// explicit collection every gcEvery chain instances (see bWorld.newChain).
	debug.SetGCPercent(-1)
	bWorkers := workers
	if bWorkers > 8 {
		bWorkers = 8
	}
	if v := os.Getenv("C17_BWORKERS"); v != "" { // development aid
		fmt.Sscan(v, &bWorkers)
	}
	if v := os.Getenv("C17_GCEVERY"); v != "" { // development aid
		fmt.Sscan(v, &gcEvery)
	}
	var counts bCounts
	var bmu sync.Mutex
	bStates, bTrans, bCfgDone, bChains := 0, 0, 0, 0
	var bCapped []string
	ev.Par(len(cfgs), bWorkers, func(i int) {
		c := cfgs[i]
		if r.Expired() {
			bmu.Lock()
			bCapped = append(bCapped, fmt.Sprintf("%v/inv=%d (not started)", c.parents, c.invalid))
			bmu.Unlock()
			return
		}
		w := newBWorld(c.parents, c.invalid)
		ck := fmt.Sprintf("b|%s|", markedCanon(c.parents, c.invalid))
		if c.heavy != nil {
			w = newBWorldHeavy(c.parents, c.heavy)
			ck = fmt.Sprintf("b|heavy%v|%v|", c.heavy, c.parents)
		}
		res := exploreB(w, r.Expired,
			func(cs string) { r.Nontrivial(ck + cs) },
			func(s *sysB, h []int) {
				for _, f := range s.check(&counts) {
					kv := strings.SplitN(f, "|", 2)
					names := histNames(h)
					col.add(kv[0], fmt.Sprintf("%02d/%02d/%s/%v/%d", w.k(), len(h), strings.Join(names, ","), c.parents, c.invalid),
						fmt.Sprintf("tree parents=%v invalid node=%d history=%s: %s", c.parents, c.invalid, strings.Join(names, ","), kv[1]),
						replayObj{Part: "b", Parents: c.parents, Invalid: c.invalid, Heavy: c.heavy, Hist: names, Fn: kv[0]})
				}
			})
		bmu.Lock()
		bStates += res.states
		bTrans += res.trans
		bChains += res.chains + len(w.memo)
		if res.complete {
			bCfgDone++
		} else {
			bCapped = append(bCapped, fmt.Sprintf("%v/inv=%d (%d states seen)", c.parents, c.invalid, res.states))
		}
		bmu.Unlock()
		for _, h := range res.samples {
			if len(c.parents) == K+1 && c.invalid > 0 {
				r.Sample(map[string]interface{}{"part": "b", "parents": c.parents, "invalid": c.invalid, "hist": histNames(h)})
				break
			}
		}
	})
	phase["b"] = time.Since(t0).Seconds()
	t0 = time.Now()
	// ------------------------------------------------------------- part (b'): manual invalidation
	type invJob struct {
		parents []int
		know    string
		hf      bool
		x       int
	}
	var invJobs []invJob
	for n := 2; n <= K+1; n++ {
		for _, p := range allShapes(n) {
			for _, kn := range invKnowledge(p) {
				for x := 1; x < n; x++ {
					if kn[x] == 'n' {
						continue
					}
					for _, hf := range []bool{false, true} {
						invJobs = append(invJobs, invJob{p, kn, hf, x})
					}
				}
			}
		}
	}
	var invDone int64
	ev.Par(len(invJobs), runtime.NumCPU(), func(i int) {
		if r.Expired() {
			return
		}
		j := invJobs[i]
		for k, what := range runInv(j.parents, j.know, j.hf, j.x) {
			col.add(k, fmt.Sprintf("%02d/%s/%d/%v", len(j.parents), j.know, j.x, j.hf), fmt.Sprintf("tree parents=%v: %s", j.parents, what),
				replayObj{Part: "binv", Parents: j.parents, Know: j.know, HdrFst: j.hf, X: j.x, Fn: k})
		}
		r.Nontrivial(fmt.Sprintf("binv|%v|%s|%d|%v", j.parents, j.know, j.x, j.hf))
		atomic.AddInt64(&invDone, 1)
	})
	r.Eval(int(invDone))
	r.Trans(int(invDone))
	r.Add("b_inv_probes", invDone)
	if int(invDone) != len(invJobs) {
		complete = false
		r.Cap(fmt.Sprintf("part (b'): time box hit after %d of %d probes", invDone, len(invJobs)))
	}
	// ------------------------------------------------------------- part (b''): a block that fails on the
	// reorganisation path while TWO of its child branches hold block data.  Tree:
	// 1<-2 main; 3 (coinbase overpays) with children 4<-5 and 6; 7 below 6.  Every
	// parents-first order of the six block deliveries (the failure happens when the
	// branch through 5 overtakes the main chain), then the header of node 7: every
	// descendant of the failed block is part of an invalid branch.
	{
		parents := []int{-1, 0, 1, 0, 3, 4, 3, 6}
		const bad = 3
		var orders [][]int
		var rec func(done []int, used uint)
		rec = func(done []int, used uint) {
			if len(done) == 6 {
				orders = append(orders, append([]int(nil), done...))
				return
			}
			for i := 1; i <= 6; i++ {
				if used&(1<<uint(i)) != 0 || (parents[i] != 0 && used&(1<<uint(parents[i])) == 0) {
					continue
				}
				rec(append(done, i), used|1<<uint(i))
			}
		}
		rec(nil, 0)
		var sibDone int64
		ev.Par(len(orders), runtime.NumCPU(), func(oi int) {
			if r.Expired() {
				return
			}
			w := newBWorld(parents, bad)
			s := w.newSys()
			defer s.c.Destroy()
			var hist []int
			step := func(e int) {
				hist = append(hist, e)
				s.apply(e)
				for _, f := range s.check(&counts) {
					kv := strings.SplitN(f, "|", 2)
					names := histNames(hist)
					col.add(kv[0], fmt.Sprintf("07/%02d/%s", len(hist), strings.Join(names, ",")),
						fmt.Sprintf("tree parents=%v invalid node=%d history=%s: %s", parents, bad, strings.Join(names, ","), kv[1]),
						replayObj{Part: "b", Parents: parents, Invalid: bad, Hist: names, Fn: kv[0]})
				}
			}
			for _, i := range orders[oi] {
				step(2*(i-1) + 1)
			}
			step(2 * (7 - 1))
			r.Nontrivial(fmt.Sprintf("bsib|%v", orders[oi]))
			atomic.AddInt64(&sibDone, 1)
		})
		r.Eval(int(sibDone) * 7)
		r.Trans(int(sibDone) * 7)
		r.Add("b_sibling_branch_histories", sibDone)
		if int(sibDone) != len(orders) {
			complete = false
			r.Cap(fmt.Sprintf("part (b''): time box hit after %d of %d histories", sibDone, len(orders)))
		}
	}
	phase["b_inv"] = time.Since(t0).Seconds()
	r.Set("phase_wall_seconds", phase)
	r.State(bStates)
	r.Trans(bTrans)
	r.Trace(bTrans)
	r.Eval(bTrans)
	r.Add("b_configs_completed", int64(bCfgDone))
	r.Add("b_real_chain_instances", int64(bChains))
	r.Add("b_states_with_ambiguous_best_header_reading", counts.ambiguous)
	r.Add("b_isvalidheader_queries_under_invalid_ancestor_not_judged", counts.underInvalid)
	if len(bCapped) > 0 {
		complete = false
		sort.Strings(bCapped)
		r.Cap(fmt.Sprintf("part (b): time box hit; %d of %d configurations incomplete: %s", len(bCapped), len(cfgs), strings.Join(bCapped, "; ")))
	}

	r.Set("bounds", map[string]interface{}{
		"a_max_nodes": N, "a_shapes_per_size": perSize,
		"a_queries":         "per shape: Ancestor/RelativeAncestor(Ctx) for h,d in {MinInt32,-2..H+2,MaxInt32-1,MaxInt32}; IsAncestor all pairs (+nil); SetTip for every ordered tip pair (nil included); per tip (and nil tip): Height/Tip/Genesis/Contains/Next/FindFork/BlockLocator for every node (+nil), NodeByHeight all heights; MainChainHasBlock, BlockHeightByHash, BlockHashByHeight, BlockLocatorFromHash (unknown->tip), LatestBlockLocator, HeaderByHash, HeightRange over the full square of heights, IntervalBlockHashes (every end +unknown, intervals 1,2,3,maxH+1), HeightToHashRange (every start, every end +unknown, max 0,1,2,n), ChainTips; LocateBlocks/locateHeaders/LocateHeaders for locators {empty,[unknown],[x],[x,y] all ordered pairs,[unknown,x],[x,unknown],proper locator of x} x stop {every node, zero, unknown} x max {0,1,2,2000}; per (tip, header tip): best-header view battery, BestHeader, BestChainHeaderForkHeight, HeaderHashByHeight, HeaderHeightByHash, IsValidHeader, LatestBlockLocatorByHeader",
		"a_status_pattern":  "node i: i%3==2 not validated, i%4==3 validate-failed, else valid",
		"deep_fork_heights": fmt.Sprintf("0..%d", F), "deep_branch_lengths": fmt.Sprintf("0..%d", L),
		"b_max_blocks": K, "b_extra_family": "quick tier: plus the K+1-block configurations in which the invalid block has a descendant two levels below it and a competing branch exists", "b_configurations": len(cfgs),
		"b_events":           "H_i = ProcessBlockHeader(header_i, BFNone, false), B_i = ProcessBlock(block_i, BFNone); H_i enabled once parent's header or block was delivered and H_i was not (also after the node's own block); B_i enabled once parent's block was delivered",
		"b_mixed_difficulty": "3 worlds on a minimum-difficulty network: light branch of 2/3/3 blocks (1 unit of work each) and heavy branch of 1/1/2 blocks (256 units each) from a genesis block at the heavy difficulty",
		"b_inv":              "part (b'): every tree shape with <= K blocks x every knowledge vector (none / header / block per node, parents first) x {headers after the blocks, before the blocks} x every known node x: InvalidateBlock(x), then the header of every unknown node with a known parent (refused iff it descends from x), ReconsiderBlock(x), the refused headers again (accepted)",
		"b_sibling":          "part (b''): tree 1<-2; 3 (fails at connect) <- {4<-5, 6<-7}: every parents-first order of the six block deliveries, then the header of node 7, all part (b) oracles after every step",
		"b_invalid":          "one node whose coinbase overpays by 1 satoshi (found at connect time only), every node up to tree symmetry, or none",
	})

	// confirm every finding three more times before believing it
	for _, f := range col.sorted() {
		for i := 0; i < 3; i++ {
			if _, ok := failing(f.rp)[f.key]; !ok {
				r.Broken("violation did not reproduce deterministically: key=%s replay=%+v what=%s", f.key, f.rp, f.what)
			}
		}
		r.Violation(f.key, f.what, f.rp)
	}
	pprof.StopCPUProfile()
	r.Finish(complete)
}
