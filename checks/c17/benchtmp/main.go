package main

import (
	"fmt"
	"syscall"
	"time"

	"verif/lab"
)

func cpu() time.Duration {
	var ru syscall.Rusage
	syscall.Getrusage(syscall.RUSAGE_SELF, &ru)
	return time.Duration(ru.Utime.Nano() + ru.Stime.Nano())
}

func main() {
	p := lab.RegtestLike()
	n := 40
	c0 := cpu()
	t0 := time.Now()
	for i := 0; i < n; i++ {
		c, err := lab.NewChain(lab.CloneParams(p), lab.ChainOpts{})
		if err != nil {
			panic(err)
		}
		c.Destroy()
	}
	fmt.Println("per chain: wall", time.Since(t0)/time.Duration(n), "cpu", (cpu()-c0)/time.Duration(n))
}
