package main

import (
	"fmt"
	"runtime"
	"sort"
	"strings"
	"sync"
	"sync/atomic"
	"time"

	"github.com/btcsuite/btcd/blockchain"
	"github.com/btcsuite/btcd/chaincfg/v2"
	"github.com/btcsuite/btcd/chainhash/v2"
	"github.com/btcsuite/btcd/wire/v2"

	"verif/lab"
	"verif/ref/c17tree"
)

// bWorld is one fixed block tree for the headers-first exploration: node 0 is
// genesis, nodes 1..k are lab blocks (equal work each); at most one node is an
// invalid block (its coinbase pays 1 satoshi more than the subsidy, which btcd
// can only find out when it tries to connect the block).
type bWorld struct {
	params  *chaincfg.Params
	parents []int
	ref     *c17tree.Tree
	invalid int
	blks    []*lab.Blk
	id      map[chainhash.Hash]int
	bad     []bool // the invalid node and its descendants
	// mixed-difficulty worlds (nil otherwise): heavy[i] = node i carries the
	// genesis difficulty (256 units of work) instead of the minimum difficulty
	// (1 unit); work[i] is the cumulative work in those units
	heavy []bool
	work  []int

	mu   sync.Mutex
	memo map[string]refRun
}

type refRun struct {
	tip    int
	status string
}

func newBWorld(parents []int, invalid int) *bWorld {
	w := &bWorld{params: lab.RegtestLike(), parents: parents, ref: c17tree.New(parents), invalid: invalid,
		id: map[chainhash.Hash]int{}, memo: map[string]refRun{}}
	n := len(parents)
	w.blks = make([]*lab.Blk, n)
	w.bad = make([]bool, n)
	w.blks[0] = lab.Genesis(w.params)
	w.id[w.blks[0].Hash] = 0
	for i := 1; i < n; i++ {
		o := lab.BOpt{Tag: uint32(1000 + i), Name: fmt.Sprintf("N%d", i)}
		if i == invalid {
			o.Fees = 1 // no fee-paying tx: the coinbase overpays
		}
		w.blks[i] = lab.Build(w.params, w.blks[parents[i]], o)
		w.id[w.blks[i].Hash] = i
		w.bad[i] = i == invalid || w.bad[parents[i]]
	}
	if len(w.id) != n {
		panic("lab produced colliding block hashes")
	}
	return w
}

// newBWorldHeavy builds a mixed-difficulty world on a minimum-difficulty
// network (the testnet 20-minute rule): the genesis block carries a target 256
// times harder than the proof-of-work limit; a heavy node is stamped one
// minute after its parent and must carry that difficulty, a light node 21
// minutes after its parent and must carry the limit.  No retarget boundary is
// crossed.  Cumulative work and height now order chains differently.
func newBWorldHeavy(parents []int, heavy []bool) *bWorld {
	p := lab.RegtestLike()
	p.PoWNoRetargeting = false
	p.ReduceMinDifficulty = true
	p.MinDiffReductionTime = 20 * time.Minute
	const heavyBits = 0x1f7fffff // 0x207fffff (the limit) / 256
	g := *p.GenesisBlock
	g.Header.Bits = heavyBits
	g.Header.Timestamp = lab.Now.Add(-30 * 24 * time.Hour)
	lab.Solve(&g.Header)
	gh := lab.HeaderHash(&g.Header)
	p.GenesisBlock = &g
	p.GenesisHash = (*chainhash.Hash)(&gh)
	w := &bWorld{params: p, parents: parents, ref: c17tree.New(parents), invalid: -1,
		id: map[chainhash.Hash]int{}, memo: map[string]refRun{}, heavy: heavy}
	n := len(parents)
	w.blks = make([]*lab.Blk, n)
	w.bad = make([]bool, n)
	w.work = make([]int, n)
	w.blks[0] = lab.Genesis(p)
	w.id[w.blks[0].Hash] = 0
	for i := 1; i < n; i++ {
		par := w.blks[parents[i]]
		o := lab.BOpt{Tag: uint32(2000 + i), Name: fmt.Sprintf("N%d", i)}
		if heavy[i] {
			o.Bits = heavyBits
			o.Time = par.Msg.Header.Timestamp.Add(time.Minute)
			w.work[i] = w.work[parents[i]] + 256
		} else {
			o.Time = par.Msg.Header.Timestamp.Add(21 * time.Minute)
			w.work[i] = w.work[parents[i]] + 1
		}
		w.blks[i] = lab.Build(p, par, o)
		w.id[w.blks[i].Hash] = i
	}
	if len(w.id) != n {
		panic("lab produced colliding block hashes")
	}
	return w
}

// workOf: cumulative work of node x (its height when every block carries the
// same work).
func (w *bWorld) workOf(x int) int {
	if w.work != nil {
		return w.work[x]
	}
	return w.ref.Height(x)
}

func (w *bWorld) k() int { return len(w.parents) - 1 }

func (w *bWorld) idOf(h chainhash.Hash) int {
	if i, ok := w.id[h]; ok {
		return i
	}
	return -3
}

// gcEvery: explicit collection period, in chain instances (automatic GC pacing is
// switched off during part (b), see main).
var gcEvery int64 = 16

var chainCount int64

func (w *bWorld) newChain() *lab.Chain {
	if atomic.AddInt64(&chainCount, 1)%gcEvery == 0 {
		runtime.GC()
	}
	c, err := lab.NewChain(lab.CloneParams(w.params), lab.ChainOpts{})
	if err != nil {
		panic(err)
	}
	return c
}

func statusString(w *bWorld, c *lab.Chain) string {
	var sb strings.Builder
	for i := range w.blks {
		st, ok := c.BC.VerifNodeStatus(&w.blks[i].Hash)
		if !ok {
			sb.WriteString("-,")
		} else {
			fmt.Fprintf(&sb, "%x,", st)
		}
	}
	return sb.String()
}

// blocksOnly delivers the given blocks (node ids as bytes) in order to a fresh
// real chain and reports the resulting active tip.  Memoised per order.
func (w *bWorld) blocksOnly(order string) refRun {
	w.mu.Lock()
	r, ok := w.memo[order]
	w.mu.Unlock()
	if ok {
		return r
	}
	c := w.newChain()
	defer c.Destroy()
	for _, b := range []byte(order) {
		func() {
			defer func() { recover() }()
			c.BC.ProcessBlock(w.blks[int(b)].Block(), blockchain.BFNone)
		}()
	}
	r = refRun{tip: w.idOf(c.BC.BestSnapshot().Hash), status: statusString(w, c)}
	w.mu.Lock()
	w.memo[order] = r
	w.mu.Unlock()
	return r
}

// events: 2*(i-1) = header of node i, 2*(i-1)+1 = block of node i.
func evName(e int) string {
	if e%2 == 0 {
		return fmt.Sprintf("H%d", e/2+1)
	}
	return fmt.Sprintf("B%d", e/2+1)
}

func evParse(s string) int {
	var i int
	fmt.Sscanf(s[1:], "%d", &i)
	if s[0] == 'H' {
		return 2 * (i - 1)
	}
	return 2*(i-1) + 1
}

type sysB struct {
	w        *bWorld
	c        *lab.Chain
	hDone    []bool
	bDone    []bool
	accepted []int    // nodes whose header ProcessBlockHeader accepted, in order of first acceptance
	inserted []int    // nodes in the order they first appeared in the block index
	order    []byte   // blocks delivered so far
	fails    []string // "key|what" oracle failures raised by the last applied event
}

func (w *bWorld) newSys() *sysB {
	n := len(w.parents)
	return &sysB{w: w, c: w.newChain(), hDone: make([]bool, n), bDone: make([]bool, n)}
}

func (s *sysB) setFail(key, format string, a ...interface{}) {
	s.fails = append(s.fails, key+"|"+fmt.Sprintf(format, a...))
}

func (s *sysB) status(x int) (byte, bool) {
	return s.c.BC.VerifNodeStatus(&s.w.blks[x].Hash)
}

func (s *sysB) flaggedInvalid(x int) bool {
	st, ok := s.status(x)
	return ok && st&(stFailed|stInvalidAn) != 0
}

// invalidUpTo: x or one of its ancestors carries an invalid flag in the index;
// returns the closest such node (or -1).
func (s *sysB) invalidUpTo(x int) int {
	for y := x; y > 0; y = s.w.parents[y] {
		if s.flaggedInvalid(y) {
			return y
		}
	}
	return -1
}

func (s *sysB) enabled() []int {
	var out []int
	w := s.w
	for i := 1; i < len(w.parents); i++ {
		p := w.parents[i]
		// a header may also arrive after its own block (the index entry then
		// exists already and the best-header view has not seen it yet)
		if !s.hDone[i] && (p == 0 || s.hDone[p] || s.bDone[p]) {
			out = append(out, 2*(i-1))
		}
	}
	for i := 1; i < len(w.parents); i++ {
		p := w.parents[i]
		// blocks parents-first, or while the parent is known by its header only
		// (the block then waits in the orphan pool until the parent's block comes)
		if !s.bDone[i] && (p == 0 || s.bDone[p] || s.hDone[p]) {
			out = append(out, 2*(i-1)+1)
		}
	}
	return out
}

func (s *sysB) noteInserted() {
	for i := 1; i < len(s.w.parents); i++ {
		if _, ok := s.status(i); ok {
			seen := false
			for _, v := range s.inserted {
				if v == i {
					seen = true
				}
			}
			if !seen {
				s.inserted = append(s.inserted, i)
			}
		}
	}
}

func (s *sysB) apply(e int) {
	s.fails = nil
	w := s.w
	i := e/2 + 1
	defer func() {
		if r := recover(); r != nil {
			s.setFail("b/panic/"+map[bool]string{true: "ProcessBlockHeader", false: "ProcessBlock"}[e%2 == 0], "%s panicked: %v", evName(e), r)
		}
	}()
	if e%2 == 0 {
		s.hDone[i] = true
		p := w.parents[i]
		_, parentKnown := s.status(p)
		inv := -1
		if parentKnown {
			inv = s.invalidUpTo(p)
		}
		selfInv := s.flaggedInvalid(i)
		hdr := w.blks[i].Msg.Header
		isMain, err := s.c.BC.ProcessBlockHeader(&hdr, blockchain.BFNone, false)
		switch {
		case !parentKnown:
			if err == nil {
				s.setFail("b/orphan-header-accepted", "header of node %d accepted although its parent node %d is not in the index", i, p)
			}
		case inv >= 0 || selfInv:
			if err == nil {
				if inv == p || selfInv {
					s.setFail("b/header-accepted-on-invalid-parent", "header of node %d accepted although its parent node %d is flagged invalid", i, p)
				} else {
					s.setFail("b/header-accepted-on-invalid-ancestor", "header of node %d accepted (isMain=%v) although its ancestor node %d is known to be invalid (status %#x); direct parent node %d status %#x", i, isMain, inv, s.st(inv), p, s.st(p))
				}
			}
		default:
			if err != nil {
				s.setFail("b/valid-header-refused", "valid header of node %d (parent node %d known, no invalid ancestor) refused: %v", i, p, err)
			}
		}
		if err == nil {
			found := false
			for _, v := range s.accepted {
				found = found || v == i
			}
			if !found {
				s.accepted = append(s.accepted, i)
			}
			if _, ok := s.status(i); !ok {
				s.setFail("b/accepted-header-not-indexed", "header of node %d accepted but the index has no entry for it", i)
			}
			bh, _ := s.c.BC.BestHeader()
			if bhid := w.idOf(bh); bhid < 0 {
				s.setFail("b/BestHeader", "BestHeader is a hash that is not part of the tree")
			} else if on := w.ref.On(bhid, i); on != isMain {
				s.setFail("b/ProcessBlockHeader-isMainChain", "ProcessBlockHeader(node %d) returned isMainChain=%v but the node is on the best-header chain: %v", i, isMain, on)
			}
		}
	} else {
		s.bDone[i] = true
		s.order = append(s.order, byte(i))
		s.c.BC.ProcessBlock(w.blks[i].Block(), blockchain.BFNone)
	}
	s.noteInserted()
}

func (s *sysB) st(x int) byte {
	v, _ := s.status(x)
	return v
}

// firstMax: the first node (in list order, genesis first) with maximal
// cumulative work, skipping nodes for which skip is true.
func (s *sysB) firstMax(list []int, skip func(int) bool) int {
	best := 0
	for _, x := range list {
		if skip != nil && skip(x) {
			continue
		}
		if s.w.workOf(x) > s.w.workOf(best) {
			best = x
		}
	}
	return best
}

func (s *sysB) candidates() []int {
	inv := func(x int) bool { return s.invalidUpTo(x) >= 0 }
	return []int{s.firstMax(s.accepted, nil), s.firstMax(s.accepted, inv)}
}

func (s *sysB) canon() string {
	var sb strings.Builder
	for i := 1; i < len(s.w.parents); i++ {
		switch {
		case s.hDone[i] && s.bDone[i]:
			sb.WriteByte('X')
		case s.hDone[i]:
			sb.WriteByte('H')
		case s.bDone[i]:
			sb.WriteByte('B')
		default:
			sb.WriteByte('.')
		}
	}
	bh, _ := s.c.BC.BestHeader()
	ref := s.w.blocksOnly(string(s.order))
	fmt.Fprintf(&sb, "|bh=%d|tip=%d|%s|orph=%d|ref=%d|%s|cand=%v", s.w.idOf(bh), s.w.idOf(s.c.BC.BestSnapshot().Hash),
		statusString(s.w, s.c), s.c.BC.VerifOrphanCount(), ref.tip, ref.status, s.candidates())
	return sb.String()
}

// check is the oracle after every event.  Returns the "key|what" failures of the
// last transition (those raised while applying it included).
func (s *sysB) check(counts *bCounts) (out []string) {
	w, bc, ref := s.w, s.c.BC, s.w.ref
	n := len(w.parents)
	out = append(out, s.fails...)
	failf := func(key, format string, a ...interface{}) {
		out = append(out, key+"|"+fmt.Sprintf(format, a...))
	}
	defer func() {
		if r := recover(); r != nil {
			out = append(out, "b/panic/query|"+fmt.Sprint(r))
		}
	}()
	present := make([]bool, n)
	for x := 0; x < n; x++ {
		st, ok := s.status(x)
		present[x] = ok
		// a block none of whose ancestors is the bad one must never be flagged invalid
		if ok && st&(stFailed|stInvalidAn) != 0 && !w.bad[x] {
			failf("b/valid-block-flagged-invalid", "node %d is valid (as are all its ancestors) but carries status %#x", x, st)
		}
	}
	// --- active chain equals the blocks-only run for the same block order
	tip := w.idOf(bc.BestSnapshot().Hash)
	rr := w.blocksOnly(string(s.order))
	if tip != rr.tip {
		failf("b/active-chain-differs-from-blocks-only", "active tip is node %d; delivering only the blocks %v in the same order ends at node %d", tip, []byte(s.order), rr.tip)
	}
	if tip < 0 {
		return out
	}
	// --- best header
	bhHash, bhHeight := bc.BestHeader()
	bh := w.idOf(bhHash)
	if bh < 0 {
		failf("b/BestHeader", "BestHeader is a hash that is not part of the tree")
		return out
	}
	cands := s.candidates()
	okc := false
	amb := false
	for _, c := range cands {
		okc = okc || c == bh
		amb = amb || c != cands[0]
	}
	if amb {
		counts.add(&counts.ambiguous)
	}
	if !okc {
		failf("b/BestHeader", "BestHeader = node %d; the first most-work accepted header is node %d (accepted order %v; when headers under a known-invalid block are not counted: node %d)", bh, cands[0], s.accepted, cands[1])
		return out
	}
	if int(bhHeight) != ref.Height(bh) {
		failf("b/BestHeader", "BestHeader height %d for node %d at height %d", bhHeight, bh, ref.Height(bh))
	}
	// --- header queries relative to the reported best-header tip
	for h := -1; h <= n+1; h++ {
		got, err := bc.HeaderHashByHeight(int32(h))
		want := ref.AtHeight(bh, int64(h))
		if (want < 0) != (err != nil) || (want >= 0 && w.idOf(*got) != want) {
			failf("b/HeaderHashByHeight", "best header node %d: HeaderHashByHeight(%d) err=%v, parent walk gives node %d", bh, h, err, want)
		}
	}
	for x := -1; x < n; x++ {
		hash := unknownHash
		if x >= 0 {
			hash = w.blks[x].Hash
		}
		on := x >= 0 && present[x] && ref.On(bh, x)
		gh, err := bc.HeaderHeightByHash(hash)
		if on != (err == nil) || (on && int(gh) != ref.Height(x)) {
			failf("b/HeaderHeightByHash", "best header node %d: HeaderHeightByHash(node %d) = %d err=%v; on header chain: %v", bh, x, gh, err, on)
		}
		got := bc.IsValidHeader(&hash)
		switch {
		case !on || s.flaggedInvalid(x):
			if got {
				failf("b/IsValidHeader-true", "IsValidHeader(node %d) = true; in index %v, on best-header chain %v, status %#x", x, x >= 0 && present[x], on, s.st(maxInt(x, 0)))
			}
		case s.invalidUpTo(x) < 0:
			if !got {
				failf("b/IsValidHeader-false", "IsValidHeader(node %d) = false although it is on the best-header chain (tip node %d) and neither it nor an ancestor is known invalid", x, bh)
			}
		default:
			// On the header chain, own status clean, but an ancestor is known to
			// be invalid (the header was accepted before the ancestor's block
			// failed).  The property does not say whether such a header must be
			// re-classified retroactively: counted, not judged.
			counts.add(&counts.underInvalid)
		}
	}
	fork := ref.FindFork(tip, bh)
	if got := int(bc.BestChainHeaderForkHeight()); got != ref.Height(fork) {
		failf("b/BestChainHeaderForkHeight", "BestChainHeaderForkHeight = %d; active tip node %d and best header node %d meet at node %d height %d", got, tip, bh, fork, ref.Height(fork))
	}
	ll, _ := bc.LatestBlockLocatorByHeader()
	if got, want := s.locIDs(ll), ref.Locator(bh); !eqIDs(got, want) {
		failf("b/LatestBlockLocatorByHeader", "LatestBlockLocatorByHeader = nodes %v, naive %v", got, want)
	}
	// --- active-chain inventory queries on the real chain (header-only entries present)
	ll, _ = bc.LatestBlockLocator()
	if got, want := s.locIDs(ll), ref.Locator(tip); !eqIDs(got, want) {
		failf("b/LatestBlockLocator", "LatestBlockLocator = nodes %v, naive %v", got, want)
	}
	for x := 0; x < n; x++ {
		lx := x
		if !present[x] {
			lx = -1
		}
		want := ref.Locate(tip, []int{lx}, -1, 2000)
		gb := s.hashIDs(bc.LocateBlocks(blockchain.BlockLocator{&w.blks[x].Hash}, &zeroHash, 2000))
		if !eqIDs(gb, want) {
			failf("b/LocateBlocks", "active tip node %d: LocateBlocks([node %d], zero, 2000) = nodes %v, naive %v", tip, x, gb, want)
		}
		hs := bc.LocateHeaders(blockchain.BlockLocator{&w.blks[x].Hash}, &zeroHash)
		gh := make([]int, len(hs))
		for i := range hs {
			gh[i] = w.idOf(lab.HeaderHash(&hs[i]))
		}
		if !eqIDs(gh, want) {
			failf("b/LocateHeaders", "active tip node %d: LocateHeaders([node %d], zero) = nodes %v, naive %v", tip, x, gh, want)
		}
		if got, want := bc.MainChainHasBlock(&w.blks[x].Hash), present[x] && ref.On(tip, x); got != want {
			failf("b/MainChainHasBlock", "active tip node %d: MainChainHasBlock(node %d) = %v", tip, x, got)
		}
	}
	// --- chain tips
	type row struct {
		node, height, branch int
		active               bool
	}
	var g []row
	for _, t := range bc.ChainTips() {
		g = append(g, row{w.idOf(t.BlockHash), int(t.Height), int(t.BranchLen), t.Status == blockchain.StatusActive})
	}
	sort.Slice(g, func(i, j int) bool { return g[i].node < g[j].node })
	want := ref.ChainTips(tip, present)
	okt := len(g) == len(want)
	for i := 0; okt && i < len(g); i++ {
		okt = g[i] == row{want[i].Node, want[i].Height, want[i].BranchLen, want[i].Active}
	}
	if !okt {
		failf("b/ChainTips", "ChainTips = %v (node,height,branchLen,active), naive %v", g, want)
	}
	return out
}

func maxInt(a, b int) int {
	if a > b {
		return a
	}
	return b
}

func (s *sysB) locIDs(l blockchain.BlockLocator) []int {
	out := make([]int, len(l))
	for i, h := range l {
		out[i] = s.w.idOf(*h)
	}
	return out
}

func (s *sysB) hashIDs(hs []chainhash.Hash) []int {
	out := make([]int, len(hs))
	for i, h := range hs {
		out[i] = s.w.idOf(h)
	}
	return out
}

type bCounts struct {
	mu           sync.Mutex
	ambiguous    int64
	underInvalid int64
}

func (c *bCounts) add(p *int64) {
	c.mu.Lock()
	*p++
	c.mu.Unlock()
}

// runHistB replays one history on a fresh chain and returns the oracle failures
// ("key|what") of its last transition.
func runHistB(w *bWorld, hist []int) []string {
	s := w.newSys()
	defer s.c.Destroy()
	var cnt bCounts
	for _, e := range hist {
		s.apply(e)
	}
	return s.check(&cnt)
}

var _ = wire.MaxBlockHeadersPerMsg

// bResult is the coverage of one exploration.
type bResult struct {
	states, trans, chains int
	maxDepth              int
	complete              bool
	samples               [][]int
}

// exploreB is a depth-first explicit-state search over the delivery histories of
// w on real chains.  A real chain cannot be cloned or rewound, so the search
// keeps extending one live chain with the first enabled event of every new state
// and queues the other enabled events as "path starts" (history + event) that
// are later replayed on a fresh chain.  States are deduplicated on canon(); the
// oracle runs after every transition (also those that lead to a known state).
// Sequential and therefore deterministic.
func exploreB(w *bWorld, stop func() bool, onState func(canon string), onCheck func(s *sysB, hist []int)) bResult {
	res := bResult{complete: true}
	seen := map[string]bool{}
	var stack [][]int
	visit := func(s *sysB, hist []int) bool {
		c := s.canon()
		onCheck(s, hist)
		if len(hist) > res.maxDepth {
			res.maxDepth = len(hist)
		}
		if seen[c] {
			return false
		}
		seen[c] = true
		res.states++
		onState(c)
		return true
	}
	live := func(s *sysB, hist []int) {
		for {
			evs := s.enabled()
			if len(evs) == 0 {
				if len(res.samples) < 2 {
					res.samples = append(res.samples, append([]int(nil), hist...))
				}
				break
			}
			for i := len(evs) - 1; i >= 1; i-- {
				stack = append(stack, append(append([]int(nil), hist...), evs[i]))
			}
			s.apply(evs[0])
			hist = append(append([]int(nil), hist...), evs[0])
			res.trans++
			if !visit(s, hist) {
				break
			}
		}
		s.c.Destroy()
	}
	s := w.newSys()
	res.chains++
	visit(s, nil)
	live(s, nil)
	for len(stack) > 0 {
		if stop() {
			res.complete = false
			break
		}
		h := stack[len(stack)-1]
		stack = stack[:len(stack)-1]
		s := w.newSys()
		res.chains++
		for _, e := range h {
			s.apply(e)
		}
		res.trans++
		if !visit(s, h) {
			s.c.Destroy()
			continue
		}
		live(s, h)
	}
	return res
}
