package main

import (
	"sort"
	"strings"
)

// canonTree is the AHU canonical form of the rooted tree given by parents
// (parents[0] ignored, parents[i] < i): "(" + sorted child forms + ")".
func canonTree(parents []int) string {
	n := len(parents)
	kids := make([][]int, n)
	for i := 1; i < n; i++ {
		kids[parents[i]] = append(kids[parents[i]], i)
	}
	var enc func(x int) string
	enc = func(x int) string {
		parts := make([]string, 0, len(kids[x]))
		for _, c := range kids[x] {
			parts = append(parts, enc(c))
		}
		sort.Strings(parts)
		return "(" + strings.Join(parts, "") + ")"
	}
	return enc(0)
}

// allShapes enumerates every parent vector p[1..n-1] with p[i] < i (that is every
// rooted tree on n nodes, labelled in a creation order), and keeps the first
// vector of every isomorphism class (AHU canonical form).  Returned in
// enumeration order, which is deterministic.
func allShapes(n int) [][]int {
	if n == 1 {
		return [][]int{{-1}}
	}
	seen := map[string]bool{}
	var out [][]int
	p := make([]int, n)
	p[0] = -1
	var rec func(i int)
	rec = func(i int) {
		if i == n {
			c := canonTree(p)
			if !seen[c] {
				seen[c] = true
				out = append(out, append([]int(nil), p...))
			}
			return
		}
		for v := 0; v < i; v++ {
			p[i] = v
			rec(i + 1)
		}
	}
	rec(1)
	return out
}

// knownShapeCounts is OEIS A000081 (rooted unlabelled trees on n nodes), used to
// validate the enumerator itself.
var knownShapeCounts = []int{0, 1, 1, 2, 4, 9, 20, 48, 115, 286, 719, 1842}
