package main

import (
	"fmt"

	"github.com/btcsuite/btcd/blockchain"
)

// Part (b'), manual invalidation: "headers that extend a block known to be invalid
// are refused" also holds when the block is known to be invalid because the
// operator said so (InvalidateBlock), and stops holding when the operator takes it
// back (ReconsiderBlock).
//
// One probe = (tree, per-node knowledge none/header/block, delivery order, node x).
// The known nodes are delivered to a fresh chain (blocks and headers parents
// first; blocks before headers or the other way round), InvalidateBlock(x) is
// called, and then every node y that is not in the index but whose parent is gets
// its header offered: it must be refused exactly when x is an ancestor of y.
// After ReconsiderBlock(x) every such header must be accepted.
//
// know[i]: 'n' unknown, 'h' header only, 'b' block (a block's parent is a block,
// a header's parent is a header or a block).

func invKnowledge(parents []int) []string {
	n := len(parents)
	var out []string
	cur := make([]byte, n)
	cur[0] = 'b'
	var rec func(i int)
	rec = func(i int) {
		if i == n {
			out = append(out, string(cur))
			return
		}
		for _, k := range []byte{'n', 'h', 'b'} {
			pk := cur[parents[i]]
			if (k == 'b' && pk != 'b') || (k == 'h' && pk == 'n') {
				continue
			}
			cur[i] = k
			rec(i + 1)
		}
	}
	rec(1)
	return out
}

func isAncestorOrSelf(parents []int, a, y int) bool {
	for n := y; n > 0; n = parents[n] {
		if n == a {
			return true
		}
	}
	return false
}

// runInv runs one probe; returns key -> description of the failures.
func runInv(parents []int, know string, hdrFirst bool, x int) map[string]string {
	out := map[string]string{}
	fail := func(key, format string, a ...interface{}) {
		if _, ok := out[key]; !ok {
			out[key] = fmt.Sprintf(format, a...)
		}
	}
	defer func() {
		if r := recover(); r != nil {
			fail("b-inv/panic", "panic: %v", r)
		}
	}()
	w := newBWorld(parents, -1)
	c := w.newChain()
	defer c.Destroy()
	n := len(parents)
	deliverBlocks := func() {
		for i := 1; i < n; i++ {
			if know[i] == 'b' {
				if _, _, err := c.BC.ProcessBlock(w.blks[i].Block(), blockchain.BFNone); err != nil {
					fail("b-inv/setup", "ProcessBlock(node %d): %v", i, err)
				}
			}
		}
	}
	deliverHeaders := func() {
		for i := 1; i < n; i++ {
			// with headers first every known node's header is sent; after the
			// blocks only those of the header-only nodes
			if know[i] == 'h' || (hdrFirst && know[i] == 'b') {
				h := w.blks[i].Msg.Header
				if _, err := c.BC.ProcessBlockHeader(&h, blockchain.BFNone, false); err != nil {
					fail("b-inv/setup", "ProcessBlockHeader(node %d): %v", i, err)
				}
			}
		}
	}
	if hdrFirst {
		deliverHeaders()
		deliverBlocks()
	} else {
		deliverBlocks()
		deliverHeaders()
	}
	if len(out) > 0 {
		return out
	}
	if err := c.BC.InvalidateBlock(&w.blks[x].Hash); err != nil {
		fail("b-inv/InvalidateBlock", "InvalidateBlock(node %d): %v", x, err)
		return out
	}
	var frontier []int
	for y := 1; y < n; y++ {
		if know[y] == 'n' && know[parents[y]] != 'n' {
			frontier = append(frontier, y)
		}
	}
	desc := fmt.Sprintf("knowledge %s (n none, h header, b block; headers %s), InvalidateBlock(node %d)", know[1:], map[bool]string{true: "before the blocks", false: "after the blocks"}[hdrFirst], x)
	refused := map[int]bool{}
	for _, y := range frontier {
		h := w.blks[y].Msg.Header
		_, err := c.BC.ProcessBlockHeader(&h, blockchain.BFNone, false)
		under := isAncestorOrSelf(parents, x, parents[y])
		switch {
		case under && err == nil:
			st, _ := c.BC.VerifNodeStatus(&w.blks[parents[y]].Hash)
			fail("b-inv/header-accepted-under-invalidated-block", "%s: the header of node %d (parent node %d, status %#x) is accepted although it descends from the invalidated node %d", desc, y, parents[y], st, x)
		case !under && err != nil:
			fail("b-inv/header-refused-outside-invalidated-branch", "%s: the header of node %d (parent node %d) is refused although it does not descend from node %d: %v", desc, y, parents[y], x, err)
		}
		refused[y] = err != nil
	}
	if err := c.BC.ReconsiderBlock(&w.blks[x].Hash); err != nil {
		fail("b-inv/ReconsiderBlock", "%s, ReconsiderBlock(node %d): %v", desc, x, err)
		return out
	}
	for _, y := range frontier {
		if !refused[y] {
			continue
		}
		h := w.blks[y].Msg.Header
		if _, err := c.BC.ProcessBlockHeader(&h, blockchain.BFNone, false); err != nil {
			fail("b-inv/header-refused-after-reconsideration", "%s, then ReconsiderBlock(node %d): the header of node %d (parent node %d) is still refused: %v", desc, x, y, parents[y], err)
		}
	}
	return out
}
