package main

import (
	"fmt"
	"math"
	"sort"

	"github.com/btcsuite/btcd/blockchain"
	"github.com/btcsuite/btcd/chaincfg/v2"
	"github.com/btcsuite/btcd/chainhash/v2"
	"github.com/btcsuite/btcd/wire/v2"

	"verif/lab"
	"verif/ref/c17tree"
)

var (
	unknownHash = chainhash.Hash{0xde, 0xad, 0xbe, 0xef, 0x17, 0x17, 0x17, 0x17, 0x01}
	zeroHash    = chainhash.Hash{}
)

const (
	stBase      = blockchain.VerifC17StatusDataStored | blockchain.VerifC17StatusHeaderStored
	stValid     = blockchain.VerifC17StatusValid
	stFailed    = blockchain.VerifC17StatusValidateFailed
	stInvalidAn = blockchain.VerifC17StatusInvalidAncestor
)

// statusPattern is the fixed per-node status assignment of the index-only trees:
// every third node is not (yet) validated, every fourth is known invalid; the rest
// (and always genesis) are valid.
func statusPattern(n int) []byte {
	st := make([]byte, n)
	for i := range st {
		st[i] = stBase | stValid
		if i%3 == 2 {
			st[i] = stBase
		}
		if i%4 == 3 {
			st[i] = stBase | stFailed
		}
	}
	return st
}

// actx is one index-only instance together with its reference tree.
type actx struct {
	tr     *blockchain.VerifC17Tree
	ref    *c17tree.Tree
	n      int
	hash   []chainhash.Hash
	hp     []*chainhash.Hash
	id     map[chainhash.Hash]int
	status []byte
	maxH   int
	evals  int64
	report func(fn, what string)
}

func newActx(parents []int, status []byte, report func(fn, what string)) *actx {
	c := &actx{n: len(parents), status: status, report: report}
	c.tr = blockchain.VerifC17NewTree(lab.CloneParams(&chaincfg.RegressionNetParams), parents, status)
	c.ref = c17tree.New(parents)
	c.hash = make([]chainhash.Hash, c.n)
	c.hp = make([]*chainhash.Hash, c.n)
	c.id = make(map[chainhash.Hash]int, c.n)
	for i := 0; i < c.n; i++ {
		c.hash[i] = c.tr.Hash(i)
		c.hp[i] = &c.hash[i]
		c.id[c.hash[i]] = i
		if h := c.ref.Height(i); h > c.maxH {
			c.maxH = h
		}
	}
	if len(c.id) != c.n {
		panic("hook produced colliding node hashes")
	}
	return c
}

func (c *actx) valid(x int) bool { return x >= 0 && c.status[x]&stValid != 0 }
func (c *actx) knownInvalid(x int) bool {
	return c.status[x]&(stFailed|stInvalidAn) != 0
}

// idOf maps a hash to its node id (-3: a hash that is not a node of the tree).
func (c *actx) idOf(h chainhash.Hash) int {
	if i, ok := c.id[h]; ok {
		return i
	}
	return -3
}

func (c *actx) ids(hs []chainhash.Hash) []int {
	out := make([]int, len(hs))
	for i, h := range hs {
		out[i] = c.idOf(h)
	}
	return out
}

func (c *actx) locIDs(l blockchain.BlockLocator) []int {
	out := make([]int, len(l))
	for i, h := range l {
		if h == nil {
			out[i] = -4
		} else {
			out[i] = c.idOf(*h)
		}
	}
	return out
}

// hdrIDs maps headers to node ids via their hash and additionally insists that
// PrevBlock names the node's parent (zero for genesis).
func (c *actx) hdrIDs(hs []wire.BlockHeader) []int {
	out := make([]int, len(hs))
	for i := range hs {
		id := c.idOf(lab.HeaderHash(&hs[i]))
		if id >= 0 {
			p := c.ref.Parent[id]
			if (p < 0 && hs[i].PrevBlock != zeroHash) || (p >= 0 && hs[i].PrevBlock != c.hash[p]) {
				id = -5
			}
		}
		out[i] = id
	}
	return out
}

func eqIDs(a, b []int) bool {
	if len(a) != len(b) {
		return false
	}
	for i := range a {
		if a[i] != b[i] {
			return false
		}
	}
	return true
}

func (c *actx) hashOf(x int) *chainhash.Hash {
	switch x {
	case -1:
		return &unknownHash
	case -2:
		return &zeroHash
	}
	return c.hp[x]
}

func (c *actx) chk(ok bool, fn string, format string, a ...interface{}) {
	c.evals++
	if !ok {
		c.report(fn, fmt.Sprintf(format, a...))
	}
}

// guard runs f and reports a panic inside btcd as a violation of fn.
func (c *actx) guard(fn string, desc func() string, f func()) {
	defer func() {
		if r := recover(); r != nil {
			c.report(fn+"/panic", fmt.Sprintf("%s panicked: %v", desc(), r))
		}
	}()
	f()
}

func heightsAround(maxH int) []int32 {
	hs := []int32{math.MinInt32, -2}
	for h := -1; h <= maxH+2; h++ {
		hs = append(hs, int32(h))
	}
	return append(hs, math.MaxInt32-1, math.MaxInt32)
}

// nodeBattery: blockNode.Ancestor / RelativeAncestor / RelativeAncestorCtx /
// Parent / IsAncestor for every node, every height and distance.
func (c *actx) nodeBattery(dense bool) {
	tr, ref := c.tr, c.ref
	for x := 0; x < c.n; x++ {
		H := ref.Height(x)
		c.chk(int(tr.Height(x)) == H, "blockNode.height", "node %d: height %d, parent walk gives %d", x, tr.Height(x), H)
		for _, h := range heightsAround(H) {
			got, want := tr.Ancestor(x, h), ref.Ancestor(x, int64(h))
			c.chk(got == want, "blockNode.Ancestor", "node %d (height %d).Ancestor(%d) = node %d, parent walk gives %d", x, H, h, got, want)
		}
		for _, d := range heightsAround(H) {
			got, want := tr.RelativeAncestor(x, d), ref.RelativeAncestor(x, int64(d))
			// height-distance is computed in int32 by btcd; a distance whose
			// difference leaves int32 has no ancestor either way.
			c.chk(got == want, "blockNode.RelativeAncestor", "node %d (height %d).RelativeAncestor(%d) = node %d, parent walk gives %d", x, H, d, got, want)
			gotC, isNil := tr.RelativeAncestorCtx(x, d)
			c.chk(gotC == want && isNil == (want < 0), "blockNode.RelativeAncestorCtx", "node %d.RelativeAncestorCtx(%d) = node %d (nil interface %v), parent walk gives %d", x, d, gotC, isNil, want)
		}
		gp, isNil := tr.ParentCtx(x)
		c.chk(gp == ref.Parent[x] && isNil == (ref.Parent[x] < 0), "blockNode.Parent", "node %d.Parent() = %d (nil %v), want %d", x, gp, isNil, ref.Parent[x])
		ys := []int{-1, 0, ref.Parent[x], x, c.n - 1, (x*7 + 3) % c.n, (x + 1) % c.n}
		if dense {
			ys = c.allNodesAndNil()
		}
		for _, y := range ys {
			got, want := tr.IsAncestor(x, y), ref.IsAncestor(x, y)
			c.chk(got == want, "blockNode.IsAncestor", "node %d.IsAncestor(node %d) = %v, parent walk gives %v", x, y, got, want)
		}
	}
}

// viewBattery: every chainView query of the selected view whose tip is tip.
func (c *actx) viewBattery(header bool, tip int, nodes []int) {
	tr, ref := c.tr, c.ref
	name := "chainView"
	wantH := -1
	wantG := -1
	if tip >= 0 {
		wantH = ref.Height(tip)
		wantG = 0
	}
	c.chk(int(tr.ViewHeight(header)) == wantH, name+".Height", "tip %d: Height() = %d want %d", tip, tr.ViewHeight(header), wantH)
	c.chk(tr.ViewTip(header) == tip, name+".Tip", "tip %d: Tip() = node %d", tip, tr.ViewTip(header))
	c.chk(tr.ViewGenesis(header) == wantG, name+".Genesis", "tip %d: Genesis() = node %d want %d", tip, tr.ViewGenesis(header), wantG)
	for _, h := range heightsAround(c.maxH) {
		got, want := tr.ViewNodeByHeight(header, h), ref.AtHeight(tip, int64(h))
		c.chk(got == want, name+".NodeByHeight", "tip %d: NodeByHeight(%d) = node %d, parent walk gives %d", tip, h, got, want)
	}
	for _, x := range nodes {
		if x >= 0 {
			got, want := tr.ViewContains(header, x), ref.On(tip, x)
			c.chk(got == want, name+".Contains", "tip %d: Contains(node %d) = %v, parent walk gives %v", tip, x, got, want)
		}
		got, want := tr.ViewNext(header, x), ref.Next(tip, x)
		c.chk(got == want, name+".Next", "tip %d: Next(node %d) = node %d, parent walk gives %d", tip, x, got, want)
		got, want = tr.ViewFindFork(header, x), ref.FindFork(tip, x)
		c.chk(got == want, name+".FindFork", "tip %d: FindFork(node %d) = node %d, parent walk gives %d", tip, x, got, want)
		lx := x
		if lx < 0 {
			lx = tip
		}
		gl, wl := c.ids(tr.ViewBlockLocator(header, x)), ref.Locator(lx)
		c.chk(eqIDs(gl, wl), name+".BlockLocator", "tip %d: BlockLocator(node %d) = nodes %v, naive (12 back then doubling) %v", tip, x, gl, wl)
	}
}

func (c *actx) allNodesAndNil() []int {
	out := []int{-1}
	for x := 0; x < c.n; x++ {
		out = append(out, x)
	}
	return out
}

// tipTransitions: SetTip(prev) then SetTip(tip) for every ordered pair (nil
// included) must leave the view equal to the parent walk from tip.
func (c *actx) tipTransitions() {
	tr, ref := c.tr, c.ref
	for prev := -1; prev < c.n; prev++ {
		for tip := -1; tip < c.n; tip++ {
			tr.SetTip(prev)
			tr.SetTip(tip)
			wantH := -1
			if tip >= 0 {
				wantH = ref.Height(tip)
			}
			ok := int(tr.ViewHeight(false)) == wantH && tr.ViewTip(false) == tip
			for h := -1; h <= c.maxH+1 && ok; h++ {
				ok = tr.ViewNodeByHeight(false, int32(h)) == ref.AtHeight(tip, int64(h))
			}
			c.chk(ok, "chainView.SetTip", "SetTip(node %d) then SetTip(node %d): view differs from the parent walk root..%d", prev, tip, tip)
		}
	}
}

// exportedBattery: the exported BlockChain queries that depend on the active tip.
func (c *actx) exportedBattery(tip int, dense bool) {
	ref, bc := c.ref, c.tr.Chain
	H := ref.Height(tip)
	for x := -2; x < c.n; x++ {
		h := c.hashOf(x)
		on := x >= 0 && ref.On(tip, x)
		c.chk(bc.MainChainHasBlock(h) == on, "MainChainHasBlock", "tip %d: MainChainHasBlock(node %d) = %v want %v", tip, x, !on, on)
		gh, err := bc.BlockHeightByHash(h)
		if on {
			c.chk(err == nil && int(gh) == ref.Height(x), "BlockHeightByHash", "tip %d: BlockHeightByHash(node %d) = %d, %v; want %d", tip, x, gh, err, ref.Height(x))
		} else {
			c.chk(err != nil, "BlockHeightByHash", "tip %d: BlockHeightByHash(node %d, not on the active chain) = %d without error", tip, x, gh)
		}
		lx := x
		if x < 0 {
			lx = tip // unknown hash: locator of the active tip
		}
		gl, wl := c.locIDs(bc.BlockLocatorFromHash(h)), ref.Locator(lx)
		c.chk(eqIDs(gl, wl), "BlockLocatorFromHash", "tip %d: BlockLocatorFromHash(node %d) = nodes %v, naive %v", tip, x, gl, wl)
		hdr, err := bc.HeaderByHash(h)
		if x >= 0 {
			ok := err == nil && eqIDs(c.hdrIDs([]wire.BlockHeader{hdr}), []int{x})
			c.chk(ok, "HeaderByHash", "HeaderByHash(node %d): err=%v, header hashes to node %v", x, err, c.hdrIDs([]wire.BlockHeader{hdr}))
		} else {
			c.chk(err != nil, "HeaderByHash", "HeaderByHash(unknown) returned no error")
		}
	}
	for _, h := range heightsAround(H) {
		got, err := bc.BlockHashByHeight(h)
		want := ref.AtHeight(tip, int64(h))
		if want < 0 {
			c.chk(err != nil, "BlockHashByHeight", "tip %d: BlockHashByHeight(%d) returned no error", tip, h)
		} else {
			c.chk(err == nil && got != nil && c.idOf(*got) == want, "BlockHashByHeight", "tip %d: BlockHashByHeight(%d): err=%v, want node %d", tip, h, err, want)
		}
	}
	ll, err := bc.LatestBlockLocator()
	c.chk(err == nil && eqIDs(c.locIDs(ll), ref.Locator(tip)), "LatestBlockLocator", "tip %d: LatestBlockLocator = nodes %v (err %v), naive %v", tip, c.locIDs(ll), err, ref.Locator(tip))

	// HeightRange over the full square plus int32 extremes.
	hs := heightsAround(H)
	if !dense {
		hs = []int32{math.MinInt32, -1, 0, 1, int32(H) - 1, int32(H), int32(H) + 1, int32(H) + 2, math.MaxInt32}
	}
	for _, s := range hs {
		for _, e := range hs {
			s, e := s, e
			c.guard("HeightRange", func() string { return fmt.Sprintf("tip %d: HeightRange(%d,%d)", tip, s, e) }, func() {
				got, err := bc.HeightRange(s, e)
				want, wantErr := ref.HeightRange(tip, int64(s), int64(e))
				c.chk((err != nil) == wantErr && (wantErr || eqIDs(c.ids(got), want)), "HeightRange",
					"tip %d (height %d): HeightRange(%d,%d) = nodes %v err=%v; naive %v err=%v", tip, H, s, e, c.ids(got), err, want, wantErr)
			})
		}
	}

	// IntervalBlockHashes (uses the active view as a fast path).
	ends := c.allNodesAndNil()
	intervals := []int{1, 2, 3, c.maxH + 1}
	if !dense {
		intervals = []int{1, 2, 3, 7, 16}
	}
	for _, e := range ends {
		for _, iv := range intervals {
			e, iv := e, iv
			c.guard("IntervalBlockHashes", func() string { return fmt.Sprintf("tip %d: IntervalBlockHashes(node %d, %d)", tip, e, iv) }, func() {
				got, err := bc.IntervalBlockHashes(c.hashOf(e), iv)
				want, wantErr := ref.Interval(e, c.valid(e), iv)
				c.chk((err != nil) == wantErr && (wantErr || eqIDs(c.ids(got), want)), "IntervalBlockHashes",
					"tip %d: IntervalBlockHashes(node %d, interval %d) = nodes %v err=%v; naive %v err=%v", tip, e, iv, c.ids(got), err, want, wantErr)
			})
		}
	}

	// ChainTips
	c.guard("ChainTips", func() string { return fmt.Sprintf("tip %d: ChainTips", tip) }, func() {
		got := bc.ChainTips()
		want := ref.ChainTips(tip, nil)
		type row struct {
			node, height, branch int
			active               bool
		}
		var g []row
		for _, t := range got {
			g = append(g, row{c.idOf(t.BlockHash), int(t.Height), int(t.BranchLen), t.Status == blockchain.StatusActive})
		}
		sort.Slice(g, func(i, j int) bool { return g[i].node < g[j].node })
		ok := len(g) == len(want)
		for i := 0; ok && i < len(g); i++ {
			ok = g[i] == row{want[i].Node, want[i].Height, want[i].BranchLen, want[i].Active}
		}
		c.chk(ok, "ChainTips", "tip %d: ChainTips = %v (node,height,branchLen,active), naive %v", tip, g, want)
	})
}

// heightToHashRangeBattery is independent of the active tip.
func (c *actx) heightToHashRangeBattery() {
	bc, ref := c.tr.Chain, c.ref
	for _, e := range c.allNodesAndNil() {
		for _, s := range heightsAround(c.maxH) {
			for _, max := range []int{0, 1, 2, c.n} {
				e, s, max := e, s, max
				c.guard("HeightToHashRange", func() string { return fmt.Sprintf("HeightToHashRange(%d, node %d, %d)", s, e, max) }, func() {
					got, err := bc.HeightToHashRange(s, c.hashOf(e), max)
					want, wantErr := ref.HeightToHashRange(int64(s), e, c.valid(e), max)
					c.chk((err != nil) == wantErr && (wantErr || eqIDs(c.ids(got), want)), "HeightToHashRange",
						"HeightToHashRange(start %d, end node %d, max %d) = nodes %v err=%v; naive %v err=%v", s, e, max, c.ids(got), err, want, wantErr)
				})
			}
		}
	}
}

// one locate query against both inventory functions.
func (c *actx) locateOne(tip int, loc []int, stop int, max int, both bool) {
	ref, bc := c.ref, c.tr.Chain
	bl := make(blockchain.BlockLocator, len(loc))
	for i, l := range loc {
		bl[i] = c.hashOf(l)
	}
	sh := c.hashOf(stop)
	refStop := stop
	if refStop < 0 {
		refStop = -1
	}
	want := ref.Locate(tip, loc, refStop, max)
	okFor := func(got []int) bool {
		if len(loc) == 0 && max == 0 {
			// "treated as a request for that block": the limit is not part of the
			// special case's contract; both answers are accepted.
			return len(got) == 0 || eqIDs(got, want)
		}
		return eqIDs(got, want)
	}
	gb := c.ids(bc.LocateBlocks(bl, sh, uint32(max)))
	c.chk(okFor(gb), "LocateBlocks", "tip %d: LocateBlocks(locator nodes %v, stop node %d, max %d) = nodes %v; naive walk %v (-1 = unknown hash, -2 = zero hash)", tip, loc, stop, max, gb, want)
	if both || max != wire.MaxBlockHeadersPerMsg {
		gh := c.hdrIDs(c.tr.LocateHeadersMax(bl, sh, uint32(max)))
		c.chk(okFor(gh), "locateHeaders", "tip %d: locateHeaders(locator nodes %v, stop node %d, max %d) = nodes %v; naive walk %v", tip, loc, stop, max, gh, want)
	}
	if max == wire.MaxBlockHeadersPerMsg {
		ge := c.hdrIDs(bc.LocateHeaders(bl, sh))
		c.chk(okFor(ge), "LocateHeaders", "tip %d: LocateHeaders(locator nodes %v, stop node %d) = nodes %v; naive walk %v", tip, loc, stop, ge, want)
	}
}

// locateBattery: locators {empty, [unknown], [x], [x,y] for every ordered pair,
// [unknown,x], [x,unknown], the proper locator of every node} x stop in {every
// node, zero, unknown} x max in {0,1,2,2000}.
func (c *actx) locateBattery(tip int) {
	var locs [][]int
	locs = append(locs, nil, []int{-1})
	for x := 0; x < c.n; x++ {
		locs = append(locs, []int{x}, []int{-1, x}, []int{x, -1})
		for y := 0; y < c.n; y++ {
			if y != x {
				locs = append(locs, []int{x, y})
			}
		}
		if l := c.ref.Locator(x); len(l) > 2 {
			locs = append(locs, l)
		}
	}
	stops := []int{-2, -1}
	for x := 0; x < c.n; x++ {
		stops = append(stops, x)
	}
	for _, loc := range locs {
		for _, stop := range stops {
			for _, max := range []int{0, 1, 2, wire.MaxBlockHeadersPerMsg} {
				c.locateOne(tip, loc, stop, max, true)
			}
		}
	}
}

// headerBattery: the best-header view and the exported header queries for a
// given (active tip, header tip) pair.
func (c *actx) headerBattery(tip, hdrTip int) {
	tr, ref, bc := c.tr, c.ref, c.tr.Chain
	tr.SetHeaderTip(hdrTip)
	c.viewBattery(true, hdrTip, c.allNodesAndNil())
	bh, bht := bc.BestHeader()
	c.chk(c.idOf(bh) == hdrTip && int(bht) == ref.Height(hdrTip), "BestHeader", "header tip %d: BestHeader = node %d height %d", hdrTip, c.idOf(bh), bht)
	fork := ref.FindFork(tip, hdrTip)
	c.chk(int(bc.BestChainHeaderForkHeight()) == ref.Height(fork), "BestChainHeaderForkHeight", "tip %d, header tip %d: BestChainHeaderForkHeight = %d, parent walks meet at node %d height %d", tip, hdrTip, bc.BestChainHeaderForkHeight(), fork, ref.Height(fork))
	for _, h := range heightsAround(c.maxH) {
		got, err := bc.HeaderHashByHeight(h)
		want := ref.AtHeight(hdrTip, int64(h))
		if want < 0 {
			c.chk(err != nil, "HeaderHashByHeight", "header tip %d: HeaderHashByHeight(%d) returned no error", hdrTip, h)
		} else {
			c.chk(err == nil && got != nil && c.idOf(*got) == want, "HeaderHashByHeight", "header tip %d: HeaderHashByHeight(%d): err=%v want node %d", hdrTip, h, err, want)
		}
	}
	for x := -2; x < c.n; x++ {
		on := x >= 0 && ref.On(hdrTip, x)
		gh, err := bc.HeaderHeightByHash(*c.hashOf(x))
		if on {
			c.chk(err == nil && int(gh) == ref.Height(x), "HeaderHeightByHash", "header tip %d: HeaderHeightByHash(node %d) = %d, %v", hdrTip, x, gh, err)
		} else {
			c.chk(err != nil, "HeaderHeightByHash", "header tip %d: HeaderHeightByHash(node %d, not on the header chain) = %d without error", hdrTip, x, gh)
		}
		// not on the header chain or flagged itself: false; clean up to the root:
		// true; own status clean under a flagged ancestor (the synthetic status
		// pattern does not propagate flags): not judged.
		invAbove := false
		for y := x; y > 0; y = ref.Parent[y] {
			invAbove = invAbove || c.knownInvalid(y)
		}
		if !on || c.knownInvalid(x) || !invAbove {
			want := on && !c.knownInvalid(x)
			c.chk(bc.IsValidHeader(c.hashOf(x)) == want, "IsValidHeader", "header tip %d: IsValidHeader(node %d) = %v want %v (on header chain %v, status %#x)", hdrTip, x, !want, want, on, c.statusOf(x))
		}
	}
	ll, err := bc.LatestBlockLocatorByHeader()
	c.chk(err == nil && eqIDs(c.locIDs(ll), ref.Locator(hdrTip)), "LatestBlockLocatorByHeader", "header tip %d: LatestBlockLocatorByHeader = nodes %v, naive %v", hdrTip, c.locIDs(ll), ref.Locator(hdrTip))
}

func (c *actx) statusOf(x int) byte {
	if x < 0 {
		return 0
	}
	return c.status[x]
}

// runShape executes the whole index-only battery for one tree shape: every node
// as active tip, every node as header tip.
func runShape(parents []int, report func(fn, what string)) int64 {
	c := newActx(parents, statusPattern(len(parents)), report)
	c.guard("index", func() string { return "index-only battery" }, func() {
		c.nodeBattery(true)
		c.heightToHashRangeBattery()
		c.tipTransitions()
		// uninitialised view
		c.tr.SetTip(-1)
		c.viewBattery(false, -1, c.allNodesAndNil())
		for tip := 0; tip < c.n; tip++ {
			c.tr.SetTip(tip)
			c.viewBattery(false, tip, c.allNodesAndNil())
			c.exportedBattery(tip, true)
			c.locateBattery(tip)
			for ht := 0; ht < c.n; ht++ {
				c.headerBattery(tip, ht)
			}
		}
	})
	return c.evals
}

// runDepth executes the deep two-branch battery for one fork height: a trunk of
// f blocks above genesis and two linear branches A and B of L blocks each.
// Every prefix of A is taken as the active chain, every prefix of A and of B as
// the queried node.
func runDepth(f, L int, report func(fn, what string)) int64 {
	n := 1 + f + 2*L
	parents := make([]int, n)
	parents[0] = -1
	for i := 1; i <= f; i++ {
		parents[i] = i - 1
	}
	A := func(k int) int {
		if k == 0 {
			return f
		}
		return f + k
	}
	B := func(k int) int {
		if k == 0 {
			return f
		}
		return f + L + k
	}
	for k := 1; k <= L; k++ {
		parents[A(k)] = A(k - 1)
		parents[B(k)] = B(k - 1)
	}
	st := make([]byte, n)
	for i := range st {
		st[i] = stBase | stValid
	}
	c := newActx(parents, st, report)
	ref, tr, bc := c.ref, c.tr, c.tr.Chain
	c.guard("index", func() string { return "deep two-branch battery" }, func() {
		c.nodeBattery(false)
		// alternate between the branches so that SetTip has to rewrite the view
		for k := 0; k <= L; k++ {
			for _, tip := range []int{A(k), B(L - k), A(L - k), -1, B(k)} {
				tr.SetTip(tip)
				ok := true
				for h := -1; h <= c.maxH+1 && ok; h++ {
					ok = tr.ViewNodeByHeight(false, int32(h)) == ref.AtHeight(tip, int64(h))
				}
				c.chk(ok, "chainView.SetTip", "deep: after switching to node %d the view differs from the parent walk", tip)
			}
		}
		for a := 0; a <= L; a++ {
			tip := A(a)
			tr.SetTip(tip)
			ll, err := bc.LatestBlockLocator()
			c.chk(err == nil && eqIDs(c.locIDs(ll), ref.Locator(tip)), "LatestBlockLocator", "deep tip %d (height %d): LatestBlockLocator = nodes %v, naive %v", tip, ref.Height(tip), c.locIDs(ll), ref.Locator(tip))
			if a%8 == 0 || a == L {
				c.exportedBattery(tip, false)
			}
			var xs []int
			for k := 0; k <= L; k++ {
				xs = append(xs, B(k))
				if k > 0 {
					xs = append(xs, A(k))
				}
			}
			c.viewBattery(false, tip, xs)
			for _, x := range xs {
				wl := ref.Locator(x)
				gl := c.locIDs(bc.BlockLocatorFromHash(c.hp[x]))
				c.chk(eqIDs(gl, wl), "BlockLocatorFromHash", "deep tip %d: BlockLocatorFromHash(node %d) = nodes %v, naive %v", tip, x, gl, wl)
				c.locateOne(tip, wl, -2, wire.MaxBlockHeadersPerMsg, false)
				for _, iv := range []int{1, 2, 3, 7, 16} {
					got, err := bc.IntervalBlockHashes(c.hp[x], iv)
					want, _ := ref.Interval(x, true, iv)
					c.chk(err == nil && eqIDs(c.ids(got), want), "IntervalBlockHashes", "deep tip %d: IntervalBlockHashes(node %d, %d) = nodes %v err=%v; naive %v", tip, x, iv, c.ids(got), err, want)
				}
			}
		}
		// header view on B against active chain on A
		for k := 0; k <= L; k += 7 {
			tr.SetTip(A(L - k))
			c.headerBattery(A(L-k), B(k))
		}
	})
	return c.evals
}
