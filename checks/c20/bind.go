package main

import (
	"bytes"
	"encoding/binary"
	"encoding/hex"
	"sync/atomic"

	"github.com/btcsuite/btcd/address/v2"
	"github.com/btcsuite/btcd/btcutil/v2"
	"github.com/btcsuite/btcd/chaincfg/v2"
	"github.com/btcsuite/btcd/wire/v2"

	"verif/engine/ev"
	"verif/lab"
	"verif/ref/refbloom"
	"verif/ref/refgcs"
)

func mustHex(s string) []byte {
	b, err := hex.DecodeString(s)
	if err != nil {
		panic(err)
	}
	return b
}

// revHex decodes a hash given in display (big endian) order into internal order.
func revHex(s string) [32]byte {
	b := mustHex(s)
	var h [32]byte
	for i := 0; i < 32; i++ {
		h[i] = b[31-i]
	}
	return h
}

// toRefTx converts a wire transaction into the reference's view of it.
func toRefTx(tx *wire.MsgTx) *refbloom.Tx {
	t := &refbloom.Tx{TxID: lab.TxID(tx)}
	for _, o := range tx.TxOut {
		t.Outs = append(t.Outs, o.PkScript)
	}
	for _, in := range tx.TxIn {
		t.Ins = append(t.Ins, refbloom.TxIn{PrevTxID: in.PreviousOutPoint.Hash, PrevIndex: in.PreviousOutPoint.Index, ScriptSig: in.SignatureScript})
	}
	return t
}

// literal vectors copied from /repo/btcutil/bloom/filter_test.go (TestFilterBloomMatch)
const bloomMatchTxHex = "01000000010b26e9b7735eb6aabdf358bab62f9816a21ba9ebdb719d5299e" +
	"88607d722c190000000008b4830450220070aca44506c5cef3a16ed519d7" +
	"c3c39f8aab192c4e1c90d065f37b8a4af6141022100a8e160b856c2d43d2" +
	"7d8fba71e5aef6405b8643ac4cb7cb3c462aced7f14711a0141046d11fee" +
	"51b0e60666d5049a9101a72741df480b96ee26488a4d3466b95c9a40ac5e" +
	"eef87e10a5cd336c19a84565f80fa6c547957b7700ff4dfbdefe76036c33" +
	"9ffffffff021bff3d11000000001976a91404943fdd508053c75000106d3" +
	"bc6e2754dbcff1988ac2f15de00000000001976a914a266436d296554760" +
	"8b9e15d9032a7b9d64fa43188ac00000000"

// /repo/btcutil/bloom/merkleblock_test.go (TestMerkleBlock3): expected merkleblock message
const merkleBlock3Want = "0100000079cda856b143d9db2c1caff01d1aecc8630d30625d10e8b4" +
	"b8b0000000000000b50cc069d6a3e33e3ff84a5c41d9d3febe7c770fdcc" +
	"96b2c3ff60abe184f196367291b4d4c86041b8fa45d630100000001b50c" +
	"c069d6a3e33e3ff84a5c41d9d3febe7c770fdcc96b2c3ff60abe184f196" +
	"30101"

// parsedMerkleBlock is a naive parse of a merkleblock payload.
type parsedMerkleBlock struct {
	header [80]byte
	nTx    uint32
	hashes [][32]byte
	flags  []byte
}

func readCompact(b []byte) (uint64, []byte, bool) {
	if len(b) < 1 {
		return 0, nil, false
	}
	switch b[0] {
	case 0xfd:
		if len(b) < 3 {
			return 0, nil, false
		}
		return uint64(binary.LittleEndian.Uint16(b[1:])), b[3:], true
	case 0xfe:
		if len(b) < 5 {
			return 0, nil, false
		}
		return uint64(binary.LittleEndian.Uint32(b[1:])), b[5:], true
	case 0xff:
		if len(b) < 9 {
			return 0, nil, false
		}
		return binary.LittleEndian.Uint64(b[1:]), b[9:], true
	}
	return uint64(b[0]), b[1:], true
}

func parseMerkleBlock(b []byte) (*parsedMerkleBlock, bool) {
	p := &parsedMerkleBlock{}
	if len(b) < 84 {
		return nil, false
	}
	copy(p.header[:], b[:80])
	p.nTx = binary.LittleEndian.Uint32(b[80:])
	b = b[84:]
	n, rest, ok := readCompact(b)
	if !ok || n > uint64(len(rest))/32 {
		return nil, false
	}
	for i := uint64(0); i < n; i++ {
		var h [32]byte
		copy(h[:], rest[:32])
		rest = rest[32:]
		p.hashes = append(p.hashes, h)
	}
	n, rest, ok = readCompact(rest)
	if !ok || n != uint64(len(rest)) {
		return nil, false
	}
	p.flags = append([]byte(nil), rest...)
	return p, true
}

// bindReferences runs every vector the repo ships (plus the official SipHash
// vectors and the BIP158 testnet genesis vector) through the references.  Any
// disagreement is a broken oracle (exit 2), never a violation.
func bindReferences(r *ev.Run, light bool) {
	var n int64
	// --- SipHash-2-4 official vectors
	var key [16]byte
	for i := range key {
		key[i] = byte(i)
	}
	msg := make([]byte, 64)
	for i, want := range refgcs.SipVectors64 {
		msg[i] = byte(i)
		got := refgcs.SipHash24(key, msg[:i])
		if got != binary.LittleEndian.Uint64(mustHex(want)) {
			r.Broken("reference SipHash-2-4 disagrees with official vector #%d: got %016x want(le) %s", i, got, want)
		}
		n++
	}
	// --- multiply-shift: bits.Mul64 against math/big at boundary operands
	edge := []uint64{0, 1, 2, 3, 1<<32 - 1, 1 << 32, 1<<32 + 1, 1<<63 - 1, 1 << 63, 1<<63 + 1, ^uint64(0) - 1, ^uint64(0), 784931, 13 * 784931, 5 * (1<<32 - 1), 0x0123456789abcdef, 0xfedcba9876543210}
	for _, a := range edge {
		for _, b := range edge {
			if refgcs.Reduce(a, b) != refgcs.ReduceBig(a, b) {
				r.Broken("reference Reduce(%x,%x) disagrees with math/big", a, b)
			}
			n++
		}
	}
	// --- Golomb-Rice self inverse on boundary values
	for P := uint8(1); P <= 32; P++ {
		vals := []uint64{0, 1, (1 << P) - 1, 1 << P, (1 << P) + 1, 3<<P - 1, 70 << P, (70 << P) + 1}
		var w refgcs.BitWriter
		for _, v := range vals {
			refgcs.GolombEncode(&w, v, P)
		}
		rd := refgcs.NewBitReader(w.Bytes())
		for _, v := range vals {
			got, err := refgcs.GolombDecode(rd, P)
			if err != nil || got != v {
				r.Broken("reference Golomb-Rice coding is not self-inverse at P=%d v=%d", P, v)
			}
			n++
		}
	}
	// --- shipped vector: gcs_test.go TestGCSMatchZeroHash.  With key K, N=13,
	// M=784931 the first big-endian 32-bit value whose hash reduces to 0 is 16060032.
	zkey := [16]byte{0x25, 0x28, 0x0d, 0x25, 0x26, 0xe1, 0xd3, 0xc7, 0xa5, 0x71, 0x85, 0x34, 0x92, 0xa5, 0x7e, 0x68}
	const zTarget = 16060032
	F := uint64(13) * 784931
	var be [4]byte
	binary.BigEndian.PutUint32(be[:], zTarget)
	if refgcs.HashToRange(zkey, be[:], F) != 0 {
		r.Broken("reference hash-to-range disagrees with shipped TestGCSMatchZeroHash vector (target does not reduce to 0)")
	}
	limit := uint32(zTarget)
	if light {
		limit = 13
	}
	var early int64 = -1
	const chunk = 1 << 16
	nChunks := (int(limit) + chunk - 1) / chunk
	ev.Par(nChunks, workers, func(ci int) {
		var b [4]byte
		lo := uint32(ci * chunk)
		hi := lo + chunk
		if hi > limit {
			hi = limit
		}
		for v := lo; v < hi; v++ {
			binary.BigEndian.PutUint32(b[:], v)
			if refgcs.HashToRange(zkey, b[:], F) == 0 {
				atomic.StoreInt64(&early, int64(v))
			}
		}
	})
	if early >= 0 {
		r.Broken("reference hash-to-range disagrees with shipped TestGCSMatchZeroHash vector: %d already reduces to 0", early)
	}
	n += int64(limit) + 1
	// --- BIP158 test vector (testnet-19.json, height 0): genesis block of testnet3,
	// no spent outputs: basic filter 019dfca8, header 21584579...b750.
	{
		g := chaincfg.TestNet3Params.GenesisBlock
		var outs [][]byte
		for _, tx := range g.Transactions {
			for _, o := range tx.TxOut {
				outs = append(outs, o.PkScript)
			}
		}
		h := g.Header
		bh := refgcs.HeaderHash80(h.Version, h.PrevBlock, h.MerkleRoot, uint32(h.Timestamp.Unix()), h.Bits, h.Nonce)
		if bh != revHex("000000000933ea01ad0ee984209779baaec3ced90fa3f408719526f8d77f4943") {
			r.Broken("reference header hash disagrees with the testnet3 genesis hash")
		}
		f := refgcs.BasicFilter(bh, refgcs.BasicElements(outs, nil))
		if !bytes.Equal(f, mustHex("019dfca8")) {
			r.Broken("reference basic filter disagrees with BIP158 testnet vector height 0: got %x want 019dfca8", f)
		}
		hdr := refgcs.FilterHeader(refgcs.FilterHash(f), [32]byte{})
		if hdr != revHex("21584579b7eb08997773e5aeff3a7f932700042d0ed2a6129012b7d7ae81b750") {
			r.Broken("reference filter header disagrees with BIP158 testnet vector height 0: got %x", hdr)
		}
		n += 3
	}
	// --- murmurhash3_test.go
	mv := []struct {
		seed uint32
		data []byte
		out  uint32
	}{
		{0x00000000, []byte{}, 0x00000000},
		{0xfba4c795, []byte{}, 0x6a396f08},
		{0xffffffff, []byte{}, 0x81f16f39},
		{0x00000000, []byte{0x00}, 0x514e28b7},
		{0xfba4c795, []byte{0x00}, 0xea3f0b17},
		{0x00000000, []byte{0xff}, 0xfd6cf10d},
		{0x00000000, []byte{0x00, 0x11}, 0x16c6b7ab},
		{0x00000000, []byte{0x00, 0x11, 0x22}, 0x8eb51c3d},
		{0x00000000, []byte{0x00, 0x11, 0x22, 0x33}, 0xb4471bf8},
		{0x00000000, []byte{0x00, 0x11, 0x22, 0x33, 0x44}, 0xe2301fa8},
		{0x00000000, []byte{0x00, 0x11, 0x22, 0x33, 0x44, 0x55}, 0xfc2e4a15},
		{0x00000000, []byte{0x00, 0x11, 0x22, 0x33, 0x44, 0x55, 0x66}, 0xb074502c},
		{0x00000000, []byte{0x00, 0x11, 0x22, 0x33, 0x44, 0x55, 0x66, 0x77}, 0x8034d2a0},
		{0x00000000, []byte{0x00, 0x11, 0x22, 0x33, 0x44, 0x55, 0x66, 0x77, 0x88}, 0xb4698def},
	}
	for i, v := range mv {
		if got := refbloom.Murmur3(v.seed, v.data); got != v.out {
			r.Broken("reference murmur3 disagrees with shipped vector #%d: got %08x want %08x", i, got, v.out)
		}
		n++
	}
	// --- filter_test.go: TestFilterInsert / TestFilterInsertWithTweak
	ins := []struct {
		hex string
		in  bool
	}{
		{"99108ad8ed9bb6274d3980bab5a85c048f0950c8", true},
		{"19108ad8ed9bb6274d3980bab5a85c048f0950c8", false},
		{"b5a2c786d9ef4658287ced5914b37a1b4aa32eee", true},
		{"b9300670b4c5366e95b2699e8b18bc75e5f729c5", true},
	}
	for _, tv := range []struct {
		tweak uint32
		want  string
	}{{0, "03614e9b050000000000000001"}, {2147483649, "03ce4299050000000100008001"}} {
		f := refbloom.New(3, tv.tweak, 0.01, refbloom.UpdateAll)
		for i, it := range ins {
			d := mustHex(it.hex)
			if it.in {
				f.Insert(d)
			}
			if f.Contains(d) != it.in {
				r.Broken("reference bloom filter disagrees with shipped TestFilterInsert step %d (tweak %d)", i, tv.tweak)
			}
		}
		if !bytes.Equal(f.Serialize(), mustHex(tv.want)) {
			r.Broken("reference bloom filter serialization %x disagrees with shipped vector %s", f.Serialize(), tv.want)
		}
		n++
	}
	// --- filter_test.go: TestFilterFPRange
	{
		h := revHex("02981fa052f0481dbc5868f4fc2166035a10f27a03cfd2de67326471df5bc041")
		for _, tv := range []struct {
			p    float64
			want string
		}{{20.9999999769, "00000000000000000001"}, {0, "0566d97a91a91b0000000000000001"}, {-1, "0566d97a91a91b0000000000000001"}} {
			f := refbloom.New(1, 0, tv.p, refbloom.UpdateAll)
			f.Insert(h[:])
			if !bytes.Equal(f.Serialize(), mustHex(tv.want)) {
				r.Broken("reference bloom sizing/insert %x disagrees with shipped TestFilterFPRange vector %s", f.Serialize(), tv.want)
			}
			n++
		}
	}
	// --- filter_test.go: TestFilterInsertKey
	{
		wif, err := btcutil.DecodeWIF("5Kg1gnAjaLfKiwhhPpGS3QfRg2m6awQvaj98JCZBZQ5SuS2F15C")
		if err != nil {
			r.Broken("cannot decode the shipped WIF: %v", err)
		}
		f := refbloom.New(2, 0, 0.001, refbloom.UpdateAll)
		f.Insert(wif.SerializePubKey())
		f.Insert(address.Hash160(wif.SerializePubKey()))
		if !bytes.Equal(f.Serialize(), mustHex("038fc16b080000000000000001")) {
			r.Broken("reference bloom filter %x disagrees with shipped TestFilterInsertKey vector", f.Serialize())
		}
		n++
	}
	// --- filter_test.go: TestFilterBloomMatch (relevance of one real transaction)
	{
		var tx wire.MsgTx
		if err := tx.Deserialize(bytes.NewReader(mustHex(bloomMatchTxHex))); err != nil {
			r.Broken("cannot parse shipped tx: %v", err)
		}
		rt := toRefTx(&tx)
		if rt.TxID != revHex("b4749f017444b051c44dfd2720e88f314ff94f3dd6d56d40ef65854fcd7fff6b") {
			r.Broken("txid of the shipped TestFilterBloomMatch transaction differs")
		}
		prev := revHex("90c122d70786e899529d71dbeba91ba216982fb6ba58f3bdaab65e73b7e9260b")
		prevBad := revHex("000000d70786e899529d71dbeba91ba216982fb6ba58f3bdaab65e73b7e9260b")
		other := revHex("00000009e784f32f62ef849763d4f45b98e07ba658647343b915ff832b110436")
		cases := []struct {
			item []byte
			want bool
		}{
			{rt.TxID[:], true},
			{mustHex("6bff7fcd4f8565ef406dd5d63d4ff94f318fe82027fd4dc451b04474019f74b4"), true},
			{mustHex("30450220070aca44506c5cef3a16ed519d7c3c39f8aab192c4e1c90d065f37b8a4af6141022100a8e160b856c2d43d27d8fba71e5aef6405b8643ac4cb7cb3c462aced7f14711a01"), true},
			{mustHex("046d11fee51b0e60666d5049a9101a72741df480b96ee26488a4d3466b95c9a40ac5eeef87e10a5cd336c19a84565f80fa6c547957b7700ff4dfbdefe76036c339"), true},
			{mustHex("04943fdd508053c75000106d3bc6e2754dbcff19"), true},
			{mustHex("a266436d2965547608b9e15d9032a7b9d64fa431"), true},
			{refbloom.OutPointBytes(prev, 0), true},
			{other[:], false},
			{mustHex("0000006d2965547608b9e15d9032a7b9d64fa431"), false},
			{refbloom.OutPointBytes(prev, 1), false},
			{refbloom.OutPointBytes(prevBad, 0), false},
		}
		for i, c := range cases {
			f := refbloom.New(10, 0, 0.000001, refbloom.UpdateAll)
			f.Insert(c.item)
			if got := f.IsRelevantAndUpdate(rt); got != c.want {
				r.Broken("reference BIP37 relevance disagrees with shipped TestFilterBloomMatch case %d: got %v want %v", i, got, c.want)
			}
			if i == 4 {
				// the test then expects a transaction spending output 0 to match
				if !f.Contains(refbloom.OutPointBytes(rt.TxID, 0)) {
					r.Broken("reference BIP37 update (BLOOM_UPDATE_ALL) did not insert the matched outpoint")
				}
			}
			n++
		}
	}
	// --- merkleblock_test.go: TestMerkleBlock3
	{
		p, ok := parseMerkleBlock(mustHex(merkleBlock3Want))
		if !ok {
			r.Broken("cannot parse the shipped merkleblock vector")
		}
		ex, err := refbloom.Extract(p.nTx, p.hashes, p.flags)
		if err != nil {
			r.Broken("reference extraction rejects the shipped TestMerkleBlock3 vector: %v", err)
		}
		var root [32]byte
		copy(root[:], p.header[36:68])
		want := revHex("63194f18be0af63f2c6bc9dc0f777cbefed3d9415c4af83f3ee3a3d669c00cb5")
		if ex.Root != root || len(ex.Matched) != 1 || ex.Matched[0] != want {
			r.Broken("reference extraction disagrees with the shipped TestMerkleBlock3 vector")
		}
		n++
	}
	// --- reference construction and extraction are mutually inverse (n <= 9, all subsets)
	if !light {
		for nt := 1; nt <= 9; nt++ {
			ids := make([][32]byte, nt)
			for i := range ids {
				ids[i] = refbloom.DSHA([]byte{byte(nt), byte(i)})
			}
			root := refbloom.MerkleRoot(ids)
			for mask := 0; mask < 1<<uint(nt); mask++ {
				m := make([]bool, nt)
				var want [][32]byte
				for i := 0; i < nt; i++ {
					if mask>>uint(i)&1 == 1 {
						m[i] = true
						want = append(want, ids[i])
					}
				}
				bits, hashes := refbloom.BuildPartial(ids, m)
				ex, err := refbloom.Extract(uint32(nt), hashes, refbloom.PackBits(bits))
				if err != nil || ex.Root != root || len(ex.Matched) != len(want) {
					r.Broken("reference partial merkle tree build/extract not inverse at n=%d mask=%b: %v", nt, mask, err)
				}
				for i := range want {
					if ex.Matched[i] != want[i] {
						r.Broken("reference partial merkle tree build/extract not inverse at n=%d mask=%b", nt, mask)
					}
				}
				n++
			}
		}
	}
	r.Add("reference_binding_vectors", n)
}
