package main

import (
	"bytes"
	"encoding/binary"
	"fmt"
	"sort"

	"github.com/btcsuite/btcd/btcutil/v2/gcs"

	"verif/engine/ev"
	"verif/ref/refgcs"
)

// ---------------------------------------------------------------------------
// small multisets

// gcsAlphabet: empty element, single bytes, exactly one SipHash block (8 bytes),
// one block + 1 byte, a 25-byte script.
var gcsAlphabet = [][]byte{
	{},
	{0x00},
	{0x01},
	[]byte("abcdefgh"),
	[]byte("abcdefghi"),
	mustHex("76a91404943fdd508053c75000106d3bc6e2754dbcff1988ac"),
}

var gcsKeys = [][16]byte{
	{},
	{0, 1, 2, 3, 4, 5, 6, 7, 8, 9, 10, 11, 12, 13, 14, 15},
	{0x4c, 0xb1, 0xab, 0x12, 0x57, 0x62, 0x1e, 0x41, 0x3b, 0x8b, 0x0e, 0x26, 0x64, 0x8d, 0x4a, 0x15},
}

var gcsMs = []uint64{1, 2, 784931, 1<<32 - 1}

// maxUnary bounds the length of a unary run: (P, M) pairs whose largest possible
// quotient (Nmax*M)>>P exceeds it are not part of the product space (the filter
// would be megabytes); long unary runs are covered by separate directed cases.
const maxUnary = 1 << 13

// GCSCase is one (multiset, P, M, key) tuple.  Elems are indices into gcsAlphabet
// (non-decreasing).
type GCSCase struct {
	P     uint8  `json:"p"`
	M     uint64 `json:"m"`
	Key   int    `json:"key"`
	Elems []int  `json:"elems"`
}

func multisets(maxLen, alpha int) [][]int {
	var out [][]int
	var rec func(cur []int, min int)
	rec = func(cur []int, min int) {
		out = append(out, append([]int(nil), cur...))
		if len(cur) == maxLen {
			return
		}
		for e := min; e < alpha; e++ {
			rec(append(cur, e), e)
		}
	}
	rec(nil, 0)
	// simplest first: by length, then lexicographic
	sort.SliceStable(out, func(i, j int) bool { return len(out[i]) < len(out[j]) })
	return out
}

type anyFn struct {
	name string
	f    func(*gcs.Filter, [16]byte, [][]byte) (bool, error)
}

var anyFns = []anyFn{
	{"MatchAny", func(f *gcs.Filter, k [16]byte, d [][]byte) (bool, error) { return f.MatchAny(k, d) }},
	{"ZipMatchAny", func(f *gcs.Filter, k [16]byte, d [][]byte) (bool, error) { return f.ZipMatchAny(k, d) }},
	{"HashMatchAny", func(f *gcs.Filter, k [16]byte, d [][]byte) (bool, error) { return f.HashMatchAny(k, d) }},
}

// trunc32Explains reports whether HashMatchAny's answer "true" for the query is
// explained by comparing only the low 32 bits of the values.
func trunc32Explains(vals []uint64, M uint64, key [16]byte, query [][]byte) bool {
	F := uint64(len(vals)) * M
	low := map[uint32]bool{}
	for _, v := range vals {
		low[uint32(v)] = true
	}
	for _, q := range query {
		if low[uint32(refgcs.HashToRange(key, q, F))] {
			return true
		}
	}
	return false
}

func runGCS(c *GCSCase) (fs []finding) {
	key := gcsKeys[c.Key]
	items := make([][]byte, len(c.Elems))
	inserted := make([]bool, len(gcsAlphabet))
	for i, e := range c.Elems {
		items[i] = gcsAlphabet[e]
		inserted[e] = true
	}
	id := fmt.Sprintf("P=%d M=%d key#%d elems=%v", c.P, c.M, c.Key, c.Elems)
	fail := func(class, format string, a ...interface{}) {
		fs = append(fs, finding{class, fmt.Sprintf(format, a...) + " [" + id + "]"})
	}

	// copy the input: the filter must not depend on (or disturb) the caller's slices
	in := make([][]byte, len(items))
	for i := range items {
		in[i] = append([]byte(nil), items[i]...)
	}
	f, err := gcs.BuildGCSFilter(c.P, c.M, key, in)
	if err != nil {
		fail("gcs/build-error", "BuildGCSFilter failed: %v", err)
		return
	}
	for i := range items {
		if !bytes.Equal(in[i], items[i]) {
			fail("gcs/build-mutates-input", "BuildGCSFilter changed its input element %d", i)
		}
	}
	// --- reference
	N := uint32(len(items))
	vals := refgcs.Values(c.M, key, items)
	want := refgcs.Build(c.P, c.M, key, items)
	if back, err := refgcs.Decode(N, c.P, want); err != nil || len(back) != len(vals) {
		panic("reference stream does not decode")
	}
	refMatch := make([]bool, len(gcsAlphabet))
	for e, el := range gcsAlphabet {
		refMatch[e] = N > 0 && refgcs.MatchValue(vals, c.M, key, el)
		if inserted[e] && !refMatch[e] {
			panic("reference has a false negative")
		}
	}

	// --- serialisation
	if f.N() != N || f.P() != c.P {
		fail("gcs/metadata", "N()=%d P()=%d, want %d %d", f.N(), f.P(), N, c.P)
	}
	raw, err := f.Bytes()
	if err != nil || !bytes.Equal(raw, want) {
		fail("gcs/bytes", "Bytes()=%x err=%v, BIP158 stream is %x", raw, err, want)
	}
	nb, err := f.NBytes()
	if err != nil || !bytes.Equal(nb, refgcs.NBytes(N, want)) {
		fail("gcs/nbytes", "NBytes()=%x err=%v, want %x", nb, err, refgcs.NBytes(N, want))
	}
	pb, err := f.PBytes()
	if err != nil || !bytes.Equal(pb, append([]byte{c.P}, want...)) {
		fail("gcs/pbytes", "PBytes()=%x err=%v, want %02x||%x", pb, err, c.P, want)
	}
	npb, err := f.NPBytes()
	wantNP := append(append(refgcs.CompactSize(uint64(N)), c.P), want...)
	if err != nil || !bytes.Equal(npb, wantNP) {
		fail("gcs/npbytes", "NPBytes()=%x err=%v, want %x", npb, err, wantNP)
	}

	// --- round trips: the three ways to get a filter back
	filters := []struct {
		name string
		f    *gcs.Filter
	}{{"built", f}}
	if raw != nil {
		// deserialised from a receive buffer that the caller then re-uses: the
		// filter must own its data
		scratch := append([]byte(nil), raw...)
		g, err := gcs.FromBytes(f.N(), f.P(), c.M, scratch)
		for i := range scratch {
			scratch[i] ^= 0xa5
		}
		if err != nil {
			fail("gcs/roundtrip", "FromBytes(Bytes()) failed: %v", err)
		} else {
			filters = append(filters, struct {
				name string
				f    *gcs.Filter
			}{"FromBytes", g})
		}
	}
	if nb != nil {
		scratch := append([]byte(nil), nb...)
		g, err := gcs.FromNBytes(f.P(), c.M, scratch)
		for i := range scratch {
			scratch[i] ^= 0xa5
		}
		if err != nil {
			fail("gcs/roundtrip", "FromNBytes(NBytes()) failed: %v", err)
		} else {
			filters = append(filters, struct {
				name string
				f    *gcs.Filter
			}{"FromNBytes", g})
		}
	}
	for _, ff := range filters {
		g := ff.f
		if ff.name != "built" {
			if g.N() != N || g.P() != c.P {
				fail("gcs/roundtrip", "%s: N()=%d P()=%d, want %d %d", ff.name, g.N(), g.P(), N, c.P)
			}
			if b2, _ := g.Bytes(); !bytes.Equal(b2, raw) {
				fail("gcs/roundtrip", "%s: Bytes()=%x differs from the original %x", ff.name, b2, raw)
			}
			if b2, _ := g.NBytes(); !bytes.Equal(b2, nb) {
				fail("gcs/roundtrip", "%s: NBytes()=%x differs from the original %x", ff.name, b2, nb)
			}
		}
		// --- element-wise
		for e, el := range gcsAlphabet {
			got, err := g.Match(key, el)
			if err != nil {
				fail("gcs/match-error", "%s.Match(elem#%d) error: %v", ff.name, e, err)
				continue
			}
			if inserted[e] && !got {
				fail("gcs/false-negative", "%s.Match(elem#%d)=false although the element was inserted", ff.name, e)
			} else if got != refMatch[e] {
				fail("gcs/match-vs-bip158", "%s.Match(elem#%d)=%v, BIP158 says %v", ff.name, e, got, refMatch[e])
			}
		}
		// --- batch == element-wise OR, every query subset, two orders
		for mask := 0; mask < 1<<uint(len(gcsAlphabet)); mask++ {
			var q [][]byte
			wantAny, hasInserted := false, false
			for e := range gcsAlphabet {
				if mask>>uint(e)&1 == 1 {
					q = append(q, gcsAlphabet[e])
					wantAny = wantAny || refMatch[e]
					hasInserted = hasInserted || inserted[e]
				}
			}
			for order := 0; order < 2; order++ {
				qq := make([][]byte, len(q))
				for i := range q {
					if order == 0 {
						qq[i] = q[i]
					} else {
						qq[i] = q[len(q)-1-i]
					}
				}
				if order == 1 && len(q) < 2 {
					continue
				}
				for _, fn := range anyFns {
					got, err := fn.f(g, key, qq)
					if err != nil {
						fail("gcs/"+fn.name+"-error", "%s.%s(query=%06b order=%d) error: %v", ff.name, fn.name, mask, order, err)
						continue
					}
					if got == wantAny {
						continue
					}
					switch {
					case hasInserted && !got:
						fail("gcs/"+fn.name+"-false-negative", "%s.%s(query=%06b order=%d)=false although the query contains an inserted element", ff.name, fn.name, mask, order)
					case got && fn.name != "ZipMatchAny" && N > 0 && trunc32Explains(vals, c.M, key, qq):
						fail("gcs/HashMatchAny-32bit-truncation", "%s.%s(query=%06b order=%d)=true but no queried element matches element-wise (values collide only in their low 32 bits)", ff.name, fn.name, mask, order)
					default:
						fail("gcs/"+fn.name+"-vs-elementwise", "%s.%s(query=%06b order=%d)=%v, element-wise OR is %v", ff.name, fn.name, mask, order, got, wantAny)
					}
				}
			}
		}
	}
	return fs
}

func pmPairs(maxN int) (out [][2]uint64) {
	for _, M := range gcsMs {
		for P := uint64(1); P <= 32; P++ {
			if (uint64(maxN)*M)>>P > maxUnary {
				continue
			}
			out = append(out, [2]uint64{P, M})
		}
	}
	return
}

func checkGCS(r *ev.Run, bounds map[string]interface{}) {
	maxLen := r.Pick(4, 5)
	ms := multisets(maxLen, len(gcsAlphabet))
	pm := pmPairs(maxLen)
	var cases []*Case
	for _, m := range ms {
		for _, p := range pm {
			for k := range gcsKeys {
				cases = append(cases, &Case{Kind: "gcs", GCS: &GCSCase{P: uint8(p[0]), M: p[1], Key: k, Elems: m}})
			}
		}
	}
	// directed: long unary runs (small P with a large range), N <= 2
	nDirected := 0
	for _, m := range [][]int{{3}, {1, 5}, {0, 0}} {
		for P := uint8(1); P <= 8; P++ {
			cases = append(cases, &Case{Kind: "gcs", GCS: &GCSCase{P: P, M: 784931, Key: 2, Elems: m}})
			nDirected++
		}
	}
	col := newCollector()
	ev.Par(len(cases), workers, func(i int) {
		c := cases[i]
		fs := runCase(c)
		r.Eval(1)
		r.Trace(1)
		if len(c.GCS.Elems) > 0 {
			r.Nontrivial(fmt.Sprintf("gcs|%d|%d|%d|%v", c.GCS.P, c.GCS.M, c.GCS.Key, c.GCS.Elems))
		}
		col.add(int64(i), c, fs)
	})
	r.Sample(cases[len(cases)/2])
	col.report(r, "gcs")
	r.Add("gcs_cases", int64(len(cases)))
	r.Add("gcs_matchany_calls_per_case", int64(3*(64+57)))
	bounds["gcs"] = map[string]interface{}{
		"alphabet":          []string{"<empty>", "00", "01", "abcdefgh (8 bytes)", "abcdefghi (9 bytes)", "25-byte P2PKH script"},
		"multiset_max_len":  maxLen,
		"multisets":         len(ms),
		"P":                 "1..32",
		"M":                 gcsMs,
		"PM_pairs":          len(pm),
		"PM_pair_rule":      fmt.Sprintf("(P,M) kept iff (maxLen*M)>>P <= %d (bounded unary run); plus %d directed cases with P=1..8, M=784931, N<=2", maxUnary, nDirected),
		"keys":              len(gcsKeys),
		"query_subsets":     64,
		"query_orders":      2,
		"filters_per_case":  "built, FromBytes, FromNBytes (the latter two from a buffer that is overwritten right after the call)",
		"matchers_per_case": "Match, MatchAny, ZipMatchAny, HashMatchAny",
	}
}

// ---------------------------------------------------------------------------
// large N: deltas / remainders straddle byte and 64-bit boundaries many times

// LargeCase: N elements; element i is the 4-byte big-endian i followed by i%7
// bytes 0xA5 (deterministic, variable length).
type LargeCase struct {
	N   int    `json:"n"`
	P   uint8  `json:"p"`
	M   uint64 `json:"m"`
	Key int    `json:"key"`
}

func largeElem(i int) []byte {
	b := make([]byte, 4+i%7)
	binary.BigEndian.PutUint32(b, uint32(i))
	for j := 4; j < len(b); j++ {
		b[j] = 0xa5
	}
	return b
}

func runLarge(c *LargeCase) (fs []finding) {
	key := gcsKeys[c.Key]
	id := fmt.Sprintf("N=%d P=%d M=%d key#%d", c.N, c.P, c.M, c.Key)
	fail := func(class, format string, a ...interface{}) {
		fs = append(fs, finding{class, fmt.Sprintf(format, a...) + " [" + id + "]"})
	}
	items := make([][]byte, c.N)
	for i := range items {
		items[i] = largeElem(i)
	}
	f, err := gcs.BuildGCSFilter(c.P, c.M, key, items)
	if err != nil {
		fail("gcs-large/build-error", "BuildGCSFilter: %v", err)
		return
	}
	vals := refgcs.Values(c.M, key, items)
	want := refgcs.Build(c.P, c.M, key, items)
	nb, err := f.NBytes()
	if err != nil || !bytes.Equal(nb, refgcs.NBytes(uint32(c.N), want)) {
		fail("gcs-large/nbytes", "NBytes() differs from the BIP158 stream (len %d vs %d)", len(nb), len(want)+3)
	}
	g, err := gcs.FromNBytes(c.P, c.M, nb)
	if err != nil {
		fail("gcs-large/roundtrip", "FromNBytes: %v", err)
		g = f
	}
	set := map[uint64]bool{}
	for _, v := range vals {
		set[v] = true
	}
	F := uint64(c.N) * c.M
	refHas := func(el []byte) bool { return set[refgcs.HashToRange(key, el, F)] }
	// every inserted element matches (on the rebuilt filter)
	for i, el := range items {
		ok, err := g.Match(key, el)
		if err != nil || !ok {
			fail("gcs-large/false-negative", "Match(inserted #%d)=%v err=%v", i, ok, err)
			break
		}
	}
	// not inserted: equality with BIP158
	var outsiders [][]byte
	for i := c.N; i < c.N+c.N/2+10; i++ {
		el := largeElem(i)
		outsiders = append(outsiders, el)
		ok, err := g.Match(key, el)
		if err != nil || ok != refHas(el) {
			fail("gcs-large/match-vs-bip158", "Match(outsider #%d)=%v err=%v, BIP158 says %v", i, ok, err, refHas(el))
			break
		}
	}
	// batch queries
	low := map[uint32]bool{}
	for _, v := range vals {
		low[uint32(v)] = true
	}
	type q struct {
		name string
		d    [][]byte
	}
	var clean [][]byte // outsiders that match neither exactly nor in the low 32 bits
	for _, el := range outsiders {
		v := refgcs.HashToRange(key, el, F)
		if !set[v] && !low[uint32(v)] {
			clean = append(clean, el)
		}
	}
	qs := []q{{"all-outsiders", outsiders}, {"clean-outsiders", clean}, {"clean+last-inserted", append(append([][]byte(nil), clean...), items[c.N-1])},
		{"first-inserted+clean", append([][]byte{items[0]}, clean...)}, {"all-inserted", items}}
	for i := 0; i < c.N; i += 97 {
		qs = append(qs, q{fmt.Sprintf("single-inserted-%d", i), [][]byte{items[i]}})
	}
	for i := 0; i < len(clean) && i < 40; i++ {
		qs = append(qs, q{fmt.Sprintf("single-clean-%d", i), [][]byte{clean[i]}})
	}
	for _, qq := range qs {
		wantAny, wantLow := false, false
		for _, el := range qq.d {
			v := refgcs.HashToRange(key, el, F)
			wantAny = wantAny || set[v]
			wantLow = wantLow || low[uint32(v)]
		}
		for _, fn := range anyFns {
			got, err := fn.f(g, key, qq.d)
			if err != nil {
				fail("gcs-large/"+fn.name+"-error", "%s(%s): %v", fn.name, qq.name, err)
				continue
			}
			if got == wantAny {
				continue
			}
			switch {
			case wantAny && !got:
				fail("gcs-large/"+fn.name+"-false-negative", "%s(%s)=false, element-wise OR is true", fn.name, qq.name)
			case fn.name != "ZipMatchAny" && wantLow:
				fail("gcs/HashMatchAny-32bit-truncation", "%s(%s)=true but no queried element matches element-wise (low 32 bits collide)", fn.name, qq.name)
			default:
				fail("gcs-large/"+fn.name+"-vs-elementwise", "%s(%s)=%v, element-wise OR is %v", fn.name, qq.name, got, wantAny)
			}
		}
	}
	return fs
}

func checkLarge(r *ev.Run, bounds map[string]interface{}) {
	var cases []*Case
	ns := []int{1000, 5000}
	type pm struct {
		P uint8
		M uint64
	}
	pms := []pm{{19, 784931}, {20, 1 << 20}, {10, 784931}, {32, 1<<32 - 1}, {31, 1<<32 - 1}, {7, 100}, {1, 2}, {13, 8191}}
	if r.Thorough() {
		pms = append(pms, pm{24, 784931}, pm{27, 1<<32 - 1}, pm{3, 10}, pm{17, 131071})
	}
	for _, n := range ns {
		for pi, p := range pms {
			for k := 1; k < 3; k++ {
				if !r.Thorough() && n == 5000 && (k == 1 || pi >= 4) {
					continue // quick: N=5000 with the first four (P,M) pairs and one key only
				}
				cases = append(cases, &Case{Kind: "gcs-large", Large: &LargeCase{N: n, P: p.P, M: p.M, Key: k}})
			}
		}
	}
	col := newCollector()
	ev.Par(len(cases), workers, func(i int) {
		fs := runCase(cases[i])
		r.Eval(1)
		r.Trace(1)
		c := cases[i].Large
		r.Nontrivial(fmt.Sprintf("large|%d|%d|%d|%d", c.N, c.P, c.M, c.Key))
		col.add(int64(i), cases[i], fs)
	})
	col.report(r, "gcs-large")
	r.Add("gcs_large_cases", int64(len(cases)))
	bounds["gcs_large"] = map[string]interface{}{"N": ns, "PM": fmt.Sprint(pms), "keys": 2, "quick_restriction": "N=5000 only with the first four (P,M) pairs and one key", "cases": len(cases), "elements": "BE32(i) || (i%7)*0xA5"}
}

// ---------------------------------------------------------------------------
// directed witness search for HashMatchAny's 32-bit value index

// TruncCase: a filter of N elements BE32(0..N-1) with BIP158's own parameters; the
// reference predicts the first BE32(i), i >= N, whose value differs from every
// filter value but equals one of them in the low 32 bits.
type TruncCase struct {
	N     int    `json:"n"`
	P     uint8  `json:"p"`
	M     uint64 `json:"m"`
	Key   int    `json:"key"`
	Query uint32 `json:"query"`
	Limit uint32 `json:"limit"`
}

func be32(i uint32) []byte {
	var b [4]byte
	binary.BigEndian.PutUint32(b[:], i)
	return b[:]
}

func truncSetup(c *TruncCase) (items [][]byte, set map[uint64]bool, low map[uint32]bool) {
	key := gcsKeys[c.Key]
	items = make([][]byte, c.N)
	for i := range items {
		items[i] = be32(uint32(i))
	}
	set, low = map[uint64]bool{}, map[uint32]bool{}
	for _, v := range refgcs.Values(c.M, key, items) {
		set[v] = true
		low[uint32(v)] = true
	}
	return
}

// findTruncWitness returns the first query in [N, limit) predicted to collide only
// in the low 32 bits, or false.
func findTruncWitness(c *TruncCase) (uint32, bool) {
	_, set, low := truncSetup(c)
	key := gcsKeys[c.Key]
	F := uint64(c.N) * c.M
	for i := uint32(c.N); i < c.Limit; i++ {
		v := refgcs.HashToRange(key, be32(i), F)
		if !set[v] && low[uint32(v)] {
			return i, true
		}
	}
	return 0, false
}

func runTrunc(c *TruncCase) (fs []finding) {
	key := gcsKeys[c.Key]
	items, set, low := truncSetup(c)
	F := uint64(c.N) * c.M
	q := be32(c.Query)
	v := refgcs.HashToRange(key, q, F)
	if set[v] || !low[uint32(v)] {
		return []finding{{"harness/trunc-witness", "replayed query is not a low-32-bit-only collision"}}
	}
	f, err := gcs.BuildGCSFilter(c.P, c.M, key, items)
	if err != nil {
		return []finding{{"gcs-trunc32/build-error", err.Error()}}
	}
	single, err1 := f.Match(key, q)
	zip, err2 := f.ZipMatchAny(key, [][]byte{q})
	hash, err3 := f.HashMatchAny(key, [][]byte{q})
	if err1 != nil || err2 != nil || err3 != nil {
		return []finding{{"gcs-trunc32/error", fmt.Sprint(err1, err2, err3)}}
	}
	// a query list long enough for MatchAny to pick the hash strategy: the witness
	// plus N/2 elements that match neither way
	var batch [][]byte
	for i := uint32(c.N); len(batch) < c.N/2+1; i++ {
		el := be32(i)
		w := refgcs.HashToRange(key, el, F)
		if !set[w] && !low[uint32(w)] {
			batch = append(batch, el)
		}
	}
	batch = append(batch, q)
	anyB, err4 := f.MatchAny(key, batch)
	if err4 != nil {
		return []finding{{"gcs-trunc32/error", err4.Error()}}
	}
	id := fmt.Sprintf("N=%d P=%d M=%d key#%d query=BE32(%d): value %d, filter holds %d (same low 32 bits)", c.N, c.P, c.M, c.Key, c.Query, v, v^(1<<32))
	if single || zip {
		fs = append(fs, finding{"gcs-trunc32/unexpected-match", "Match/ZipMatchAny report a match that BIP158 does not have [" + id + "]"})
	}
	if hash {
		fs = append(fs, finding{"gcs/HashMatchAny-32bit-truncation", fmt.Sprintf("HashMatchAny([q])=true while Match(q)=%v and ZipMatchAny([q])=%v: batch matching != element-wise matching [%s]", single, zip, id)})
	}
	if anyB {
		fs = append(fs, finding{"gcs/HashMatchAny-32bit-truncation", fmt.Sprintf("MatchAny(%d non-matching elements + q)=true while no element matches element-wise [%s]", len(batch)-1, id)})
	}
	return fs
}

func checkTrunc(r *ev.Run, bounds map[string]interface{}) {
	// N*M must exceed 2^32 for values to need more than 32 bits: with BIP158's
	// M=784931 that is every block with more than 5471 filter elements.
	c := &TruncCase{N: 6000, P: 19, M: 784931, Key: 2, Limit: uint32(r.Pick(40_000_000, 200_000_000))}
	q, ok := findTruncWitness(c)
	bounds["gcs_trunc32"] = map[string]interface{}{"N": c.N, "P": c.P, "M": c.M, "candidates_searched_up_to": c.Limit, "witness_found": ok, "witness": q}
	if !ok {
		r.Add("gcs_trunc32_no_witness_below_limit", 1)
		return
	}
	c.Query = q
	cs := &Case{Kind: "gcs-trunc32", Trunc: c}
	col := newCollector()
	fs := runCase(cs)
	r.Eval(1)
	r.Trace(1)
	r.Nontrivial(fmt.Sprintf("trunc|%d|%d", c.N, q))
	col.add(0, cs, fs)
	col.report(r, "gcs-trunc32")
}
