// C20 — light-client filters never miss: GCS (BIP158), filter headers (BIP157),
// bloom filters and merkle blocks (BIP37).
//
// Bounded exhaustive enumeration on the real btcd code (btcutil/gcs,
// btcutil/gcs/builder, btcutil/bloom, wire.MsgMerkleBlock, and the cfindex
// indexer) against the naive references verif/ref/refgcs and verif/ref/refbloom.
// See the individual files for the enumerated spaces:
//
//	gcs.go     multisets x P x M x keys; large N; HashMatchAny 32-bit truncation witness
//	basic.go   BuildBasicFilter / GetFilterHash / MakeHeaderForFilter, cfindex chain
//	bloom.go   murmur3, sizing, Add/Matches, MatchTxAndUpdate
//	merkle.go  NewMerkleBlock for every matched subset of blocks with n txs
//	bind.go    binds the references to vectors shipped with the repo first
package main

import (
	"fmt"
	"runtime"
	"sort"
	"strings"
	"sync"
	"time"

	"verif/engine/ev"
)

// Case is the replayable description of one case of any sub-check.
type Case struct {
	Kind       string          `json:"kind"`
	GCS        *GCSCase        `json:"gcs,omitempty"`
	Large      *LargeCase      `json:"large,omitempty"`
	Trunc      *TruncCase      `json:"trunc,omitempty"`
	Basic      *BasicCase      `json:"basic,omitempty"`
	Bloom      *BloomCase      `json:"bloom,omitempty"`
	Murmur     *MurmurCase     `json:"murmur,omitempty"`
	MatchTx    *MatchTxCase    `json:"matchtx,omitempty"`
	Merkle     *MerkleCase     `json:"merkle,omitempty"`
	Cascade    *CascadeCase    `json:"cascade,omitempty"`
	CfIndex    *CfIndexCase    `json:"cfindex,omitempty"`
	BuilderOps *BuilderOpsCase `json:"builder_ops,omitempty"`
}

// finding is one failed expectation of a case: class is the stable violation key.
type finding struct {
	class string
	what  string
}

// runCase executes one case on the real code and returns the failed expectations.
// A panic inside btcd is converted into a finding.
func runCase(c *Case) (fs []finding) {
	defer func() {
		if p := recover(); p != nil {
			fs = append(fs, finding{c.Kind + "/panic", fmt.Sprintf("panic: %v", p)})
		}
	}()
	switch c.Kind {
	case "gcs":
		return runGCS(c.GCS)
	case "gcs-large":
		return runLarge(c.Large)
	case "gcs-trunc32":
		return runTrunc(c.Trunc)
	case "basic":
		return runBasic(c.Basic)
	case "bloom":
		return runBloom(c.Bloom)
	case "murmur":
		return runMurmur(c.Murmur)
	case "matchtx":
		return runMatchTx(c.MatchTx)
	case "merkle":
		return runMerkle(c.Merkle)
	case "merkle-cascade":
		return runCascade(c.Cascade)
	case "cfindex":
		return runCfIndex(c.CfIndex)
	case "builder-ops":
		return runBuilderOps(c.BuilderOps)
	}
	return []finding{{"harness/unknown-kind", c.Kind}}
}

// collector keeps, per violation class, the failing case with the smallest
// enumeration index, so that what is reported does not depend on scheduling.
type collector struct {
	mu   sync.Mutex
	best map[string]*hit
}
type hit struct {
	idx  int64
	what string
	c    *Case
	n    int64
}

func newCollector() *collector { return &collector{best: map[string]*hit{}} }

func (k *collector) add(idx int64, c *Case, fs []finding) {
	if len(fs) == 0 {
		return
	}
	k.mu.Lock()
	defer k.mu.Unlock()
	for _, f := range fs {
		h := k.best[f.class]
		if h == nil {
			k.best[f.class] = &hit{idx: idx, what: f.what, c: c, n: 1}
			continue
		}
		h.n++
		if idx < h.idx {
			h.idx, h.what, h.c = idx, f.what, c
		}
	}
}

// report re-runs every collected failing case three times and files the violations.
func (k *collector) report(r *ev.Run, sub string) {
	classes := make([]string, 0, len(k.best))
	for c := range k.best {
		classes = append(classes, c)
	}
	sort.Strings(classes)
	for _, cl := range classes {
		h := k.best[cl]
		if strings.HasPrefix(cl, "harness/") {
			r.Broken("%s: %s (sub-check %s case #%d)", cl, h.what, sub, h.idx)
		}
		for i := 0; i < 3; i++ {
			again := runCase(h.c)
			ok := false
			for _, f := range again {
				if f.class == cl {
					ok = true
				}
			}
			if !ok {
				r.Broken("verdict flipped on re-run: %s case #%d class %s", sub, h.idx, cl)
			}
		}
		r.Violation(cl, fmt.Sprintf("%s (first failing case #%d of sub-check %s; %d failing cases in this class)", h.what, h.idx, sub, h.n), h.c)
	}
}

var workers = runtime.NumCPU()

func main() {
	r := ev.Start("C20")
	if r.ReplayPath != "" {
		var c Case
		r.LoadReplay(&c)
		bindReferences(r, true)
		fs := runCase(&c)
		r.Eval(1)
		r.Trace(1)
		for _, f := range fs {
			r.Violation(f.class, f.what, &c)
		}
		r.Finish(false)
		return
	}
	r.Rule("every case is one concrete input tuple executed on btcd and on the reference: " +
		"GCS = (element multiset over a 6-element alphabet, P, M, SipHash key) with every one of the 64 query subsets in two orders; " +
		"basic filter = (sequence of tx shapes, prevout script list); bloom = (constructor parameters, tweak, flags, inserted subset of 6 items); " +
		"murmur3 = (seed, byte string); MatchTxAndUpdate = (tx, trigger item, flags, tweak); merkle block = (n, matched subset). " +
		"A case is non-trivial when it has at least one element / transaction; distinct cases are counted by their canonical encoding")
	r.Assume("crypto/sha256, math/big, math/bits of the Go standard library; wire transaction (de)serialization (property C08); btcec public key derivation for three fixed test keys")
	r.Assume("SipHash-2-4 reference is bound to the 64 official vectors; BIP158 hash-to-range to the shipped TestGCSMatchZeroHash vector (first 32-bit value reducing to 0 is 16060032) and to the BIP158 testnet genesis vector; murmur3, bloom sizing, relevance and merkle-block references to the literal vectors of btcutil/bloom/*_test.go")

	t0 := time.Now()
	bindReferences(r, false)
	r.Set("wall_s_binding_informational", float64(time.Since(t0).Milliseconds())/1000)

	bounds := map[string]interface{}{}
	timing := map[string]float64{}
	for _, st := range []struct {
		name string
		f    func(*ev.Run, map[string]interface{})
	}{
		{"gcs", checkGCS}, {"gcs_large", checkLarge}, {"gcs_trunc32", checkTrunc}, {"basic_filter", checkBasic}, {"cfindex", checkCfIndex}, {"builder_ops", checkBuilderOps},
		{"murmur3", checkMurmur}, {"bloom", checkBloom}, {"match_tx", checkMatchTx}, {"merkle", checkMerkle}, {"merkle_cascade", checkCascade},
	} {
		t0 := time.Now()
		st.f(r, bounds)
		timing[st.name] = float64(time.Since(t0).Milliseconds()) / 1000
	}
	r.Set("wall_s_per_subcheck_informational", timing)
	r.Set("bounds", bounds)
	r.Finish(true)
}
