package main

import (
	"bytes"
	"fmt"
	"os"
	"time"

	"github.com/btcsuite/btcd/blockchain"
	"github.com/btcsuite/btcd/blockchain/indexers"
	"github.com/btcsuite/btcd/btcutil/v2/gcs"
	"github.com/btcsuite/btcd/btcutil/v2/gcs/builder"
	"github.com/btcsuite/btcd/chaincfg/v2"
	"github.com/btcsuite/btcd/chainhash/v2"
	"github.com/btcsuite/btcd/database"
	_ "github.com/btcsuite/btcd/database/ffldb"
	"github.com/btcsuite/btcd/wire/v2"

	"verif/engine/ev"
	"verif/lab"
	"verif/ref/refgcs"
)

// output script pool
var (
	scEmpty    = []byte{}
	scOpRet    = []byte{0x6a}
	scOpRetDat = []byte{0x6a, 0x04, 'd', 'a', 't', 'a'}
	scTrue     = []byte{0x51}
	scP2PKHa   = mustHex("76a91404943fdd508053c75000106d3bc6e2754dbcff1988ac")
	scP2PKHb   = mustHex("76a914a266436d2965547608b9e15d9032a7b9d64fa43188ac")
	scP2WPKH   = mustHex("0014751e76e8199196d454941c45d1b3a323f1433bd6") // starts with 0x00
	scPush6a   = []byte{0x01, 0x6a}                                      // 0x6a as data, not as first opcode
	scOther    = mustHex("a914b472a266d0bd89c13706a4132ccfb16f7c3b9fcb87")
	// scripts that do not parse (truncated pushes): BIP158 does not care
	scTrunc1 = []byte{0x4c}             // OP_PUSHDATA1 without length
	scTrunc2 = []byte{0x02, 0x01}       // push 2, one byte present
	scTrunc3 = []byte{0x4e, 0xff, 0xff} // OP_PUSHDATA4 with half a length
	scZero   = []byte{0x00}             // a single OP_0
	// at and one past the 10000-byte script size limit, first byte OP_TRUE
	sc10000 = append([]byte{0x51}, bytes.Repeat([]byte{0x61}, 9999)...)
	sc10001 = append([]byte{0x51}, bytes.Repeat([]byte{0x61}, 10000)...)
	// long and starting with OP_RETURN: excluded as an output, included as a prevout
	scLongOpRet = append([]byte{0x6a}, bytes.Repeat([]byte{0x61}, 10000)...)
)

// basicShapes is the alphabet of transaction shapes (lists of output scripts).
var basicShapes = [][][]byte{
	{scTrue},
	{scEmpty, scOpRet},             // contributes nothing
	{scOpRetDat, scP2PKHa},         // OP_RETURN excluded, the other included
	{scP2PKHa, scP2PKHa, scP2PKHb}, // duplicates
	{scP2WPKH, scPush6a},           // leading 0x00; 0x6a only as data
	{},                             // no outputs at all
	// --- shapes 6..8: script kinds that txscript calls "unspendable" but BIP158 keeps
	{scTrunc1, scTrunc2, scTrunc3, scZero},
	{sc10000, sc10001},
	{scLongOpRet, scTrunc2},
}

// basicCoreShapes is the number of leading shapes that are also enumerated one
// transaction deeper than the full alphabet.
const basicCoreShapes = 6

// basicPrevs is the alphabet of spent-prevout script lists.
var basicPrevs = [][][]byte{
	nil,
	{scP2PKHa},                      // duplicate of an output script
	{scEmpty, scOpRetDat, scP2PKHb}, // empty excluded; OP_RETURN-prefixed prevout script is NOT excluded by BIP158
	{scOther, scOther, scEmpty},     // new script, twice
	{scTrunc1, scTrunc3, scZero, scLongOpRet}, // unparseable / OP_0 / long OP_RETURN prevouts: all included
	{sc10001, sc10000, scTrunc2},              // oversized prevout scripts: included
}

// BasicCase: a block whose i-th transaction has shape Shapes[i], and prevout list Prev.
type BasicCase struct {
	Shapes []int  `json:"shapes"`
	Prev   int    `json:"prev"`
	Salt   uint32 `json:"salt"`
}

func basicBlock(c *BasicCase) (*wire.MsgBlock, [][]byte) {
	blk := &wire.MsgBlock{Header: wire.BlockHeader{Version: 0x20000000, Timestamp: time.Unix(1_600_000_000, 0), Bits: 0x207fffff, Nonce: c.Salt}}
	var outs [][]byte
	for i, sh := range c.Shapes {
		tx := wire.NewMsgTx(2)
		tx.AddTxIn(&wire.TxIn{PreviousOutPoint: wire.OutPoint{Hash: refgcs.DSHA([]byte{byte(i)}), Index: uint32(i)}, Sequence: 0xffffffff})
		for j, s := range basicShapes[sh] {
			tx.AddTxOut(&wire.TxOut{Value: int64(1000*i + j), PkScript: append([]byte(nil), s...)})
			outs = append(outs, s)
		}
		blk.Transactions = append(blk.Transactions, tx)
	}
	// any 32 bytes do as merkle root / prev block for this purpose; make them case dependent
	blk.Header.MerkleRoot = refgcs.DSHA([]byte(fmt.Sprint(c.Shapes, c.Prev)))
	blk.Header.PrevBlock = refgcs.DSHA([]byte{byte(c.Prev), byte(len(c.Shapes))})
	return blk, outs
}

func runBasic(c *BasicCase) (fs []finding) {
	id := fmt.Sprintf("shapes=%v prev=%d salt=%d", c.Shapes, c.Prev, c.Salt)
	fail := func(class, format string, a ...interface{}) {
		fs = append(fs, finding{class, fmt.Sprintf(format, a...) + " [" + id + "]"})
	}
	blk, outs := basicBlock(c)
	var prevs [][]byte
	for _, s := range basicPrevs[c.Prev] {
		prevs = append(prevs, append([]byte(nil), s...))
	}
	f, err := builder.BuildBasicFilter(blk, prevs)
	if err != nil {
		fail("basic/build-error", "BuildBasicFilter: %v", err)
		return
	}
	h := blk.Header
	bh := refgcs.HeaderHash80(h.Version, h.PrevBlock, h.MerkleRoot, uint32(h.Timestamp.Unix()), h.Bits, h.Nonce)
	elems := refgcs.BasicElements(outs, basicPrevs[c.Prev])
	want := refgcs.BasicFilter(bh, elems)
	got, err := f.NBytes()
	if err != nil || !bytes.Equal(got, want) {
		fail("basic/filter-bytes", "BuildBasicFilter -> %x (N=%d), BIP158 filter over the %d-element set (N=%d) is %x", got, f.N(), len(elems), len(elems), want)
	}
	if f.P() != 19 {
		fail("basic/filter-params", "P=%d, want 19", f.P())
	}
	// every element of the BIP158 set matches, singly and in batch
	key := refgcs.BasicKey(bh)
	if builder.DeriveKey((*chainhash.Hash)(&bh)) != key {
		fail("basic/key", "DeriveKey differs from the first 16 bytes of the block hash")
	}
	for i, el := range elems {
		ok, err := f.Match(key, el)
		if err != nil || !ok {
			fail("basic/false-negative", "filter does not match element %d (%d bytes, starts %x) of the block: %v %v", i, len(el), el[:min(len(el), 8)], ok, err)
		}
	}
	if len(elems) > 0 {
		for _, fn := range anyFns {
			ok, err := fn.f(f, key, elems)
			if err != nil || !ok {
				fail("basic/false-negative", "%s over all block elements = %v %v", fn.name, ok, err)
			}
			ok, err = fn.f(f, key, [][]byte{[]byte("not in the block"), elems[len(elems)-1]})
			if err != nil || !ok {
				fail("basic/false-negative", "%s over [outsider, last element] = %v %v", fn.name, ok, err)
			}
		}
	}
	// filter hash and header chain (BIP157), three links
	fh, err := builder.GetFilterHash(f)
	wantFH := refgcs.FilterHash(want)
	if err != nil || [32]byte(fh) != wantFH {
		fail("basic/filter-hash", "GetFilterHash=%x err=%v, want dSHA256(filter)=%x", fh[:], err, wantFH[:])
	}
	prevs3 := [][32]byte{{}, refgcs.DSHA([]byte{byte(c.Salt)})}
	for _, p := range prevs3 {
		prev := p
		for link := 0; link < 3; link++ {
			hd, err := builder.MakeHeaderForFilter(f, chainhash.Hash(prev))
			wantH := refgcs.FilterHeader(wantFH, prev)
			if err != nil || [32]byte(hd) != wantH {
				fail("basic/filter-header", "MakeHeaderForFilter(prev=%x)=%x err=%v, BIP157 says %x", prev[:], hd[:], err, wantH[:])
				break
			}
			prev = wantH
		}
	}
	// the wire form decodes back to an equal filter
	if g, err := gcs.FromNBytes(builder.DefaultP, builder.DefaultM, got); err != nil {
		fail("basic/roundtrip", "FromNBytes: %v", err)
	} else {
		for i, el := range elems {
			if ok, err := g.Match(key, el); err != nil || !ok {
				fail("basic/false-negative", "decoded filter does not match element %d: %v %v", i, ok, err)
			}
		}
	}
	return fs
}

func seqs(maxLen, alpha int) [][]int {
	var out [][]int
	for l := 1; l <= maxLen; l++ {
		idx := make([]int, l)
		for {
			out = append(out, append([]int(nil), idx...))
			p := l - 1
			for p >= 0 {
				idx[p]++
				if idx[p] < alpha {
					break
				}
				idx[p] = 0
				p--
			}
			if p < 0 {
				break
			}
		}
	}
	return out
}

func checkBasic(r *ev.Run, bounds map[string]interface{}) {
	maxTx := r.Pick(5, 6)    // over the first basicCoreShapes shapes
	maxTxAll := r.Pick(4, 5) // over all shapes
	sq := seqs(maxTxAll, len(basicShapes))
	for _, s := range seqs(maxTx, basicCoreShapes) {
		if len(s) > maxTxAll {
			sq = append(sq, s)
		}
	}
	var cases []*Case
	for _, s := range sq {
		for p := range basicPrevs {
			cases = append(cases, &Case{Kind: "basic", Basic: &BasicCase{Shapes: s, Prev: p, Salt: uint32(len(cases))}})
		}
	}
	col := newCollector()
	ev.Par(len(cases), workers, func(i int) {
		fs := runCase(cases[i])
		r.Eval(1)
		r.Trace(1)
		r.Nontrivial(fmt.Sprintf("basic|%v|%d", cases[i].Basic.Shapes, cases[i].Basic.Prev))
		col.add(int64(i), cases[i], fs)
	})
	r.Sample(cases[len(cases)/3])
	col.report(r, "basic")
	r.Add("basic_filter_cases", int64(len(cases)))
	bounds["basic_filter"] = map[string]interface{}{
		"txs_per_block":   fmt.Sprintf("1..%d over all 9 shapes, %d over the first 6 shapes", maxTxAll, maxTx),
		"tx_shapes":       []string{"[OP_TRUE]", "[empty, OP_RETURN]", "[OP_RETURN data, P2PKH a]", "[P2PKH a, P2PKH a, P2PKH b]", "[P2WPKH, push(0x6a)]", "[]", "[4c, 0201, 4effff, 00]", "[10000-byte, 10001-byte]", "[OP_RETURN+10000 bytes, 0201]"},
		"prevout_lists":   []string{"none", "[P2PKH a]", "[empty, OP_RETURN data, P2PKH b]", "[P2SH, P2SH, empty]", "[4c, 4effff, 00, OP_RETURN+10000 bytes]", "[10001-byte, 10000-byte, 0201]"},
		"sequences":       len(sq),
		"header_chaining": "prev in {0, dSHA(salt)} x 3 links",
	}
}

// ---------------------------------------------------------------------------
// cfindex: the indexer on a real chain stores BIP158 filters and BIP157 headers

// CfIndexCase selects one of the fixed chains.
type CfIndexCase struct {
	Variant int `json:"variant"`
}

func runCfIndex(c *CfIndexCase) (fs []finding) {
	fail := func(class, format string, a ...interface{}) {
		fs = append(fs, finding{class, fmt.Sprintf(format, a...) + fmt.Sprintf(" [cfindex chain variant %d]", c.Variant)})
	}
	p := lab.RegtestLike()
	p.CoinbaseMaturity = 1
	dir := fmt.Sprintf("%s/verif-c20-%d-%d", lab.ShmRoot(), os.Getpid(), c.Variant)
	os.RemoveAll(dir)
	defer os.RemoveAll(dir)
	db, err := database.Create("ffldb", dir, p.Net)
	if err != nil {
		return []finding{{"harness/cfindex-db", err.Error()}}
	}
	defer db.Close()
	idx := indexers.NewCfIndex(db, p)
	mgr := indexers.NewManager(db, []indexers.Indexer{idx})
	bc, err := blockchain.New(&blockchain.Config{DB: db, ChainParams: p, TimeSource: &lab.FixedTime{T: lab.Now}, IndexManager: mgr})
	if err != nil {
		return []finding{{"harness/cfindex-chain", err.Error()}}
	}

	// chain: coinbases pay to distinct scripts; later blocks spend them
	g := lab.Genesis(p)
	sub := lab.Subsidy(1, p)
	cbScripts := [][]byte{scP2PKHa, scP2PKHb, scOther, scP2WPKH, scTrue, scPush6a}
	type blkInfo struct {
		b     *lab.Blk
		prevs [][]byte // scripts spent by the block, in input order
	}
	var chain []blkInfo
	parent := g
	var cbs []*wire.MsgTx
	for i := 0; i < 4; i++ {
		outs := []*wire.TxOut{{Value: sub - 1000, PkScript: cbScripts[(i+c.Variant)%len(cbScripts)]}, {Value: 1000, PkScript: lab.OpTrue}}
		if i == 1 {
			outs = append(outs, &wire.TxOut{Value: 0, PkScript: scOpRetDat})
		}
		if i == 2 {
			// outputs that can never be spent but that BIP158 still puts into the filter
			for _, s := range [][]byte{scTrunc1, scTrunc2, scTrunc3, scZero, sc10000, sc10001} {
				outs = append(outs, &wire.TxOut{Value: 0, PkScript: s})
			}
			outs = append(outs, &wire.TxOut{Value: 0, PkScript: scLongOpRet})
		}
		b := lab.Build(p, parent, lab.BOpt{Tag: uint32(700 + i + 10*c.Variant), CoinbaseOuts: outs})
		chain = append(chain, blkInfo{b: b})
		cbs = append(cbs, b.Msg.Transactions[0])
		parent = b
	}
	// block 5: spends OP_TRUE outputs (index 1) of coinbases 1 and 2 in two txs, creates OP_RETURN and empty-script outputs
	mk := func(in wire.OutPoint, outs ...*wire.TxOut) *wire.MsgTx {
		tx := wire.NewMsgTx(1)
		tx.AddTxIn(&wire.TxIn{PreviousOutPoint: in, Sequence: 0xffffffff})
		for _, o := range outs {
			tx.AddTxOut(o)
		}
		return tx
	}
	t1 := mk(wire.OutPoint{Hash: lab.TxID(cbs[0]), Index: 1}, &wire.TxOut{Value: 500, PkScript: scP2PKHb}, &wire.TxOut{Value: 0, PkScript: scOpRet}, &wire.TxOut{Value: 100, PkScript: []byte{}})
	t2 := mk(wire.OutPoint{Hash: lab.TxID(cbs[1]), Index: 1}, &wire.TxOut{Value: 900, PkScript: lab.OpTrue})
	b5 := lab.Build(p, parent, lab.BOpt{Tag: uint32(705 + 10*c.Variant), Txs: []*wire.MsgTx{t1, t2}, Fees: 500})
	chain = append(chain, blkInfo{b: b5, prevs: [][]byte{lab.OpTrue, lab.OpTrue}})
	// block 6: spends the empty-script output? (not spendable with empty sigScript: skip) — spends t2's OP_TRUE and cb3's OP_TRUE in ONE tx
	t3 := wire.NewMsgTx(1)
	t3.AddTxIn(&wire.TxIn{PreviousOutPoint: wire.OutPoint{Hash: lab.TxID(t2), Index: 0}, Sequence: 0xffffffff})
	t3.AddTxIn(&wire.TxIn{PreviousOutPoint: wire.OutPoint{Hash: lab.TxID(cbs[2]), Index: 1}, Sequence: 0xffffffff})
	t3.AddTxOut(&wire.TxOut{Value: 1900, PkScript: scP2WPKH})
	b6 := lab.Build(p, b5, lab.BOpt{Tag: uint32(706 + 10*c.Variant), Txs: []*wire.MsgTx{t3}})
	chain = append(chain, blkInfo{b: b6, prevs: [][]byte{lab.OpTrue, lab.OpTrue}})
	b7 := lab.Build(p, b6, lab.BOpt{Tag: uint32(707 + 10*c.Variant)})
	chain = append(chain, blkInfo{b: b7})

	for _, bi := range chain {
		_, _, err := bc.ProcessBlock(bi.b.Block(), blockchain.BFNone)
		if err != nil {
			return []finding{{"harness/cfindex-process", fmt.Sprintf("block at height %d rejected: %v", bi.b.Height, err)}}
		}
	}
	if bc.BestSnapshot().Height != int32(len(chain)) {
		return []finding{{"harness/cfindex-process", "chain did not reach the expected height"}}
	}
	// expected: genesis first
	prevHeader := [32]byte{}
	check := func(msg *wire.MsgBlock, hash chainhash.Hash, prevs [][]byte, height int) {
		var outs [][]byte
		for _, tx := range msg.Transactions {
			for _, o := range tx.TxOut {
				outs = append(outs, o.PkScript)
			}
		}
		want := refgcs.BasicFilter(hash, refgcs.BasicElements(outs, prevs))
		wantFH := refgcs.FilterHash(want)
		wantHdr := refgcs.FilterHeader(wantFH, prevHeader)
		got, err := idx.FilterByBlockHash(&hash, wire.GCSFilterRegular)
		if err != nil || !bytes.Equal(got, want) {
			fail("cfindex/filter", "height %d: stored filter %x err=%v, BIP158 says %x", height, got, err, want)
		}
		gotFH, err := idx.FilterHashByBlockHash(&hash, wire.GCSFilterRegular)
		if err != nil || !bytes.Equal(gotFH, wantFH[:]) {
			fail("cfindex/filter-hash", "height %d: stored filter hash %x err=%v, want %x", height, gotFH, err, wantFH[:])
		}
		gotHdr, err := idx.FilterHeaderByBlockHash(&hash, wire.GCSFilterRegular)
		if err != nil || !bytes.Equal(gotHdr, wantHdr[:]) {
			fail("cfindex/filter-header", "height %d: stored filter header %x err=%v, BIP157 chain says %x", height, gotHdr, err, wantHdr[:])
		}
		prevHeader = wantHdr
	}
	check(p.GenesisBlock, *p.GenesisHash, nil, 0)
	for _, bi := range chain {
		check(bi.b.Msg, bi.b.Hash, bi.prevs, int(bi.b.Height))
	}
	return fs
}

func checkCfIndex(r *ev.Run, bounds map[string]interface{}) {
	nv := r.Pick(2, 6)
	col := newCollector()
	for v := 0; v < nv; v++ {
		c := &Case{Kind: "cfindex", CfIndex: &CfIndexCase{Variant: v}}
		fs := runCase(c)
		r.Eval(1)
		r.Trace(1)
		r.Nontrivial(fmt.Sprintf("cfindex|%d", v))
		col.add(int64(v), c, fs)
	}
	col.report(r, "cfindex")
	r.Add("cfindex_chains", int64(nv))
	bounds["cfindex"] = map[string]interface{}{"chains": nv, "blocks_per_chain": "genesis + 7 (coinbase scripts rotated per variant; spends in blocks 5 and 6; OP_RETURN, empty, truncated-push, OP_0, 10000/10001-byte and long OP_RETURN outputs)"}
}

var _ = chaincfg.MainNetParams
