package main

import (
	"bytes"
	"fmt"

	"github.com/btcsuite/btcd/btcec/v2"
	"github.com/btcsuite/btcd/btcutil/v2"
	"github.com/btcsuite/btcd/btcutil/v2/bloom"
	"github.com/btcsuite/btcd/chainhash/v2"
	"github.com/btcsuite/btcd/wire/v2"

	"verif/engine/ev"
	"verif/lab"
	"verif/ref/refbloom"
)

// ---------------------------------------------------------------------------
// murmur3

// MurmurCase: all byte strings of length Len over the byte alphabet Alpha (nil =
// all 256 values), for all seeds.
type MurmurCase struct {
	Seed uint32 `json:"seed"`
	Data []byte `json:"data"`
}

var murmurSeeds = []uint32{0, 1, 0xfba4c795, 0xffffffff}

func runMurmur(c *MurmurCase) []finding {
	got := bloom.MurmurHash3(c.Seed, c.Data)
	want := refbloom.Murmur3(c.Seed, c.Data)
	if got != want {
		return []finding{{"bloom/murmur3", fmt.Sprintf("MurmurHash3(seed=%#x, %x)=%#08x, reference %#08x", c.Seed, c.Data, got, want)}}
	}
	return nil
}

func checkMurmur(r *ev.Run, bounds map[string]interface{}) {
	full := r.Pick(2, 3) // every byte string up to this length
	small := []byte{0x00, 0x01, 0x80, 0xff}
	maxSmall := r.Pick(8, 10)
	col := newCollector()
	var total int64
	try := func(idx int64, seed uint32, data []byte) {
		c := &MurmurCase{Seed: seed, Data: data}
		if fs := runMurmur(c); fs != nil {
			col.add(idx, &Case{Kind: "murmur", Murmur: &MurmurCase{Seed: seed, Data: append([]byte(nil), data...)}}, fs)
		}
	}
	// lengths 0..full over all 256 byte values: parallel over the first byte
	for _, seed := range murmurSeeds {
		try(0, seed, []byte{})
		total++
	}
	ev.Par(256, workers, func(b0 int) {
		var n int64
		buf := make([]byte, 3)
		buf[0] = byte(b0)
		for _, seed := range murmurSeeds {
			try(int64(1+b0), seed, buf[:1])
			n++
			if full >= 2 {
				for b1 := 0; b1 < 256; b1++ {
					buf[1] = byte(b1)
					try(int64(257+b0*256+b1), seed, buf[:2])
					n++
					if full >= 3 {
						for b2 := 0; b2 < 256; b2++ {
							buf[2] = byte(b2)
							try(int64(65793+(b0*256+b1)*256+b2), seed, buf[:3])
							n++
						}
					}
				}
			}
		}
		r.Eval(int(n))
		r.Trace(int(n))
		r.Add("murmur_cases", n)
	})
	// lengths 4..maxSmall over a 4-value byte alphabet (covers the 4-byte block loop and every tail length)
	for l := 4; l <= maxSmall; l++ {
		cnt := 1
		for i := 0; i < l; i++ {
			cnt *= len(small)
		}
		ll := l
		ev.Par(cnt, workers, func(i int) {
			buf := make([]byte, ll)
			x := i
			for j := 0; j < ll; j++ {
				buf[j] = small[x%len(small)]
				x /= len(small)
			}
			for _, seed := range murmurSeeds {
				try(int64(1<<40)+int64(ll)<<32+int64(i), seed, buf)
			}
		})
		r.Eval(cnt * len(murmurSeeds))
		r.Trace(cnt * len(murmurSeeds))
		r.Add("murmur_cases", int64(cnt*len(murmurSeeds)))
	}
	r.Nontrivial("murmur")
	col.report(r, "murmur")
	bounds["murmur3"] = map[string]interface{}{"all_byte_strings_up_to_len": full, "seeds": murmurSeeds, "lengths_4_to": maxSmall, "byte_alphabet_for_longer": "00 01 80 ff"}
	_ = total
}

// ---------------------------------------------------------------------------
// filters: constructor parameters x inserted subsets

var bloomItems = [][]byte{
	{},
	{0x00},
	[]byte("a"),
	mustHex("04943fdd508053c75000106d3bc6e2754dbcff19"),
	mustHex("6bff7fcd4f8565ef406dd5d63d4ff94f318fe82027fd4dc451b04474019f74b4"),
	mustHex("6bff7fcd4f8565ef406dd5d63d4ff94f318fe82027fd4dc451b04474019f74b401000000"),
}

var bloomTweaks = []uint32{0, 1, 0xffffffff}
var bloomFlags = []wire.BloomUpdateType{wire.BloomUpdateNone, wire.BloomUpdateAll, wire.BloomUpdateP2PubkeyOnly}

// BloomCase: Ctor "new" = bloom.NewFilter(Elements, Tweak, FPRate, Flags);
// Ctor "load" = bloom.LoadFilter(&MsgFilterLoad{make(Size), HashFuncs, Tweak, Flags}).
// Insert is a bit mask over bloomItems.
type BloomCase struct {
	Ctor      string  `json:"ctor"`
	Elements  uint32  `json:"elements,omitempty"`
	FPRate    float64 `json:"fprate,omitempty"`
	Size      int     `json:"size,omitempty"`
	HashFuncs uint32  `json:"hashfuncs,omitempty"`
	Tweak     uint32  `json:"tweak"`
	Flags     uint8   `json:"flags"`
	Insert    int     `json:"insert"`
}

func runBloom(c *BloomCase) (fs []finding) {
	id := fmt.Sprintf("%+v", *c)
	fail := func(class, format string, a ...interface{}) {
		fs = append(fs, finding{class, fmt.Sprintf(format, a...) + " [" + id + "]"})
	}
	var f *bloom.Filter
	if c.Ctor == "new" {
		f = bloom.NewFilter(c.Elements, c.Tweak, c.FPRate, wire.BloomUpdateType(c.Flags))
		m := f.MsgFilterLoad()
		if len(m.Filter) > refbloom.MaxFilterBytes || m.HashFuncs > refbloom.MaxHashFuncs {
			fail("bloom/clamp", "NewFilter made %d bytes / %d hash funcs, limits are 36000 / 50", len(m.Filter), m.HashFuncs)
		}
		sz := refbloom.Sizing(c.Elements, c.FPRate)
		if !sz.Ambiguous && (uint32(len(m.Filter)) != sz.Bytes || m.HashFuncs != sz.NHash) {
			fail("bloom/sizing", "NewFilter made %d bytes / %d hash funcs, BIP37 formulas give %d / %d", len(m.Filter), m.HashFuncs, sz.Bytes, sz.NHash)
		}
		if m.Tweak != c.Tweak || uint8(m.Flags) != c.Flags {
			fail("bloom/params", "tweak/flags not stored")
		}
	} else {
		f = bloom.LoadFilter(&wire.MsgFilterLoad{Filter: make([]byte, c.Size), HashFuncs: c.HashFuncs, Tweak: c.Tweak, Flags: wire.BloomUpdateType(c.Flags)})
	}
	m := f.MsgFilterLoad()
	nonEmpty := len(m.Filter) > 0
	ref := &refbloom.Filter{Data: make([]byte, len(m.Filter)), NHash: m.HashFuncs, Tweak: m.Tweak, Flags: byte(m.Flags)}
	if c.Ctor == "load" {
		// the reference keeps the caller's hash count (normalisation of an empty field is btcd's business)
		ref.NHash = c.HashFuncs
	}
	for i, it := range bloomItems {
		if c.Insert>>uint(i)&1 == 1 {
			if len(it) == 32 {
				f.AddHash((*chainhash.Hash)(it))
			} else {
				f.Add(it)
			}
			ref.Insert(it)
		}
	}
	if !nonEmpty {
		// outside the property: an empty bit field.  Only demand that nothing panics.
		for _, it := range bloomItems {
			f.Matches(it)
		}
		return fs
	}
	if !bytes.Equal(f.MsgFilterLoad().Filter, ref.Data) {
		fail("bloom/add-bits", "bit field after insertion %x, BIP37 says %x", trunc(f.MsgFilterLoad().Filter), trunc(ref.Data))
	}
	for i, it := range bloomItems {
		got := f.Matches(it)
		want := ref.Contains(it)
		ins := c.Insert>>uint(i)&1 == 1
		if got == want {
			continue
		}
		switch {
		case ins && !got && ref.NHash == 0:
			fail("bloom/zero-hashfuncs-false-negative", "non-empty bit field (%d bytes) with 0 hash functions: Matches(item#%d)=false although it was inserted (BIP37's bit test is vacuously true for 0 hash functions)", len(m.Filter), i)
		case ins && !got:
			fail("bloom/false-negative", "Matches(item#%d)=false although it was inserted", i)
		case ref.NHash == 0:
			// not inserted, 0 hash functions: BIP37 matches everything, btcd nothing; the
			// property only speaks about inserted items
		default:
			fail("bloom/match-vs-bip37", "Matches(item#%d)=%v, BIP37 bit test says %v", i, got, want)
		}
	}
	return fs
}

func trunc(b []byte) []byte {
	if len(b) > 48 {
		return b[:48]
	}
	return b
}

func checkBloom(r *ev.Run, bounds map[string]interface{}) {
	elements := []uint32{1, 2, 3, 20, 20000}
	rates := []float64{-1, 0, 1e-9, 1e-6, 0.001, 0.01, 0.5, 0.8, 1.0, 20.9999999769}
	sizes := []int{1, 2, 3, 5, 8, 36000}
	hfs := []uint32{0, 1, 2, 3, 11, 50}
	var protos []BloomCase
	for _, e := range elements {
		for _, p := range rates {
			for _, t := range bloomTweaks {
				for _, fl := range bloomFlags {
					protos = append(protos, BloomCase{Ctor: "new", Elements: e, FPRate: p, Tweak: t, Flags: uint8(fl)})
				}
			}
		}
	}
	nNew := len(protos)
	for _, s := range append([]int{0}, sizes...) {
		for _, h := range hfs {
			for _, t := range bloomTweaks {
				for _, fl := range bloomFlags {
					protos = append(protos, BloomCase{Ctor: "load", Size: s, HashFuncs: h, Tweak: t, Flags: uint8(fl)})
				}
			}
		}
	}
	nSub := 1 << uint(len(bloomItems))
	col := newCollector()
	ev.Par(len(protos), workers, func(i int) {
		for mask := 0; mask < nSub; mask++ {
			bc := protos[i]
			bc.Insert = mask
			c := &Case{Kind: "bloom", Bloom: &bc}
			fs := runCase(c)
			col.add(int64(i*nSub+mask), c, fs)
			if mask != 0 {
				r.Nontrivial(fmt.Sprintf("bloom|%+v", bc))
			}
		}
		r.Eval(nSub)
		r.Trace(nSub)
	})
	col.report(r, "bloom")
	r.Add("bloom_cases", int64(len(protos)*nSub))
	bounds["bloom"] = map[string]interface{}{
		"NewFilter_elements": elements, "NewFilter_fprates": rates, "LoadFilter_sizes": append([]int{0}, sizes...), "LoadFilter_hashfuncs": hfs,
		"tweaks": bloomTweaks, "flags": []string{"none", "all", "p2pubkey-only"}, "items": len(bloomItems), "insert_subsets": nSub,
		"constructor_tuples": map[string]int{"NewFilter": nNew, "LoadFilter": len(protos) - nNew},
	}
}

// ---------------------------------------------------------------------------
// MatchTxAndUpdate

var (
	pk1  = pubKey(1, true)
	pk2u = pubKey(2, false)
	pk3  = pubKey(3, true)
	h160 = mustHex("04943fdd508053c75000106d3bc6e2754dbcff19")
	dat  = []byte("data!")
	sig  = append(append([]byte{0x30, 0x45}, bytes.Repeat([]byte{0x5a}, 69)...), 0x01) // 72 bytes, looks like a signature push
	big  = bytes.Repeat([]byte{0xb1}, 80)                                              // needs OP_PUSHDATA1
)

func pubKey(k byte, compressed bool) []byte {
	var b [32]byte
	b[31] = k
	_, pub := btcec.PrivKeyFromBytes(b[:])
	if compressed {
		return pub.SerializeCompressed()
	}
	return pub.SerializeUncompressed()
}

func push(d []byte) []byte {
	switch {
	case len(d) <= 75:
		return append([]byte{byte(len(d))}, d...)
	case len(d) <= 255:
		return append([]byte{0x4c, byte(len(d))}, d...)
	}
	return append([]byte{0x4d, byte(len(d)), byte(len(d) >> 8)}, d...)
}

func cat(parts ...[]byte) []byte {
	var out []byte
	for _, p := range parts {
		out = append(out, p...)
	}
	return out
}

// output script alphabet for MatchTxAndUpdate
var mtOuts = [][]byte{
	cat(push(pk1), []byte{0xac}),                                // 0 P2PK compressed
	cat([]byte{0x76, 0xa9}, push(h160), []byte{0x88, 0xac}),     // 1 P2PKH
	cat([]byte{0x51}, push(pk1), push(pk3), []byte{0x52, 0xae}), // 2 1-of-2 multisig
	{0x51},                        // 3 OP_TRUE: no data
	cat(push(pk2u), []byte{0xac}), // 4 P2PK uncompressed
	cat([]byte{0x6a}, push(dat)),  // 5 OP_RETURN data
}

var mtSigs = [][]byte{
	{},
	cat(push(sig), push(pk1)),
	push(big),
}

var mtPrevs = []wire.OutPoint{
	{Hash: refbloom.DSHA([]byte("prev-a")), Index: 0},
	{Hash: refbloom.DSHA([]byte("prev-a")), Index: 1},
	{Hash: refbloom.DSHA([]byte("prev-b")), Index: 0xffffffff},
}

// triggers: what is put into the filter before the transaction is offered
var mtTriggers = []string{"nothing", "txid", "pk1", "h160", "pk3", "pk2u", "data", "sig", "big", "prevout0", "prevout-other-index", "unrelated"}

// MatchTxCase: tx with outputs Outs (indices into mtOuts), one input (Prev, Sig).
type MatchTxCase struct {
	Outs    []int `json:"outs"`
	Prev    int   `json:"prev"`
	Sig     int   `json:"sig"`
	Trigger int   `json:"trigger"`
	// Trigger2: a second item put into the filter (index into mtTriggers, 0 =
	// nothing): the transaction then matches through more than one of BIP37's
	// tests, and every one of them has to run (the outpoint insertion of the
	// output test must not be skipped because the txid test already matched)
	Trigger2 int    `json:"trigger2,omitempty"`
	Flags    uint8  `json:"flags"`
	Tweak    uint32 `json:"tweak"`
}

func mtTx(c *MatchTxCase) *wire.MsgTx {
	tx := wire.NewMsgTx(1)
	tx.AddTxIn(&wire.TxIn{PreviousOutPoint: mtPrevs[c.Prev], SignatureScript: mtSigs[c.Sig], Sequence: 0xffffffff})
	for i, o := range c.Outs {
		tx.AddTxOut(&wire.TxOut{Value: int64(1 + i), PkScript: mtOuts[o]})
	}
	return tx
}

func runMatchTx(c *MatchTxCase) (fs []finding) {
	id := fmt.Sprintf("outs=%v prev=%d sig=%d trigger=%s+%s flags=%d tweak=%#x", c.Outs, c.Prev, c.Sig, mtTriggers[c.Trigger], mtTriggers[c.Trigger2], c.Flags, c.Tweak)
	fail := func(class, format string, a ...interface{}) {
		fs = append(fs, finding{class, fmt.Sprintf(format, a...) + " [" + id + "]"})
	}
	tx := mtTx(c)
	txid := lab.TxID(tx)
	itemOf := func(trigger int) []byte {
		switch mtTriggers[trigger] {
		case "txid":
			return txid[:]
		case "pk1":
			return pk1
		case "h160":
			return h160
		case "pk3":
			return pk3
		case "pk2u":
			return pk2u
		case "data":
			return dat
		case "sig":
			return sig
		case "big":
			return big
		case "prevout0":
			return refbloom.OutPointBytes(mtPrevs[c.Prev].Hash, mtPrevs[c.Prev].Index)
		case "prevout-other-index":
			return refbloom.OutPointBytes(mtPrevs[c.Prev].Hash, mtPrevs[c.Prev].Index+1)
		case "unrelated":
			return []byte("unrelated item")
		}
		return nil
	}
	item, item2 := itemOf(c.Trigger), itemOf(c.Trigger2)
	f := bloom.NewFilter(10, c.Tweak, 0.000001, wire.BloomUpdateType(c.Flags))
	m := f.MsgFilterLoad()
	if len(m.Filter) == 0 {
		return []finding{{"harness/matchtx-empty-filter", "unexpected empty filter"}}
	}
	ref := &refbloom.Filter{Data: make([]byte, len(m.Filter)), NHash: m.HashFuncs, Tweak: m.Tweak, Flags: byte(m.Flags)}
	for _, it := range [][]byte{item, item2} {
		if it != nil {
			f.Add(it)
			ref.Insert(it)
		}
	}
	utx := btcutil.NewTx(tx)
	if *utx.Hash() != chainhash.Hash(txid) {
		return []finding{{"harness/txid", "txid mismatch"}}
	}
	got := f.MatchTxAndUpdate(utx)
	want := ref.IsRelevantAndUpdate(toRefTx(tx))
	if got != want {
		cl := "bloom/matchtx-vs-bip37"
		if want && !got {
			cl = "bloom/matchtx-false-negative"
		}
		fail(cl, "MatchTxAndUpdate=%v, BIP37 says %v", got, want)
	}
	if !bytes.Equal(f.MsgFilterLoad().Filter, ref.Data) {
		fail("bloom/matchtx-update", "bit field after MatchTxAndUpdate %x, BIP37 (update flag %d) says %x", f.MsgFilterLoad().Filter, c.Flags, ref.Data)
	}
	// consequence for the light client: transactions spending each output
	for i := range c.Outs {
		op := wire.OutPoint{Hash: chainhash.Hash(txid), Index: uint32(i)}
		gotOP := f.MatchesOutPoint(&op)
		wantOP := ref.Contains(refbloom.OutPointBytes(txid, uint32(i)))
		if gotOP != wantOP {
			cl := "bloom/matchtx-outpoint-vs-bip37"
			if wantOP {
				cl = "bloom/matchtx-outpoint-missing"
			}
			fail(cl, "after the match MatchesOutPoint(out %d)=%v, BIP37 says %v", i, gotOP, wantOP)
		}
		sp := wire.NewMsgTx(1)
		sp.AddTxIn(&wire.TxIn{PreviousOutPoint: op, Sequence: 0xffffffff})
		sp.AddTxOut(&wire.TxOut{Value: 1, PkScript: []byte{0x51}})
		g2 := f.MatchTxAndUpdate(btcutil.NewTx(sp))
		w2 := ref.IsRelevantAndUpdate(toRefTx(sp))
		if g2 != w2 {
			cl := "bloom/matchtx-spender-vs-bip37"
			if w2 {
				cl = "bloom/matchtx-spender-missed"
			}
			fail(cl, "a transaction spending output %d: MatchTxAndUpdate=%v, BIP37 says %v", i, g2, w2)
		}
	}
	return fs
}

func checkMatchTx(r *ev.Run, bounds map[string]interface{}) {
	var outSeqs [][]int
	for _, s := range seqs(2, len(mtOuts)) {
		outSeqs = append(outSeqs, s)
	}
	if r.Thorough() {
		outSeqs = seqs(3, len(mtOuts))
	}
	tweaks := []uint32{0, 0xffffffff}
	var cases []*Case
	for _, o := range outSeqs {
		for p := range mtPrevs {
			for s := range mtSigs {
				for t := range mtTriggers {
					for _, t2 := range []int{0, 1, 9} { // nothing, txid, prevout0
						if t2 != 0 && t2 == t {
							continue
						}
						for _, fl := range bloomFlags {
							for _, tw := range tweaks {
								cases = append(cases, &Case{Kind: "matchtx", MatchTx: &MatchTxCase{Outs: o, Prev: p, Sig: s, Trigger: t, Trigger2: t2, Flags: uint8(fl), Tweak: tw}})
							}
						}
					}
				}
			}
		}
	}
	col := newCollector()
	ev.Par(len(cases), workers, func(i int) {
		fs := runCase(cases[i])
		r.Eval(1)
		r.Trace(1)
		c := cases[i].MatchTx
		if c.Trigger != 0 {
			r.Nontrivial(fmt.Sprintf("mt|%v|%d|%d|%d|%d|%d|%d", c.Outs, c.Prev, c.Sig, c.Trigger, c.Trigger2, c.Flags, c.Tweak))
		}
		col.add(int64(i), cases[i], fs)
	})
	r.Sample(cases[len(cases)/2])
	col.report(r, "matchtx")
	r.Add("matchtx_cases", int64(len(cases)))
	bounds["match_tx_and_update"] = map[string]interface{}{
		"output_scripts": []string{"P2PK(c)", "P2PKH", "1-of-2 multisig", "OP_TRUE", "P2PK(u)", "OP_RETURN data"}, "outputs_per_tx": fmt.Sprintf("1..%d (all sequences: %d)", len(outSeqs[len(outSeqs)-1]), len(outSeqs)),
		"prevouts": len(mtPrevs), "sigscripts": []string{"empty", "<sig> <pubkey>", "OP_PUSHDATA1 80 bytes"}, "triggers": mtTriggers, "flags": 3, "tweaks": tweaks,
		"followup": "MatchesOutPoint and a spending transaction for every output",
	}
}
