package main

import (
	"fmt"

	"github.com/btcsuite/btcd/btcutil/v2/gcs"
	"github.com/btcsuite/btcd/btcutil/v2/gcs/builder"

	"verif/engine/ev"
)

// Sub-check builder_ops: the filter builder is an accumulator.  Every sequence
// of <= 4 operations over {AddEntry(e0), AddEntry(e1), AddEntries([e2 e3]),
// Preallocate(1), Preallocate(8), Preallocate(0)} followed by Build: the filter
// holds exactly the distinct entries added, in whatever order the size hints
// were given.
type BuilderOpsCase struct {
	Ops []int `json:"ops"`
}

var builderOpNames = []string{"AddEntry(e0)", "AddEntry(e1)", "AddEntries([e2 e3])", "Preallocate(1)", "Preallocate(8)", "Preallocate(0)"}

func runBuilderOps(c *BuilderOpsCase) (fs []finding) {
	es := [][]byte{{0xe0, 1}, {0xe1, 2, 2}, {0xe2}, {0xe3, 4, 4, 4}}
	var key [gcs.KeySize]byte
	for i := range key {
		key[i] = byte(17 * i)
	}
	b := builder.WithKeyPM(key, builder.DefaultP, builder.DefaultM)
	added := map[int]bool{}
	var names []string
	for _, o := range c.Ops {
		names = append(names, builderOpNames[o])
		switch o {
		case 0, 1:
			b.AddEntry(es[o])
			added[o] = true
		case 2:
			b.AddEntries([][]byte{es[2], es[3]})
			added[2], added[3] = true, true
		case 3:
			b.Preallocate(1)
		case 4:
			b.Preallocate(8)
		case 5:
			b.Preallocate(0)
		}
	}
	f, err := b.Build()
	if err != nil {
		return []finding{{"builder-ops/build-error", fmt.Sprintf("%v then Build: %v", names, err)}}
	}
	if int(f.N()) != len(added) {
		fs = append(fs, finding{"builder-ops/count", fmt.Sprintf("%v then Build: filter holds %d elements, %d distinct entries were added", names, f.N(), len(added))})
	}
	for i := range es {
		if !added[i] {
			continue
		}
		if ok, err := f.Match(key, es[i]); err != nil || !ok {
			fs = append(fs, finding{"builder-ops/false-negative", fmt.Sprintf("%v then Build: entry e%d was added but Match = %v (err %v)", names, i, ok, err)})
			break
		}
	}
	return fs
}

func checkBuilderOps(r *ev.Run, bounds map[string]interface{}) {
	col := newCollector()
	var idx int64
	var rec func(ops []int)
	rec = func(ops []int) {
		c := &Case{Kind: "builder-ops", BuilderOps: &BuilderOpsCase{Ops: append([]int(nil), ops...)}}
		fs := runCase(c)
		r.Eval(1)
		r.Trace(1)
		r.Nontrivial(fmt.Sprintf("builderops|%v", ops))
		col.add(idx, c, fs)
		idx++
		if len(ops) == 4 {
			return
		}
		for o := range builderOpNames {
			rec(append(ops, o))
		}
	}
	rec(nil)
	col.report(r, "builder_ops")
	r.Add("builder_op_sequences", idx)
	bounds["builder_ops"] = "every sequence of <= 4 operations over " + fmt.Sprint(builderOpNames) + ", then Build: element count and membership"
}
