package main

import (
	"bytes"
	"fmt"
	"time"

	"github.com/btcsuite/btcd/btcutil/v2"
	"github.com/btcsuite/btcd/btcutil/v2/bloom"
	"github.com/btcsuite/btcd/chainhash/v2"
	"github.com/btcsuite/btcd/wire/v2"

	"verif/engine/ev"
	"verif/lab"
	"verif/ref/refbloom"
)

// MerkleCase: a block of N transactions without any data push (so that only the
// txid can match), a filter holding exactly the txids selected by Mask.
type MerkleCase struct {
	N    int    `json:"n"`
	Mask uint32 `json:"mask"`
}

// merkleBlockTxs builds the N plain transactions of the block.
func merkleBlockTxs(n int) []*wire.MsgTx {
	txs := make([]*wire.MsgTx, n)
	for i := range txs {
		tx := wire.NewMsgTx(1)
		var in wire.TxIn
		in.PreviousOutPoint = wire.OutPoint{Hash: refbloom.DSHA([]byte{'m', byte(n), byte(i)}), Index: uint32(i)}
		in.Sequence = 0xffffffff
		if i == 0 {
			in.PreviousOutPoint = wire.OutPoint{Index: 0xffffffff} // coinbase-like, scriptSig without pushes
			in.SignatureScript = []byte{0x51, 0x51}
		}
		tx.AddTxIn(&in)
		tx.AddTxOut(&wire.TxOut{Value: int64(5000 + 100*n + i), PkScript: []byte{0x51}})
		txs[i] = tx
	}
	return txs
}

func assembleBlock(txs []*wire.MsgTx) (*wire.MsgBlock, [][32]byte) {
	ids := make([][32]byte, len(txs))
	for i, tx := range txs {
		ids[i] = lab.TxID(tx)
	}
	blk := &wire.MsgBlock{Header: wire.BlockHeader{Version: 0x20000000, PrevBlock: refbloom.DSHA([]byte("parent")), Timestamp: time.Unix(1_600_000_000, 0), Bits: 0x207fffff, Nonce: uint32(len(txs))}}
	blk.Header.MerkleRoot = refbloom.MerkleRoot(ids)
	blk.Transactions = txs
	return blk, ids
}

// verifyMerkleBlock compares btcd's merkle block for (blk, filter) with BIP37.
// refF is the reference filter in the same state as the btcd filter.
func verifyMerkleBlock(blk *wire.MsgBlock, ids [][32]byte, f *bloom.Filter, refF *refbloom.Filter, fail func(class, format string, a ...interface{})) (expected []bool) {
	n := len(ids)
	// BIP37: the node tests the transactions in block order, updating the filter as it goes
	expected = make([]bool, n)
	var wantIdx []uint32
	var wantIDs [][32]byte
	for i, tx := range blk.Transactions {
		if refF.IsRelevantAndUpdate(toRefTx(tx)) {
			expected[i] = true
			wantIdx = append(wantIdx, uint32(i))
			wantIDs = append(wantIDs, ids[i])
		}
	}
	ub := btcutil.NewBlock(blk)
	mb, matched := bloom.NewMerkleBlock(ub, f)
	if fmt.Sprint(matched) != fmt.Sprint(wantIdx) {
		cl := "merkle/matched-indices"
		for _, w := range wantIdx {
			found := false
			for _, g := range matched {
				found = found || g == w
			}
			if !found {
				cl = "merkle/matched-indices-missing"
			}
		}
		fail(cl, "NewMerkleBlock matched indices %v, BIP37 relevance says %v", matched, wantIdx)
	}
	if !bytes.Equal(f.MsgFilterLoad().Filter, refF.Data) {
		fail("merkle/filter-update", "filter bit field after NewMerkleBlock differs from BIP37's")
	}
	if mb.Transactions != uint32(n) {
		fail("merkle/tx-count", "Transactions=%d, block has %d", mb.Transactions, n)
	}
	if mb.Header.BlockHash() != blk.Header.BlockHash() {
		fail("merkle/header", "header differs from the block's")
	}
	// the wire form, parsed naively, then verified as a light client does
	var buf bytes.Buffer
	if err := mb.BtcEncode(&buf, wire.ProtocolVersion, wire.LatestEncoding); err != nil {
		fail("merkle/encode", "BtcEncode: %v", err)
		return
	}
	p, ok := parseMerkleBlock(buf.Bytes())
	if !ok {
		fail("merkle/encode", "encoded merkleblock does not parse: %x", buf.Bytes())
		return
	}
	var root [32]byte
	copy(root[:], p.header[36:68])
	if root != [32]byte(blk.Header.MerkleRoot) {
		fail("merkle/header", "merkle root in the encoded header differs")
	}
	ex, err := refbloom.Extract(p.nTx, p.hashes, p.flags)
	if err != nil {
		fail("merkle/extract-rejects", "BIP37 verifier rejects the partial merkle tree (%d hashes, flags %x): %v", len(p.hashes), p.flags, err)
		return
	}
	if ex.Root != root {
		fail("merkle/root", "partial merkle tree hashes to %x, block merkle root is %x", ex.Root[:], root[:])
	}
	if fmt.Sprint(ex.Indices) != fmt.Sprint(wantIdx) {
		cl := "merkle/proves-wrong-set"
		for _, w := range wantIdx {
			found := false
			for _, g := range ex.Indices {
				found = found || g == w
			}
			if !found {
				cl = "merkle/proves-too-few"
			}
		}
		fail(cl, "partial merkle tree proves tx positions %v, matched are %v", ex.Indices, wantIdx)
	} else {
		for i := range wantIDs {
			if ex.Matched[i] != wantIDs[i] {
				fail("merkle/proves-wrong-txid", "proved txid %x at position %d, block has %x", ex.Matched[i][:], wantIdx[i], wantIDs[i][:])
			}
		}
	}
	// BIP37 fixes the construction completely: compare with the naive builder
	bits, hashes := refbloom.BuildPartial(ids, expected)
	if !bytes.Equal(refbloom.PackBits(bits), p.flags) || len(hashes) != len(p.hashes) {
		fail("merkle/construction", "flags %x / %d hashes, BIP37 construction gives %x / %d", p.flags, len(p.hashes), refbloom.PackBits(bits), len(hashes))
	} else {
		for i := range hashes {
			if hashes[i] != p.hashes[i] {
				fail("merkle/construction", "hash #%d differs from BIP37's construction", i)
				break
			}
		}
	}
	return expected
}

func runMerkle(c *MerkleCase) (fs []finding) {
	id := fmt.Sprintf("n=%d matched-mask=%0*b", c.N, c.N, c.Mask)
	fail := func(class, format string, a ...interface{}) {
		fs = append(fs, finding{class, fmt.Sprintf(format, a...) + " [" + id + "]"})
	}
	txs := merkleBlockTxs(c.N)
	blk, ids := assembleBlock(txs)
	f := bloom.LoadFilter(&wire.MsgFilterLoad{Filter: make([]byte, 512), HashFuncs: 10, Tweak: 5, Flags: wire.BloomUpdateNone})
	refF := &refbloom.Filter{Data: make([]byte, 512), NHash: 10, Tweak: 5, Flags: refbloom.UpdateNone}
	for i := 0; i < c.N; i++ {
		if c.Mask>>uint(i)&1 == 1 {
			h := chainhash.Hash(ids[i])
			f.AddHash(&h)
			refF.Insert(ids[i][:])
		}
	}
	exp := verifyMerkleBlock(blk, ids, f, refF, fail)
	// did the bloom filter select exactly the intended subset?
	if exp != nil {
		for i := range exp {
			if exp[i] != (c.Mask>>uint(i)&1 == 1) {
				fs = append(fs, finding{"info/fp-shifted", ""})
				break
			}
		}
	}
	return fs
}

func checkMerkle(r *ev.Run, bounds map[string]interface{}) {
	maxN := r.Pick(10, 14)
	var cases []*Case
	for n := 1; n <= maxN; n++ {
		for mask := uint32(0); mask < 1<<uint(n); mask++ {
			cases = append(cases, &Case{Kind: "merkle", Merkle: &MerkleCase{N: n, Mask: mask}})
		}
	}
	col := newCollector()
	var shifted int64
	ev.Par(len(cases), workers, func(i int) {
		fs := runCase(cases[i])
		var keep []finding
		for _, f := range fs {
			if f.class == "info/fp-shifted" {
				r.Add("merkle_cases_where_bloom_false_positive_changed_the_subset", 1)
				continue
			}
			keep = append(keep, f)
		}
		r.Eval(1)
		r.Trace(1)
		r.Nontrivial(fmt.Sprintf("merkle|%d|%d", cases[i].Merkle.N, cases[i].Merkle.Mask))
		col.add(int64(i), cases[i], keep)
	})
	_ = shifted
	r.Sample(cases[len(cases)/5])
	col.report(r, "merkle")
	r.Add("merkle_cases", int64(len(cases)))
	bounds["merkle_block"] = map[string]interface{}{"n_txs": fmt.Sprintf("1..%d", maxN), "matched_subsets": "all 2^n", "filter": "512 bytes, 10 hash funcs, tweak 5, update none; holds exactly the txids of the subset"}
}

// ---------------------------------------------------------------------------
// cascade: NewMerkleBlock must offer the transactions in block order to
// MatchTxAndUpdate, so that a matched output makes the spending transaction match

// CascadeCase: tx i (i>=1) spends output 0 of tx i-1; output 0 of tx i is P2PK(pk1)
// when bit i of Scripts is set, else OP_TRUE.  The filter initially holds pk1
// (Trigger=0), the txid of tx J (Trigger=1) or the outpoint tx J spends (Trigger=2).
type CascadeCase struct {
	N       int    `json:"n"`
	Scripts uint32 `json:"scripts"`
	Trigger int    `json:"trigger"`
	J       int    `json:"j"`
	Flags   uint8  `json:"flags"`
}

func runCascade(c *CascadeCase) (fs []finding) {
	id := fmt.Sprintf("%+v", *c)
	fail := func(class, format string, a ...interface{}) {
		fs = append(fs, finding{class, fmt.Sprintf(format, a...) + " [" + id + "]"})
	}
	txs := make([]*wire.MsgTx, c.N)
	for i := range txs {
		tx := wire.NewMsgTx(1)
		in := wire.TxIn{Sequence: 0xffffffff}
		if i == 0 {
			in.PreviousOutPoint = wire.OutPoint{Index: 0xffffffff}
			in.SignatureScript = []byte{0x51}
		} else {
			in.PreviousOutPoint = wire.OutPoint{Hash: lab.TxID(txs[i-1]), Index: 0}
		}
		tx.AddTxIn(&in)
		script := []byte{0x51}
		if c.Scripts>>uint(i)&1 == 1 {
			script = mtOuts[0]
		}
		tx.AddTxOut(&wire.TxOut{Value: int64(1000 - i), PkScript: script})
		txs[i] = tx
	}
	blk, ids := assembleBlock(txs)
	f := bloom.LoadFilter(&wire.MsgFilterLoad{Filter: make([]byte, 256), HashFuncs: 8, Tweak: 77, Flags: wire.BloomUpdateType(c.Flags)})
	refF := &refbloom.Filter{Data: make([]byte, 256), NHash: 8, Tweak: 77, Flags: c.Flags}
	var item []byte
	switch c.Trigger {
	case 0:
		item = pk1
	case 1:
		item = ids[c.J][:]
	case 2:
		op := txs[c.J].TxIn[0].PreviousOutPoint
		item = refbloom.OutPointBytes(op.Hash, op.Index)
	}
	f.Add(item)
	refF.Insert(item)
	verifyMerkleBlock(blk, ids, f, refF, fail)
	return fs
}

func checkCascade(r *ev.Run, bounds map[string]interface{}) {
	maxN := r.Pick(6, 8)
	var cases []*Case
	for n := 1; n <= maxN; n++ {
		for s := uint32(0); s < 1<<uint(n); s++ {
			for _, fl := range bloomFlags {
				cases = append(cases, &Case{Kind: "merkle-cascade", Cascade: &CascadeCase{N: n, Scripts: s, Trigger: 0, Flags: uint8(fl)}})
				for j := 0; j < n; j++ {
					cases = append(cases, &Case{Kind: "merkle-cascade", Cascade: &CascadeCase{N: n, Scripts: s, Trigger: 1, J: j, Flags: uint8(fl)}})
					cases = append(cases, &Case{Kind: "merkle-cascade", Cascade: &CascadeCase{N: n, Scripts: s, Trigger: 2, J: j, Flags: uint8(fl)}})
				}
			}
		}
	}
	col := newCollector()
	ev.Par(len(cases), workers, func(i int) {
		fs := runCase(cases[i])
		r.Eval(1)
		r.Trace(1)
		r.Nontrivial(fmt.Sprintf("cascade|%+v", *cases[i].Cascade))
		col.add(int64(i), cases[i], fs)
	})
	col.report(r, "merkle-cascade")
	r.Add("merkle_cascade_cases", int64(len(cases)))
	bounds["merkle_cascade"] = map[string]interface{}{"n_txs": fmt.Sprintf("1..%d (a chain: tx i spends tx i-1)", maxN), "output_scripts": "every assignment of {OP_TRUE, P2PK(pk1)} to the n outputs", "triggers": "pk1 | txid of tx j | outpoint spent by tx j, every j", "flags": 3}
}
