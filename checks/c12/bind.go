package main

import (
	"bytes"
	"compress/bzip2"
	"encoding/binary"
	"io"
	"os"
	"path/filepath"
	"strings"

	"github.com/btcsuite/btcd/chaincfg/v2"
	"github.com/btcsuite/btcd/wire/v2"

	"verif/engine/ev"
	"verif/lab"
	ref "verif/ref/refmerkle"
)

func repoRoot() string {
	if v := os.Getenv("VERIF_REPO"); v != "" {
		return v
	}
	return "/repo"
}

// bindReference runs ground truth shipped with btcd through the REFERENCE only
// (refmerkle is bound in depth by C13; here the parts C12 relies on are re-bound:
// serialization, merkle root, weight, witness-less commitment rule, subsidy).
func bindReference(r *ev.Run) {
	blocks, txs := 0, 0
	for _, f := range []string{"blockchain/testdata/277647.dat.bz2", "blockchain/testdata/blk_0_to_4.dat.bz2", "blockchain/testdata/blk_3A.dat.bz2"} {
		path := filepath.Join(repoRoot(), f)
		fi, err := os.Open(path)
		if err != nil {
			r.Broken("cannot open shipped vectors %s: %v", path, err)
		}
		var rd io.Reader = fi
		if strings.HasSuffix(path, ".bz2") {
			rd = bzip2.NewReader(fi)
		}
		for {
			var magic, l uint32
			if binary.Read(rd, binary.LittleEndian, &magic) != nil || binary.Read(rd, binary.LittleEndian, &l) != nil {
				break
			}
			if l > 4_000_000 {
				r.Broken("%s: implausible block length %d", path, l)
			}
			raw := make([]byte, l)
			if _, err := io.ReadFull(rd, raw); err != nil {
				r.Broken("%s: truncated record: %v", path, err)
			}
			var mb wire.MsgBlock
			if err := mb.Deserialize(bytes.NewReader(raw)); err != nil {
				r.Broken("%s: block does not parse: %v", path, err)
			}
			var rtx []*ref.Tx
			rebuilt := append([]byte(nil), raw[:80]...)
			rebuilt = append(rebuilt, ref.CompactSize(uint64(len(mb.Transactions)))...)
			for _, t := range mb.Transactions {
				rt := toRef(t)
				rtx = append(rtx, rt)
				rebuilt = append(rebuilt, rt.Serialize(true)...)
				if lab.TxID(t) != rt.TxID() {
					r.Broken("%s: lab.TxID and the reference txid differ", path)
				}
			}
			if !bytes.Equal(rebuilt, raw) {
				r.Broken("%s: reference serialization does not reproduce the shipped raw block", path)
			}
			var root ref.Hash
			copy(root[:], raw[36:68])
			if ref.TxMerkleRoot(rtx) != root {
				r.Broken("%s: reference merkle root differs from the shipped header", path)
			}
			if ref.BlockWeight(rtx) != int64(4*len(raw)) {
				r.Broken("%s: reference weight %d != 4*size %d of a witness-less block", path, ref.BlockWeight(rtx), 4*len(raw))
			}
			if ref.CheckWitnessCommitment(rtx) != ref.CommitOK {
				r.Broken("%s: reference rejects a shipped pre-segwit block's (absent) commitment", path)
			}
			if !rtx[0].IsCoinBase() {
				r.Broken("%s: reference does not see a coinbase first", path)
			}
			blocks++
			txs += len(rtx)
		}
		fi.Close()
	}
	if blocks < 6 || txs < 200 {
		r.Broken("shipped block vectors: only %d blocks / %d txs loaded", blocks, txs)
	}
	// subsidy: the well-known main-net schedule
	mp := &chaincfg.MainNetParams
	for _, c := range []struct {
		h    int32
		want int64
	}{{0, 50e8}, {209999, 50e8}, {210000, 25e8}, {419999, 25e8}, {420000, 12.5e8}, {630000, 6.25e8}, {840000, 3.125e8}, {6929999, 1}, {6930000, 0}} {
		if got := lab.Subsidy(c.h, mp); got != c.want {
			r.Broken("reference subsidy(%d)=%d, the main-net schedule says %d", c.h, got, c.want)
		}
	}
	// BIP141 sigop cost of the script templates the universe uses
	p2pkh := append(append([]byte{0x76, 0xa9, 0x14}, make([]byte, 20)...), 0x88, 0xac)
	if ref.SigOps(p2pkh, false) != 1 || ref.SigOps([]byte{0x51}, false) != 0 || ref.SigOps(bytes.Repeat([]byte{0xac}, 5000), false) != 5000 {
		r.Broken("reference sigop counts of P2PKH / OP_TRUE / 5000xOP_CHECKSIG are not 1 / 0 / 5000")
	}
	wp := append([]byte{0x00, 0x14}, make([]byte, 20)...)
	if ref.CountWitnessSigOps(nil, wp, [][]byte{{1}, {2}}) != 1 || ref.SigOps(wp, false) != 0 {
		r.Broken("reference P2WPKH sigop accounting is not (witness 1, legacy 0)")
	}
	r.Set("reference_bound_to", map[string]interface{}{"shipped_blocks_serialization_merkle_weight": blocks, "shipped_block_transactions": txs, "subsidy_schedule_points": 9, "note": "refmerkle is bound in depth (sigops, commitments, BIP34/68/113) by C13"})
}
