// C12 — generated block templates are always valid and correctly accounted.
//
// Harness: a real blockchain.BlockChain (ffldb on /dev/shm, lab.NewChain) + a real
// mempool.TxPool wired to it the way server.go does (FetchUtxoView, BestHeight,
// MedianTimePast, CalcSequenceLock, IsDeploymentActive; block connect/disconnect
// notifications handled like netsync's handleBlockchainNotification) + a real
// mining.BlkTmplGenerator.  Enumerated exhaustively: chain tips ("worlds") x pool
// states (every subset of an 8-transaction universe + constructed pools) x mining
// policies x orders in which the transaction source lists the pool x coinbase
// address kinds.  Every template is checked against values recomputed by the naive
// reference (refmerkle + lab's fold), solved, and delivered to a fresh identical
// chain with ProcessBlock.
package main

import (
	"bytes"
	"crypto/sha256"
	"fmt"
	"reflect"
	"runtime"
	"sort"
	"strings"
	"sync"
	"time"

	"github.com/btcsuite/btcd/blockchain"
	"github.com/btcsuite/btcd/btcutil/v2"
	"github.com/btcsuite/btcd/chainhash/v2"
	"github.com/btcsuite/btcd/mempool"
	"github.com/btcsuite/btcd/mining"
	"github.com/btcsuite/btcd/txscript/v2"
	"github.com/btcsuite/btcd/wire/v2"

	"verif/engine/ev"
	"verif/lab"
	ref "verif/ref/refmerkle"
)

// ---------------------------------------------------------------------------
// case description (also the replay object)

type poolSpec struct {
	Kind string `json:"kind"`           // "U" | "chain" | "sigops" | "big" | "locks" | "star" | "p2sh"
	Mask uint32 `json:"mask,omitempty"` // U: subset of the base universe
	Rev  bool   `json:"rev,omitempty"`  // submit children first (through the orphan pool)
	A    int    `json:"a,omitempty"`    // chain: length; sigops: #5000-sigop txs; big: padding of the first eight
	B    int    `json:"b,omitempty"`    // sigops: #1-sigop txs; big: padding of the last
}

func (p poolSpec) String() string {
	return fmt.Sprintf("%s/%x/%v/%d/%d", p.Kind, p.Mask, p.Rev, p.A, p.B)
}

type policySpec struct {
	MaxW    uint32 `json:"max_weight"`
	MinW    uint32 `json:"min_weight"`
	MaxSize uint32 `json:"max_size"`
	MinSize uint32 `json:"min_size"`
	Prio    uint32 `json:"priority_size"`
	MinFree int64  `json:"tx_min_free_fee"`
}

func (p policySpec) String() string {
	return fmt.Sprintf("maxw=%d,minw=%d,maxsize=%d,prio=%d,minfree=%d", p.MaxW, p.MinW, p.MaxSize, p.Prio, p.MinFree)
}

type caseSpec struct {
	World  string     `json:"world"`
	Pool   poolSpec   `json:"pool"`
	Policy policySpec `json:"policy"`
	Perm   []int      `json:"source_order"` // permutation of the canonical pool order
	Addr   string     `json:"coinbase_address"`
}

type problem struct {
	Sym  string // stable symptom class (violation key prefix)
	What string
}

// ---------------------------------------------------------------------------
// unit = one (world, pool) state with its own chain, pool and generator inputs

type poolTx struct {
	Name   string
	Tx     *btcutil.Tx
	Hash   chainhash.Hash
	Weight int64
}

// orderedSource presents the pool to the generator in a chosen order (the
// TxSource contract leaves the order open; mempool.TxPool uses map order).
type orderedSource struct {
	p     *mempool.TxPool
	order map[chainhash.Hash]int
}

func (s *orderedSource) LastUpdated() time.Time { return s.p.LastUpdated() }
func (s *orderedSource) HaveTransaction(h *chainhash.Hash) bool {
	return s.p.HaveTransaction(h)
}
func (s *orderedSource) MiningDescs() []*mining.TxDesc {
	d := s.p.MiningDescs()
	sort.SliceStable(d, func(i, j int) bool {
		a, aok := s.order[*d[i].Tx.Hash()]
		b, bok := s.order[*d[j].Tx.Hash()]
		if aok != bok {
			return aok
		}
		if !aok {
			return bytes.Compare(d[i].Tx.Hash()[:], d[j].Tx.Hash()[:]) < 0
		}
		return a < b
	})
	return d
}

type unit struct {
	w        *world
	ps       poolSpec
	g        *lab.Chain
	pool     *mempool.TxPool
	clock    *lab.FixedTime
	sigCache *txscript.SigCache
	hashC    *txscript.HashCache
	txs      []poolTx // effective pool, canonical order
	names    map[chainhash.Hash]string
	rejected []string
	harness  string // harness problem (not a property violation)
}

func specTxs(w *world, ps poolSpec) []utx {
	switch ps.Kind {
	case "U":
		var out []utx
		for i, u := range w.U {
			if ps.Mask&(1<<uint(i)) != 0 {
				out = append(out, u)
			}
		}
		return out
	case "chain":
		return poolChain(w, ps.A)
	case "sigops":
		return poolSigops(w, ps.A, ps.B)
	case "big":
		return poolBig(w, ps.A, ps.B)
	case "locks":
		return poolLocks(w)
	case "star":
		return poolStar(w, ps.A)
	case "witstar":
		return poolWitStar(w, ps.A)
	case "p2sh":
		return poolP2SH(w, ps.A)
	}
	panic("bad pool kind " + ps.Kind)
}

func newUnit(w *world, ps poolSpec) (*unit, error) {
	c, err := lab.NewChain(lab.CloneParams(w.Params), lab.ChainOpts{})
	if err != nil {
		return nil, err
	}
	u := &unit{w: w, ps: ps, g: c, clock: &lab.FixedTime{T: lab.Now},
		sigCache: txscript.NewSigCache(2000), hashC: txscript.NewHashCache(2000), names: map[chainhash.Hash]string{}}
	bc := c.BC
	// --- as server.go newServer ---
	u.pool = mempool.New(&mempool.Config{
		Policy: mempool.Policy{
			DisableRelayPriority: true, // --norelaypriority: low-fee low-priority transactions reach the pool
			AcceptNonStd:         true, // regtest default (RelayNonStd)
			FreeTxRelayLimit:     15.0,
			MaxOrphanTxs:         100,
			MaxOrphanTxSize:      100000,
			MaxSigOpCostPerTx:    blockchain.MaxBlockSigOpsCost / 4,
			MinRelayTxFee:        mempool.DefaultMinRelayTxFee,
			MaxTxVersion:         2,
		},
		ChainParams:    c.Params,
		FetchUtxoView:  bc.FetchUtxoView,
		BestHeight:     func() int32 { return bc.BestSnapshot().Height },
		MedianTimePast: func() time.Time { return bc.BestSnapshot().MedianTime },
		CalcSequenceLock: func(tx *btcutil.Tx, view *blockchain.UtxoViewpoint) (*blockchain.SequenceLock, error) {
			return bc.CalcSequenceLock(tx, view, true)
		},
		IsDeploymentActive: bc.IsDeploymentActive,
		SigCache:           u.sigCache,
		HashCache:          u.hashC,
	})
	// --- as netsync/manager.go handleBlockchainNotification ---
	bc.Subscribe(func(n *blockchain.Notification) {
		switch n.Type {
		case blockchain.NTBlockConnected:
			block, ok := n.Data.(*btcutil.Block)
			if !ok {
				return
			}
			for _, tx := range block.Transactions()[1:] {
				u.pool.RemoveTransaction(tx, false)
				u.pool.RemoveDoubleSpends(tx)
				u.pool.RemoveOrphan(tx)
				u.pool.ProcessOrphans(tx)
			}
		case blockchain.NTBlockDisconnected:
			block, ok := n.Data.(*btcutil.Block)
			if !ok {
				return
			}
			for _, tx := range block.Transactions()[1:] {
				_, _, err := u.pool.MaybeAcceptTransaction(tx, false, false)
				if err != nil {
					u.pool.RemoveTransaction(tx, true)
				}
			}
		}
	})
	deliver := func(blks []*lab.Blk) error {
		for _, b := range blks {
			_, orphan, err := bc.ProcessBlock(b.Block(), blockchain.BFNone)
			if err != nil || orphan {
				return fmt.Errorf("world block %s not accepted: err=%v orphan=%v", b.Name, err, orphan)
			}
		}
		return nil
	}
	if err := deliver(w.Deliver[:w.SubmitAfter]); err != nil {
		u.harness = err.Error()
		return u, nil
	}
	list := specTxs(w, ps)
	all := append([]utx{}, w.ReorgTxs...)
	all = append(all, list...)
	for _, t := range all {
		u.names[lab.TxID(t.Tx)] = t.Name
	}
	sub := append([]utx{}, list...)
	if ps.Rev {
		for i, j := 0, len(sub)-1; i < j; i, j = i+1, j-1 {
			sub[i], sub[j] = sub[j], sub[i]
		}
	}
	for _, t := range sub {
		_, err := u.pool.ProcessTransaction(btcutil.NewTx(t.Tx.Copy()), true, false, 0)
		if err != nil {
			u.rejected = append(u.rejected, t.Name)
		}
	}
	if err := deliver(w.Deliver[w.SubmitAfter:]); err != nil {
		u.harness = err.Error()
		return u, nil
	}
	if best := bc.BestSnapshot(); best.Hash != w.Tip.Hash {
		u.harness = fmt.Sprintf("generator chain tip is %v, expected %s", best.Hash, w.Tip.Name)
		return u, nil
	}
	// effective pool in canonical order (reorg survivors first, then spec order)
	inPool := map[chainhash.Hash]*btcutil.Tx{}
	for _, d := range u.pool.TxDescs() {
		inPool[*d.Tx.Hash()] = d.Tx
	}
	for _, t := range all {
		h := lab.TxID(t.Tx)
		if tx, ok := inPool[h]; ok {
			u.txs = append(u.txs, poolTx{Name: t.Name, Tx: tx, Hash: h, Weight: txWeight(tx.MsgTx())})
			delete(inPool, h)
		}
	}
	var extra []chainhash.Hash
	for h := range inPool {
		extra = append(extra, h)
	}
	sort.Slice(extra, func(i, j int) bool { return bytes.Compare(extra[i][:], extra[j][:]) < 0 })
	for _, h := range extra {
		u.names[h] = "x" + h.String()[:6]
		u.txs = append(u.txs, poolTx{Name: u.names[h], Tx: inPool[h], Hash: h, Weight: txWeight(inPool[h].MsgTx())})
	}
	return u, nil
}

func (u *unit) poolKey() string {
	var n []string
	for _, t := range u.txs {
		n = append(n, t.Name)
	}
	return strings.Join(n, "+")
}

func (u *unit) close() { u.g.Destroy() }

// ---------------------------------------------------------------------------
// validation of a template block on a fresh identical chain (cached per block)

type valResult struct {
	once     sync.Once
	n        *naive
	problems []problem
}

var valCache sync.Map // world|sha256(block bytes) -> *valResult

func serializeBlock(m *wire.MsgBlock) []byte {
	var buf bytes.Buffer
	if err := m.Serialize(&buf); err != nil {
		panic(err)
	}
	return buf.Bytes()
}

func parseBlock(b []byte) *wire.MsgBlock {
	var m wire.MsgBlock
	if err := m.Deserialize(bytes.NewReader(b)); err != nil {
		panic(err)
	}
	return &m
}

func freshChain(w *world) (*lab.Chain, error) {
	c, err := lab.NewChain(lab.CloneParams(w.Params), lab.ChainOpts{})
	if err != nil {
		return nil, err
	}
	for _, b := range w.Deliver {
		_, orphan, err := c.BC.ProcessBlock(b.Block(), blockchain.BFNone)
		if err != nil || orphan {
			c.Destroy()
			return nil, fmt.Errorf("world block %s not accepted on the validator: err=%v orphan=%v", b.Name, err, orphan)
		}
	}
	return c, nil
}

// acceptOnFresh delivers the solved block to a fresh identical chain.
func acceptOnFresh(w *world, raw []byte, also func(c *lab.Chain) string) (res string) {
	defer func() {
		if r := recover(); r != nil {
			res = fmt.Sprintf("panic: %v", r)
		}
	}()
	c, err := freshChain(w)
	if err != nil {
		return "HARNESS:" + err.Error()
	}
	defer c.Destroy()
	if also != nil {
		if s := also(c); s != "" {
			return s
		}
	}
	blk, err := btcutil.NewBlockFromBytes(raw)
	if err != nil {
		return "block does not parse: " + err.Error()
	}
	main, orphan, err := c.BC.ProcessBlock(blk, blockchain.BFNone)
	if err != nil {
		return "ProcessBlock: " + err.Error()
	}
	if orphan || !main {
		return fmt.Sprintf("ProcessBlock: mainChain=%v orphan=%v", main, orphan)
	}
	hdr := parseBlock(raw).Header
	if best := c.BC.BestSnapshot(); best.Hash != lab.HeaderHash(&hdr) || best.Height != w.Next {
		return fmt.Sprintf("after ProcessBlock the tip is %v at height %d", best.Hash, best.Height)
	}
	return ""
}

var deepUpdate bool // thorough: every updated block also goes through ProcessBlock on its own fresh chain

// validate computes the policy-independent verdicts for one template block.
func (u *unit) validate(tmplBlock *wire.MsgBlock, pol *mining.Policy, useCache bool) *valResult {
	raw := serializeBlock(tmplBlock)
	sum := sha256.Sum256(raw)
	key := u.w.Name + "|" + string(sum[:])
	var vr *valResult
	if useCache {
		v, _ := valCache.LoadOrStore(key, &valResult{})
		vr = v.(*valResult)
	} else {
		vr = &valResult{}
	}
	vr.once.Do(func() { u.doValidate(vr, raw, pol) })
	return vr
}

func (u *unit) doValidate(vr *valResult, raw []byte, pol *mining.Policy) {
	w := u.w
	add := func(sym, format string, a ...interface{}) {
		vr.problems = append(vr.problems, problem{sym, fmt.Sprintf(format, a...)})
	}
	a := parseBlock(raw)
	for _, tx := range a.Transactions {
		if !refBytesEqual(tx) {
			add("HARNESS", "reference and wire serializations differ")
			return
		}
	}
	n := analyse(w, [32]byte(a.Header.MerkleRoot), a.Transactions)
	vr.n = n
	for _, p := range n.Problems {
		sym := "inputs"
		if strings.HasPrefix(p, "order:") {
			sym = "order"
		}
		add(sym, "%s", p)
	}
	if !n.MerkleOK {
		add("merkle", "header merkle root %v is not the root of the transaction list", a.Header.MerkleRoot)
	}
	if a.Header.PrevBlock != w.Tip.Hash {
		add("prev", "template extends %v, the tip is %s", a.Header.PrevBlock, w.Tip.Name)
	}
	if n.Weight > consMaxBlockWeight {
		add("consensus-weight", "block weight %d > %d", n.Weight, consMaxBlockWeight)
	}
	if n.Stripped > consMaxBlockBaseSize {
		add("consensus-size", "stripped size %d > %d", n.Stripped, consMaxBlockBaseSize)
	}
	if n.SigOpCost > consMaxBlockSigOpsCost {
		add("consensus-sigops", "sigop cost %d > %d", n.SigOpCost, consMaxBlockSigOpsCost)
	}
	if len(n.Problems) == 0 && n.CbTotal != n.Subsidy+n.TotalFees {
		add("coinbase-value", "coinbase pays %d, subsidy(%d)=%d + fees %d = %d", n.CbTotal, w.Next, n.Subsidy, n.TotalFees, n.Subsidy+n.TotalFees)
	}
	if n.AnyWit && n.CommitIdx < 0 {
		add("commitment", "block carries witness data but the coinbase has no witness commitment")
	}
	if (n.AnyWit || n.CommitIdx >= 0) && n.CommitRes != ref.CommitOK {
		add("commitment", "witness commitment check: %s", n.CommitRes)
	}
	if n.AnyWit && !w.SegwitActive {
		add("commitment", "witness transaction included although segwit is not active for height %d", w.Next)
	}

	// (8) update time and extra nonce on a copy, through the generator
	upd := func(extraNonce uint64) (*wire.MsgBlock, string) {
		b := parseBlock(raw)
		g := mining.NewBlkTmplGenerator(pol, u.g.Params, &orderedSource{p: u.pool}, u.g.BC, u.clock, u.sigCache, u.hashC)
		u.clock.T = lab.Now.Add(90 * time.Second)
		err := g.UpdateBlockTime(b)
		u.clock.T = lab.Now
		if err != nil {
			return nil, "UpdateBlockTime: " + err.Error()
		}
		wantT := lab.Now.Add(90 * time.Second).Unix()
		if m := lockCutoff(w) + 1; m > wantT {
			wantT = m
		}
		if b.Header.Timestamp.Unix() != wantT {
			return nil, fmt.Sprintf("UpdateBlockTime set %v, want max(adjusted time %v, median time past %v + 1)", b.Header.Timestamp.Unix(), lab.Now.Add(90*time.Second).Unix(), lockCutoff(w))
		}
		before := append([]byte(nil), b.Transactions[0].TxIn[0].SignatureScript...)
		if err := g.UpdateExtraNonce(b, w.Next, extraNonce); err != nil {
			return nil, "UpdateExtraNonce: " + err.Error()
		}
		if bytes.Equal(before, b.Transactions[0].TxIn[0].SignatureScript) {
			return nil, fmt.Sprintf("UpdateExtraNonce(%d) left the coinbase script unchanged", extraNonce)
		}
		rtx := make([]*ref.Tx, len(b.Transactions))
		for i, tx := range b.Transactions {
			rtx[i] = toRef(tx)
		}
		if got := ref.TxMerkleRoot(rtx); got != [32]byte(b.Header.MerkleRoot) {
			return nil, fmt.Sprintf("after UpdateExtraNonce(%d) the header merkle root %v is not the root of the transaction list", extraNonce, b.Header.MerkleRoot)
		}
		if len(b.Transactions) != len(a.Transactions) {
			return nil, "UpdateExtraNonce changed the transaction count"
		}
		for i := 1; i < len(b.Transactions); i++ {
			if lab.WTxID(b.Transactions[i]) != lab.WTxID(a.Transactions[i]) {
				return nil, fmt.Sprintf("update changed transaction %d", i)
			}
		}
		lab.Solve(&b.Header)
		return b, ""
	}
	var updErr string
	b1, s := func() (b *wire.MsgBlock, s string) {
		defer func() {
			if r := recover(); r != nil {
				s = fmt.Sprintf("panic: %v", r)
			}
		}()
		return upd(1)
	}()
	updErr = s

	lab.Solve(&a.Header)
	res := acceptOnFresh(w, serializeBlock(a), func(c *lab.Chain) string {
		if b1 == nil {
			return ""
		}
		// the updated block must still connect (everything but PoW, which lab.Solve
		// established on its own)
		if err := c.BC.CheckConnectBlockTemplate(btcutil.NewBlock(parseBlock(serializeBlock(b1)))); err != nil {
			updErr = "updated block (time +90s, extra nonce 1) no longer connects: " + err.Error()
		}
		return ""
	})
	if strings.HasPrefix(res, "HARNESS:") {
		add("HARNESS", "%s", res)
		return
	}
	if res != "" {
		add("rejected", "solved template not accepted by a fresh identical chain: %s", res)
	}
	if updErr == "" && (deepUpdate || len(a.Transactions) <= 2) {
		// a second extra nonce (needs 5 bytes) through full ProcessBlock
		b2, s := func() (b *wire.MsgBlock, s string) {
			defer func() {
				if r := recover(); r != nil {
					s = fmt.Sprintf("panic: %v", r)
				}
			}()
			return upd(0x100000005)
		}()
		if s != "" {
			updErr = s
		} else if r2 := acceptOnFresh(w, serializeBlock(b2), nil); r2 != "" {
			if strings.HasPrefix(r2, "HARNESS:") {
				add("HARNESS", "%s", r2)
				return
			}
			updErr = "updated block (time +90s, extra nonce 2^32+5) not accepted by a fresh identical chain: " + r2
		}
	}
	if updErr != "" {
		add("update", "%s", updErr)
	}
}

// ---------------------------------------------------------------------------
// one case

type caseOut struct {
	problems []problem
	genErr   string
	nTx      int
	n        *naive
}

// generate builds the generator of a case and calls NewBlockTemplate.
func (u *unit) generate(cs caseSpec) (tmpl *mining.BlockTemplate, err error) {
	tmpl, _, err = u.generateG(cs)
	return
}

func (u *unit) generateG(cs caseSpec) (tmpl *mining.BlockTemplate, g *mining.BlkTmplGenerator, err error) {
	pol := &mining.Policy{BlockMinWeight: cs.Policy.MinW, BlockMaxWeight: cs.Policy.MaxW, BlockMinSize: cs.Policy.MinSize,
		BlockMaxSize: cs.Policy.MaxSize, BlockPrioritySize: cs.Policy.Prio, TxMinFreeFee: btcutil.Amount(cs.Policy.MinFree)}
	src := &orderedSource{p: u.pool, order: map[chainhash.Hash]int{}}
	for pos, idx := range cs.Perm {
		src.order[u.txs[idx].Hash] = pos
	}
	u.clock.T = lab.Now
	g = mining.NewBlkTmplGenerator(pol, u.g.Params, src, u.g.BC, u.clock, u.sigCache, u.hashC)
	defer func() {
		if r := recover(); r != nil {
			err = fmt.Errorf("PANIC: %v", r)
		}
	}()
	tmpl, err = g.NewBlockTemplate(payAddr(cs.Addr, u.g.Params))
	return
}

func (u *unit) runCase(cs caseSpec, useCache bool) (out caseOut) {
	w := u.w
	add := func(sym, format string, a ...interface{}) {
		out.problems = append(out.problems, problem{sym, fmt.Sprintf(format, a...)})
	}
	pol := &mining.Policy{BlockMinWeight: cs.Policy.MinW, BlockMaxWeight: cs.Policy.MaxW, BlockMinSize: cs.Policy.MinSize,
		BlockMaxSize: cs.Policy.MaxSize, BlockPrioritySize: cs.Policy.Prio, TxMinFreeFee: btcutil.Amount(cs.Policy.MinFree)}
	src := &orderedSource{p: u.pool, order: map[chainhash.Hash]int{}}
	if len(cs.Perm) != len(u.txs) {
		add("HARNESS", "source order has %d entries, pool has %d", len(cs.Perm), len(u.txs))
		return
	}
	for pos, idx := range cs.Perm {
		src.order[u.txs[idx].Hash] = pos
	}
	u.clock.T = lab.Now
	g := mining.NewBlkTmplGenerator(pol, u.g.Params, src, u.g.BC, u.clock, u.sigCache, u.hashC)
	addr := payAddr(cs.Addr, u.g.Params)
	var tmpl *mining.BlockTemplate
	var err error
	func() {
		defer func() {
			if r := recover(); r != nil {
				err = fmt.Errorf("PANIC: %v", r)
			}
		}()
		tmpl, err = g.NewBlockTemplate(addr)
	}()
	if err != nil {
		out.genErr = err.Error()
		if strings.HasPrefix(out.genErr, "PANIC") {
			add("panic", "NewBlockTemplate panicked: %s", out.genErr)
		} else if !w.Reorg {
			add("generation-failed", "NewBlockTemplate failed although every pooled transaction was admitted at the current tip: %s", out.genErr)
		}
		return
	}
	if tmpl == nil || tmpl.Block == nil {
		add("generation-failed", "NewBlockTemplate returned neither a template nor an error")
		return
	}
	out.nTx = len(tmpl.Block.Transactions)
	vr := u.validate(tmpl.Block, pol, useCache)
	out.problems = append(out.problems, vr.problems...)
	n := vr.n
	if n == nil {
		return
	}
	out.n = n
	// membership and duplicates
	inPool := map[chainhash.Hash]bool{}
	for _, t := range u.txs {
		inPool[t.Hash] = true
	}
	seen := map[chainhash.Hash]bool{}
	for i, tx := range tmpl.Block.Transactions {
		if i == 0 {
			continue
		}
		h := lab.TxID(tx)
		if !inPool[h] {
			add("foreign-tx", "template transaction %d (%v) is not in the pool", i, h)
		}
		if seen[h] {
			add("duplicate-tx", "template lists %v twice", h)
		}
		seen[h] = true
	}
	// policy limits
	if n.Weight > int64(cs.Policy.MaxW) {
		add("policy-weight", "block weight %d > policy BlockMaxWeight %d", n.Weight, cs.Policy.MaxW)
	}
	if n.Stripped > int64(cs.Policy.MaxSize) {
		add("policy-size", "stripped block size %d > policy BlockMaxSize %d (BlockMaxWeight %d)", n.Stripped, cs.Policy.MaxSize, cs.Policy.MaxW)
	}
	// reported accounting
	if tmpl.Height != w.Next {
		add("height", "template height %d, next height %d", tmpl.Height, w.Next)
	}
	if tmpl.ValidPayAddress != (addr != nil) {
		add("payaddr", "ValidPayAddress=%v with address kind %s", tmpl.ValidPayAddress, cs.Addr)
	}
	if len(tmpl.Fees) != n.N || len(tmpl.SigOpCosts) != n.N {
		add("fees", "template has %d txs, %d fee entries, %d sigop entries", n.N, len(tmpl.Fees), len(tmpl.SigOpCosts))
	} else if len(n.Problems) == 0 {
		for i := range tmpl.Fees {
			if tmpl.Fees[i] != n.Fees[i] {
				add("fees", "Fees[%d]=%d, reference %d (tx %s)", i, tmpl.Fees[i], n.Fees[i], u.nameOf(tmpl.Block.Transactions[i], i))
				break
			}
		}
		for i := range tmpl.SigOpCosts {
			if tmpl.SigOpCosts[i] != n.Costs[i] {
				add("sigopcosts", "SigOpCosts[%d]=%d, reference %d (tx %s)", i, tmpl.SigOpCosts[i], n.Costs[i], u.nameOf(tmpl.Block.Transactions[i], i))
				break
			}
		}
	}
	if n.CommitIdx >= 0 {
		if !bytes.Equal(tmpl.WitnessCommitment, n.Commit) {
			add("commitment", "template.WitnessCommitment %x differs from the coinbase commitment %x", tmpl.WitnessCommitment, n.Commit)
		}
	} else if len(tmpl.WitnessCommitment) != 0 {
		add("commitment", "template.WitnessCommitment set but the coinbase carries none")
	}
	return
}

func (u *unit) nameOf(tx *wire.MsgTx, i int) string {
	if i == 0 {
		return "coinbase"
	}
	if s, ok := u.names[lab.TxID(tx)]; ok {
		return s
	}
	return "?"
}

// ---------------------------------------------------------------------------
// enumeration of policies / source orders for a unit

func perms(n int, limit int) [][]int {
	id := make([]int, n)
	for i := range id {
		id[i] = i
	}
	fact := 1
	for i := 2; i <= n; i++ {
		fact *= i
		if fact > limit {
			break
		}
	}
	if fact <= limit {
		var out [][]int
		var rec func(k int)
		cur := append([]int(nil), id...)
		rec = func(k int) {
			if k == n {
				out = append(out, append([]int(nil), cur...))
				return
			}
			for i := k; i < n; i++ {
				cur[k], cur[i] = cur[i], cur[k]
				rec(k + 1)
				cur[k], cur[i] = cur[i], cur[k]
			}
		}
		rec(0)
		return out
	}
	rev := make([]int, n)
	for i := range rev {
		rev[i] = n - 1 - i
	}
	rot := func(src []int, k int) []int {
		o := make([]int, n)
		for i := range o {
			o[i] = src[(i+k)%n]
		}
		return o
	}
	// interleaved: even positions ascending, then odd positions descending
	var il []int
	for i := 0; i < n; i += 2 {
		il = append(il, i)
	}
	for i := n - 1; i >= 0; i-- {
		if i%2 == 1 {
			il = append(il, i)
		}
	}
	var out [][]int
	seen := map[string]bool{}
	for _, p := range [][]int{id, rev, rot(id, n/2), rot(rev, n/3+1), il} {
		k := fmt.Sprint(p)
		if !seen[k] {
			seen[k] = true
			out = append(out, p)
		}
	}
	return out
}

type enumOpts struct {
	permLimit int
	full      bool     // full cross product of the policy dimensions (first address kind)
	addrs     []string // coinbase address kinds; the 2nd.. use the reduced policy product
}

// policies derives the policy list for the unit from the reference weight W of
// the block that contains the complete pool (coinbase taken from a probe template).
func (u *unit) policies(addr string, o enumOpts) (list []policySpec, W, S int64, probeErr string) {
	probe := caseSpec{World: u.w.Name, Pool: u.ps, Addr: addr, Perm: perms(len(u.txs), 1)[0],
		Policy: policySpec{MaxW: 3_996_000, MaxSize: 999_000}}
	pol := &mining.Policy{BlockMaxWeight: probe.Policy.MaxW, BlockMaxSize: probe.Policy.MaxSize}
	src := &orderedSource{p: u.pool, order: map[chainhash.Hash]int{}}
	for i, t := range u.txs {
		src.order[t.Hash] = i
	}
	g := mining.NewBlkTmplGenerator(pol, u.g.Params, src, u.g.BC, u.clock, u.sigCache, u.hashC)
	cbW, cbS := int64(4*130), int64(130)
	hasCommit := false
	func() {
		defer func() {
			if r := recover(); r != nil {
				probeErr = fmt.Sprintf("panic: %v", r)
			}
		}()
		t, err := g.NewBlockTemplate(payAddr(addr, u.g.Params))
		if err != nil {
			probeErr = err.Error()
			return
		}
		cb := toRef(t.Block.Transactions[0])
		cbW = ref.TxWeight(cb)
		cbS = int64(len(cb.Serialize(false)))
		idx, _ := ref.FindWitnessCommitment(cb)
		hasCommit = idx >= 0
	}()
	anyWit := false
	var sum, ssum int64
	for _, t := range u.txs {
		sum += t.Weight
		rt := toRef(t.Tx.MsgTx())
		ssum += int64(len(rt.Serialize(false)))
		if rt.HasWitness() {
			anyWit = true
		}
	}
	if anyWit && u.w.SegwitActive && !hasCommit {
		cbW += 36 + 4*47
		cbS += 47
	}
	vi := int64(len(ref.CompactSize(uint64(len(u.txs) + 1))))
	W = 320 + 4*vi + cbW + sum
	S = 80 + vi + cbS + ssum

	var mws []int64
	mws = append(mws, 3_000_000, W+33, W+32, W+1, W, W-1)
	for i, t := range u.txs {
		// large pools: only the first and last three transactions
		if len(u.txs) > 30 && i >= 3 && i < len(u.txs)-3 {
			continue
		}
		mws = append(mws, W-t.Weight+33)
	}
	type feeMode struct {
		free int64
		minw uint32
	}
	var prios []uint32
	var modes []feeMode
	if o.full {
		prios = []uint32{0, uint32(W / 2), 1_000_000}
		for _, fr := range []int64{0, 1000, 100_000_000} {
			for _, mn := range []uint32{0, uint32(W / 2), uint32(W + 1000)} {
				modes = append(modes, feeMode{fr, mn})
			}
		}
	} else {
		prios = []uint32{0, uint32(W / 2)}
		// nothing is "free"; low-fee txs skipped; low-fee txs fill the block up to the
		// minimum; everything is "free" and fills the block up to half the pool
		modes = []feeMode{{0, 0}, {1000, 0}, {1000, uint32(W + 1000)}, {100_000_000, uint32(W / 2)}}
	}
	seen := map[policySpec]bool{}
	addP := func(p policySpec) {
		if int64(p.MinW) > int64(p.MaxW) {
			p.MinW = p.MaxW // config.go: BlockMinWeight = min(BlockMinWeight, BlockMaxWeight)
		}
		if !seen[p] {
			seen[p] = true
			list = append(list, p)
		}
	}
	for _, mw := range mws {
		// only values a node can be configured with (config.go: 4000 .. 4,000,000-4000)
		if mw < 4000 || mw > 3_996_000 {
			continue
		}
		for _, pr := range prios {
			for _, m := range modes {
				addP(policySpec{MaxW: uint32(mw), MinW: m.minw, MaxSize: 999_000, Prio: pr, MinFree: m.free})
			}
		}
	}
	if !o.full {
		// the remaining values of each dimension once, with a non-binding weight limit
		addP(policySpec{MaxW: 3_000_000, MaxSize: 999_000, Prio: 1_000_000, MinFree: 1000})
		addP(policySpec{MaxW: 3_000_000, MaxSize: 999_000, Prio: 1_000_000, MinFree: 0})
		addP(policySpec{MaxW: 3_000_000, MaxSize: 999_000, Prio: 0, MinFree: 100_000_000})
		addP(policySpec{MaxW: 3_000_000, MinW: uint32(W + 1000), MaxSize: 999_000, Prio: 0, MinFree: 100_000_000})
	}
	// the configured node maximum and the consensus maximum itself
	addP(policySpec{MaxW: 3_996_000, MaxSize: 999_000, Prio: 0, MinFree: 1000})
	addP(policySpec{MaxW: 4_000_000, MaxSize: 999_000, Prio: 0, MinFree: 1000})
	// both --blockmaxsize and --blockmaxweight given: size limit exactly at / one
	// below the stripped size of the complete block
	if S-1 >= 1000 {
		addP(policySpec{MaxW: 2_000_000, MaxSize: uint32(S), Prio: 0, MinFree: 0})
		addP(policySpec{MaxW: 2_000_000, MaxSize: uint32(S - 1), Prio: 0, MinFree: 0})
	}
	return
}

// ---------------------------------------------------------------------------

type replayObj struct {
	Case  caseSpec `json:"case"`
	Pool  string   `json:"effective_pool"`
	Indep string   `json:"independence_phase_world,omitempty"` // set: replay the template-independence phase on this world
}

// symKey: violation key = symptom class / world.  The one symptom that is a
// property of the generator as a whole (Policy.BlockMaxSize is never read) gets a
// single world-independent key.
func symKey(w *world, p problem) string {
	if p.Sym == "policy-size" {
		return "policy-BlockMaxSize-not-enforced"
	}
	return p.Sym + "/" + w.Name
}

func symSet(ps []problem) string {
	m := map[string]bool{}
	for _, p := range ps {
		m[p.Sym] = true
	}
	var s []string
	for k := range m {
		s = append(s, k)
	}
	sort.Strings(s)
	return strings.Join(s, ",")
}

// confirm re-runs a failing case three times on fresh units without the cache.
func confirm(r *ev.Run, w *world, cs caseSpec, want string) {
	for i := 0; i < 3; i++ {
		u, err := newUnit(w, cs.Pool)
		if err != nil {
			r.Broken("cannot create chain: %v", err)
		}
		if u.harness != "" {
			u.close()
			r.Broken("harness: %s", u.harness)
		}
		out := u.runCase(cs, false)
		u.close()
		if got := symSet(out.problems); got != want {
			r.Broken("verdict of case %+v flipped on re-run: %q vs %q", cs, want, got)
		}
	}
}

var reportMu sync.Mutex
var reported = map[string]bool{}

func report(r *ev.Run, u *unit, cs caseSpec, out caseOut, rank [2]int) {
	note(u, cs, out, rank)
	for _, p := range out.problems {
		if p.Sym == "HARNESS" {
			r.Broken("harness problem in case %+v: %s", cs, p.What)
		}
	}
	// one confirmation per (symptom set, world)
	k := symSet(out.problems) + "/" + u.w.Name
	reportMu.Lock()
	done := reported[k]
	reported[k] = true
	reportMu.Unlock()
	if done {
		return
	}
	confirm(r, u.w, cs, symSet(out.problems))
}

// pending violations: for every key the example with the smallest (job, case)
// rank is reported, so that the reported example does not depend on scheduling.
type pend struct {
	rank [2]int
	what string
	ro   replayObj
}

var pending = map[string]pend{}

func note(u *unit, cs caseSpec, out caseOut, rank [2]int) {
	reportMu.Lock()
	defer reportMu.Unlock()
	for _, p := range out.problems {
		k := symKey(u.w, p)
		if old, ok := pending[k]; ok && (old.rank[0] < rank[0] || (old.rank[0] == rank[0] && old.rank[1] <= rank[1])) {
			continue
		}
		pending[k] = pend{rank, fmt.Sprintf("world=%s pool=[%s] policy={%s} order=%v addr=%s: %s", u.w.Name, u.poolKey(), cs.Policy, cs.Perm, cs.Addr, p.What), replayObj{Case: cs, Pool: u.poolKey()}}
	}
}

func flush(r *ev.Run) {
	for k, p := range pending {
		r.Violation(k, p.what, p.ro)
	}
}

var poolSeen sync.Map // world|poolKey -> true
var sampled sync.Map

func sampleOnce(k string) bool {
	_, had := sampled.LoadOrStore(k, true)
	return !had
}

func runUnit(r *ev.Run, jobIdx int, w *world, ps poolSpec, o enumOpts) {
	seq := 0
	if r.Expired() {
		return
	}
	u, err := newUnit(w, ps)
	if err != nil {
		r.Broken("cannot create chain: %v", err)
	}
	defer u.close()
	if u.harness != "" {
		r.Broken("harness: world %s pool %v: %s", w.Name, ps, u.harness)
	}
	r.Add("units_built", 1)
	if len(u.rejected) > 0 {
		r.Add("submissions_rejected_by_the_pool", int64(len(u.rejected)))
	}
	if ps.Kind != "U" {
		r.Add(fmt.Sprintf("constructed_pool[%s %s]: %d txs in the pool, rejected %v", w.Name, ps, len(u.txs), u.rejected), 1)
	}
	key := w.Name + "|" + u.poolKey()
	if _, dup := poolSeen.LoadOrStore(key, true); dup {
		r.Add("units_with_an_already_covered_pool", 1)
		return
	}
	r.State(1)
	r.Add("pool_states", 1)
	for ai, addr := range o.addrs {
		oa := o
		if ai > 0 {
			oa.full = false
		}
		pols, W, S, probeErr := u.policies(addr, oa)
		_ = S
		if probeErr != "" && !w.Reorg {
			// reported through the regular path below (first policy reproduces it)
			r.Add("probe_errors", 1)
		}
		pl := perms(len(u.txs), o.permLimit)
		for _, pol := range pols {
			for _, pm := range pl {
				if r.Expired() {
					return
				}
				cs := caseSpec{World: w.Name, Pool: ps, Policy: pol, Perm: pm, Addr: addr}
				out := u.runCase(cs, true)
				r.Eval(1)
				r.Trace(1)
				r.Trans(1)
				if out.genErr != "" {
					r.Add("generation_errors", 1)
					if w.Reorg {
						r.Add("generation_errors_after_reorg_(not_demanded)", 1)
					}
				} else {
					r.Add("templates", 1)
					r.Add("template_txs_total", int64(out.nTx))
					if out.nTx-1 < len(u.txs) {
						r.Add("templates_excluding_some_pool_tx", 1)
					}
					if out.n != nil {
						if d := int64(pol.MaxW) - out.n.Weight; d >= 33 && d <= 36 {
							r.Add("templates_filled_to_the_last_admissible_weight_unit_(BlockMaxWeight-33..36)", 1)
						}
						if out.n.SigOpCost == consMaxBlockSigOpsCost {
							r.Add("templates_with_sigop_cost_exactly_80000", 1)
						}
						if out.n.SigOpCost > consMaxBlockSigOpsCost-20000 && out.n.SigOpCost < consMaxBlockSigOpsCost && ps.Kind == "sigops" {
							r.Add("templates_that_had_to_leave_out_a_sigop_heavy_tx", 1)
						}
						if out.n.CommitIdx >= 0 && !out.n.AnyWit {
							r.Add("templates_with_commitment_but_no_witness_tx_(allowed)", 1)
						}
						if out.n.AnyWit {
							r.Add("templates_with_witness_txs", 1)
						}
						if out.n.Weight > 3_900_000 {
							r.Add("templates_heavier_than_3.9M_WU", 1)
						}
						if ps.Kind == "big" && pol.MaxW >= 3_996_000 {
							r.Add(fmt.Sprintf("big_pool(last_pad=%d)_maxw=%d:_%d_of_9_txs_weight=%d", ps.B, pol.MaxW, out.nTx-1, out.n.Weight), 1)
						}
					}
				}
				if len(u.txs) > 0 {
					r.Nontrivial(fmt.Sprintf("%s|%s|%s|%s", w.Name, u.poolKey(), pol, addr))
				}
				if _, had := sampled.LoadOrStore(w.Name, true); !had || (r.WantSample() && len(u.txs) >= 4 && pol.MaxW < 3_000_000 && out.nTx > 2 && out.nTx-1 < len(u.txs) && sampleOnce(w.Name+u.poolKey())) {
					r.Sample(map[string]interface{}{"world": w.Name, "pool": u.poolKey(), "policy": pol.String(), "order": pm, "addr": addr, "template_txs": out.nTx, "W": W})
				}
				seq++
				if len(out.problems) > 0 {
					report(r, u, cs, out, [2]int{jobIdx, seq})
				}
			}
		}
	}
}

// ---------------------------------------------------------------------------

// independencePhase: templates are values.  One unit (complete universe pool of the
// world, which holds witness spends), one goroutine: a template is generated for
// every policy of the unit's list in turn; every template generated so far is kept
// together with the bytes of its block, its fee / sig-op lists and its commitment,
// and after each later NewBlockTemplate call all kept ones are serialised again.
// A template that changes when another one is generated (shared backing arrays,
// pooled buffers, memoised transactions) cannot be mined any more; the parallel
// phase below could only see that as verdicts that depend on what other workers
// do, so this runs first and alone.
func independencePhase(r *ev.Run, w *world) (found bool) {
	full := uint32(1)<<uint(len(w.U)) - 1
	ps := poolSpec{Kind: "U", Mask: full}
	u, err := newUnit(w, ps)
	if err != nil {
		r.Broken("cannot create chain: %v", err)
	}
	defer u.close()
	if u.harness != "" {
		r.Broken("harness: %s", u.harness)
	}
	pols, _, _, _ := u.policies("p2pkh", enumOpts{permLimit: 1, addrs: []string{"p2pkh"}})
	perm := make([]int, len(u.txs))
	for i := range perm {
		perm[i] = i
	}
	type kept struct {
		pol    policySpec
		addr   string
		tmpl   *mining.BlockTemplate
		raw    []byte
		fees   []int64
		costs  []int64
		commit []byte
	}
	var keep []kept
	for i, pol := range pols {
		addr := []string{"p2pkh", "p2wpkh"}[i%2]
		cs := caseSpec{World: w.Name, Pool: ps, Policy: pol, Perm: perm, Addr: addr}
		tmpl, g, gerr := u.generateG(cs)
		r.Eval(1)
		r.Trans(1)
		if gerr != nil || tmpl == nil || tmpl.Block == nil {
			continue // the parallel phase reports generation failures
		}
		// the miner's update calls on the newest template are part of "a later
		// template is produced": extra nonce and block time
		if err := g.UpdateExtraNonce(tmpl.Block, tmpl.Height, uint64(7+i)); err != nil {
			continue
		}
		_ = g.UpdateBlockTime(tmpl.Block)
		for _, k := range keep {
			now := serializeBlock(k.tmpl.Block)
			what := ""
			switch {
			case !bytes.Equal(now, k.raw):
				off := 0
				for off < len(now) && off < len(k.raw) && now[off] == k.raw[off] {
					off++
				}
				what = fmt.Sprintf("its block bytes differ from offset %d (%d bytes then, %d now)", off, len(k.raw), len(now))
			case !bytes.Equal(k.tmpl.WitnessCommitment, k.commit):
				what = fmt.Sprintf("its WitnessCommitment field changed from %x to %x", k.commit, k.tmpl.WitnessCommitment)
			case !reflect.DeepEqual(k.tmpl.Fees, k.fees) || !reflect.DeepEqual(k.tmpl.SigOpCosts, k.costs):
				what = "its Fees / SigOpCosts lists changed"
			}
			if what != "" {
				r.Violation("template-independence/"+w.Name, fmt.Sprintf("world=%s pool=[%s]: the template generated with policy {%s} addr=%s changed when a later template was generated with policy {%s} addr=%s: %s", w.Name, u.poolKey(), k.pol, k.addr, pol, addr, what), replayObj{Indep: w.Name})
				return true
			}
		}
		keep = append(keep, kept{pol, addr, tmpl, serializeBlock(tmpl.Block), append([]int64(nil), tmpl.Fees...), append([]int64(nil), tmpl.SigOpCosts...), append([]byte(nil), tmpl.WitnessCommitment...)})
		r.Nontrivial(fmt.Sprintf("indep|%s|%x", w.Name, sha256.Sum256(keep[len(keep)-1].raw)))
	}
	r.Add("independence_phase_templates_kept_and_rechecked["+w.Name+"]", int64(len(keep)))
	return false
}

func worldNames() []string {
	return []string{"plain", "halving5", "halving10", "reorg-post", "reorg-pre", "segwit-last-inactive", "segwit-first-active", "mtp-ahead", "mtp-equal", "mindiff", "advanced"}
}

type job struct {
	w  *world
	ps poolSpec
	o  enumOpts
}

func main() {
	r := ev.Start("C12")
	initKeys()
	r.Rule("case = (world: chain tip kind) x (pool state: subset of the 8-tx universe submitted through ProcessTransaction, or a constructed pool) x (mining.Policy) x (order in which the TxSource lists the pool) x (coinbase address kind); executed on real BlockChain+TxPool+BlkTmplGenerator; non-trivial/distinct = (world, effective non-empty pool set, policy, address kind)")
	r.Assume("wire codec (C08), script interpreter (C06) and ECDSA (C11) are other properties' subjects; transactions are signed with btcd's own txscript.WitnessSignature")
	r.Assume("ProcessBlock on a fresh identical chain is the definition of 'accepted by full consensus validation' (C01's subject)")
	r.Assume("pool policy: AcceptNonStd, DisableRelayPriority, rateLimit=false (the free-transaction rate limiter reads the wall clock)")
	r.Assume("policies restricted to what config.go lets a node run with (BlockMaxWeight in [4000, 3,996,000]) plus BlockMaxWeight = 4,000,000")
	bindReference(r)

	worlds := map[string]*world{}
	for _, n := range worldNames() {
		worlds[n] = buildWorld(n)
	}
	selfCheckWorlds(r, worlds)

	if r.ReplayPath != "" {
		var ro replayObj
		r.LoadReplay(&ro)
		if ro.Indep != "" {
			if w, ok := worlds[ro.Indep]; ok {
				independencePhase(r, w)
				r.Finish(false)
			}
			r.Broken("replay: unknown world %q", ro.Indep)
		}
		w, ok := worlds[ro.Case.World]
		if !ok {
			r.Broken("replay: unknown world %q", ro.Case.World)
		}
		u, err := newUnit(w, ro.Case.Pool)
		if err != nil {
			r.Broken("cannot create chain: %v", err)
		}
		if u.harness != "" {
			r.Broken("harness: %s", u.harness)
		}
		out := u.runCase(ro.Case, false)
		u.close()
		r.Eval(1)
		for _, p := range out.problems {
			if p.Sym == "HARNESS" {
				r.Broken("harness: %s", p.What)
			}
			r.Violation(symKey(w, p), fmt.Sprintf("world=%s pool=[%s] policy={%s} order=%v addr=%s: %s", w.Name, ro.Pool, ro.Case.Policy, ro.Case.Perm, ro.Case.Addr, p.What), ro)
		}
		r.Finish(false)
	}

	thorough := r.Thorough()
	deepUpdate = thorough
	if thorough {
		r.SetBudget(13 * time.Minute)
	} else {
		r.SetBudget(150 * time.Second)
	}
	var jobs []job
	uOpts := enumOpts{permLimit: 6, full: false, addrs: []string{"p2pkh"}}
	cOpts := enumOpts{permLimit: 1, full: false, addrs: []string{"nil", "p2pkh"}}
	if thorough {
		uOpts = enumOpts{permLimit: 24, full: true, addrs: []string{"p2pkh", "nil", "p2wpkh"}}
		cOpts = enumOpts{permLimit: 6, full: true, addrs: []string{"nil", "p2pkh"}}
	}
	// parents of the base universe (index -> indices it spends from)
	parents := map[int][]int{1: {0}, 2: {0}, 3: {1, 2}, 6: {5}}
	closed := func(mask uint32) bool {
		for c, ps := range parents {
			if mask&(1<<uint(c)) != 0 {
				for _, p := range ps {
					if mask&(1<<uint(p)) == 0 {
						return false
					}
				}
			}
		}
		return true
	}
	for _, wn := range worldNames() {
		w := worlds[wn]
		full := uint32(1)<<uint(len(w.U)) - 1
		for mask := uint32(0); mask <= full; mask++ {
			// quick: only ancestor-closed subsets (the others leave orphans outside the
			// pool proper and reproduce the pool of their closed part); thorough: all
			if thorough || closed(mask) {
				jobs = append(jobs, job{w, poolSpec{Kind: "U", Mask: mask}, uOpts})
			}
		}
		// children-first submission (through the orphan pool) must give the same pools
		for mask := uint32(0); mask <= full; mask++ {
			if thorough || mask == full {
				jobs = append(jobs, job{w, poolSpec{Kind: "U", Mask: mask, Rev: true}, uOpts})
			}
		}
	}
	for _, wn := range []string{"plain", "halving10", "segwit-first-active"} {
		w := worlds[wn]
		if !thorough && wn != "plain" {
			continue
		}
		jobs = append(jobs, job{w, poolSpec{Kind: "chain", A: 3}, cOpts})
		jobs = append(jobs, job{w, poolSpec{Kind: "chain", A: 25}, cOpts})
		jobs = append(jobs, job{w, poolSpec{Kind: "star", A: 260}, enumOpts{permLimit: 1, addrs: []string{"p2pkh"}}})
		jobs = append(jobs, job{w, poolSpec{Kind: "witstar", A: 40}, enumOpts{permLimit: 1, addrs: []string{"p2pkh"}}})
		jobs = append(jobs, job{w, poolSpec{Kind: "locks"}, enumOpts{permLimit: 6, full: thorough, addrs: []string{"p2pkh"}}})
		for _, kb := range [][2]int{{4, 0}, {4, 1}, {3, 1}, {3, 2}, {5, 0}} {
			jobs = append(jobs, job{w, poolSpec{Kind: "sigops", A: kb[0], B: kb[1]}, cOpts})
		}
		for _, bl := range bigPools(w) {
			jobs = append(jobs, job{w, poolSpec{Kind: "big", A: bl[0], B: bl[1]}, enumOpts{permLimit: 1, addrs: []string{"p2pkh"}}})
		}
	}
	// sigops inside a P2SH redeem script, before and after segwit activation
	for _, wn := range []string{"segwit-last-inactive", "segwit-first-active", "plain"} {
		for _, k := range []int{1, 15, 150} {
			jobs = append(jobs, job{worlds[wn], poolSpec{Kind: "p2sh", A: k}, cOpts})
		}
	}
	dependent := false
	for _, wn := range []string{"plain", "segwit-first-active", "mindiff"} {
		if independencePhase(r, worlds[wn]) {
			dependent = true
		}
	}
	workers := runtime.NumCPU()
	if dependent {
		// templates influence each other: what the workers of the parallel phase
		// would observe depends on their interleaving; nothing more is claimed
		r.Cap("templates are not independent of each other (see the violation): the parallel enumeration was not run")
		r.Finish(false)
	}
	ev.Par(len(jobs), workers, func(i int) {
		j := jobs[i]
		runUnit(r, i, j.w, j.ps, j.o)
	})
	flush(r)
	complete := !r.Expired()
	if !complete {
		r.Cap("time box hit; units are processed in a fixed order, see units_built")
	}
	r.Set("bounds", map[string]interface{}{
		"worlds":               worldNames(),
		"universe":             "u0 root; u1<-u0 (best fee rate); u2<-u0 (fee rate < 1000 sat/kB); u3<-u1,u2 (diamond, chain of 3); u4 zero fee/high priority; u5 P2WPKH spend; u6<-u5 (witness, in-pool parent) + mined coin; u7 lock time = tip height",
		"pool_subsets":         map[bool]string{true: "all 2^8 subsets, submitted parents-first and children-first (through the orphan pool)", false: "all 72 ancestor-closed subsets of the 2^8 (a non-closed subset leaves orphans outside the pool and equals the pool of its closed part), submitted parents-first; the full set also children-first"}[thorough],
		"constructed_pools":    "dependency chains of 3 and 25; star of one parent with 260 children (262 block transactions: 3-byte count); star of one parent with 40 P2WPKH outputs and 40 witness-carrying children; lock pool (BIP68 relative height lock and lock time satisfied exactly at the next height, zero-lock child of an in-pool parent); 5000-sigop transactions (3,4,5 of them = 60000/80000/100000 cost) with 0..2 one-sigop transactions; a P2SH spend whose redeem script holds 1/15/150 unexecuted OP_CHECKSIGs, before and after segwit activation; nine ~111 kB transactions landing exactly on / 4 WU past BlockMaxWeight 3,996,000 and 4,000,000",
		"max_weight_values":    "3,000,000; W+33, W+32, W+1, W, W-1; W-w_i+33 for every pooled tx i (pools over 30 txs: first and last three) (W = reference weight of the block holding the complete pool); 3,996,000; 4,000,000",
		"other_policy_values":  map[string]interface{}{"BlockPrioritySize": "0, W/2, 1,000,000", "TxMinFreeFee": "0, 1000, 100,000,000", "BlockMinWeight": "0, W/2, W+1000", "BlockMaxSize": "999,000; S and S-1 together with BlockMaxWeight 2,000,000"},
		"policy_cross_product": map[bool]string{true: "full", false: "max_weight x {prio 0, W/2} x {(minfree,minweight) in (0,0),(1000,0),(1000,W+1000),(1e8,W/2)} plus each remaining value once with a non-binding max weight"}[uOpts.full],
		"source_orders":        fmt.Sprintf("all permutations while n! <= %d, else identity, reverse, two rotations, interleaved", uOpts.permLimit),
		"coinbase_address":     fmt.Sprintf("%v (the first with the policy product named above, the others with the reduced product); constructed pools: %v", uOpts.addrs, cOpts.addrs),
		"jobs":                 len(jobs),
		"extra_nonce_values":   "1 (CheckConnectBlockTemplate on the fresh chain); 2^32+5 through ProcessBlock on a second fresh chain (thorough: every distinct template; quick: templates with <= 1 pool tx)",
		"distinct_blocks_validated_on_fresh_chains": countVal(),
	})
	r.Finish(complete)
}

func countVal() int {
	n := 0
	valCache.Range(func(_, _ interface{}) bool { n++; return true })
	return n
}

// bigPools returns (base, last) padding pairs so that the tracked total lands
// 4 weight units below / exactly on 3,996,000 and 4,000,000.
func bigPools(w *world) [][2]int {
	base := 110_000
	probe := poolBig(w, base, base)
	var sum int64
	for _, t := range probe[:8] {
		sum += txWeight(t.Tx)
	}
	lastW := txWeight(probe[8].Tx)
	// coinbase of a p2pkh template without commitment: measured from its structure
	// (version 4, in-count 1, outpoint 36, script len 1 + script, sequence 4,
	// out-count 1, value 8, pkScript len 1 + 25, lock time 4)
	cbScript := 1 + 1 + 1 + 11 // height push (OP_n or 1+1 bytes), extra nonce OP_0, push of the 11 flag bytes
	if w.Next > 16 {
		cbScript++
	}
	cb := int64(4 * (4 + 1 + 36 + 1 + cbScript + 4 + 1 + 8 + 1 + 25 + 4))
	var out [][2]int
	for _, limit := range []int64{3_996_000, 4_000_000} {
		// generator: 4*(80+9) + coinbase + sum + last  <  limit  to include the last one
		room := limit - 4*89 - cb - sum
		// last tx weight = lastW + 4*(delta bytes)
		delta := (room - 4 - lastW) / 4
		out = append(out, [2]int{base, base + int(delta)}, [2]int{base, base + int(delta) + 1})
	}
	return out
}

// ---------------------------------------------------------------------------
// reference binding and self checks

func selfCheckWorlds(r *ev.Run, worlds map[string]*world) {
	for _, w := range worlds {
		// every lab block with transactions must satisfy the reference's own
		// accounting (coinbase = subsidy + fees, commitment correct)
		for i, b := range w.Main {
			if len(b.Msg.Transactions) < 2 {
				continue
			}
			pw := *w
			pw.Tip = b.Parent
			pw.Next = b.Height
			pref, err := lab.Fold(w.Main[:i])
			if err != nil {
				r.Broken("fold: %v", err)
			}
			pw.Ref = pref
			n := analyse(&pw, [32]byte(b.Msg.Header.MerkleRoot), b.Msg.Transactions)
			if len(n.Problems) > 0 || !n.MerkleOK || n.CbTotal != n.Subsidy+n.TotalFees || (n.AnyWit && n.CommitRes != ref.CommitOK) {
				r.Broken("reference disagrees with lab block %s of world %s: %+v", b.Name, w.Name, n)
			}
		}
		for _, u := range w.U {
			if !refBytesEqual(u.Tx) {
				r.Broken("reference serialization differs from wire for %s", u.Name)
			}
		}
	}
}
