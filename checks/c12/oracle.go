package main

import (
	"bytes"
	"fmt"

	"github.com/btcsuite/btcd/wire/v2"

	"verif/lab"
	ref "verif/ref/refmerkle"
)

// Consensus constants, written from BIP141 / Bitcoin Core's consensus.h (not taken
// from btcd's blockchain package).
const (
	consMaxBlockWeight     = 4_000_000
	consMaxBlockBaseSize   = 1_000_000
	consMaxBlockSigOpsCost = 80_000
	coinbaseMaturity       = 2 // lab parameter set
)

// toRef converts a wire transaction field by field into the reference model's
// plain struct (the reference serializes and hashes on its own).
func toRef(tx *wire.MsgTx) *ref.Tx {
	t := &ref.Tx{Version: tx.Version, LockTime: tx.LockTime}
	for _, in := range tx.TxIn {
		ri := ref.TxIn{PrevHash: [32]byte(in.PreviousOutPoint.Hash), PrevIndex: in.PreviousOutPoint.Index,
			SigScript: in.SignatureScript, Sequence: in.Sequence}
		for _, w := range in.Witness {
			ri.Witness = append(ri.Witness, w)
		}
		t.In = append(t.In, ri)
	}
	for _, o := range tx.TxOut {
		t.Out = append(t.Out, ref.TxOut{Value: o.Value, PkScript: o.PkScript})
	}
	return t
}

// naive holds everything the reference derives from a block's transactions and
// the reference UTXO set of the chain it is meant to extend.
type naive struct {
	N         int
	Weight    int64
	Stripped  int64
	SigOpCost int64
	Fees      []int64 // [0] = -(sum of the others)
	Costs     []int64
	TotalFees int64
	CbTotal   int64
	Subsidy   int64
	AnyWit    bool
	CommitIdx int    // -1: none
	CommitRes string // refmerkle verdict when a commitment is present / needed
	Commit    []byte
	MerkleOK  bool
	Problems  []string // ordering / missing input / maturity / double spend
}

// analyse recomputes everything from the transaction list alone.
func analyse(w *world, hdrRoot [32]byte, txs []*wire.MsgTx) *naive {
	n := &naive{N: len(txs), CommitIdx: -1}
	rtx := make([]*ref.Tx, len(txs))
	for i, tx := range txs {
		rtx[i] = toRef(tx)
	}
	n.Weight = ref.BlockWeight(rtx)
	st := int64(80 + len(ref.CompactSize(uint64(len(rtx)))))
	for _, t := range rtx {
		st += int64(len(t.Serialize(false)))
	}
	n.Stripped = st
	n.MerkleOK = ref.TxMerkleRoot(rtx) == hdrRoot
	n.Subsidy = lab.Subsidy(w.Next, w.Params)

	// working copy of the reference UTXO set
	type coinT struct {
		amt      int64
		script   []byte
		height   int32
		coinbase bool
	}
	work := map[wire.OutPoint]coinT{}
	for op, c := range w.Ref.Utxos {
		work[op] = coinT{c.Amount, c.Script, c.Height, c.Coinbase}
	}
	pos := map[[32]byte]int{}
	for i, t := range rtx {
		pos[t.TxID()] = i
	}
	n.Fees = make([]int64, len(txs))
	n.Costs = make([]int64, len(txs))
	if len(rtx) == 0 || !rtx[0].IsCoinBase() {
		n.Problems = append(n.Problems, "first transaction is not a coinbase")
		return n
	}
	for i, t := range rtx {
		id := t.TxID()
		if i == 0 {
			n.Costs[0] = int64(ref.TxSigOpCost(t, nil, true, w.SegwitActive))
			for _, o := range t.Out {
				n.CbTotal += o.Value
			}
		} else {
			if t.IsCoinBase() {
				n.Problems = append(n.Problems, fmt.Sprintf("tx %d is a second coinbase", i))
				continue
			}
			if t.HasWitness() {
				n.AnyWit = true
			}
			var inSum int64
			prev := make([][]byte, len(t.In))
			okIn := true
			for k, in := range t.In {
				op := wire.OutPoint{Hash: in.PrevHash, Index: in.PrevIndex}
				c, ok := work[op]
				if !ok {
					okIn = false
					if j, inBlock := pos[in.PrevHash]; inBlock && j >= i {
						n.Problems = append(n.Problems, fmt.Sprintf("order: tx %d spends output %d of tx %d which is not before it", i, in.PrevIndex, j))
					} else {
						n.Problems = append(n.Problems, fmt.Sprintf("tx %d input %d spends %x:%d which is neither unspent on the chain nor created earlier in the block", i, k, revHex(in.PrevHash), in.PrevIndex))
					}
					continue
				}
				if c.coinbase && w.Next-c.height < coinbaseMaturity {
					n.Problems = append(n.Problems, fmt.Sprintf("tx %d spends a coinbase of height %d at height %d", i, c.height, w.Next))
				}
				inSum += c.amt
				prev[k] = c.script
				delete(work, op)
			}
			var outSum int64
			for _, o := range t.Out {
				outSum += o.Value
			}
			if okIn {
				n.Fees[i] = inSum - outSum
				if n.Fees[i] < 0 {
					n.Problems = append(n.Problems, fmt.Sprintf("tx %d spends more than its inputs", i))
				}
				n.TotalFees += n.Fees[i]
				n.Costs[i] = int64(ref.TxSigOpCost(t, prev, true, w.SegwitActive))
			}
			if !ref.IsFinalTx(t, int64(w.Next), lockCutoff(w)) {
				n.Problems = append(n.Problems, fmt.Sprintf("tx %d is not final at height %d", i, w.Next))
			}
		}
		for oi, o := range t.Out {
			if lab.Unspendable(o.PkScript) {
				continue
			}
			work[wire.OutPoint{Hash: id, Index: uint32(oi)}] = coinT{o.Value, o.PkScript, w.Next, i == 0}
		}
	}
	n.Fees[0] = -n.TotalFees
	for _, c := range n.Costs {
		n.SigOpCost += c
	}
	idx, commit := ref.FindWitnessCommitment(rtx[0])
	n.CommitIdx = idx
	n.Commit = commit
	n.CommitRes = ref.CheckWitnessCommitment(rtx)
	return n
}

// lockCutoff is the time against which time-based lock times are compared for
// the next block: the tip's median time past (BIP113; CSV is active in every
// world).  No universe transaction uses a time-based lock, so only the height
// branch matters; the value is supplied for completeness.
func lockCutoff(w *world) int64 {
	var ts []int64
	b := w.Tip
	for i := 0; i < 11 && b != nil; i++ {
		ts = append(ts, b.Msg.Header.Timestamp.Unix())
		b = b.Parent
	}
	// median
	for i := range ts {
		for j := i + 1; j < len(ts); j++ {
			if ts[j] < ts[i] {
				ts[i], ts[j] = ts[j], ts[i]
			}
		}
	}
	return ts[len(ts)/2]
}

func revHex(h [32]byte) []byte {
	out := make([]byte, 32)
	for i := range h {
		out[i] = h[31-i]
	}
	return out
}

// refBytesEqual cross-checks the reference serialization with the wire codec's
// (a mismatch is a harness problem, the codec being C08's subject).
func refBytesEqual(tx *wire.MsgTx) bool {
	var buf bytes.Buffer
	if err := tx.Serialize(&buf); err != nil {
		return false
	}
	return bytes.Equal(buf.Bytes(), toRef(tx).Serialize(true))
}

// txWeight is the reference weight of one transaction.
func txWeight(tx *wire.MsgTx) int64 { return ref.TxWeight(toRef(tx)) }
