package main

import (
	"crypto/sha256"
	"fmt"
	"github.com/btcsuite/btcd/chainhash/v2"
	"time"

	"github.com/btcsuite/btcd/address/v2"
	"github.com/btcsuite/btcd/btcec/v2"
	"github.com/btcsuite/btcd/chaincfg/v2"
	"github.com/btcsuite/btcd/txscript/v2"
	"github.com/btcsuite/btcd/wire/v2"

	"verif/lab"
)

// ---------------------------------------------------------------------------
// fixed key material (derived from a fixed string; nothing is sampled)

var (
	privKey  *btcec.PrivateKey
	pubKeyC  []byte // compressed public key
	keyHash  []byte // hash160(pubKeyC)
	p2wpkh   []byte // OP_0 <20>
	p2pkhScr []byte // OP_DUP OP_HASH160 <20> OP_EQUALVERIFY OP_CHECKSIG
)

func initKeys() {
	seed := sha256.Sum256([]byte("verif C12 fixed key #1"))
	privKey, _ = btcec.PrivKeyFromBytes(seed[:])
	pubKeyC = privKey.PubKey().SerializeCompressed()
	keyHash = address.Hash160(pubKeyC)
	p2wpkh = append([]byte{0x00, 0x14}, keyHash...)
	p2pkhScr = append(append([]byte{0x76, 0xa9, 0x14}, keyHash...), 0x88, 0xac)
}

// payAddr returns the coinbase pay-to address for an address kind:
// "nil" (anyone-can-spend coinbase, 0 sigops), "p2pkh" (1 legacy sigop), "p2wpkh".
func payAddr(kind string, p *chaincfg.Params) address.Address {
	switch kind {
	case "nil":
		return nil
	case "p2pkh":
		a, err := address.NewAddressPubKeyHash(keyHash, p)
		if err != nil {
			panic(err)
		}
		return a
	case "p2wpkh":
		a, err := address.NewAddressWitnessPubKeyHash(keyHash, p)
		if err != nil {
			panic(err)
		}
		return a
	}
	panic("bad address kind " + kind)
}

// ---------------------------------------------------------------------------
// funding blocks: heights 1..3, identical in every world.  Coinbase layout
// (sum = 50 BTC): [0] OP_TRUE 20 BTC (large, old coin => high priority spends),
// [1],[2] P2WPKH 5 BTC, [3..10] OP_TRUE 2.5 BTC.

const nFundOuts = 11

func fundingOuts() []*wire.TxOut {
	outs := []*wire.TxOut{
		{Value: 20e8, PkScript: lab.OpTrue},
		{Value: 5e8, PkScript: p2wpkh},
		{Value: 5e8, PkScript: p2wpkh},
	}
	for i := 0; i < 8; i++ {
		outs = append(outs, &wire.TxOut{Value: 2.5e8, PkScript: lab.OpTrue})
	}
	return outs
}

// coin names a funding coinbase output.
func coin(f *lab.Blk, idx uint32) wire.OutPoint {
	return wire.OutPoint{Hash: lab.TxID(f.Msg.Transactions[0]), Index: idx}
}

// ---------------------------------------------------------------------------
// transaction construction

// padOut is a zero-value OP_RETURN output carrying n bytes (weight padding; it is
// provably unspendable and never enters the UTXO set).
func padOut(n int) *wire.TxOut {
	s := []byte{0x6a}
	switch {
	case n < 0x4c:
		s = append(s, byte(n))
	case n <= 0xff:
		s = append(s, 0x4c, byte(n))
	case n <= 0xffff:
		s = append(s, 0x4d, byte(n), byte(n>>8))
	default:
		s = append(s, 0x4e, byte(n), byte(n>>8), byte(n>>16), byte(n>>24))
	}
	s = append(s, make([]byte, n)...)
	return &wire.TxOut{Value: 0, PkScript: s}
}

type inSpec struct {
	Op      wire.OutPoint
	Value   int64
	Witness bool // P2WPKH coin of the fixed key
	Seq     uint32
	HasSeq  bool // use Seq even when it is zero
}

// mkTx builds a transaction spending ins, paying `fee`, splitting the remainder
// over nOuts OP_TRUE outputs (output 0 is a P2WPKH output when firstWit is set)
// plus extra outputs; witness inputs are signed with the fixed key (BIP143,
// deterministic RFC6979 nonce).
func mkTx(version int32, ins []inSpec, fee int64, nOuts int, firstWit bool, extra []*wire.TxOut, lockTime uint32) *wire.MsgTx {
	tx := wire.NewMsgTx(version)
	total := int64(0)
	prev := map[wire.OutPoint]*wire.TxOut{}
	for _, in := range ins {
		seq := in.Seq
		if seq == 0 && !in.HasSeq {
			seq = 0xffffffff
		}
		tx.AddTxIn(&wire.TxIn{PreviousOutPoint: in.Op, Sequence: seq})
		total += in.Value
		scr := lab.OpTrue
		if in.Witness {
			scr = p2wpkh
		}
		prev[in.Op] = &wire.TxOut{Value: in.Value, PkScript: scr}
	}
	rest := total - fee
	for _, e := range extra {
		rest -= e.Value
	}
	if rest < 0 || nOuts <= 0 {
		panic("mkTx: negative remainder")
	}
	each := rest / int64(nOuts)
	for i := 0; i < nOuts; i++ {
		v := each
		if i == nOuts-1 {
			v = rest - each*int64(nOuts-1)
		}
		scr := lab.OpTrue
		if i == 0 && firstWit {
			scr = p2wpkh
		}
		tx.AddTxOut(&wire.TxOut{Value: v, PkScript: scr})
	}
	for _, e := range extra {
		tx.AddTxOut(e)
	}
	tx.LockTime = lockTime
	// sign witness inputs
	fetcher := txscript.NewMultiPrevOutFetcher(prev)
	var hashes *txscript.TxSigHashes
	for i, in := range ins {
		if !in.Witness {
			continue
		}
		if hashes == nil {
			hashes = txscript.NewTxSigHashes(tx, fetcher)
		}
		w, err := txscript.WitnessSignature(tx, hashes, i, in.Value, p2wpkh, txscript.SigHashAll, privKey, true)
		if err != nil {
			panic(err)
		}
		tx.TxIn[i].Witness = w
	}
	return tx
}

func outPt(tx *wire.MsgTx, idx uint32) wire.OutPoint {
	return wire.OutPoint{Hash: lab.TxID(tx), Index: idx}
}

// ---------------------------------------------------------------------------
// worlds (chain tip kinds)

type utx struct {
	Name string
	Tx   *wire.MsgTx
}

type world struct {
	Name         string
	Params       *chaincfg.Params // template, cloned for every chain instance
	Deliver      []*lab.Blk       // block delivery order
	SubmitAfter  int              // the pool subset is submitted after this many deliveries
	Main         []*lab.Blk       // best chain once everything is delivered (genesis exclusive)
	Tip          *lab.Blk
	Next         int32 // height of the template
	Reorg        bool  // the tip moved backwards while the pool was alive
	SegwitActive bool  // for the block at height Next (naive: Next >= AlwaysActiveHeight)
	Ref          *lab.FoldResult
	F            [4]*lab.Blk // funding blocks F[1..3]
	U            []utx       // base universe (subsets are enumerated)
	ReorgTxs     []utx       // transactions expected back in the pool after the reorg
}

const segwitLateHeight = 8

func empties(p *chaincfg.Params, parent *lab.Blk, n int, tagBase uint32, prefix string) []*lab.Blk {
	var out []*lab.Blk
	for i := 0; i < n; i++ {
		b := lab.Build(p, parent, lab.BOpt{Name: fmt.Sprintf("%s%d", prefix, parent.Height+1), Tag: tagBase + uint32(parent.Height+1)})
		out = append(out, b)
		parent = b
	}
	return out
}

func buildWorld(name string) *world {
	p := lab.RegtestLike()
	w := &world{Name: name, Params: p}
	lateSegwit := name == "segwit-last-inactive" || name == "segwit-first-active"
	if lateSegwit {
		p.Deployments[chaincfg.DeploymentSegwit].AlwaysActiveHeight = segwitLateHeight
	}
	// "mindiff": a minimum-difficulty network (the testnet 20-minute rule) whose
	// genesis and first blocks carry a target 256 times harder than the limit;
	// the tip is a minimum-difficulty block stamped 19 minutes before the lab's
	// clock.  A template generated now must carry the hard bits; one whose time
	// is then moved 90 seconds on (20.5 minutes after the tip) must carry the
	// limit: UpdateBlockTime has to re-derive the bits for the new time.
	const hardBits = 0x1f7fffff
	var bits uint32
	if name == "mindiff" {
		p.PoWNoRetargeting = false
		p.ReduceMinDifficulty = true
		p.MinDiffReductionTime = 20 * time.Minute
		gb := *p.GenesisBlock
		gb.Header.Bits = hardBits
		gb.Header.Timestamp = lab.Now.Add(-30*24*time.Hour - time.Minute)
		lab.Solve(&gb.Header)
		gh := chainhash.Hash(lab.HeaderHash(&gb.Header))
		p.GenesisBlock, p.GenesisHash = &gb, &gh
		bits = hardBits
	}
	g := lab.Genesis(p)
	parent := g
	for h := 1; h <= 3; h++ {
		b := lab.Build(p, parent, lab.BOpt{Name: fmt.Sprintf("F%d", h), Tag: uint32(h), CoinbaseOuts: fundingOuts(), Bits: bits})
		w.F[h] = b
		w.Deliver = append(w.Deliver, b)
		parent = b
	}
	switch name {
	case "mindiff":
		for i := 0; i < 2; i++ {
			b := lab.Build(p, parent, lab.BOpt{Name: fmt.Sprintf("H%d", parent.Height+1), Tag: 4000 + uint32(parent.Height+1), Bits: hardBits})
			w.Deliver = append(w.Deliver, b)
			parent = b
		}
		b := lab.Build(p, parent, lab.BOpt{Name: "M6", Tag: 4006, Time: lab.Now.Add(-19 * time.Minute)})
		w.Deliver = append(w.Deliver, b)
	case "plain", "segwit-last-inactive":
		w.Deliver = append(w.Deliver, empties(p, parent, 3, 1000, "E")...) // tip 6
	case "segwit-first-active":
		w.Deliver = append(w.Deliver, empties(p, parent, 4, 1000, "E")...) // tip 7
	case "halving5":
		w.Deliver = append(w.Deliver, empties(p, parent, 1, 1000, "E")...) // tip 4, next 5
	case "halving10":
		w.Deliver = append(w.Deliver, empties(p, parent, 6, 1000, "E")...) // tip 9, next 10
	case "advanced":
		// the pool is filled at tip 5; then block 6 confirms u0 (whether or not it was
		// in the pool: its children may have been waiting as orphans) and block 7 is
		// empty: the tip only moved forwards since admission
		e := empties(p, parent, 2, 1000, "E")
		w.Deliver = append(w.Deliver, e...)
		w.Tip = e[1]
		u := baseUniverse(w)
		e6 := lab.Build(p, e[1], lab.BOpt{Name: "E6", Tag: 1006, Txs: []*wire.MsgTx{u[0].Tx}, Fees: 20000})
		e7 := lab.Build(p, e6, lab.BOpt{Name: "E7", Tag: 1007})
		w.Deliver = append(w.Deliver, e6, e7)
	case "mtp-ahead":
		// six blocks stamped about an hour ahead of the node's adjusted time: the
		// median time past of the tip is later than "now", so the template's time
		// must be MTP+1s instead of the clock
		for i := 0; i < 6; i++ {
			b := lab.Build(p, parent, lab.BOpt{Name: fmt.Sprintf("T%d", parent.Height+1), Tag: 3000 + uint32(parent.Height+1),
				Time: lab.Now.Add(time.Hour + time.Duration(i)*time.Minute)})
			w.Deliver = append(w.Deliver, b)
			parent = b
		}
	case "mtp-equal":
		// as mtp-ahead, but stamped so that the median time past of the tip is
		// exactly the node's adjusted time: the template's time must still be
		// strictly later (MTP+1s)
		for i := 0; i < 6; i++ {
			b := lab.Build(p, parent, lab.BOpt{Name: fmt.Sprintf("Q%d", parent.Height+1), Tag: 3500 + uint32(parent.Height+1),
				Time: lab.Now.Add(time.Duration(i-1) * time.Minute)})
			w.Deliver = append(w.Deliver, b)
			parent = b
		}
	case "reorg-post", "reorg-pre":
		w.Reorg = true
		f3 := w.F[3]
		r0 := mkTx(1, []inSpec{{Op: coin(f3, 3), Value: 2.5e8}}, 7000, 2, false, []*wire.TxOut{padOut(300)}, 0)
		r1 := mkTx(1, []inSpec{{Op: coin(f3, 4), Value: 2.5e8}}, 9000, 2, false, []*wire.TxOut{padOut(310)}, 0)
		rX := mkTx(1, []inSpec{{Op: coin(f3, 5), Value: 2.5e8}}, 11000, 2, false, []*wire.TxOut{padOut(320)}, 0)
		rY := mkTx(1, []inSpec{{Op: coin(f3, 5), Value: 2.5e8}}, 13000, 3, false, []*wire.TxOut{padOut(330)}, 0)
		rW := mkTx(1, []inSpec{{Op: coin(f3, 1), Value: 5e8, Witness: true}}, 15000, 2, true, []*wire.TxOut{padOut(340)}, 0)
		r2 := mkTx(1, []inSpec{{Op: outPt(r0, 0), Value: r0.TxOut[0].Value}, {Op: outPt(rW, 0), Value: rW.TxOut[0].Value, Witness: true}}, 17000, 2, false, []*wire.TxOut{padOut(350)}, 0)
		a4 := lab.Build(p, parent, lab.BOpt{Name: "A4", Tag: 104})
		a5 := lab.Build(p, a4, lab.BOpt{Name: "A5", Tag: 105, Txs: []*wire.MsgTx{r0, r1, rX, rW}, Fees: 7000 + 9000 + 11000 + 15000})
		a6 := lab.Build(p, a5, lab.BOpt{Name: "A6", Tag: 106, Txs: []*wire.MsgTx{r2}, Fees: 17000})
		b4 := lab.Build(p, parent, lab.BOpt{Name: "B4", Tag: 204})
		b5 := lab.Build(p, b4, lab.BOpt{Name: "B5", Tag: 205, Txs: []*wire.MsgTx{rY}, Fees: 13000})
		b6 := lab.Build(p, b5, lab.BOpt{Name: "B6", Tag: 206, Txs: []*wire.MsgTx{r1}, Fees: 9000})
		b7 := lab.Build(p, b6, lab.BOpt{Name: "B7", Tag: 207})
		w.Deliver = append(w.Deliver, a4, a5, a6, b4, b5, b6, b7)
		// after the reorg: rX was double spent by rY (B5), r1 is confirmed in B6;
		// r0, rW and their child r2 are back in the pool.
		w.ReorgTxs = []utx{{"r0", r0}, {"rW", rW}, {"r2", r2}}
	default:
		panic("unknown world " + name)
	}
	w.Tip = w.Deliver[len(w.Deliver)-1]
	w.Main = w.Tip.Chain()
	w.Next = w.Tip.Height + 1
	w.SegwitActive = !lateSegwit || w.Next >= segwitLateHeight
	w.SubmitAfter = len(w.Deliver)
	if name == "reorg-pre" {
		w.SubmitAfter = 6 // at tip A6, before the competing branch arrives
	}
	if name == "advanced" {
		w.SubmitAfter = 5
	}
	ref, err := lab.Fold(w.Main)
	if err != nil {
		panic("world " + name + " does not fold: " + err.Error())
	}
	w.Ref = ref
	w.U = baseUniverse(w)
	return w
}

// baseUniverse: 8 transactions over mature funding coins.
//
//	u0           root, medium fee, three spendable outputs
//	u1 <- u0.0   highest fee rate
//	u2 <- u0.1   fee rate below 1000 sat/kB ("free" for the generator)
//	u3 <- u1.0,u2.0   closes the diamond; u0,u1,u3 is a chain of length 3
//	u4           zero fee, tiny, spends the 20 BTC coin: high priority
//	u5           P2WPKH spend (witness), creates a P2WPKH output
//	u6 <- u5.0 (witness, in-pool parent) + a mined OP_TRUE coin, low fee
//	u7           version 2, lock time = tip height (final exactly for the next block), non-final sequence
func baseUniverse(w *world) []utx {
	f1, f2 := w.F[1], w.F[2]
	tipH := w.Tip.Height // tip at submission time
	if w.Name == "reorg-pre" {
		tipH = 6
	}
	if w.Name == "advanced" {
		tipH = 5
	}
	u0 := mkTx(1, []inSpec{{Op: coin(f1, 3), Value: 2.5e8}}, 20000, 3, false, []*wire.TxOut{padOut(900)}, 0)
	u1 := mkTx(1, []inSpec{{Op: outPt(u0, 0), Value: u0.TxOut[0].Value}}, 100000, 2, false, []*wire.TxOut{padOut(940)}, 0)
	u2 := mkTx(1, []inSpec{{Op: outPt(u0, 1), Value: u0.TxOut[1].Value}}, 300, 2, false, []*wire.TxOut{padOut(980)}, 0)
	u3 := mkTx(1, []inSpec{{Op: outPt(u1, 0), Value: u1.TxOut[0].Value}, {Op: outPt(u2, 0), Value: u2.TxOut[0].Value}}, 30000, 2, false, []*wire.TxOut{padOut(1020)}, 0)
	u4 := mkTx(1, []inSpec{{Op: coin(f2, 0), Value: 20e8}}, 0, 2, false, nil, 0)
	u5 := mkTx(1, []inSpec{{Op: coin(f1, 1), Value: 5e8, Witness: true}}, 50000, 2, true, []*wire.TxOut{padOut(1060)}, 0)
	u6 := mkTx(1, []inSpec{{Op: outPt(u5, 0), Value: u5.TxOut[0].Value, Witness: true}, {Op: coin(f2, 3), Value: 2.5e8}}, 1000, 2, false, []*wire.TxOut{padOut(1100)}, 0)
	u7 := mkTx(2, []inSpec{{Op: coin(f2, 4), Value: 2.5e8, Seq: 0xfffffffe}}, 10000, 2, false, []*wire.TxOut{padOut(1140)}, uint32(tipH))
	return []utx{{"u0", u0}, {"u1", u1}, {"u2", u2}, {"u3", u3}, {"u4", u4}, {"u5", u5}, {"u6", u6}, {"u7", u7}}
}

// ---------------------------------------------------------------------------
// constructed pools

// chain25: a dependency chain of 25 transactions; fees grow with depth so every
// child has a better fee rate than its parent.
func poolChain(w *world, n int) []utx {
	var out []utx
	op := coin(w.F[3], 6)
	val := int64(2.5e8)
	for i := 0; i < n; i++ {
		tx := mkTx(1, []inSpec{{Op: op, Value: val}}, int64(1000*(i+1)), 1, false, []*wire.TxOut{{Value: 1000, PkScript: lab.OpTrue}, padOut(100 + i)}, 0)
		out = append(out, utx{fmt.Sprintf("c%02d", i), tx})
		op = outPt(tx, 0)
		val = tx.TxOut[0].Value
	}
	return out
}

// sigopTx: one output made of n bare OP_CHECKSIG opcodes (n legacy sigops, cost 4n).
func sigopTx(op wire.OutPoint, val int64, n int, fee int64) *wire.MsgTx {
	scr := make([]byte, n)
	for i := range scr {
		scr[i] = 0xac
	}
	return mkTx(1, []inSpec{{Op: op, Value: val}}, fee, 2, false, []*wire.TxOut{{Value: 0, PkScript: scr}}, 0)
}

// poolSigops: k transactions of 5000 sigops each (cost 20000 = the pool's
// per-transaction maximum; 4 of them = the consensus block maximum 80000 exactly)
// plus `ones` transactions with exactly one sigop (cost 4).
func poolSigops(w *world, k, ones int) []utx {
	var out []utx
	for i := 0; i < k; i++ {
		out = append(out, utx{fmt.Sprintf("s%d", i), sigopTx(coin(w.F[1], uint32(4+i)), 2.5e8, 5000, int64(20000+1000*i))})
	}
	for i := 0; i < ones; i++ {
		out = append(out, utx{fmt.Sprintf("o%d", i), sigopTx(coin(w.F[2], uint32(5+i)), 2.5e8, 1, int64(3000+100*i))})
	}
	return out
}

// poolBig: nine large transactions; the first eight carry `base` padding bytes,
// the last one `last`, so that the pool's total weight can be placed exactly on
// a limit.  Fees satisfy the pool's minimum relay fee for large transactions.
func poolBig(w *world, base, last int) []utx {
	var out []utx
	coins := []wire.OutPoint{}
	for i := 3; i <= 10; i++ {
		coins = append(coins, coin(w.F[3], uint32(i)))
	}
	coins = append(coins, coin(w.F[2], 10))
	for i, c := range coins {
		n := base
		if i == len(coins)-1 {
			n = last
		}
		tx := mkTx(1, []inSpec{{Op: c, Value: 2.5e8}}, int64(200000+1000*i), 2, false, []*wire.TxOut{padOut(n)}, 0)
		out = append(out, utx{fmt.Sprintf("b%d/%d", i, n), tx})
	}
	return out
}

// poolLocks: transactions whose locks are satisfied exactly for the next block.
//
//	l0           version 2, BIP68 relative height lock = next - 2 on a coin of height 2
//	             (min height next-1: spendable in the next block, not one earlier)
//	l1 <- l0.0   version 2, sequence 0 (BIP68 enabled, zero blocks): may share a block with its parent
//	l2           version 2, lock time = tip height AND the same exact relative lock
func poolLocks(w *world) []utx {
	f2 := w.F[2]
	rel := uint32(w.Next - 2)
	l0 := mkTx(2, []inSpec{{Op: coin(f2, 5), Value: 2.5e8, Seq: rel, HasSeq: true}}, 12000, 2, false, []*wire.TxOut{padOut(200)}, 0)
	l1 := mkTx(2, []inSpec{{Op: outPt(l0, 0), Value: l0.TxOut[0].Value, Seq: 0, HasSeq: true}}, 14000, 2, false, []*wire.TxOut{padOut(210)}, 0)
	l2 := mkTx(2, []inSpec{{Op: coin(f2, 6), Value: 2.5e8, Seq: rel, HasSeq: true}}, 16000, 2, false, []*wire.TxOut{padOut(220)}, uint32(w.Tip.Height))
	return []utx{{"l0", l0}, {"l1", l1}, {"l2", l2}}
}

// poolP2SH: q0 pays an OP_TRUE coin to a P2SH output whose redeem script holds
// k OP_CHECKSIG opcodes in a branch that is never executed
// (OP_0 OP_IF <k x OP_CHECKSIG> OP_ENDIF OP_1); q1 spends it.  Consensus counts
// those k sigops for q1 (BIP16 accurate counting, cost 4k) whether or not segwit
// is active, so the template's sigop accounting must as well.
func poolP2SH(w *world, k int) []utx {
	redeem := []byte{0x00, 0x63}
	for i := 0; i < k; i++ {
		redeem = append(redeem, 0xac)
	}
	redeem = append(redeem, 0x68, 0x51)
	h := address.Hash160(redeem)
	p2sh := append(append([]byte{0xa9, 0x14}, h...), 0x87)
	q0 := mkTx(1, []inSpec{{Op: coin(w.F[3], 8), Value: 2.5e8}}, 30000, 1, false, []*wire.TxOut{{Value: 1e8, PkScript: p2sh}}, 0)
	q1 := mkTx(1, []inSpec{{Op: outPt(q0, 1), Value: 1e8}}, 40000, 2, false, nil, 0)
	push := []byte{byte(len(redeem))}
	if len(redeem) > 75 {
		push = []byte{0x4c, byte(len(redeem))}
	}
	q1.TxIn[0].SignatureScript = append(push, redeem...)
	return []utx{{"q0", q0}, {fmt.Sprintf("q1/%d", k), q1}}
}

// poolStar: one parent with n outputs and n children spending one output each
// (wide fan-out; with n >= 252 the block's transaction count needs a 3-byte varint).
func poolStar(w *world, n int) []utx {
	root := mkTx(1, []inSpec{{Op: coin(w.F[3], 7), Value: 2.5e8}}, 50000, n, false, nil, 0)
	out := []utx{{"p", root}}
	for i := 0; i < n; i++ {
		c := mkTx(1, []inSpec{{Op: outPt(root, uint32(i)), Value: root.TxOut[i].Value}}, int64(100+7*i), 2, false, nil, 0)
		out = append(out, utx{fmt.Sprintf("k%03d", i), c})
	}
	return out
}

// poolWitStar: one parent paying n P2WPKH outputs and n children spending them
// (every child carries witness data; varying fees so that the selection order is
// fixed).  The generator's running weight is a sum of per-transaction weights: a
// per-witness-transaction error accumulates here beyond its slack.
func poolWitStar(w *world, n int) []utx {
	var extra []*wire.TxOut
	for i := 0; i < n; i++ {
		extra = append(extra, &wire.TxOut{Value: 1_000_000, PkScript: p2wpkh})
	}
	root := mkTx(1, []inSpec{{Op: coin(w.F[3], 7), Value: 2.5e8}}, 60000, 1, false, extra, 0)
	out := []utx{{"p", root}}
	for i := 0; i < n; i++ {
		c := mkTx(1, []inSpec{{Op: outPt(root, uint32(1+i)), Value: 1_000_000, Witness: true}}, int64(300+11*i), 1+i%2, false, nil, 0)
		out = append(out, utx{fmt.Sprintf("w%03d", i), c})
	}
	return out
}
