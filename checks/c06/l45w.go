package main

import (
	"fmt"

	"github.com/btcsuite/btcd/txscript/v2"
	"github.com/btcsuite/btcd/wire/v2"

	"verif/engine/ev"
	"verif/ref/refscript"
)

func init() {
	layers = append(layers, layer{"L4", runL4}, layer{"L5", runL5}, layer{"W", runW})
}

func repb(b []byte, n int) []byte {
	out := make([]byte, 0, len(b)*n)
	for i := 0; i < n; i++ {
		out = append(out, b...)
	}
	return out
}

// ---------------- L4: exact limits ----------------

type limCase struct {
	name   string
	script []byte   // inner script
	stack  [][]byte // initial stack items
	kinds  []string // wrappings to try: bare p2sh p2wsh tap
}

var allKinds = []string{"bare", "p2sh", "p2wsh", "tap"}

func runL4(r *ev.Run) bool {
	c := &l3Collector{}
	env := newSigEnv(2)
	N := byte(refscript.OP_NOP)
	one := []byte{0x51}
	var cases []limCase
	add := func(name string, script []byte, stack [][]byte, kinds ...string) {
		if len(kinds) == 0 {
			kinds = allKinds
		}
		cases = append(cases, limCase{name, script, stack, kinds})
	}
	// --- stack size 1000 / 1001 (stack + altstack)
	for _, n := range []int{999, 1000, 1001} {
		add(fmt.Sprintf("%d x OP_1", n), repb(one, n), nil)
		add(fmt.Sprintf("OP_1 then %d x DUP", n-1), cat(one, repb([]byte{refscript.OP_DUP}, n-1)), nil, "tap")
		add(fmt.Sprintf("%d x OP_1 then TOALTSTACK x500 (stack+alt=%d)", n, n), cat(repb(one, n), repb([]byte{refscript.OP_TOALTSTACK}, 150)), nil)
		add(fmt.Sprintf("(1 TOALTSTACK)x%d 1: altstack only", n-1), cat(repb([]byte{0x51, refscript.OP_TOALTSTACK}, minInt(n-1, 200)), repb(one, n-minInt(n-1, 200))), nil)
		// clean variants: push n items then drop down to one
		add(fmt.Sprintf("%d x OP_1, 2DROP x %d, leaves clean stack", n, (n-1)/2), cat(repb(one, n), repb([]byte{refscript.OP_2DROP}, (n-1)/2), dropIfEven(n)), nil, "tap")
		// 3DUP landing exactly on / over the limit
		add(fmt.Sprintf("%d x OP_1 then 3DUP (-> %d)", n-3, n), cat(repb(one, n-3), []byte{refscript.OP_3DUP}), nil)
		// initial witness stack
		items := make([][]byte, n)
		for i := range items {
			items[i] = []byte{1}
		}
		add(fmt.Sprintf("initial stack of %d items, script 2DROPx%d", n, (n-1)/2), cat(repb([]byte{refscript.OP_2DROP}, (n-1)/2), dropIfEven(n)), items, "p2wsh", "tap")
		add(fmt.Sprintf("initial stack of %d items, script DROP x 200 then DEPTH", n), cat(repb([]byte{refscript.OP_DROP}, 200)), items, "p2wsh", "tap")
		add(fmt.Sprintf("initial stack of %d items, empty script", n), []byte{}, items, "p2wsh", "tap")
		add(fmt.Sprintf("initial stack of %d items, OP_SUCCESS script", n), []byte{0x50}, items, "tap")
	}
	// --- op count 201 / 202
	for _, n := range []int{200, 201, 202} {
		add(fmt.Sprintf("1 then %d x NOP", n), cat(one, repb([]byte{N}, n)), nil)
		add(fmt.Sprintf("0 IF %d x NOP ENDIF 1 (unexecuted ops count; total %d)", n-2, n), cat([]byte{0, refscript.OP_IF}, repb([]byte{N}, n-2), []byte{refscript.OP_ENDIF, 0x51}), nil)
		add(fmt.Sprintf("1 then %d x NOP with 300 OP_RESERVED in dead branch", n-2), cat(one, []byte{0, refscript.OP_IF}, repb([]byte{0x50}, 300), []byte{refscript.OP_ENDIF}, repb([]byte{N}, n-2)), nil)
		add(fmt.Sprintf("1 then %d x NOP and 400 pushes+ (pushes do not count)", n), cat(repb(one, 400), repb([]byte{N}, n)), nil)
		// CHECKMULTISIG adds the key count
		k20 := []byte{}
		for i := 0; i < 20; i++ {
			k20 = append(k20, push(mkKey(fmt.Sprintf("C06 multisig key %d", i)).comp)...)
		}
		add(fmt.Sprintf("0 0 <20 keys> 20 CHECKMULTISIG NOT + %d NOPs (ops=%d)", n-22, n), cat([]byte{0, 0}, k20, []byte{0x01, 20, refscript.OP_CHECKMULTISIG, refscript.OP_NOT}, repb([]byte{N}, n-22)), nil, "bare", "p2wsh")
		add(fmt.Sprintf("%d NOPs then 0 0 <20 keys> 20 CHECKMULTISIG NOT (ops=%d)", n-22, n), cat(repb([]byte{N}, n-22), []byte{0, 0}, k20, []byte{0x01, 20, refscript.OP_CHECKMULTISIG, refscript.OP_NOT}), nil, "bare", "p2wsh")
		add(fmt.Sprintf("%d NOPs then 0 0 <20 keys> 20 CHECKMULTISIG as the last op (ops=%d exactly when the keys are added)", n-21, n), cat(repb([]byte{N}, n-21), []byte{0, 0}, k20, []byte{0x01, 20, refscript.OP_CHECKMULTISIG}), nil, "bare", "p2wsh")
		add(fmt.Sprintf("unexecuted CHECKMULTISIG does not add keys: 0 IF 0 0 20 CHECKMULTISIG ENDIF 1 + %d NOPs", n-3), cat([]byte{0, refscript.OP_IF, 0, 0, 0x01, 20, refscript.OP_CHECKMULTISIG, refscript.OP_ENDIF, 0x51}, repb([]byte{N}, n-3)), nil)
	}
	add("tapscript: 5000 NOPs", cat(one, repb([]byte{N}, 5000)), nil, "tap", "p2wsh", "bare")
	// --- element size 520 / 521
	for _, n := range []int{519, 520, 521} {
		pd := cat([]byte{0x4d, byte(n), byte(n >> 8)}, rep(1, n))
		add(fmt.Sprintf("push %d bytes, DROP 1", n), cat(pd, []byte{refscript.OP_DROP, 0x51}), nil)
		add(fmt.Sprintf("push %d bytes in unexecuted branch", n), cat([]byte{0, refscript.OP_IF}, pd, []byte{refscript.OP_ENDIF, 0x51}), nil)
		add(fmt.Sprintf("push %d bytes via PUSHDATA4", n), cat([]byte{0x4e, byte(n), byte(n >> 8), 0, 0}, rep(1, n), []byte{refscript.OP_DROP, 0x51}), nil)
		add(fmt.Sprintf("initial stack item of %d bytes, DROP 1", n), []byte{refscript.OP_DROP, 0x51}, [][]byte{rep(1, n)})
		add(fmt.Sprintf("initial stack item of %d bytes, script with OP_SUCCESS", n), []byte{refscript.OP_DROP, 0x50}, [][]byte{rep(1, n)}, "tap")
		add(fmt.Sprintf("initial stack item of %d bytes hashed: SHA256 SIZE 32 EQUALVERIFY DROP 1", n), []byte{refscript.OP_SHA256, refscript.OP_SIZE, 0x01, 32, refscript.OP_EQUALVERIFY, refscript.OP_DROP, 0x51}, [][]byte{rep(1, n)})
	}
	// --- script size 10000 / 10001
	for _, n := range []int{9999, 10000, 10001} {
		pd := cat([]byte{0x4d, 0x08, 0x02}, rep(1, 520), []byte{refscript.OP_DROP}) // 524 bytes, 1 op
		body := repb(pd, 19)                                                        // 9956 bytes
		fill := n - len(body) - 1
		sc := cat(body, repb([]byte{N}, fill), one)
		add(fmt.Sprintf("script of %d bytes (19 x <520> DROP, %d NOP, 1)", len(sc), fill), sc, nil, "bare", "p2wsh", "tap")
		// same size made only of pushes + few ops
		sc2 := cat(repb(cat([]byte{0x4d, 0x08, 0x02}, rep(1, 520)), 19), repb([]byte{0x01, 0x07}, (n-19*523-1)/2), one)
		for len(sc2) < n {
			sc2 = append([]byte{N}, sc2...)
		}
		add(fmt.Sprintf("script of %d bytes made of pushes", len(sc2)), sc2, nil, "bare", "p2wsh", "tap")
	}
	for _, lc := range cases {
		for _, k := range lc.kinds {
			var pk, sig []byte
			var wit [][]byte
			sets := fsNoDER7
			switch k {
			case "bare":
				pk, sig, wit = wrap(wkBare, lc.script, lc.stack)
			case "p2sh":
				pk, sig, wit = wrap(wkP2SH, lc.script, lc.stack)
				sets = fsRedeem5
			case "p2wsh":
				pk, sig, wit = wrap(wkP2WSH, lc.script, lc.stack)
				sets = fsWitness4
			case "tap":
				var ctrl []byte
				pk, ctrl = tapLeafOutput(numsKey, 0xc0, lc.script)
				wit = append(append([][]byte{}, lc.stack...), lc.script, ctrl)
				sets = fsTapscript
			}
			c.add("L4/"+k, lc.name, env.spend(pk, sig, wit), sets)
		}
	}
	// scriptSig size 10000 / 10001 (bare), and scriptSig leaving 1000/1001 items
	for _, n := range []int{10000, 10001} {
		ss := cat(repb(cat([]byte{0x4d, 0x08, 0x02}, rep(1, 520)), 19), repb([]byte{0x51}, n-19*523))
		c.add("L4/bare", fmt.Sprintf("scriptSig of %d bytes", len(ss)), env.spend([]byte{0x51}, ss, nil), fsNoDER7)
	}
	for _, n := range []int{999, 1000, 1001} {
		c.add("L4/bare", fmt.Sprintf("scriptSig pushes %d items, pkScript OP_1 (total %d)", n, n+1), env.spend([]byte{0x51}, repb(one, n), nil), fsNoDER7)
		c.add("L4/bare", fmt.Sprintf("scriptSig pushes %d items, pkScript DEPTH", n), env.spend([]byte{refscript.OP_DEPTH}, repb(one, n), nil), fsNoDER7)
	}
	// --- tapscript sigop budget: k x (DUP <key> CHECKSIGVERIFY), exact boundary via annex length
	for _, k := range []int{1, 3, 11, 12} {
		script := cat(repb(cat([]byte{refscript.OP_DUP}, push(keyA.xonly), []byte{refscript.OP_CHECKSIGVERIFY}), k), []byte{refscript.OP_DROP, 0x51})
		pk, ctrl := tapLeafOutput(numsKey, 0xc0, script)
		lh := refscript.TapLeafHash(0xc0, script)
		te := &tapEnv{env}
		for _, annexLen := range []int{-1, 1, 2, 5, 8, 9, 10, 20, 24, 25, 26, 40, 60} {
			var annex []byte
			if annexLen > 0 {
				annex = append([]byte{0x50}, make([]byte, annexLen-1)...)
			}
			d, _ := te.tapDigest(pk, 0, annex, &lh, 0xffffffff)
			sg := signSchnorr(keyA, d)
			wit := [][]byte{sg, script, ctrl}
			if annex != nil {
				wit = append(wit, annex)
			}
			budget := refscript.WitnessSerializeSize(wit) + 50 - int64(50*k)
			c.add("L4/tap-sigops", fmt.Sprintf("%d CHECKSIGVERIFYs, annex %d bytes, budget left after all = %d", k, annexLen, budget), env.spend(pk, nil, wit), fsTapscript)
		}
		// empty signatures are free; unknown key types with non-empty signature are charged
		s2 := cat(repb(cat([]byte{refscript.OP_DUP}, push(keyA.comp), []byte{refscript.OP_CHECKSIGVERIFY}), k), []byte{refscript.OP_DROP, 0x51})
		pk2, ctrl2 := tapLeafOutput(numsKey, 0xc0, s2)
		for _, padLen := range []int{1, 64, 200, 520} {
			wit := [][]byte{rep(7, padLen), s2, ctrl2}
			budget := refscript.WitnessSerializeSize(wit) + 50 - int64(50*k)
			c.add("L4/tap-sigops", fmt.Sprintf("%d CHECKSIGVERIFYs against 33-byte (unknown type) key with %d-byte dummy signature, budget left = %d", k, padLen, budget), env.spend(pk2, nil, wit), fsTapscript)
		}
		s3 := cat(repb(cat([]byte{0}, push(keyA.xonly), []byte{refscript.OP_CHECKSIG, refscript.OP_DROP}), 40*k), []byte{0x51})
		pk3, ctrl3 := tapLeafOutput(numsKey, 0xc0, s3)
		c.add("L4/tap-sigops", fmt.Sprintf("%d CHECKSIGs with empty signatures (free)", 40*k), env.spend(pk3, nil, [][]byte{s3, ctrl3}), fsTapscript)
	}
	counts := c.run(r)
	addCounts(r, counts)
	// resource-bound observation on accepting runs (debug step callback)
	nObs := observeBounds(r, c)
	r.Add("L4_bound_observations_on_accepting_runs", int64(nObs))
	r.Set("bounds_L4", map[string]interface{}{
		"stack": "999/1000/1001 via pushes, DUP, 3DUP, altstack, scriptSig carry-over, initial witness stack", "ops": "200/201/202 incl. unexecuted ops, OP_RESERVED, CHECKMULTISIG key count",
		"element": "519/520/521 pushed, unexecuted, PUSHDATA4, witness items, with OP_SUCCESS", "script_size": "9999/10000/10001 bare, scriptSig, witness script, tapscript",
		"tapscript_sigops": "k in {1,3,11,12} CHECKSIGVERIFY with annex lengths straddling the exact budget",
	})
	return true
}

func minInt(a, b int) int {
	if a < b {
		return a
	}
	return b
}

func dropIfEven(n int) []byte {
	if n%2 == 0 {
		return []byte{refscript.OP_DROP}
	}
	return nil
}

// observeBounds re-runs every accepted L4 case under a debug engine and checks
// that the combined stack depth never exceeded 1000 after a step, that no stack
// element exceeded 520 bytes, and (non-tapscript) that each script is <= 10000
// bytes with <= 201 counted ops.
func observeBounds(r *ev.Run, c *l3Collector) int {
	n := 0
	for _, j := range c.jobs {
		for _, fs := range j.sets {
			s := *j.sp
			s.Flags = fs.f
			func() {
				defer func() { recover() }()
				f := &fetcher{s.Tx, s.PrevOuts}
				var hc *txscript.TxSigHashes
				if s.Tx.HasWitness() {
					hc = txscript.NewTxSigHashes(s.Tx, f)
				}
				po := s.PrevOuts[s.Idx]
				maxDepth, maxElem := 0, 0
				vm, err := txscript.NewDebugEngine(po.PkScript, s.Tx, s.Idx, s.Flags, nil, hc, po.Value, f, func(si *txscript.StepInfo) error {
					if d := len(si.Stack) + len(si.AltStack); d > maxDepth {
						maxDepth = d
					}
					for _, e := range si.Stack {
						if len(e) > maxElem {
							maxElem = len(e)
						}
					}
					return nil
				})
				if err != nil || vm.Execute() != nil {
					return
				}
				n++
				tap := isTapscriptSpend(&s)
				opSuccess := tap && hasOpSuccess(s.Tx.TxIn[s.Idx].Witness)
				if maxDepth > refscript.MaxStackSize && !opSuccess {
					r.Violation("bounds/stack-depth/"+j.group, fmt.Sprintf("accepted run reached combined stack depth %d > 1000: %s flags=%s", maxDepth, j.desc, fs.name), s.toReplay(j.group+"/"+fs.name, j.desc))
				}
				if maxElem > refscript.MaxScriptElementSize && !opSuccess {
					r.Violation("bounds/element-size/"+j.group, fmt.Sprintf("accepted run held a %d-byte stack element > 520: %s flags=%s", maxElem, j.desc, fs.name), s.toReplay(j.group+"/"+fs.name, j.desc))
				}
			}()
		}
	}
	return n
}

func isTapscriptSpend(s *Spend) bool {
	pk := s.PrevOuts[s.Idx].PkScript
	return s.Flags&txscript.ScriptVerifyTaproot != 0 && len(pk) == 34 && pk[0] == 0x51 && pk[1] == 32 && len(s.Tx.TxIn[s.Idx].Witness) >= 2
}

func hasOpSuccess(w wire.TxWitness) bool {
	if len(w) < 2 {
		return false
	}
	sc := w[len(w)-2]
	if len(w[len(w)-1]) > 0 && w[len(w)-1][0] == 0x50 && len(w) >= 3 {
		sc = w[len(w)-3]
	}
	pc := 0
	for pc < len(sc) {
		op, _, next, ok := refscript.GetOp(sc, pc)
		if !ok {
			return false
		}
		if refscript.IsOpSuccess(op) {
			return true
		}
		pc = next
	}
	return false
}

// ---------------- L5: lock times ----------------

func runL5(r *ev.Run) bool {
	type operand struct {
		name string
		push []byte
	}
	ops := []operand{
		{"-1", []byte{0x4f}}, {"0", []byte{0x00}}, {"1", []byte{0x51}}, {"16", []byte{0x60}},
		{"499999999", push(refscript.EncodeNum(499999999))}, {"500000000", push(refscript.EncodeNum(500000000))},
		{"500000001", push(refscript.EncodeNum(500000001))},
		{"2^31-1", push(refscript.EncodeNum(1<<31 - 1))}, {"2^31", push(refscript.EncodeNum(1 << 31))}, {"2^31+1", push(refscript.EncodeNum(1<<31 + 1))},
		{"2^32-1", push(refscript.EncodeNum(1<<32 - 1))}, {"2^32", push(refscript.EncodeNum(1 << 32))},
		{"2^39-1 (5-byte max)", push(refscript.EncodeNum(1<<39 - 1))}, {"-(2^39-1)", push(refscript.EncodeNum(-(1<<39 - 1)))},
		{"6-byte 2^39", push(refscript.EncodeNum(1 << 39))},
		{"5-byte non-minimal 1", []byte{0x05, 1, 0, 0, 0, 0}}, {"6-byte non-minimal 1", []byte{0x06, 1, 0, 0, 0, 0, 0}},
		{"6-byte non-minimal 500000000", []byte{0x06, 0x00, 0x65, 0xcd, 0x1d, 0, 0}}, {"6-byte non-minimal 0", []byte{0x06, 0, 0, 0, 0, 0, 0}},
		{"non-minimal 0 (01 00)", []byte{0x01, 0x00}}, {"non-minimal 1 (02 01 00)", []byte{0x02, 0x01, 0x00}}, {"negative zero (01 80)", []byte{0x01, 0x80}},
		{"5-byte negative zero", []byte{0x05, 0, 0, 0, 0, 0x80}},
		{"65535", push(refscript.EncodeNum(0xffff))}, {"65536", push(refscript.EncodeNum(0x10000))},
		{"1<<22", push(refscript.EncodeNum(1 << 22))}, {"(1<<22)|1", push(refscript.EncodeNum(1<<22 | 1))}, {"(1<<22)|65535", push(refscript.EncodeNum(1<<22 | 0xffff))},
		{"(1<<31)|1", push(refscript.EncodeNum(1<<31 | 1))}, {"(1<<23)|1 (outside mask)", push(refscript.EncodeNum(1<<23 | 1))},
		{"empty-stack", nil},
	}
	lockTimes := []uint32{0, 1, 499999999, 500000000, 500000001, 0x7fffffff, 0x80000000, 0xffffffff}
	seqs := []uint32{0xffffffff, 0xfffffffe, 0, 1, 0xffff, 0x10000, 1 << 22, 1<<22 | 1, 1<<22 | 0xffff, 1 << 23, 1<<23 | 1, 1 << 31, 1<<31 | 1, 0x7fffffff}
	versions := []int32{1, 2, 0, 3, -1, -2147483648}
	opcodes := []byte{refscript.OP_CHECKLOCKTIMEVERIFY, refscript.OP_CHECKSEQUENCEVERIFY}
	type unit struct {
		opc byte
		o   operand
	}
	var units []unit
	for _, opc := range opcodes {
		for _, o := range ops {
			units = append(units, unit{opc, o})
		}
	}
	ev.Par(len(units), workers(), func(i int) {
		u := units[i]
		w := ctxPool.Get().(*wctx)
		defer ctxPool.Put(w)
		defer w.done()
		defer func() { w.tx.LockTime, w.tx.Version, w.tx.TxIn[0].Sequence = 0, 2, 0xffffffff }()
		var script []byte
		if u.o.push == nil {
			script = []byte{u.opc, 0x51}
		} else {
			script = cat(u.o.push, []byte{u.opc, refscript.OP_DROP, 0x51})
		}
		name := refscript.OpNames[u.opc]
		tapPk, tapCtrl := tapLeafOutput(numsKey, 0xc0, script)
		wsh := p2wshScript(script)
		for _, lt := range lockTimes {
			for _, sq := range seqs {
				for _, v := range versions {
					w.tx.LockTime, w.tx.Version, w.tx.TxIn[0].Sequence = lt, v, sq
					desc := fmt.Sprintf("%s operand=%s tx.LockTime=%d sequence=%#x version=%d", name, u.o.name, lt, sq, v)
					w.set(script, nil, nil)
					for _, fs := range allFlagSets {
						w.run("L5/bare", fs, desc)
					}
					w.set(wsh, nil, [][]byte{script})
					for _, fs := range fsWitness4 {
						w.run("L5/p2wsh", fs, desc)
					}
					w.set(tapPk, nil, [][]byte{script, tapCtrl})
					for _, fs := range fsTapscript {
						w.run("L5/tapscript", fs, desc)
					}
				}
			}
		}
		r.NontrivialBytes(append([]byte("L5|"), script...))
	})
	r.Add("L5_grid_points", int64(len(units)*len(lockTimes)*len(seqs)*len(versions)))
	r.Set("bounds_L5", map[string]interface{}{"operands": len(ops), "tx_locktimes": lockTimes, "sequences": seqs, "tx_versions": versions, "opcodes": []string{"CLTV", "CSV"}, "wrappings": []string{"bare", "p2wsh", "tapscript"}})
	return true
}

// ---------------- W: witness program shapes ----------------

func runW(r *ev.Run) bool {
	c := &l3Collector{}
	env := newSigEnv(2)
	verOps := []byte{0x00, 0x51, 0x52, 0x5f, 0x60, 0x4f, 0x50, 0x61}
	lens := []int{1, 2, 3, 19, 20, 21, 31, 32, 33, 40, 41}
	one := []byte{0x51}
	okWSH := refscript.Sha256(one)
	tapPk, tapCtrl := tapLeafOutput(numsKey, 0xc0, one)
	contents := func(n int) map[string][]byte {
		m := map[string][]byte{
			"zeros":   make([]byte, n),
			"ones":    rep(1, n),
			"negzero": append(make([]byte, n-1), 0x80),
			"ff":      rep(0xff, n),
		}
		if n == 2 {
			m["p2a"] = []byte{0x4e, 0x73}
		}
		if n == 32 {
			m["sha256(OP_1)"] = okWSH[:]
			m["taproot(OP_1 leaf)"] = tapPk[2:]
		}
		if n == 20 {
			m["hash160(keyA)"] = refscript.Hash160(keyA.comp)
		}
		return m
	}
	witnesses := map[string][][]byte{
		"empty":                        nil,
		"[01]":                         {{1}},
		"[OP_1 script]":                {one},
		"[01 01]":                      {{1}, {1}},
		"[empty-item]":                 {{}},
		"[OP_1 script,ctrl]":           {one, tapCtrl},
		"[521-byte item, OP_1 script]": {rep(1, 521), one},
	}
	var wnames []string
	for k := range witnesses {
		wnames = append(wnames, k)
	}
	sortStrings(wnames)
	for _, vo := range verOps {
		for _, n := range lens {
			cm := contents(n)
			for _, cn := range sortedKeys(cm) {
				prog := cm[cn]
				forms := map[string][]byte{"direct": cat([]byte{vo, byte(n)}, prog)}
				if cn == "ones" {
					forms["pushdata1"] = cat([]byte{vo, 0x4c, byte(n)}, prog)
					forms["extra-op"] = cat([]byte{vo, byte(n)}, prog, []byte{0x61})
				}
				for _, fn := range sortedKeys(forms) {
					pkProg := forms[fn]
					for _, wn := range wnames {
						wit := witnesses[wn]
						desc := fmt.Sprintf("verop=%#x len=%d content=%s form=%s witness=%s", vo, n, cn, fn, wn)
						c.add("W/native", desc, env.spend(pkProg, nil, wit), allFlagSets)
						c.add("W/p2sh-nested", desc, env.spend(p2shScript(pkProg), push(pkProg), wit), allFlagSets)
						if wn == "empty" || wn == "[OP_1 script]" {
							c.add("W/native", desc+" scriptSig=OP_1", env.spend(pkProg, one, wit), smallFlagSets)
							c.add("W/p2sh-nested", desc+" scriptSig=OP_1+push", env.spend(p2shScript(pkProg), cat(one, push(pkProg)), wit), smallFlagSets)
							c.add("W/p2sh-nested", desc+" scriptSig=PUSHDATA1 push", env.spend(p2shScript(pkProg), cat([]byte{0x4c, byte(len(pkProg))}, pkProg), wit), smallFlagSets)
						}
					}
				}
			}
		}
	}
	// P2SH scriptSig shapes: push-only requirement, extra items, non-canonical pushes
	{
		redeems := map[string][]byte{"OP_1": one, "1 1 ADD 2 EQUAL": {0x51, 0x51, refscript.OP_ADD, 0x52, refscript.OP_EQUAL}, "DEPTH 0 EQUAL": {refscript.OP_DEPTH, 0x00, refscript.OP_EQUAL}, "empty": {}}
		pre := map[string][]byte{"none": nil, "NOP": {refscript.OP_NOP}, "1 DROP": {0x51, refscript.OP_DROP}, "1": {0x51}, "0": {0x00}, "RESERVED-in-dead-branch": {0x00, refscript.OP_IF, 0x50, refscript.OP_ENDIF}, "1NEGATE": {0x4f}, "16": {0x60}}
		post := map[string][]byte{"none": nil, "NOP": {refscript.OP_NOP}, "DUP DROP": {refscript.OP_DUP, refscript.OP_DROP}, "CODESEPARATOR": {refscript.OP_CODESEPARATOR}}
		for _, rn := range sortedKeys(redeems) {
			rd := redeems[rn]
			pushForms := map[string][]byte{"canonical": push(rd), "PUSHDATA1": cat([]byte{0x4c, byte(len(rd))}, rd), "PUSHDATA2": cat([]byte{0x4d, byte(len(rd)), 0}, rd)}
			for _, pn := range sortedKeys(pre) {
				for _, qn := range sortedKeys(post) {
					for _, fn := range sortedKeys(pushForms) {
						ss := cat(pre[pn], pushForms[fn], post[qn])
						c.add("W/p2sh-scriptsig", fmt.Sprintf("redeem=%s scriptSig=%s + %s push + %s", rn, pn, fn, qn), env.spend(p2shScript(rd), ss, nil), allFlagSets)
					}
				}
			}
		}
	}
	// witness data on plain (non-witness) outputs
	for _, wn := range wnames {
		wit := witnesses[wn]
		c.add("W/unexpected", "bare OP_1 witness="+wn, env.spend(one, nil, wit), allFlagSets)
		c.add("W/unexpected", "p2sh(OP_1) witness="+wn, env.spend(p2shScript(one), push(one), wit), allFlagSets)
	}
	counts := c.run(r)
	addCounts(r, counts)
	r.Set("bounds_W", map[string]interface{}{"version_opcodes": verOps, "program_lengths": lens, "contents": "zeros, ones, negative zero, ff, P2A, sha256(OP_1), taproot(OP_1 leaf), hash160(key)", "nesting": []string{"native", "p2sh"}, "witnesses": wnames})
	return true
}
