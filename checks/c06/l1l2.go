package main

import (
	"bytes"
	"fmt"
	"sync"

	"verif/engine/ev"
	"verif/ref/refscript"
)

var ctxPool = sync.Pool{New: func() interface{} { return newCtx() }}

var (
	pkOne      = []byte{refscript.OP_1}
	pkDepth1Eq = []byte{refscript.OP_DEPTH, refscript.OP_1, refscript.OP_EQUAL}
	pkP2SHof51 = p2shScript([]byte{refscript.OP_1})
)

// placement flag-set tables
var (
	fsAll8      = []flagSet{fsNone, fsP2SH, fsDER, fsCLTV, fsCSV, fsSegwit, fsTaproot, fsStd}
	fsNoDER7    = []flagSet{fsNone, fsP2SH, fsCLTV, fsCSV, fsSegwit, fsTaproot, fsStd}
	fsRedeem5   = []flagSet{fsNone, fsP2SH, fsCSV, fsSegwit, fsStd}
	fsWitness4  = []flagSet{fsCSV, fsSegwit, fsTaproot, fsStd}
	fsTapscript = []flagSet{fsSegwit, fsTaproot, fsStd}
)

func init() {
	layers = append(layers, layer{"L1", runL1}, layer{"L2", runL2}, layer{"L1x", runL1x}, layer{"L2x", runL2x})
}

// ---------------- L1: every byte string ----------------

func l1One(w *wctx, b []byte, full bool) {
	type pl struct {
		name string
		sets []flagSet
	}
	// B as scriptPubKey
	sets := fsAll8
	if !full {
		sets = []flagSet{fsNone, fsCSV, fsTaproot, fsStd}
	}
	w.set(b, nil, nil)
	for _, fs := range sets {
		w.run("L1/pk", fs, "")
	}
	// B as scriptSig in front of OP_1
	if !full {
		sets = []flagSet{fsNone, fsStd}
	}
	w.set(pkOne, b, nil)
	for _, fs := range sets {
		w.run("L1/sig+OP_1", fs, "")
	}
	if !full {
		sets = []flagSet{fsTaproot, fsStd}
	}
	w.set(pkDepth1Eq, b, nil)
	for _, fs := range sets {
		w.run("L1/sig+DEPTH_1_EQUAL", fs, "")
	}
	if !full {
		sets = []flagSet{fsNone, fsP2SH, fsStd}
	}
	w.set(pkP2SHof51, b, nil)
	for _, fs := range sets {
		w.run("L1/sig+P2SH(OP_1)", fs, "")
	}
	// B as P2SH redeem script
	sets = fsRedeem5
	if !full {
		sets = []flagSet{fsP2SH, fsStd}
	}
	w.set(p2shScript(b), push(b), nil)
	for _, fs := range sets {
		w.run("L1/redeem", fs, "")
	}
	// B as P2WSH witness script
	sets = fsWitness4
	if !full {
		sets = []flagSet{fsSegwit, fsStd}
	}
	w.set(p2wshScript(b), nil, [][]byte{b})
	for _, fs := range sets {
		w.run("L1/wsh", fs, "")
	}
	if full {
		pk, ctrl := tapLeafOutput(numsKey, 0xc0, b)
		w.set(pk, nil, [][]byte{b, ctrl})
		for _, fs := range fsTapscript {
			w.run("L1/tapscript", fs, "")
		}
	}
}

func runL1(r *ev.Run) bool {
	// length <= 2, all placements, all flag sets
	ev.Par(257, workers(), func(i int) {
		w := ctxPool.Get().(*wctx)
		defer ctxPool.Put(w)
		defer w.done()
		if i == 256 {
			l1One(w, []byte{}, true)
			r.NontrivialBytes([]byte("L1|"))
			return
		}
		l1One(w, []byte{byte(i)}, true)
		r.NontrivialBytes([]byte{'L', '1', '|', byte(i)})
		for j := 0; j < 256; j++ {
			l1One(w, []byte{byte(i), byte(j)}, true)
			r.NontrivialBytes([]byte{'L', '1', '|', byte(i), byte(j)})
		}
	})
	r.Add("L1_strings_len_le2", 1+256+65536)
	bounds := map[string]interface{}{"max_len": 2, "placements": []string{"scriptPubKey(empty scriptSig)", "scriptSig+OP_1", "scriptSig+DEPTH 1 EQUAL", "scriptSig+P2SH(hash160(OP_1))", "P2SH redeem script", "P2WSH witness script", "tapscript leaf 0xc0"}}
	r.Set("bounds_L1", bounds)
	return true
}

// runL1x (thorough only): every byte string of length 3 with reduced flag sets.
func runL1x(r *ev.Run) bool {
	if !r.Thorough() {
		return true
	}
	complete := true
	var capped sync.Once
	ev.Par(65536, workers(), func(i int) {
		if expired(r) {
			capped.Do(func() { complete = false })
			return
		}
		w := ctxPool.Get().(*wctx)
		defer ctxPool.Put(w)
		defer w.done()
		for j := 0; j < 256; j++ {
			l1One(w, []byte{byte(i >> 8), byte(i), byte(j)}, false)
		}
		r.Add("L1_strings_len3", 256)
	})
	r.Set("bounds_L1x", map[string]interface{}{"len": 3, "placements": "all but tapscript", "flag_sets": "reduced (2-4 per placement)"})
	if !complete {
		r.Cap("L1x: length-3 byte strings stopped by the time box (prefixes are processed in parallel, so no complete prefix range is claimed); lengths <= 2 complete")
	}
	return complete
}

// ---------------- L2: token programs ----------------

type token struct {
	name string
	b    []byte
}

func rep(b byte, n int) []byte { return bytes.Repeat([]byte{b}, n) }

func op(name string) token { return token{name, []byte{refscript.OpByName["OP_"+name]}} }

var coreTokens = []token{
	{"0", []byte{0x00}}, {"1", []byte{0x51}}, {"-1", []byte{0x4f}}, {"2", []byte{0x52}}, {"16", []byte{0x60}},
	{"17", []byte{0x01, 0x11}}, {"negzero", []byte{0x01, 0x80}},
	{"num4", []byte{0x04, 0xff, 0xff, 0xff, 0x7f}}, {"num5", []byte{0x05, 0x00, 0x00, 0x00, 0x80, 0x00}},
	{"push520", cat([]byte{0x4d, 0x08, 0x02}, rep(1, 520))}, {"push521", cat([]byte{0x4d, 0x09, 0x02}, rep(1, 521))},
	{"nonmin(01 01)", []byte{0x01, 0x01}},
	op("TOALTSTACK"), op("FROMALTSTACK"), op("DROP"), op("DUP"), op("IFDUP"), op("DEPTH"), op("PICK"), op("ROLL"), op("SWAP"),
	op("SIZE"), op("EQUAL"), op("EQUALVERIFY"),
	op("1ADD"), op("NEGATE"), op("NOT"), op("ADD"), op("SUB"), op("BOOLAND"), op("NUMEQUALVERIFY"), op("LESSTHAN"), op("WITHIN"),
	op("SHA256"), op("HASH160"),
	op("NOP"), op("IF"), op("NOTIF"), op("ELSE"), op("ENDIF"), op("VERIFY"), op("RETURN"),
	op("CODESEPARATOR"), op("NOP1"), op("CHECKLOCKTIMEVERIFY"), op("CHECKSEQUENCEVERIFY"),
	op("RESERVED"), {"0xbb", []byte{0xbb}}, op("VERIF"), op("CAT"),
}

// fullTokens: every single-byte opcode 0x4f..0xbb, 0xfe, 0xff, plus all push forms.
var fullTokens = func() []token {
	t := []token{
		{"0", []byte{0x00}}, {"push1(00)", []byte{0x01, 0x00}}, {"push1(01)", []byte{0x01, 0x01}}, {"push1(11)", []byte{0x01, 0x11}},
		{"push1(80)", []byte{0x01, 0x80}}, {"push1(81)", []byte{0x01, 0x81}}, {"push2(0100)", []byte{0x02, 0x01, 0x00}},
		{"num4", []byte{0x04, 0xff, 0xff, 0xff, 0x7f}}, {"num4neg", []byte{0x04, 0xff, 0xff, 0xff, 0xff}},
		{"num5", []byte{0x05, 0x00, 0x00, 0x00, 0x80, 0x00}},
		{"pd1(01:05)", []byte{0x4c, 0x01, 0x05}}, {"pd1(00)", []byte{0x4c, 0x00}}, {"pd2(01:07)", []byte{0x4d, 0x01, 0x00, 0x07}},
		{"pd4(01:07)", []byte{0x4e, 0x01, 0x00, 0x00, 0x00, 0x07}},
		{"push75", cat([]byte{75}, rep(2, 75))}, {"pd1(76)", cat([]byte{0x4c, 76}, rep(2, 76))},
		{"push520", cat([]byte{0x4d, 0x08, 0x02}, rep(1, 520))}, {"push521", cat([]byte{0x4d, 0x09, 0x02}, rep(1, 521))},
		{"trunc(02 aa)", []byte{0x02, 0xaa}}, {"trunc(4c)", []byte{0x4c}},
		{"pd4(len ffffffff)", []byte{0x4e, 0xff, 0xff, 0xff, 0xff}}, {"pd4(len 80000000)", []byte{0x4e, 0x00, 0x00, 0x00, 0x80}},
		{"pd2(len ffff)", []byte{0x4d, 0xff, 0xff}},
	}
	for b := 0x4f; b <= 0xbb; b++ {
		n, ok := refscript.OpNames[byte(b)]
		if !ok {
			n = fmt.Sprintf("0x%02x", b)
		}
		t = append(t, token{n, []byte{byte(b)}})
	}
	t = append(t, token{"0xfe", []byte{0xfe}}, token{"0xff", []byte{0xff}})
	return t
}()

var reducedL2 bool // set only while runL2x runs (single-threaded switch, read by workers)

var initStacks = [][][]byte{{}, {{1}}, {{}}, {{1}, {1}}, {{2}, {3}}}
var initStackNames = []string{"[]", "[1]", "[0]", "[1 1]", "[2 3]"}

// extra initial stacks (full alphabet, length <= 2): non-minimal numbers that can
// only arrive un-checked through a witness stack, three- and six-deep stacks for
// ROT/WITHIN/2ROT, maximal 4-byte numbers for overflowing arithmetic, a 520-byte item.
var extraStacks = [][][]byte{{{0x00}}, {{0x80}}, {{0x01, 0x00}}, {{1}, {1}, {1}}, {{1}, {2}, {3}, {4}, {5}, {6}},
	{{0xff, 0xff, 0xff, 0x7f}, {0xff, 0xff, 0xff, 0x7f}}, {rep(1, 520)}, {{0x81}, {5}}, {{0x00, 0x80}}, {{0x80, 0x00}}}
var extraStackNames = []string{"[00]", "[80]", "[0100]", "[1 1 1]", "[1 2 3 4 5 6]", "[7fffffff 7fffffff]", "[520 bytes]", "[-1 5]", "[0080]", "[8000]"}

// reduced flag tables for the thorough-only long programs
var (
	fsBareX   = []flagSet{fsNone, fsCSV, fsTaproot, fsStd}
	fsRedeemX = []flagSet{fsP2SH, fsStd}
	fsWitX    = []flagSet{fsSegwit, fsStd}
)

func l2One(w *wctx, prog []byte, layer string, withTap bool, stacks [][][]byte, stackNames []string) {
	bareSets, redeemSets, witSets := fsNoDER7, fsRedeem5, fsWitness4
	if reducedL2 {
		bareSets, redeemSets, witSets = fsBareX, fsRedeemX, fsWitX
	}
	var tapPk, tapCtrl []byte
	if withTap {
		tapPk, tapCtrl = tapLeafOutput(numsKey, 0xc0, prog)
	}
	wsh := p2wshScript(prog)
	psh := p2shScript(prog)
	pprog := push(prog)
	for si, st := range stacks {
		var sig []byte
		for _, e := range st {
			sig = append(sig, pushMinimal(e)...)
		}
		sn := stackNames[si]
		w.set(prog, sig, nil)
		for _, fs := range bareSets {
			w.run(layer+"/bare", fs, sn)
		}
		w.set(psh, cat(sig, pprog), nil)
		for _, fs := range redeemSets {
			w.run(layer+"/p2sh", fs, sn)
		}
		wit := make([][]byte, 0, len(st)+2)
		wit = append(wit, st...)
		wit = append(wit, prog)
		w.set(wsh, nil, wit)
		for _, fs := range witSets {
			w.run(layer+"/p2wsh", fs, sn)
		}
		if withTap {
			wit2 := make([][]byte, 0, len(st)+2)
			wit2 = append(wit2, st...)
			wit2 = append(wit2, prog, tapCtrl)
			w.set(tapPk, nil, wit2)
			for _, fs := range fsTapscript {
				w.run(layer+"/tapscript", fs, sn)
			}
		}
	}
}

func runL2Alphabet(r *ev.Run, toks []token, minLen, maxLen int, layer string, tapMaxLen int, stacks [][][]byte, stackNames []string) (programs int64, complete bool) {
	complete = true
	var mu sync.Mutex
	for n := minLen; n <= maxLen; n++ {
		// parallelise over the first two tokens when n >= 2
		units := len(toks)
		if n >= 2 {
			units = len(toks) * len(toks)
		}
		ev.Par(units, workers(), func(u int) {
			if expired(r) {
				mu.Lock()
				complete = false
				mu.Unlock()
				return
			}
			w := ctxPool.Get().(*wctx)
			defer ctxPool.Put(w)
			defer w.done()
			cnt := int64(0)
			emit := func(prog []byte) {
				l2One(w, prog, layer, n <= tapMaxLen, stacks, stackNames)
				r.NontrivialBytes(append([]byte(layer+"|"), prog...))
				cnt++
			}
			if n == 1 {
				emit(append([]byte{}, toks[u].b...))
			} else {
				a, b := u/len(toks), u%len(toks)
				pre := cat(toks[a].b, toks[b].b)
				if n == 2 {
					emit(pre)
				} else {
					// remaining n-2 tokens
					sub := make([]int, n-2)
					for {
						prog := append([]byte{}, pre...)
						for _, k := range sub {
							prog = append(prog, toks[k].b...)
						}
						emit(prog)
						p := len(sub) - 1
						for p >= 0 {
							sub[p]++
							if sub[p] < len(toks) {
								break
							}
							sub[p] = 0
							p--
						}
						if p < 0 {
							break
						}
					}
				}
			}
			mu.Lock()
			programs += cnt
			mu.Unlock()
		})
		if !complete {
			r.Cap(fmt.Sprintf("%s: token sequences of length %d stopped by the time box; lengths < %d complete", layer, n, n))
			break
		}
	}
	return programs, complete
}

func runL2(r *ev.Run) bool {
	var names []string
	for _, t := range coreTokens {
		names = append(names, t.name)
	}
	// the empty program once
	w := ctxPool.Get().(*wctx)
	l2One(w, []byte{}, "L2core", true, initStacks, initStackNames)
	w.done()
	ctxPool.Put(w)
	n1, c1 := runL2Alphabet(r, fullTokens, 1, 2, "L2full", 2, initStacks, initStackNames)
	n3, c3 := runL2Alphabet(r, fullTokens, 1, 2, "L2extra", 2, extraStacks, extraStackNames)
	n2, c2 := runL2Alphabet(r, coreTokens, 1, 3, "L2core", 3, initStacks, initStackNames)
	r.Add("L2_programs_full_alphabet", n1)
	r.Add("L2_programs_full_alphabet_extra_stacks", n3)
	r.Add("L2_programs_core_alphabet", n2+1)
	r.Set("bounds_L2", map[string]interface{}{
		"core_alphabet": names, "core_alphabet_size": len(coreTokens), "core_max_len": 3,
		"full_alphabet_size": len(fullTokens), "full_alphabet": "all push forms incl. truncated and oversized PUSHDATA lengths (23) + every opcode byte 0x4f..0xbb + 0xfe 0xff",
		"full_max_len": 2, "initial_stacks": initStackNames, "extra_initial_stacks_full_alphabet_len_le2": extraStackNames,
		"wrappings": []string{"bare (scriptSig pushes stack)", "P2SH redeem script", "P2WSH witness script", "tapscript leaf 0xc0 (single-leaf tree, NUMS internal key)"},
		"flag_sets": map[string]int{"bare": len(fsNoDER7), "p2sh": len(fsRedeem5), "p2wsh": len(fsWitness4), "tapscript": len(fsTapscript)},
	})
	return c1 && c2 && c3
}

// runL2x (thorough only): full alphabet length 3, core alphabet length 4.
func runL2x(r *ev.Run) bool {
	if !r.Thorough() {
		return true
	}
	reducedL2 = true
	defer func() { reducedL2 = false }()
	n1, c1 := runL2Alphabet(r, fullTokens, 3, 3, "L2full", 2, initStacks, initStackNames)
	r.Add("L2_programs_full_alphabet_len3", n1)
	n2, c2 := false2(c1, func() (int64, bool) {
		return runL2Alphabet(r, coreTokens, 4, 4, "L2core", 3, initStacks, initStackNames)
	})
	r.Add("L2_programs_core_alphabet_len4", n2)
	r.Set("bounds_L2x", map[string]interface{}{"full_alphabet_len": 3, "core_alphabet_len": 4, "tapscript_wrapping": "not applied at these lengths (EC cost)",
		"flag_sets": map[string]int{"bare": len(fsBareX), "p2sh": len(fsRedeemX), "p2wsh": len(fsWitX)}})
	return c1 && c2
}

func false2(prev bool, f func() (int64, bool)) (int64, bool) {
	if !prev {
		return 0, false
	}
	return f()
}
