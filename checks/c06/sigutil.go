package main

import (
	"crypto/sha256"
	"math/big"

	"github.com/btcsuite/btcd/btcec/v2"
	"github.com/btcsuite/btcd/btcec/v2/ecdsa"
	"github.com/btcsuite/btcd/btcec/v2/schnorr"
)

// Fixed test keys (derived from fixed strings; nothing is sampled).
type tkey struct {
	priv   *btcec.PrivateKey
	comp   []byte // 33 bytes 02/03
	uncomp []byte // 65 bytes 04
	hybrid []byte // 65 bytes 06/07 (correct parity)
	xonly  []byte // 32 bytes
}

func mkKey(seed string) tkey {
	h := sha256.Sum256([]byte(seed))
	priv, pub := btcec.PrivKeyFromBytes(h[:])
	k := tkey{priv: priv}
	k.comp = pub.SerializeCompressed()
	k.uncomp = pub.SerializeUncompressed()
	k.hybrid = append([]byte{}, k.uncomp...)
	if k.uncomp[64]&1 == 1 {
		k.hybrid[0] = 0x07
	} else {
		k.hybrid[0] = 0x06
	}
	k.xonly = append([]byte{}, k.comp[1:]...)
	return k
}

var (
	keyA = mkKey("C06 test key A")
	keyB = mkKey("C06 test key B")
	keyC = mkKey("C06 test key C")
	keyD = mkKey("C06 test key D")
)

var curveN, _ = new(big.Int).SetString("fffffffffffffffffffffffffffffffebaaedce6af48a03bbfd25e8cd0364141", 16)

// rs is a raw ECDSA signature.
type rs struct{ r, s *big.Int }

func signECDSA(k tkey, digest [32]byte) rs {
	sig := ecdsa.Sign(k.priv, digest[:]) // RFC6979, low-S
	der := sig.Serialize()
	// strict DER: 30 L 02 lr R 02 ls S
	lr := int(der[3])
	r := new(big.Int).SetBytes(der[4 : 4+lr])
	ls := int(der[5+lr])
	s := new(big.Int).SetBytes(der[6+lr : 6+lr+ls])
	return rs{r, s}
}

func (x rs) highS() rs { return rs{x.r, new(big.Int).Sub(curveN, x.s)} }

// derInt gives the canonical DER content bytes of a non-negative integer.
func derInt(v *big.Int) []byte {
	b := v.Bytes()
	if len(b) == 0 {
		return []byte{0}
	}
	if b[0]&0x80 != 0 {
		return append([]byte{0}, b...)
	}
	return b
}

func derRaw(rc, sc []byte) []byte {
	body := cat([]byte{0x02, byte(len(rc))}, rc, []byte{0x02, byte(len(sc))}, sc)
	return cat([]byte{0x30, byte(len(body))}, body)
}

func (x rs) der() []byte { return derRaw(derInt(x.r), derInt(x.s)) }

type sigShape struct {
	name string
	b    []byte // full signature incl. hash type byte
}

// ecdsaShapes returns the encodings of a (valid) signature x under hash type ht,
// plus structurally broken variants.  All derive from the same (r,s).
func ecdsaShapes(x rs, ht byte) []sigShape {
	rc, sc := derInt(x.r), derInt(x.s)
	good := derRaw(rc, sc)
	w := func(b []byte) []byte { return append(append([]byte{}, b...), ht) }
	var out []sigShape
	add := func(n string, b []byte) { out = append(out, sigShape{n, b}) }
	add("valid", w(good))
	add("highS", w(x.highS().der()))
	add("padR", w(derRaw(append([]byte{0}, rc...), sc)))
	add("padS", w(derRaw(rc, append([]byte{0}, sc...))))
	if rc[0] == 0 {
		add("nopadR(negative)", w(derRaw(rc[1:], sc)))
	}
	if sc[0] == 0 {
		add("nopadS(negative)", w(derRaw(rc, sc[1:])))
	}
	hs := derInt(x.highS().s)
	if hs[0] == 0 {
		add("highS-nopad(negative)", w(derRaw(rc, hs[1:])))
	}
	body := good[2:]
	add("longform-seqlen", w(cat([]byte{0x30, 0x81, byte(len(body))}, body)))
	add("longform-rlen", w(func() []byte {
		b := cat([]byte{0x02, 0x81, byte(len(rc))}, rc, []byte{0x02, byte(len(sc))}, sc)
		return cat([]byte{0x30, byte(len(b))}, b)
	}()))
	add("seqlen+1", w(cat([]byte{0x30, byte(len(body) + 1)}, body)))
	add("seqlen-1", w(cat([]byte{0x30, byte(len(body) - 1)}, body)))
	add("trailing-byte", w(append(append([]byte{}, good...), 0x00)))
	add("trailing-in-seq", w(cat([]byte{0x30, byte(len(body) + 1)}, body, []byte{0x00})))
	add("bad-seq-tag", w(cat([]byte{0x31}, good[1:])))
	add("bad-r-tag", w(func() []byte { b := append([]byte{}, good...); b[2] = 0x03; return b }()))
	add("bad-s-tag", w(func() []byte { b := append([]byte{}, good...); b[4+len(rc)] = 0x03; return b }()))
	add("zero-len-r", w(derRaw(nil, sc)))
	add("zero-len-s", w(derRaw(rc, nil)))
	add("r=0", w(derRaw([]byte{0}, sc)))
	add("s=0", w(derRaw(rc, []byte{0})))
	add("s=n", w(derRaw(rc, derInt(curveN))))
	add("truncated", w(good[:len(good)-1]))
	add("r-padded-long(>73)", w(derRaw(cat(make([]byte, 12), rc), sc)))
	add("only-hashtype", []byte{ht})
	add("empty", []byte{})
	add("no-hashtype", append([]byte{}, good...))
	add("two-hashtype-bytes", append(w(good), ht))
	return out
}

// the last four have an undefined bit (0x20, 0x40) set on top of a NONE/SINGLE base type:
// the digest shape is selected by hashType&0x1f, the committed value is the whole byte
var hashTypeClasses = []byte{0x01, 0x02, 0x03, 0x81, 0x82, 0x83, 0x00, 0x04, 0x41, 0x80, 0x84, 0xff, 0x22, 0x43, 0xa3, 0xe2}

type keyShape struct {
	name  string
	b     []byte
	valid bool // parses as key k under Core's lax pubkey rules (hybrid allowed)
}

func notOnCurveX() []byte {
	// smallest x >= 1 such that 02||x is not a valid point
	for v := int64(1); ; v++ {
		x := make([]byte, 32)
		big.NewInt(v).FillBytes(x)
		if _, err := btcec.ParsePubKey(append([]byte{2}, x...)); err != nil {
			return x
		}
	}
}

func keyShapes(k tkey) []keyShape {
	wrongHybrid := append([]byte{}, k.hybrid...)
	wrongHybrid[0] ^= 1
	badY := append([]byte{}, k.uncomp...)
	badY[64] ^= 1
	return []keyShape{
		{"compressed", k.comp, true},
		{"uncompressed", k.uncomp, true},
		{"hybrid", k.hybrid, true},
		{"hybrid-wrong-parity", wrongHybrid, false},
		{"prefix05-33bytes", append([]byte{5}, k.xonly...), false},
		{"xonly-32bytes", k.xonly, false},
		{"empty", []byte{}, false},
		{"02+x-not-on-curve", append([]byte{2}, notOnCurveX()...), false},
		{"04-not-on-curve", badY, false},
		{"compressed+extra-byte", append(append([]byte{}, k.comp...), 0), false},
	}
}

func signSchnorr(k tkey, digest [32]byte) []byte {
	sig, err := schnorr.Sign(k.priv, digest[:])
	if err != nil {
		panic(err)
	}
	return sig.Serialize()
}

// tweakedPriv returns the private key for the taproot output key of internal
// key k with the given merkle root (BIP341 taproot_tweak_seckey).
func tweakedPriv(k tkey, root []byte) *btcec.PrivateKey {
	d := new(big.Int).SetBytes(k.priv.Serialize())
	if k.comp[0] == 0x03 { // odd y: negate
		d.Sub(curveN, d)
	}
	t := tapTweak(k.xonly, root)
	d.Add(d, new(big.Int).SetBytes(t[:]))
	d.Mod(d, curveN)
	b := make([]byte, 32)
	d.FillBytes(b)
	p, _ := btcec.PrivKeyFromBytes(b)
	return p
}
