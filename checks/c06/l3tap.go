package main

import (
	"fmt"

	"github.com/btcsuite/btcd/wire/v2"

	"verif/ref/refscript"
)

type tapEnv struct {
	*sigEnv
}

func (e *tapEnv) spentWith(pk []byte) []*wire.TxOut {
	return []*wire.TxOut{e.prev[0], {Value: e.prev[1].Value, PkScript: pk}}
}

// digest for key path (leaf == nil) or tapscript.
func (e *tapEnv) tapDigest(pk []byte, ht byte, annex []byte, leafHash *[32]byte, codeSep uint32) ([32]byte, bool) {
	ex := &refscript.TapExec{}
	if annex != nil {
		ex.AnnexPresent = true
		ex.AnnexHash = refscript.AnnexHash(annex)
	}
	if leafHash != nil {
		ex.Tapscript = true
		ex.TapLeafHash = *leafHash
		ex.CodeSepPos = codeSep
	}
	return refscript.TaprootSigHash(e.tx, e.idx, ht, e.spentWith(pk), ex)
}

type schnorrShape struct {
	name string
	b    []byte
}

var tapHashTypes = []byte{0x00, 0x01, 0x02, 0x03, 0x81, 0x82, 0x83}
var tapBadHashTypes = []byte{0x04, 0x41, 0x80, 0x84, 0xff}

// schnorrShapes: sign(d) signs digest d with the right key, signWrong with another key.
func schnorrShapes(dig func(ht byte) ([32]byte, bool), sign, signWrong func([32]byte) []byte) []schnorrShape {
	var out []schnorrShape
	add := func(n string, b []byte) { out = append(out, schnorrShape{n, b}) }
	d0, _ := dig(0)
	s0 := sign(d0)
	add("valid64", s0)
	for _, ht := range tapHashTypes[1:] {
		if d, ok := dig(ht); ok {
			add(fmt.Sprintf("valid65-ht%02x", ht), append(sign(d), ht))
		} else {
			// e.g. SIGHASH_SINGLE without matching output: any signature must fail
			add(fmt.Sprintf("undefined-digest-ht%02x", ht), append(append([]byte{}, s0...), ht))
		}
	}
	add("65-with-00-suffix", append(append([]byte{}, s0...), 0x00))
	d1, _ := dig(1)
	for _, ht := range tapBadHashTypes {
		add(fmt.Sprintf("bad-ht%02x(sig over ht01)", ht), append(sign(d1), ht))
		add(fmt.Sprintf("bad-ht%02x(sig over default)", ht), append(append([]byte{}, s0...), ht))
	}
	add("ht01-digest-with-64-bytes", sign(d1))
	add("default-digest-with-ht01", append(append([]byte{}, s0...), 0x01))
	add("63-bytes", s0[:63])
	add("66-bytes", append(append([]byte{}, s0...), 0x01, 0x01))
	add("empty", []byte{})
	add("wrong-key", signWrong(d0))
	fl := append([]byte{}, s0...)
	fl[40] ^= 1
	add("bit-flip-s", fl)
	fr := append([]byte{}, s0...)
	fr[3] ^= 1
	add("bit-flip-r", fr)
	return out
}

func xNotOnCurve32() []byte { return notOnCurveX() }

func l3Taproot(c *l3Collector) {
	tapSets := []flagSet{fsCSV, fsSegwit, fsTaproot, fsStd}
	for _, nOut := range []int{2, 1} {
		env := &tapEnv{newSigEnv(nOut)}
		annexes := [][]byte{nil, {0x50}, {0x50, 0xaa, 0xbb}}
		// ---------- key path ----------
		for _, withRoot := range []bool{false, true} {
			var root []byte
			if withRoot {
				lh := refscript.TapLeafHash(0xc0, []byte{refscript.OP_1})
				root = lh[:]
			}
			q, _, ok := refscript.TaprootTweak(keyA.xonly, root)
			if !ok {
				panic("tweak")
			}
			pk := cat([]byte{refscript.OP_1, 32}, q[:])
			priv := tweakedPriv(keyA, root)
			signer := tkey{priv: priv}
			wrongSigner := keyB
			for ai, annex := range annexes {
				dig := func(ht byte) ([32]byte, bool) { return env.tapDigest(pk, ht, annex, nil, 0) }
				shapes := schnorrShapes(dig, func(d [32]byte) []byte { return signSchnorr(signer, d) }, func(d [32]byte) []byte { return signSchnorr(wrongSigner, d) })
				// signature made by the untweaked internal key
				d0, _ := dig(0)
				shapes = append(shapes, schnorrShape{"signed-by-untweaked-internal-key", signSchnorr(keyA, d0)})
				for _, sh := range shapes {
					wit := [][]byte{sh.b}
					if annex != nil {
						wit = append(wit, annex)
					}
					c.add("L3/taproot-keypath", fmt.Sprintf("root=%v annex=%d sig=%s outs=%d", withRoot, ai, sh.name, nOut), env.spend(pk, nil, wit), tapSets)
					// annex mismatch: signature computed for this annex state, witness carries another
					for aj, other := range annexes {
						if aj == ai || sh.name != "valid64" {
							continue
						}
						w2 := [][]byte{sh.b}
						if other != nil {
							w2 = append(w2, other)
						}
						c.add("L3/taproot-keypath", fmt.Sprintf("root=%v signed-annex=%d witness-annex=%d", withRoot, ai, aj), env.spend(pk, nil, w2), tapSets)
					}
				}
			}
			if nOut == 2 {
				d0, _ := env.tapDigest(pk, 0, nil, nil, 0)
				good := signSchnorr(signer, d0)
				c.add("L3/taproot-keypath", "non-empty scriptSig", env.spend(pk, []byte{refscript.OP_1}, [][]byte{good}), tapSets)
				c.add("L3/taproot-keypath", "empty witness", env.spend(pk, nil, nil), tapSets)
				c.add("L3/taproot-keypath", "annex-only witness (single 0x50 element is a signature, not an annex)", env.spend(pk, nil, [][]byte{{0x50}}), tapSets)
				// P2SH-wrapped v1 program is not taproot
				c.add("L3/taproot-keypath", "p2sh-wrapped v1 program", env.spend(p2shScript(pk), push(pk), [][]byte{good}), allFlagSets)
				// output key not on the curve
				bad := cat([]byte{refscript.OP_1, 32}, xNotOnCurve32())
				c.add("L3/taproot-keypath", "output key not on curve", env.spend(bad, nil, [][]byte{good}), tapSets)
			}
		}
		if nOut == 1 {
			continue
		}
		// ---------- script path ----------
		type leafCase struct {
			name   string
			script []byte
			items  func(sigFor func(key tkey, ht byte, codeSep uint32) []byte) [][][]byte // list of witness stacks (without script/control)
			names  []string
		}
		// tapscript key shapes
		tkShapes := []keyShape{
			{"xonly", keyA.xonly, true},
			{"xonly-not-on-curve", xNotOnCurve32(), false},
			{"33-byte-compressed(unknown type)", keyA.comp, false},
			{"empty", []byte{}, false},
			{"31-bytes", keyA.xonly[:31], false},
			{"1-byte", []byte{0x01}, false},
			{"65-bytes", keyA.uncomp, false},
		}
		run := func(group, desc string, script []byte, leafVer byte, stack [][]byte, annex []byte, sets []flagSet) {
			pk, ctrl := tapLeafOutput(numsKey, leafVer, script)
			wit := append(append([][]byte{}, stack...), script, ctrl)
			if annex != nil {
				wit = append(wit, annex)
			}
			c.add(group, desc, env.spend(pk, nil, wit), sets)
		}
		for _, form := range sigForms {
			for _, ks := range tkShapes {
				script := cat(push(ks.b), form.tail)
				pk, _ := tapLeafOutput(numsKey, 0xc0, script)
				lh := refscript.TapLeafHash(0xc0, script)
				for ai, annex := range annexes {
					dig := func(ht byte) ([32]byte, bool) { return env.tapDigest(pk, ht, annex, &lh, 0xffffffff) }
					shapes := schnorrShapes(dig, func(d [32]byte) []byte { return signSchnorr(keyA, d) }, func(d [32]byte) []byte { return signSchnorr(keyB, d) })
					// key-path style digest (ext_flag 0) must not validate in tapscript
					dk, _ := env.tapDigest(pk, 0, annex, nil, 0)
					shapes = append(shapes, schnorrShape{"keypath-digest", signSchnorr(keyA, dk)})
					for _, sh := range shapes {
						if ai != 0 && ks.name != "xonly" {
							continue
						}
						run("L3/tapscript-checksig", fmt.Sprintf("%s key=%s sig=%s annex=%d", form.name, ks.name, sh.name, ai), script, 0xc0, [][]byte{sh.b}, annex, tapSets)
					}
				}
			}
		}
		// CHECKSIGADD chain
		{
			script := cat(push(keyA.xonly), []byte{refscript.OP_CHECKSIG}, push(keyB.xonly), []byte{refscript.OP_CHECKSIGADD}, push(keyC.xonly), []byte{refscript.OP_CHECKSIGADD, 0x52, refscript.OP_NUMEQUAL})
			pk, _ := tapLeafOutput(numsKey, 0xc0, script)
			lh := refscript.TapLeafHash(0xc0, script)
			ks := []tkey{keyA, keyB, keyC}
			d0, _ := env.tapDigest(pk, 0, nil, &lh, 0xffffffff)
			d1, _ := env.tapDigest(pk, 1, nil, &lh, 0xffffffff)
			choice := func(k tkey, ch int) ([]byte, string) {
				switch ch {
				case 0:
					return signSchnorr(k, d0), "valid64"
				case 1:
					return []byte{}, "empty"
				case 2:
					return append(signSchnorr(k, d1), 1), "valid65"
				case 3:
					return append(signSchnorr(k, d0), 0), "00-suffix"
				default:
					return signSchnorr(keyD, d0), "wrong-key"
				}
			}
			for code := 0; code < 125; code++ {
				st := make([][]byte, 3)
				var names []string
				cc := code
				for i := 0; i < 3; i++ {
					b, n := choice(ks[i], cc%5)
					cc /= 5
					st[2-i] = b // witness order: sigC sigB sigA (A consumed first)
					names = append(names, n)
				}
				run("L3/tapscript-checksigadd", fmt.Sprintf("A CHECKSIG B CHECKSIGADD C CHECKSIGADD 2 NUMEQUAL sigs(A,B,C)=%v", names), script, 0xc0, st, nil, tapSets)
			}
			// CHECKSIGADD number operand shapes
			numPushes := map[string][]byte{"n=0": {0}, "n=-1": {0x4f}, "n=4-byte max": {4, 0xff, 0xff, 0xff, 0x7f}, "n=5-byte": {5, 0, 0, 0, 0x80, 0}, "n=non-minimal(01 00)": {1, 0}, "n=negzero": {1, 0x80}}
			for _, name := range sortedKeys(numPushes) {
				numPush := numPushes[name]
				s2 := cat(numPush, push(keyA.xonly), []byte{refscript.OP_CHECKSIGADD, refscript.OP_0NOTEQUAL})
				pk2, _ := tapLeafOutput(numsKey, 0xc0, s2)
				lh2 := refscript.TapLeafHash(0xc0, s2)
				dd, _ := env.tapDigest(pk2, 0, nil, &lh2, 0xffffffff)
				run("L3/tapscript-checksigadd", name+" valid sig", s2, 0xc0, [][]byte{signSchnorr(keyA, dd)}, nil, tapSets)
				run("L3/tapscript-checksigadd", name+" empty sig", s2, 0xc0, [][]byte{{}}, nil, tapSets)
			}
			// CHECKSIGADD against every key shape, with a valid, an empty and a garbage signature
			for _, ks := range tkShapes {
				for _, tail := range []struct {
					name string
					b    []byte
				}{{"1 NUMEQUAL", []byte{0x51, refscript.OP_NUMEQUAL}}, {"0 NUMEQUAL", []byte{0x00, refscript.OP_NUMEQUAL}}} {
					s2 := cat([]byte{0x00}, push(ks.b), []byte{refscript.OP_CHECKSIGADD}, tail.b)
					pk2, _ := tapLeafOutput(numsKey, 0xc0, s2)
					lh2 := refscript.TapLeafHash(0xc0, s2)
					dd, _ := env.tapDigest(pk2, 0, nil, &lh2, 0xffffffff)
					sgs := map[string][]byte{"valid": signSchnorr(keyA, dd), "empty": {}, "garbage64": rep(3, 64), "1-byte": {1}}
					for _, sn := range sortedKeys(sgs) {
						sg := sgs[sn]
						run("L3/tapscript-checksigadd", fmt.Sprintf("0 <key=%s> CHECKSIGADD %s sig=%s", ks.name, tail.name, sn), s2, 0xc0, [][]byte{sg}, nil, tapSets)
					}
				}
			}
			// CHECKSIGADD outside tapscript, CHECKMULTISIG inside
			for _, wk := range ecdsaWraps {
				p, s, w := wrap(wk, cat([]byte{0, 0}, push(keyA.comp), []byte{refscript.OP_CHECKSIGADD, refscript.OP_NOT}), nil)
				c.add("L3/tapscript-checksigadd", "CHECKSIGADD in "+wk.name, env.spend(p, s, w), allFlagSets)
				p, s, w = wrap(wk, cat([]byte{0, refscript.OP_IF, refscript.OP_CHECKSIGADD, refscript.OP_ENDIF, refscript.OP_1}), nil)
				c.add("L3/tapscript-checksigadd", "unexecuted CHECKSIGADD in "+wk.name, env.spend(p, s, w), allFlagSets)
			}
			run("L3/tapscript-checksigadd", "CHECKMULTISIG in tapscript", cat([]byte{0, 0, 0, refscript.OP_CHECKMULTISIG, refscript.OP_NOT}), 0xc0, nil, nil, tapSets)
			run("L3/tapscript-checksigadd", "unexecuted CHECKMULTISIG in tapscript", cat([]byte{0, refscript.OP_IF, refscript.OP_CHECKMULTISIG, refscript.OP_ENDIF, refscript.OP_1}), 0xc0, nil, nil, tapSets)
			run("L3/tapscript-checksigadd", "CHECKMULTISIGVERIFY in tapscript", cat([]byte{0, 0, 0, refscript.OP_CHECKMULTISIGVERIFY, refscript.OP_1}), 0xc0, nil, nil, tapSets)
		}
		// CODESEPARATOR position
		{
			K := push(keyA.xonly)
			CS := []byte{refscript.OP_CODESEPARATOR}
			CHK := []byte{refscript.OP_CHECKSIG}
			scripts := map[string][]byte{
				"CS K CHK":                     cat(CS, K, CHK),
				"K CS CHK":                     cat(K, CS, CHK),
				"K CHK CS":                     cat(K, CHK, CS),
				"0 IF CS ENDIF K CHK":          cat([]byte{0, refscript.OP_IF}, CS, []byte{refscript.OP_ENDIF}, K, CHK),
				"1 IF CS ENDIF K CHK":          cat([]byte{0x51, refscript.OP_IF}, CS, []byte{refscript.OP_ENDIF}, K, CHK),
				"CS CS K CHK":                  cat(CS, CS, K, CHK),
				"<75-byte push> DROP CS K CHK": cat(push(rep(7, 75)), []byte{refscript.OP_DROP}, CS, K, CHK),
			}
			for _, name := range sortedKeys(scripts) {
				script := scripts[name]
				pk, _ := tapLeafOutput(numsKey, 0xc0, script)
				lh := refscript.TapLeafHash(0xc0, script)
				for _, pos := range []uint32{0xffffffff, 0, 1, 2, 3, 4, 77, 78, 79} {
					d, _ := env.tapDigest(pk, 0, nil, &lh, pos)
					run("L3/tapscript-codesep", fmt.Sprintf("%s signed-with-codesep-pos=%d", name, int32(pos)), script, 0xc0, [][]byte{signSchnorr(keyA, d)}, nil, tapSets)
				}
			}
		}
		// leaf versions, control block shapes, merkle paths
		{
			script := cat(push(keyA.xonly), []byte{refscript.OP_CHECKSIG})
			for _, lv := range []byte{0xc0, 0xc2, 0x00, 0x50, 0x66, 0x7e, 0x80, 0xbe, 0xfe} {
				pk, ctrl := tapLeafOutput(numsKey, lv, script)
				lh := refscript.TapLeafHash(lv, script)
				d, _ := env.tapDigest(pk, 0, nil, &lh, 0xffffffff)
				good := signSchnorr(keyA, d)
				sgs := map[string][]byte{"valid-sig": good, "empty-sig": {}, "garbage-sig": {1, 2, 3}}
				for _, sname := range sortedKeys(sgs) {
					sg := sgs[sname]
					c.add("L3/tapscript-leafver", fmt.Sprintf("leaf version %#x %s", lv, sname), env.spend(pk, nil, [][]byte{sg, script, ctrl}), tapSets)
				}
				// OP_SUCCESS script under unknown leaf version, and an unparseable script
				scs := map[string][]byte{"OP_SUCCESS80": {0x50}, "truncated push": {0x02, 0x01}, "truncated push then OP_SUCCESS": {0x03, 0x01, 0x50}, "OP_SUCCESS then truncated push": {0x50, 0x02, 0x01}, "OP_SUCCESS inside push data": {0x01, 0x50, 0x51}}
				for _, sname := range sortedKeys(scs) {
					sc := scs[sname]
					pk2, ctrl2 := tapLeafOutput(numsKey, lv, sc)
					c.add("L3/tapscript-leafver", fmt.Sprintf("leaf version %#x script=%s", lv, sname), env.spend(pk2, nil, [][]byte{sc, ctrl2}), tapSets)
					c.add("L3/tapscript-leafver", fmt.Sprintf("leaf version %#x script=%s with 521-byte stack item", lv, sname), env.spend(pk2, nil, [][]byte{rep(1, 521), sc, ctrl2}), tapSets)
				}
			}
			// control block mutations for the 0xc0 leaf
			pk, ctrl := tapLeafOutput(numsKey, 0xc0, script)
			lh := refscript.TapLeafHash(0xc0, script)
			d, _ := env.tapDigest(pk, 0, nil, &lh, 0xffffffff)
			good := signSchnorr(keyA, d)
			muts := map[string][]byte{
				"parity flipped":            func() []byte { b := append([]byte{}, ctrl...); b[0] ^= 1; return b }(),
				"internal key changed":      func() []byte { b := append([]byte{}, ctrl...); b[5] ^= 1; return b }(),
				"32 bytes":                  ctrl[:32],
				"34 bytes":                  append(append([]byte{}, ctrl...), 0),
				"33+31 bytes":               append(append([]byte{}, ctrl...), make([]byte, 31)...),
				"33+32 bytes (bogus node)":  append(append([]byte{}, ctrl...), make([]byte, 32)...),
				"empty":                     {},
				"internal key not on curve": append([]byte{ctrl[0]}, xNotOnCurve32()...),
			}
			for _, name := range sortedKeys(muts) {
				c.add("L3/tapscript-control", "control block "+name, env.spend(pk, nil, [][]byte{good, script, muts[name]}), tapSets)
			}
			// two-leaf tree, both orderings of the sibling hash
			other := []byte{refscript.OP_1}
			lhO := refscript.TapLeafHash(0xc0, other)
			root := refscript.TapBranchHash(lh, lhO)
			q, odd, _ := refscript.TaprootTweak(numsKey, root[:])
			pk2 := cat([]byte{refscript.OP_1, 32}, q[:])
			c0 := byte(0xc0)
			if odd {
				c0 |= 1
			}
			ctrlA := cat([]byte{c0}, numsKey, lhO[:])
			ctrlB := cat([]byte{c0}, numsKey, lh[:])
			d2, _ := env.tapDigest(pk2, 0, nil, &lh, 0xffffffff)
			c.add("L3/tapscript-control", "2-leaf tree, spend leaf A", env.spend(pk2, nil, [][]byte{signSchnorr(keyA, d2), script, ctrlA}), tapSets)
			c.add("L3/tapscript-control", "2-leaf tree, spend leaf B (OP_1)", env.spend(pk2, nil, [][]byte{other, ctrlB}), tapSets)
			c.add("L3/tapscript-control", "2-leaf tree, leaf A with B's control", env.spend(pk2, nil, [][]byte{signSchnorr(keyA, d2), script, ctrlB}), tapSets)
			// depth 128 (max) and 129
			for _, depth := range []int{127, 128, 129} {
				k := refscript.TapLeafHash(0xc0, other)
				var path []byte
				for i := 0; i < depth; i++ {
					var node [32]byte
					node[0] = byte(i)
					node[31] = byte(i >> 3)
					path = append(path, node[:]...)
					k = refscript.TapBranchHash(k, node)
				}
				q3, odd3, _ := refscript.TaprootTweak(numsKey, k[:])
				c3 := byte(0xc0)
				if odd3 {
					c3 |= 1
				}
				c.add("L3/tapscript-control", fmt.Sprintf("merkle path depth %d", depth),
					env.spend(cat([]byte{refscript.OP_1, 32}, q3[:]), nil, [][]byte{other, cat([]byte{c3}, numsKey, path)}), tapSets)
			}
		}
	}
}
