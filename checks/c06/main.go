// C06 — script verification agrees with Bitcoin's script semantics for every spend.
//
// Bounded exhaustive enumeration of spends (scriptPubKey, scriptSig, witness,
// spending tx, flags) executed on the real txscript engine exactly as
// blockchain/scriptval.go does (NewEngine + Execute) and on refscript, an
// independent interpreter written from Bitcoin Core's interpreter.cpp.  The
// reference is first bound to every Core vector btcd ships.
package main

import (
	"errors"
	"fmt"
	"os"
	"runtime"
	"runtime/pprof"
	"sort"
	"strings"
	"sync"
	"syscall"
	"time"

	"github.com/btcsuite/btcd/txscript/v2"

	"verif/engine/ev"
	"verif/ref/refscript"
)

func workers() int {
	n := runtime.NumCPU()
	if n > 16 {
		n = 16
	}
	return n
}

func vectorDir() string {
	root := "/repo"
	if v := os.Getenv("VERIF_REPO"); v != "" {
		root = v
	}
	return root + "/txscript/data"
}

// btcdClass gives a short stable class for the engine's outcome.
func btcdClass(ok bool, err string, panicked bool) string {
	if panicked {
		return "PANIC"
	}
	if ok {
		return "OK"
	}
	return "ERR"
}

func btcdErrCode(s *Spend) string {
	defer func() { recover() }()
	f := &fetcher{s.Tx, s.PrevOuts}
	var hc *txscript.TxSigHashes
	if s.Tx.HasWitness() {
		hc = txscript.NewTxSigHashes(s.Tx, f)
	}
	po := s.PrevOuts[s.Idx]
	vm, err := txscript.NewEngine(po.PkScript, s.Tx, s.Idx, s.Flags, nil, hc, po.Value, f)
	if err == nil {
		err = vm.Execute()
	}
	if err == nil {
		return "OK"
	}
	var se txscript.Error
	if errors.As(err, &se) {
		return se.ErrorCode.String()
	}
	return "ERR"
}

var theRun *ev.Run
var dumpAll = os.Getenv("C06_DUMP") != ""

// compare runs one spend on both sides; on disagreement (or panic) it records a
// violation keyed by severity/layer/outcome-class.  policy selects the severity.
// Returns the reference verdict.
func compare(r *ev.Run, layer, desc string, s *Spend, policy bool) bool {
	ok, errStr, panicked := runBtcd(s)
	ref := runRef(s)
	r.Eval(1)
	r.Trace(1)
	if !panicked && ok == (ref == "") {
		// signature families: the verdict does not depend on a signature cache
		// shared between verifications (mempool acceptance, then block validation)
		if strings.HasPrefix(layer, "L3") {
			cache := txscript.NewSigCache(16)
			for pass := 1; pass <= 2; pass++ {
				okc, errc, pc := runBtcdWith(s, cache)
				if okc != ok || pc {
					sev := "consensus"
					if policy {
						sev = "policy"
					}
					r.Violation(fmt.Sprintf("%s/%s/sigcache/plain=%s/cached-pass%d=%s", sev, layer, btcdClass(ok, errStr, false), pass, btcdClass(okc, errc, pc)),
						fmt.Sprintf("%s: verdict without a signature cache %s(%s), verification #%d with a shared SigCache %s(%s); flags=%s pkScript=[%s] scriptSig=[%s] witness=%d items", desc, btcdClass(ok, errStr, false), errStr, pass, btcdClass(okc, errc, pc), errc,
							flagString(s.Flags), disasm(s.PrevOuts[s.Idx].PkScript), disasm(s.Tx.TxIn[s.Idx].SignatureScript), len(s.Tx.TxIn[s.Idx].Witness)), s.toReplay(layer, desc))
					break
				}
			}
		}
		return ref == ""
	}
	// A badly broken engine can disagree on millions of cases: fully triage only the
	// first slowCap disagreements per (layer, flag set); count the rest.
	if n := slowCount(layer); n > slowCap {
		r.Add("disagreements_not_individually_triaged", 1)
		return ref == ""
	}
	// re-run three times: the verdict must be stable
	for i := 0; i < 3; i++ {
		ok2, _, p2 := runBtcd(s)
		ref2 := runRef(s)
		if ok2 != ok || p2 != panicked || ref2 != ref {
			r.Broken("verdict flipped on re-run: layer=%s %s", layer, desc)
		}
	}
	sev := "consensus"
	if policy {
		sev = "policy"
	}
	if len(layer) >= 4 && layer[:4] == "vec/" {
		sev = "vector"
	}
	refS := string(ref)
	if refS == "" {
		refS = "OK"
	}
	code := "PANIC"
	if !panicked {
		code = btcdErrCode(s)
	}
	key := fmt.Sprintf("%s/%s/core=%s/btcd=%s", sev, layer, refS, code)
	// Label the disagreement when exactly one emulated, already-triaged btcd
	// deviation explains it (the reference with that deviation switched on agrees
	// with btcd on this very case).  Everything else keeps the generic key.
	if !panicked && sev != "vector" {
		label := ""
		for _, q := range refscript.QuirkNames {
			if (runRefQuirks(s, q.Q) == "") == ok {
				label = q.Name
				break
			}
		}
		if label == "" {
			var all refscript.Quirks
			for _, q := range refscript.QuirkNames {
				all |= q.Q
			}
			if (runRefQuirks(s, all) == "") == ok {
				label = "combination-of-known-deviations"
			}
		}
		if label != "" {
			key = fmt.Sprintf("%s/deviation/%s", sev, label)
			r.Add("deviation_cases/"+sev+"/"+label, 1)
		}
	}
	if dumpAll {
		fmt.Printf("DUMP %s | %s/core=%s/btcd=%s | %s\n", key, layer, refS, code, desc)
	}
	in := s.Tx.TxIn[s.Idx]
	what := fmt.Sprintf("%s: btcd=%s(%s) but Core semantics=%s; flags=%s pkScript=[%s] scriptSig=[%s] witness=%d items; %s",
		key, btcdClass(ok, errStr, panicked), errStr, refS, flagString(s.Flags),
		disasm(s.PrevOuts[s.Idx].PkScript), disasm(in.SignatureScript), len(in.Witness), desc)
	r.Violation(key, what, s.toReplay(layer, desc))
	return ref == ""
}

func main() {
	r := ev.Start("C06")
	theRun = r
	if pf := os.Getenv("C06_PROF"); pf != "" {
		f, _ := os.Create(pf)
		pprof.StartCPUProfile(f)
		defer pprof.StopCPUProfile()
		profStop = pprof.StopCPUProfile
	}
	if r.ReplayPath != "" {
		var rp ReplaySpend
		r.LoadReplay(&rp)
		s, err := spendFromReplay(&rp)
		if err != nil {
			r.Broken("bad replay: %v", err)
		}
		compare(r, rp.Layer, rp.Desc, s, s.Flags == txscript.StandardVerifyFlags)
		r.Finish(false)
	}
	r.Rule("every case is one spend (pkScript, scriptSig, witness, tx, flags) executed by txscript.NewEngine+Execute and by refscript.VerifyScript; " +
		"cases are enumerated exhaustively per layer (L1 all byte strings, L2 all token sequences x initial stacks x wrappings, L3 signature/key/dummy shape products, " +
		"L4 exact-limit constructions, L5 lock-time grid, W witness-program shapes) x flag sets; a case is non-trivial when it is a distinct (layer, flags, scripts, witness) tuple")
	r.Assume("labelled keys <sev>/deviation/<name>: the reference with exactly that emulated btcd deviation switched on (refscript/quirks.go) agrees with btcd on the case; the oracle itself always runs with no deviation enabled")
	r.Assume("btcec ECDSA/Schnorr verification of a given 32-byte digest and secp256k1 point arithmetic are correct (subject of C11); SHA-256/SHA-1/RIPEMD-160 library implementations are correct")
	r.Assume("refscript follows Bitcoin Core interpreter.cpp; it reproduces 100% of script_tests.json (incl. the 5 #SCRIPT#/#CONTROLBLOCK# taproot macro cases btcd skips), tx_valid.json, tx_invalid.json (BADTX sanity cases excluded: not script verification) and all taproot-ref success/failure vectors; checked at the start of every run, BROKEN-CHECK otherwise")
	// Time box.  The machine is shared, so the quick tier is boxed by CPU time
	// (9 CPU-minutes, i.e. < 40 s on 16 idle cores) with a generous wall limit;
	// thorough by wall clock.
	if d, err := time.ParseDuration(os.Getenv("C06_BUDGET")); err == nil && d > 0 {
		r.SetBudget(d)
		cpuBudget = 0
	} else if r.Thorough() {
		r.SetBudget(13 * time.Minute)
		cpuBudget = 0
	} else {
		r.SetBudget(6 * time.Minute)
		cpuBudget = 9 * time.Minute
	}

	t0 := time.Now()
	var st vecStats
	skipVec := os.Getenv("C06_SKIPVEC") != "" // development aid only
	if !skipVec {
		st = bindVectors(r)
	}
	r.Set("vectors_bound", map[string]int{"script_tests": st.scriptTests, "tx_valid_inputs": st.txValidInputs,
		"tx_invalid": st.txInvalid, "taproot_ref_success": st.taprootOK, "taproot_ref_failure": st.taprootFail,
		"script_tests_taproot_macro_cases": st.taprootMacro, "skipped_tx_invalid_BADTX": st.skippedBadTx})
	r.Set("t_vectors_s", time.Since(t0).Seconds())

	exhaustive := !skipVec
	only := os.Getenv("C06_LAYERS") // development aid: comma-separated layer names
	// cheap, targeted layers first; the big enumerations last (they are the ones a
	// time box may cut)
	order := map[string]int{"L3": 0, "L4": 1, "L5": 2, "W": 3, "L1": 4, "L2": 5, "L1x": 6, "L2x": 7}
	sort.SliceStable(layers, func(i, j int) bool { return order[layers[i].name] < order[layers[j].name] })
	for _, l := range layers {
		if only != "" && !strings.Contains(","+only+",", ","+l.name+",") {
			exhaustive = false
			continue
		}
		t := time.Now()
		done := l.run(r)
		r.Set("t_"+l.name+"_s", time.Since(t).Seconds())
		if !done {
			exhaustive = false
		}
	}
	if profStop != nil {
		profStop()
	}
	var fsn []string
	for _, fs := range allFlagSets {
		fsn = append(fsn, fs.name+"="+flagString(fs.f))
	}
	r.Set("bounds", map[string]interface{}{
		"flag_sets": fsn,
		"layers":    "see bounds_L1, bounds_L2 (+bounds_L1x, bounds_L2x in thorough), bounds_L3, bounds_L4, bounds_L5, bounds_W; vectors_bound lists the shipped Core vectors replayed first",
		"quick":     "L1 all byte strings len<=2 x 7 placements; L2 full alphabet (132 tokens) len<=2 x 15 stacks, core alphabet (50 tokens) len<=3 x 5 stacks, 4 wrappings; L3/L4/L5/W complete",
		"thorough":  "adds L1 len 3 (reduced flag sets), L2 full alphabet len 3 and core alphabet len 4 (no tapscript wrapping), full multisig products",
	})
	r.Finish(exhaustive)
}

var profStop func()

const slowCap = 2000

var (
	slowMu sync.Mutex
	slowN  = map[string]int{}
)

func slowCount(layer string) int {
	slowMu.Lock()
	defer slowMu.Unlock()
	slowN[layer]++
	return slowN[layer]
}

var cpuBudget time.Duration

// expired reports whether the wall-clock or CPU time box has been hit.
func expired(r *ev.Run) bool {
	if r.Expired() {
		return true
	}
	if cpuBudget > 0 {
		var ru syscall.Rusage
		if syscall.Getrusage(syscall.RUSAGE_SELF, &ru) == nil {
			used := time.Duration(ru.Utime.Nano() + ru.Stime.Nano())
			return used > cpuBudget
		}
	}
	return false
}

type layer struct {
	name string
	run  func(r *ev.Run) bool
}

var layers []layer
