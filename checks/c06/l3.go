package main

import (
	"fmt"
	"strings"
	"sync"

	"github.com/btcsuite/btcd/wire/v2"

	"verif/engine/ev"
	"verif/ref/refscript"
)

func init() {
	layers = append(layers, layer{"L3", runL3})
}

func tapTweak(internal, root []byte) [32]byte { return refscript.TapTweakScalar(internal, root) }

// sigEnv is the spending transaction used by the signature layers: two inputs,
// nOut outputs, the input under test is index 1.
type sigEnv struct {
	tx   *wire.MsgTx
	idx  int
	prev []*wire.TxOut
}

func newSigEnv(nOut int) *sigEnv {
	tx := wire.NewMsgTx(2)
	h0 := fixedPrevHash
	h1 := fixedPrevHash
	h1[31] ^= 0x55
	tx.AddTxIn(&wire.TxIn{PreviousOutPoint: wire.OutPoint{Hash: h0, Index: 3}, Sequence: 0xfffffffe})
	tx.AddTxIn(&wire.TxIn{PreviousOutPoint: wire.OutPoint{Hash: h1, Index: 1}, Sequence: 0xfffffffd})
	for i := 0; i < nOut; i++ {
		tx.AddTxOut(&wire.TxOut{Value: int64(10000 * (i + 1)), PkScript: []byte{refscript.OP_1 + byte(i)}})
	}
	tx.LockTime = 7
	return &sigEnv{tx: tx, idx: 1, prev: []*wire.TxOut{{Value: 50000, PkScript: []byte{refscript.OP_1}}, {Value: 70000}}}
}

func (e *sigEnv) spend(pk, sig []byte, wit [][]byte) *Spend {
	tx := e.tx.Copy()
	tx.TxIn[e.idx].SignatureScript = sig
	tx.TxIn[e.idx].Witness = wit
	prev := []*wire.TxOut{e.prev[0], {Value: e.prev[1].Value, PkScript: pk}}
	return &Spend{Tx: tx, Idx: e.idx, PrevOuts: prev}
}

type sigVer int

const (
	svLegacy sigVer = iota
	svV0
)

func (e *sigEnv) digest(sv sigVer, scriptCode []byte, ht byte) [32]byte {
	if sv == svV0 {
		return refscript.WitnessV0SigHash(scriptCode, e.tx, e.idx, uint32(ht), e.prev[1].Value)
	}
	return refscript.LegacySigHash(scriptCode, e.tx, e.idx, uint32(ht))
}

// wrapping of an inner script + stack items into (pkScript, scriptSig, witness)
type wrapKind struct {
	name string
	sv   sigVer
}

var (
	wkBare      = wrapKind{"bare", svLegacy}
	wkP2SH      = wrapKind{"p2sh", svLegacy}
	wkP2WSH     = wrapKind{"p2wsh", svV0}
	wkP2SHP2WSH = wrapKind{"p2sh-p2wsh", svV0}
	ecdsaWraps  = []wrapKind{wkBare, wkP2SH, wkP2WSH, wkP2SHP2WSH}
)

func pushItems(items [][]byte) []byte {
	var out []byte
	for _, it := range items {
		out = append(out, pushMinimal(it)...)
	}
	return out
}

func wrap(k wrapKind, script []byte, items [][]byte) (pk, sig []byte, wit [][]byte) {
	switch k.name {
	case "bare":
		return script, pushItems(items), nil
	case "p2sh":
		return p2shScript(script), cat(pushItems(items), push(script)), nil
	case "p2wsh":
		return p2wshScript(script), nil, append(append([][]byte{}, items...), script)
	case "p2sh-p2wsh":
		inner := p2wshScript(script)
		return p2shScript(inner), push(inner), append(append([][]byte{}, items...), script)
	}
	panic("wrap")
}

type l3job struct {
	group string
	desc  string
	sp    *Spend
	sets  []flagSet
}

// l3Collector gathers jobs and runs them in parallel.
type l3Collector struct {
	jobs []l3job
}

func (c *l3Collector) add(group, desc string, sp *Spend, sets []flagSet) {
	c.jobs = append(c.jobs, l3job{group, desc, sp, sets})
}

// canonical examples: run first and sequentially so that the replay recorded for each
// labelled deviation is the same, most telling case on every run.
var canonicalCases = []struct{ group, desc, fs string }{
	{"L3/multisig-fad-empty/bare", "0 DROP 3 kA kB kC 3 CHECKMULTISIG NOT sigs=[empty non-DER sigC] sigC signed over script-with-OP_0-removed", "taproot"},
	{"L3/ecdsa/bare", "CHECKSIG key=compressed sig=longform-seqlen outs=2", "none"},
	{"L3/multisig/bare", "1-of-1 CHECKMULTISIG NOT keys=key0=hybrid sigs=[empty] dummy=empty", "standard"},
	{"L3/ecdsa/bare", "CHECKSIG NOT key=02+x-not-on-curve sig=valid outs=2", "standard"},
	{"L3/tapscript-checksig", "CHECKSIG NOT key=33-byte-compressed(unknown type) sig=empty annex=0", "standard"},
	{"L3/multisig/bare", "2-of-2 CHECKMULTISIG NOT keys=key0=empty sigs=[empty empty] dummy=empty", "standard"},
	{"L3/multisig/bare", "1-of-1 CHECKMULTISIG NOT keys=key0=empty sigs=[empty] dummy=empty", "standard"},
}

func (c *l3Collector) run(r *ev.Run) map[string]int64 {
	counts := map[string]int64{}
	var mu sync.Mutex
	for _, cc := range canonicalCases {
		for _, j := range c.jobs {
			if j.group != cc.group || j.desc != cc.desc {
				continue
			}
			for _, fs := range j.sets {
				if fs.name == cc.fs {
					s := *j.sp
					s.Flags = fs.f
					compare(r, j.group+"/"+fs.name, j.desc, &s, fs.policy)
				}
			}
		}
	}
	ev.Par(len(c.jobs), workers(), func(i int) {
		j := c.jobs[i]
		key := append([]byte(j.group+"|"), j.sp.PrevOuts[j.sp.Idx].PkScript...)
		key = append(key, '|')
		key = append(key, j.sp.Tx.TxIn[j.sp.Idx].SignatureScript...)
		for _, w := range j.sp.Tx.TxIn[j.sp.Idx].Witness {
			key = append(key, '|')
			key = append(key, w...)
		}
		r.NontrivialBytes(key)
		if i%997 == 0 && r.WantSample() {
			r.Sample(map[string]string{"layer": j.group, "case": j.desc, "pkScript": disasm(j.sp.PrevOuts[j.sp.Idx].PkScript), "scriptSig": disasm(j.sp.Tx.TxIn[j.sp.Idx].SignatureScript)})
		}
		acc := int64(0)
		for _, fs := range j.sets {
			s := *j.sp
			s.Flags = fs.f
			if compare(r, j.group+"/"+fs.name, j.desc, &s, fs.policy) {
				acc++
			}
		}
		mu.Lock()
		counts[j.group] += int64(len(j.sets))
		counts["accepted:"+j.group] += acc
		mu.Unlock()
	})
	return counts
}

func runL3(r *ev.Run) bool {
	c := &l3Collector{}
	l3SingleSig(c)
	l3CodeSep(c)
	l3Multisig(c, r.Thorough())
	l3Taproot(c)
	counts := c.run(r)
	addCounts(r, counts)
	r.Set("bounds_L3", map[string]interface{}{
		"keys":               "4 fixed keys (sha256 of fixed strings)",
		"key_shapes":         []string{"compressed", "uncompressed", "hybrid", "hybrid-wrong-parity", "prefix05-33bytes", "xonly-32bytes", "empty", "02+x-not-on-curve", "04-not-on-curve", "compressed+extra-byte"},
		"ecdsa_sig_shapes":   "valid, highS, padR, padS, nopad(negative) R/S, long-form lengths, seqlen+-1, trailing bytes, bad tags, zero-length ints, r=0, s=0, s=n, truncated, >73 bytes, only-hashtype, empty, no-hashtype, two hashtype bytes, wrong key, wrong digest",
		"hash_types":         hashTypeClasses,
		"wrappings":          []string{"bare", "p2sh", "p2wsh", "p2sh-p2wsh", "p2pkh", "p2wpkh", "p2sh-p2wpkh", "taproot key path", "tapscript"},
		"multisig_hashtypes": "2-of-2 and 2-of-3 with every pair of signing keys x per-signature hash types {01,02,03,81,83} squared x bare/P2SH/P2WSH/P2SH-P2WSH (input index 1 of a 2-in 2-out transaction); 2-of-3 with an unparseable key at each position x the same hash-type square",
		"multisig":           "m-of-n for n<=3 with every per-slot signature choice x per-key shape (one key varied at a time) x dummy {empty,00,01}; n=20/21",
		"flag_sets":          len(allFlagSets),
		"tx":                 "2 inputs (index 1 tested), 2 outputs (and 1 output for SIGHASH_SINGLE out-of-range), version 2",
		"schnorr_sig_shapes": "64-byte, 65-byte with each hash type, 65 with 0x00 suffix, 63/66 bytes, empty, wrong key, wrong digest, bit flip",
	})
	return true
}

// ---------------- single-signature ECDSA ----------------

type sigForm struct {
	name string
	tail []byte // ops after <key>
}

var sigForms = []sigForm{
	{"CHECKSIG", []byte{refscript.OP_CHECKSIG}},
	{"CHECKSIG NOT", []byte{refscript.OP_CHECKSIG, refscript.OP_NOT}},
	{"CHECKSIGVERIFY 1", []byte{refscript.OP_CHECKSIGVERIFY, refscript.OP_1}},
}

func l3SingleSig(c *l3Collector) {
	for _, nOut := range []int{2, 1} {
		env := newSigEnv(nOut)
		for _, wk := range ecdsaWraps {
			for _, form := range sigForms {
				for _, ks := range keyShapes(keyA) {
					if nOut == 1 && ks.name != "compressed" {
						continue
					}
					script := cat(push(ks.b), form.tail)
					base := signECDSA(keyA, env.digest(wk.sv, script, 0x01))
					var shapes []sigShape
					if nOut == 2 {
						shapes = ecdsaShapes(base, 0x01)
						other := signECDSA(keyB, env.digest(wk.sv, script, 0x01))
						shapes = append(shapes, sigShape{"wrong-key", append(other.der(), 0x01)})
						d := env.digest(wk.sv, script, 0x01)
						d[0] ^= 1
						wd := signECDSA(keyA, d)
						shapes = append(shapes, sigShape{"wrong-digest", append(wd.der(), 0x01)})
					}
					for _, ht := range hashTypeClasses {
						if nOut == 1 && ht&0x1f != 0x03 {
							continue // 1-output tx only matters for SIGHASH_SINGLE out of range
						}
						if ht == 0x01 && nOut == 2 {
							continue
						}
						x := signECDSA(keyA, env.digest(wk.sv, script, ht))
						shapes = append(shapes, sigShape{fmt.Sprintf("valid-ht%02x", ht), append(x.der(), ht)})
						shapes = append(shapes, sigShape{fmt.Sprintf("highS-ht%02x", ht), append(x.highS().der(), ht)})
					}
					for _, sh := range shapes {
						pk, sig, wit := wrap(wk, script, [][]byte{sh.b})
						c.add("L3/ecdsa/"+wk.name, fmt.Sprintf("%s key=%s sig=%s outs=%d", form.name, ks.name, sh.name, nOut),
							env.spend(pk, sig, wit), allFlagSets)
					}
				}
			}
		}
		// P2PKH / P2WPKH / P2SH-P2WPKH
		for _, ks := range keyShapes(keyA) {
			if nOut == 1 {
				break
			}
			h := refscript.Hash160(ks.b)
			p2pkh := cat([]byte{refscript.OP_DUP, refscript.OP_HASH160, 20}, h, []byte{refscript.OP_EQUALVERIFY, refscript.OP_CHECKSIG})
			type ctx struct {
				name string
				sv   sigVer
			}
			for _, cx := range []ctx{{"p2pkh", svLegacy}, {"p2wpkh", svV0}, {"p2sh-p2wpkh", svV0}} {
				base := signECDSA(keyA, env.digest(cx.sv, p2pkh, 0x01))
				shapes := ecdsaShapes(base, 0x01)
				for _, ht := range hashTypeClasses[1:] {
					x := signECDSA(keyA, env.digest(cx.sv, p2pkh, ht))
					shapes = append(shapes, sigShape{fmt.Sprintf("valid-ht%02x", ht), append(x.der(), ht)})
				}
				for _, sh := range shapes {
					var pk, sig []byte
					var wit [][]byte
					switch cx.name {
					case "p2pkh":
						pk, sig = p2pkh, cat(pushMinimal(sh.b), pushMinimal(ks.b))
					case "p2wpkh":
						pk, wit = cat([]byte{0, 20}, h), [][]byte{sh.b, ks.b}
					case "p2sh-p2wpkh":
						inner := cat([]byte{0, 20}, h)
						pk, sig, wit = p2shScript(inner), push(inner), [][]byte{sh.b, ks.b}
					}
					c.add("L3/ecdsa/"+cx.name, fmt.Sprintf("key=%s sig=%s", ks.name, sh.name), env.spend(pk, sig, wit), allFlagSets)
					if cx.name != "p2pkh" {
						// wrong witness item counts
						c.add("L3/ecdsa/"+cx.name, "witness 1 item", env.spend(pk, sig, [][]byte{sh.b}), smallFlagSets)
						c.add("L3/ecdsa/"+cx.name, "witness 3 items", env.spend(pk, sig, [][]byte{{}, sh.b, ks.b}), smallFlagSets)
					}
				}
			}
		}
	}
}

// ---------------- CODESEPARATOR / FindAndDelete ----------------

func l3CodeSep(c *l3Collector) {
	env := newSigEnv(2)
	K := push(keyA.comp)
	CS := []byte{refscript.OP_CODESEPARATOR}
	CHK := []byte{refscript.OP_CHECKSIG}
	type variant struct {
		name   string
		script []byte
		// candidate script codes a (possibly wrong) implementation might sign over
		codes map[string][]byte
		// which candidate is correct for legacy / v0 ("" = none can be valid)
		legacy, v0 string
		// the signature is consumed by a 1-of-1 CHECKMULTISIG (dummy element first)
		multi bool
	}
	strip := func(s []byte) []byte { // remove all CODESEPARATOR opcodes (scripts here have no pushes containing 0xab)
		var o []byte
		pc := 0
		for pc < len(s) {
			op, _, n, _ := refscript.GetOp(s, pc)
			if op != refscript.OP_CODESEPARATOR {
				o = append(o, s[pc:n]...)
			}
			pc = n
		}
		return o
	}
	mk := func(name string, script []byte, afterLast int) variant {
		v := variant{name: name, script: script, codes: map[string][]byte{}}
		v.codes["whole"] = script
		v.codes["whole-stripped"] = strip(script)
		v.codes["after-last"] = script[afterLast:]
		v.codes["after-last-stripped"] = strip(script[afterLast:])
		v.legacy, v.v0 = "after-last-stripped", "after-last"
		return v
	}
	s1 := cat(CS, K, CHK)
	s2 := cat(K, CS, CHK)
	s3 := cat(K, CHK, CS)
	s4 := cat([]byte{0, refscript.OP_IF}, CS, []byte{refscript.OP_ENDIF}, K, CHK)
	s5 := cat(CS, K, CS, CHK, CS)
	s6 := cat([]byte{refscript.OP_1, refscript.OP_IF}, CS, []byte{refscript.OP_ENDIF}, K, CHK, CS)
	vars := []variant{
		mk("CS K CHK", s1, 1),
		mk("K CS CHK", s2, len(K)+1),
		mk("K CHK CS", s3, 0),
		mk("0 IF CS ENDIF K CHK (unexecuted)", s4, 0),
		mk("CS K CS CHK CS", s5, len(K)+2),
		mk("1 IF CS ENDIF K CHK CS (executed in branch)", s6, 3),
	}
	// the same positions in front of / inside / behind a 1-of-1 CHECKMULTISIG
	{
		one := []byte{refscript.OP_1}
		CMS := []byte{refscript.OP_CHECKMULTISIG}
		mm := func(name string, script []byte, afterLast int) {
			v := mk(name, script, afterLast)
			v.multi = true
			vars = append(vars, v)
		}
		mm("CS 1 K 1 CMS", cat(CS, one, K, one, CMS), 1)
		mm("1 CS K 1 CMS", cat(one, CS, K, one, CMS), 2)
		mm("1 K CS 1 CMS", cat(one, K, CS, one, CMS), 1+len(K)+1)
		mm("1 K 1 CMS CS", cat(one, K, one, CMS, CS), 0)
		mm("1 IF CS ENDIF 1 K 1 CMS (executed in branch)", cat([]byte{refscript.OP_1, refscript.OP_IF}, CS, []byte{refscript.OP_ENDIF}, one, K, one, CMS), 3)
		mm("CS 1 K CS 1 CMS CS", cat(CS, one, K, CS, one, CMS, CS), 1+1+len(K)+1)
	}
	for _, v := range vars {
		for _, wk := range ecdsaWraps {
			for _, not := range []bool{false, true} {
				script := v.script
				if not {
					script = cat(v.script, []byte{refscript.OP_NOT})
				}
				for _, cname := range sortedKeys(v.codes) {
					code := v.codes[cname]
					if not {
						// the appended NOT is part of every candidate code
						code = cat(code, []byte{refscript.OP_NOT})
					}
					x := signECDSA(keyA, env.digest(wk.sv, code, 0x01))
					items := [][]byte{append(x.der(), 0x01)}
					if v.multi {
						items = [][]byte{{}, items[0]}
					}
					pk, sig, wit := wrap(wk, script, items)
					c.add("L3/codesep/"+wk.name, fmt.Sprintf("%s not=%v signed-over=%s", v.name, not, cname), env.spend(pk, sig, wit), allFlagSets)
				}
			}
		}
	}
	// CODESEPARATOR inside scriptSig must not influence the pkScript's script code
	{
		script := cat(K, CHK)
		x := signECDSA(keyA, env.digest(svLegacy, script, 0x01))
		c.add("L3/codesep/bare", "CODESEPARATOR in scriptSig", env.spend(script, cat(CS, push(append(x.der(), 1))), nil), allFlagSets)
		c.add("L3/codesep/bare", "CODESEPARATOR after sig in scriptSig", env.spend(script, cat(push(append(x.der(), 1)), CS), nil), allFlagSets)
	}
	// FindAndDelete: signature pushed inside the script code
	for _, wk := range ecdsaWraps {
		for _, not := range []bool{false, true} {
			tail := cat([]byte{refscript.OP_DROP}, K, CHK)
			if not {
				tail = append(tail, refscript.OP_NOT)
			}
			// digest as if every push of the signature were deleted
			x := signECDSA(keyA, env.digest(wk.sv, tail, 0x01))
			sigb := append(x.der(), 0x01)
			forms := map[string][]byte{
				"canonical-push":  push(sigb),
				"PUSHDATA1-push":  cat([]byte{0x4c, byte(len(sigb))}, sigb),
				"PUSHDATA2-push":  cat([]byte{0x4d, byte(len(sigb)), 0}, sigb),
				"push-twice":      cat(push(sigb), []byte{refscript.OP_DROP}, push(sigb)),
				"inside-big-push": push(cat([]byte{0xaa}, push(sigb))), // sig push bytes inside another push's data
			}
			for _, fname := range sortedKeys(forms) {
				f := forms[fname]
				script := cat(f, tail)
				pk, sig, wit := wrap(wk, script, [][]byte{sigb})
				c.add("L3/findanddelete/"+wk.name, fmt.Sprintf("sig in script as %s, signed as-if-deleted, not=%v", fname, not), env.spend(pk, sig, wit), allFlagSets)
				// and signed over the script as it stands (cannot be valid where deletion applies; valid nowhere
				// because the script contains the signature itself - except when nothing is deleted AND ... never)
			}
		}
	}
}

// ---------------- CHECKMULTISIG ----------------

func l3Multisig(c *l3Collector, thorough bool) {
	env := newSigEnv(2)
	keys := []tkey{keyA, keyB, keyC}
	type mn struct{ m, n int }
	dummies := []struct {
		name string
		b    []byte
	}{{"empty", []byte{}}, {"00", []byte{0}}, {"01", []byte{1}}}
	tails := []struct {
		name string
		b    []byte
	}{{"CHECKMULTISIG", []byte{refscript.OP_CHECKMULTISIG}},
		{"CHECKMULTISIG NOT", []byte{refscript.OP_CHECKMULTISIG, refscript.OP_NOT}},
		{"CHECKMULTISIGVERIFY 1", []byte{refscript.OP_CHECKMULTISIGVERIFY, refscript.OP_1}}}
	wraps := []wrapKind{wkBare, wkP2SH, wkP2WSH}
	for _, p := range []mn{{0, 0}, {0, 1}, {1, 1}, {1, 2}, {2, 2}, {1, 3}, {2, 3}, {3, 3}} {
		// key-shape vectors: all compressed, then one position varied through the other shapes
		type kv struct {
			name string
			enc  [][]byte
		}
		var kvs []kv
		allc := make([][]byte, p.n)
		for i := range allc {
			allc[i] = keys[i].comp
		}
		kvs = append(kvs, kv{"all-compressed", allc})
		for pos := 0; pos < p.n; pos++ {
			for _, ks := range keyShapes(keys[pos])[1:] {
				if p.n == 3 && !thorough && ks.name != "uncompressed" && ks.name != "hybrid" && ks.name != "02+x-not-on-curve" && ks.name != "empty" {
					continue
				}
				e := append([][]byte{}, allc...)
				e[pos] = ks.b
				kvs = append(kvs, kv{fmt.Sprintf("key%d=%s", pos, ks.name), e})
			}
		}
		for _, wk := range wraps {
			for _, tl := range tails {
				if tl.name == "CHECKMULTISIGVERIFY 1" && p.n == 3 && !thorough {
					continue
				}
				for _, k := range kvs {
					script := []byte{byte(refscript.OP_1 - 1 + p.m)}
					if p.m == 0 {
						script = []byte{0}
					}
					for _, e := range k.enc {
						script = append(script, push(e)...)
					}
					if p.n == 0 {
						script = append(script, 0)
					} else {
						script = append(script, byte(refscript.OP_1-1+p.n))
					}
					script = append(script, tl.b...)
					// per-slot signature choices
					// 0..n-1: valid sig by key i ; n: empty ; n+1: garbage (non-DER) ; n+2: high-S by key slot-index
					digest := env.digest(wk.sv, script, 0x01)
					valid := make([][]byte, p.n)
					for i := 0; i < p.n; i++ {
						valid[i] = append(signECDSA(keys[i], digest).der(), 0x01)
					}
					nChoices := p.n + 3
					if p.n == 3 && !thorough {
						nChoices = p.n + 2 // quick: no high-S slot choice for 3 keys
					}
					total := 1
					for i := 0; i < p.m; i++ {
						total *= nChoices
					}
					for code := 0; code < total; code++ {
						sigs := make([][]byte, p.m)
						var names []string
						cc := code
						for s := 0; s < p.m; s++ {
							ch := cc % nChoices
							cc /= nChoices
							switch {
							case ch < p.n:
								sigs[s] = valid[ch]
								names = append(names, fmt.Sprintf("k%d", ch))
							case ch == p.n:
								sigs[s] = []byte{}
								names = append(names, "empty")
							case ch == p.n+1:
								sigs[s] = []byte{0x30, 0x01, 0x02, 0x01}
								names = append(names, "garbage")
							default:
								ki := s
								if ki >= p.n {
									ki = p.n - 1
								}
								sigs[s] = append(signECDSA(keys[ki], digest).highS().der(), 0x01)
								names = append(names, fmt.Sprintf("highS-k%d", ki))
							}
						}
						for _, d := range dummies {
							if d.name != "empty" && code%7 != 0 && !thorough && p.n == 3 {
								continue // quick: non-empty dummies on a 1/7 sub-lattice of the 3-key sig choices
							}
							items := append([][]byte{d.b}, sigs...)
							pk, sig, wit := wrap(wk, script, items)
							c.add("L3/multisig/"+wk.name, fmt.Sprintf("%d-of-%d %s keys=%s sigs=%v dummy=%s", p.m, p.n, tl.name, k.name, names, d.name),
								env.spend(pk, sig, wit), coreFlagSets)
						}
					}
				}
			}
		}
	}
	// n = 20 / 21 (bare and P2WSH only: the script exceeds 520 bytes)
	for _, n := range []int{20, 21} {
		for _, wk := range []wrapKind{wkBare, wkP2WSH} {
			for _, m := range []int{0, 1, 2} {
				script := []byte{byte(refscript.OP_1 - 1 + m)}
				if m == 0 {
					script = []byte{0}
				}
				ks := make([]tkey, n)
				for i := range ks {
					ks[i] = mkKey(fmt.Sprintf("C06 multisig key %d", i))
					script = append(script, push(ks[i].comp)...)
				}
				script = append(script, pushMinimal(refscript.EncodeNum(int64(n)))...)
				script = append(script, refscript.OP_CHECKMULTISIG)
				digest := env.digest(wk.sv, script, 0x01)
				pick := [][]int{{}, {0}, {n - 1}, {0, n - 1}, {n - 1, 0}, {5, 6}}
				for _, pk := range pick {
					if len(pk) != m {
						continue
					}
					var sigs [][]byte
					for _, i := range pk {
						sigs = append(sigs, append(signECDSA(ks[i], digest).der(), 0x01))
					}
					for _, d := range dummies {
						items := append([][]byte{d.b}, sigs...)
						p, s, w := wrap(wk, script, items)
						c.add("L3/multisig/"+wk.name, fmt.Sprintf("%d-of-%d sigs by keys %v dummy=%s", m, n, pk, d.name), env.spend(p, s, w), allFlagSets)
					}
				}
			}
		}
	}
	// FindAndDelete with an empty signature: Core's pattern is "CScript() << <empty>" = OP_0, so
	// every OP_0 opcode disappears from the script code the OTHER signatures sign.
	for _, wk := range []wrapKind{wkBare, wkP2SH, wkP2WSH} {
		for _, form := range []struct {
			name   string
			script []byte
		}{
			{"3 <OP_0 as key> kB kC 3 CHECKMULTISIG NOT", cat([]byte{0x53, 0x00}, push(keyB.comp), push(keyC.comp), []byte{0x53, refscript.OP_CHECKMULTISIG, refscript.OP_NOT})},
			{"0 DROP 3 kA kB kC 3 CHECKMULTISIG NOT", cat([]byte{0x00, refscript.OP_DROP, 0x53}, push(keyA.comp), push(keyB.comp), push(keyC.comp), []byte{0x53, refscript.OP_CHECKMULTISIG, refscript.OP_NOT})},
			{"3 kA kB kC 3 CHECKMULTISIG NOT 0 NOT BOOLAND", cat([]byte{0x53}, push(keyA.comp), push(keyB.comp), push(keyC.comp), []byte{0x53, refscript.OP_CHECKMULTISIG, refscript.OP_NOT, 0x00, refscript.OP_NOT, refscript.OP_BOOLAND})},
		} {
			stripped, _ := refscript.FindAndDelete(form.script, []byte{0x00})
			codes := map[string][]byte{"script-as-is": form.script, "script-with-OP_0-removed": stripped}
			for _, dn := range sortedKeys(codes) {
				code := codes[dn]
				sigC := append(signECDSA(keyC, env.digest(wk.sv, code, 0x01)).der(), 0x01)
				gs := map[string][]byte{"non-DER": {0x30, 0x01, 0x02, 0x01}, "valid-DER-wrong": append(signECDSA(keyD, env.digest(wk.sv, code, 0x01)).der(), 0x01)}
				for _, gn := range sortedKeys(gs) {
					g := gs[gn]
					items := [][]byte{{}, {}, g, sigC}
					p, sg, w := wrap(wk, form.script, items)
					c.add("L3/multisig-fad-empty/"+wk.name, fmt.Sprintf("%s sigs=[empty %s sigC] sigC signed over %s", form.name, gn, dn), env.spend(p, sg, w), allFlagSets)
				}
			}
		}
	}
	// per-signature hash types inside one CHECKMULTISIG: every signature is
	// checked against its own digest of the *unchanged* transaction, whatever
	// digest shape the signature checked before it used (SINGLE blanks the
	// outputs before the input's index in its scratch copy, NONE drops them,
	// ANYONECANPAY drops the other inputs).  Signatures are verified last first.
	{
		mixed := []byte{0x01, 0x02, 0x03, 0x81, 0x83}
		for _, wk := range []wrapKind{wkBare, wkP2SH, wkP2WSH, wkP2SHP2WSH} {
			for _, n := range []int{2, 3} {
				script := []byte{0x52}
				for i := 0; i < n; i++ {
					script = append(script, push(keys[i].comp)...)
				}
				script = append(script, byte(refscript.OP_1-1+n), refscript.OP_CHECKMULTISIG)
				for _, pair := range [][2]int{{0, 1}, {0, 2}, {1, 2}} {
					if pair[1] >= n {
						continue
					}
					for _, ha := range mixed {
						for _, hb := range mixed {
							sa := append(signECDSA(keys[pair[0]], env.digest(wk.sv, script, ha)).der(), ha)
							sb := append(signECDSA(keys[pair[1]], env.digest(wk.sv, script, hb)).der(), hb)
							pk, sig, wit := wrap(wk, script, [][]byte{{}, sa, sb})
							c.add("L3/multisig-hashtypes/"+wk.name, fmt.Sprintf("2-of-%d sigs by keys %v hash types [%02x %02x]", n, pair, ha, hb),
								env.spend(pk, sig, wit), allFlagSets)
						}
					}
				}
			}
		}
	}
	// the same with an unparseable public key at each of the three positions of a
	// 2-of-3: attempts that bail out on the key (no STRICTENC) lie between
	// attempts that use different hash types
	{
		mixed := []byte{0x01, 0x02, 0x03, 0x81, 0x83}
		junk := append([]byte{0x05}, keys[2].comp[1:]...)
		for _, wk := range []wrapKind{wkBare, wkP2SH, wkP2WSH} {
			for pos := 0; pos < 3; pos++ {
				script := []byte{0x52}
				real := 0
				for i := 0; i < 3; i++ {
					if i == pos {
						script = append(script, push(junk)...)
						continue
					}
					script = append(script, push(keys[real].comp)...)
					real++
				}
				script = append(script, 0x53, refscript.OP_CHECKMULTISIG)
				for _, ha := range mixed {
					for _, hb := range mixed {
						sa := append(signECDSA(keys[0], env.digest(wk.sv, script, ha)).der(), ha)
						sb := append(signECDSA(keys[1], env.digest(wk.sv, script, hb)).der(), hb)
						pk, sig, wit := wrap(wk, script, [][]byte{{}, sa, sb})
						c.add("L3/multisig-hashtypes/"+wk.name, fmt.Sprintf("2-of-3 with an unparseable key at position %d, hash types [%02x %02x]", pos, ha, hb),
							env.spend(pk, sig, wit), allFlagSets)
					}
				}
			}
		}
	}
	// sig count / key count encodings: negative, non-minimal, > n
	for _, wk := range []wrapKind{wkBare, wkP2WSH} {
		K := push(keyA.comp)
		cnt := map[string][]byte{
			"m=2 n=1":               cat([]byte{0x52}, K, []byte{0x51, refscript.OP_CHECKMULTISIG}),
			"m=-1 n=1":              cat([]byte{0x4f}, K, []byte{0x51, refscript.OP_CHECKMULTISIG}),
			"n=-1":                  cat([]byte{0x00, 0x4f, refscript.OP_CHECKMULTISIG}),
			"n non-minimal (01 01)": cat([]byte{0x00}, K, []byte{0x01, 0x01, refscript.OP_CHECKMULTISIG}),
			"m non-minimal (01 00)": cat([]byte{0x01, 0x00}, K, []byte{0x51, refscript.OP_CHECKMULTISIG}),
			"n 5-byte":              cat([]byte{0x00}, K, []byte{0x05, 1, 0, 0, 0, 0, refscript.OP_CHECKMULTISIG}),
			"missing dummy":         cat([]byte{0x00, 0x00, refscript.OP_CHECKMULTISIG}),
		}
		for _, name := range sortedKeys(cnt) {
			script := cnt[name]
			items := [][]byte{{}}
			if name == "missing dummy" {
				items = nil
			}
			p, s, w := wrap(wk, script, items)
			c.add("L3/multisig/"+wk.name, name, env.spend(p, s, w), allFlagSets)
		}
	}
}

func addCounts(r *ev.Run, counts map[string]int64) {
	for g, n := range counts {
		if strings.HasPrefix(g, "accepted:") {
			r.Add("accepted_"+strings.TrimPrefix(g, "accepted:"), n)
		} else {
			r.Add("runs_"+g, n)
		}
	}
}
