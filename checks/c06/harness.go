package main

import (
	"encoding/hex"
	"fmt"
	"strings"

	"github.com/btcsuite/btcd/chainhash/v2"
	"github.com/btcsuite/btcd/txscript/v2"
	"github.com/btcsuite/btcd/wire/v2"

	"verif/ref/refscript"
)

// flagMap maps btcd's txscript.ScriptFlags to Core's SCRIPT_VERIFY_* (read off
// the flag doc comments in txscript/engine.go).
var flagMap = []struct {
	b    txscript.ScriptFlags
	c    refscript.Flags
	name string
}{
	{txscript.ScriptBip16, refscript.P2SH, "P2SH"},
	{txscript.ScriptStrictMultiSig, refscript.NULLDUMMY, "NULLDUMMY"},
	{txscript.ScriptDiscourageUpgradableNops, refscript.DISCOURAGE_UPGRADABLE_NOPS, "DISCOURAGE_UPGRADABLE_NOPS"},
	{txscript.ScriptVerifyCheckLockTimeVerify, refscript.CHECKLOCKTIMEVERIFY, "CHECKLOCKTIMEVERIFY"},
	{txscript.ScriptVerifyCheckSequenceVerify, refscript.CHECKSEQUENCEVERIFY, "CHECKSEQUENCEVERIFY"},
	{txscript.ScriptVerifyCleanStack, refscript.CLEANSTACK, "CLEANSTACK"},
	{txscript.ScriptVerifyDERSignatures, refscript.DERSIG, "DERSIG"},
	{txscript.ScriptVerifyLowS, refscript.LOW_S, "LOW_S"},
	{txscript.ScriptVerifyMinimalData, refscript.MINIMALDATA, "MINIMALDATA"},
	{txscript.ScriptVerifyNullFail, refscript.NULLFAIL, "NULLFAIL"},
	{txscript.ScriptVerifySigPushOnly, refscript.SIGPUSHONLY, "SIGPUSHONLY"},
	{txscript.ScriptVerifyStrictEncoding, refscript.STRICTENC, "STRICTENC"},
	{txscript.ScriptVerifyWitness, refscript.WITNESS, "WITNESS"},
	{txscript.ScriptVerifyDiscourageUpgradeableWitnessProgram, refscript.DISCOURAGE_UPGRADABLE_WITNESS_PROGRAM, "DISCOURAGE_UPGRADABLE_WITNESS_PROGRAM"},
	{txscript.ScriptVerifyMinimalIf, refscript.MINIMALIF, "MINIMALIF"},
	{txscript.ScriptVerifyWitnessPubKeyType, refscript.WITNESS_PUBKEYTYPE, "WITNESS_PUBKEYTYPE"},
	{txscript.ScriptVerifyTaproot, refscript.TAPROOT, "TAPROOT"},
	{txscript.ScriptVerifyDiscourageUpgradeableTaprootVersion, refscript.DISCOURAGE_UPGRADABLE_TAPROOT_VERSION, "DISCOURAGE_UPGRADABLE_TAPROOT_VERSION"},
	{txscript.ScriptVerifyDiscourageOpSuccess, refscript.DISCOURAGE_OP_SUCCESS, "DISCOURAGE_OP_SUCCESS"},
	{txscript.ScriptVerifyDiscourageUpgradeablePubkeyType, refscript.DISCOURAGE_UPGRADABLE_PUBKEYTYPE, "DISCOURAGE_UPGRADABLE_PUBKEYTYPE"},
	{txscript.ScriptVerifyConstScriptCode, refscript.CONST_SCRIPTCODE, "CONST_SCRIPTCODE"},
}

func toCore(f txscript.ScriptFlags) refscript.Flags {
	var out refscript.Flags
	for _, m := range flagMap {
		if f&m.b != 0 {
			out |= m.c
		}
	}
	return out
}

func fromNames(s string) (txscript.ScriptFlags, error) {
	var out txscript.ScriptFlags
	for _, n := range strings.Split(s, ",") {
		n = strings.TrimSpace(n)
		if n == "" || n == "NONE" {
			continue
		}
		found := false
		for _, m := range flagMap {
			if m.name == n {
				out |= m.b
				found = true
			}
		}
		if !found {
			return 0, fmt.Errorf("unknown flag %q", n)
		}
	}
	return out, nil
}

func flagString(f txscript.ScriptFlags) string {
	var p []string
	for _, m := range flagMap {
		if f&m.b != 0 {
			p = append(p, m.name)
		}
	}
	if len(p) == 0 {
		return "NONE"
	}
	return strings.Join(p, ",")
}

// ---- flag sets ----

type flagSet struct {
	name   string
	f      txscript.ScriptFlags
	policy bool // true: relay policy only (StandardVerifyFlags)
}

// Block-validation flag sets: what blockchain/validate.go checkConnectBlock can
// build from soft-fork history (BIP16 -> BIP66 -> BIP65 -> CSV -> segwit
// [+ScriptStrictMultiSig] -> taproot), plus StandardVerifyFlags (policy).
var (
	fsNone    = flagSet{"none", 0, false}
	fsP2SH    = flagSet{"bip16", txscript.ScriptBip16, false}
	fsDER     = flagSet{"bip16+dersig", fsP2SH.f | txscript.ScriptVerifyDERSignatures, false}
	fsCLTV    = flagSet{"bip16+dersig+cltv", fsDER.f | txscript.ScriptVerifyCheckLockTimeVerify, false}
	fsCSV     = flagSet{"bip16+dersig+cltv+csv", fsCLTV.f | txscript.ScriptVerifyCheckSequenceVerify, false}
	fsSegwit  = flagSet{"segwit", fsCSV.f | txscript.ScriptVerifyWitness | txscript.ScriptStrictMultiSig, false}
	fsTaproot = flagSet{"taproot", fsSegwit.f | txscript.ScriptVerifyTaproot, false}
	// (version-gated variants without DERSIG/CLTV but with WITNESS are unreachable: blocks
	// with header version < 3 / < 4 are rejected once BIP66 / BIP65 are active.)
	fsStd = flagSet{"standard", txscript.StandardVerifyFlags, true}

	allFlagSets   = []flagSet{fsNone, fsP2SH, fsDER, fsCLTV, fsCSV, fsSegwit, fsTaproot, fsStd}
	coreFlagSets  = []flagSet{fsNone, fsP2SH, fsDER, fsCLTV, fsCSV, fsSegwit, fsTaproot, fsStd}
	smallFlagSets = []flagSet{fsNone, fsSegwit, fsTaproot, fsStd}
)

// ---- one spend ----

// Spend is one complete case: everything NewEngine needs.
type Spend struct {
	Tx       *wire.MsgTx
	Idx      int
	PrevOuts []*wire.TxOut // one per input
	Flags    txscript.ScriptFlags
}

// ReplaySpend is the JSON form.
type ReplaySpend struct {
	Layer    string   `json:"layer"`
	Desc     string   `json:"desc,omitempty"`
	TxHex    string   `json:"tx_hex"`
	Idx      int      `json:"idx"`
	PrevOuts []string `json:"prevouts_hex"` // value(8 LE) || varint || script
	Flags    string   `json:"flags"`
	FlagBits uint32   `json:"flag_bits"`
}

func (s *Spend) toReplay(layer, desc string) ReplaySpend {
	var sb strings.Builder
	s.Tx.Serialize(&sb)
	rp := ReplaySpend{Layer: layer, Desc: desc, TxHex: hex.EncodeToString([]byte(sb.String())), Idx: s.Idx,
		Flags: flagString(s.Flags), FlagBits: uint32(s.Flags)}
	for _, po := range s.PrevOuts {
		var w strings.Builder
		wire.WriteTxOut(&w, 0, 0, po)
		rp.PrevOuts = append(rp.PrevOuts, hex.EncodeToString([]byte(w.String())))
	}
	return rp
}

func spendFromReplay(rp *ReplaySpend) (*Spend, error) {
	raw, err := hex.DecodeString(rp.TxHex)
	if err != nil {
		return nil, err
	}
	var tx wire.MsgTx
	if err := tx.Deserialize(strings.NewReader(string(raw))); err != nil {
		return nil, err
	}
	s := &Spend{Tx: &tx, Idx: rp.Idx, Flags: txscript.ScriptFlags(rp.FlagBits)}
	for _, h := range rp.PrevOuts {
		b, err := hex.DecodeString(h)
		if err != nil {
			return nil, err
		}
		o, err := parseTxOut(b)
		if err != nil {
			return nil, err
		}
		s.PrevOuts = append(s.PrevOuts, o)
	}
	return s, nil
}

// parseTxOut decodes value(8 LE) || compact-size || script by hand
// (wire.ReadTxOut allocates a multi-megabyte scratch buffer per call).
func parseTxOut(b []byte) (*wire.TxOut, error) {
	if len(b) < 9 {
		return nil, fmt.Errorf("short txout")
	}
	var v uint64
	for i := 0; i < 8; i++ {
		v |= uint64(b[i]) << (8 * uint(i))
	}
	p := 8
	var n uint64
	switch b[p] {
	case 0xfd:
		if len(b) < p+3 {
			return nil, fmt.Errorf("short txout")
		}
		n = uint64(b[p+1]) | uint64(b[p+2])<<8
		p += 3
	case 0xfe, 0xff:
		return nil, fmt.Errorf("oversized script")
	default:
		n = uint64(b[p])
		p++
	}
	if uint64(len(b)-p) != n {
		return nil, fmt.Errorf("txout length mismatch")
	}
	return &wire.TxOut{Value: int64(v), PkScript: append([]byte{}, b[p:]...)}, nil
}

type fetcher struct {
	tx   *wire.MsgTx
	outs []*wire.TxOut
}

func (f *fetcher) FetchPrevOutput(op wire.OutPoint) *wire.TxOut {
	for i, in := range f.tx.TxIn {
		if in.PreviousOutPoint == op {
			return f.outs[i]
		}
	}
	return nil
}

// runBtcd executes the real engine exactly the way blockchain/scriptval.go does.
func runBtcd(s *Spend) (ok bool, errStr string, panicked bool) { return runBtcdWith(s, nil) }

func runBtcdWith(s *Spend, sigCache *txscript.SigCache) (ok bool, errStr string, panicked bool) {
	defer func() {
		if r := recover(); r != nil {
			ok, panicked = false, true
			errStr = fmt.Sprintf("PANIC: %v", r)
		}
	}()
	// every run gets its own copy of the transaction: verification reads the
	// transaction and never writes it (blockchain checks the inputs of one
	// transaction concurrently on the same *wire.MsgTx); a write is reported and
	// cannot leak into the next case or a re-run
	tx := s.Tx.Copy()
	f := &fetcher{tx, s.PrevOuts}
	var hc *txscript.TxSigHashes
	if tx.HasWitness() {
		hc = txscript.NewTxSigHashes(tx, f)
	}
	po := s.PrevOuts[s.Idx]
	before := txFingerprint(tx)
	defer func() {
		if !panicked && txFingerprint(tx) != before {
			ok, panicked = false, true
			errStr = "TRANSACTION MUTATED by script verification (outputs/inputs differ after Execute)"
		}
	}()
	vm, err := txscript.NewEngine(po.PkScript, tx, s.Idx, s.Flags, sigCache, hc, po.Value, f)
	if err != nil {
		return false, err.Error(), false
	}
	if err := vm.Execute(); err != nil {
		return false, err.Error(), false
	}
	return true, "", false
}

// txFingerprint is a cheap structural digest of the fields script verification
// could touch (FNV-1a over counts, values, sequences, script lengths and first
// / last script bytes).
func txFingerprint(tx *wire.MsgTx) uint64 {
	h := uint64(14695981039346656037)
	mix := func(v uint64) { h = (h ^ v) * 1099511628211 }
	sl := func(b []byte) {
		mix(uint64(len(b)))
		if len(b) > 0 {
			mix(uint64(b[0])<<8 | uint64(b[len(b)-1]))
		}
	}
	mix(uint64(uint32(tx.Version)))
	mix(uint64(tx.LockTime))
	mix(uint64(len(tx.TxIn)))
	for _, in := range tx.TxIn {
		mix(uint64(in.Sequence))
		mix(uint64(in.PreviousOutPoint.Index))
		sl(in.SignatureScript)
		mix(uint64(len(in.Witness)))
	}
	mix(uint64(len(tx.TxOut)))
	for _, o := range tx.TxOut {
		mix(uint64(o.Value))
		sl(o.PkScript)
	}
	return h
}

func runRefQuirks(s *Spend, q refscript.Quirks) refscript.Err {
	po := s.PrevOuts[s.Idx]
	in := s.Tx.TxIn[s.Idx]
	c := &refscript.Checker{Tx: s.Tx, Idx: s.Idx, Amount: po.Value, Spent: s.PrevOuts, Quirks: q}
	return refscript.VerifyScript(in.SignatureScript, po.PkScript, in.Witness, toCore(s.Flags), c)
}

func runRef(s *Spend) refscript.Err {
	po := s.PrevOuts[s.Idx]
	in := s.Tx.TxIn[s.Idx]
	c := &refscript.Checker{Tx: s.Tx, Idx: s.Idx, Amount: po.Value, Spent: s.PrevOuts}
	return refscript.VerifyScript(in.SignatureScript, po.PkScript, in.Witness, toCore(s.Flags), c)
}

// crediting/spending pair exactly as Core's script_tests (and btcd's
// createSpendingTx) build it.
func creditSpend(pkScript, sigScript []byte, witness [][]byte, amount int64) (*wire.MsgTx, []*wire.TxOut) {
	credit := wire.NewMsgTx(1)
	credit.AddTxIn(wire.NewTxIn(wire.NewOutPoint(&chainhash.Hash{}, 0xffffffff), []byte{0, 0}, nil))
	credit.AddTxOut(wire.NewTxOut(amount, pkScript))
	h := credit.TxHash()
	sp := wire.NewMsgTx(1)
	sp.AddTxIn(wire.NewTxIn(wire.NewOutPoint(&h, 0), sigScript, witness))
	sp.AddTxOut(wire.NewTxOut(amount, nil))
	return sp, []*wire.TxOut{{Value: amount, PkScript: pkScript}}
}

func disasm(s []byte) string {
	var p []string
	pc := 0
	for pc < len(s) {
		op, data, next, ok := refscript.GetOp(s, pc)
		if !ok {
			p = append(p, "[bad:"+hex.EncodeToString(s[pc:])+"]")
			break
		}
		pc = next
		if op <= refscript.OP_PUSHDATA4 {
			d := hex.EncodeToString(data)
			if len(d) > 24 {
				d = fmt.Sprintf("%s..(%dB)", d[:16], len(data))
			}
			p = append(p, fmt.Sprintf("%02x:<%s>", op, d))
		} else if n, ok := refscript.OpNames[op]; ok {
			p = append(p, strings.TrimPrefix(n, "OP_"))
		} else {
			p = append(p, fmt.Sprintf("0x%02x", op))
		}
	}
	return strings.Join(p, " ")
}
