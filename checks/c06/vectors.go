package main

import (
	"bytes"
	"encoding/hex"
	"encoding/json"
	"fmt"
	"math"
	"os"
	"path/filepath"
	"sort"
	"strconv"
	"strings"
	"time"

	"github.com/btcsuite/btcd/chainhash/v2"
	"github.com/btcsuite/btcd/txscript/v2"
	"github.com/btcsuite/btcd/wire/v2"

	"verif/engine/ev"
	"verif/ref/refscript"
)

// parseShortForm parses Core's test-vector script syntax (own implementation):
// decimal numbers -> minimal number push, 0x.. -> raw bytes, 'str' -> push,
// NAME / OP_NAME -> opcode.
func parseShortForm(s string) ([]byte, error) {
	s = strings.NewReplacer("\n", " ", "\t", " ").Replace(s)
	var out []byte
	for _, tok := range strings.Split(s, " ") {
		if tok == "" {
			continue
		}
		if n, err := strconv.ParseInt(tok, 10, 64); err == nil {
			switch {
			case n == 0:
				out = append(out, refscript.OP_0)
			case n == -1 || (n >= 1 && n <= 16):
				out = append(out, byte(int64(refscript.OP_1)-1+n))
			default:
				out = append(out, refscript.PushData(refscript.EncodeNum(n))...)
			}
			continue
		}
		if strings.HasPrefix(tok, "0x") {
			b, err := hex.DecodeString(tok[2:])
			if err != nil {
				return nil, fmt.Errorf("bad hex %q", tok)
			}
			out = append(out, b...)
			continue
		}
		if len(tok) >= 2 && tok[0] == '\'' && tok[len(tok)-1] == '\'' {
			out = append(out, refscript.PushData([]byte(tok[1:len(tok)-1]))...)
			continue
		}
		name := tok
		if v, ok := refscript.OpByName[name]; ok && !isNumericOpName(name) {
			out = append(out, v)
			continue
		}
		if v, ok := refscript.OpByName["OP_"+name]; ok && !isNumericOpName("OP_"+name) {
			out = append(out, v)
			continue
		}
		// OP_1..OP_16, OP_0 given with explicit prefix
		if v, ok := refscript.OpByName[name]; ok {
			out = append(out, v)
			continue
		}
		return nil, fmt.Errorf("bad token %q", tok)
	}
	return out, nil
}

func isNumericOpName(n string) bool {
	if !strings.HasPrefix(n, "OP_") {
		return false
	}
	_, err := strconv.Atoi(n[3:])
	return err == nil
}

type vecStats struct {
	scriptTests, txValidInputs, txInvalid, taprootOK, taprootFail int
	taprootMacro, skippedBadTx                                    int
}

// bindVectors runs every shipped Core vector through the reference (Broken on
// any disagreement) and through btcd (Violation on disagreement with the
// reference).
func bindVectors(r *ev.Run) vecStats {
	var st vecStats
	dir := vectorDir()
	tStart := time.Now()
	// ---- script_tests.json
	var tests [][]interface{}
	nameMismatch := 0
	mustJSON(r, filepath.Join(dir, "script_tests.json"), &tests)
	for i, t := range tests {
		if len(t) == 1 {
			continue
		}
		off := 0
		var witness [][]byte
		var amount int64
		tapOutput := ""
		if w, ok := t[0].([]interface{}); ok {
			off = 1
			// Core's script_tests.cpp macros: "#SCRIPT# <asm>" is the tapscript leaf,
			// "#CONTROLBLOCK#" its control block under the BIP341 NUMS internal key,
			// "#TAPROOTOUTPUT#" (in scriptPubKey) the resulting output key.
			var leaf []byte
			for _, e := range w[:len(w)-1] {
				es := e.(string)
				if strings.HasPrefix(es, "#SCRIPT#") {
					sc, err := parseShortForm(strings.TrimPrefix(es, "#SCRIPT#"))
					if err != nil {
						r.Broken("script_tests #%d: bad #SCRIPT#: %v", i, err)
					}
					leaf = sc
				}
			}
			var control []byte
			if leaf != nil {
				internal, _ := hex.DecodeString("50929b74c1a04954b78b4b6035e97a5e078a5a0f28ec96d547bfee9ace803ac0")
				lh := refscript.TapLeafHash(0xc0, leaf)
				outKey, odd, ok := refscript.TaprootTweak(internal, lh[:])
				if !ok {
					r.Broken("script_tests #%d: cannot tweak", i)
				}
				control = []byte{0xc0}
				if odd {
					control[0] |= 1
				}
				control = append(control, internal...)
				tapOutput = "0x" + hex.EncodeToString(outKey[:])
			}
			for _, e := range w[:len(w)-1] {
				es := e.(string)
				switch {
				case strings.HasPrefix(es, "#SCRIPT#"):
					witness = append(witness, leaf)
				case es == "#CONTROLBLOCK#":
					witness = append(witness, control)
				default:
					b, err := hex.DecodeString(es)
					if err != nil {
						r.Broken("script_tests #%d: bad witness hex", i)
					}
					witness = append(witness, b)
				}
			}
			amount = roundAmount(w[len(w)-1].(float64))
		}
		if len(t) < off+4 {
			r.Broken("script_tests #%d: short entry", i)
		}
		flagsStr := t[off+2].(string)
		if tapOutput != "" {
			t[off+1] = strings.Replace(t[off+1].(string), "#TAPROOTOUTPUT#", tapOutput, 1)
			st.taprootMacro++
		}
		sigScript, err1 := parseShortForm(t[off].(string))
		pkScript, err2 := parseShortForm(t[off+1].(string))
		if err1 != nil || err2 != nil {
			r.Broken("script_tests #%d: cannot parse scripts: %v %v", i, err1, err2)
		}
		flags, err := fromNames(flagsStr)
		if err != nil {
			r.Broken("script_tests #%d: %v", i, err)
		}
		want := t[off+3].(string)
		tx, outs := creditSpend(pkScript, sigScript, witness, amount)
		sp := &Spend{Tx: tx, Idx: 0, PrevOuts: outs, Flags: flags}
		got := runRef(sp)
		if (got == "") != (want == "OK") {
			r.Broken("reference disagrees with script_tests.json #%d %v: reference says %q, vector says %q", i, t, got, want)
		}
		if flags&txscript.ScriptVerifyCleanStack != 0 {
			// Core's runner (script_tests.cpp DoTest) adds P2SH|WITNESS to CLEANSTACK cases.
			sp2 := &Spend{Tx: tx, Idx: 0, PrevOuts: outs, Flags: flags | txscript.ScriptBip16 | txscript.ScriptVerifyWitness}
			if got2 := runRef(sp2); (got2 == "") != (want == "OK") {
				r.Broken("reference disagrees with script_tests.json #%d %v under Core-filled flags: reference says %q, vector says %q", i, t, got2, want)
			}
			compare(r, "vec/script_tests", fmt.Sprintf("#%d/filled", i), sp2, false)
		}
		// Error names must match too where Core's name is unambiguous.
		if want != "OK" && string(got) != want && !errAlias(string(got), want) {
			nameMismatch++
			if os.Getenv("C06_DEBUG") != "" {
				fmt.Printf("name mismatch #%d %v: reference %q, vector %q\n", i, t, got, want)
			}
		}
		st.scriptTests++
		compare(r, "vec/script_tests", fmt.Sprintf("#%d", i), sp, false)
	}
	r.Set("script_tests_error_name_mismatches", nameMismatch)
	tPhase := time.Now()
	r.Set("t_vec_script_tests_s", time.Since(tStart).Seconds())
	// ---- tx_valid.json / tx_invalid.json
	allFlags := txscript.ScriptFlags(0)
	for _, m := range flagMap {
		allFlags |= m.b
	}
	for _, file := range []string{"tx_valid.json", "tx_invalid.json"} {
		valid := file == "tx_valid.json"
		var txt [][]interface{}
		mustJSON(r, filepath.Join(dir, file), &txt)
		for i, t := range txt {
			inputs, ok := t[0].([]interface{})
			if !ok {
				continue
			}
			if len(t) != 3 {
				r.Broken("%s #%d: bad length", file, i)
			}
			raw, err := hex.DecodeString(t[1].(string))
			if err != nil {
				r.Broken("%s #%d: bad tx hex", file, i)
			}
			var tx wire.MsgTx
			if err := tx.Deserialize(bytes.NewReader(raw)); err != nil {
				r.Broken("%s #%d: tx does not deserialize: %v", file, i, err)
			}
			fs := t[2].(string)
			var flags txscript.ScriptFlags
			if valid {
				ex, err := fromNames(fs)
				if err != nil {
					r.Broken("%s #%d: %v", file, i, err)
				}
				flags = allFlags &^ ex
			} else {
				if strings.Contains(fs, "BADTX") {
					st.skippedBadTx++ // context-free tx sanity, not script verification
					continue
				}
				flags, err = fromNames(fs)
				if err != nil {
					r.Broken("%s #%d: %v", file, i, err)
				}
			}
			prev := map[wire.OutPoint]*wire.TxOut{}
			for _, ii := range inputs {
				in := ii.([]interface{})
				h, err := chainhash.NewHashFromStr(in[0].(string))
				if err != nil {
					r.Broken("%s #%d: bad prev hash", file, i)
				}
				idx := uint32(int32(in[1].(float64)))
				scr, err := parseShortForm(in[2].(string))
				if err != nil {
					r.Broken("%s #%d: bad prev script: %v", file, i, err)
				}
				var val int64
				if len(in) == 4 {
					val = int64(in[3].(float64))
				}
				prev[wire.OutPoint{Hash: *h, Index: idx}] = &wire.TxOut{Value: val, PkScript: scr}
			}
			outs := make([]*wire.TxOut, len(tx.TxIn))
			for k, in := range tx.TxIn {
				outs[k] = prev[in.PreviousOutPoint]
				if outs[k] == nil {
					r.Broken("%s #%d: missing prevout for input %d", file, i, k)
				}
			}
			allOK := true
			for k := range tx.TxIn {
				sp := &Spend{Tx: &tx, Idx: k, PrevOuts: outs, Flags: flags}
				got := runRef(sp)
				if valid {
					if got != "" {
						r.Broken("reference rejects tx_valid.json #%d input %d: %q (%v)", i, k, got, t)
					}
					st.txValidInputs++
				}
				compare(r, "vec/"+file, fmt.Sprintf("#%d/in%d", i, k), sp, false)
				if got != "" {
					allOK = false
					break // same as Core / btcd: stop at first failing input
				}
			}
			if !valid {
				if allOK {
					r.Broken("reference accepts every input of tx_invalid.json #%d (%v)", i, t)
				}
				st.txInvalid++
			}
		}
	}
	r.Set("t_vec_tx_json_s", time.Since(tPhase).Seconds())
	// ---- taproot-ref
	tdir := filepath.Join(dir, "taproot-ref")
	ents, err := os.ReadDir(tdir)
	if err == nil {
		var names []string
		for _, e := range ents {
			if !e.IsDir() {
				names = append(names, e.Name())
			}
		}
		sort.Strings(names)
		type tv struct {
			Tx       string   `json:"tx"`
			Prevouts []string `json:"prevouts"`
			Index    int      `json:"index"`
			Flags    string   `json:"flags"`
			Comment  string   `json:"comment"`
			Success  *struct {
				ScriptSig string   `json:"scriptSig"`
				Witness   []string `json:"witness"`
			} `json:"success"`
			Failure *struct {
				ScriptSig string   `json:"scriptSig"`
				Witness   []string `json:"witness"`
			} `json:"failure"`
		}
		cases := make([]tv, len(names))
		for i, n := range names {
			b, err := os.ReadFile(filepath.Join(tdir, n))
			if err != nil {
				r.Broken("taproot-ref %s: %v", n, err)
			}
			b = bytes.TrimSuffix(b, []byte(",\n"))
			if err := json.Unmarshal(b, &cases[i]); err != nil {
				r.Broken("taproot-ref %s: %v", n, err)
			}
		}
		type res struct {
			broken string
		}
		results := make([]res, len(names))
		okc := make([]int, len(names))
		failc := make([]int, len(names))
		ev.Par(len(names), workers(), func(i int) {
			c := &cases[i]
			raw, err := hex.DecodeString(c.Tx)
			if err != nil {
				results[i].broken = "bad tx hex"
				return
			}
			var tx wire.MsgTx
			if err := tx.Deserialize(bytes.NewReader(raw)); err != nil {
				results[i].broken = "tx: " + err.Error()
				return
			}
			outs := make([]*wire.TxOut, len(c.Prevouts))
			for k, p := range c.Prevouts {
				b, _ := hex.DecodeString(p)
				o, err := parseTxOut(b)
				if err != nil {
					results[i].broken = "prevout: " + err.Error()
					return
				}
				outs[k] = o
			}
			flags, err := fromNames(c.Flags)
			if err != nil {
				results[i].broken = err.Error()
				return
			}
			run := func(ss string, wit []string, wantOK bool) {
				t2 := tx.Copy()
				t2.TxIn[c.Index].SignatureScript, _ = hex.DecodeString(ss)
				var w [][]byte
				for _, e := range wit {
					b, _ := hex.DecodeString(e)
					w = append(w, b)
				}
				t2.TxIn[c.Index].Witness = w
				sp := &Spend{Tx: t2, Idx: c.Index, PrevOuts: outs, Flags: flags}
				got := runRef(sp)
				if (got == "") != wantOK {
					results[i].broken = fmt.Sprintf("reference says %q, vector (%s) expects ok=%v", got, c.Comment, wantOK)
					return
				}
				compare(r, "vec/taproot-ref", names[i]+fmt.Sprintf("/ok=%v", wantOK), sp, false)
			}
			if c.Success != nil {
				run(c.Success.ScriptSig, c.Success.Witness, true)
				okc[i]++
			}
			if c.Failure != nil && results[i].broken == "" {
				run(c.Failure.ScriptSig, c.Failure.Witness, false)
				failc[i]++
			}
		})
		for i := range results {
			if results[i].broken != "" {
				r.Broken("taproot-ref %s: %s", names[i], results[i].broken)
			}
			st.taprootOK += okc[i]
			st.taprootFail += failc[i]
		}
	}
	return st
}

// errAlias: a few Core error names are produced at several places or depend on
// evaluation details the vectors fold together.
func errAlias(got, want string) bool {
	switch want {
	case "SCRIPTNUM", "UNKNOWN_ERROR":
		return got == "UNKNOWN_ERROR" || got == "SCRIPTNUM"
	case "NULLFAIL":
		return got == "SIG_NULLFAIL"
	}
	return false
}

func roundAmount(f float64) int64 {
	if math.IsNaN(f) || math.IsInf(f, 0) {
		return 0
	}
	v := f * 1e8
	if v < 0 {
		return int64(v - 0.5)
	}
	return int64(v + 0.5)
}

func mustJSON(r *ev.Run, path string, v interface{}) {
	b, err := os.ReadFile(path)
	if err != nil {
		r.Broken("cannot read %s: %v", path, err)
	}
	if err := json.Unmarshal(b, v); err != nil {
		r.Broken("cannot parse %s: %v", path, err)
	}
}
