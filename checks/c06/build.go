package main

import (
	"encoding/hex"
	"sort"
	"strings"

	"github.com/btcsuite/btcd/chainhash/v2"
	"github.com/btcsuite/btcd/txscript/v2"
	"github.com/btcsuite/btcd/wire/v2"

	"verif/ref/refscript"
)

// ---- script construction helpers (own code, Core conventions) ----

func cat(parts ...[]byte) []byte {
	var out []byte
	for _, p := range parts {
		out = append(out, p...)
	}
	return out
}

func push(b []byte) []byte { return refscript.PushData(b) }

// pushMinimal pushes a stack element the way a minimal-data-compliant script
// would (OP_0 / OP_1..16 / OP_1NEGATE / direct push).
func pushMinimal(b []byte) []byte {
	switch {
	case len(b) == 0:
		return []byte{refscript.OP_0}
	case len(b) == 1 && b[0] >= 1 && b[0] <= 16:
		return []byte{refscript.OP_1 - 1 + b[0]}
	case len(b) == 1 && b[0] == 0x81:
		return []byte{refscript.OP_1NEGATE}
	}
	return refscript.PushData(b)
}

func p2shScript(redeem []byte) []byte {
	return cat([]byte{refscript.OP_HASH160, 20}, refscript.Hash160(redeem), []byte{refscript.OP_EQUAL})
}

func p2wshScript(ws []byte) []byte {
	h := refscript.Sha256(ws)
	return cat([]byte{refscript.OP_0, 32}, h[:])
}

func p2wpkhScript(pk []byte) []byte {
	return cat([]byte{refscript.OP_0, 20}, refscript.Hash160(pk))
}

// fixed x-only internal key used for script-path-only outputs (BIP341's NUMS point H).
var numsKey, _ = hex.DecodeString("50929b74c1a04954b78b4b6035e97a5e078a5a0f28ec96d547bfee9ace803ac0")

// tapLeafOutput returns the P2TR scriptPubKey committing to a single leaf and the
// matching control block.
func tapLeafOutput(internal []byte, leafVersion byte, script []byte) (pkScript, control []byte) {
	lh := refscript.TapLeafHash(leafVersion, script)
	out, odd, ok := refscript.TaprootTweak(internal, lh[:])
	if !ok {
		panic("taproot tweak failed")
	}
	control = []byte{leafVersion}
	if odd {
		control[0] |= 1
	}
	control = append(control, internal...)
	return cat([]byte{refscript.OP_1, 32}, out[:]), control
}

// ---- worker-local spend context (no per-case allocation of the tx) ----

type wctx struct {
	tx    *wire.MsgTx
	out   *wire.TxOut
	sp    Spend
	memo  refscript.TweakMemo
	chk   refscript.Checker
	fetch singleFetcher
	n     int // cases executed on the fast path (flushed to ev by done())
	acc   int // of which accepted by both
	layer string
}

// done flushes the local counters.
func (w *wctx) done() {
	theRun.Eval(w.n)
	theRun.Trace(w.n)
	if w.layer != "" {
		theRun.Add("accepted_"+w.layer, int64(w.acc))
		theRun.Add("runs_"+w.layer, int64(w.n))
	}
	w.n, w.acc, w.layer = 0, 0, ""
}

type singleFetcher struct{ out *wire.TxOut }

func (f *singleFetcher) FetchPrevOutput(wire.OutPoint) *wire.TxOut { return f.out }

var fixedPrevHash = chainhash.Hash{0xc0, 0x6c, 0x06, 1, 2, 3, 4, 5, 6, 7, 8, 9, 10, 11, 12, 13, 14, 15, 16, 17, 18, 19, 20, 21, 22, 23, 24, 25, 26, 27, 28, 29}

func newCtx() *wctx {
	w := &wctx{}
	w.tx = wire.NewMsgTx(2)
	w.tx.AddTxIn(&wire.TxIn{PreviousOutPoint: wire.OutPoint{Hash: fixedPrevHash, Index: 0}, Sequence: 0xffffffff})
	w.tx.AddTxOut(&wire.TxOut{Value: 90000, PkScript: []byte{refscript.OP_1}})
	w.out = &wire.TxOut{Value: 100000}
	w.fetch.out = w.out
	w.sp = Spend{Tx: w.tx, Idx: 0, PrevOuts: []*wire.TxOut{w.out}}
	w.chk = refscript.Checker{Tx: w.tx, Idx: 0, Amount: w.out.Value, Spent: w.sp.PrevOuts, Tweak: &w.memo}
	return w
}

func (w *wctx) set(pk, sig []byte, wit [][]byte) {
	w.out.PkScript = pk
	w.tx.TxIn[0].SignatureScript = sig
	w.tx.TxIn[0].Witness = wit
}

// fastCompare is compare() without allocation on the agreeing path.
func (w *wctx) run(layer string, fs flagSet, desc string) bool {
	w.sp.Flags = fs.f
	if w.layer == "" {
		if i := strings.IndexByte(layer, '/'); i > 0 {
			w.layer = layer[:i]
		} else {
			w.layer = layer
		}
	}
	r := theRun
	w.n++
	okB, panicked := w.btcd()
	in := w.tx.TxIn[0]
	ref := refscript.VerifyScript(in.SignatureScript, w.out.PkScript, in.Witness, toCore(fs.f), &w.chk)
	if !panicked && okB == (ref == "") {
		if okB {
			w.acc++
		}
		return okB
	}
	// slow path: clone and go through the generic reporter (re-runs 3x)
	s := &Spend{Tx: w.tx.Copy(), Idx: 0, PrevOuts: []*wire.TxOut{{Value: w.out.Value, PkScript: append([]byte{}, w.out.PkScript...)}}, Flags: fs.f}
	compare(r, layer+"/"+fs.name, desc, s, fs.policy)
	w.n--
	return ref == ""
}

func (w *wctx) btcd() (ok bool, panicked bool) {
	defer func() {
		if r := recover(); r != nil {
			ok, panicked = false, true
		}
	}()
	var hc *txscript.TxSigHashes
	if len(w.tx.TxIn[0].Witness) != 0 {
		hc = txscript.NewTxSigHashes(w.tx, &w.fetch)
	}
	vm, err := txscript.NewEngine(w.out.PkScript, w.tx, 0, w.sp.Flags, nil, hc, w.out.Value, &w.fetch)
	if err != nil {
		return false, false
	}
	return vm.Execute() == nil, false
}

func sortedKeys(m map[string][]byte) []string {
	out := make([]string, 0, len(m))
	for k := range m {
		out = append(out, k)
	}
	sort.Strings(out)
	return out
}

func sortStrings(s []string) { sort.Strings(s) }
