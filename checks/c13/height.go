package main

import (
	"encoding/binary"
	"fmt"
	"sort"
	"sync/atomic"

	"github.com/btcsuite/btcd/blockchain"
	"github.com/btcsuite/btcd/btcutil/v2"
	"github.com/btcsuite/btcd/chainhash/v2"
	"github.com/btcsuite/btcd/wire/v2"

	ref "verif/ref/refmerkle"
)

// The oracle (BIP34 as enforced by consensus): a block at height h >= 0 is
// acceptable iff its coinbase script STARTS WITH "CScript() << h".  btcd
// enforces this through CheckSerializedHeight(tx, h), which is
// ExtractCoinbaseHeight(tx) == h.  Hence:
//   - if the script starts with the serialization of some height h (there is at
//     most one such h), ExtractCoinbaseHeight must return (h, nil);
//   - otherwise it must not return (v, nil) with v >= 0, because that would make
//     CheckSerializedHeight accept the script for a block at height v.  An error
//     or a negative value (no block has a negative height) are both fine;
//   - CheckSerializedHeight(tx, want) == nil  <=>  script starts with ser(want),
//     for every want >= 0 tried.
func cbTx(script []byte) *btcutil.Tx {
	m := wire.NewMsgTx(1)
	m.AddTxIn(&wire.TxIn{PreviousOutPoint: wire.OutPoint{Hash: chainhash.Hash{}, Index: 0xffffffff}, SignatureScript: script, Sequence: 0xffffffff})
	m.AddTxOut(&wire.TxOut{Value: 0, PkScript: []byte{0x51}})
	return btcutil.NewTx(m)
}

func runHeight(c *Case) string {
	script := unhx(c.Script)
	tx := cbTx(script)
	if c.Sub == "cbheight-check" {
		err := blockchain.CheckSerializedHeight(tx, c.Want)
		want := ref.CoinbaseHeightOK(script, int64(c.Want))
		if (err == nil) != want {
			return fmt.Sprintf("CheckSerializedHeight(script %x, height %d) = %v, BIP34 (script starts with %x) says accept=%v",
				script, c.Want, err, ref.PushInt(int64(c.Want)), want)
		}
		return ""
	}
	h, ok := ref.CoinbaseHeight(script)
	got, err := blockchain.ExtractCoinbaseHeight(tx)
	if ok {
		if err != nil || int64(got) != h {
			return fmt.Sprintf("ExtractCoinbaseHeight(%x) = (%d, %v), but the script starts with the serialization %x of height %d", script, got, err, ref.PushInt(h), h)
		}
		return ""
	}
	if err == nil && got >= 0 {
		return fmt.Sprintf("ExtractCoinbaseHeight(%x) = (%d, nil), but the script does not start with the serialization %x of height %d", script, got, ref.PushInt(int64(got)), got)
	}
	return ""
}

var tailBytes = []byte{0x00, 0x01, 0x7f, 0x80, 0xff}

// candidate heights tried through CheckSerializedHeight for one script
func heightCandidates(script []byte) []int32 {
	set := map[int32]bool{0: true, 1: true, 16: true, 17: true, 128: true, 0x7fffffff: true}
	if r.Thorough() {
		for _, v := range []int32{127, 255, 256, 32767, 32768} {
			set[v] = true
		}
	}
	if h, ok := ref.CoinbaseHeight(script); ok {
		set[int32(h)] = true
		if h > 0 {
			set[int32(h-1)] = true
		}
		if h < 0x7fffffff {
			set[int32(h+1)] = true
		}
	}
	if len(script) > 1 {
		// the raw little-endian reading of up to 4 bytes after the first byte
		var b [4]byte
		n := int(script[0])
		if n > len(script)-1 {
			n = len(script) - 1
		}
		if n > 4 {
			n = 4
		}
		copy(b[:], script[1:1+n])
		v := int32(binary.LittleEndian.Uint32(b[:]))
		if v >= 0 {
			set[v] = true
		}
		// and the sign-magnitude reading with the sign bit cleared
		if n > 0 {
			b[n-1] &= 0x7f
			set[int32(binary.LittleEndian.Uint32(b[:]))] = true
		}
	}
	out := make([]int32, 0, len(set))
	for v := range set {
		out = append(out, v)
	}
	sort.Slice(out, func(i, j int) bool { return out[i] < out[j] })
	return out
}

func enumHeight() bool {
	maxTail := 5
	var nCases, nCheck, nValid, nLenientNeg int64
	parDo(256, func(b0 int) {
		var rec func(cur []byte)
		rec = func(cur []byte) {
			c := &Case{Sub: "cbheight", Script: hx(cur)}
			check(c)
			atomic.AddInt64(&nCases, 1)
			h, ok := ref.CoinbaseHeight(cur)
			if ok {
				atomic.AddInt64(&nValid, 1)
				_ = h
			}
			first := cur[0]
			if ok || (first >= 1 && first <= 8 && len(cur) >= 1+int(first)) {
				r.NontrivialBytes(append([]byte("H"), cur...))
			}
			if !ok {
				if got, err := blockchain.ExtractCoinbaseHeight(cbTx(cur)); err == nil && got < 0 {
					atomic.AddInt64(&nLenientNeg, 1)
				}
			}
			for _, w := range heightCandidates(cur) {
				cc := &Case{Sub: "cbheight-check", Script: c.Script, Want: w}
				check(cc)
				atomic.AddInt64(&nCheck, 1)
			}
			if len(cur) == 1+maxTail {
				return
			}
			for _, t := range tailBytes {
				rec(append(append([]byte(nil), cur...), t))
			}
		}
		rec([]byte{byte(b0)})
	})
	// the empty script
	check(&Case{Sub: "cbheight", Script: ""})
	nCases++

	// longer pushes: first byte b in 5..0x4e (and a few opcodes) followed by
	// exactly-enough / one-too-few bytes in patterns that encode small numbers
	// non-minimally
	var extra [][]byte
	for b := 5; b <= 0x4b; b++ {
		for _, pat := range []byte{0x00, 0x11, 0x7f, 0x80, 0xff} {
			s := make([]byte, 1+b)
			s[0] = byte(b)
			s[1] = pat                      // low byte, rest zero: non-minimal encoding of pat
			extra = append(extra, s, s[:b]) // complete and one byte short
			f := fill(1+b, pat)
			f[0] = byte(b)
			extra = append(extra, f)
		}
	}
	for _, op := range []byte{0x4c, 0x4d, 0x4e, 0x4f, 0x50, 0x61, 0xff} {
		for _, l := range []int{1, 2, 5, 80, 260} {
			s := fill(l, 0x01)
			s[0] = op
			extra = append(extra, s)
			z := make([]byte, l)
			z[0] = op
			extra = append(extra, z)
		}
	}
	// every valid serialization around the length boundaries, followed by junk
	for _, h := range []int64{0, 1, 16, 17, 127, 128, 129, 255, 256, 32767, 32768, 65535, 65536, 8388607, 8388608, 16777215, 16777216, 0x7ffffffe, 0x7fffffff} {
		s := ref.PushInt(h)
		extra = append(extra, s, append(append([]byte(nil), s...), 0xde, 0xad))
		if len(s) > 1 {
			// the same number, one byte longer than minimal
			nm := append([]byte{byte(len(s))}, s[1:]...)
			nm[0]++
			nm = append(nm, 0x00)
			extra = append(extra, nm)
			// truncated by one byte
			extra = append(extra, s[:len(s)-1])
		}
	}
	for _, s := range extra {
		c := &Case{Sub: "cbheight", Script: hx(s)}
		check(c)
		nCases++
		r.NontrivialBytes(append([]byte("H"), s...))
		for _, w := range heightCandidates(s) {
			check(&Case{Sub: "cbheight-check", Script: c.Script, Want: w})
			nCheck++
		}
	}
	r.Sample(&Case{Sub: "cbheight", Script: "03ff7f00"})
	r.Add("cbheight_cases", nCases)
	r.Add("cbheight_check_cases", nCheck)
	r.Add("cbheight_scripts_with_a_valid_height_prefix", nValid)
	r.Add("cbheight_nonmatching_scripts_answered_with_negative_height_and_nil_error", nLenientNeg)
	return true
}
