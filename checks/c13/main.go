// C13 — consensus accounting primitives equal their definitions for every input.
//
// Bounded exhaustive enumeration of the inputs of btcd's merkle, witness
// commitment, weight, sigop, BIP34 height, finality and BIP68 functions; every
// case is executed on the real code and compared with the naive reference model
// verif/ref/refmerkle (written from the BIPs / Bitcoin Core's consensus code).
//
// Sub-checks (files): merkle.go, commit.go, weight.go, sigops.go, height.go,
// locks.go; vectors.go binds the reference to vectors shipped in the btcd tree.
package main

import (
	"encoding/hex"
	"fmt"
	"os"
	"runtime"
	"strings"
	"sync"
	"time"

	"github.com/btcsuite/btcd/btcutil/v2"
	"github.com/btcsuite/btcd/chainhash/v2"
	"github.com/btcsuite/btcd/wire/v2"

	"verif/engine/ev"
	ref "verif/ref/refmerkle"
)

// Case is the JSON-able description of one enumerated case of any sub-check; it
// is also the replay object.
type Case struct {
	Sub string `json:"sub"`

	// merkle
	N       int  `json:"n,omitempty"`
	Dup     bool `json:"dup,omitempty"`
	Witness bool `json:"witness,omitempty"`
	Variant int  `json:"variant,omitempty"`

	// commit
	Layout []int `json:"layout,omitempty"`
	Stack  int   `json:"stack,omitempty"`
	Extra  int   `json:"extra,omitempty"`
	Nonce  int   `json:"nonce,omitempty"`

	// weight
	Ins  []int `json:"ins,omitempty"`
	Outs []int `json:"outs,omitempty"`
	NIn  int   `json:"nin,omitempty"`
	NOut int   `json:"nout,omitempty"`
	NWit int   `json:"nwit,omitempty"`
	NTx  int   `json:"ntx,omitempty"`

	// sigops
	Script string    `json:"script,omitempty"`
	Sig    string    `json:"sig,omitempty"`
	Pk     string    `json:"pk,omitempty"`
	Wit    []string  `json:"wit,omitempty"`
	Inputs []SpendIn `json:"inputs,omitempty"`
	OutPks []string  `json:"outpks,omitempty"`
	Bip16  bool      `json:"bip16,omitempty"`
	SegWit bool      `json:"segwit,omitempty"`
	CB     bool      `json:"coinbase,omitempty"`

	// finality / sequence locks
	LockTime    uint32   `json:"locktime,omitempty"`
	Seqs        []uint32 `json:"seqs,omitempty"`
	Height      int32    `json:"height,omitempty"`
	Time        int64    `json:"time,omitempty"`
	Pattern     int      `json:"pattern,omitempty"`
	SidePattern int      `json:"side_pattern,omitempty"`
	Fork        int      `json:"fork,omitempty"`
	CSV         bool     `json:"csv,omitempty"`
	Tip         int      `json:"tip,omitempty"`
	Version     int32    `json:"version,omitempty"`
	Ages        []int    `json:"ages,omitempty"`
	Mempool     bool     `json:"mempool,omitempty"`
	Sec         int64    `json:"sec,omitempty"`
	LockH       int32    `json:"lockh,omitempty"`
	IsSecs      bool     `json:"issecs,omitempty"`
	Value       uint32   `json:"value,omitempty"`
	Want        int32    `json:"want,omitempty"`
}

// SpendIn is one input of a sigop-cost case.
type SpendIn struct {
	Sig string   `json:"sig"`
	Pk  string   `json:"pk"`
	Wit []string `json:"wit,omitempty"`
}

var (
	r       *ev.Run
	workers = runtime.NumCPU()

	failMu    sync.Mutex
	failCount = map[string]int{}
)

func hx(b []byte) string { return hex.EncodeToString(b) }
func unhx(s string) []byte {
	b, err := hex.DecodeString(s)
	if err != nil {
		panic(err)
	}
	return b
}
func unhxs(s []string) [][]byte {
	var out [][]byte
	for _, x := range s {
		out = append(out, unhx(x))
	}
	return out
}
func hxs(b [][]byte) []string {
	var out []string
	for _, x := range b {
		out = append(out, hx(x))
	}
	return out
}

// toWire copies a reference transaction into btcd's structure field by field.
func toWire(t *ref.Tx) *wire.MsgTx {
	m := &wire.MsgTx{Version: t.Version, LockTime: t.LockTime}
	m.TxIn = make([]*wire.TxIn, 0, len(t.In))
	m.TxOut = make([]*wire.TxOut, 0, len(t.Out))
	for i := range t.In {
		in := &t.In[i]
		wi := &wire.TxIn{
			PreviousOutPoint: wire.OutPoint{Hash: chainhash.Hash(in.PrevHash), Index: in.PrevIndex},
			SignatureScript:  in.SigScript,
			Sequence:         in.Sequence,
		}
		if in.Witness != nil {
			wi.Witness = wire.TxWitness(in.Witness)
		}
		m.TxIn = append(m.TxIn, wi)
	}
	for i := range t.Out {
		m.TxOut = append(m.TxOut, &wire.TxOut{Value: t.Out[i].Value, PkScript: t.Out[i].PkScript})
	}
	return m
}

// fromWire is the inverse (used for shipped vectors).
func fromWire(m *wire.MsgTx) *ref.Tx {
	t := &ref.Tx{Version: m.Version, LockTime: m.LockTime}
	for _, in := range m.TxIn {
		ri := ref.TxIn{PrevHash: ref.Hash(in.PreviousOutPoint.Hash), PrevIndex: in.PreviousOutPoint.Index,
			SigScript: in.SignatureScript, Sequence: in.Sequence}
		if len(in.Witness) > 0 {
			ri.Witness = [][]byte(in.Witness)
		}
		t.In = append(t.In, ri)
	}
	for _, o := range m.TxOut {
		t.Out = append(t.Out, ref.TxOut{Value: o.Value, PkScript: o.PkScript})
	}
	return t
}

func utilTxs(txs []*ref.Tx) []*btcutil.Tx {
	out := make([]*btcutil.Tx, len(txs))
	for i, t := range txs {
		out[i] = btcutil.NewTx(toWire(t))
	}
	return out
}

// guard runs f and converts a panic into a message.
func guard(f func() string) (msg string) {
	defer func() {
		if p := recover(); p != nil {
			msg = fmt.Sprintf("PANIC in btcd: %v", p)
		}
	}()
	return f()
}

// runCase executes one case on the real code and the reference; "" = agree.
func runCase(c *Case) string {
	return guard(func() string {
		switch c.Sub {
		case "merkle":
			return runMerkle(c)
		case "commit":
			return runCommit(c)
		case "txweight", "txweight-count", "blockweight":
			return runWeight(c)
		case "sigops-legacy", "sigops-p2sh", "sigops-witness", "sigopcost":
			return runSigops(c)
		case "cbheight", "cbheight-check":
			return runHeight(c)
		case "final", "seqactive", "lt2seq":
			return runLocksPure(c)
		case "seqlock", "seqlock-real":
			return runSeqlockStandalone(c)
		case "seqlock-side":
			return runSeqlockSideStandalone(c)
		}
		return "unknown sub-check " + c.Sub
	})
}

func keyOf(c *Case) string {
	switch c.Sub {
	case "merkle":
		return fmt.Sprintf("merkle/n=%d/dup=%v/witness=%v/variant=%d", c.N, c.Dup, c.Witness, c.Variant)
	case "commit":
		return fmt.Sprintf("commit/layout=%v/stack=%d/extra=%d/nonce=%d", c.Layout, c.Stack, c.Extra, c.Nonce)
	case "txweight":
		return fmt.Sprintf("txweight/ins=%v/outs=%v", c.Ins, c.Outs)
	case "txweight-count":
		return fmt.Sprintf("txweight-count/nin=%d/nout=%d/nwit=%d", c.NIn, c.NOut, c.NWit)
	case "blockweight":
		return fmt.Sprintf("blockweight/ntx=%d/variant=%d", c.NTx, c.Variant)
	case "sigops-legacy":
		return "sigops-legacy/" + short(c.Script)
	case "sigops-p2sh":
		return "sigops-p2sh/sig=" + short(c.Sig) + "/pk=" + short(c.Pk)
	case "sigops-witness":
		return "sigops-witness/sig=" + short(c.Sig) + "/pk=" + short(c.Pk) + "/wit=" + short(strings.Join(c.Wit, ","))
	case "sigopcost":
		s := fmt.Sprintf("sigopcost/bip16=%v/segwit=%v/cb=%v", c.Bip16, c.SegWit, c.CB)
		for _, in := range c.Inputs {
			s += "/in(" + short(in.Sig) + ";" + short(in.Pk) + ";" + short(strings.Join(in.Wit, ",")) + ")"
		}
		return s + "/outs=" + short(strings.Join(c.OutPks, ","))
	case "cbheight":
		return "cbheight/" + short(c.Script)
	case "cbheight-check":
		return fmt.Sprintf("cbheight-check/%s/want=%d", short(c.Script), c.Want)
	case "final":
		return fmt.Sprintf("final/locktime=%d/seqs=%x/height=%d/time=%d", c.LockTime, c.Seqs, c.Height, c.Time)
	case "seqactive":
		return fmt.Sprintf("seqactive/sec=%d/h=%d/height=%d/mtp=%d", c.Sec, c.LockH, c.Height, c.Time)
	case "lt2seq":
		return fmt.Sprintf("lt2seq/secs=%v/v=%d", c.IsSecs, c.Value)
	case "seqlock-side":
		return fmt.Sprintf("seqlock-side/best=%d/side=%d/fork=%d/at=%d/ver=%d/mempool=%v/seqs=%x/ages=%v", c.Pattern, c.SidePattern, c.Fork, c.Tip, c.Version, c.Mempool, c.Seqs, c.Ages)
	case "seqlock", "seqlock-real":
		return fmt.Sprintf("%s/pattern=%d/csv=%v/tip=%d/ver=%d/mempool=%v/cb=%v/seqs=%x/ages=%v", c.Sub, c.Pattern, c.CSV, c.Tip, c.Version, c.Mempool, c.CB, c.Seqs, c.Ages)
	}
	return c.Sub
}

func short(s string) string {
	if len(s) > 96 {
		h := chainhash.HashB([]byte(s))
		return s[:80] + "~" + hx(h[:4])
	}
	return s
}

// report re-runs a failing case three times (verdict must be stable) and
// records the violation.
func report(c *Case, msg string, rerun func(*Case) string) {
	// a broken function fails thousands of cases: the first 25 per sub-check are
	// re-run and recorded individually, the rest are only counted
	failMu.Lock()
	failCount[c.Sub]++
	nth := failCount[c.Sub]
	failMu.Unlock()
	if nth > 25 {
		r.Add("failing_cases_beyond_the_first_25_per_subcheck_counted_only", 1)
		return
	}
	for i := 0; i < 3; i++ {
		if m := rerun(c); m != msg {
			r.Broken("verdict of case %s flipped on re-run: %q vs %q", keyOf(c), msg, m)
		}
	}
	cc := *c
	r.Violation(keyOf(c), msg, &cc)
}

// check = count + execute + report.
func check(c *Case) bool {
	r.Eval(1)
	r.Trace(1)
	if msg := runCase(c); msg != "" {
		report(c, msg, runCase)
		return false
	}
	return true
}

// parDo runs f(0..n-1) on all cores.
func parDo(n int, f func(i int)) { ev.Par(n, workers, f) }

func repoRoot() string {
	if v := os.Getenv("VERIF_REPO"); v != "" {
		return v
	}
	return "/repo"
}

func main() {
	r = ev.Start("C13")
	r.Rule("each sub-check enumerates the full product of its small per-field alphabets " +
		"(see bounds); every case runs the real btcd function(s) and the naive reference; " +
		"a case is counted non-trivial when it exercises the mechanism under test: merkle " +
		"lists with >=2 leaves; coinbase layouts with >=1 header-matching output or witness " +
		"data; transactions whose extended and stripped sizes differ or that sit on a varint " +
		"boundary; scripts with >=1 counted sigop or a truncated push; coinbase scripts whose " +
		"first byte is a push length or small-int opcode with enough bytes; lock cases whose " +
		"constraint is not vacuous. Distinct = distinct canonical encoding of the case")
	r.Assume("SHA-256 of the Go standard library; wire.MsgTx/TxWitness/TxOut are plain structs that the harness fills field by field (the wire codec itself is C08's subject)")
	r.Assume("lab.Build/lab.Solve block assembly and ffldb-on-/dev/shm chain instances for the BIP68 sub-check")
	r.Assume("reference semantics = Bitcoin Core consensus code (merkle.cpp, tx_verify.cpp, script.cpp GetSigOpCount, interpreter.cpp CountWitnessSigOps, validation.cpp BIP34/BIP141 rules) as transcribed in verif/ref/refmerkle")

	if r.ReplayPath != "" {
		var c Case
		r.LoadReplay(&c)
		bindVectors()
		r.Eval(1)
		r.Trace(1)
		if msg := runCase(&c); msg != "" {
			report(&c, msg, runCase)
		}
		r.Finish(false)
		return
	}

	if r.Thorough() {
		r.SetBudget(13 * time.Minute)
	} else {
		r.SetBudget(80 * time.Second)
	}

	bindVectors()

	r.Set("bounds", map[string]interface{}{
		"merkle":       "tx-list length 1..33 x {as is, last entry duplicated} x {txid, wtxid form} x 4 witness-placement variants; paths: Tx.Hash/WitnessHash leaves, CalcMerkleRoot, BuildMerkleTreeStore (root + every interior node + empty slots), rolling store with size hints {0,1,n,n+1,2n,64,2^20}, rolling add forest roots; n=0 executed, not judged",
		"commit":       "all sequences of 0..4 coinbase outputs over {unrelated, commitment, wrong-magic, 37-byte, 39-byte, header+wrong hash} x coinbase witness stack item sizes {none,[0],[31],[32],[33],[32,32],[32,0],[0,32]} x extra txs {none,[n],[w],[n,w],[w,w],[w,n,w]} x nonce {zero, non-zero}; ExtractWitnessCommitment (found + bytes) and ValidateWitnessCommitment (accept/reject)",
		"weight":       "tx: sequences of input kinds (12: sigScript len 0/1/252/253/65535/65536 x witness item counts/lengths 0/252/253/65535/65536) x sequences of output kinds (pkScript len 0/1/252/253/65535/65536): quick len<=2 full + len 3 over sub-alphabets, thorough len<=3 full; element counts in/out/witness-items in {0,1,252,253,254}; block: 0,1,2,3,252,253,254 txs x {no witness, all witness, mixed}",
		"sigops":       "every concatenation of <=3 (thorough 4) tokens of a 41-token alphabet (CHECKSIG(VERIFY), CHECKMULTISIG(VERIFY), OP_0, OP_1..16, 1NEGATE, RESERVED, NOP, DUP, CHECKSIGADD, 0xff, pushes 0x01/0x4b/0x4c/0x4d/0x4e complete, without length, with short data, 4GiB) and every byte string of length <=2 (thorough 3) for GetSigOpCount + accurate count; P2SH: (<=1 token + push(redeem <=2 tokens)), (push(redeem)+token), raw <=3-token scriptSigs, 8 near-P2SH pkScripts; witness: 23 program shapes x witness {nil,[],[[]],[s],[x,s],[s,x] for s<=2 tokens} x 9 nested scriptSig forms; GetSigOpCost/CountSigOps/CountP2SHSigOps on txs of 1..2 (thorough 3) inputs over 20 spend kinds x 4 output sets x bip16 x segwit + coinbases",
		"cbheight":     "first byte 0x00..0xff x tails of 0..5 bytes over {00,01,7f,80,ff}; plus complete/short pushes of 5..75 bytes, PUSHDATA/opcodes first bytes, boundary heights with junk/non-minimal/truncated forms; ExtractCoinbaseHeight per script and CheckSerializedHeight for 6 (thorough 11) fixed + script-derived candidate heights",
		"locks_pure":   "IsFinalizedTransaction: locktime in {0,1,h-1,h,h+1,t-1,t,t+1,499999999,500000000,500000001,2^31-1,2^31,2^32-2,2^32-1} x 10 sequence patterns x 6 heights x 12 times; SequenceLockActive: 6x6 lock values around 5 heights x 7 MTPs; LockTimeToSequence: 8 block values, 14 second values (demanded only inside BIP68's range)",
		"seqlock_side": "calcSequenceLock from the point of view of every block of an inactive side branch (hook VerifCalcSequenceLockAt): best chain of 14 blocks with timestamp pattern pm, equal-length side branch with pattern ps != pm forking at height {2,6,10} (60 worlds) x every side block x mempool flag x version {2,1} x 1 input (12 sequence numbers x input created at {mempool,0,fork,fork+1,fork+2,h-1,h}) and 2 inputs (4x3 squared); reference: BIP68 on the block's own ancestors' timestamps",
		"seqlock":      "5 timestamp patterns x CSV {always active, never active} x every tip height 0..14 of a real regtest-like chain x mempool flag x tx version {2,1,-1,0,3} x inputs: 1 input (12 sequence numbers x <=6 input ages {mempool,0,1,tip/2,tip-1,tip}), 2 inputs (full product for version 2, 4x3 sub-alphabet otherwise; thorough full), 3 inputs (4x3 sub-alphabet), coinbase-shaped txs, real coinbase utxos via FetchUtxoView; checked: (Seconds,BlockHeight) pair, SequenceLockActive for inclusion at tip+1 vs the per-input BIP68 statement, BestSnapshot().MedianTime vs BIP113",
	})

	complete := true
	steps := []struct {
		name string
		f    func() bool
	}{
		{"merkle", enumMerkle},
		{"commit", enumCommit},
		{"weight", enumWeight},
		{"sigops", enumSigops},
		{"cbheight", enumHeight},
		{"locks-pure", enumLocksPure},
		{"seqlock", enumSeqlock},
		{"seqlock-side", enumSeqlockSide},
	}
	timing := map[string]float64{}
	for _, s := range steps {
		t0 := time.Now()
		if r.Expired() {
			r.Cap("time box hit before sub-check " + s.name + " started")
			complete = false
			break
		}
		if !s.f() {
			complete = false
		}
		timing[s.name] = time.Since(t0).Seconds()
	}
	r.Set("seconds_per_subcheck", timing)
	r.Finish(complete)
}
