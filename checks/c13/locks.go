package main

import (
	"fmt"
	"math"
	"sort"
	"sync"
	"sync/atomic"
	"time"

	"github.com/btcsuite/btcd/blockchain"
	"github.com/btcsuite/btcd/btcutil/v2"
	"github.com/btcsuite/btcd/chaincfg/v2"
	"github.com/btcsuite/btcd/chainhash/v2"
	"github.com/btcsuite/btcd/wire/v2"

	"verif/lab"
	ref "verif/ref/refmerkle"
)

// ---------------------------------------------------------------------------
// pure functions: IsFinalizedTransaction, SequenceLockActive, LockTimeToSequence

func finalTx(c *Case) *ref.Tx {
	t := &ref.Tx{Version: 1, LockTime: c.LockTime}
	for i, s := range c.Seqs {
		t.In = append(t.In, ref.TxIn{PrevHash: ref.Hash{1}, PrevIndex: uint32(i), Sequence: s})
	}
	t.Out = []ref.TxOut{{Value: 1, PkScript: []byte{0x51}}}
	return t
}

func runLocksPure(c *Case) string {
	switch c.Sub {
	case "final":
		t := finalTx(c)
		got := blockchain.IsFinalizedTransaction(btcutil.NewTx(toWire(t)), c.Height, time.Unix(c.Time, 0))
		want := ref.IsFinalTx(t, int64(c.Height), c.Time)
		if got != want {
			return fmt.Sprintf("IsFinalizedTransaction(locktime=%d, sequences=%x, height=%d, time=%d) = %v, IsFinalTx definition %v", c.LockTime, c.Seqs, c.Height, c.Time, got, want)
		}
	case "seqactive":
		got := blockchain.SequenceLockActive(&blockchain.SequenceLock{Seconds: c.Sec, BlockHeight: c.LockH}, c.Height, time.Unix(c.Time, 0))
		want := ref.EvaluateSequenceLocks(int64(c.LockH), c.Sec, int64(c.Height), c.Time)
		if got != want {
			return fmt.Sprintf("SequenceLockActive({Seconds:%d, BlockHeight:%d}, height=%d, mtp=%d) = %v, EvaluateSequenceLocks definition %v", c.Sec, c.LockH, c.Height, c.Time, got, want)
		}
	case "lt2seq":
		got := blockchain.LockTimeToSequence(c.IsSecs, c.Value)
		inDomain := (!c.IsSecs && c.Value <= 0xffff) || (c.IsSecs && c.Value <= 0xffff*512+511)
		if !inDomain {
			return "" // not representable in BIP68: nothing is demanded, only executed
		}
		var want uint32
		if c.IsSecs {
			want = ref.SeqTypeFlag | (c.Value / 512)
		} else {
			want = c.Value
		}
		if got != want {
			return fmt.Sprintf("LockTimeToSequence(seconds=%v, %d) = %#x, BIP68 encoding %#x", c.IsSecs, c.Value, got, want)
		}
	}
	return ""
}

func enumLocksPure() bool {
	const f, n = uint32(0xffffffff), uint32(0)
	seqPatterns := [][]uint32{{}, {f}, {n}, {f, f}, {n, f}, {f, n}, {f, f, n}, {0xfffffffe}, {0xfffffffe, f}, {0x80000000}}
	heights := []int32{0, 1, 100, 499999999, 500000000, math.MaxInt32}
	times := []int64{-1, 0, 1, 499999999, 500000000, 500000001, 1600000000, math.MaxInt32, math.MaxInt32 + 1, math.MaxUint32 - 1, math.MaxUint32, math.MaxUint32 + 1}
	cnt := 0
	for _, h := range heights {
		for _, t := range times {
			lts := map[uint32]bool{0: true, 1: true, 499999999: true, 500000000: true, 500000001: true,
				math.MaxInt32: true, math.MaxInt32 + 1: true, math.MaxUint32: true, math.MaxUint32 - 1: true}
			for d := int64(-1); d <= 1; d++ {
				if v := int64(h) + d; v >= 0 && v <= math.MaxUint32 {
					lts[uint32(v)] = true
				}
				if v := t + d; v >= 0 && v <= math.MaxUint32 {
					lts[uint32(v)] = true
				}
			}
			var ltList []uint32
			for v := range lts {
				ltList = append(ltList, v)
			}
			sort.Slice(ltList, func(i, j int) bool { return ltList[i] < ltList[j] })
			for _, lt := range ltList {
				for _, sp := range seqPatterns {
					c := &Case{Sub: "final", LockTime: lt, Seqs: sp, Height: h, Time: t}
					check(c)
					cnt++
					if lt != 0 {
						r.Nontrivial(keyOf(c))
					}
					if cnt == 5000 {
						r.Sample(c)
					}
				}
			}
		}
	}
	r.Add("final_cases", int64(cnt))

	cnt = 0
	for _, bh := range []int32{0, 1, 2, 1000, math.MaxInt32} {
		for _, mtp := range []int64{-1, 0, 1, 30, 1600000000, math.MaxInt32, math.MaxUint32 + 5} {
			secs := []int64{-1, 0, mtp - 1, mtp, mtp + 1, math.MaxInt64}
			hs := []int64{-1, 0, int64(bh) - 1, int64(bh), int64(bh) + 1, math.MaxInt32}
			for _, s := range secs {
				for _, lh := range hs {
					if lh < math.MinInt32 || lh > math.MaxInt32 {
						continue
					}
					c := &Case{Sub: "seqactive", Sec: s, LockH: int32(lh), Height: bh, Time: mtp}
					check(c)
					cnt++
					r.Nontrivial(keyOf(c))
				}
			}
		}
	}
	r.Add("seqactive_cases", int64(cnt))

	cnt = 0
	for _, v := range []uint32{0, 1, 2, 0xfffe, 0xffff, 0x10000, 0x400000, math.MaxUint32} {
		check(&Case{Sub: "lt2seq", IsSecs: false, Value: v})
		cnt++
	}
	for _, v := range []uint32{0, 1, 511, 512, 513, 1023, 1024, 1025, 0xffff*512 - 1, 0xffff * 512, 0xffff*512 + 511, 0xffff*512 + 512, 0x10000 * 512, math.MaxUint32} {
		c := &Case{Sub: "lt2seq", IsSecs: true, Value: v}
		check(c)
		r.Nontrivial(keyOf(c))
		cnt++
	}
	r.Add("lt2seq_cases", int64(cnt))
	return true
}

// ---------------------------------------------------------------------------
// BIP68 on a real chain

const (
	lockChainLen  = 14
	genesisTS     = int64(1296688602) // regtest genesis
	lockT0        = int64(1_500_000_000)
	mempoolHeight = 0x7fffffff
	nPatterns     = 5
)

var patternNames = []string{"+600s", "+512s exactly", "slowest legal clock (MTP+1)", "zigzag +-100000s", "+511s/+513s alternating"}

// patternTimestamps returns ts[0..lockChainLen] (ts[0] = genesis). Every
// timestamp is forced above the median time past of its predecessor, as
// consensus requires.
func patternTimestamps(p int) []int64 {
	ts := []int64{genesisTS}
	for h := 1; h <= lockChainLen; h++ {
		var cand int64
		switch p {
		case 0:
			cand = lockT0 + 600*int64(h)
		case 1:
			cand = lockT0 + 512*int64(h)
		case 2:
			cand = 0
		case 3:
			cand = lockT0 + 100*int64(h)
			if h%2 == 1 {
				cand += 100000
			}
		case 4:
			cand = lockT0
			for k := 1; k <= h; k++ {
				if k%2 == 1 {
					cand += 511
				} else {
					cand += 513
				}
			}
		}
		if m := ref.MedianTimePast(ts, h-1); cand <= m {
			cand = m + 1
		}
		ts = append(ts, cand)
	}
	return ts
}

type lockCtx struct {
	pattern int
	csv     bool
	params  *chaincfg.Params
	chain   *lab.Chain
	blks    []*lab.Blk // blks[h] = block at height h (blks[0] = genesis)
	ts      []int64
	tip     int
	view    *blockchain.UtxoViewpoint
	ageOps  map[int][]wire.OutPoint // age (-1 = mempool) -> outpoints per input position
	lastSat bool                    // reference verdict of the last case: includable in the next block?
}

func lockParams(csv bool) *chaincfg.Params {
	p := lab.RegtestLike()
	if !csv {
		// never active: no forced activation, and the chain is shorter than one
		// confirmation window, so the BIP9 state stays "defined"
		p.Deployments[chaincfg.DeploymentCSV].AlwaysActiveHeight = 0
	}
	return p
}

func newLockCtx(pattern int, csv bool) (*lockCtx, error) {
	x := &lockCtx{pattern: pattern, csv: csv, params: lockParams(csv), ts: patternTimestamps(pattern)}
	ch, err := lab.NewChain(x.params, lab.ChainOpts{})
	if err != nil {
		return nil, err
	}
	x.chain = ch
	x.blks = []*lab.Blk{lab.Genesis(x.params)}
	for h := 1; h <= lockChainLen; h++ {
		b := lab.Build(x.params, x.blks[h-1], lab.BOpt{Time: time.Unix(x.ts[h], 0), Tag: uint32(1000*pattern + h)})
		x.blks = append(x.blks, b)
	}
	x.setTip(0)
	return x, nil
}

func (x *lockCtx) destroy() { x.chain.Destroy() }

// advance connects the next block.
func (x *lockCtx) advance() error {
	h := x.tip + 1
	isMain, isOrphan, err := x.chain.BC.ProcessBlock(x.blks[h].Block(), blockchain.BFNone)
	if err != nil || !isMain || isOrphan {
		return fmt.Errorf("lab block at height %d (pattern %d, ts %d) not connected: main=%v orphan=%v err=%v", h, x.pattern, x.ts[h], isMain, isOrphan, err)
	}
	x.setTip(h)
	return nil
}

func (x *lockCtx) ages() []int {
	set := []int{-1, 0, 1, x.tip, x.tip - 1, x.tip / 2}
	var out []int
	seen := map[int]bool{}
	for _, a := range set {
		if a < -1 || a > x.tip || seen[a] {
			continue
		}
		seen[a] = true
		out = append(out, a)
	}
	return out
}

func (x *lockCtx) setTip(h int) {
	x.tip = h
	x.view = blockchain.NewUtxoViewpoint()
	x.ageOps = map[int][]wire.OutPoint{}
	for a := -1; a <= h; a++ {
		src := &wire.MsgTx{Version: 1, LockTime: uint32(a + 10)}
		for j := 0; j < 3; j++ {
			src.TxOut = append(src.TxOut, &wire.TxOut{Value: int64(j + 1), PkScript: []byte{0x51}})
		}
		st := btcutil.NewTx(src)
		height := int32(a)
		if a == -1 {
			height = mempoolHeight
		}
		x.view.AddTxOuts(st, height)
		for j := 0; j < 3; j++ {
			x.ageOps[a] = append(x.ageOps[a], wire.OutPoint{Hash: *st.Hash(), Index: uint32(j)})
		}
	}
}

func (x *lockCtx) run(c *Case) string {
	return guard(func() string { return x.run1(c) })
}

func (x *lockCtx) run1(c *Case) string {
	if c.Tip != x.tip {
		r.Broken("seqlock context at tip %d used for a case at tip %d", x.tip, c.Tip)
	}
	t := &ref.Tx{Version: c.Version, Out: []ref.TxOut{{Value: 1, PkScript: []byte{0x51}}}}
	var prevHeights []int
	view := x.view
	if c.CB {
		t.In = []ref.TxIn{{PrevIndex: 0xffffffff, SigScript: []byte{0x01, 0x01}, Sequence: c.Seqs[0]}}
		prevHeights = []int{0}
	} else if c.Sub == "seqlock-real" {
		// spend real coinbase outputs of the blocks at heights c.Ages[i]
		for i, a := range c.Ages {
			id := lab.TxID(x.blks[a].Msg.Transactions[0])
			t.In = append(t.In, ref.TxIn{PrevHash: ref.Hash(id), PrevIndex: 0, Sequence: c.Seqs[i]})
			prevHeights = append(prevHeights, a)
		}
		v, err := x.chain.BC.FetchUtxoView(btcutil.NewTx(toWire(t)))
		if err != nil {
			r.Broken("FetchUtxoView: %v", err)
		}
		for i := range t.In {
			e := v.LookupEntry(wire.OutPoint{Hash: chainhash.Hash(t.In[i].PrevHash), Index: 0})
			if e == nil {
				r.Broken("coinbase output of height %d not in the chain's utxo view", c.Ages[i])
			}
			if int(e.BlockHeight()) != c.Ages[i] {
				return fmt.Sprintf("utxo entry of the coinbase mined at height %d reports BlockHeight %d", c.Ages[i], e.BlockHeight())
			}
		}
		view = v
	} else {
		for i, a := range c.Ages {
			op := x.ageOps[a][i]
			t.In = append(t.In, ref.TxIn{PrevHash: ref.Hash(op.Hash), PrevIndex: op.Index, Sequence: c.Seqs[i]})
			if a == -1 {
				prevHeights = append(prevHeights, x.tip+1)
			} else {
				prevHeights = append(prevHeights, a)
			}
		}
	}
	ts := x.ts[:x.tip+1]
	enforce := c.Mempool || c.CSV
	wantH, wantT := int64(-1), int64(-1)
	sat := true
	prevMTP := ref.MedianTimePast(ts, x.tip)
	if !t.IsCoinBase() {
		wantH, wantT = ref.CalculateSequenceLocks(t, enforce, prevHeights, ts)
		sat = ref.BIP68Satisfied(t, enforce, prevHeights, ts, x.tip+1, prevMTP)
	}
	x.lastSat = sat
	if ref.EvaluateSequenceLocks(wantH, wantT, int64(x.tip+1), prevMTP) != sat {
		r.Broken("reference: (height,time) pair %d,%d and the per-input BIP68 statement disagree for %s", wantH, wantT, keyOf(c))
	}
	lock, err := x.chain.BC.CalcSequenceLock(btcutil.NewTx(toWire(t)), view, c.Mempool)
	if err != nil {
		return fmt.Sprintf("CalcSequenceLock failed although every input is in the view: %v", err)
	}
	if lock == nil {
		return "CalcSequenceLock returned nil, nil"
	}
	if int64(lock.BlockHeight) != wantH || lock.Seconds != wantT {
		return fmt.Sprintf("CalcSequenceLock(version %d, sequences %x, input heights %v, tip %d, mempool=%v, csv=%v, timestamps %v) = {Seconds:%d BlockHeight:%d}, BIP68 definition {Seconds:%d BlockHeight:%d}",
			c.Version, c.Seqs, prevHeights, x.tip, c.Mempool, c.CSV, ts, lock.Seconds, lock.BlockHeight, wantT, wantH)
	}
	active := blockchain.SequenceLockActive(lock, int32(x.tip+1), time.Unix(prevMTP, 0))
	if active != sat {
		return fmt.Sprintf("SequenceLockActive(CalcSequenceLock(...)) for inclusion at height %d (prev MTP %d) = %v, BIP68 says %v (sequences %x, input heights %v)", x.tip+1, prevMTP, active, sat, c.Seqs, prevHeights)
	}
	return ""
}

// runSeqlockStandalone rebuilds the chain for one case (replay / re-run).
func runSeqlockStandalone(c *Case) string {
	x, err := newLockCtx(c.Pattern, c.CSV)
	if err != nil {
		r.Broken("cannot create chain: %v", err)
	}
	defer x.destroy()
	for x.tip < c.Tip {
		if err := x.advance(); err != nil {
			r.Broken("%v", err)
		}
	}
	return x.run(c)
}

var seqFull = []uint32{
	0x80000000, 0xffffffff, 0x80400001, // disabled
	0x00000000, 0x00000001, 0x0000ffff, 0x7fbf0001, 0x00010000, // blocks (the last two with ignored bits set)
	0x00400000, 0x00400001, 0x0040ffff, 0x7fff0001, // seconds (the last with ignored bits set)
}
var seqSmall = []uint32{0xffffffff, 0x00000001, 0x00400001, 0x0040ffff}

func enumSeqlock() bool {
	patterns := []int{0, 1, 2, 3, 4}
	type job struct {
		pattern int
		csv     bool
	}
	var jobs []job
	for _, p := range patterns {
		for _, csv := range []bool{true, false} {
			jobs = append(jobs, job{p, csv})
		}
	}
	var total, nontrivTime, nontrivHeight, unsat int64
	var capped int32
	var mu sync.Mutex
	mtps := map[string][]int64{}
	parDo(len(jobs), func(ji int) {
		j := jobs[ji]
		x, err := newLockCtx(j.pattern, j.csv)
		if err != nil {
			r.Broken("cannot create chain: %v", err)
		}
		defer x.destroy()
		var mt []int64
		for {
			// bind the timestamp bookkeeping: the chain's own median time
			snap := x.chain.BC.BestSnapshot()
			wantMTP := ref.MedianTimePast(x.ts[:x.tip+1], x.tip)
			if int(snap.Height) != x.tip {
				r.Broken("chain tip %d, expected %d", snap.Height, x.tip)
			}
			r.Eval(1)
			if snap.MedianTime.Unix() != wantMTP {
				c := &Case{Sub: "seqlock", Pattern: j.pattern, CSV: j.csv, Tip: x.tip, Version: 2, Mempool: true}
				r.Violation(fmt.Sprintf("mtp/pattern=%d/tip=%d", j.pattern, x.tip),
					fmt.Sprintf("BestSnapshot().MedianTime = %d, BIP113 median of timestamps %v = %d", snap.MedianTime.Unix(), x.ts[:x.tip+1], wantMTP), c)
			}
			mt = append(mt, wantMTP)
			x.enumAtTip(&total, &nontrivTime, &nontrivHeight, &unsat)
			if x.tip == lockChainLen {
				break
			}
			if r.Expired() {
				atomic.StoreInt32(&capped, 1)
				break
			}
			if err := x.advance(); err != nil {
				r.Broken("%v", err)
			}
		}
		mu.Lock()
		mtps[fmt.Sprintf("pattern %d (%s)", j.pattern, patternNames[j.pattern])] = mt
		mu.Unlock()
	})
	r.Set("seqlock_chain_mtp_by_height", mtps)
	r.Add("seqlock_cases", total)
	r.Add("seqlock_cases_with_time_constraint", nontrivTime)
	r.Add("seqlock_cases_with_height_constraint", nontrivHeight)
	r.Add("seqlock_cases_not_yet_includable", unsat)
	if capped != 0 {
		r.Cap("seqlock: time box hit before every tip height 0..14 of every chain was enumerated")
		return false
	}
	return true
}

func (x *lockCtx) enumAtTip(total, ntTime, ntHeight, unsat *int64) {
	ages := x.agesSorted()
	smallAges := []int{-1}
	if x.tip >= 1 {
		smallAges = append(smallAges, 1)
	}
	if x.tip >= 2 {
		smallAges = append(smallAges, x.tip)
	}
	versions := []int32{2, 1, -1, 0, 3}
	one := func(c *Case) {
		if !c.Mempool && x.tip == 0 {
			// CalcSequenceLock(mempool=false) evaluates the CSV deployment for the
			// tip block itself; at the genesis tip that is one block before the
			// forced activation height: excluded (deployment boundaries are C14's)
			return
		}
		r.Eval(1)
		r.Trace(1)
		atomic.AddInt64(total, 1)
		if msg := x.run(c); msg != "" {
			report(c, msg, runSeqlockStandalone)
			return
		}
		if !x.lastSat {
			atomic.AddInt64(unsat, 1)
		}
		if (c.Mempool || c.CSV) && uint32(c.Version) >= 2 && !c.CB {
			hasT, hasH := false, false
			for _, s := range c.Seqs {
				if s&ref.SeqDisable == 0 {
					if s&ref.SeqTypeFlag != 0 {
						hasT = true
					} else {
						hasH = true
					}
				}
			}
			if hasT {
				atomic.AddInt64(ntTime, 1)
			}
			if hasH {
				atomic.AddInt64(ntHeight, 1)
			}
			if hasT || hasH {
				r.Nontrivial(keyOf(c))
			}
		}
	}
	for _, mempool := range []bool{true, false} {
		for _, ver := range versions {
			full := ver == 2 || r.Thorough()
			base := Case{Sub: "seqlock", Pattern: x.pattern, CSV: x.csv, Tip: x.tip, Version: ver, Mempool: mempool}
			// one input
			for _, s := range seqFull {
				for _, a := range ages {
					c := base
					c.Seqs, c.Ages = []uint32{s}, []int{a}
					one(&c)
				}
			}
			// two inputs
			s2, a2 := seqSmall, smallAges
			if full {
				s2, a2 = seqFull, ages
			}
			for _, sa := range s2 {
				for _, aa := range a2 {
					for _, sb := range s2 {
						for _, ab := range a2 {
							c := base
							c.Seqs, c.Ages = []uint32{sa, sb}, []int{aa, ab}
							one(&c)
						}
					}
				}
			}
			// three inputs, small alphabets
			if full {
				for _, sa := range seqSmall {
					for _, aa := range smallAges {
						for _, sb := range seqSmall {
							for _, ab := range smallAges {
								for _, sc := range seqSmall {
									for _, ac := range smallAges {
										c := base
										c.Seqs, c.Ages = []uint32{sa, sb, sc}, []int{aa, ab, ac}
										one(&c)
									}
								}
							}
						}
					}
				}
			}
			// coinbase-shaped transaction: never constrained
			for _, s := range []uint32{0xffffffff, 0x00000001, 0x0040ffff} {
				c := base
				c.CB, c.Seqs = true, []uint32{s}
				one(&c)
			}
		}
	}
	// real utxo entries: coinbases of the chain itself
	if x.tip >= 2 {
		var hs []int
		for _, h := range []int{1, x.tip / 2, x.tip - 1, x.tip} {
			dupe := h < 1
			for _, o := range hs {
				dupe = dupe || o == h
			}
			if !dupe {
				hs = append(hs, h)
			}
		}
		for _, mempool := range []bool{true, false} {
			for _, a := range hs {
				for _, b := range hs {
					if a < 1 || b < 1 || a == b {
						continue
					}
					for _, sa := range seqSmall {
						for _, sb := range seqSmall {
							c := Case{Sub: "seqlock-real", Pattern: x.pattern, CSV: x.csv, Tip: x.tip, Version: 2, Mempool: mempool,
								Seqs: []uint32{sa, sb}, Ages: []int{a, b}}
							one(&c)
						}
					}
				}
			}
		}
	}
	if x.pattern == 3 && x.csv && x.tip == 9 {
		r.Sample(&Case{Sub: "seqlock", Pattern: 3, CSV: true, Tip: 9, Version: 2, Mempool: false, Seqs: []uint32{0x00400001, 0x0000ffff}, Ages: []int{4, -1}})
	}
}

func (x *lockCtx) agesSorted() []int {
	a := x.ages()
	sort.Ints(a)
	return a
}
