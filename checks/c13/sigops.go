package main

import (
	"bytes"
	"fmt"
	"sync/atomic"

	"github.com/btcsuite/btcd/blockchain"
	"github.com/btcsuite/btcd/btcutil/v2"
	"github.com/btcsuite/btcd/txscript/v2"
	"github.com/btcsuite/btcd/wire/v2"

	ref "verif/ref/refmerkle"
)

// The sigop token alphabet: byte strings that are concatenated WITHOUT regard to
// push boundaries, so a truncated push swallows the bytes of the following
// tokens exactly as it would on the wire.
var sigTokens = func() [][]byte {
	t := [][]byte{
		{0xac}, {0xad}, {0xae}, {0xaf}, // CHECKSIG, CHECKSIGVERIFY, CHECKMULTISIG, CHECKMULTISIGVERIFY
		{0x00}, // OP_0
	}
	for op := byte(0x51); op <= 0x60; op++ { // OP_1..OP_16
		t = append(t, []byte{op})
	}
	t = append(t,
		[]byte{0x4f},       // OP_1NEGATE
		[]byte{0x50},       // OP_RESERVED
		[]byte{0x61},       // OP_NOP
		[]byte{0x76},       // OP_DUP
		[]byte{0xba},       // OP_CHECKSIGADD (tapscript only: never a legacy sigop)
		[]byte{0xff},       // invalid opcode
		[]byte{0x01, 0xac}, // push of one byte that looks like CHECKSIG
		[]byte{0x01},       // 1-byte push with the data missing
		append([]byte{0x4b}, bytes.Repeat([]byte{0xac}, 75)...), // largest direct push, complete
		[]byte{0x4b, 0xac, 0xae},                                // largest direct push, short
		[]byte{0x4c, 0x01, 0xae},                                // PUSHDATA1 complete
		[]byte{0x4c},                                            // PUSHDATA1 without length
		[]byte{0x4c, 0x05, 0xac},                                // PUSHDATA1 short data
		[]byte{0x4d, 0x01, 0x00, 0xac},                          // PUSHDATA2 complete
		[]byte{0x4d, 0x01},                                      // PUSHDATA2 short length
		[]byte{0x4d, 0x05, 0x00, 0xac},                          // PUSHDATA2 short data
		[]byte{0x4e, 0x01, 0x00, 0x00, 0x00, 0xae},              // PUSHDATA4 complete
		[]byte{0x4e, 0x01, 0x00},                                // PUSHDATA4 short length
		[]byte{0x4e, 0x05, 0x00, 0x00, 0x00, 0xac},              // PUSHDATA4 short data
		[]byte{0x4e, 0xff, 0xff, 0xff, 0xff},                    // PUSHDATA4 of 4 GiB-1
	)
	return t
}()

// tokenScripts returns every concatenation of 0..maxLen tokens.
func tokenScripts(maxLen int) [][]byte {
	out := [][]byte{{}}
	prev := [][]byte{{}}
	for l := 1; l <= maxLen; l++ {
		var cur [][]byte
		for _, p := range prev {
			for _, t := range sigTokens {
				cur = append(cur, append(append([]byte(nil), p...), t...))
			}
		}
		out = append(out, cur...)
		prev = cur
	}
	return out
}

// pushOf returns the canonical push of data (direct, PUSHDATA1 or PUSHDATA2).
func pushOf(d []byte) []byte {
	switch {
	case len(d) < 0x4c:
		return append([]byte{byte(len(d))}, d...)
	case len(d) <= 0xff:
		return append([]byte{0x4c, byte(len(d))}, d...)
	}
	return append([]byte{0x4d, byte(len(d)), byte(len(d) >> 8)}, d...)
}

var p2shPk = append(append([]byte{0xa9, 0x14}, bytes.Repeat([]byte{0x42}, 20)...), 0x87)

// scripts that nearly are P2SH
var nearP2SH = [][]byte{
	p2shPk,
	append(append([]byte{0xa9, 0x14}, bytes.Repeat([]byte{0x42}, 20)...), 0x88),       // EQUALVERIFY
	append(append([]byte{0xa9, 0x13}, bytes.Repeat([]byte{0x42}, 19)...), 0x87),       // 19-byte hash
	append(append([]byte{0xa9, 0x15}, bytes.Repeat([]byte{0x42}, 21)...), 0x87),       // 21-byte hash
	append(append([]byte{0xaa, 0x14}, bytes.Repeat([]byte{0x42}, 20)...), 0x87),       // HASH256
	append(append([]byte{0xa9, 0x14}, bytes.Repeat([]byte{0x42}, 20)...), 0x87, 0xac), // trailing CHECKSIG
	append(append([]byte{0xa9, 0x4c, 0x14}, bytes.Repeat([]byte{0x42}, 20)...), 0x87), // PUSHDATA1 form
	append(append([]byte{0xa9, 0x14}, bytes.Repeat([]byte{0xac}, 20)...), 0x87),       // P2SH whose hash bytes look like CHECKSIG
}

// witness-program-like pkScripts
var progScripts = func() [][]byte {
	mk := func(ver byte, n int) []byte {
		return append([]byte{ver, byte(n)}, bytes.Repeat([]byte{0x33}, n)...)
	}
	out := [][]byte{
		mk(0x00, 20), mk(0x00, 32), // P2WPKH, P2WSH
		mk(0x51, 32), mk(0x51, 20), // taproot, v1 20 bytes
		mk(0x60, 32), mk(0x60, 2), mk(0x60, 40), // v16
		mk(0x00, 2), mk(0x00, 19), mk(0x00, 21), mk(0x00, 31), mk(0x00, 33), mk(0x00, 40),
		mk(0x00, 41), // 43 bytes: too long
		mk(0x00, 1),  // 3 bytes: too short
		mk(0x4f, 20), // OP_1NEGATE is not a version
		mk(0x50, 32), // OP_RESERVED is not a version
		mk(0x61, 20),
		append(mk(0x00, 20), 0x61), // trailing opcode
		append([]byte{0x00, 0x4c, 0x14}, bytes.Repeat([]byte{0x33}, 20)...), // PUSHDATA1 program
		append([]byte{0x00, 0x14}, bytes.Repeat([]byte{0x33}, 19)...),       // short data
		{0x00, 0x51, 0x51, 0x51}, // OP_0 then non-push bytes
		{0x51, 0x02, 0xac, 0xac}, // v1, 2-byte program
	}
	return out
}()

func runSigops(c *Case) string {
	switch c.Sub {
	case "sigops-legacy":
		s := unhx(c.Script)
		got := txscript.GetSigOpCount(s)
		want := ref.SigOps(s, false)
		if got != want {
			return fmt.Sprintf("GetSigOpCount(%x) = %d, definition %d", s, got, want)
		}
		// the accurate counter, as used for non-P2SH scripts
		got = txscript.GetPreciseSigOpCount(nil, s, true)
		want = ref.P2SHSigOps(s, nil)
		if got != want {
			return fmt.Sprintf("GetPreciseSigOpCount(nil, %x) = %d, definition (accurate count) %d", s, got, want)
		}
	case "sigops-p2sh":
		sig, pk := unhx(c.Sig), unhx(c.Pk)
		got := txscript.GetPreciseSigOpCount(sig, pk, true)
		want := ref.P2SHSigOps(pk, sig)
		if got != want {
			return fmt.Sprintf("GetPreciseSigOpCount(sig=%x, pk=%x) = %d, definition %d", sig, pk, got, want)
		}
		if txscript.IsPayToScriptHash(pk) != ref.IsP2SH(pk) {
			return fmt.Sprintf("IsPayToScriptHash(%x) = %v, definition %v", pk, txscript.IsPayToScriptHash(pk), ref.IsP2SH(pk))
		}
	case "sigops-witness":
		sig, pk, wit := unhx(c.Sig), unhx(c.Pk), unhxs(c.Wit)
		got := txscript.GetWitnessSigOpCount(sig, pk, wire.TxWitness(wit))
		want := ref.CountWitnessSigOps(sig, pk, wit)
		if got != want {
			return fmt.Sprintf("GetWitnessSigOpCount(sig=%x, pk=%x, witness=%x) = %d, definition %d", sig, pk, wit, got, want)
		}
	case "sigopcost":
		return runSigopCost(c)
	}
	return ""
}

func runSigopCost(c *Case) string {
	t := &ref.Tx{Version: 1}
	view := blockchain.NewUtxoViewpoint()
	var prev [][]byte
	if c.CB {
		sig := []byte{0x01, 0x01}
		if len(c.Inputs) > 0 {
			sig = unhx(c.Inputs[0].Sig)
		}
		in := ref.TxIn{PrevIndex: 0xffffffff, SigScript: sig, Sequence: 0xffffffff}
		if len(c.Inputs) > 0 && len(c.Inputs[0].Wit) > 0 {
			in.Witness = unhxs(c.Inputs[0].Wit)
		}
		t.In = []ref.TxIn{in}
		prev = [][]byte{nil}
	} else {
		for i, in := range c.Inputs {
			pk := unhx(in.Pk)
			src := &wire.MsgTx{Version: 1, LockTime: uint32(i)}
			src.TxOut = []*wire.TxOut{{Value: 1, PkScript: pk}}
			srcTx := btcutil.NewTx(src)
			view.AddTxOuts(srcTx, 10)
			op := wire.OutPoint{Hash: *srcTx.Hash(), Index: 0}
			e := view.LookupEntry(op)
			if e == nil {
				// AddTxOuts drops provably unspendable scripts: such an output can
				// never be spent, the case is outside the domain
				return ""
			}
			if !bytes.Equal(e.PkScript(), pk) {
				r.Broken("utxo view returned a different pkScript than was stored")
			}
			ti := ref.TxIn{PrevHash: ref.Hash(op.Hash), PrevIndex: 0, SigScript: unhx(in.Sig), Sequence: 0xffffffff}
			if len(in.Wit) > 0 {
				ti.Witness = unhxs(in.Wit)
			}
			t.In = append(t.In, ti)
			prev = append(prev, pk)
		}
	}
	for i, o := range c.OutPks {
		t.Out = append(t.Out, ref.TxOut{Value: int64(i), PkScript: unhx(o)})
	}
	ut := btcutil.NewTx(toWire(t))
	isCB := blockchain.IsCoinBase(ut)
	if isCB != t.IsCoinBase() || isCB != c.CB {
		return fmt.Sprintf("IsCoinBase = %v, definition %v", isCB, t.IsCoinBase())
	}
	if got, want := blockchain.CountSigOps(ut), ref.TxLegacySigOps(t); got != want {
		return fmt.Sprintf("CountSigOps = %d, definition (GetLegacySigOpCount) %d", got, want)
	}
	got, err := blockchain.CountP2SHSigOps(ut, isCB, view)
	if err != nil {
		return fmt.Sprintf("CountP2SHSigOps failed although every input is in the view: %v", err)
	}
	if want := ref.TxP2SHSigOps(t, prev); got != want {
		return fmt.Sprintf("CountP2SHSigOps = %d, definition (GetP2SHSigOpCount) %d", got, want)
	}
	cost, err := blockchain.GetSigOpCost(ut, isCB, view, c.Bip16, c.SegWit)
	if err != nil {
		return fmt.Sprintf("GetSigOpCost failed although every input is in the view: %v", err)
	}
	if want := ref.TxSigOpCost(t, prev, c.Bip16, c.SegWit); cost != want {
		return fmt.Sprintf("GetSigOpCost(bip16=%v, segwit=%v) = %d, definition 4*(legacy %d + p2sh %d) + witness = %d",
			c.Bip16, c.SegWit, cost, ref.TxLegacySigOps(t), ref.TxP2SHSigOps(t, prev), want)
	}
	return ""
}

func enumSigops() bool {
	maxLen := 3
	if r.Thorough() {
		maxLen = 4
	}
	scripts := tokenScripts(maxLen)
	r.Set("sigop_token_alphabet_size", len(sigTokens))
	r.Set("sigop_token_scripts", len(scripts))

	// (a) legacy / accurate counters on every token script
	var nParseFail, nCounted int64
	chunk := 4096
	parDo((len(scripts)+chunk-1)/chunk, func(ci int) {
		lo, hi := ci*chunk, (ci+1)*chunk
		if hi > len(scripts) {
			hi = len(scripts)
		}
		for i := lo; i < hi; i++ {
			s := scripts[i]
			c := &Case{Sub: "sigops-legacy", Script: hx(s)}
			check(c)
			cnt := ref.SigOps(s, true)
			trunc := !parses(s)
			if cnt > 0 || trunc {
				r.NontrivialBytes(append([]byte("L"), s...))
			}
			if trunc {
				atomic.AddInt64(&nParseFail, 1)
			}
			if cnt > 0 {
				atomic.AddInt64(&nCounted, 1)
			}
			if i == 70000 {
				r.Sample(c)
			}
		}
	})
	r.Add("sigops_legacy_cases", int64(len(scripts)))
	r.Add("sigops_legacy_scripts_with_truncated_push", nParseFail)
	r.Add("sigops_legacy_scripts_with_sigops", nCounted)

	// (a2) every byte string of length <= 2 (quick) / <= 3 (thorough)
	byteLen := 2
	if r.Thorough() {
		byteLen = 3
	}
	total := 1
	for l := 1; l <= byteLen; l++ {
		n := 1
		for j := 0; j < l; j++ {
			n *= 256
		}
		total += n
	}
	parDo(256, func(b0 int) {
		var rec func(cur []byte)
		rec = func(cur []byte) {
			c := &Case{Sub: "sigops-legacy", Script: hx(cur)}
			check(c)
			if len(cur) == byteLen {
				return
			}
			for b := 0; b < 256; b++ {
				rec(append(cur, byte(b)))
			}
		}
		rec([]byte{byte(b0)})
	})
	r.Add("sigops_all_byte_strings_cases", int64(total-1))
	r.Set("sigops_all_byte_strings_max_len", byteLen)

	// (b) P2SH: scriptSig = prefix tokens + push(redeem script), and raw token
	// scripts as scriptSig; pkScript = P2SH and near misses
	redeems := tokenScripts(2)
	prefixes := tokenScripts(1)
	var nP2SH int64
	parDo(len(redeems), func(i int) {
		red := redeems[i]
		for _, pre := range prefixes {
			for form := 0; form < 2; form++ {
				var sig []byte
				if form == 0 {
					sig = append(append([]byte(nil), pre...), pushOf(red)...)
				} else {
					// redeem script pushed, then one more token after it
					sig = append(append([]byte(nil), pushOf(red)...), pre...)
					if len(pre) == 0 {
						continue
					}
				}
				c := &Case{Sub: "sigops-p2sh", Sig: hx(sig), Pk: hx(p2shPk)}
				check(c)
				atomic.AddInt64(&nP2SH, 1)
				if ref.P2SHSigOps(p2shPk, sig) > 0 {
					r.NontrivialBytes(append([]byte("P"), sig...))
				}
			}
		}
	})
	raw := tokenScripts(3)
	parDo((len(raw)+chunk-1)/chunk, func(ci int) {
		lo, hi := ci*chunk, (ci+1)*chunk
		if hi > len(raw) {
			hi = len(raw)
		}
		for i := lo; i < hi; i++ {
			c := &Case{Sub: "sigops-p2sh", Sig: hx(raw[i]), Pk: hx(p2shPk)}
			check(c)
			atomic.AddInt64(&nP2SH, 1)
			if ref.P2SHSigOps(p2shPk, raw[i]) > 0 {
				r.NontrivialBytes(append([]byte("P"), raw[i]...))
			}
		}
	})
	sigsSmall := [][]byte{nil, pushOf([]byte{0xac}), pushOf([]byte{0x52, 0xae}), {0x61}, append([]byte{0x61}, pushOf([]byte{0xac})...)}
	for _, pk := range nearP2SH {
		for _, sig := range sigsSmall {
			c := &Case{Sub: "sigops-p2sh", Sig: hx(sig), Pk: hx(pk)}
			check(c)
			nP2SH++
			r.NontrivialBytes(append(append([]byte("N"), pk...), sig...))
		}
	}
	r.Add("sigops_p2sh_cases", nP2SH)
	r.Sample(&Case{Sub: "sigops-p2sh", Sig: hx(append([]byte{0x00}, pushOf([]byte{0x53, 0xae})...)), Pk: hx(p2shPk)})

	// (c) witness sigops: direct programs and P2SH-nested programs
	wscripts := tokenScripts(2)
	var nWit int64
	parDo(len(progScripts), func(pi int) {
		prog := progScripts[pi]
		// direct
		witnesses := [][][]byte{nil, {}, {{}}}
		for _, ws := range wscripts {
			witnesses = append(witnesses, [][]byte{ws}, [][]byte{{0x01}, ws}, [][]byte{ws, {0x01}})
		}
		for _, w := range witnesses {
			for _, sig := range [][]byte{nil, {0x51}} {
				c := &Case{Sub: "sigops-witness", Sig: hx(sig), Pk: hx(prog), Wit: hxs(w)}
				check(c)
				atomic.AddInt64(&nWit, 1)
				if ref.CountWitnessSigOps(sig, prog, w) > 0 {
					r.Nontrivial(keyOf(c))
				}
			}
		}
		// nested in P2SH
		nestedSigs := [][]byte{
			pushOf(prog),
			append([]byte{0x00}, pushOf(prog)...),
			append(pushOf([]byte{0xac}), pushOf(prog)...),
			append([]byte{0x61}, pushOf(prog)...),          // not push only
			append(pushOf(prog), 0x51),                     // last op is OP_1
			append(pushOf(prog), 0x00),                     // last op is OP_0
			append(pushOf(prog), 0x4c),                     // trailing truncated push
			append([]byte{0x4c, byte(len(prog))}, prog...), // non-minimal push of the program
			prog, // the program itself as scriptSig
		}
		nestWits := [][][]byte{nil, {{0xac}}, {{0x52, 0xae}}, {{0x01}, {0xac, 0xac}}, {{0xac, 0x4c}}}
		for _, sig := range nestedSigs {
			for _, w := range nestWits {
				for _, pk := range nearP2SH[:3] {
					c := &Case{Sub: "sigops-witness", Sig: hx(sig), Pk: hx(pk), Wit: hxs(w)}
					check(c)
					atomic.AddInt64(&nWit, 1)
					if ref.CountWitnessSigOps(sig, pk, w) > 0 {
						r.Nontrivial(keyOf(c))
					}
				}
			}
		}
	})
	r.Add("sigops_witness_cases", nWit)
	r.Set("witness_program_shapes", len(progScripts))

	// (d) whole transactions: GetSigOpCost = 4*(legacy + P2SH) + witness
	type ik struct {
		sig, pk []byte
		wit     [][]byte
	}
	redeemMS := []byte{0x52, 0x53, 0xae}                                    // OP_2 OP_3 CHECKMULTISIG: accurate 3, legacy 20
	p2wpkh := append([]byte{0x00, 0x14}, bytes.Repeat([]byte{0x33}, 20)...) //
	p2wsh := append([]byte{0x00, 0x20}, bytes.Repeat([]byte{0x33}, 32)...)  //
	p2tr := append([]byte{0x51, 0x20}, bytes.Repeat([]byte{0x33}, 32)...)   //
	kinds := []ik{
		{sig: pushOf([]byte{0x30}), pk: []byte{0x76, 0xa9, 0x14, 1, 2, 3, 4, 5, 6, 7, 8, 9, 10, 11, 12, 13, 14, 15, 16, 17, 18, 19, 20, 0x88, 0xac}}, // P2PKH
		{sig: nil, pk: []byte{0x51, 0xae}},                                                                   // bare multisig OP_1 CHECKMULTISIG (legacy counts 20 in the OUTPUT only; as a prevout nothing)
		{sig: []byte{0xac, 0xac}, pk: []byte{0x51}},                                                          // sigops inside the scriptSig
		{sig: append([]byte{0x00}, pushOf(redeemMS)...), pk: p2shPk},                                         // P2SH multisig
		{sig: pushOf([]byte{0xac, 0xad}), pk: p2shPk},                                                        // P2SH 2 sigops
		{sig: append([]byte{0x61}, pushOf(redeemMS)...), pk: p2shPk},                                         // P2SH, scriptSig not push-only
		{sig: append(pushOf(redeemMS), 0x51), pk: p2shPk},                                                    // P2SH, last op OP_1
		{sig: nil, pk: p2shPk},                                                                               // P2SH, empty scriptSig
		{sig: nil, pk: p2wpkh, wit: [][]byte{{0x30}, {0x02}}},                                                // P2WPKH
		{sig: nil, pk: p2wsh, wit: [][]byte{{}, {0x30}, redeemMS}},                                           // P2WSH multisig
		{sig: nil, pk: p2wsh, wit: [][]byte{{0xac, 0xae, 0x4c}}},                                             // P2WSH, witness script truncated after 21 sigops
		{sig: nil, pk: p2wsh},                                                                                // P2WSH without witness
		{sig: nil, pk: p2wpkh},                                                                               // P2WPKH without witness: 1 sigop from the spent script alone
		{sig: pushOf(p2wpkh), pk: p2shPk},                                                                    // P2SH-P2WPKH without witness: also 1
		{sig: nil, pk: p2wpkh, wit: [][]byte{{}}},                                                            // P2WPKH with one empty witness item
		{sig: pushOf(p2wpkh), pk: p2shPk, wit: [][]byte{{0x30}, {0x02}}},                                     // P2SH-P2WPKH
		{sig: pushOf(p2wsh), pk: p2shPk, wit: [][]byte{{0x30}, {0x55, 0xaf}}},                                // P2SH-P2WSH
		{sig: append([]byte{0x61}, pushOf(p2wsh)...), pk: p2shPk, wit: [][]byte{{0xac}}},                     // nested but not push-only
		{sig: nil, pk: p2tr, wit: [][]byte{bytes.Repeat([]byte{0x01}, 64)}},                                  // taproot key path
		{sig: nil, pk: p2tr, wit: [][]byte{{0xac, 0xba}, {0xc0}}},                                            // taproot script path
		{sig: nil, pk: append([]byte{0x00, 0x15}, bytes.Repeat([]byte{0x33}, 21)...), wit: [][]byte{{0xac}}}, // v0, 21 bytes
		{sig: pushOf([]byte{0xac}), pk: nearP2SH[1], wit: [][]byte{{0xac}}},                                  // near-P2SH (EQUALVERIFY)
		{sig: pushOf([]byte{0xac}), pk: nearP2SH[7]},                                                         // P2SH whose hash is 0xac..
	}
	outSets := [][][]byte{
		{},
		{{0xac}},
		{{0x51, 0xae}, {0x76, 0xa9, 0x01, 0xac, 0x88, 0xac}, p2wsh},
		{{0xae, 0x4c}, {0x6a, 0xac}},
	}
	var cases []*Case
	mk := func(ins []ik, outs [][]byte, b16, sw, cb bool) {
		c := &Case{Sub: "sigopcost", Bip16: b16, SegWit: sw, CB: cb, OutPks: hxs(outs)}
		for _, k := range ins {
			c.Inputs = append(c.Inputs, SpendIn{Sig: hx(k.sig), Pk: hx(k.pk), Wit: hxs(k.wit)})
		}
		cases = append(cases, c)
	}
	for _, b16 := range []bool{false, true} {
		for _, sw := range []bool{false, true} {
			for _, outs := range outSets {
				for _, a := range kinds {
					mk([]ik{a}, outs, b16, sw, false)
					for _, b := range kinds {
						mk([]ik{a, b}, outs, b16, sw, false)
					}
				}
				// coinbases (scriptSig with sigop-looking bytes, optional witness nonce)
				mk([]ik{{sig: []byte{0x01, 0x01, 0xac, 0xae}}}, outs, b16, sw, true)
				mk([]ik{{sig: []byte{0x01, 0x01}, wit: [][]byte{make([]byte, 32)}}}, outs, b16, sw, true)
			}
		}
	}
	if r.Thorough() {
		for _, a := range kinds {
			for _, b := range kinds {
				for _, d := range kinds {
					mk([]ik{a, b, d}, outSets[2], true, true, false)
				}
			}
		}
	}
	parDo(len(cases), func(i int) {
		check(cases[i])
		r.Nontrivial(keyOf(cases[i]))
		if i == 4321 {
			r.Sample(cases[i])
		}
	})
	r.Add("sigopcost_cases", int64(len(cases)))
	return true
}

// parses reports whether every operation of s parses.
func parses(s []byte) bool {
	pc := 0
	for pc < len(s) {
		_, next, ok := ref.GetOp(s, pc)
		if !ok {
			return false
		}
		pc = next
	}
	return true
}
