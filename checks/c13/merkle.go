package main

import (
	"fmt"
	"math/bits"

	"github.com/btcsuite/btcd/blockchain"
	"github.com/btcsuite/btcd/btcutil/v2"
	"github.com/btcsuite/btcd/chainhash/v2"

	ref "verif/ref/refmerkle"
)

const merkleMaxN = 33

// genTx is the deterministic transaction family used as merkle leaves.
// variant 0: no witness data anywhere; 1: every non-coinbase tx has witness
// data; 2: odd positions have witness data; 3: as 2, and the coinbase carries a
// witness nonce (its wtxid must still count as zero).
func genTx(i int, variant int) *ref.Tx {
	t := &ref.Tx{Version: 1, LockTime: uint32(i)}
	in := ref.TxIn{Sequence: 0xffffffff}
	if i == 0 {
		in.PrevIndex = 0xffffffff
		in.SigScript = []byte{0x01, 0x2a}
		if variant == 3 {
			in.Witness = [][]byte{make([]byte, 32)}
		}
	} else {
		in.PrevHash = ref.DSHA([]byte{byte(i), byte(i >> 8), 'p'})
		in.PrevIndex = uint32(i)
		in.SigScript = []byte{0x01, byte(i)}
		wit := variant == 1 || (variant >= 2 && i%2 == 1)
		if wit {
			in.Witness = [][]byte{{byte(i)}, {0x51}}
		}
	}
	t.In = []ref.TxIn{in}
	t.Out = []ref.TxOut{{Value: int64(1000 + i), PkScript: []byte{0x51}}}
	return t
}

func merkleList(c *Case) []*ref.Tx {
	var txs []*ref.Tx
	for i := 0; i < c.N; i++ {
		txs = append(txs, genTx(i, c.Variant))
	}
	if c.Dup && c.N > 0 {
		txs = append(txs, genTx(c.N-1, c.Variant)) // CVE-2012-2459 shape
	}
	return txs
}

func runMerkle(c *Case) string {
	txs := merkleList(c)
	n := len(txs)
	var leaves []ref.Hash
	if c.Witness {
		leaves = ref.WitnessLeaves(txs)
	} else {
		for _, t := range txs {
			leaves = append(leaves, t.TxID())
		}
	}
	want := ref.MerkleRoot(leaves)
	if c.Dup && c.N%2 == 1 && c.N > 1 {
		// definition sanity: duplicating the last entry of an odd list does not
		// change the root (the well-known malleability)
		if ref.MerkleRoot(leaves[:c.N]) != want {
			r.Broken("reference merkle root is not invariant under duplicating the last odd leaf (n=%d)", c.N)
		}
	}

	// the leaves themselves (txid / wtxid as btcd computes them)
	ut := utilTxs(txs)
	for i, t := range ut {
		if got := ref.Hash(*t.Hash()); got != txs[i].TxID() {
			return fmt.Sprintf("Tx.Hash of leaf %d = %x, definition %x", i, got, txs[i].TxID())
		}
		if got := ref.Hash(*t.WitnessHash()); got != txs[i].WTxID() {
			return fmt.Sprintf("Tx.WitnessHash of leaf %d = %x, definition %x", i, got, txs[i].WTxID())
		}
	}

	// path 1: CalcMerkleRoot
	if got := ref.Hash(blockchain.CalcMerkleRoot(utilTxs(txs), c.Witness)); got != want {
		return fmt.Sprintf("CalcMerkleRoot(%d txs, witness=%v) = %x, definition %x", n, c.Witness, got, want)
	}

	// path 2: BuildMerkleTreeStore (root = last element; interior nodes as documented)
	store := blockchain.BuildMerkleTreeStore(utilTxs(txs), c.Witness)
	if len(store) == 0 || store[len(store)-1] == nil {
		return fmt.Sprintf("BuildMerkleTreeStore(%d txs, witness=%v): no root element", n, c.Witness)
	}
	if got := ref.Hash(*store[len(store)-1]); got != want {
		return fmt.Sprintf("BuildMerkleTreeStore(%d txs, witness=%v) root = %x, definition %x", n, c.Witness, got, want)
	}
	pot := 1
	for pot < n {
		pot <<= 1
	}
	if len(store) != 2*pot-1 {
		return fmt.Sprintf("BuildMerkleTreeStore(%d txs): store has %d entries, documented linear layout has %d", n, len(store), 2*pot-1)
	}
	levels := ref.MerkleLevels(leaves)
	off, width := 0, pot
	for lv := 0; width >= 1; lv++ {
		for j := 0; j < width; j++ {
			e := store[off+j]
			if lv < len(levels) && j < len(levels[lv]) {
				if e == nil || ref.Hash(*e) != levels[lv][j] {
					return fmt.Sprintf("BuildMerkleTreeStore(%d txs, witness=%v): node level %d index %d = %v, definition %x", n, c.Witness, lv, j, e, levels[lv][j])
				}
			} else if e != nil {
				return fmt.Sprintf("BuildMerkleTreeStore(%d txs): node level %d index %d should be empty, is %v", n, lv, j, e)
			}
		}
		off += width
		width >>= 1
	}

	// path 3: the rolling store with capacity hints that differ from n
	for _, hint := range []uint64{0, 1, uint64(n), uint64(n + 1), uint64(2 * n), 64, 1 << 20} {
		if got := ref.Hash(blockchain.VerifRollingMerkleRoot(hint, utilTxs(txs), c.Witness)); got != want {
			return fmt.Sprintf("rolling merkle root (hint %d, %d txs, witness=%v) = %x, definition %x", hint, n, c.Witness, got, want)
		}
	}

	// path 4: rolling add: after n leaves the store holds the roots of the
	// perfect sub-trees given by the binary representation of n
	ch := make([]chainhash.Hash, n)
	for i := range leaves {
		ch[i] = chainhash.Hash(leaves[i])
	}
	roots := blockchain.VerifRollingMerkleAdd(0, ch)
	if len(roots) != bits.OnesCount(uint(n)) {
		return fmt.Sprintf("rolling add of %d leaves holds %d roots, want %d", n, len(roots), bits.OnesCount(uint(n)))
	}
	pos, k := 0, 0
	for b := bits.Len(uint(n)) - 1; b >= 0; b-- {
		if n&(1<<uint(b)) == 0 {
			continue
		}
		sub := ref.MerkleRoot(leaves[pos : pos+(1<<uint(b))])
		if ref.Hash(roots[k]) != sub {
			return fmt.Sprintf("rolling add of %d leaves: root %d = %x, definition %x", n, k, roots[k], sub)
		}
		pos += 1 << uint(b)
		k++
	}
	return ""
}

func enumMerkle() bool {
	cnt := 0
	for n := 1; n <= merkleMaxN; n++ {
		for _, dup := range []bool{false, true} {
			for _, wit := range []bool{false, true} {
				for variant := 0; variant < 4; variant++ {
					c := &Case{Sub: "merkle", N: n, Dup: dup, Witness: wit, Variant: variant}
					check(c)
					cnt++
					if n+b2i(dup) >= 2 {
						r.Nontrivial(keyOf(c))
					}
					if n == 7 && dup && wit && variant == 2 {
						r.Sample(c)
					}
				}
			}
		}
	}
	r.Add("merkle_cases", int64(cnt))

	// n = 0: no block may have zero transactions (checkBlockSanity and
	// ValidateWitnessCommitment reject it before any merkle computation), so the
	// protocol defines no root.  Executed for the record only.
	var empty []*btcutil.Tx
	obs := map[string]string{}
	obs["CalcMerkleRoot"] = guard(func() string {
		h := blockchain.CalcMerkleRoot(empty, false)
		return fmt.Sprintf("returned %x", h[:])
	})
	obs["BuildMerkleTreeStore"] = guard(func() string {
		s := blockchain.BuildMerkleTreeStore(empty, false)
		return fmt.Sprintf("returned %d entries", len(s))
	})
	r.Set("merkle_n0_observation_not_judged", obs)
	return true
}

func b2i(b bool) int {
	if b {
		return 1
	}
	return 0
}
