package main

import (
	"fmt"
	"sync/atomic"
	"time"

	"github.com/btcsuite/btcd/blockchain"
	"github.com/btcsuite/btcd/btcutil/v2"
	"github.com/btcsuite/btcd/chainhash/v2"
	"github.com/btcsuite/btcd/wire/v2"

	"verif/lab"
	ref "verif/ref/refmerkle"
)

// Sequence locks from the point of view of a block that is NOT on the best
// chain: checkConnectBlock computes them there when a side branch is validated
// during a reorganisation.  BIP68 anchors every time-based lock at the median
// time past of the block before the one that created the input *on the
// spending block's own chain*; with a side branch whose timestamps differ from
// the best chain's at the same heights, an implementation that looks the anchor
// up by height on the best chain gives a different answer (or finds no block
// at all when the side branch is the taller one).
//
// World: a best chain of lockChainLen blocks with timestamp pattern pm and a
// side branch forking at height `fork`, as long as the best chain (equal work,
// delivered second: it stays inactive), with timestamp pattern ps.  The real
// function is reached through the hook VerifCalcSequenceLockAt.

type sideCtx struct {
	pm, ps, fork int
	chain        *lab.Chain
	blks         []*lab.Blk // the side branch's chain: blks[h], trunk below the fork
	ts           []int64    // timestamps of that chain
}

func newSideCtx(pm, ps, fork int) (*sideCtx, error) {
	x := &sideCtx{pm: pm, ps: ps, fork: fork}
	params := lockParams(true)
	ch, err := lab.NewChain(params, lab.ChainOpts{})
	if err != nil {
		return nil, err
	}
	x.chain = ch
	mts := patternTimestamps(pm)
	main := []*lab.Blk{lab.Genesis(params)}
	for h := 1; h <= lockChainLen; h++ {
		b := lab.Build(params, main[h-1], lab.BOpt{Time: time.Unix(mts[h], 0), Tag: uint32(1000*pm + h)})
		main = append(main, b)
		isMain, isOrphan, err := ch.BC.ProcessBlock(b.Block(), blockchain.BFNone)
		if err != nil || !isMain || isOrphan {
			ch.Destroy()
			return nil, fmt.Errorf("best-chain block %d not connected: %v", h, err)
		}
	}
	sts := patternTimestamps(ps)
	x.blks = append(x.blks, main[:fork+1]...)
	x.ts = append(x.ts, mts[:fork+1]...)
	for h := fork + 1; h <= lockChainLen; h++ {
		cand := sts[h]
		if m := ref.MedianTimePast(x.ts, h-1); cand <= m {
			cand = m + 1
		}
		if cand == mts[h] {
			cand++
		}
		b := lab.Build(params, x.blks[h-1], lab.BOpt{Time: time.Unix(cand, 0), Tag: uint32(500000 + 1000*ps + h)})
		isMain, isOrphan, err := ch.BC.ProcessBlock(b.Block(), blockchain.BFNone)
		if err != nil || isMain || isOrphan {
			ch.Destroy()
			return nil, fmt.Errorf("side block %d: main=%v orphan=%v err=%v", h, isMain, isOrphan, err)
		}
		x.blks = append(x.blks, b)
		x.ts = append(x.ts, cand)
	}
	if best := ch.BC.BestSnapshot(); best.Hash != main[lockChainLen].Hash {
		ch.Destroy()
		return nil, fmt.Errorf("the side branch became the best chain")
	}
	return x, nil
}

func (x *sideCtx) run(c *Case) string {
	return guard(func() string {
		h := c.Tip
		view := blockchain.NewUtxoViewpoint()
		t := &ref.Tx{Version: c.Version, Out: []ref.TxOut{{Value: 1, PkScript: []byte{0x51}}}}
		var prevHeights []int
		for i, a := range c.Ages {
			src := &wire.MsgTx{Version: 1, LockTime: uint32(a + 10)}
			for j := 0; j <= i; j++ {
				src.TxOut = append(src.TxOut, &wire.TxOut{Value: int64(j + 1), PkScript: []byte{0x51}})
			}
			st := btcutil.NewTx(src)
			height := int32(a)
			if a == -1 {
				height = mempoolHeight
				prevHeights = append(prevHeights, h+1)
			} else {
				prevHeights = append(prevHeights, a)
			}
			view.AddTxOuts(st, height)
			t.In = append(t.In, ref.TxIn{PrevHash: ref.Hash(*st.Hash()), PrevIndex: uint32(i), Sequence: c.Seqs[i]})
		}
		ts := x.ts[:h+1]
		prevMTP := ref.MedianTimePast(ts, h)
		wantH, wantT := ref.CalculateSequenceLocks(t, true, prevHeights, ts)
		sat := ref.BIP68Satisfied(t, true, prevHeights, ts, h+1, prevMTP)
		if ref.EvaluateSequenceLocks(wantH, wantT, int64(h+1), prevMTP) != sat {
			r.Broken("reference: (height,time) pair and the per-input BIP68 statement disagree for %s", keyOf(c))
		}
		hash := chainhash.Hash(x.blks[h].Hash)
		lock, err := x.chain.BC.VerifCalcSequenceLockAt(&hash, btcutil.NewTx(toWire(t)), view, c.Mempool)
		if err != nil || lock == nil {
			return fmt.Sprintf("calcSequenceLock at side-branch block %d failed: %v", h, err)
		}
		if int64(lock.BlockHeight) != wantH || lock.Seconds != wantT {
			return fmt.Sprintf("calcSequenceLock from side-branch block %d (fork at %d; version %d, sequences %x, input heights %v, mempool=%v; own chain's timestamps %v) = {Seconds:%d BlockHeight:%d}, BIP68 definition on the block's own ancestors {Seconds:%d BlockHeight:%d}",
				h, x.fork, c.Version, c.Seqs, prevHeights, c.Mempool, ts, lock.Seconds, lock.BlockHeight, wantT, wantH)
		}
		if active := blockchain.SequenceLockActive(lock, int32(h+1), time.Unix(prevMTP, 0)); active != sat {
			return fmt.Sprintf("SequenceLockActive(calcSequenceLock at side-branch block %d) = %v, BIP68 says %v", h, active, sat)
		}
		return ""
	})
}

func runSeqlockSideStandalone(c *Case) string {
	x, err := newSideCtx(c.Pattern, c.SidePattern, c.Fork)
	if err != nil {
		r.Broken("cannot create side-branch world: %v", err)
	}
	defer x.chain.Destroy()
	return x.run(c)
}

func enumSeqlockSide() bool {
	type job struct{ pm, ps, fork int }
	var jobs []job
	for pm := 0; pm < nPatterns; pm++ {
		for ps := 0; ps < nPatterns; ps++ {
			if pm == ps {
				continue
			}
			for _, f := range []int{2, 6, 10} {
				jobs = append(jobs, job{pm, ps, f})
			}
		}
	}
	var total, timeAboveFork int64
	var capped int32
	parDo(len(jobs), func(ji int) {
		j := jobs[ji]
		if r.Expired() {
			atomic.StoreInt32(&capped, 1)
			return
		}
		x, err := newSideCtx(j.pm, j.ps, j.fork)
		if err != nil {
			r.Broken("cannot create side-branch world: %v", err)
		}
		defer x.chain.Destroy()
		one := func(c *Case) {
			r.Eval(1)
			r.Trace(1)
			atomic.AddInt64(&total, 1)
			if msg := x.run(c); msg != "" {
				report(c, msg, runSeqlockSideStandalone)
				return
			}
			if c.Version >= 2 {
				for i, s := range c.Seqs {
					if s&ref.SeqDisable == 0 && s&ref.SeqTypeFlag != 0 && c.Ages[i] > j.fork+1 {
						atomic.AddInt64(&timeAboveFork, 1)
						r.Nontrivial(keyOf(c))
						break
					}
				}
			}
		}
		for h := j.fork + 1; h <= lockChainLen; h++ {
			var ages []int
			seen := map[int]bool{}
			for _, a := range []int{-1, 0, j.fork, j.fork + 1, j.fork + 2, h - 1, h} {
				if a >= -1 && a <= h && !seen[a] {
					seen[a] = true
					ages = append(ages, a)
				}
			}
			small := []int{j.fork, h}
			if j.fork+2 <= h {
				small = append(small, j.fork+2)
			}
			for _, mempool := range []bool{true, false} {
				for _, ver := range []int32{2, 1} {
					base := Case{Sub: "seqlock-side", Pattern: j.pm, SidePattern: j.ps, Fork: j.fork, CSV: true, Tip: h, Version: ver, Mempool: mempool}
					for _, s := range seqFull {
						for _, a := range ages {
							c := base
							c.Seqs, c.Ages = []uint32{s}, []int{a}
							one(&c)
						}
					}
					for _, sa := range seqSmall {
						for _, aa := range small {
							for _, sb := range seqSmall {
								for _, ab := range small {
									c := base
									c.Seqs, c.Ages = []uint32{sa, sb}, []int{aa, ab}
									one(&c)
								}
							}
						}
					}
				}
			}
		}
	})
	r.Add("seqlock_side_cases", total)
	r.Add("seqlock_side_cases_with_time_lock_on_input_created_above_the_fork", timeAboveFork)
	if capped != 0 {
		r.Cap("seqlock-side: time box hit before every side-branch world was enumerated")
		return false
	}
	return true
}
