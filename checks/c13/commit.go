package main

import (
	"bytes"
	"fmt"

	"github.com/btcsuite/btcd/blockchain"
	"github.com/btcsuite/btcd/btcutil/v2"
	"github.com/btcsuite/btcd/wire/v2"

	ref "verif/ref/refmerkle"
)

// coinbase output kinds
const (
	okUnrelated  = iota // OP_TRUE
	okCommit            // header + correct commitment (38 bytes)
	okWrongMagic        // 38 bytes, one header byte altered, correct commitment
	okShort37           // header + first 31 bytes of the correct commitment
	okLong39            // header + correct commitment + one more byte (valid: >= 38)
	okWrongHash         // header + commitment with the last byte flipped (38 bytes)
	nOutKinds
)

var outKindNames = []string{"unrelated", "commitment", "wrong-magic", "short-37", "long-39", "header-wrong-hash"}

// coinbase witness stack shapes (item lengths); -1 = no witness at all
var stackShapes = [][]int{nil, {0}, {31}, {32}, {33}, {32, 32}, {32, 0}, {0, 32}}

// extra (non-coinbase) transactions: true = carries witness data
var extraShapes = [][]bool{{}, {false}, {true}, {false, true}, {true, true}, {true, false, true}}

func buildCommitBlock(c *Case) []*ref.Tx {
	cb := &ref.Tx{Version: 2}
	in := ref.TxIn{PrevIndex: 0xffffffff, SigScript: []byte{0x01, 0x33}, Sequence: 0xffffffff}
	shape := stackShapes[c.Stack]
	var nonce []byte
	for k, l := range shape {
		item := make([]byte, l)
		if c.Nonce != 0 {
			for j := range item {
				item[j] = byte(0x10*(k+1) + j)
			}
		}
		in.Witness = append(in.Witness, item)
	}
	// the nonce the "correct" commitment is computed with: the first stack
	// item if it has 32 bytes, else 32 zero bytes
	if len(in.Witness) > 0 && len(in.Witness[0]) == 32 {
		nonce = in.Witness[0]
	} else {
		nonce = make([]byte, 32)
	}
	cb.In = []ref.TxIn{in}
	txs := []*ref.Tx{cb}
	for k, w := range extraShapes[c.Extra] {
		t := &ref.Tx{Version: 1, LockTime: uint32(k)}
		ti := ref.TxIn{PrevHash: ref.DSHA([]byte{byte(k), 'x'}), PrevIndex: uint32(k), Sequence: 0xfffffffe}
		if w {
			ti.Witness = [][]byte{{byte(k), 0xaa}}
		}
		t.In = []ref.TxIn{ti}
		t.Out = []ref.TxOut{{Value: 5, PkScript: []byte{0x51}}}
		txs = append(txs, t)
	}
	// witness root does not depend on the coinbase (its leaf is zero)
	root := ref.WitnessMerkleRoot(txs)
	commit := ref.DSHA(append(append([]byte(nil), root[:]...), nonce...))
	for pos, kind := range c.Layout {
		var s []byte
		switch kind {
		case okUnrelated:
			s = []byte{0x51}
		case okCommit:
			s = append(append(s, ref.CommitmentHeader...), commit[:]...)
		case okWrongMagic:
			s = append(append(s, ref.CommitmentHeader...), commit[:]...)
			s[(pos+2*len(c.Layout))%6] ^= 0x01
		case okShort37:
			s = append(append(s, ref.CommitmentHeader...), commit[:31]...)
		case okLong39:
			s = append(append(append(s, ref.CommitmentHeader...), commit[:]...), 0x00)
		case okWrongHash:
			s = append(append(s, ref.CommitmentHeader...), commit[:]...)
			s[37] ^= 0x80
		}
		cb.Out = append(cb.Out, ref.TxOut{Value: int64(pos), PkScript: s})
	}
	return txs
}

func runCommit(c *Case) string {
	txs := buildCommitBlock(c)
	pos, wantC := ref.FindWitnessCommitment(txs[0])
	verdict := ref.CheckWitnessCommitment(txs)

	mb := &wire.MsgBlock{Header: wire.BlockHeader{Version: 0x20000000}}
	for _, t := range txs {
		mb.Transactions = append(mb.Transactions, toWire(t))
	}
	blk := btcutil.NewBlock(mb)

	gotC, found := blockchain.ExtractWitnessCommitment(blk.Transactions()[0])
	if found != (pos >= 0) {
		return fmt.Sprintf("ExtractWitnessCommitment found=%v, definition: commitment output index %d (outputs %s)", found, pos, layoutNames(c.Layout))
	}
	if found && !bytes.Equal(gotC, wantC) {
		return fmt.Sprintf("ExtractWitnessCommitment returned %x, definition (last matching output, index %d) %x (outputs %s)", gotC, pos, wantC, layoutNames(c.Layout))
	}
	err := blockchain.ValidateWitnessCommitment(blk)
	if err != nil {
		if _, ok := err.(blockchain.RuleError); !ok {
			return fmt.Sprintf("ValidateWitnessCommitment returned a non-rule error %T %v", err, err)
		}
	}
	if (err == nil) != (verdict == ref.CommitOK) {
		return fmt.Sprintf("ValidateWitnessCommitment = %v, BIP141 verdict %s (outputs %s, coinbase witness item sizes %v, extra txs witness=%v)",
			err, verdict, layoutNames(c.Layout), stackShapes[c.Stack], extraShapes[c.Extra])
	}
	return ""
}

func layoutNames(l []int) string {
	s := "["
	for i, k := range l {
		if i > 0 {
			s += " "
		}
		s += outKindNames[k]
	}
	return s + "]"
}

func enumCommit() bool {
	var layouts [][]int
	var rec func(cur []int)
	rec = func(cur []int) {
		layouts = append(layouts, append([]int(nil), cur...))
		if len(cur) == 4 {
			return
		}
		for k := 0; k < nOutKinds; k++ {
			rec(append(cur, k))
		}
	}
	rec(nil)
	verdicts := make([]map[string]int64, len(layouts))
	parDo(len(layouts), func(i int) {
		verdicts[i] = map[string]int64{}
		for st := range stackShapes {
			for ex := range extraShapes {
				for nonce := 0; nonce < 2; nonce++ {
					c := &Case{Sub: "commit", Layout: layouts[i], Stack: st, Extra: ex, Nonce: nonce}
					check(c)
					txs := buildCommitBlock(c)
					verdicts[i][ref.CheckWitnessCommitment(txs)]++
					interesting := st != 0
					for _, k := range layouts[i] {
						if k != okUnrelated {
							interesting = true
						}
					}
					for _, w := range extraShapes[ex] {
						interesting = interesting || w
					}
					if interesting {
						r.Nontrivial(keyOf(c))
					}
					if i == 100 && st == 3 && ex == 3 && nonce == 1 {
						r.Sample(c)
					}
				}
			}
		}
	})
	tot := map[string]int64{}
	for _, v := range verdicts {
		for k, n := range v {
			tot[k] += n
		}
	}
	r.Set("commit_reference_verdicts", tot)
	r.Add("commit_cases", int64(len(layouts)*len(stackShapes)*len(extraShapes)*2))
	return true
}
