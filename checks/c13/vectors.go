package main

import (
	"bytes"
	"compress/bzip2"
	"encoding/binary"
	"encoding/hex"
	"encoding/json"
	"io"
	"os"
	"path/filepath"
	"strings"

	"github.com/btcsuite/btcd/wire/v2"

	ref "verif/ref/refmerkle"
)

// bindVectors runs vectors shipped in the btcd tree through the REFERENCE only.
// Any disagreement means the oracle is broken (exit 2), never a violation.
func bindVectors() {
	nBlocks, nTx := 0, 0
	for _, f := range []string{
		"blockchain/testdata/277647.dat.bz2",
		"blockchain/testdata/blk_0_to_4.dat.bz2",
		"blockchain/testdata/blk_3A.dat.bz2",
		"blockchain/testdata/blk_4A.dat.bz2",
		"blockchain/testdata/blk_5A.dat.bz2",
		"database/testdata/blocks1-256.bz2",
	} {
		b, t := bindBlockFile(filepath.Join(repoRoot(), f))
		nBlocks += b
		nTx += t
	}
	if nBlocks < 250 || nTx < 400 {
		r.Broken("shipped block vectors: only %d blocks / %d txs could be loaded", nBlocks, nTx)
	}
	nValid := bindTxValid(filepath.Join(repoRoot(), "txscript/data/tx_valid.json"))
	bindLiterals()
	r.Set("reference_bound_to", map[string]interface{}{
		"shipped_blocks_merkle_root_and_raw_serialization": nBlocks,
		"shipped_block_transactions":                       nTx,
		"tx_valid_json_serializations":                     nValid,
		"literal_vectors":                                  "blockchain/validate_test.go TestCheckSerializedHeight + TestSequenceLocksActive, txscript/script_test.go TestGetPreciseSigOps + TestGetWitnessSigOpCount, BIP141/BIP68 constants",
	})
}

// bindBlockFile: records are <magic u32><len u32><raw block>. For every block
// the reference serialization of the parsed transactions must reproduce the raw
// bytes, and the reference merkle root must equal the root stored in the header.
func bindBlockFile(path string) (int, int) {
	fi, err := os.Open(path)
	if err != nil {
		r.Broken("cannot open shipped vectors %s: %v", path, err)
	}
	defer fi.Close()
	var rd io.Reader = fi
	if strings.HasSuffix(path, ".bz2") {
		rd = bzip2.NewReader(fi)
	}
	blocks, txs := 0, 0
	for {
		var magic, l uint32
		if err := binary.Read(rd, binary.LittleEndian, &magic); err != nil {
			break
		}
		if err := binary.Read(rd, binary.LittleEndian, &l); err != nil {
			break
		}
		if l > 4_000_000 {
			r.Broken("%s: implausible block length %d", path, l)
		}
		raw := make([]byte, l)
		if _, err := io.ReadFull(rd, raw); err != nil {
			r.Broken("%s: truncated block record: %v", path, err)
		}
		var mb wire.MsgBlock
		if err := mb.Deserialize(bytes.NewReader(raw)); err != nil {
			r.Broken("%s: block %d does not parse: %v", path, blocks, err)
		}
		var rtx []*ref.Tx
		rebuilt := append([]byte(nil), raw[:80]...)
		rebuilt = append(rebuilt, ref.CompactSize(uint64(len(mb.Transactions)))...)
		for _, t := range mb.Transactions {
			rt := fromWire(t)
			rtx = append(rtx, rt)
			rebuilt = append(rebuilt, rt.Serialize(true)...)
		}
		if !bytes.Equal(rebuilt, raw) {
			r.Broken("%s block %d: reference serialization does not reproduce the shipped raw block", path, blocks)
		}
		var hdrRoot ref.Hash
		copy(hdrRoot[:], raw[36:68])
		if got := ref.TxMerkleRoot(rtx); got != hdrRoot {
			r.Broken("%s block %d (%d txs): reference merkle root %x, header says %x", path, blocks, len(rtx), got, hdrRoot)
		}
		if ref.BlockWeight(rtx) != int64(4*len(raw)) {
			r.Broken("%s block %d: reference weight %d, 4*size %d", path, blocks, ref.BlockWeight(rtx), 4*len(raw))
		}
		blocks++
		txs += len(rtx)
	}
	return blocks, txs
}

func bindTxValid(path string) int {
	b, err := os.ReadFile(path)
	if err != nil {
		r.Broken("cannot read %s: %v", path, err)
	}
	var rows [][]interface{}
	if err := json.Unmarshal(b, &rows); err != nil {
		r.Broken("%s: %v", path, err)
	}
	n, nWit := 0, 0
	for _, row := range rows {
		if len(row) != 3 {
			continue
		}
		hs, ok := row[1].(string)
		if !ok {
			continue
		}
		raw, err := hex.DecodeString(hs)
		if err != nil {
			continue
		}
		var m wire.MsgTx
		if err := m.Deserialize(bytes.NewReader(raw)); err != nil {
			r.Broken("tx_valid.json: transaction %s does not parse: %v", hs[:16], err)
		}
		rt := fromWire(&m)
		if !bytes.Equal(rt.Serialize(true), raw) {
			r.Broken("tx_valid.json: reference serialization of %s... differs from the shipped bytes", hs[:16])
		}
		if rt.HasWitness() {
			nWit++
			if bytes.Equal(rt.Serialize(false), raw) || ref.TxWeight(rt) >= int64(4*len(raw)) {
				r.Broken("tx_valid.json: witness transaction %s... has no witness discount in the reference", hs[:16])
			}
		} else if ref.TxWeight(rt) != int64(4*len(raw)) {
			r.Broken("tx_valid.json: legacy transaction %s... weight %d != 4*size", hs[:16], ref.TxWeight(rt))
		}
		n++
	}
	if n < 80 || nWit < 10 {
		r.Broken("tx_valid.json: only %d transactions (%d with witness) usable", n, nWit)
	}
	return n
}

func bindLiterals() {
	// blockchain/validate_test.go TestCheckSerializedHeight
	type hv struct {
		script []byte
		want   int64
		ok     bool
	}
	for i, v := range []hv{
		{[]byte{}, 0, false},
		{[]byte{0x02}, 0, false},
		{[]byte{0x02, 0x4a}, 0, false},
		{[]byte{0x02, 0x4a, 0x52}, 21066, true},
		{[]byte{0x02, 0x4a, 0x52}, 19026, false},
		{[]byte{0x03, 0x40, 0x0d, 0x03}, 200000, true},
		{[]byte{0x03, 0x40, 0x0d, 0x03}, 1074594560, false},
	} {
		if ref.CoinbaseHeightOK(v.script, v.want) != v.ok {
			r.Broken("reference BIP34 check disagrees with TestCheckSerializedHeight row %d", i)
		}
		h, ok := ref.CoinbaseHeight(v.script)
		if v.ok && (!ok || h != v.want) {
			r.Broken("reference BIP34 extraction disagrees with TestCheckSerializedHeight row %d", i)
		}
	}
	// BIP34 text: "block 227,835 ... height 227,836"; well-known serializations
	for _, v := range []struct {
		h int64
		s string
	}{{0, "00"}, {1, "51"}, {16, "60"}, {17, "0111"}, {127, "017f"}, {128, "028000"}, {255, "02ff00"}, {256, "020001"},
		{32767, "02ff7f"}, {32768, "03008000"}, {227836, "03fc7903"}, {500000, "0320a107"}, {8388608, "0400008000"}, {0x7fffffff, "04ffffff7f"}} {
		if hx(ref.PushInt(v.h)) != v.s {
			r.Broken("reference height serialization of %d = %x, want %s", v.h, ref.PushInt(v.h), v.s)
		}
	}

	// blockchain/validate_test.go TestSequenceLocksActive (lock height, lock seconds, block height, mtp, want)
	for i, v := range []struct {
		h, s, bh, mtp int64
		want          bool
	}{
		{1000, -1, 1001, 9, true}, {-1, 30, 2, 31, true}, {1000, -1, 90, 9, false},
		{-1, 30, 2, 29, false}, {1000, -1, 1000, 9, false}, {-1, 30, 2, 30, false},
	} {
		if ref.EvaluateSequenceLocks(v.h, v.s, v.bh, v.mtp) != v.want {
			r.Broken("reference EvaluateSequenceLocks disagrees with TestSequenceLocksActive row %d", i)
		}
	}

	// txscript/script_test.go TestGetPreciseSigOps
	pk := unhx("a914433ec2ac1ffa1b7b7d027f564529c57197f9ae8887")
	for i, v := range []struct {
		sig  string
		want int
	}{{"4c02", 0}, {"5176", 0}, {"", 0}, {"5151", 0}, {"024c02", 0}} {
		if ref.P2SHSigOps(pk, unhx(v.sig)) != v.want {
			r.Broken("reference P2SH sigop count disagrees with TestGetPreciseSigOps row %d", i)
		}
	}
	// txscript/script_test.go TestGetWitnessSigOpCount
	addr := []byte("17VZNX1SN5NtKa8UQFxwQbFeFc3iqRYhem")
	badWS := append(append([]byte{0x76, 0xa9, byte(len(addr))}, addr...), 0x88, 0xac, 0x14, 0x91)
	for i, v := range []struct {
		sig, pk string
		wit     [][]byte
		want    int
	}{
		{"", "0014365ab47888e150ff46f8d51bce36dcd680f1283f", [][]byte{make([]byte, 72), make([]byte, 33)}, 1},
		{"160014ad0ffa2e387f07e7ead14dc56d5a97dbd6ff5a23", "a914b3a84b564602a9d68b4c9f19c2ea61458ff7826c87", [][]byte{make([]byte, 72), make([]byte, 33)}, 1},
		{"", "0020e112b88a0cd87ba387f449d443ee2596eb353beb1f0351ab2cba8909d875db23",
			[][]byte{unhx("522103b05faca7ceda92b4933f7acdf874a93de0dc7edc461832031cd69cbb1d1e6fae2102e39092e031c1621c902e3704424e8d83ca481d4d4eeae1b7970f51c78231207e52ae")}, 2},
		{"", "0020e112b88a0cd87ba387f449d443ee2596eb353beb1f0351ab2cba8909d875db23", [][]byte{badWS}, 1},
	} {
		if got := ref.CountWitnessSigOps(unhx(v.sig), unhx(v.pk), v.wit); got != v.want {
			r.Broken("reference witness sigop count %d disagrees with TestGetWitnessSigOpCount row %d (want %d)", got, i, v.want)
		}
	}
	// classic shapes: P2PKH 1, bare 2-of-3 = 20 legacy / 3 accurate, 17 keys = 20
	if ref.SigOps(unhx("76a914000000000000000000000000000000000000000088ac"), false) != 1 ||
		ref.SigOps(unhx("5253ae"), false) != 20 || ref.SigOps(unhx("5253ae"), true) != 3 ||
		ref.SigOps(unhx("0111ae"), true) != 20 || ref.SigOps(unhx("00ae"), true) != 20 || ref.SigOps(unhx("60af"), true) != 16 {
		r.Broken("reference sigop counter fails the classic shapes")
	}

	// BIP141 header and BIP68 constants
	if hx(ref.CommitmentHeader) != "6a24aa21a9ed" || ref.SeqDisable != 1<<31 || ref.SeqTypeFlag != 1<<22 || ref.SeqMask != 0xffff || ref.SeqGranularity != 9 {
		r.Broken("reference constants")
	}
	// BIP68 worked example: an input mined at height 100 with sequence 10 may be
	// spent in block 110, not in block 109
	t := &ref.Tx{Version: 2, In: []ref.TxIn{{Sequence: 10}}}
	ts := make([]int64, 200)
	for i := range ts {
		ts[i] = int64(1000 + 600*i)
	}
	if ref.BIP68Satisfied(t, true, []int{100}, ts, 109, ref.MedianTimePast(ts, 108)) || !ref.BIP68Satisfied(t, true, []int{100}, ts, 110, ref.MedianTimePast(ts, 109)) {
		r.Broken("reference BIP68 height example")
	}
	h, s := ref.CalculateSequenceLocks(t, true, []int{100}, ts)
	if h != 109 || s != -1 {
		r.Broken("reference CalculateSequenceLocks height example: %d %d", h, s)
	}
	// merkle: the textbook 3-leaf tree duplicates the third leaf
	a, b, c := ref.DSHA([]byte("a")), ref.DSHA([]byte("b")), ref.DSHA([]byte("c"))
	cat := func(x, y ref.Hash) ref.Hash { return ref.DSHA(append(append([]byte(nil), x[:]...), y[:]...)) }
	if ref.MerkleRoot([]ref.Hash{a, b, c}) != cat(cat(a, b), cat(c, c)) || ref.MerkleRoot([]ref.Hash{a}) != a {
		r.Broken("reference merkle root of 3 leaves")
	}
}
