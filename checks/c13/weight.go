package main

import (
	"fmt"
	"sync/atomic"

	"github.com/btcsuite/btcd/blockchain"
	"github.com/btcsuite/btcd/btcutil/v2"
	"github.com/btcsuite/btcd/wire/v2"

	ref "verif/ref/refmerkle"
)

// input kinds: signature script length and witness item lengths (nil = none).
// Lengths sit on the compact-size boundaries 0xfc/0xfd and 0xffff/0x10000.
type inKind struct {
	sig int
	wit []int
}

var inKinds = []inKind{
	{0, nil},
	{1, nil},
	{252, nil},
	{253, nil},
	{0, []int{0}},      // one empty item: still "has witness"
	{1, []int{72, 33}}, // the usual P2WPKH shape
	{0, []int{252}},
	{0, []int{253}},
	{252, []int{253, 0, 252}},
	{65535, nil},
	{65536, []int{65535}},
	{0, []int{65536}},
}

var outKinds = []int{0, 1, 252, 253, 65535, 65536}

// small sub-alphabets used for the longest sequences of the quick tier
var inKindsSmall = []int{0, 2, 3, 4, 6, 7}
var outKindsSmall = []int{0, 2, 3}

func fill(n int, b byte) []byte {
	s := make([]byte, n)
	for i := range s {
		s[i] = b
	}
	return s
}

func mkIn(k inKind, idx int) ref.TxIn {
	in := ref.TxIn{PrevHash: ref.DSHA([]byte{byte(idx), 'w'}), PrevIndex: uint32(idx), Sequence: 0xffffffff - uint32(idx)}
	in.SigScript = fill(k.sig, 0x6a)
	if k.wit != nil {
		in.Witness = [][]byte{}
		for _, l := range k.wit {
			in.Witness = append(in.Witness, fill(l, 0x77))
		}
	}
	return in
}

func weightTx(c *Case) *ref.Tx {
	t := &ref.Tx{Version: 2, LockTime: 7}
	switch c.Sub {
	case "txweight":
		for i, k := range c.Ins {
			t.In = append(t.In, mkIn(inKinds[k], i))
		}
		for i, k := range c.Outs {
			t.Out = append(t.Out, ref.TxOut{Value: int64(i), PkScript: fill(outKinds[k], 0x51)})
		}
	case "txweight-count":
		for i := 0; i < c.NIn; i++ {
			in := mkIn(inKind{1, nil}, i)
			if i == 0 && c.NWit >= 0 {
				in.Witness = [][]byte{}
				for j := 0; j < c.NWit; j++ {
					in.Witness = append(in.Witness, []byte{byte(j)})
				}
			}
			t.In = append(t.In, in)
		}
		for i := 0; i < c.NOut; i++ {
			t.Out = append(t.Out, ref.TxOut{Value: int64(i), PkScript: []byte{0x51}})
		}
	}
	return t
}

func blockTxs(c *Case) []*ref.Tx {
	var txs []*ref.Tx
	for i := 0; i < c.NTx; i++ {
		v := 0
		switch c.Variant {
		case 1:
			v = 1
		case 2:
			v = 2
		}
		txs = append(txs, genTx(i, v))
	}
	return txs
}

func runWeight(c *Case) string {
	if c.Sub == "blockweight" {
		txs := blockTxs(c)
		mb := &wire.MsgBlock{Header: wire.BlockHeader{Version: 1}}
		mb.Transactions = []*wire.MsgTx{}
		for _, t := range txs {
			mb.Transactions = append(mb.Transactions, toWire(t))
		}
		got := blockchain.GetBlockWeight(btcutil.NewBlock(mb))
		want := ref.BlockWeight(txs)
		if got != want {
			return fmt.Sprintf("GetBlockWeight(%d txs, variant %d) = %d, definition 3*stripped+total = %d", c.NTx, c.Variant, got, want)
		}
		return ""
	}
	t := weightTx(c)
	got := blockchain.GetTransactionWeight(btcutil.NewTx(toWire(t)))
	want := ref.TxWeight(t)
	if got != want {
		return fmt.Sprintf("GetTransactionWeight = %d, definition 3*%d+%d = %d", got, len(t.Serialize(false)), len(t.Serialize(true)), want)
	}
	// the same wrapper before and after the witness data is attached (what the
	// template generator does to its coinbase, and every sign-after-estimate
	// flow): the weight is a function of the transaction as it is now
	hasWit := false
	for _, in := range t.In {
		if len(in.Witness) > 0 {
			hasWit = true
		}
	}
	if hasWit {
		m := toWire(t)
		wits := make([]wire.TxWitness, len(m.TxIn))
		for i, in := range m.TxIn {
			wits[i], in.Witness = in.Witness, nil
		}
		wrapped := btcutil.NewTx(m)
		bare := blockchain.GetTransactionWeight(wrapped)
		_ = wrapped.HasWitness()
		_ = wrapped.WitnessHash()
		if wantBare := int64(4 * len(t.Serialize(false))); bare != wantBare {
			return fmt.Sprintf("GetTransactionWeight of the transaction without its witnesses = %d, definition %d", bare, wantBare)
		}
		for i, in := range m.TxIn {
			in.Witness = wits[i]
		}
		if again := blockchain.GetTransactionWeight(wrapped); again != want {
			return fmt.Sprintf("GetTransactionWeight = %d after the witnesses were attached to an already weighed transaction (weight %d before), definition 3*%d+%d = %d", again, bare, len(t.Serialize(false)), len(t.Serialize(true)), want)
		}
	}
	return ""
}

func seqs(alpha []int, maxLen int) [][]int {
	out := [][]int{{}}
	prev := [][]int{{}}
	for l := 1; l <= maxLen; l++ {
		var cur [][]int
		for _, p := range prev {
			for _, a := range alpha {
				cur = append(cur, append(append([]int(nil), p...), a))
			}
		}
		out = append(out, cur...)
		prev = cur
	}
	return out
}

func allIdx(n int) []int {
	out := make([]int, n)
	for i := range out {
		out[i] = i
	}
	return out
}

func enumWeight() bool {
	// (a) sequences of input kinds x sequences of output kinds
	var inSeqs, outSeqs [][]int
	if r.Thorough() {
		inSeqs = seqs(allIdx(len(inKinds)), 3)
		outSeqs = seqs(allIdx(len(outKinds)), 3)
	} else {
		inSeqs = seqs(allIdx(len(inKinds)), 2)
		for _, s := range seqs(inKindsSmall, 3) {
			if len(s) == 3 {
				inSeqs = append(inSeqs, s)
			}
		}
		outSeqs = seqs(allIdx(len(outKinds)), 2)
		for _, s := range seqs(outKindsSmall, 3) {
			if len(s) == 3 {
				outSeqs = append(outSeqs, s)
			}
		}
	}
	r.Set("weight_in_sequences", len(inSeqs))
	r.Set("weight_out_sequences", len(outSeqs))
	var stopped int32
	parDo(len(inSeqs), func(i int) {
		if r.Expired() {
			atomic.StoreInt32(&stopped, 1)
			return
		}
		for _, o := range outSeqs {
			c := &Case{Sub: "txweight", Ins: inSeqs[i], Outs: o}
			check(c)
			r.Nontrivial(keyOf(c))
			if i == 77 && len(o) == 2 && o[0] == 3 && o[1] == 1 {
				r.Sample(c)
			}
		}
	})
	r.Add("txweight_cases", int64(len(inSeqs)*len(outSeqs)))
	if stopped != 0 {
		r.Cap("txweight: time box hit inside the kind-sequence product")
		return false
	}

	// (b) element counts on the compact-size boundary
	cnt := 0
	for _, nin := range []int{0, 1, 252, 253, 254} {
		for _, nout := range []int{0, 1, 252, 253, 254} {
			for _, nwit := range []int{-1, 0, 1, 252, 253, 254} {
				if nin == 0 && nwit >= 0 {
					continue
				}
				c := &Case{Sub: "txweight-count", NIn: nin, NOut: nout, NWit: nwit}
				check(c)
				r.Nontrivial(keyOf(c))
				cnt++
			}
		}
	}
	r.Add("txweight_count_cases", int64(cnt))

	// (c) block weight, transaction counts around 0xfc/0xfd
	cnt = 0
	for _, ntx := range []int{0, 1, 2, 3, 252, 253, 254} {
		for variant := 0; variant < 3; variant++ {
			c := &Case{Sub: "blockweight", NTx: ntx, Variant: variant}
			check(c)
			r.Nontrivial(keyOf(c))
			cnt++
		}
	}
	r.Add("blockweight_cases", int64(cnt))
	return true
}
