package main

import (
	"fmt"
	"sort"
	"strings"

	"github.com/btcsuite/btcd/blockchain"

	"verif/ref/refbip9"
)

// ---------------------------------------------------------------------------
// Suite A: the complete binary vote tree.
//
// genesis(h0) - h1 - h2 are fixed (period 0); from height 3 on every block has
// two children, one per vote kind, down to height 2+Depth.  Every root-to-leaf
// path is one linear history, so the tree holds ALL 2^Depth vote histories and
// at the same time every fork between any two of them.  Timestamps are a
// function of the height (schedule).
// ---------------------------------------------------------------------------

const T0 = int64(1_500_000_000)

type TreeSpecA struct {
	K0    int32  `json:"vote_kind_0_version"`
	K1    int32  `json:"vote_kind_1_version"`
	W0    int32  `json:"period0_version"`
	Sched string `json:"schedule"`
	Depth int    `json:"depth"`
}

type PassASpec struct {
	Tree TreeSpecA `json:"tree"`
	Defs Defs      `json:"defs"`
	Thr  uint32    `json:"threshold"`
}

// schedule returns the block timestamps for heights 0..maxH.
func schedule(name string, maxH int) []int64 {
	ts := make([]int64, maxH+1)
	ts[0] = T0
	for h := 1; h <= maxH; h++ {
		switch name {
		case "step":
			ts[h] = T0 + 600*int64(h)
		case "jitter": // non-monotone timestamps, still > MTP(parent)
			ts[h] = T0 + 600*int64(h)
			if h >= 3 && h%2 == 1 {
				ts[h] -= 700
			}
		case "min": // the smallest timestamp consensus allows: MTP(parent)+1
			ts[h] = mtpOf(ts[:h]) + 1
		default:
			panic("unknown schedule " + name)
		}
	}
	return ts
}

func mtpOf(ts []int64) int64 {
	c := make([]refbip9.Hdr, len(ts))
	for i, t := range ts {
		c[i].Time = t
	}
	return refbip9.MTP(c)
}

// checkSchedule verifies the consensus timestamp rule (time > MTP(parent)),
// which is what guarantees BIP9's "MTP never decreases" precondition.
func checkSchedule(ts []int64) error {
	prev := int64(-1 << 62)
	for h := 0; h < len(ts); h++ {
		if h > 0 && ts[h] <= mtpOf(ts[:h]) {
			return fmt.Errorf("timestamp at height %d violates time > MTP(parent)", h)
		}
		m := mtpOf(ts[:h+1])
		if m < prev {
			return fmt.Errorf("MTP decreases at height %d", h)
		}
		prev = m
	}
	return nil
}

type treeA struct {
	*Tree
	spec  TreeSpecA
	times []int64
	mt    []int64 // MTP at each height (same on every path)
	dfs   []int32 // preorder
	leaf0 int     // index of the first leaf
}

func buildTreeA(spec TreeSpecA) *treeA {
	maxH := 2 + spec.Depth
	ta := &treeA{Tree: newTree(T0), spec: spec, times: schedule(spec.Sched, maxH)}
	for h := 0; h <= maxH; h++ {
		ta.mt = append(ta.mt, mtpOf(ta.times[:h+1]))
	}
	h1 := ta.add(1, spec.W0, ta.times[1], 0)
	h2 := ta.add(h1, spec.W0, ta.times[2], 0)
	level := []int{h2}
	for d := 1; d <= spec.Depth; d++ {
		h := 2 + d
		next := make([]int, 0, 2*len(level))
		for _, p := range level {
			next = append(next, ta.add(p, spec.K0, ta.times[h], 0))
			next = append(next, ta.add(p, spec.K1, ta.times[h], 0))
		}
		level = next
	}
	ta.leaf0 = level[0]
	// preorder
	stack := []int32{0}
	for len(stack) > 0 {
		n := stack[len(stack)-1]
		stack = stack[:len(stack)-1]
		ta.dfs = append(ta.dfs, n)
		k := ta.kids[n]
		for i := len(k) - 1; i >= 0; i-- {
			stack = append(stack, k[i])
		}
	}
	return ta
}

// legalStep says whether state b may follow state a from one block to the
// next one (BIP9 graph); boundary tells whether the second block starts a period.
func legalStep(a, b refbip9.State, boundary bool) bool {
	if a == b {
		return true
	}
	if !boundary {
		return false
	}
	switch a {
	case refbip9.Defined:
		return b == refbip9.Started || b == refbip9.Failed
	case refbip9.Started:
		return b == refbip9.LockedIn || b == refbip9.Failed
	case refbip9.LockedIn:
		return b == refbip9.Active
	}
	return false // Active and Failed are absorbing
}

type passStats struct {
	stateQ, verQ, tipQ, edges int64
	seen                      [5]int64
	traj                      map[string]struct{}
	cacheEntries              int64
}

type misA struct {
	view string
	n    int
	op   string
	slot int
	sub  string
	got  string
	want string
	what string
}

// misAK is a disagreement plus the definition class of its slot.
type misAK struct {
	misA
	cls string
}

func (m misAK) key() string {
	if strings.Contains(m.sub, "version") {
		return "A/" + m.sub + "/" + verDiff(m.got, m.want)
	}
	return "A/" + m.sub + "/got=" + m.got + "/want=" + m.want + "/" + m.cls
}

// verDiff classifies a version mismatch (hex strings) for the violation key.
func verDiff(got, want string) string {
	var g, w uint32
	if _, err := fmt.Sscanf(got, "0x%x", &g); err != nil {
		return "error"
	}
	fmt.Sscanf(want, "0x%x", &w)
	switch {
	case g&^w != 0 && w&^g != 0:
		return "extra-and-missing-bits"
	case g&^w != 0:
		return "extra-bits"
	default:
		return "missing-bits"
	}
}

// runPassA runs every view of one (tree, definitions, threshold) pass and
// returns the disagreements (at most a few per sub-check) and statistics.
func runPassA(ta *treeA, defs Defs, thr uint32, tipAPI bool) (mis []misAK, ps passStats) {
	net := refbip9.Net{Window: W, Threshold: thr}
	var rdefs [nSlots]refbip9.Def
	for s := 0; s < nSlots; s++ {
		rdefs[s] = defs[s].ref(s)
	}
	N := len(ta.nodes)
	exp := make([][nSlots]refbip9.State, N)
	expVer := make([]int32, N)
	var buf []refbip9.Hdr
	for n := 0; n < N; n++ {
		buf = ta.path(n, buf)
		v := uint32(topBits)
		for s := 0; s < nSlots; s++ {
			e := refbip9.StateAfter(buf, rdefs[s], net)
			exp[n][s] = e
			if e == refbip9.Started || e == refbip9.LockedIn {
				v |= 1 << slotBits[s]
			}
		}
		expVer[n] = int32(v)
	}
	// trajectories (what makes a history non-trivial for a definition)
	ps.traj = map[string]struct{}{}
	for n := ta.leaf0; n < N; n++ {
		for s := 0; s < nSlots; s++ {
			var sb strings.Builder
			nontriv := false
			for j := n; j >= 0; j = int(ta.parent[j]) {
				if (ta.height[j]+1)%W == 0 || j == n {
					sb.WriteByte("DSLAF"[exp[j][s]])
					if exp[j][s] != refbip9.Defined {
						nontriv = true
					}
				}
				if j == 0 {
					break
				}
			}
			if nontriv {
				ps.traj[fmt.Sprintf("%d|%s|%s", thr, defs[s].key(), sb.String())] = struct{}{}
			}
		}
	}

	perSub := map[string]int{}
	add := func(m misA) {
		if perSub[m.sub] < 3 {
			mis = append(mis, misAK{m, defs[m.slot].class()})
		}
		perSub[m.sub]++
	}
	guard := func(view string, n int, op string, f func()) {
		defer func() {
			if e := recover(); e != nil {
				add(misA{view: view, n: n, op: op, sub: "panic", got: "panic", want: "-", what: fmt.Sprintf("PANIC in %s at node height %d: %v", op, ta.height[n], e)})
			}
		}()
		f()
	}

	got := make([][nSlots]refbip9.State, N)
	stateAt := func(v *blockchain.BlockChain, view string, n int, record bool) {
		guard(view, n, "state", func() {
			for s := 0; s < nSlots; s++ {
				g, err := v.VerifC14DeploymentState(ta.nodes[n], uint32(s))
				ps.stateQ++
				if err != nil {
					add(misA{view, n, "state", s, "state-error", "error", exp[n][s].String(), fmt.Sprintf("deploymentState error: %v", err)})
					continue
				}
				if record {
					got[n][s] = st(g)
					ps.seen[st(g)%5]++
				}
				if st(g) != exp[n][s] {
					add(misA{view, n, "state", s, "state", st(g).String(), exp[n][s].String(),
						fmt.Sprintf("deploymentState(slot %d) for the block after height %d = %v, reference %v (query order: %s)", s, ta.height[n], st(g), exp[n][s], view)})
				}
			}
		})
	}
	versionAt := func(v *blockchain.BlockChain, view string, n int) {
		guard(view, n, "version", func() {
			g, err := v.VerifC14CalcNextBlockVersion(ta.nodes[n])
			ps.verQ++
			if err != nil {
				add(misA{view, n, "version", 0, "version-error", "error", "-", fmt.Sprintf("calcNextBlockVersion error: %v", err)})
			} else if g != expVer[n] {
				add(misA{view, n, "version", 0, "version", fmt.Sprintf("%#x", uint32(g)), fmt.Sprintf("%#x", uint32(expVer[n])),
					fmt.Sprintf("calcNextBlockVersion for the block after height %d = %#x, reference %#x (query order: %s)", ta.height[n], uint32(g), uint32(expVer[n]), view)})
			}
		})
	}

	// view 1: ascending heights (breadth first), state then version.
	v1 := ta.view(defs, thr, 0)
	for n := 0; n < N; n++ {
		stateAt(v1, "bfs-ascending", n, true)
		versionAt(v1, "bfs-ascending", n)
	}
	// implementation-only sanity along every edge: legal BIP9 steps, Active and
	// Failed absorbing (except the documented always-active override).
	for n := 1; n < N; n++ {
		p := int(ta.parent[n])
		boundary := (ta.height[n]+1)%W == 0 // the block after n starts a period
		for s := 0; s < nSlots; s++ {
			ps.edges++
			a, b := got[p][s], got[n][s]
			if legalStep(a, b, boundary) {
				continue
			}
			if defs[s].AAH != 0 && uint32(ta.height[n])+1 >= defs[s].AAH && b == refbip9.Active {
				continue // forced activation
			}
			sub := "illegal-step"
			if a == refbip9.Active || a == refbip9.Failed {
				sub = "absorbing"
			}
			add(misA{"bfs-ascending", n, "state", s, sub, b.String(), a.String(),
				fmt.Sprintf("state of slot %d goes %v -> %v between the blocks after heights %d and %d (period boundary=%v)", s, a, b, ta.height[p], ta.height[n], boundary)})
		}
	}
	for s := 0; s < nSlots; s++ {
		ps.cacheEntries += int64(v1.VerifC14CacheEntries(uint32(s)))
	}

	// view 2: deepest first (descending index).
	v2 := ta.view(defs, thr, 0)
	for n := N - 1; n >= 0; n-- {
		stateAt(v2, "deepest-first", n, false)
	}
	if !tipAPI {
		return mis, ps
	}

	// view 3: depth-first preorder through the exported API at the tip.
	v3 := ta.view(defs, thr, 0)
	for _, n32 := range ta.dfs {
		n := int(n32)
		if n == 0 {
			continue
		}
		guard("dfs-tip-api", n, "tipstate", func() {
			v3.VerifC14SetTip(ta.nodes[n])
			for s := 0; s < nSlots; s++ {
				g, err := v3.ThresholdState(uint32(s))
				a, err2 := v3.IsDeploymentActive(uint32(s))
				ps.tipQ += 2
				if err != nil || err2 != nil {
					add(misA{"dfs-tip-api", n, "tipstate", s, "state-error", "error", exp[n][s].String(), fmt.Sprintf("ThresholdState/IsDeploymentActive error: %v %v", err, err2)})
					continue
				}
				if st(g) != exp[n][s] {
					add(misA{"dfs-tip-api", n, "tipstate", s, "tip-state", st(g).String(), exp[n][s].String(),
						fmt.Sprintf("ThresholdState(slot %d) with tip at height %d = %v, reference %v", s, ta.height[n], st(g), exp[n][s])})
				}
				if a != (exp[n][s] == refbip9.Active) {
					add(misA{"dfs-tip-api", n, "tipactive", s, "tip-active", fmt.Sprint(a), exp[n][s].String(),
						fmt.Sprintf("IsDeploymentActive(slot %d) with tip at height %d = %v, reference state %v", s, ta.height[n], a, exp[n][s])})
				}
			}
			g, err := v3.CalcNextBlockVersion()
			ps.tipQ++
			if err != nil {
				add(misA{"dfs-tip-api", n, "tipversion", 0, "version-error", "error", "-", fmt.Sprintf("CalcNextBlockVersion error: %v", err)})
			} else if g != expVer[n] {
				add(misA{"dfs-tip-api", n, "tipversion", 0, "tip-version", fmt.Sprintf("%#x", uint32(g)), fmt.Sprintf("%#x", uint32(expVer[n])),
					fmt.Sprintf("CalcNextBlockVersion with tip at height %d = %#x, reference %#x", ta.height[n], uint32(g), uint32(expVer[n]))})
			}
		})
	}
	return mis, ps
}

// ---- definition domains ----

type domA struct {
	starts, timeouts []int64 // 0 = always / never; -1 in timeouts = "equal to start"
	mins, customs    []uint32
	aahs             []uint32
}

// enumDefs is the product of the domains, minus start > timeout (outside
// BIP9's precondition), de-duplicated, in product order (simplest first).
func enumDefs(d domA) []DefJ {
	var out []DefJ
	seen := map[DefJ]bool{}
	for _, a := range d.aahs {
		for _, c := range d.customs {
			for _, m := range d.mins {
				for _, s := range d.starts {
					for _, t := range d.timeouts {
						if t == -1 {
							if s == 0 {
								continue
							}
							t = s
						}
						if s != 0 && t != 0 && s > t {
							continue
						}
						x := DefJ{Start: s, Timeout: t, Min: m, Custom: c, AAH: a}
						if !seen[x] {
							seen[x] = true
							out = append(out, x)
						}
					}
				}
			}
		}
	}
	return out
}

func batches(defs []DefJ) []Defs {
	var out []Defs
	for i := 0; i < len(defs); i += nSlots {
		var b Defs
		for s := 0; s < nSlots; s++ {
			b[s] = defs[(i+s)%len(defs)]
		}
		out = append(out, b)
	}
	return out
}

func uniq64(v []int64) []int64 {
	m := map[int64]bool{}
	var o []int64
	for _, x := range v {
		if !m[x] {
			m[x] = true
			o = append(o, x)
		}
	}
	return o
}

func sortedKeys(m map[string]struct{}) []string {
	var k []string
	for s := range m {
		k = append(k, s)
	}
	sort.Strings(k)
	return k
}
