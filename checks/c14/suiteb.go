package main

import (
	"fmt"

	"github.com/btcsuite/btcd/blockchain"

	"verif/ref/refbip9"
)

// ---------------------------------------------------------------------------
// Suite B: two-branch trees and query orders.
//
// A common prefix genesis..F (votes from a small set of prefix patterns), then
// two arms F+1..E.  Arm votes: every pattern of armBits bits (bit j mod armBits
// decides block j of the arm).  Arm "flavour" 0 keeps the 600 s step of the
// prefix, flavour 1 runs a 4x faster clock, so the two arms can reach the start
// time / timeout at different heights.  For each tree five nodes are queried --
// tip of arm A, tip of arm B, the fork point, the last period boundary below
// each tip -- in every one of the 5! orders (quick: four points, 4! orders),
// each order starting from a BlockChain instance with empty caches, all six
// deployment slots per query.
// ---------------------------------------------------------------------------

type unitB struct {
	F       int    // height of the fork point (last common block)
	E       int    // height of the arm tips
	Prefix  string // votes of heights 3..F: "Y", "N", "YN" (cycled)
	ArmBits int
	K0, K1  int32 // versions of vote 0 / vote 1
	Thr     uint32
	Defs    Defs
	NQ      int // number of query points: 5 = all, 4 = without the boundary below tip A
}

func perms(n int) [][]int {
	var out [][]int
	var rec func(cur []int, used int)
	rec = func(cur []int, used int) {
		if len(cur) == n {
			out = append(out, append([]int(nil), cur...))
			return
		}
		for i := 0; i < n; i++ {
			if used&(1<<i) == 0 {
				rec(append(cur, i), used|1<<i)
			}
		}
	}
	rec(nil, 0)
	return out
}

type statsB struct {
	trees, orders, queries, differing int64
	nontrivial                        []string
	aborted                           bool
}

type misB struct {
	key, what string
	c         *Case
}

func runUnitB(u unitB, expired func() bool) (mis []misB, sb statsB) {
	t := newTree(T0)
	step := int64(600)
	tm := func(h int) int64 { return T0 + step*int64(h) }
	vote := func(bit int) int32 {
		if bit == 1 {
			return u.K1
		}
		return u.K0
	}
	// prefix
	cur := 1
	for h := 1; h <= u.F; h++ {
		v := u.K0 // period 0: no signal
		if h >= 3 {
			c := u.Prefix[(h-3)%len(u.Prefix)]
			if c == 'Y' {
				v = u.K1
			}
		}
		cur = t.add(cur, v, tm(h), 0)
	}
	fp := cur
	L := u.E - u.F
	nb := u.ArmBits
	if L < nb {
		nb = L
	}
	nArms := 1 << nb
	// arms, as a trie keyed by (flavour, votes so far)
	trie := map[string]int{}
	tips := [2][]int{make([]int, nArms), make([]int, nArms)}
	for fl := 0; fl < 2; fl++ {
		for a := 0; a < nArms; a++ {
			n := fp
			key := fmt.Sprint(fl, ":")
			for j := 0; j < L; j++ {
				bit := (a >> (j % nb)) & 1
				key += string(rune('0' + bit))
				id, ok := trie[key]
				if !ok {
					h := u.F + 1 + j
					ts := tm(h)
					if fl == 1 {
						ts = tm(u.F) + 4*step*int64(j+1)
						if j == 0 {
							// the first block of the fast arm is stamped as early as
							// allowed (MTP of the fork point + 1): where the window
							// parity lets it, it and its sibling on arm A (same
							// parent) have different median times
							pre := make([]int64, 0, u.F+2)
							for h := 0; h <= u.F; h++ {
								pre = append(pre, tm(h))
							}
							if early := mtpOf(pre) + 1; checkSchedule(append(pre, early)) == nil {
								ts = early
							}
						}
					}
					id = t.add(n, vote(bit), ts, uint32(fl))
					trie[key] = id
				}
				n = id
			}
			tips[fl][a] = n
		}
	}
	// precondition guard: MTP non-decreasing on every root-to-tip path and
	// timestamps > MTP(parent).
	for fl := 0; fl < 2; fl++ {
		p := t.path(tips[fl][nArms-1], nil)
		ts := make([]int64, len(p))
		for i := range p {
			ts[i] = p[i].Time
		}
		if err := checkSchedule(ts); err != nil {
			panic("suite B schedule: " + err.Error())
		}
	}

	net := refbip9.Net{Window: W, Threshold: u.Thr}
	var rdefs [nSlots]refbip9.Def
	for s := 0; s < nSlots; s++ {
		rdefs[s] = u.Defs[s].ref(s)
	}
	type expT struct {
		s [nSlots]refbip9.State
		v int32
	}
	memo := map[int]expT{}
	expOf := func(n int) expT {
		if e, ok := memo[n]; ok {
			return e
		}
		chain := t.path(n, nil)
		var e expT
		v := uint32(topBits)
		for s := 0; s < nSlots; s++ {
			e.s[s] = refbip9.StateAfter(chain, rdefs[s], net)
			if e.s[s] == refbip9.Started || e.s[s] == refbip9.LockedIn {
				v |= 1 << slotBits[s]
			}
		}
		e.v = int32(v)
		memo[n] = e
		return e
	}
	bndH := int32(u.E - 1)
	for (bndH+1)%W != 0 {
		bndH--
	}

	bestTip := 0
	mkCase := func(q [5]int, order []int, upto int, slot int, op string) *Case {
		// the whole (small) tree: prefix + both arms
		c := &Case{Sub: "fork-query-order", Window: W, Threshold: u.Thr, GenesisTime: T0, SlotBits: slotBitsInt(), Defs: u.Defs}
		local := map[int]int{1: -1}
		var addPath func(n int)
		addPath = func(n int) {
			if _, ok := local[n]; ok || n <= 1 {
				return
			}
			addPath(int(t.parent[n]))
			local[n] = len(c.Blocks)
			c.Blocks = append(c.Blocks, BlkJ{Parent: local[int(t.parent[n])], Version: t.hdr[n].Version, Time: t.hdr[n].Time, Nonce: t.nonce[n]})
		}
		addPath(q[0])
		addPath(q[1])
		if bestTip > 1 {
			bt := local[bestTip]
			c.BestTip = &bt
		}
		for i := 0; i <= upto; i++ {
			n := q[order[i]]
			last := nSlots - 1
			if i == upto {
				last = slot
			}
			if i == upto && op == "version" {
				for s := 0; s < nSlots; s++ {
					c.Queries = append(c.Queries, QueryJ{Node: local[n], Op: "state", Slot: s})
				}
				c.Queries = append(c.Queries, QueryJ{Node: local[n], Op: "version"})
				break
			}
			for s := 0; s <= last; s++ {
				c.Queries = append(c.Queries, QueryJ{Node: local[n], Op: "state", Slot: s})
			}
		}
		return c
	}

	reported := map[string]bool{}
	for a := 0; a < nArms; a++ {
		for fb := 0; fb < 2; fb++ {
			for b := 0; b < nArms; b++ {
				if fb == 0 && b <= a {
					continue
				}
				tipA, tipB := tips[0][a], tips[fb][b]
				q := [5]int{tipA, tipB, fp, t.ancestorAt(tipB, bndH), t.ancestorAt(tipA, bndH)}
				var e [5]expT
				for i := range q {
					e[i] = expOf(q[i])
				}
				sb.trees++
				if e[0].s != e[1].s {
					sb.differing++
					if len(sb.nontrivial) < 1<<16 {
						sb.nontrivial = append(sb.nontrivial, fmt.Sprintf("B|%d|%s|%d|%d|%d|%d|%d|%v", u.F, u.Prefix, u.Thr, a, fb, b, u.K0, u.Defs[0].key()))
					}
				}
				// Walk the trie of all 5! orders: the cache state after a
				// prefix of queries is a deterministic function of the prefix,
				// so instead of replaying the prefix for every order the
				// BlockChain (with its caches) is cloned at every branching.
				order := make([]int, 0, 5)
				var walk func(v *blockchain.BlockChain, used int)
				walk = func(v *blockchain.BlockChain, used int) {
					step := len(order)
					if step == u.NQ {
						sb.orders++
						return
					}
					left := 0
					for qi := 0; qi < u.NQ; qi++ {
						if used&(1<<qi) == 0 {
							left++
						}
					}
					for qi := 0; qi < u.NQ; qi++ {
						if used&(1<<qi) != 0 {
							continue
						}
						left--
						vv := v
						if left > 0 { // the last branch may consume v itself
							vv = v.VerifC14CloneView(makeParams(u.Defs, u.Thr, T0))
						}
						order = append(order, qi)
						n := q[qi]
						func() {
							defer func() {
								if x := recover(); x != nil {
									k := "fork/panic"
									if !reported[k] {
										reported[k] = true
										mis = append(mis, misB{k, fmt.Sprintf("PANIC %v", x), mkCase(q, order, step, nSlots-1, "state")})
									}
								}
							}()
							for s := 0; s < nSlots; s++ {
								g, err := vv.VerifC14DeploymentState(t.nodes[n], uint32(s))
								sb.queries++
								if err == nil && st(g) == e[qi].s[s] {
									continue
								}
								k := fmt.Sprintf("fork/state/got=%v/want=%v/%s", st(g), e[qi].s[s], u.Defs[s].class())
								if err != nil {
									k = "fork/state-error/" + u.Defs[s].class()
								}
								if !reported[k] {
									reported[k] = true
									mis = append(mis, misB{k, fmt.Sprintf("fork at height %d, arms to height %d: deploymentState(slot %d) after height %d = %v (err %v), reference %v, as query #%d of order %v over {0:tipA,1:tipB,2:fork,3:boundary below tipB,4:boundary below tipA}",
										u.F, u.E, s, t.height[n], st(g), err, e[qi].s[s], step, order), mkCase(q, order, step, s, "state")})
								}
							}
							if step == u.NQ-1 {
								g, err := vv.VerifC14CalcNextBlockVersion(t.nodes[n])
								sb.queries++
								if err != nil || g != e[qi].v {
									k := "fork/version"
									if !reported[k] {
										reported[k] = true
										mis = append(mis, misB{k, fmt.Sprintf("fork at height %d: calcNextBlockVersion after height %d = %#x (err %v), reference %#x, last query of order %v",
											u.F, t.height[n], uint32(g), err, uint32(e[qi].v), order), mkCase(q, order, step, 0, "version")})
									}
								}
							}
						}()
						walk(vv, used|1<<qi)
						order = order[:len(order)-1]
					}
				}
				// the active-chain view is positioned on one of the arms (alternating):
				// which chain is active must not influence any answer
				bestTip = tipA
				if (a+b+fb)%2 == 1 {
					bestTip = tipB
				}
				root := t.view(u.Defs, u.Thr, 0)
				root.VerifC14SetTip(t.nodes[bestTip])
				walk(root, 0)
			}
		}
		if expired() {
			sb.aborted = true
			break
		}
	}
	return mis, sb
}
