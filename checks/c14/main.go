// C14 — soft-fork deployment state follows the BIP9 state machine on every history.
//
// Index-only chains (header nodes in a real btcd block index, no database) are
// built through the hook blockchain/verif_c14_export.go; the real
// deploymentState / calcNextBlockVersion / ThresholdState / IsDeploymentActive
// / CalcNextBlockVersion are compared with verif/ref/refbip9, a cache-free
// model that re-evaluates the BIP9 (+ speedy trial, + always-active height)
// state machine from genesis at every query.
//
// Suite A: the complete binary vote tree (every vote pattern of every period),
//
//	every node queried in three global orders on a shared cache.
//
// Suite B: two-branch trees (independent arm vote patterns, arms with different
//
//	clocks), four/five query points in all 4!/5! orders.
//
// Suite C: rule gating end to end on real blocks (verif/lab, ProcessBlock): a
//
//	CSV-violating transaction is accepted up to the last LOCKED_IN
//	block and rejected from the first ACTIVE block, also across a reorg.
package main

import (
	"fmt"
	"os"
	"runtime"
	"runtime/debug"
	"sort"
	"strings"
	"sync"
	"sync/atomic"
	"time"

	"verif/engine/ev"
	"verif/ref/refbip9"
)

type Replay struct {
	Key   string     `json:"key"`
	What  string     `json:"what"`
	Kind  string     `json:"kind"` // case | passA
	Case  *Case      `json:"case,omitempty"`
	PassA *PassASpec `json:"pass_a,omitempty"`
	E2E   *CaseC     `json:"e2e,omitempty"`
}

var seenKeys sync.Map

// ---------------------------------------------------------------------------
// binding of the reference model to what the repository ships
// ---------------------------------------------------------------------------

func bindReference(r *ev.Run) {
	const (
		D = refbip9.Defined
		S = refbip9.Started
		L = refbip9.LockedIn
		A = refbip9.Active
		F = refbip9.Failed
	)
	// blockchain/thresholdstate_test.go, TestThresholdStateTransition (window
	// 2016; conditionTrue means every block of the window signals).
	type row struct {
		cur, next                                   refbip9.State
		started, ended, eligible, speedy, condition bool
		thr                                         uint32
	}
	rows := []row{
		{cur: D, next: D},
		{cur: D, next: F, ended: true},
		{cur: D, next: S, started: true},
		{cur: S, next: F, ended: true},
		{cur: S, next: L, started: true, condition: true},
		{cur: S, next: F, started: true, ended: true, speedy: true, thr: 1815},
		{cur: L, next: A, eligible: true},
		{cur: L, next: L},
		{cur: A, next: A},
		{cur: F, next: F},
	}
	for i, w := range rows {
		cnt := uint32(0)
		if w.condition {
			cnt = 2016
		}
		got := refbip9.Transition(w.cur, refbip9.In{TimeReachedStart: w.started, TimeReachedTimeout: w.ended,
			Count: cnt, Threshold: w.thr, Speedy: w.speedy, MinHeightReached: w.eligible})
		if got != w.next {
			r.Broken("reference transition disagrees with shipped vector #%d of TestThresholdStateTransition: got %v want %v", i, got, w.next)
		}
	}

	// integration/bip0009_test.go (testBIP0009) on the regression net
	// parameters of chaincfg/params.go: window 144, threshold 108; "dummy":
	// always started, never expires; "dummy-min-activation": custom threshold
	// 72, min activation height 600; CSV/segwit/taproot: always-active height 1.
	net := refbip9.Net{Window: 144, Threshold: 108}
	type ck struct {
		height int
		want   refbip9.State
	}
	scenario := func(d refbip9.Def) (chain []refbip9.Hdr, cks []ck) {
		thr := d.EffThreshold(net)
		legacy, signal := int32(4), int32(0x20000000)|int32(1)<<d.Bit
		add := func(v int32, n uint32) {
			for i := uint32(0); i < n; i++ {
				chain = append(chain, refbip9.Hdr{Version: v, Time: 1296688602 + int64(len(chain))*600})
			}
		}
		w := uint32(net.Window)
		add(1, 1) // genesis
		cks = append(cks, ck{0, D})
		add(legacy, w-2)
		cks = append(cks, ck{int(w - 2), D})
		add(legacy, 1)
		cks = append(cks, ck{int(w - 1), S})
		add(signal, thr-1)
		add(legacy, w-(thr-1))
		cks = append(cks, ck{int(2*w - 1), S})
		add(signal, thr)
		add(legacy, w-thr)
		cks = append(cks, ck{int(3*w - 1), L})
		add(legacy, w-1)
		cks = append(cks, ck{int(4*w - 2), L})
		add(legacy, 1)
		if d.MinActivationHeight == 0 {
			cks = append(cks, ck{int(4*w - 1), A})
			return
		}
		for i := uint32(0); i < w; i++ {
			cks = append(cks, ck{int(4*w-1) + int(i), L})
			add(signal, 1)
		}
		cks = append(cks, ck{int(5*w - 1), A})
		return
	}
	for _, d := range []refbip9.Def{
		{Bit: 28, StartAlways: true, NoTimeout: true},
		{Bit: 22, StartAlways: true, NoTimeout: true, CustomThreshold: 72, MinActivationHeight: 600},
	} {
		chain, cks := scenario(d)
		for _, c := range cks {
			if got := refbip9.StateAfter(chain[:c.height+1], d, net); got != c.want {
				r.Broken("reference disagrees with the scenario of integration/bip0009_test.go (bit %d): status at chain height %d = %v, test asserts %v", d.Bit, c.height, got, c.want)
			}
		}
	}
	// always-active deployments are reported active at chain height 0.
	aa := refbip9.Def{Bit: 0, StartAlways: true, NoTimeout: true, AlwaysActiveHeight: 1}
	if got := refbip9.StateAfter([]refbip9.Hdr{{Version: 1, Time: 1296688602}}, aa, net); got != A {
		r.Broken("reference: always-active deployment at chain height 0 = %v, integration test asserts active", got)
	}
	// median of the consensus rule: element n/2 of the sorted last <=11 times
	// (note in blockchain/blockindex.go CalcPastMedianTime).
	var c []refbip9.Hdr
	for _, t := range []int64{50, 10, 40, 20} {
		c = append(c, refbip9.Hdr{Time: t})
	}
	if refbip9.MTP(c) != 40 || refbip9.MTP(c[:3]) != 40 || refbip9.MTP(c[:1]) != 50 {
		r.Broken("reference median-time-past self test failed")
	}
}

// ---------------------------------------------------------------------------

func confirmCase(r *ev.Run, c *Case) int {
	rep := 0
	for i := 0; i < 3; i++ {
		if len(runCase(c)) > 0 {
			rep++
		}
	}
	return rep
}

func reportA(r *ev.Run, ta *treeA, defs Defs, thr uint32, m misAK) {
	key := m.key()
	if _, loaded := seenKeys.LoadOrStore(key, true); loaded {
		return
	}
	c := ta.caseFromPath(m.sub, defs, thr, m.n, m.op, m.slot)
	if m.sub == "absorbing" || m.sub == "illegal-step" {
		q := c.Queries[0]
		c.Queries = []QueryJ{{Node: q.Node - 1, Op: "state", Slot: m.slot}, q}
		if q.Node == -1 {
			c.Queries[0].Node = -2
		}
	}
	switch confirmCase(r, c) {
	case 3:
		what := m.what + " [reproduced 3/3 on a fresh linear chain holding only this history]"
		r.Violation(key, what, Replay{Key: key, What: what, Kind: "case", Case: c})
		return
	case 0:
	default:
		r.Broken("verdict flips between re-runs of the same case (%s)", key)
	}
	// Only wrong in the context of the earlier queries on the shared cache:
	// confirm by re-running the whole pass.
	spec := PassASpec{Tree: ta.spec, Defs: defs, Thr: thr}
	for i := 0; i < 2; i++ {
		mis, _ := runPassA(buildTreeA(spec.Tree), defs, thr, true)
		found := false
		for _, x := range mis {
			if x.key() == key {
				found = true
			}
		}
		if !found {
			r.Broken("verdict flips between re-runs of the same pass (%s)", key)
		}
	}
	what := m.what + " [correct on a fresh chain, wrong after the earlier queries of this order: depends on the shared cache]"
	r.Violation(key, what, Replay{Key: key, What: what, Kind: "passA", PassA: &spec})
}

func reportB(r *ev.Run, m misB) {
	if _, loaded := seenKeys.LoadOrStore(m.key, true); loaded {
		return
	}
	if n := confirmCase(r, m.c); n != 3 {
		r.Broken("suite B case does not reproduce deterministically (%d/3) (%s)", n, m.key)
	}
	r.Violation(m.key, m.what, Replay{Key: m.key, What: m.what, Kind: "case", Case: m.c})
}

// ---------------------------------------------------------------------------

// keyC reduces a suite C failure description to a stable key.
func keyC(bad string) string {
	switch {
	case strings.Contains(bad, "was accepted in it"):
		return "csv-violation-accepted-in-active-period"
	case strings.Contains(bad, "rules not in force"):
		return "csv-enforced-before-active"
	case strings.Contains(bad, "unexpected error"):
		return "unexpected-error"
	}
	return "other"
}

type comboA struct {
	name   string
	spec   TreeSpecA
	domain string // full | reduced
}

func main() {
	r := ev.Start("C14")
	bindReference(r)

	if r.ReplayPath != "" {
		var rp Replay
		r.LoadReplay(&rp)
		switch rp.Kind {
		case "case":
			if mis := runCase(rp.Case); len(mis) > 0 {
				r.Violation(rp.Key, mis[0].What, rp)
			}
		case "passA":
			mis, _ := runPassA(buildTreeA(rp.PassA.Tree), rp.PassA.Defs, rp.PassA.Thr, true)
			for _, m := range mis {
				if m.key() == rp.Key {
					r.Violation(rp.Key, m.what, rp)
				}
			}
		case "e2e":
			bad, broken := runCaseC(*rp.E2E)
			if broken != "" {
				r.Broken("suite C scenario could not be set up: %s", broken)
			}
			if bad != "" {
				r.Violation(rp.Key, bad, rp)
			}
		default:
			r.Broken("unknown replay kind %q", rp.Kind)
		}
		r.Eval(1)
		r.Finish(false)
	}

	thorough := r.Thorough()
	if thorough {
		r.SetBudget(14 * time.Minute)
	} else {
		r.SetBudget(240 * time.Second)
	}
	workers := runtime.NumCPU()
	debug.SetGCPercent(400)

	r.Rule("Suite A: one real btcd block index holds the COMPLETE binary vote tree (heights 3..2+depth, two vote kinds per block), i.e. every vote pattern of every period and every fork between two histories; " +
		"each (tree, 6 deployment definitions, network threshold) pass queries every node for all 6 slots in three global orders (ascending heights, deepest first, depth-first via the exported tip API), each order on a fresh BlockChain over the shared index, and compares with the cache-free reference. " +
		"Suite B: two-arm trees with independent arm vote patterns and per-arm clocks; 4 (quick) / 5 (thorough) query points in all 24 / 120 orders, every order starting from empty caches (the trie of orders is walked by cloning the BlockChain with its caches at each branching). " +
		"Suite C: real blocks through ProcessBlock; for every vote pattern of periods 1-2 and every probe height a block with a BIP68- or OP_CSV-violating transaction must be accepted iff the reference state of that block is not ACTIVE. " +
		"Distinct non-trivial = distinct (threshold, definition, per-period state trajectory along a root-to-leaf path) with at least one state other than DEFINED, plus fork trees whose two tips are in different states, plus every suite C scenario.")
	r.Assume("speedy-trial rules (no DEFINED->FAILED, threshold wins over timeout in STARTED) apply to deployments with a min activation height or a custom threshold, original BIP9 rules to the others (btcd keeps both)")
	r.Assume("only histories inside BIP9's precondition: start <= timeout, block time > MTP(parent) (so MTP never decreases) -- checked by the harness for every schedule")
	r.Assume("AlwaysActiveHeight is a documented btcd extension: blocks at height >= it are ACTIVE even after FAILED; 0 means unset")
	r.Assume("index-only chains built through verif_c14_export.go behave like chains built by ProcessBlock as far as thresholdState is concerned (it reads only height/version/timestamp/parent/hash of block nodes)")

	Y := topBits | allMask()
	N := topBits
	wrong := func(top uint32) int32 { return int32(top<<29 | uint32(allMask())) }
	depth := r.Pick(12, 13)

	combos := []comboA{
		{"YN/step", TreeSpecA{N, Y, N, "step", depth}, "full"},
		{"YN/step/period0-signals", TreeSpecA{N, Y, Y, "step", depth}, "reduced"},
		{"YN/jitter", TreeSpecA{N, Y, N, "jitter", depth}, "reduced"},
		{"YN/min", TreeSpecA{N, Y, N, "min", depth}, "reduced"},
		{"Y-vs-wrongtop010/step", TreeSpecA{wrong(2), Y, N, "step", depth}, "reduced"},
		{"Y-vs-wrongtop000/step", TreeSpecA{wrong(0), Y, N, "step", depth}, "reduced"},
		{"Y-vs-wrongtop101/step", TreeSpecA{wrong(5), Y, N, "step", depth}, "reduced"},
		{"evenbits-vs-oddbits/step", TreeSpecA{topBits | halfMask(0), topBits | halfMask(1), N, "step", depth}, "reduced"},
		{"N-vs-wrongtop011/step", TreeSpecA{N, wrong(3), N, "step", depth}, "reduced"},
	}
	if thorough {
		combos = append(combos,
			comboA{"YN/step/depth15", TreeSpecA{N, Y, N, "step", 15}, "reduced"},
			comboA{"Y-vs-wrongtop011/jitter", TreeSpecA{wrong(3), Y, N, "jitter", depth}, "reduced"},
			comboA{"Y-vs-wrongtop111/step", TreeSpecA{wrong(7), Y, N, "step", depth}, "reduced"},
			comboA{"Y-vs-wrongtop100/min", TreeSpecA{wrong(4), Y, N, "min", depth}, "reduced"},
			comboA{"Y-vs-wrongtop110/step", TreeSpecA{wrong(6), Y, N, "step", depth}, "reduced"},
			comboA{"evenbits-vs-oddbits/jitter", TreeSpecA{topBits | halfMask(0), topBits | halfMask(1), Y, "jitter", depth}, "reduced"},
		)
	}

	var totStateQ, totVerQ, totTipQ, totEdges, totPasses, totCache int64
	var seen [5]int64
	var mu sync.Mutex
	defCount := map[string]int{}
	exhaustive := true
	var boundsCombos []map[string]interface{}

	only := os.Getenv("C14_ONLY") // development aid: "A" or "B"
	if only != "" {
		exhaustive = false
		r.Cap("C14_ONLY=" + only + " (development run)")
	}
	for _, cb := range combos {
		if only == "B" || only == "C" {
			break
		}
		if r.Expired() {
			r.Cap("suite A stopped before combo " + cb.name)
			exhaustive = false
			break
		}
		ta := buildTreeA(cb.spec)
		if err := checkSchedule(ta.times); err != nil {
			r.Broken("schedule %s: %v", cb.spec.Sched, err)
		}
		mt := ta.mt
		H := len(mt) - 1
		far := mt[H] + 1_000_000
		var defs []DefJ
		var dom map[string]interface{}
		if cb.domain == "full" {
			// quick: one value at / one past every boundary that matters up to
			// height 14; thorough: more crossing points and thresholds.
			d := domA{
				starts:   uniq64([]int64{0, 1, mt[2], mt[2] + 1, mt[5], mt[5] + 1}),
				timeouts: uniq64([]int64{0, -1, mt[5], mt[5] + 1, mt[8], mt[8] + 1, far}),
				mins:     []uint32{0, 1, 9, 10, 12, 1000},
				customs:  []uint32{0, 2, 3},
				aahs:     []uint32{0},
			}
			aah2 := []uint32{1, 9, 10}
			if thorough {
				d.starts = uniq64([]int64{0, 1, mt[2], mt[2] + 1, mt[4] + 1, mt[5], mt[5] + 1, mt[8]})
				d.timeouts = uniq64([]int64{0, -1, mt[2], mt[5], mt[5] + 1, mt[8], mt[8] + 1, mt[11], mt[11] + 1, far})
				d.mins = []uint32{0, 1, 8, 9, 10, 12, 13, 1000}
				d.customs = []uint32{0, 2, 3, 4}
				aah2 = []uint32{1, 2, 9, 10, 13}
			}
			defs = enumDefs(d)
			d2 := d
			d2.mins = []uint32{0, 10}
			d2.customs = []uint32{0, 2}
			d2.aahs = aah2
			defs = append(defs, enumDefs(d2)...)
			dom = map[string]interface{}{"starts": d.starts, "timeouts(-1 means =start)": d.timeouts, "min_activation_heights": d.mins, "custom_thresholds": d.customs,
				"always_active_heights": "0 with the full product; " + fmt.Sprint(aah2) + " with min{0,10} x custom{0,2} x all start/timeout pairs"}
		} else {
			d := domA{
				starts:   uniq64([]int64{0, mt[2], mt[5] + 1}),
				timeouts: uniq64([]int64{0, -1, mt[8] + 1, far}),
				mins:     []uint32{0, 10},
				customs:  []uint32{0, 2},
				aahs:     []uint32{0, 9},
			}
			if thorough {
				d.timeouts = uniq64([]int64{0, -1, mt[5], mt[8] + 1, far})
				d.mins = []uint32{0, 9, 10}
			}
			defs = enumDefs(d)
			dom = map[string]interface{}{"starts": d.starts, "timeouts(-1 means =start)": d.timeouts, "min_activation_heights": d.mins, "custom_thresholds": d.customs, "always_active_heights": d.aahs}
		}
		bs := batches(defs)
		type unit struct {
			defs Defs
			thr  uint32
		}
		var units []unit
		for _, thr := range []uint32{2, 3} {
			for _, b := range bs {
				units = append(units, unit{b, thr})
			}
		}
		var done int64
		ev.Par(len(units), workers, func(i int) {
			if r.Expired() {
				return
			}
			u := units[i]
			mis, ps := runPassA(ta, u.defs, u.thr, i%4 == 0)
			for _, m := range mis {
				reportA(r, ta, u.defs, u.thr, m)
			}
			atomic.AddInt64(&done, 1)
			atomic.AddInt64(&totStateQ, ps.stateQ)
			atomic.AddInt64(&totVerQ, ps.verQ)
			atomic.AddInt64(&totTipQ, ps.tipQ)
			atomic.AddInt64(&totEdges, ps.edges)
			atomic.AddInt64(&totCache, ps.cacheEntries)
			atomic.AddInt64(&totPasses, 1)
			for k := 0; k < 5; k++ {
				atomic.AddInt64(&seen[k], ps.seen[k])
			}
			r.Eval(int(ps.stateQ + ps.verQ + ps.tipQ))
			r.Trace(nSlots << uint(cb.spec.Depth))
			for _, k := range sortedKeys(ps.traj) {
				r.Nontrivial(cb.name + "|" + k)
			}
			if i < 2 && r.WantSample() {
				ks := sortedKeys(ps.traj)
				if len(ks) > 0 {
					r.Sample(map[string]interface{}{"suite": "A", "tree": cb.name, "threshold": u.thr, "definition|trajectory(leaf..genesis)": ks[len(ks)/2]})
				}
			}
		})
		if int(done) != len(units) {
			r.Cap(fmt.Sprintf("suite A combo %s: %d of %d passes done", cb.name, done, len(units)))
			exhaustive = false
		}
		mu.Lock()
		defCount[cb.name] = len(defs)
		boundsCombos = append(boundsCombos, map[string]interface{}{
			"tree": cb.name, "vote_versions": []string{fmt.Sprintf("%#x", uint32(cb.spec.K0)), fmt.Sprintf("%#x", uint32(cb.spec.K1))},
			"period0_version": fmt.Sprintf("%#x", uint32(cb.spec.W0)), "schedule": cb.spec.Sched, "histories": 1 << uint(cb.spec.Depth),
			"tree_nodes": len(ta.nodes), "definitions": len(defs), "passes": len(units), "domain": dom, "mtp_by_height": mt,
		})
		mu.Unlock()
	}

	// ---------------- suite C: rule gating end to end ----------------
	var cDone, cActive int64
	if (exhaustive || only == "C") && only != "A" && only != "B" {
		cases := casesC()
		ev.Par(len(cases), workers, func(i int) {
			if r.Expired() {
				return
			}
			c := cases[i]
			bad, broken := runCaseC(c)
			if broken != "" {
				r.Broken("suite C scenario could not be set up (%+v): %s", c, broken)
			}
			if bad != "" {
				key := "e2e/" + c.Kind + "/" + keyC(bad)
				if _, loaded := seenKeys.LoadOrStore(key, true); !loaded {
					for k := 0; k < 3; k++ {
						if b2, br := runCaseC(c); br != "" || b2 != bad {
							r.Broken("suite C verdict flips between re-runs (%+v): %q vs %q / %s", c, bad, b2, br)
						}
					}
					r.Violation(key, fmt.Sprintf("%s (case %+v)", bad, c), Replay{Key: key, What: bad, Kind: "e2e", E2E: &c})
				}
			}
			atomic.AddInt64(&cDone, 1)
			r.Eval(1)
			r.Trace(1)
			r.Nontrivial(fmt.Sprintf("C|%+v", c))
		})
		if int(cDone) != len(cases) {
			r.Cap(fmt.Sprintf("suite C: %d of %d cases done", cDone, len(cases)))
			exhaustive = false
		}
		r.Set("suite_C_bounds", map[string]interface{}{
			"params":  "regtest-like, window 3, threshold 2, CSV on bit 0 always started / never expires; real blocks through ProcessBlock on ffldb",
			"linear":  "all 2^6 vote patterns of heights 3..8; probe block with a BIP68-violating tx at every height 6..13, probe block with an OP_CHECKSEQUENCEVERIFY-violating tx at heights 8,9,11,12",
			"fork":    "common blocks 1..3, two arms with independent votes (heights 4,5 free, heights 6..8 all-yes/all-no: 8 x 8 arm pairs), arm A probed at height 8 or 9, then arm B delivered (reorg) and probed at height 11 or 12",
			"oracle":  "probe accepted iff the reference state of that block is not ACTIVE; rejected with ErrUnfinalizedTx / ErrScriptValidation iff ACTIVE",
			"n_cases": len(cases),
		})
	}
	_ = cActive
	r.Add("suite_C_cases", cDone)

	// ---------------- suite B ----------------
	var bTrees, bOrders, bQueries, bDiff int64
	if (exhaustive || only == "B") && only != "A" && only != "C" {
		mt := buildTreeA(TreeSpecA{N, Y, N, "step", 12}).mt // MTPs of the 600 s step main line
		far := mt[14] + 1_000_000
		defsB := []struct {
			thr  uint32
			defs Defs
		}{
			{2, Defs{
				{},
				{Start: mt[5] + 1},
				{Timeout: mt[8] + 1},
				{Timeout: mt[8], Custom: 3},
				{Min: 13},
				{Start: mt[8] + 1, Timeout: mt[11] + 1, Min: 12, Custom: 2},
			}},
			{3, Defs{
				{},
				{Start: mt[8], Timeout: far, Custom: 2},
				{AAH: 10},
				{Start: mt[5], Timeout: mt[11], AAH: 13},
				{Timeout: mt[11] + 1, Min: 10},
				{Start: 1, Timeout: mt[14], Custom: 3},
			}},
		}
		armBits := 6
		E := 14
		nq := r.Pick(4, 5)
		prefixes := []string{"N", "YN"}
		kinds := [][2]int32{{N, Y}}
		if thorough {
			kinds = append(kinds, [2]int32{wrong(2), Y})
		}
		var units []unitB
		for ki, kd := range kinds {
			for _, db := range defsB {
				for F := 5; F <= 10; F++ {
					for pi, p := range prefixes {
						if ki > 0 && (pi > 0 || F%3 != 2) {
							continue // the second vote-kind pair only with the first prefix and forks at heights 5, 8
						}
						units = append(units, unitB{F: F, E: E, Prefix: p, ArmBits: armBits, K0: kd[0], K1: kd[1], Thr: db.thr, Defs: db.defs, NQ: nq})
					}
				}
			}
		}
		var done int64
		ev.Par(len(units), workers, func(i int) {
			if r.Expired() {
				return
			}
			mis, sb := runUnitB(units[i], r.Expired)
			for _, m := range mis {
				reportB(r, m)
			}
			if !sb.aborted {
				atomic.AddInt64(&done, 1)
			}
			atomic.AddInt64(&bTrees, sb.trees)
			atomic.AddInt64(&bOrders, sb.orders)
			atomic.AddInt64(&bQueries, sb.queries)
			atomic.AddInt64(&bDiff, sb.differing)
			r.Eval(int(sb.queries))
			r.Trace(int(sb.orders))
			for _, k := range sb.nontrivial {
				r.Nontrivial(k)
			}
		})
		if int(done) != len(units) {
			r.Cap(fmt.Sprintf("suite B: %d of %d units done", done, len(units)))
			exhaustive = false
		}
		r.Set("suite_B_bounds", map[string]interface{}{
			"fork_point_heights": "5..10 (first divergent block at every height of periods 2-3)", "arm_tip_height": E,
			"arm_vote_patterns": fmt.Sprintf("all 2^min(armlen,%d), bit j mod %d decides arm block j", armBits, armBits),
			"arm_clocks":        "A: 600 s step; B: 600 s step, or first block at MTP(fork point)+1 and then a 2400 s step; the active-chain view sits on one of the two arm tips (alternating)", "prefix_vote_patterns": prefixes,
			"query_points": "tip A, tip B, fork point, last period boundary below tip B (thorough: also the one below tip A)", "orders": len(perms(nq)),
			"definition_sets": len(defsB), "units": len(units), "vote_kind_pairs": len(kinds),
		})
	}

	// Out-of-scope probe (recorded, not a verdict): deployment id == number of
	// deployments.
	func() {
		ta := buildTreeA(TreeSpecA{N, Y, N, "step", 1})
		v := ta.view(Defs{}, 2, 1)
		defer func() {
			if e := recover(); e != nil {
				r.Set("side_observation_out_of_scope", fmt.Sprintf("ThresholdState(%d) (id == len(Deployments)) panics: %v -- the range check in deploymentState uses '>' instead of '>='", nSlots, e))
			}
		}()
		_, err := v.ThresholdState(uint32(nSlots))
		r.Set("side_observation_out_of_scope", fmt.Sprintf("ThresholdState(%d) returned err=%v", nSlots, err))
	}()

	sort.Slice(boundsCombos, func(i, j int) bool { return boundsCombos[i]["tree"].(string) < boundsCombos[j]["tree"].(string) })
	r.Set("bounds", map[string]interface{}{
		"window": W, "network_threshold": []int{2, 3}, "deployment_slots_per_chain": nSlots, "slot_bits": slotBits,
		"suite_A_depth_blocks": depth, "suite_A_trees": boundsCombos,
		"start_timeout_note":  "start/timeout values are median-time-past values of the tree's main line: MTP(h2), MTP(h5), MTP(h8), MTP(h11) are what the period boundaries see; 'x+1' is one past; pairs with start>timeout are excluded (BIP9 precondition)",
		"min_activation_note": "periods start at heights 9 and 12, hence 9,10 / 12,13",
		"schedules":           "step: T0+600h; jitter: step with odd heights >=3 moved back 700 s; min: MTP(parent)+1",
	})
	r.Add("suite_A_passes", totPasses)
	r.Add("suite_A_state_queries", totStateQ)
	r.Add("suite_A_version_queries", totVerQ)
	r.Add("suite_A_tip_api_queries", totTipQ)
	r.Add("suite_A_edges_checked_absorbing_and_legal_step", totEdges)
	r.Add("suite_A_threshold_cache_entries_after_first_order", totCache)
	for k, nm := range []string{"defined", "started", "locked_in", "active", "failed"} {
		r.Add("impl_states_observed_"+nm, seen[k])
	}
	r.Add("suite_B_trees", bTrees)
	r.Add("suite_B_orders_run", bOrders)
	r.Add("suite_B_queries", bQueries)
	r.Add("suite_B_trees_with_arm_tips_in_different_states", bDiff)
	r.State(int(totStateQ / 3))
	r.Trans(int(totStateQ + totVerQ + totTipQ + bQueries))
	r.Finish(exhaustive)
}
