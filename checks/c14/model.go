package main

import (
	"fmt"
	"time"

	"github.com/btcsuite/btcd/blockchain"
	"github.com/btcsuite/btcd/chaincfg/v2"

	"verif/ref/refbip9"
)

// W is the miner confirmation window used everywhere in this check.
const W = 3

// nSlots is the number of deployment slots btcd's Params offers; every chain
// instance carries nSlots definitions at once, each with its own version bit.
const nSlots = int(chaincfg.DefinedDeployments)

// slotBits are the version bits of the deployment slots (incl. both ends of
// the legal range 0..28).
var slotBits = [nSlots]uint8{0, 1, 7, 13, 27, 28}

const topBits = int32(0x20000000)

func slotBitsInt() []int {
	var o []int
	for _, b := range slotBits {
		o = append(o, int(b))
	}
	return o
}

func allMask() int32 {
	var m int32
	for _, b := range slotBits {
		m |= 1 << b
	}
	return m
}

func halfMask(par int) int32 {
	var m int32
	for i, b := range slotBits {
		if i%2 == par {
			m |= 1 << b
		}
	}
	return m
}

// DefJ is a JSON-able deployment definition.  Start==0: always started (btcd:
// zero time); Timeout==0: never expires.
type DefJ struct {
	Start   int64  `json:"start"`
	Timeout int64  `json:"timeout"`
	Min     uint32 `json:"min_activation_height"`
	Custom  uint32 `json:"custom_threshold"`
	AAH     uint32 `json:"always_active_height"`
}

func (d DefJ) ref(slot int) refbip9.Def {
	return refbip9.Def{
		Bit:                 slotBits[slot],
		Start:               d.Start,
		StartAlways:         d.Start == 0,
		Timeout:             d.Timeout,
		NoTimeout:           d.Timeout == 0,
		MinActivationHeight: d.Min,
		CustomThreshold:     d.Custom,
		AlwaysActiveHeight:  d.AAH,
	}
}

// class is the coarse shape of a definition, used in violation keys.
func (d DefJ) class() string {
	b := func(c bool, s string) string {
		if c {
			return s
		}
		return "-"
	}
	return b(d.Start != 0, "S") + b(d.Timeout != 0, "T") + b(d.Min != 0, "M") + b(d.Custom != 0, "C") + b(d.AAH != 0, "A")
}

func (d DefJ) key() string {
	return fmt.Sprintf("s%d/t%d/m%d/c%d/a%d", d.Start, d.Timeout, d.Min, d.Custom, d.AAH)
}

type Defs [nSlots]DefJ

func zt(v int64) time.Time {
	if v == 0 {
		return time.Time{}
	}
	return time.Unix(v, 0)
}

// makeParams builds a PRIVATE parameter set (fresh starter/ender objects) for
// one BlockChain instance.
func makeParams(defs Defs, thr uint32, genesisTime int64) *chaincfg.Params {
	p := chaincfg.RegressionNetParams // struct copy
	p.MinerConfirmationWindow = W
	p.RuleChangeActivationThreshold = thr
	gen := *p.GenesisBlock
	gen.Header.Timestamp = time.Unix(genesisTime, 0)
	p.GenesisBlock = &gen
	p.Checkpoints = nil
	for i := 0; i < nSlots; i++ {
		d := defs[i]
		p.Deployments[i] = chaincfg.ConsensusDeployment{
			BitNumber:                 slotBits[i],
			MinActivationHeight:       d.Min,
			CustomActivationThreshold: d.Custom,
			AlwaysActiveHeight:        d.AAH,
			DeploymentStarter:         chaincfg.NewMedianTimeDeploymentStarter(zt(d.Start)),
			DeploymentEnder:           chaincfg.NewMedianTimeDeploymentEnder(zt(d.Timeout)),
		}
	}
	return &p
}

// Tree is an index-only block tree inside one btcd block index, plus the
// harness-side mirror of it for the reference model.
// Node 0 is the nil node (parent of genesis), node 1 the genesis block.
type Tree struct {
	base        *blockchain.BlockChain
	genesisTime int64
	genesisVer  int32
	nodes       []blockchain.VerifC14Node
	parent      []int32
	height      []int32
	hdr         []refbip9.Hdr
	nonce       []uint32
	kids        [][]int32
}

func newTree(genesisTime int64) *Tree {
	var defs Defs
	p := makeParams(defs, 2, genesisTime)
	base, g := blockchain.VerifC14NewChain(p)
	t := &Tree{base: base, genesisTime: genesisTime, genesisVer: p.GenesisBlock.Header.Version}
	t.nodes = append(t.nodes, blockchain.VerifC14Node{}, g)
	t.parent = append(t.parent, -1, 0)
	t.height = append(t.height, -1, 0)
	t.hdr = append(t.hdr, refbip9.Hdr{}, refbip9.Hdr{Version: t.genesisVer, Time: genesisTime})
	t.nonce = append(t.nonce, 0, 0)
	t.kids = append(t.kids, []int32{1}, nil)
	return t
}

func (t *Tree) add(parent int, version int32, ts int64, nonce uint32) int {
	n := t.base.VerifC14AddNode(t.nodes[parent], version, ts, nonce)
	id := len(t.nodes)
	t.nodes = append(t.nodes, n)
	t.parent = append(t.parent, int32(parent))
	t.height = append(t.height, t.height[parent]+1)
	t.hdr = append(t.hdr, refbip9.Hdr{Version: version, Time: ts})
	t.nonce = append(t.nonce, nonce)
	t.kids = append(t.kids, nil)
	t.kids[parent] = append(t.kids[parent], int32(id))
	return id
}

// path returns the headers genesis..node (empty for the nil node) in buf.
func (t *Tree) path(i int, buf []refbip9.Hdr) []refbip9.Hdr {
	h := int(t.height[i])
	if cap(buf) < h+1 {
		buf = make([]refbip9.Hdr, h+1)
	}
	buf = buf[:h+1]
	for j := i; j > 0; j = int(t.parent[j]) {
		buf[t.height[j]] = t.hdr[j]
	}
	return buf
}

func (t *Tree) ancestorAt(i int, height int32) int {
	for t.height[i] > height {
		i = int(t.parent[i])
	}
	return i
}

func (t *Tree) view(defs Defs, thr uint32, tip int) *blockchain.BlockChain {
	// tip 0 = no best chain tip at all (cheap: btcd's chain view allocates a
	// large node slice as soon as it has a tip); only the exported tip API
	// needs one, and that is positioned with VerifC14SetTip.
	return t.base.VerifC14NewView(makeParams(defs, thr, t.genesisTime), t.nodes[tip])
}

// ---- explicit, self-contained cases (used for confirmation and replay) ----

type BlkJ struct {
	Parent  int    `json:"parent"` // index into Blocks, -1 = genesis
	Version int32  `json:"version"`
	Time    int64  `json:"time"`
	Nonce   uint32 `json:"nonce"`
}

type QueryJ struct {
	Node int    `json:"node"` // index into Blocks, -1 = genesis, -2 = nil (state of genesis itself)
	Op   string `json:"op"`   // state | version | tipstate | tipactive | tipversion
	Slot int    `json:"slot"`
}

type Case struct {
	Sub         string   `json:"sub_check"`
	Window      int      `json:"window"`
	Threshold   uint32   `json:"threshold"`
	GenesisTime int64    `json:"genesis_time"`
	SlotBits    []int    `json:"slot_bits"`
	Defs        Defs     `json:"defs"`
	Blocks      []BlkJ   `json:"blocks"`
	Queries     []QueryJ `json:"queries"`
	// BestTip (index into Blocks): the active-chain view is positioned there
	// before the queries (nil: no active chain at all)
	BestTip *int `json:"best_chain_tip,omitempty"`
}

type mismatch struct {
	Q    int
	What string
}

func st(s blockchain.ThresholdState) refbip9.State { return refbip9.State(s) }

// runCase executes the case on a fresh chain and returns every disagreement
// with the reference model.
func runCase(c *Case) (out []mismatch) {
	t := newTree(c.GenesisTime)
	idx := func(i int) int { return i + 2 }
	for _, b := range c.Blocks {
		t.add(idx(b.Parent), b.Version, b.Time, b.Nonce)
	}
	v := t.view(c.Defs, c.Threshold, 0)
	if c.BestTip != nil {
		v.VerifC14SetTip(t.nodes[idx(*c.BestTip)])
	}
	net := refbip9.Net{Window: W, Threshold: c.Threshold}
	var rdefs []refbip9.Def
	for s := 0; s < nSlots; s++ {
		rdefs = append(rdefs, c.Defs[s].ref(s))
	}
	for qi, q := range c.Queries {
		func() {
			defer func() {
				if e := recover(); e != nil {
					out = append(out, mismatch{qi, fmt.Sprintf("query %d (%s node %d slot %d): PANIC %v", qi, q.Op, q.Node, q.Slot, e)})
				}
			}()
			n := idx(q.Node)
			chain := t.path(n, nil)
			switch q.Op {
			case "state", "tipstate", "tipactive":
				want := refbip9.StateAfter(chain, rdefs[q.Slot], net)
				var got blockchain.ThresholdState
				var err error
				switch q.Op {
				case "state":
					got, err = v.VerifC14DeploymentState(t.nodes[n], uint32(q.Slot))
				case "tipstate":
					v.VerifC14SetTip(t.nodes[n])
					got, err = v.ThresholdState(uint32(q.Slot))
				case "tipactive":
					v.VerifC14SetTip(t.nodes[n])
					var a bool
					a, err = v.IsDeploymentActive(uint32(q.Slot))
					if err == nil && a != (want == refbip9.Active) {
						out = append(out, mismatch{qi, fmt.Sprintf("query %d: IsDeploymentActive(slot %d) at height %d = %v, reference state %v", qi, q.Slot, t.height[n], a, want)})
					}
					return
				}
				if err != nil {
					out = append(out, mismatch{qi, fmt.Sprintf("query %d (%s): error %v", qi, q.Op, err)})
				} else if st(got) != want {
					out = append(out, mismatch{qi, fmt.Sprintf("query %d: %s(slot %d) after height %d = %v, reference %v", qi, q.Op, q.Slot, t.height[n], st(got), want)})
				}
			case "version", "tipversion":
				want := refbip9.NextVersion(chain, rdefs, net)
				var got int32
				var err error
				if q.Op == "version" {
					got, err = v.VerifC14CalcNextBlockVersion(t.nodes[n])
				} else {
					v.VerifC14SetTip(t.nodes[n])
					got, err = v.CalcNextBlockVersion()
				}
				if err != nil {
					out = append(out, mismatch{qi, fmt.Sprintf("query %d (%s): error %v", qi, q.Op, err)})
				} else if got != want {
					out = append(out, mismatch{qi, fmt.Sprintf("query %d: %s after height %d = %#x, reference %#x", qi, q.Op, t.height[n], uint32(got), uint32(want))})
				}
			}
		}()
	}
	return out
}

// caseFromPath builds the minimal linear case: the history up to node n and
// one query there.
func (t *Tree) caseFromPath(sub string, defs Defs, thr uint32, n int, op string, slot int) *Case {
	c := &Case{Sub: sub, Window: W, Threshold: thr, GenesisTime: t.genesisTime, SlotBits: slotBitsInt(), Defs: defs}
	var chain []int
	for j := n; j > 1; j = int(t.parent[j]) {
		chain = append([]int{j}, chain...)
	}
	for k, j := range chain {
		c.Blocks = append(c.Blocks, BlkJ{Parent: k - 1, Version: t.hdr[j].Version, Time: t.hdr[j].Time, Nonce: t.nonce[j]})
	}
	qn := len(chain) - 1
	if n == 0 {
		qn = -2
	}
	c.Queries = []QueryJ{{Node: qn, Op: op, Slot: slot}}
	return c
}
