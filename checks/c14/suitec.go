package main

import (
	"errors"
	"fmt"

	"github.com/btcsuite/btcd/blockchain"
	"github.com/btcsuite/btcd/chaincfg/v2"
	"github.com/btcsuite/btcd/wire/v2"

	"verif/lab"
	"verif/ref/refbip9"
)

// ---------------------------------------------------------------------------
// Suite C: rule gating end to end, real blocks through ProcessBlock (ffldb on
// /dev/shm).  Regtest-like parameters with window 3, threshold 2 and the CSV
// deployment voted in on bit 0 (always started, never expires).  A "probe"
// block contains a version-2 transaction whose input carries a 20-block
// relative lock (BIP68) on a 3-block-old coin: valid while CSV is not active,
// invalid (ErrUnfinalizedTx) in every block whose deployment state is ACTIVE.
// ---------------------------------------------------------------------------

type CaseC struct {
	// Linear: votes of heights 3..(3+len-1), probe at height Probe.
	// Fork: common blocks 1..3 (height 3 signals), arm votes for heights 4..8
	// (later blocks do not signal), arm A probed at ProbeA after A[..ProbeA-1],
	// then arm B delivered up to ProbeB-1 (longer: reorg) and probed at ProbeB.
	Kind string `json:"kind"` // linear | fork
	// Flavor of the probe transaction: "bip68" (relative lock-time of the
	// input not met) or "opcsv" (spends an output locked by "20
	// OP_CHECKSEQUENCEVERIFY" with a sequence number that has the disable bit
	// set: fine while the opcode is still OP_NOP3).  In fork cases arm A is
	// probed with "bip68" and arm B with Flavor.
	Flavor string `json:"flavor"`
	Votes  []int  `json:"votes,omitempty"`
	Probe  int    `json:"probe,omitempty"`
	ArmA   []int  `json:"arm_a,omitempty"`
	ArmB   []int  `json:"arm_b,omitempty"`
	ProbeA int    `json:"probe_a,omitempty"`
	ProbeB int    `json:"probe_b,omitempty"`
}

const csvBit = 0

func paramsC() *chaincfg.Params {
	p := lab.RegtestLike()
	p.MinerConfirmationWindow = W
	p.RuleChangeActivationThreshold = 2
	d := &p.Deployments[chaincfg.DeploymentCSV]
	d.BitNumber = csvBit
	d.AlwaysActiveHeight = 0
	d.MinActivationHeight = 0
	d.CustomActivationThreshold = 0
	d.DeploymentStarter = chaincfg.NewMedianTimeDeploymentStarter(zt(0))
	d.DeploymentEnder = chaincfg.NewMedianTimeDeploymentEnder(zt(0))
	return p
}

func voteVersion(v int) int32 {
	if v == 1 {
		return topBits | 1<<csvBit
	}
	return topBits
}

type labLine struct {
	p      *chaincfg.Params
	blocks []*lab.Blk // blocks[h] = block at height h (0 = genesis)
}

func (l *labLine) tip() *lab.Blk { return l.blocks[len(l.blocks)-1] }

func (l *labLine) hdrs() []refbip9.Hdr {
	var out []refbip9.Hdr
	for _, b := range l.blocks {
		out = append(out, refbip9.Hdr{Version: b.Msg.Header.Version, Time: b.Msg.Header.Timestamp.Unix()})
	}
	return out
}

// csvScript is "20 OP_CHECKSEQUENCEVERIFY" (OP_NOP3 before activation).
var csvScript = []byte{0x01, 0x14, 0xb2}

func (l *labLine) extend(vote int, tag uint32) *lab.Blk {
	h := int32(len(l.blocks))
	sub := lab.Subsidy(h, l.p)
	outs := []*wire.TxOut{{Value: sub - sub/2, PkScript: lab.OpTrue}, {Value: sub / 2, PkScript: csvScript}}
	b := lab.Build(l.p, l.tip(), lab.BOpt{Version: voteVersion(vote), Tag: tag, CoinbaseOuts: outs})
	l.blocks = append(l.blocks, b)
	return b
}

// probe builds (without appending) the block after the tip that carries the
// BIP68-violating transaction.
func (l *labLine) probe(tag uint32, flavor string) *lab.Blk {
	h := len(l.blocks) // height of the probe block
	src := l.blocks[h-3]
	cb := src.Msg.Transactions[0]
	tx := wire.NewMsgTx(2)
	if flavor == "opcsv" {
		tx.AddTxIn(&wire.TxIn{PreviousOutPoint: wire.OutPoint{Hash: lab.TxID(cb), Index: 1}, Sequence: 0xffffffff})
		tx.AddTxOut(&wire.TxOut{Value: cb.TxOut[1].Value, PkScript: lab.OpTrue})
	} else {
		tx.AddTxIn(&wire.TxIn{PreviousOutPoint: wire.OutPoint{Hash: lab.TxID(cb), Index: 0}, Sequence: 20})
		tx.AddTxOut(&wire.TxOut{Value: cb.TxOut[0].Value, PkScript: lab.OpTrue})
	}
	return lab.Build(l.p, l.tip(), lab.BOpt{Version: topBits, Tag: tag, Txs: []*wire.MsgTx{tx}})
}

// runCaseC returns "" if btcd's verdicts equal the expectation derived from the
// reference state machine, a description otherwise; broken!="" means the
// scenario itself could not be set up (harness problem, not a verdict).
func runCaseC(c CaseC) (bad string, broken string) {
	p := paramsC()
	ch, err := lab.NewChain(p, lab.ChainOpts{})
	if err != nil {
		return "", "lab.NewChain: " + err.Error()
	}
	defer ch.Destroy()
	net := refbip9.Net{Window: W, Threshold: 2}
	def := refbip9.Def{Bit: csvBit, StartAlways: true, NoTimeout: true}
	deliver := func(b *lab.Blk) string {
		_, orphan, err := ch.BC.ProcessBlock(b.Block(), blockchain.BFNone)
		if err != nil || orphan {
			return fmt.Sprintf("valid block at height %d rejected: err=%v orphan=%v", b.Height, err, orphan)
		}
		return ""
	}
	probeAt := func(l *labLine, tag uint32, flavor string) string {
		wantCode := blockchain.ErrUnfinalizedTx
		if flavor == "opcsv" {
			wantCode = blockchain.ErrScriptValidation
		}
		pb := l.probe(tag, flavor)
		want := refbip9.StateAfter(l.hdrs(), def, net)
		_, orphan, err := ch.BC.ProcessBlock(pb.Block(), blockchain.BFNone)
		if orphan {
			return fmt.Sprintf("probe block at height %d treated as orphan", pb.Height)
		}
		best := ch.BC.BestSnapshot().Hash
		if want == refbip9.Active {
			var re blockchain.RuleError
			if err == nil {
				return fmt.Sprintf("block %d is the reference's ACTIVE period but a CSV-violating (%s) transaction was accepted in it", pb.Height, flavor)
			}
			if !errors.As(err, &re) || re.ErrorCode != wantCode {
				return fmt.Sprintf("probe block at height %d (ACTIVE) rejected with unexpected error %v", pb.Height, err)
			}
			if best == pb.Hash {
				return fmt.Sprintf("rejected probe block at height %d became the best block", pb.Height)
			}
			return ""
		}
		if err != nil {
			return fmt.Sprintf("block %d is in the reference's %v period (CSV rules not in force) but the %s probe block was rejected: %v", pb.Height, want, flavor, err)
		}
		if best != pb.Hash {
			return fmt.Sprintf("accepted probe block at height %d (state %v) is not the best block", pb.Height, want)
		}
		return ""
	}
	switch c.Kind {
	case "linear":
		l := &labLine{p: p, blocks: []*lab.Blk{lab.Genesis(p)}}
		for h := 1; h < c.Probe; h++ {
			v := 0
			if h >= 3 && h-3 < len(c.Votes) {
				v = c.Votes[h-3]
			}
			if s := deliver(l.extend(v, 0)); s != "" {
				return "", s
			}
		}
		return probeAt(l, 7, c.Flavor), ""
	case "fork":
		common := &labLine{p: p, blocks: []*lab.Blk{lab.Genesis(p)}}
		for h := 1; h <= 3; h++ {
			v := 0
			if h == 3 {
				v = 1
			}
			if s := deliver(common.extend(v, 0)); s != "" {
				return "", s
			}
		}
		arm := func(votes []int, upto int, tag uint32) (*labLine, string) {
			l := &labLine{p: p, blocks: append([]*lab.Blk(nil), common.blocks...)}
			for h := 4; h <= upto; h++ {
				v := 0
				if h-4 < len(votes) {
					v = votes[h-4]
				}
				if s := deliver(l.extend(v, tag)); s != "" {
					return nil, s
				}
			}
			return l, ""
		}
		a, s := arm(c.ArmA, c.ProbeA-1, 1)
		if s != "" {
			return "", s
		}
		if s := probeAt(a, 8, "bip68"); s != "" {
			return "arm A: " + s, ""
		}
		b, s := arm(c.ArmB, c.ProbeB-1, 2)
		if s != "" {
			return "", s
		}
		if ch.BC.BestSnapshot().Hash != b.tip().Hash {
			return "", "arm B did not become the best chain"
		}
		if s := probeAt(b, 9, c.Flavor); s != "" {
			return "arm B (after reorganizing from arm A): " + s, ""
		}
		return "", ""
	}
	return "", "unknown case kind"
}

func bitsOf(x, n int) []int {
	out := make([]int, n)
	for i := 0; i < n; i++ {
		out[i] = (x >> i) & 1
	}
	return out
}

// casesC enumerates suite C.
func casesC() []CaseC {
	var out []CaseC
	// every vote pattern of periods 1 and 2 (heights 3..8), probe at every
	// height 6..13.
	for x := 0; x < 64; x++ {
		for pr := 6; pr <= 13; pr++ {
			out = append(out, CaseC{Kind: "linear", Flavor: "bip68", Votes: bitsOf(x, 6), Probe: pr})
		}
		for _, pr := range []int{8, 9, 11, 12} { // around the two possible activation heights
			out = append(out, CaseC{Kind: "linear", Flavor: "opcsv", Votes: bitsOf(x, 6), Probe: pr})
		}
	}
	// forks after height 3 (which signals): arm votes for heights 4,5 free,
	// period 2 (heights 6..8) all-yes or all-no; both arms independent.
	armOf := func(x int) []int {
		v := []int{x & 1, (x >> 1) & 1}
		k := (x >> 2) & 1
		return append(v, k, k, k)
	}
	for a := 0; a < 8; a++ {
		for b := 0; b < 8; b++ {
			for _, pa := range []int{8, 9} {
				for _, pb := range []int{11, 12} {
					fl := "bip68"
					if (a+b)%2 == 1 {
						fl = "opcsv"
					}
					out = append(out, CaseC{Kind: "fork", Flavor: fl, ArmA: armOf(a), ArmB: armOf(b), ProbeA: pa, ProbeB: pb})
				}
			}
		}
	}
	return out
}
