package main

import (
	"crypto/rand"
	"crypto/sha256"
	"encoding/binary"
	"sync"
	"sync/atomic"
)

// detReader replaces crypto/rand.Reader for the whole process.  btcd's
// v2transport / ellswift obtain key material and garbage through
// crypto/rand.Read, which honours an overridden Reader.  Every impl call that
// consumes randomness is wrapped in withRand(seed, script, f): the stream it
// sees is script || SHA256(seed||0) || SHA256(seed||1) || ... and depends on
// nothing else, so each case replays byte-identically.  withRand holds a global
// lock, so concurrent workers cannot interleave their streams.
type detReader struct {
	active bool
	seed   []byte
	ctr    uint64
	buf    []byte
	used   int
}

var (
	det        = &detReader{}
	randMu     sync.Mutex
	strayReads int64 // reads outside withRand (must stay 0)
)

func installDetRand() { rand.Reader = det }

func (d *detReader) Read(p []byte) (int, error) {
	if !d.active {
		atomic.AddInt64(&strayReads, 1)
	}
	for i := range p {
		if len(d.buf) == 0 {
			var c [8]byte
			binary.LittleEndian.PutUint64(c[:], d.ctr)
			d.ctr++
			h := sha256.Sum256(append(append([]byte("c19/rand/"), d.seed...), c[:]...))
			d.buf = h[:]
		}
		p[i] = d.buf[0]
		d.buf = d.buf[1:]
	}
	d.used += len(p)
	return len(p), nil
}

// withRand runs f with the deterministic stream for (seed, script) and returns
// the number of random bytes f consumed.
func withRand(seed string, script []byte, f func()) int {
	randMu.Lock()
	defer randMu.Unlock()
	det.seed = []byte(seed)
	det.ctr = 0
	det.buf = append([]byte(nil), script...)
	det.used = 0
	det.active = true
	defer func() { det.active = false }()
	f()
	return det.used
}
