package main

import (
	"crypto/rand"
	"crypto/sha256"
	"encoding/binary"
	"runtime"
	"sync"
	"sync/atomic"
)

// detReader replaces crypto/rand.Reader for the whole process.  btcd's
// v2transport / ellswift obtain key material and garbage through
// crypto/rand.Read, which honours an overridden Reader.  Every impl call that
// consumes randomness is wrapped in withRand(seed, script, f): the stream it
// sees is script || SHA256(seed||0) || SHA256(seed||1) || ... and depends on
// nothing else, so each case replays byte-identically.  Streams are keyed by the
// calling goroutine, so concurrent workers cannot interleave their streams.
type detStream struct {
	seed []byte
	ctr  uint64
	buf  []byte
	used int
}

type detReader struct{}

var (
	streams    sync.Map // goroutine id -> *detStream
	strayReads int64    // reads outside withRand (must stay 0)
	strayMu    sync.Mutex
	stray      = &detStream{seed: []byte("stray")}
)

func installDetRand() { rand.Reader = detReader{} }

// gid returns the current goroutine's id (parsed from the stack header
// "goroutine N [running]:").
func gid() uint64 {
	var buf [40]byte
	n := runtime.Stack(buf[:], false)
	var id uint64
	for _, c := range buf[len("goroutine "):n] {
		if c < '0' || c > '9' {
			break
		}
		id = id*10 + uint64(c-'0')
	}
	return id
}

func (s *detStream) read(p []byte) {
	for i := range p {
		if len(s.buf) == 0 {
			var c [8]byte
			binary.LittleEndian.PutUint64(c[:], s.ctr)
			s.ctr++
			h := sha256.Sum256(append(append([]byte("c19/rand/"), s.seed...), c[:]...))
			s.buf = h[:]
		}
		p[i] = s.buf[0]
		s.buf = s.buf[1:]
	}
	s.used += len(p)
}

func (detReader) Read(p []byte) (int, error) {
	if v, ok := streams.Load(gid()); ok {
		v.(*detStream).read(p)
		return len(p), nil
	}
	atomic.AddInt64(&strayReads, 1)
	strayMu.Lock()
	stray.read(p)
	strayMu.Unlock()
	return len(p), nil
}

// withRand runs f (on the calling goroutine) with the deterministic stream for
// (seed, script) and returns the number of random bytes f consumed.
func withRand(seed string, script []byte, f func()) int {
	s := &detStream{seed: []byte(seed), buf: append([]byte(nil), script...)}
	id := gid()
	streams.Store(id, s)
	defer streams.Delete(id)
	f()
	return s.used
}
