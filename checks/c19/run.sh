#!/bin/bash
# C19 runner: build the main check and the free-running -race binary from the
# CURRENT tree (VERIF_OUT / VERIF_MODFLAG come from /verif/run.sh), then run.
cd "$(dirname "$0")/../.." || exit 2
. scripts/env.sh
out=${VERIF_OUT:-bin/c19}
if ! $VGO build $VERIF_MODFLAG -tags verif -o "$out" ./checks/c19 2> "$out.buildlog"; then
  head -40 "$out.buildlog"; echo "BROKEN-CHECK property=C19 build failed against the btcd working tree"; exit 2
fi
if ! $VGO build $VERIF_MODFLAG -race -tags verif -o "$out-race" ./checks/c19/race 2> "$out.buildlog"; then
  head -40 "$out.buildlog"; echo "BROKEN-CHECK property=C19 race build failed"; exit 2
fi
export C19_RACE_BIN="$PWD/$out-race"
ulimit -v 33554432 2>/dev/null
exec "$out" "$@"
