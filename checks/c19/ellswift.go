package main

import (
	"bytes"
	"crypto/sha256"
	"fmt"
	"math/big"
	"runtime"
	"sync"

	"github.com/btcsuite/btcd/btcec/v2"
	"github.com/btcsuite/btcd/btcec/v2/ellswift"

	"verif/engine/ev"
	ref "verif/ref/refbip324"
)

// failure is one failing case: key is the reduced, stable identifier, order the
// position in the enumeration (lowest order per key is reported), replay the
// full case.
type failure struct {
	key    string
	what   string
	order  int
	replay caseSpec
}

type failSink struct {
	mu sync.Mutex
	m  map[string]failure
}

func (s *failSink) add(f failure) {
	s.mu.Lock()
	defer s.mu.Unlock()
	if s.m == nil {
		s.m = map[string]failure{}
	}
	if old, ok := s.m[f.key]; !ok || f.order < old.order {
		s.m[f.key] = f
	}
}

func (s *failSink) count() int {
	s.mu.Lock()
	defer s.mu.Unlock()
	return len(s.m)
}

func fv(x *big.Int) *btcec.FieldVal {
	var f btcec.FieldVal
	b := ref.Bytes32(x)
	f.SetByteSlice(b[:])
	return &f
}

func fvInt(f *btcec.FieldVal) *big.Int {
	g := *f
	g.Normalize()
	b := g.Bytes()
	return new(big.Int).SetBytes(b[:])
}

func fvs(f *btcec.FieldVal) string {
	if f == nil {
		return "nil"
	}
	return hx(fvInt(f))
}

func hx(x *big.Int) string {
	if x == nil {
		return "None"
	}
	return fmt.Sprintf("%064x", x)
}

func h2i(tag string, i int) *big.Int {
	h := sha256.Sum256([]byte(fmt.Sprintf("c19/%s/%d", tag, i)))
	return new(big.Int).Mod(new(big.Int).SetBytes(h[:]), ref.P)
}

func sub(a *big.Int, k int64) *big.Int { return new(big.Int).Sub(a, big.NewInt(k)) }
func modP(a *big.Int) *big.Int         { return new(big.Int).Mod(a, ref.P) }

// fieldDomain is the per-coordinate alphabet for (u,t): boundary values first,
// then constants of the map, then hash-derived generic elements.
func fieldDomain(nSmall, nHash int) []*big.Int {
	var d []*big.Int
	for i := 0; i < nSmall; i++ {
		d = append(d, big.NewInt(int64(i)))
	}
	for i := 1; i <= nSmall; i++ {
		d = append(d, sub(ref.P, int64(i)))
	}
	half := new(big.Int).Rsh(ref.P, 1)
	d = append(d, ref.C, modP(new(big.Int).Neg(ref.C)), half, new(big.Int).Add(half, big.NewInt(1)))
	for i := 0; i < nHash; i++ {
		d = append(d, h2i("fe", i))
	}
	return d
}

// implXSwiftEC calls the real decoder on copies (it mutates its arguments).
func implXSwiftEC(u, t *big.Int) (x *big.Int, err error) {
	defer func() {
		if p := recover(); p != nil {
			err = fmt.Errorf("panic: %v", p)
		}
	}()
	r, e := ellswift.XSwiftEC(fv(u), fv(t))
	if e != nil {
		return nil, e
	}
	return fvInt(r), nil
}

func implXSwiftECInv(u, x *big.Int, c int) (t *big.Int, err error) {
	defer func() {
		if p := recover(); p != nil {
			err = fmt.Errorf("panic: %v", p)
		}
	}()
	r := ellswift.XSwiftECInv(fv(u), fv(x), c)
	if r == nil {
		return nil, nil
	}
	return fvInt(r), nil
}

// checkXSwiftEC compares one (u,t).
func checkXSwiftEC(u, t *big.Int, order int, sink *failSink) ref.XSwiftECBranch {
	want, br := ref.XSwiftEC(u, t)
	got, err := implXSwiftEC(u, t)
	if err != nil || got.Cmp(want) != 0 {
		sink.add(failure{
			key:   fmt.Sprintf("ellswift/XSwiftEC/branch=candidate%d,doubled=%v,u0=%v,t0=%v", br.Candidate, br.Doubled, br.UZero, br.TZero),
			what:  fmt.Sprintf("ellswift.XSwiftEC(u=%s,t=%s) = %s (err=%v), BIP324 XSwiftEC = %s", hx(u), hx(t), hx(got), err, hx(want)),
			order: order, replay: caseSpec{Kind: "xswiftec", U: hx(u), T: hx(t)},
		})
	}
	return br
}

// checkInv compares XSwiftECInv for one (u,x,case) and the round trip.
func checkInv(u, x *big.Int, c, order int, sink *failSink) (nonNil bool) {
	want := ref.XSwiftECInv(x, u, c)
	got, err := implXSwiftECInv(u, x, c)
	same := err == nil && ((want == nil) == (got == nil)) && (want == nil || want.Cmp(got) == 0)
	if !same {
		class := "value-differs"
		if got == nil {
			class = "impl-None"
		} else if want == nil {
			class = "spec-None"
		}
		sink.add(failure{
			key:   fmt.Sprintf("ellswift/XSwiftECInv/case=%d/%s", c, class),
			what:  fmt.Sprintf("ellswift.XSwiftECInv(u=%s,x=%s,case=%d) = %s (err=%v), BIP324 = %s", hx(u), hx(x), c, hx(got), err, hx(want)),
			order: order, replay: caseSpec{Kind: "xswiftecinv", U: hx(u), X: hx(x), Case: c},
		})
		return want != nil
	}
	if want == nil {
		return false
	}
	// round trip through the reference decoder first: if the spec itself does
	// not round trip here (t = 0 corner), nothing is demanded of btcd.
	if rx, _ := ref.XSwiftEC(u, want); rx.Cmp(x) != 0 {
		return true
	}
	back, err := implXSwiftEC(u, got)
	if err != nil || back.Cmp(x) != 0 {
		sink.add(failure{
			key:   fmt.Sprintf("ellswift/roundtrip/case=%d", c),
			what:  fmt.Sprintf("XSwiftEC(u, XSwiftECInv(u=%s,x=%s,case=%d)=%s) = %s (err=%v), want x", hx(u), hx(x), c, hx(got), hx(back), err),
			order: order, replay: caseSpec{Kind: "xswiftecinv", U: hx(u), X: hx(x), Case: c},
		})
	}
	return true
}

func implECDH(enc [64]byte, priv *big.Int) (out [32]byte, err error) {
	defer func() {
		if p := recover(); p != nil {
			err = fmt.Errorf("panic: %v", p)
		}
	}()
	pb := ref.Bytes32(priv)
	pk, _ := btcec.PrivKeyFromBytes(pb[:])
	return ellswift.EllswiftECDHXOnly(enc, pk)
}

func implV2Ecdh(priv *big.Int, theirs, ours [64]byte, init bool) (out []byte, err error) {
	defer func() {
		if p := recover(); p != nil {
			err = fmt.Errorf("panic: %v", p)
		}
	}()
	pb := ref.Bytes32(priv)
	pk, _ := btcec.PrivKeyFromBytes(pb[:])
	h, e := ellswift.V2Ecdh(pk, theirs, ours, init)
	if e != nil {
		return nil, e
	}
	return h[:], nil
}

// byteDomain is the alphabet for 32-byte halves of an encoding at the byte API
// (values >= p are legal on the wire and must be reduced mod p).
func byteDomain() [][32]byte {
	two256m1 := new(big.Int).Sub(new(big.Int).Lsh(big.NewInt(1), 256), big.NewInt(1))
	vals := []*big.Int{
		big.NewInt(0), big.NewInt(1), big.NewInt(2), sub(ref.P, 2), sub(ref.P, 1),
		ref.P, new(big.Int).Add(ref.P, big.NewInt(1)), new(big.Int).Add(ref.P, big.NewInt(2)),
		sub(two256m1, 1), two256m1,
		ref.C, modP(new(big.Int).Neg(ref.C)), new(big.Int).Add(ref.P, big.NewInt(976)),
		h2i("be", 0), h2i("be", 1), h2i("be", 2),
	}
	var out [][32]byte
	for _, v := range vals {
		out = append(out, ref.Bytes32(v))
	}
	return out
}

// doublingT returns the t values (if any) for which g(u') = -t^2, i.e. the
// t” = 2t' branch of XSwiftEC.
func doublingT(u *big.Int) []*big.Int {
	u1 := u
	if u1.Sign() == 0 {
		u1 = big.NewInt(1)
	}
	s := ref.Sqrt(modP(new(big.Int).Neg(ref.G(u1))))
	if s == nil {
		return nil
	}
	return []*big.Int{s, modP(new(big.Int).Neg(s))}
}

func runEllswift(r *ev.Run, sink *failSink) {
	workers := runtime.NumCPU()
	nSmall, nHash := 12, 24
	if r.Thorough() {
		nSmall, nHash = 24, 100
	}
	dom := fieldDomain(nSmall, nHash)

	// ---- (1) XSwiftEC on the grid dom x (dom + doubling-branch t's)
	type ut struct{ u, t *big.Int }
	var grid []ut
	for _, u := range dom {
		for _, t := range dom {
			grid = append(grid, ut{u, t})
		}
		for _, t := range doublingT(u) {
			grid = append(grid, ut{u, t})
		}
	}
	var brMu sync.Mutex
	brCount := map[string]int{}
	xs := make([]*big.Int, len(grid))
	ev.Par(len(grid), workers, func(i int) {
		g := grid[i]
		br := checkXSwiftEC(g.u, g.t, i, sink)
		xs[i], _ = ref.XSwiftEC(g.u, g.t)
		r.Eval(1)
		r.Trace(1)
		r.Nontrivial("xswiftec/" + hx(g.u) + hx(g.t))
		brMu.Lock()
		brCount[fmt.Sprintf("cand%d", br.Candidate)]++
		if br.Doubled {
			brCount["doubled"]++
		}
		if br.UZero {
			brCount["u0"]++
		}
		if br.TZero {
			brCount["t0"]++
		}
		brMu.Unlock()
	})
	for _, k := range []string{"cand0", "cand1", "cand2", "doubled", "u0", "t0"} {
		if brCount[k] == 0 {
			r.Broken("XSwiftEC grid does not reach branch %s", k)
		}
		r.Add("xswiftec_branch_"+k, int64(brCount[k]))
	}
	r.Add("xswiftec_grid_cases", int64(len(grid)))
	r.Sample(map[string]string{"kind": "xswiftec", "u": hx(grid[len(dom)+3].u), "t": hx(grid[len(dom)+3].t)})

	// ---- (2) completeness + XSwiftECInv for every case on decoded x's:
	// for u != 0, t != 0 and no doubling, t must be one of the 8 inverse outputs.
	var caseHit [8]int64
	var chMu sync.Mutex
	ev.Par(len(grid), workers, func(i int) {
		g := grid[i]
		if g.u.Sign() == 0 {
			return
		}
		x := xs[i]
		_, br := ref.XSwiftEC(g.u, g.t)
		foundRef, foundImpl := false, false
		for c := 0; c < 8; c++ {
			if checkInv(g.u, x, c, i*8+c, sink) {
				chMu.Lock()
				caseHit[c]++
				chMu.Unlock()
			}
			r.Eval(1)
			r.Trace(1)
			if t := ref.XSwiftECInv(x, g.u, c); t != nil && t.Cmp(g.t) == 0 {
				foundRef = true
			}
			if t, err := implXSwiftECInv(g.u, x, c); err == nil && t != nil && t.Cmp(g.t) == 0 {
				foundImpl = true
			}
		}
		r.Nontrivial("inv/" + hx(g.u) + hx(x))
		if g.t.Sign() != 0 && !br.Doubled {
			if !foundRef {
				r.Broken("reference XSwiftECInv misses preimage t=%s of x=%s (u=%s)", hx(g.t), hx(x), hx(g.u))
			}
			if !foundImpl {
				sink.add(failure{
					key:   "ellswift/inv-incomplete",
					what:  fmt.Sprintf("no case of ellswift.XSwiftECInv(u=%s, x=XSwiftEC(u,t)=%s) returns the preimage t=%s", hx(g.u), hx(x), hx(g.t)),
					order: i, replay: caseSpec{Kind: "xswiftec", U: hx(g.u), T: hx(g.t)},
				})
			}
		}
	})
	for c := 0; c < 8; c++ {
		if caseHit[c] == 0 {
			r.Broken("XSwiftECInv case %d never produced a t", c)
		}
		r.Add(fmt.Sprintf("xswiftecinv_case%d_nonnil", c), caseHit[c])
	}

	// ---- (3) XSwiftECInv on curve points k*G x u in dom (u != 0)
	nPts := r.Pick(12, 40)
	var pts []*big.Int
	for k := 1; k <= nPts; k++ {
		pts = append(pts, ref.PubX(big.NewInt(int64(k))))
	}
	type ux struct{ u, x *big.Int }
	var g2 []ux
	for _, x := range pts {
		for _, u := range dom {
			if u.Sign() != 0 {
				g2 = append(g2, ux{u, x})
			}
		}
		// u = x (s = 0 in the case&2 branch) and u = -x... boundary relations
		g2 = append(g2, ux{x, x})
		if nx := modP(new(big.Int).Neg(x)); nx.Sign() != 0 {
			g2 = append(g2, ux{nx, x})
		}
	}
	// r = 0 corner of the case&2 branch: x = u + s with 4(u^3+7) + 3u^2 s = 0
	nR0 := 0
	for _, u := range dom {
		if u.Sign() == 0 {
			continue
		}
		den := modP(new(big.Int).Mul(big.NewInt(3), new(big.Int).Mul(u, u)))
		num := modP(new(big.Int).Mul(big.NewInt(-4), ref.G(u)))
		sv := modP(new(big.Int).Mul(num, new(big.Int).ModInverse(den, ref.P)))
		x := modP(new(big.Int).Add(u, sv))
		if ref.IsSquare(ref.G(x)) {
			g2 = append(g2, ux{u, x})
			nR0++
		}
	}
	if nR0 == 0 {
		r.Broken("no (u,x) pair reaches the r = 0 corner of XSwiftECInv")
	}
	r.Add("xswiftecinv_r0_corner_pairs", int64(nR0))
	ev.Par(len(g2), workers, func(i int) {
		for c := 0; c < 8; c++ {
			checkInv(g2[i].u, g2[i].x, c, i*8+c, sink)
			r.Eval(1)
			r.Trace(1)
		}
		r.Nontrivial("inv/" + hx(g2[i].u) + hx(g2[i].x))
	})
	r.Add("xswiftecinv_ux_pairs", int64(len(g2)+len(grid)))

	// ---- (4) byte-level API: every pair of 32-byte halves (incl. values >= p)
	// x a set of private keys: EllswiftECDHXOnly == reference; with priv = 1 the
	// result is the decoded x itself.
	bd := byteDomain()
	var extraT [][32]byte
	for _, ub := range bd {
		u := modP(new(big.Int).SetBytes(ub[:]))
		for _, t := range doublingT(u) {
			extraT = append(extraT, ref.Bytes32(t))
		}
	}
	privs := []*big.Int{big.NewInt(1), big.NewInt(2), sub(ref.N, 1), h2i("priv", 0)}
	if r.Thorough() {
		privs = append(privs, big.NewInt(3), sub(ref.N, 2), h2i("priv", 1), h2i("priv", 2))
	}
	var encs [][64]byte
	for _, ub := range bd {
		for _, tb := range append(append([][32]byte{}, bd...), extraT...) {
			var e [64]byte
			copy(e[:32], ub[:])
			copy(e[32:], tb[:])
			encs = append(encs, e)
		}
	}
	ev.Par(len(encs)*len(privs), workers, func(i int) {
		e, pv := encs[i/len(privs)], privs[i%len(privs)]
		want := ref.ECDHXOnly(e, pv)
		got, err := implECDH(e, pv)
		r.Eval(1)
		r.Trace(1)
		r.Nontrivial(fmt.Sprintf("ecdhx/%x/%s", e, hx(pv)))
		if err != nil || got != want {
			sink.add(failure{
				key:   fmt.Sprintf("ellswift/ECDHXOnly/u>=p:%v/t>=p:%v", new(big.Int).SetBytes(e[:32]).Cmp(ref.P) >= 0, new(big.Int).SetBytes(e[32:]).Cmp(ref.P) >= 0),
				what:  fmt.Sprintf("EllswiftECDHXOnly(enc=%x, priv=%s) = %x (err=%v), BIP324 = %x", e, hx(pv), got, err, want),
				order: i, replay: caseSpec{Kind: "ecdhx", Enc: fmt.Sprintf("%x", e), Priv: hx(pv)},
			})
		}
	})
	r.Add("ecdh_xonly_cases", int64(len(encs)*len(privs)))

	// ---- (5) encodings created by the library decode to the key's x, and
	// V2Ecdh agrees on both sides and with the reference.
	nKeys := r.Pick(24, 96)
	type created struct {
		priv *big.Int
		enc  [64]byte
	}
	keys := make([]created, nKeys)
	for i := 0; i < nKeys; i++ {
		var pk *btcec.PrivateKey
		var enc [64]byte
		var err error
		withRand(fmt.Sprintf("create/%d", i), nil, func() { pk, enc, err = ellswift.EllswiftCreate() })
		if err != nil {
			sink.add(failure{key: "ellswift/EllswiftCreate/error", what: fmt.Sprintf("EllswiftCreate: %v", err), order: i,
				replay: caseSpec{Kind: "create", Idx: i}})
			continue
		}
		keys[i] = created{new(big.Int).SetBytes(pk.Serialize()), enc}
	}
	ev.Par(nKeys, workers, func(i int) {
		k := keys[i]
		if k.priv == nil {
			return
		}
		r.Eval(1)
		r.Trace(1)
		r.Nontrivial(fmt.Sprintf("create/%x", k.enc))
		wantX := ref.PubX(k.priv)
		if got := ref.Decode(k.enc); got.Cmp(wantX) != 0 {
			sink.add(failure{
				key:   fmt.Sprintf("ellswift/create-decode/seed=%d", i),
				what:  fmt.Sprintf("EllswiftCreate (rand seed create/%d) returned priv=%s enc=%x; enc decodes (BIP324 XSwiftEC) to %s but priv*G has x=%s", i, hx(k.priv), k.enc, hx(got), hx(wantX)),
				order: i, replay: caseSpec{Kind: "create", Idx: i},
			})
		}
		u, t := ref.SplitEncoding(k.enc)
		if got, err := implXSwiftEC(u, t); err != nil || got.Cmp(wantX) != 0 {
			sink.add(failure{
				key:   fmt.Sprintf("ellswift/create-decode-impl/seed=%d", i),
				what:  fmt.Sprintf("EllswiftCreate (seed create/%d) enc=%x: ellswift.XSwiftEC gives %s (err=%v), want x(priv*G)=%s", i, k.enc, hx(got), err, hx(wantX)),
				order: i, replay: caseSpec{Kind: "create", Idx: i},
			})
		}
		// pair i with i+1: initiator = i, responder = j
		j := (i + 1) % nKeys
		o := keys[j]
		if o.priv == nil {
			return
		}
		want := ref.V2ECDH(k.priv, o.enc, k.enc, true)
		want2 := ref.V2ECDH(o.priv, k.enc, o.enc, false)
		if want != want2 {
			r.Broken("reference V2ECDH asymmetric for created keys %d,%d", i, j)
		}
		a, errA := implV2Ecdh(k.priv, o.enc, k.enc, true)
		b, errB := implV2Ecdh(o.priv, k.enc, o.enc, false)
		if errA != nil || errB != nil || !bytes.Equal(a, b) || !bytes.Equal(a, want[:]) {
			sink.add(failure{
				key:   fmt.Sprintf("ellswift/V2Ecdh/seed=%d", i),
				what:  fmt.Sprintf("V2Ecdh keys create/%d (initiator) and create/%d: initiator=%x (err=%v) responder=%x (err=%v) BIP324=%x", i, j, a, errA, b, errB, want),
				order: i, replay: caseSpec{Kind: "create", Idx: i},
			})
		}
	})
	r.Add("created_keys", int64(nKeys))

	// ---- (6) XElligatorSwift with scripted randomness: the first candidate u is
	// a boundary value (then the seeded stream continues).  u = 0 or u = p are
	// outside the BIP's range 1..p-1 and only informational (probability 2^-255).
	scripts := []struct {
		name  string
		u     *big.Int
		gated bool // true: counted as a property violation if it fails
	}{
		{"u=1", big.NewInt(1), true},
		{"u=p-1", sub(ref.P, 1), true},
		{"u=p+1", new(big.Int).Add(ref.P, big.NewInt(1)), true},
		{"u=2^256-1", new(big.Int).Sub(new(big.Int).Lsh(big.NewInt(1), 256), big.NewInt(1)), true},
		{"u=0", big.NewInt(0), false},
		{"u=p", ref.P, false},
	}
	for si, sc := range scripts {
		for k := 1; k <= 3; k++ {
			for c := 0; c < 8; c++ {
				x := ref.PubX(big.NewInt(int64(k)))
				ub := ref.Bytes32(sc.u)
				script := append(append([]byte(nil), ub[:]...), byte(c))
				var u, t *btcec.FieldVal
				var err error
				withRand(fmt.Sprintf("xell/%s/%d/%d", sc.name, k, c), script, func() {
					defer func() {
						if p := recover(); p != nil {
							err = fmt.Errorf("panic: %v", p)
						}
					}()
					u, t, err = ellswift.XElligatorSwift(fv(x))
				})
				r.Eval(1)
				r.Trace(1)
				ok := err == nil
				var back *big.Int
				if ok {
					back, _ = ref.XSwiftEC(fvInt(u), fvInt(t))
					ok = back.Cmp(x) == 0
				}
				if ok {
					continue
				}
				if !sc.gated {
					r.Add("info_xelligatorswift_"+sc.name+"_not_roundtrip", 1)
					continue
				}
				sink.add(failure{
					key:   fmt.Sprintf("ellswift/XElligatorSwift/%s/k=%d/case=%d", sc.name, k, c),
					what:  fmt.Sprintf("XElligatorSwift(x(%d*G)) with first random %s, case byte %d returned (u=%s,t=%s) err=%v which decodes to %s", k, sc.name, c, fvs(u), fvs(t), err, hx(back)),
					order: si*100 + k*8 + c, replay: caseSpec{Kind: "xell", Idx: si, K: k, Case: c},
				})
			}
		}
	}
	r.Add("xelligatorswift_scripted", int64(len(scripts)*24))
}
