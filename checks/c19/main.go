// C19 — the encrypted v2 transport is interoperable, authenticated, in order.
//
// An independent BIP324 implementation (verif/ref/refbip324, bound to the BIP324
// vectors shipped in the repo) plays THE OTHER ENDPOINT against the real
// v2transport.Peer over an in-memory ReadWriter owned by the check:
//
//	A. vector binding of the reference (broken oracle if it disagrees);
//	B. ElligatorSwift: XSwiftEC / XSwiftECInv / EllswiftECDHXOnly / V2Ecdh /
//	   EllswiftCreate / XElligatorSwift against the reference on boundary grids;
//	C. interoperability: roles x garbage lengths x decoys x packet schedules
//	   crossing the rekey interval; every impl byte == reference prediction,
//	   every reference packet received intact, in order, with the ignore flag;
//	D. tampering: every byte offset x {01,80,ff}, truncation at every offset,
//	   drop / duplicate / swap of every packet, wrong AAD, wrong terminator,
//	   over-long garbage on a session whose last packets straddle a rekey.
package main

import (
	"fmt"
	"os"
	"os/exec"
	"runtime"
	"runtime/pprof"
	"sort"
	"strconv"
	"strings"
	"sync"
	"sync/atomic"
	"time"

	"verif/engine/ev"
)

var bigAlloc = make(chan struct{}, 2)

var nets = []uint32{0xd9b4bef9, 0x0709110b, 0xdab5bffa}
var maxReads = []int{0, 1, 7, 64}

func decoyConfigs() [][]int {
	lens := []int{0, 1, 100}
	out := [][]int{nil}
	for _, a := range lens {
		out = append(out, []int{a})
	}
	for _, a := range lens {
		for _, b := range lens {
			out = append(out, []int{a, b})
		}
	}
	return out
}

func protect(r *ev.Run, f func()) {
	defer func() {
		if p := recover(); p != nil {
			if b, ok := p.(brokenErr); ok {
				r.Broken("%s", string(b))
			}
			r.Broken("check harness panic: %v", p)
		}
	}()
	f()
}

func main() {
	r := ev.Start("C19")
	if pp := os.Getenv("VERIF_PPROF"); pp != "" {
		f, _ := os.Create(pp)
		pprof.StartCPUProfile(f)
		defer func() { pprof.StopCPUProfile(); f.Close() }()
	}
	installDetRand()
	workers := runtime.NumCPU()
	r.Rule("a case = one complete BIP324 session between the real v2transport.Peer and the independent reference endpoint " +
		"(role, both garbage lengths, both decoy lists, packet schedule, read chunking, peer key/v1-prefix overlap), " +
		"or one modification of the reference->impl byte stream of such a session, or one ElligatorSwift input; " +
		"distinct = distinct parameter tuple; every session performs a real ECDH, key schedule and at least one AEAD packet per direction")
	r.Assume("crypto/sha256, crypto/hmac and math/big are correct; the reference's own ChaCha20/Poly1305 (written from RFC 8439, self-tested against the RFC vectors and a big-integer definition) are bound end-to-end by the shipped BIP324 packet vectors")
	r.Assume("crypto/rand.Reader is replaced by a seeded deterministic stream per impl call (keys and garbage contents are fixed, not sampled); the reference reads the impl's key and garbage off the wire")
	r.Assume("a stream that ends (EOF from the ReadWriter) counts as a reported error")
	r.SetBudget(time.Duration(r.Pick(240, 840)) * time.Second)

	sink := &failSink{}
	x := func(order int) *ctx {
		return &ctx{sink: sink, order: order, count: func(n string, k int64) { r.Add(n, k) }}
	}

	if r.ReplayPath != "" {
		var cs caseSpec
		r.LoadReplay(&cs)
		protect(r, func() { bindVectors(r) })
		if cs.Kind == "race" {
			racePass(r)
			r.Finish(false)
			return
		}
		protect(r, func() { replay(r, cs, sink, x(0)) })
		report(r, sink, cs.Key)
		r.Finish(false)
		return
	}

	t0 := time.Now()
	lap := func(what string) {
		if os.Getenv("VERIF_PPROF") != "" {
			fmt.Fprintf(os.Stderr, "phase %s: %.1fs\n", what, time.Since(t0).Seconds())
		}
		t0 = time.Now()
	}
	// ---- A
	protect(r, func() { bindVectors(r) })
	lap("vectors")

	// ---- B
	protect(r, func() { runEllswift(r, sink) })

	lap("ellswift")
	// ---- C: interoperability
	glens := []int{0, 1, 15, 16, 4094, 4095}
	decs := decoyConfigs()
	var cases []caseSpec
	// C1: full product with a short schedule (4 packets per direction, sizes up to 65535)
	for _, init := range []bool{true, false} {
		for _, gr := range glens {
			for _, gi := range glens {
				for _, dr := range decs {
					for _, di := range decs {
						n := len(cases)
						cases = append(cases, caseSpec{Kind: "interop", ImplInit: init, Net: nets[n%3], GI: gi, GR: gr, DecI: di, DecR: dr,
							NPk: 3, Sched: "cycle", MaxRead: maxReads[(n/3)%4], PrefixK: -1, KeyIdx: n % nRefKeys, ImplKey: (n / 5) % 8})
					}
				}
			}
		}
	}
	nC1 := len(cases)
	// C2: 500 (thorough 1000) packets per direction: rekey at 224, 448, (672, 896)
	long := r.Pick(500, 1000)
	for _, init := range []bool{true, false} {
		for _, gr := range glens {
			for _, gi := range glens {
				n := len(cases)
				cases = append(cases, caseSpec{Kind: "interop", ImplInit: init, Net: nets[n%3], GI: gi, GR: gr, DecI: decs[n%len(decs)], DecR: decs[(n/2)%len(decs)],
					NPk: long, Sched: "cycle", MaxRead: maxReads[n%4], PrefixK: -1, KeyIdx: n % nRefKeys, ImplKey: 8 + n%8})
			}
		}
	}
	nC2 := len(cases) - nC1
	// C3: peer key whose first k bytes equal the v1 version-message prefix (impl responds)
	for k := 0; k <= 15; k++ {
		for ni, net := range nets {
			cases = append(cases, caseSpec{Kind: "interop", ImplInit: false, Net: net, GI: ni, GR: 2 - ni, NPk: 4, Sched: "cycle", PrefixK: k, KeyIdx: k % nRefKeys, ImplKey: 16 + k%4})
		}
	}
	nC3 := len(cases) - nC1 - nC2
	// C4 (thorough): every garbage length 0..4095 on each side, both roles
	nC4 := 0
	if r.Thorough() {
		for _, init := range []bool{true, false} {
			for g := 0; g <= 4095; g++ {
				n := len(cases)
				cases = append(cases, caseSpec{Kind: "interop", ImplInit: init, Net: nets[n%3], GI: g, GR: 0, NPk: 2, Sched: "cycle", MaxRead: maxReads[n%4], PrefixK: -1, KeyIdx: n % nRefKeys, ImplKey: 20 + n%4})
				cases = append(cases, caseSpec{Kind: "interop", ImplInit: init, Net: nets[n%3], GI: 0, GR: g, NPk: 2, Sched: "cycle", MaxRead: maxReads[n%4], PrefixK: -1, KeyIdx: n % nRefKeys, ImplKey: 20 + n%4})
				nC4 += 2
			}
		}
	}
	// the largest packets the 3-byte length field allows, both directions
	for _, init := range []bool{true, false} {
		cases = append(cases, caseSpec{Kind: "interop", ImplInit: init, Net: nets[0], GI: 1, GR: 2, NPk: 3, Sched: "big", PrefixK: -1, KeyIdx: 2, ImplKey: 28})
	}
	// transport objects are independent of each other: sessions in which a second
	// object of the process starts its handshake between the two steps of the one
	// under test.  Sequential and first: if objects do influence each other, what
	// the parallel sessions below would see depends on their interleaving.
	nOv := 0
	for _, init := range []bool{true, false} {
		for _, g := range []int{0, 1, 100, 4095} {
			for _, dec := range [][]int{nil, {0}, {3, 0}} {
				cs := caseSpec{Kind: "interop", ImplInit: init, Net: nets[nOv%3], GI: g, GR: (g + 1) % 4096, DecI: dec, NPk: 3, Sched: "cycle", PrefixK: -1, KeyIdx: nOv % nRefKeys, ImplKey: 40 + nOv, Overlap: true}
				protect(r, func() { runInterop(cs, x(-1000+nOv)) })
				r.Eval(1)
				r.Trace(1)
				r.Nontrivial(fmt.Sprintf("interop/%+v", cs))
				nOv++
			}
		}
	}
	r.Add("interop_sessions_with_an_overlapping_second_handshake", int64(nOv))
	if sink.count() > 0 {
		r.Cap("transport objects influence each other (see the violations): the parallel sessions were not run")
		report(r, sink, "")
		r.Finish(false)
	}
	var doneC int64
	var sampled int64
	protect(r, func() {
		ev.Par(len(cases), workers, func(i int) {
			if r.Expired() {
				return
			}
			protect(r, func() {
				tr := runInterop(cases[i], x(i))
				r.Eval(1)
				r.Trace(1)
				r.Nontrivial(fmt.Sprintf("interop/%+v", cases[i]))
				atomic.AddInt64(&doneC, 1)
				if tr.ok && atomic.AddInt64(&sampled, 1) <= 3 {
					r.Sample(cases[i])
				}
			})
		})
	})
	if int(doneC) != len(cases) {
		r.Cap(fmt.Sprintf("time box hit in interop: %d of %d sessions run", doneC, len(cases)))
	}
	r.Add("interop_sessions_product", int64(nC1))
	r.Add("interop_sessions_long", int64(nC2))
	r.Add("interop_sessions_v1prefix", int64(nC3))
	r.Add("interop_sessions_all_garbage_lengths", int64(nC4))

	lap("interop")
	// ---- D: tampering
	nT := 0
	for _, init := range []bool{true, false} {
		base := caseSpec{Kind: "tamper", ImplInit: init, Net: nets[0], GI: 2, GR: 3, DecR: []int{1}, Sched: "tamper", PrefixK: -1, KeyIdx: 1, ImplKey: 30}
		var tr *transcript
		protect(r, func() { tr = runInterop(base, x(1<<30)) })
		if !tr.ok {
			// the untampered session already fails (reported above by its own key)
			r.Cap("tamper baseline session failed for impl=" + base.role() + "; tamper cases for that role not run")
			continue
		}
		type job struct {
			kind      string
			off, mask int
		}
		var jobs []job
		S := len(tr.toImpl)
		np := len(tr.packetElems())
		for _, m := range []int{0x01, 0x80, 0xff} {
			for off := 0; off < S; off++ {
				// flipping high bits of the most significant length byte makes the
				// impl allocate 8-16 MiB; quick does that only for the first 6 and
				// last 10 packets (thorough: every packet)
				if pj, msb := tr.lenMSB(off); msb && m != 0x01 && !r.Thorough() && pj >= 6 && pj < np-10 {
					continue
				}
				jobs = append(jobs, job{"xor", off, m})
			}
		}
		for off := 0; off < S; off++ {
			jobs = append(jobs, job{"trunc", off, 0})
		}
		// drop / duplicate / swap: every packet in thorough; in quick the first
		// 6 packets (decoy, version, first data) and the last 10 (around and
		// inside the window that straddles the rekey).  Each of these makes the
		// impl decrypt a bogus 24-bit length and allocate that much.
		for _, k := range []string{"drop", "dup", "swap"} {
			for j := 0; j < np; j++ {
				if r.Thorough() || j < 6 || j >= np-10 {
					jobs = append(jobs, job{k, j, 0})
				}
			}
		}
		for v := 0; v < 12; v++ {
			jobs = append(jobs, job{"semantic", v, 0})
		}
		if r.Thorough() {
			for off := 0; off < S; off++ {
				jobs = append(jobs, job{"del", off, 0}, job{"ins", off, 0}, job{"ins", off, 0xff})
			}
		}
		var doneT int64
		protect(r, func() {
			ev.Par(len(jobs), workers, func(i int) {
				if r.Expired() {
					return
				}
				protect(r, func() {
					j := jobs[i]
					cs := base
					cs.TKind, cs.Off, cs.Mask = j.kind, j.off, j.mask
					cs.MaxRead = maxReads[i%4]
					// cases that garble an encrypted length make the impl allocate up
					// to 16 MiB before reading; concurrent huge allocations thrash,
					// so those cases run two at a time.
					if j.kind == "drop" || j.kind == "dup" || j.kind == "swap" || tr.isLenByte(j.off) {
						bigAlloc <- struct{}{}
						defer func() { <-bigAlloc }()
					}
					if runTamperCase(cs, tr, x(i)) {
						r.Eval(1)
						r.Trace(1)
						r.Nontrivial(fmt.Sprintf("tamper/%v/%s/%d/%d", init, j.kind, j.off, j.mask))
						r.Add("tamper_"+j.kind, 1)
					}
					atomic.AddInt64(&doneT, 1)
				})
			})
		})
		if int(doneT) != len(jobs) {
			r.Cap(fmt.Sprintf("time box hit in tampering (impl=%s): %d of %d runs", base.role(), doneT, len(jobs)))
		}
		nT += int(doneT)
		r.Set("tamper_stream_bytes_"+base.role(), S)
		r.Set("tamper_stream_packets_"+base.role(), np)
	}
	r.Add("tamper_runs", int64(nT))

	lap("tamper")
	if os.Getenv("VERIF_PPROF") != "" {
		pprof.StopCPUProfile()
	}
	if atomic.LoadInt64(&strayReads) != 0 {
		r.Broken("crypto/rand was read %d times outside a seeded scope: determinism not guaranteed", strayReads)
	}
	r.Set("bounds", map[string]interface{}{
		"roles":                      []string{"impl initiates", "impl responds"},
		"garbage_lengths_each_side":  glens,
		"garbage_lengths_thorough":   "all 0..4095 on impl side and on peer side, both roles",
		"decoy_configs_each_side":    decs,
		"short_schedule":             "3 packets per direction, sizes {0,1,2} / {3,255,256}, ignore bit alternating",
		"long_schedule":              fmt.Sprintf("%d packets per direction, sizes cycling {0,1,2,3,255,256,65535}, ignore bit alternating, both directions interleaved", long),
		"networks":                   []string{"d9b4bef9", "0709110b", "dab5bffa"},
		"read_chunking":              maxReads,
		"peer_key_v1_prefix_overlap": "0..15 bytes (impl responds)",
		"tamper_session":             "peer garbage 3, 1 decoy, version, 219 data packets, then 6 packets with counters 221..226 (rekey after 223)",
		"tamper_ops":                 "xor{01,80,ff} at every offset (quick: masks 80/ff on the most significant length byte only for the first 6 and last 10 packets); truncate at every offset; drop/dup/swap of the first 6 and last 10 packets (thorough: every packet); 5 wrong-AAD, 5 wrong-terminator, garbage 4096/4097; thorough adds delete/insert a byte at every offset",
	})
	report(r, sink, "")
	racePass(r)
	r.Finish(true)
}

func tailStr(b []byte) string {
	s := string(b)
	if len(s) > 600 {
		s = s[len(s)-600:]
	}
	return s
}

// racePass runs the free-running -race binary (checks/c19/race, built by
// checks/c19/run.sh from the current tree): two real v2transport.Peer endpoints,
// each with a sender and a receiver goroutine running concurrently, as peer.go's
// inHandler/outHandler use one Peer.  Data races and any order/contents/ignore
// flag mismatch become violations.
func racePass(r *ev.Run) {
	bin := os.Getenv("C19_RACE_BIN")
	if bin == "" {
		r.Set("race_pass", "not run (C19_RACE_BIN unset: binary started without checks/c19/run.sh)")
		return
	}
	reps := strconv.Itoa(r.Pick(1, 3))
	out, err := exec.Command(bin, reps).CombinedOutput()
	txt := string(out)
	bad := false
	if i := strings.Index(txt, "WARNING: DATA RACE"); i >= 0 {
		bad = true
		rep := txt[i:]
		if len(rep) > 1800 {
			rep = rep[:1800]
		}
		r.Violation("race/"+raceSite(rep), "data race between the concurrent send and receive paths of one v2transport.Peer (free-running -race pass): "+strings.ReplaceAll(rep, "\n", " | "), map[string]string{"kind": "race", "report": rep})
	}
	for _, l := range strings.Split(txt, "\n") {
		if strings.HasPrefix(l, "MISMATCH ") {
			bad = true
			r.Violation("race-pass/content-mismatch", "two v2transport.Peer endpoints sending and receiving concurrently: "+l, map[string]string{"kind": "race", "line": l})
			break
		}
	}
	if !bad && (err != nil || !strings.Contains(txt, "RACEPASS-OK")) {
		r.Broken("race pass failed: %v: %s", err, tailStr(out))
	}
	r.Assume("the -race pass (concurrent sender+receiver goroutines on both endpoints) is a free-running sample of interleavings, not an exhaustive exploration")
	r.Set("race_pass", map[string]interface{}{
		"what":        "2 real v2transport.Peer endpoints over a bounded in-memory duplex pipe, built with -race; after the handshake each endpoint runs one V2EncPacket goroutine and one V2ReceivePacket goroutine simultaneously; order, contents and ignore flags verified",
		"configs":     "garbage/decoys (0,0,-,-) 240 packets/direction with sizes cycling {0,1,2,3,255,256,65535}; (5,17,[0],[1 100]) 240; (4095,4094,[100 0],-) 240; (16,4095,-,[0]) 460 packets with 65535 replaced by 4096; the two directions use different sizes at the same index; every session crosses the rekey at 224 (the last one also 448)",
		"repetitions": reps,
		"output_tail": tailStr(out),
	})
}

func raceSite(rep string) string {
	for _, l := range strings.Split(rep, "\n") {
		l = strings.TrimSpace(l)
		if strings.HasPrefix(l, "github.com/btcsuite/btcd/v2transport.") {
			return strings.TrimSuffix(strings.Fields(l)[0], "()")
		}
	}
	return "unknown"
}

// runTamperCase builds and runs one tamper case; false if the modification is a no-op.
func runTamperCase(cs caseSpec, tr *transcript, x *ctx) bool {
	if cs.TKind == "semantic" {
		T, fd, name := semanticStream(cs, tr, cs.Off)
		if T == nil {
			return false
		}
		cs.TKind = "semantic:" + name
		runTampered(cs, tr, T, fd, x)
		return true
	}
	T, fd, ok := tamperedStream(tr, cs.TKind, cs.Off, cs.Mask)
	if !ok {
		return false
	}
	runTampered(cs, tr, T, fd, x)
	return true
}

func replay(r *ev.Run, cs caseSpec, sink *failSink, x *ctx) {
	switch cs.Kind {
	case "interop":
		runInterop(cs, x)
	case "tamper":
		base := cs
		base.TKind, base.Off, base.Mask, base.MaxRead, base.Key = "", 0, 0, 0, ""
		tr := runInterop(base, x)
		if !tr.ok {
			return
		}
		if len(cs.TKind) > 9 && cs.TKind[:9] == "semantic:" {
			cs.TKind = "semantic"
		}
		runTamperCase(cs, tr, x)
	default:
		runEllswift(r, sink)
	}
}

// report re-runs every failing case three times (verdict must not flip) and
// turns the minimal case of every failure key into a violation.
func report(r *ev.Run, sink *failSink, only string) {
	var keys []string
	for k := range sink.m {
		keys = append(keys, k)
	}
	sort.Strings(keys)
	for _, k := range keys {
		f := sink.m[k]
		if only != "" && k != only {
			continue
		}
		f.replay.Key = f.key
		if f.replay.Kind == "interop" || f.replay.Kind == "tamper" {
			for i := 0; i < 3; i++ {
				s2 := &failSink{}
				protect(r, func() { replay(r, f.replay, s2, &ctx{sink: s2, count: func(string, int64) {}}) })
				if _, ok := s2.m[k]; !ok {
					r.Broken("verdict for %s flipped on re-run %d", k, i+1)
				}
			}
		}
		if f.replay.Kind != "interop" && f.replay.Kind != "tamper" && !ellswiftStable(k) {
			r.Broken("verdict for %s flipped on re-run", k)
		}
		r.Violation(f.key, f.what, f.replay)
	}
}

var (
	ellRerunOnce sync.Once
	ellRerun     [3]*failSink
)

// ellswiftStable re-runs the (pure, deterministic) ElligatorSwift part three
// times and reports whether key fails every time.
func ellswiftStable(key string) bool {
	ellRerunOnce.Do(func() {
		for i := range ellRerun {
			ellRerun[i] = &failSink{}
			runEllswift(ev.Start("C19-rerun"), ellRerun[i])
		}
	})
	for _, s := range ellRerun {
		if _, ok := s.m[key]; !ok {
			return false
		}
	}
	return true
}
