package main

import (
	"bytes"
	"encoding/hex"
	"fmt"
	"go/ast"
	"go/parser"
	"go/token"
	"math/big"
	"os"
	"path/filepath"
	"strconv"

	"verif/engine/ev"
	ref "verif/ref/refbip324"
)

func repoRoot() string {
	if v := os.Getenv("VERIF_REPO"); v != "" {
		return v
	}
	return "/repo"
}

// vecTable extracts the `tests := []struct{...}{ {k: v, ...}, ... }` literal of
// the named test function from a _test.go file: one map per element with
// string / int / bool / []string values.
func vecTable(file, fn string) ([]map[string]interface{}, error) {
	fset := token.NewFileSet()
	f, err := parser.ParseFile(fset, file, nil, 0)
	if err != nil {
		return nil, err
	}
	var out []map[string]interface{}
	for _, d := range f.Decls {
		fd, ok := d.(*ast.FuncDecl)
		if !ok || fd.Name.Name != fn {
			continue
		}
		done := false
		ast.Inspect(fd.Body, func(n ast.Node) bool {
			if done {
				return false
			}
			cl, ok := n.(*ast.CompositeLit)
			if !ok {
				return true
			}
			at, ok := cl.Type.(*ast.ArrayType)
			if !ok {
				return true
			}
			if _, ok := at.Elt.(*ast.StructType); !ok {
				return true
			}
			for _, e := range cl.Elts {
				el, ok := e.(*ast.CompositeLit)
				if !ok {
					continue
				}
				m := map[string]interface{}{}
				for _, kv := range el.Elts {
					k, ok := kv.(*ast.KeyValueExpr)
					if !ok {
						continue
					}
					name := k.Key.(*ast.Ident).Name
					switch v := k.Value.(type) {
					case *ast.BasicLit:
						switch v.Kind {
						case token.STRING:
							s, _ := strconv.Unquote(v.Value)
							m[name] = s
						case token.INT:
							i, _ := strconv.ParseInt(v.Value, 0, 64)
							m[name] = int(i)
						}
					case *ast.Ident:
						m[name] = v.Name == "true"
					case *ast.CompositeLit:
						var ss []string
						for _, x := range v.Elts {
							if bl, ok := x.(*ast.BasicLit); ok && bl.Kind == token.STRING {
								s, _ := strconv.Unquote(bl.Value)
								ss = append(ss, s)
							}
						}
						m[name] = ss
					}
				}
				out = append(out, m)
			}
			done = true
			return false
		})
	}
	if len(out) == 0 {
		return nil, fmt.Errorf("no vector table found in %s:%s", file, fn)
	}
	return out, nil
}

func mustHex(r *ev.Run, s string) []byte {
	b, err := hex.DecodeString(s)
	if err != nil {
		r.Broken("bad hex in shipped vector: %v", err)
	}
	return b
}

func hexInt(r *ev.Run, s string) *big.Int { return new(big.Int).SetBytes(mustHex(r, s)) }

func to64(b []byte) (o [64]byte) { copy(o[:], b); return }

// bindVectors runs every BIP324 vector the repo ships through the reference
// model.  Any disagreement is a broken oracle (exit 2), never a violation.
func bindVectors(r *ev.Run) {
	root := repoRoot()
	mainMagic := [4]byte{0xf9, 0xbe, 0xb4, 0xd9}

	// --- XSwiftEC decoding vectors
	tab, err := vecTable(filepath.Join(root, "btcec/ellswift/ellswift_test.go"), "TestXSwiftECVectors")
	if err != nil {
		r.Broken("cannot load xswiftec vectors: %v", err)
	}
	for i, v := range tab {
		enc := to64(mustHex(r, v["ellswift"].(string)))
		want := hexInt(r, v["expectedX"].(string))
		if got := ref.Decode(enc); got.Cmp(want) != 0 {
			r.Broken("reference XSwiftEC disagrees with shipped vector %d: got %x want %x", i, got, want)
		}
	}
	r.Add("vectors_xswiftec", int64(len(tab)))

	// --- XSwiftECInv vectors
	tab, err = vecTable(filepath.Join(root, "btcec/ellswift/ellswift_test.go"), "TestXSwiftECInvVectors")
	if err != nil {
		r.Broken("cannot load xswiftec_inv vectors: %v", err)
	}
	nInv := 0
	for i, v := range tab {
		u := hexInt(r, v["u"].(string))
		x := hexInt(r, v["x"].(string))
		cases := v["cases"].([]string)
		if len(cases) != 8 {
			r.Broken("xswiftec_inv vector %d has %d cases", i, len(cases))
		}
		for c, ts := range cases {
			got := ref.XSwiftECInv(x, u, c)
			if ts == "" {
				if got != nil {
					r.Broken("reference XSwiftECInv vector %d case %d: got %x want None", i, c, got)
				}
			} else if got == nil || got.Cmp(hexInt(r, ts)) != 0 {
				r.Broken("reference XSwiftECInv vector %d case %d: got %v want %s", i, c, got, ts)
			}
			nInv++
		}
	}
	r.Add("vectors_xswiftec_inv_cases", int64(nInv))

	// --- packet encoding vectors (keys, ecdh, key schedule, ciphertext)
	tab, err = vecTable(filepath.Join(root, "v2transport/transport_test.go"), "TestPacketEncodingVectors")
	if err != nil {
		r.Broken("cannot load packet vectors: %v", err)
	}
	ev.Par(len(tab), len(tab), func(i int) {
		v := tab[i]
		s := func(k string) string { x, _ := v[k].(string); return x }
		b := func(k string) bool { x, _ := v[k].(bool); return x }
		n := func(k string) int { x, _ := v[k].(int); return x }
		priv := hexInt(r, s("inPrivOurs"))
		ours := to64(mustHex(r, s("inEllswiftOurs")))
		theirs := to64(mustHex(r, s("inEllswiftTheirs")))
		init := b("inInitiating")
		chk := func(what string, got []byte, wantHex string) {
			if !bytes.Equal(got, mustHex(r, wantHex)) {
				r.Broken("reference disagrees with shipped packet vector %d (%s): got %x want %s", i, what, got, wantHex)
			}
		}
		xo := ref.Bytes32(ref.PubX(priv))
		chk("mid_x_ours", xo[:], s("midXOurs"))
		xd := ref.Bytes32(ref.Decode(ours))
		chk("decode(ellswift_ours)", xd[:], s("midXOurs"))
		xt := ref.Bytes32(ref.Decode(theirs))
		chk("mid_x_theirs", xt[:], s("midXTheirs"))
		xs := ref.ECDHXOnly(theirs, priv)
		chk("mid_x_shared", xs[:], s("midXShared"))
		sec := ref.V2ECDH(priv, theirs, ours, init)
		chk("mid_shared_secret", sec[:], s("midSharedSecret"))
		e := ref.NewEndpoint(init, mainMagic, priv, ours, nil)
		e.SetTheirs(theirs)
		chk("initiator_L", e.K.InitiatorL, s("midInitiatorL"))
		chk("initiator_P", e.K.InitiatorP, s("midInitiatorP"))
		chk("responder_L", e.K.ResponderL, s("midResponderL"))
		chk("responder_P", e.K.ResponderP, s("midResponderP"))
		chk("send_garbage_terminator", e.SendTerm, s("midSendGarbageTerm"))
		chk("recv_garbage_terminator", e.RecvTerm, s("midRecvGarbageTerm"))
		chk("session_id", e.K.SessionID, s("outSessionID"))
		for k := 0; k < n("inIdx"); k++ {
			e.Enc(nil, nil, false)
		}
		one := mustHex(r, s("inContents"))
		contents := bytes.Repeat(one, n("inMultiply"))
		ct := e.Enc(contents, mustHex(r, s("inAad")), b("inIgnore"))
		if w := s("outCiphertext"); w != "" {
			chk("ciphertext", ct, w)
		}
		if w := s("outCiphertextEndsWith"); w != "" {
			wb := mustHex(r, w)
			if len(ct) < len(wb) || !bytes.Equal(ct[len(ct)-len(wb):], wb) {
				r.Broken("reference disagrees with shipped packet vector %d (ciphertext suffix, idx=%d)", i, n("inIdx"))
			}
		}
		// the reference receiver must open what the reference sender produced
		d := ref.NewEndpoint(!init, mainMagic, big.NewInt(1), theirs, nil)
		d.K = e.K
		if init {
			d.RecvL, d.RecvP = ref.NewFSChaCha20(e.K.InitiatorL), ref.NewFSChaCha20Poly1305(e.K.InitiatorP)
		} else {
			d.RecvL, d.RecvP = ref.NewFSChaCha20(e.K.ResponderL), ref.NewFSChaCha20Poly1305(e.K.ResponderP)
		}
		for k := 0; k < n("inIdx"); k++ {
			d.RecvL.Crypt([]byte{0, 0, 0})
			d.RecvP.Encrypt(nil, []byte{0})
		}
		ign, got, used, derr := d.DecPacket(ct, mustHex(r, s("inAad")))
		if derr != nil || used != len(ct) || ign != b("inIgnore") || !bytes.Equal(got, contents) {
			r.Broken("reference receiver cannot open reference packet of vector %d: %v", i, derr)
		}
	})
	r.Add("vectors_packet_encoding", int64(len(tab)))
}
