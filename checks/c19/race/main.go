// Free-running -race pass for C19: two real v2transport.Peer endpoints over an
// in-memory duplex pipe with real goroutines.  After the handshake every
// endpoint runs ONE sender goroutine (V2EncPacket) and ONE receiver goroutine
// (V2ReceivePacket) at the same time, exactly as peer.go's outHandler and
// inHandler do on one Peer.  The single-threaded main check cannot see state
// shared between the two directions of one endpoint; this pass can (race
// detector + order/contents/ignore-flag verification).
//
// Output protocol: "MISMATCH <detail>" lines for content/order/flag errors,
// "RACEPASS-OK sessions=<n> packets=<n>" on success; the race detector prints
// its own "WARNING: DATA RACE" reports.  Exit 0 ok, 1 mismatch, 3 timeout.
package main

import (
	"bytes"
	"crypto/rand"
	"crypto/sha256"
	"encoding/binary"
	"fmt"
	"io"
	"os"
	"runtime/pprof"
	"strconv"
	"sync"
	"sync/atomic"
	"time"

	"github.com/btcsuite/btcd/v2transport"
)

// seeded, locked replacement of crypto/rand.Reader: fixed key material.
type seeded struct {
	mu  sync.Mutex
	ctr uint64
	buf []byte
}

func (s *seeded) Read(p []byte) (int, error) {
	s.mu.Lock()
	defer s.mu.Unlock()
	for i := range p {
		if len(s.buf) == 0 {
			var c [8]byte
			binary.LittleEndian.PutUint64(c[:], s.ctr)
			s.ctr++
			h := sha256.Sum256(append([]byte("c19/race/rand/"), c[:]...))
			s.buf = h[:]
		}
		p[i] = s.buf[0]
		s.buf = s.buf[1:]
	}
	return len(p), nil
}

// half is one direction of a buffered in-memory pipe: a queue of written
// chunks, bounded to maxPending bytes (writers block, like a socket buffer).
type half struct {
	mu      sync.Mutex
	cond    *sync.Cond
	chunks  [][]byte
	pending int
	closed  bool
}
type conn struct{ r, w *half }

const maxPending = 1 << 18

func newPair() (*conn, *conn) {
	x, y := &half{}, &half{}
	x.cond, y.cond = sync.NewCond(&x.mu), sync.NewCond(&y.mu)
	return &conn{r: x, w: y}, &conn{r: y, w: x}
}
func (c *conn) Read(p []byte) (int, error) {
	h := c.r
	h.mu.Lock()
	defer h.mu.Unlock()
	for len(h.chunks) == 0 && !h.closed {
		h.cond.Wait()
	}
	if len(h.chunks) == 0 {
		return 0, io.EOF
	}
	n := copy(p, h.chunks[0])
	if n == len(h.chunks[0]) {
		h.chunks = h.chunks[1:]
	} else {
		h.chunks[0] = h.chunks[0][n:]
	}
	h.pending -= n
	h.cond.Broadcast()
	return n, nil
}
func (c *conn) Write(p []byte) (int, error) {
	h := c.w
	h.mu.Lock()
	defer h.mu.Unlock()
	for h.pending > maxPending && !h.closed {
		h.cond.Wait()
	}
	if h.closed {
		return 0, io.ErrClosedPipe
	}
	if len(p) > 0 {
		h.chunks = append(h.chunks, append([]byte(nil), p...))
		h.pending += len(p)
	}
	h.cond.Broadcast()
	return len(p), nil
}

// closeRead is called by a receiver that gives up: the peer's writer must not
// block forever on a full pipe.
func (c *conn) closeRead() {
	c.r.mu.Lock()
	c.r.closed = true
	c.r.cond.Broadcast()
	c.r.mu.Unlock()
}

func (c *conn) closeWrite() {
	c.w.mu.Lock()
	c.w.closed = true
	c.w.cond.Broadcast()
	c.w.mu.Unlock()
}

// Under the race detector a 64 KiB buffer handed from one goroutine to another
// costs tens of milliseconds of shadow-memory work, so only the first
// configuration uses the full size cycle; the others replace 65535 by 4096.
var (
	sizesFull  = []int{0, 1, 2, 3, 255, 256, 65535}
	sizesSmall = []int{0, 1, 2, 3, 255, 256, 4096}
	pattern    []byte
	mismatches int64
	packets    int64
	outMu      sync.Mutex
)

func mismatch(format string, a ...interface{}) {
	if atomic.AddInt64(&mismatches, 1) <= 10 {
		outMu.Lock()
		fmt.Printf("MISMATCH "+format+"\n", a...)
		outMu.Unlock()
	}
}

// spec of packet i in direction dir (0: initiator->responder, 1: the reverse).
// The two directions use different sizes at the same index.
func spec(sizes []int, dir, i, n int) (size int, ignore bool) {
	size = sizes[(i+3*dir)%len(sizes)]
	ignore = (i+dir)%2 == 1 && i != n-1
	return
}

func contents(dir, i, size int) []byte {
	off := (i*11 + dir*577) % 4096
	return pattern[off : off+size]
}

type config struct {
	gInit, gResp     int
	decInit, decResp []int
	n                int
	sizes            []int
}

func session(ci int, cfg config) {
	const net = v2transport.BitcoinNet(0xd9b4bef9)
	ca, cb := newPair()
	ends := [2]*v2transport.Peer{v2transport.NewPeer(), v2transport.NewPeer()}
	conns := [2]*conn{ca, cb}
	ends[0].UseReadWriter(ca)
	ends[1].UseReadWriter(cb)

	var hs sync.WaitGroup
	var herr [2]error
	hs.Add(2)
	go func() {
		defer hs.Done()
		if herr[0] = ends[0].InitiateV2Handshake(cfg.gInit); herr[0] == nil {
			herr[0] = ends[0].CompleteHandshake(true, cfg.decInit, net)
		}
		if herr[0] != nil {
			ca.closeWrite()
		}
	}()
	go func() {
		defer hs.Done()
		if herr[1] = ends[1].RespondV2Handshake(cfg.gResp, net); herr[1] == nil {
			herr[1] = ends[1].CompleteHandshake(false, cfg.decResp, net)
		}
		if herr[1] != nil {
			cb.closeWrite()
		}
	}()
	hs.Wait()
	if herr[0] != nil || herr[1] != nil {
		mismatch("config %d: handshake failed: initiator=%v responder=%v", ci, herr[0], herr[1])
		return
	}
	if !bytes.Equal(ends[0].VerifSessionID(), ends[1].VerifSessionID()) {
		mismatch("config %d: session ids differ", ci)
		return
	}

	// per endpoint: one sender and one receiver goroutine, all four at once
	var wg sync.WaitGroup
	start := make(chan struct{})
	for e := 0; e < 2; e++ {
		e := e
		wg.Add(2)
		go func() { // sender: direction e
			defer wg.Done()
			defer conns[e].closeWrite()
			<-start
			for i := 0; i < cfg.n; i++ {
				size, ign := spec(cfg.sizes, e, i, cfg.n)
				if _, _, err := ends[e].V2EncPacket(contents(e, i, size), nil, ign); err != nil {
					mismatch("config %d dir %d: V2EncPacket #%d: %v", ci, e, i, err)
					return
				}
				atomic.AddInt64(&packets, 1)
			}
		}()
		go func() { // receiver: direction 1-e
			defer wg.Done()
			defer conns[e].closeRead()
			<-start
			d := 1 - e
			for i := 0; i < cfg.n; i++ {
				size, ign := spec(cfg.sizes, d, i, cfg.n)
				if ign {
					continue // must be skipped silently by V2ReceivePacket
				}
				got, err := ends[e].V2ReceivePacket(nil)
				if err != nil {
					mismatch("config %d dir %d: V2ReceivePacket expecting packet #%d (%d bytes): %v", ci, d, i, size, err)
					return
				}
				if want := contents(d, i, size); !bytes.Equal(got, want) {
					mismatch("config %d dir %d: packet #%d delivered %d bytes, want %d bytes (contents differ: %v)", ci, d, i, len(got), size, len(got) == size)
					return
				}
			}
			// the sender closes its side afterwards: nothing else may arrive
			if got, err := ends[e].V2ReceivePacket(nil); err == nil {
				mismatch("config %d dir %d: extra packet of %d bytes delivered after the last one", ci, d, len(got))
			}
		}()
	}
	close(start)
	wg.Wait()
}

func main() {
	reps := 1
	if len(os.Args) > 1 {
		if v, err := strconv.Atoi(os.Args[1]); err == nil && v > 0 {
			reps = v
		}
	}
	if pp := os.Getenv("C19_RACE_PPROF"); pp != "" {
		f, _ := os.Create(pp)
		pprof.StartCPUProfile(f)
		defer pprof.StopCPUProfile()
	}
	rand.Reader = &seeded{}
	for ctr := 0; len(pattern) < 65535+4096; ctr++ {
		h := sha256.Sum256([]byte(fmt.Sprintf("c19/race/pattern/%d", ctr)))
		pattern = append(pattern, h[:]...)
	}
	go func() {
		time.Sleep(120 * time.Second)
		fmt.Println("MISMATCH timeout: a session did not finish within 120 s (endpoint stuck waiting for bytes)")
		os.Exit(3)
	}()
	cfgs := []config{
		{0, 0, nil, nil, 240, sizesFull},
		{5, 17, []int{0}, []int{1, 100}, 240, sizesSmall},
		{4095, 4094, []int{100, 0}, nil, 240, sizesSmall},
		{16, 4095, nil, []int{0}, 460, sizesSmall},
	}
	sessions := 0
	for rep := 0; rep < reps; rep++ {
		for ci, cfg := range cfgs {
			t0 := time.Now()
			session(ci, cfg)
			if os.Getenv("C19_RACE_VERBOSE") != "" {
				fmt.Fprintf(os.Stderr, "config %d: %.1fs\n", ci, time.Since(t0).Seconds())
			}
			sessions++
		}
	}
	if mismatches > 0 {
		os.Exit(1)
	}
	fmt.Printf("RACEPASS-OK sessions=%d packets=%d\n", sessions, packets)
}
