package main

import (
	"bytes"
	"crypto/sha256"
	"encoding/binary"
	"fmt"
	"io"
	"math/big"
	"sync"

	"github.com/btcsuite/btcd/v2transport"

	ref "verif/ref/refbip324"
)

// caseSpec is the self-contained, JSON-able description of one case (replay).
type caseSpec struct {
	Kind string `json:"kind"`
	Key  string `json:"key,omitempty"`

	// interop / tamper
	ImplInit bool   `json:"impl_initiates,omitempty"`
	Net      uint32 `json:"net,omitempty"`
	GI       int    `json:"impl_garbage_len"`
	GR       int    `json:"peer_garbage_len"`
	DecI     []int  `json:"impl_decoys,omitempty"`
	DecR     []int  `json:"peer_decoys,omitempty"`
	NPk      int    `json:"packets_per_direction,omitempty"`
	Sched    string `json:"schedule,omitempty"` // "cycle" | "tamper"
	MaxRead  int    `json:"max_read_chunk,omitempty"`
	PrefixK  int    `json:"peer_key_matches_v1_prefix_bytes"` // -1: ordinary key
	KeyIdx   int    `json:"peer_key_index,omitempty"`
	ImplKey  int    `json:"impl_key_seed,omitempty"`
	// Overlap: a second transport object of the process starts its own handshake
	// (other key seed, same garbage length) between the two handshake steps of
	// the one under test, as a node with several connections does
	Overlap bool `json:"second_peer_starts_its_handshake_in_between,omitempty"`

	TKind string `json:"tamper_kind,omitempty"`
	Off   int    `json:"tamper_offset,omitempty"`
	Mask  int    `json:"tamper_mask,omitempty"`

	// ellswift kinds
	U    string `json:"u,omitempty"`
	T    string `json:"t,omitempty"`
	X    string `json:"x,omitempty"`
	Enc  string `json:"enc,omitempty"`
	Priv string `json:"priv,omitempty"`
	Case int    `json:"case,omitempty"`
	Idx  int    `json:"idx,omitempty"`
	K    int    `json:"k,omitempty"`
}

func (c caseSpec) role() string {
	if c.ImplInit {
		return "initiator"
	}
	return "responder"
}

// seed selects the impl's deterministic rand stream: one of a few fixed impl
// keys per role (the garbage bytes are a prefix of the same stream).
func (c caseSpec) seed() string { return fmt.Sprintf("impl/%v/%d", c.ImplInit, c.ImplKey) }

var secretCache sync.Map

// setTheirs is Endpoint.SetTheirs with the reference ECDH memoised per
// (reference key, role, both encodings).
func setTheirs(e *ref.Endpoint, theirs [64]byte) {
	k := fmt.Sprintf("%x/%x/%x/%v", e.Priv, e.Ours, theirs, e.Initiating)
	if v, ok := secretCache.Load(k); ok {
		e.SetTheirsWithSecret(theirs, v.([32]byte))
		return
	}
	s := ref.V2ECDH(e.Priv, theirs, e.Ours, e.Initiating)
	secretCache.Store(k, s)
	e.SetTheirsWithSecret(theirs, s)
}

// memRW is the in-memory "socket" owned by the check: the impl reads from in
// (EOF when exhausted) and writes to out.
type memRW struct {
	in      []byte
	pos     int
	out     []byte
	maxRead int
}

func (m *memRW) Read(p []byte) (int, error) {
	if m.pos >= len(m.in) {
		return 0, io.EOF
	}
	n := len(p)
	if a := len(m.in) - m.pos; n > a {
		n = a
	}
	if m.maxRead > 0 && n > m.maxRead {
		n = m.maxRead
	}
	copy(p, m.in[m.pos:m.pos+n])
	m.pos += n
	return n, nil
}

func (m *memRW) Write(p []byte) (int, error) {
	m.out = append(m.out, p...)
	return len(p), nil
}

// ---- reference-side fixed material ----------------------------------------

const nRefKeys = 4

var (
	refKeyOnce sync.Once
	refPriv    [nRefKeys]*big.Int
	refX       [nRefKeys]*big.Int
	encMu      sync.Mutex
	encCache   = map[string][64]byte{}
)

func refKey(i int) (*big.Int, *big.Int) {
	refKeyOnce.Do(func() {
		for k := 0; k < nRefKeys; k++ {
			h := sha256.Sum256([]byte(fmt.Sprintf("c19/refkey/%d", k)))
			d := new(big.Int).Mod(new(big.Int).SetBytes(h[:]), new(big.Int).Sub(ref.N, big.NewInt(1)))
			d.Add(d, big.NewInt(1))
			refPriv[k], refX[k] = d, ref.PubX(d)
		}
	})
	return refPriv[i%nRefKeys], refX[i%nRefKeys]
}

func magicOf(net uint32) (m [4]byte) {
	binary.LittleEndian.PutUint32(m[:], net)
	return
}

// refEncoding returns the reference endpoint's ElligatorSwift encoding.  With
// prefixK >= 0 its first prefixK bytes equal the v1 version-message prefix of
// the network and byte prefixK differs (the initiator may legally send that).
func refEncoding(keyIdx, prefixK int, net uint32) [64]byte {
	ck := fmt.Sprintf("%d/%d/%x", keyIdx%nRefKeys, prefixK, net)
	encMu.Lock()
	e, ok := encCache[ck]
	encMu.Unlock()
	if ok {
		return e
	}
	_, x := refKey(keyIdx)
	if prefixK < 0 {
		e = ref.Encode(x, []byte(ck))
	} else {
		v1 := ref.V1Prefix(magicOf(net))
		for ctr := 0; ; ctr++ {
			h := sha256.Sum256([]byte(fmt.Sprintf("c19/prefix/%s/%d", ck, ctr)))
			var ub [32]byte
			copy(ub[:], h[:])
			copy(ub[:prefixK], v1[:prefixK])
			if prefixK < 16 && ub[prefixK] == v1[prefixK] {
				ub[prefixK] ^= 0x55
			}
			var ok2 bool
			if e, ok2 = ref.EncodeWithU(x, ub, ctr); ok2 {
				break
			}
		}
	}
	encMu.Lock()
	encCache[ck] = e
	encMu.Unlock()
	return e
}

func stream(tag string, n int) []byte {
	out := make([]byte, 0, n+32)
	for ctr := 0; len(out) < n; ctr++ {
		h := sha256.Sum256([]byte(fmt.Sprintf("c19/%s/%d", tag, ctr)))
		out = append(out, h[:]...)
	}
	return out[:n]
}

func refGarbage(n int) []byte { return stream(fmt.Sprintf("garbage/%d", n), n) }

var cycleSizes = []int{0, 1, 2, 3, 255, 256, 65535}

// bigSizes (schedule "big"): the largest contents lengths a 3-byte length field
// can announce, 2^24-1 included
var bigSizes = []int{1<<24 - 1 - 17, 1<<24 - 1 - 16, 1<<24 - 1}

var (
	patOnce sync.Once
	patBuf  []byte
)

// contents returns the plaintext of packet i in direction dir (a window into a
// fixed pseudo-random buffer; distinct offsets make neighbouring packets differ).
func contents(dir byte, i, size int) []byte {
	off := (i*7 + int(dir)*13) % 4096
	if size > 65535 {
		bigOnce.Do(func() {
			// 16 MiB of pattern: a 1 MiB pseudo-random block repeated with a
			// per-block counter byte (hashing 16 MiB would take too long)
			blk := stream("big-pattern", 1<<20)
			bigBuf = make([]byte, 0, 1<<24+4096)
			for k := 0; len(bigBuf) < 1<<24+4096; k++ {
				b := append([]byte(nil), blk...)
				b[0] = byte(k)
				bigBuf = append(bigBuf, b...)
			}
			bigBuf = bigBuf[:1<<24+4096]
		})
		return bigBuf[off : off+size]
	}
	patOnce.Do(func() { patBuf = stream("pattern", 65535+4096) })
	return patBuf[off : off+size]
}

var (
	bigOnce sync.Once
	bigBuf  []byte
)

var (
	windowSizes  = []int{3, 0, 17, 1, 5, 2}
	windowIgnore = []bool{false, true, false, false, true, false}
)

// r2i returns size/ignore of the i-th data packet reference -> impl, and the
// number of such packets.
func (c caseSpec) r2iCount() int {
	if c.Sched == "tamper" {
		return c.prelude() + len(windowSizes)
	}
	return c.NPk
}

func (c caseSpec) prelude() int { return ref.RekeyInterval - 3 - (len(c.DecR) + 1) }

func (c caseSpec) r2i(i int) (int, bool) {
	if c.Sched == "tamper" {
		if p := c.prelude(); i >= p {
			return windowSizes[i-p], windowIgnore[i-p]
		}
		return i % 2, i%2 == 1
	}
	if c.Sched == "big" {
		return bigSizes[i%len(bigSizes)], false
	}
	return cycleSizes[(i+3)%len(cycleSizes)], i%2 == 0 && i != c.NPk-1
}

func (c caseSpec) i2rCount() int {
	if c.Sched == "tamper" {
		return 0
	}
	return c.NPk
}

func (c caseSpec) i2r(i int) (int, bool) {
	if c.Sched == "big" {
		return bigSizes[(i+1)%len(bigSizes)], false
	}
	return cycleSizes[i%len(cycleSizes)], i%2 == 1
}

// ---- transcript -------------------------------------------------------------

type elem struct {
	kind       string // key garbage term decoy version data
	start, end int
	ignore     bool
	contents   []byte
}

type transcript struct {
	toImpl  []byte
	elems   []elem
	implKey [64]byte
	ok      bool // baseline completed without any failure

	noRecord bool // data packets are not recorded (long sessions)
}

func (t *transcript) push(kind string, b []byte, ignore bool, contents []byte) {
	if t.noRecord {
		return
	}
	t.elems = append(t.elems, elem{kind, len(t.toImpl), len(t.toImpl) + len(b), ignore, contents})
	t.toImpl = append(t.toImpl, b...)
}

// ---- guarded impl calls -------------------------------------------------------

func guard(f func() error) (err error) {
	defer func() {
		if p := recover(); p != nil {
			err = fmt.Errorf("PANIC: %v", p)
		}
	}()
	return f()
}

func isPanic(err error) bool {
	return err != nil && len(err.Error()) > 6 && err.Error()[:6] == "PANIC:"
}

// implHandshake1 runs the first impl step (key generation and first flight) with
// the deterministic rand stream of the case.
func implHandshake1(cs caseSpec, p *v2transport.Peer) (err error) {
	withRand(cs.seed(), nil, func() {
		err = guard(func() error {
			if cs.ImplInit {
				return p.InitiateV2Handshake(cs.GI)
			}
			return p.RespondV2Handshake(cs.GI, v2transport.BitcoinNet(cs.Net))
		})
	})
	return
}

// ---- live interoperability session ---------------------------------------------

type ctx struct {
	sink  *failSink
	order int
	count func(name string, n int64)
}

func (x *ctx) fail(cs caseSpec, key, format string, a ...interface{}) {
	cs.Key = key
	x.sink.add(failure{key: key, what: fmt.Sprintf("[%s] ", key) + fmt.Sprintf(format, a...) + " " + describe(cs), order: x.order, replay: cs})
}

func describe(cs caseSpec) string {
	return fmt.Sprintf("(impl=%s net=%08x impl_garbage=%d peer_garbage=%d impl_decoys=%v peer_decoys=%v packets=%d sched=%s max_read=%d v1prefix_match=%d)",
		cs.role(), cs.Net, cs.GI, cs.GR, cs.DecI, cs.DecR, cs.NPk, cs.Sched, cs.MaxRead, cs.PrefixK)
}

func trunc(b []byte) string {
	if len(b) <= 40 {
		return fmt.Sprintf("%x", b)
	}
	return fmt.Sprintf("%x..(%d bytes)", b[:40], len(b))
}

// runInterop plays the reference endpoint against a fresh v2transport.Peer.
// It returns the transcript of everything the reference sent.
func runInterop(cs caseSpec, x *ctx) *transcript {
	tr := &transcript{}
	nfail := 0
	fail := func(key, format string, a ...interface{}) {
		nfail++
		x.fail(cs, key, format, a...)
	}
	role := cs.role()
	net := v2transport.BitcoinNet(cs.Net)
	magic := magicOf(cs.Net)
	rw := &memRW{maxRead: cs.MaxRead}
	p := v2transport.NewPeer()
	p.UseReadWriter(rw)

	priv, _ := refKey(cs.KeyIdx)
	pk := cs.PrefixK
	if cs.ImplInit {
		pk = -1
	}
	e := ref.NewEndpoint(!cs.ImplInit, magic, priv, refEncoding(cs.KeyIdx, pk, cs.Net), refGarbage(cs.GR))

	if !cs.ImplInit {
		// the reference initiates: key || garbage is on the wire first
		tr.push("key", e.Ours[:], false, nil)
		tr.push("garbage", e.Garbage, false, nil)
		rw.in = append(rw.in, tr.toImpl...)
	}
	if err := implHandshake1(cs, p); err != nil {
		if cs.ImplInit {
			fail(fmt.Sprintf("interop/initiate-error/impl_garbage=%d", cs.GI), "InitiateV2Handshake returned %v", err)
		} else {
			k := fmt.Sprintf("interop/respond-error/v1prefix_match=%d", cs.PrefixK)
			if cs.PrefixK < 0 {
				k = fmt.Sprintf("interop/respond-error/impl_garbage=%d", cs.GI)
			}
			fail(k, "RespondV2Handshake returned %v", err)
		}
		return tr
	}
	if len(rw.out) != 64+cs.GI {
		fail(fmt.Sprintf("interop/first-flight-length/impl=%s/impl_garbage=%d", role, cs.GI), "impl sent %d bytes as key||garbage, want %d", len(rw.out), 64+cs.GI)
		return tr
	}
	if !cs.ImplInit && rw.pos != 64 {
		fail("interop/responder-overread", "RespondV2Handshake consumed %d bytes of the initiator's stream, want exactly 64", rw.pos)
		return tr
	}
	if cs.Overlap {
		q := v2transport.NewPeer()
		q.UseReadWriter(&memRW{in: append([]byte(nil), rw.in...)})
		cs2 := cs
		cs2.ImplKey = cs.ImplKey + 1000
		if err := implHandshake1(cs2, q); err != nil {
			fail("interop/overlap/second-peer-error", "the second transport object's first handshake step returned %v", err)
			return tr
		}
	}
	copy(tr.implKey[:], rw.out[:64])
	implGarbage := append([]byte(nil), rw.out[64:]...)
	setTheirs(e, tr.implKey)

	if cs.ImplInit {
		tr.push("key", e.Ours[:], false, nil)
		tr.push("garbage", e.Garbage, false, nil)
	}
	_, pkts := e.SecondFlight(cs.DecR, nil)
	tr.push("term", e.SendTerm, false, nil)
	for i, pkb := range pkts {
		if i < len(cs.DecR) {
			tr.push("decoy", pkb, true, make([]byte, cs.DecR[i]))
		} else {
			tr.push("version", pkb, false, nil)
		}
	}
	rw.in = append(rw.in[:0:0], tr.toImpl...)

	if err := guard(func() error { return p.CompleteHandshake(cs.ImplInit, cs.DecI, net) }); err != nil {
		k := fmt.Sprintf("interop/complete-handshake-error/impl=%s/peer_garbage=%d", role, cs.GR)
		if cs.PrefixK >= 0 && !cs.ImplInit {
			k += fmt.Sprintf("/v1prefix_match=%d", cs.PrefixK)
		}
		fail(k, "CompleteHandshake returned %q although the peer's flight (key, %d garbage bytes, terminator %x, %d decoys, version packet) is valid BIP324", err.Error(), cs.GR, e.SendTerm, len(cs.DecR))
		return tr
	}
	if rw.pos != len(rw.in) {
		fail(fmt.Sprintf("interop/handshake-underread/impl=%s", role), "CompleteHandshake left %d unread bytes of the peer's handshake", len(rw.in)-rw.pos)
		return tr
	}

	// what the impl must have written after key||garbage: terminator, decoys, version
	var mirL *ref.FSChaCha20
	var mirP *ref.FSChaCha20Poly1305
	var implTerm []byte
	if cs.ImplInit {
		mirL, mirP, implTerm = ref.NewFSChaCha20(e.K.InitiatorL), ref.NewFSChaCha20Poly1305(e.K.InitiatorP), e.K.InitTerm
	} else {
		mirL, mirP, implTerm = ref.NewFSChaCha20(e.K.ResponderL), ref.NewFSChaCha20Poly1305(e.K.ResponderP), e.K.RespTerm
	}
	want := append([]byte(nil), implTerm...)
	aad := implGarbage
	for _, n := range cs.DecI {
		want = append(want, ref.EncPacket(mirL, mirP, make([]byte, n), aad, true)...)
		aad = nil
	}
	want = append(want, ref.EncPacket(mirL, mirP, nil, aad, false)...)
	got := rw.out[64+cs.GI:]
	if !bytes.Equal(got, want) {
		d := firstDiff(got, want)
		// locate the differing element: terminator or packet #k of the flight
		at, pos := "terminator", 16
		if d >= 16 {
			at = "after-version-packet"
			for k, n := range append(append([]int(nil), cs.DecI...), 0) {
				pos += 3 + 1 + n + 16
				if d < pos {
					at = fmt.Sprintf("packet%d", k)
					break
				}
			}
		}
		fail(fmt.Sprintf("interop/second-flight-mismatch/impl=%s/at=%s", role, at),
			"impl's terminator||decoys||version bytes differ from BIP324 at offset %d: got %s want %s", d, trunc(got[min(d, len(got)):]), trunc(want[min(d, len(want)):]))
		return tr
	}
	// the reference, acting as a receiver, must accept exactly that
	g, found, _ := ref.FindTerminator(rw.out[64:], e.RecvTerm)
	if !found || g != cs.GI {
		panic(brokenErr(fmt.Sprintf("reference receiver did not locate the impl's terminator (found=%v g=%d want %d)", found, g, cs.GI)))
	}
	rest := rw.out[64+g+16:]
	raad := rw.out[64 : 64+g]
	for i := 0; ; i++ {
		ign, c, used, err := e.DecPacket(rest, raad)
		raad = nil
		if err != nil {
			panic(brokenErr(fmt.Sprintf("reference receiver rejects bytes equal to the reference's own prediction: %v", err)))
		}
		rest = rest[used:]
		if i < len(cs.DecI) {
			if !ign || len(c) != cs.DecI[i] {
				panic(brokenErr("reference receiver decoded a different decoy than predicted"))
			}
			continue
		}
		if ign || len(c) != 0 || len(rest) != 0 {
			panic(brokenErr("reference receiver decoded a different version packet than predicted"))
		}
		break
	}

	if sid := p.VerifSessionID(); !bytes.Equal(sid, e.K.SessionID) {
		fail(fmt.Sprintf("interop/session-id/impl=%s", role), "impl session id %x != peer's BIP324 session id %x", sid, e.K.SessionID)
		return tr
	}

	// ---- data phase: both directions interleaved
	ni, nr := cs.i2rCount(), cs.r2iCount()
	tr.noRecord = cs.Sched != "tamper"
	var kept, keptWant [][]byte
	for i := 0; i < ni || i < nr; i++ {
		if rw.pos == len(rw.in) {
			rw.in, rw.pos = rw.in[:0], 0
		}
		rw.out = rw.out[:0]
		if i < ni {
			size, ign := cs.i2r(i)
			c := contents(0, i, size)
			before := len(rw.out)
			var ct []byte
			var n int
			err := guard(func() (err error) { ct, n, err = p.V2EncPacket(c, nil, ign); return })
			wantCt := ref.EncPacket(mirL, mirP, c, nil, ign)
			wire := rw.out[before:]
			if err != nil || n != len(wantCt) || !bytes.Equal(ct, wantCt) || !bytes.Equal(wire, wantCt) {
				d := firstDiff(wire, wantCt)
				fail(fmt.Sprintf("interop/enc-packet/impl=%s/index=%d", role, i),
					"V2EncPacket #%d (after %d handshake packets; contents %d bytes, ignore=%v): err=%v n=%d; wire bytes differ from BIP324 at offset %d: got %s want %s",
					i, len(cs.DecI)+1, size, ign, err, n, d, trunc(wire[min(d, len(wire)):]), trunc(wantCt[min(d, len(wantCt)):]))
				return tr
			}
			// reference receiver opens it and sees the same flag/contents
			gi, gc, used, derr := e.DecPacket(wire, nil)
			if derr != nil || used != len(wire) || gi != ign || !bytes.Equal(gc, c) {
				panic(brokenErr(fmt.Sprintf("reference receiver cannot open a packet equal to the reference's prediction: %v", derr)))
			}
			x.count("packets_impl_to_ref", 1)
		}
		if i < nr {
			size, ign := cs.r2i(i)
			c := contents(1, i, size)
			pkb := e.Enc(c, nil, ign)
			tr.push("data", pkb, ign, c)
			rw.in = append(rw.in, pkb...)
			x.count("packets_ref_to_impl", 1)
			if !ign {
				var got []byte
				err := guard(func() (err error) { got, err = p.V2ReceivePacket(nil); return })
				if err != nil || !bytes.Equal(got, c) {
					fail(fmt.Sprintf("interop/recv-packet/impl=%s/index=%d", role, i),
						"V2ReceivePacket for peer packet #%d (after %d handshake packets; contents %d bytes): err=%v got %s want %s",
						i, len(cs.DecR)+1, size, err, trunc(got), trunc(c))
					return tr
				}
				// the slices handed to the caller stay the caller's: a later
				// receive must not change an earlier packet
				kept, keptWant = append(kept, got), append(keptWant, c)
				if j := firstChanged(kept, keptWant); j >= 0 {
					fail(fmt.Sprintf("interop/delivered-packet-changed-later/impl=%s", role),
						"the contents returned for delivered packet #%d read %s after %d more packet(s) were received; it was delivered as %s",
						j, trunc(kept[j]), len(kept)-1-j, trunc(keptWant[j]))
					return tr
				}
				if rw.pos != len(rw.in) {
					fail(fmt.Sprintf("interop/recv-underread/impl=%s", role), "V2ReceivePacket left %d bytes of a complete packet unread", len(rw.in)-rw.pos)
					return tr
				}
			}
		}
	}
	// nothing more may be delivered: only ignored packets (if any) remain
	var extra []byte
	err := guard(func() (err error) { extra, err = p.V2ReceivePacket(nil); return })
	if err == nil || isPanic(err) {
		fail(fmt.Sprintf("interop/trailing/impl=%s", role), "V2ReceivePacket at end of stream returned contents %s err=%v; want an error", trunc(extra), err)
		return tr
	}
	if j := firstChanged(kept, keptWant); j >= 0 {
		fail(fmt.Sprintf("interop/delivered-packet-changed-later/impl=%s", role),
			"the contents returned for delivered packet #%d read %s after the failed receive at the end of the stream; it was delivered as %s",
			j, trunc(kept[j]), trunc(keptWant[j]))
		return tr
	}
	tr.ok = nfail == 0
	return tr
}

type brokenErr string

func firstDiff(a, b []byte) int {
	n := min(len(a), len(b))
	for i := 0; i < n; i++ {
		if a[i] != b[i] {
			return i
		}
	}
	return n
}

// ---- tampering ---------------------------------------------------------------

// runTampered feeds the byte stream T (a modification of the baseline stream of
// tr) to a fresh impl endpoint of the same case.  fd is the first offset at
// which T differs from the baseline (len(T) for a pure truncation).  Nothing
// that ends after fd may be accepted/delivered, and everything delivered must be
// the original plaintext, in order.
func runTampered(cs caseSpec, tr *transcript, T []byte, fd int, x *ctx) {
	role := cs.role()
	rw := &memRW{maxRead: cs.MaxRead, in: T}
	p := v2transport.NewPeer()
	p.UseReadWriter(rw)

	// last handshake element and the deliverable packets
	hsEnd := 0
	var allowed [][]byte
	var where elem
	for _, el := range tr.elems {
		if el.kind != "data" {
			hsEnd = el.end
		} else if !el.ignore && el.end <= fd {
			allowed = append(allowed, el.contents)
		}
		if el.start <= fd && fd < el.end {
			where = el
		}
	}
	region := where.kind
	if where.kind == "decoy" || where.kind == "version" || where.kind == "data" {
		switch {
		case fd-where.start < 3:
			region += ":len"
		case where.end-fd <= 16:
			region += ":tag"
		default:
			region += ":body"
		}
		if where.kind == "data" && where.ignore {
			region += ":ignored"
		}
	}
	if where.kind == "" {
		region = "end"
	}
	key := func(class string) string {
		return fmt.Sprintf("tamper/%s/%s/impl=%s/at=%s", class, cs.TKind, role, region)
	}
	desc := func() string {
		return fmt.Sprintf("tamper=%s offset=%d mask=%02x first_modified_offset=%d (element %s [%d,%d))", cs.TKind, cs.Off, cs.Mask, fd, where.kind, where.start, where.end)
	}

	err := implHandshake1(cs, p)
	if isPanic(err) {
		x.fail(cs, key("panic"), "handshake step 1 panicked: %v; %s", err, desc())
		return
	}
	if err != nil {
		return // error reported before anything was delivered
	}
	if len(rw.out) < 64 || !bytes.Equal(rw.out[:64], tr.implKey[:]) {
		if cs.ImplInit || fd >= 64 {
			panic(brokenErr("impl key differs between baseline and tamper run: randomness is not under control"))
		}
	}
	err = guard(func() error { return p.CompleteHandshake(cs.ImplInit, cs.DecI, v2transport.BitcoinNet(cs.Net)) })
	if isPanic(err) {
		x.fail(cs, key("panic"), "CompleteHandshake panicked: %v; %s", err, desc())
		return
	}
	if err != nil {
		return
	}
	if fd < hsEnd {
		x.fail(cs, key("handshake-accepted"), "CompleteHandshake returned nil although the peer's handshake bytes were modified; %s", desc())
		return
	}
	var keptT [][]byte // slices exactly as returned (not copies)
	for i := 0; i <= len(tr.elems)+2; i++ {
		var got []byte
		err := guard(func() (err error) { got, err = p.V2ReceivePacket(nil); return })
		if isPanic(err) {
			x.fail(cs, key("panic"), "V2ReceivePacket panicked: %v; %s", err, desc())
			return
		}
		if j := firstChanged(keptT, allowed); j >= 0 {
			x.fail(cs, key("earlier-plaintext-changed"), "after receive #%d (err=%v) the contents returned earlier for message #%d read %s, delivered as %s; %s", i, err, j, trunc(keptT[j]), trunc(allowed[j]), desc())
			return
		}
		if err != nil {
			return // reported; everything delivered so far was checked
		}
		if i >= len(allowed) {
			x.fail(cs, key("delivered-after-modification"), "V2ReceivePacket delivered %s as message #%d although only %d untouched messages precede the modification; %s", trunc(got), i, len(allowed), desc())
			return
		}
		if !bytes.Equal(got, allowed[i]) {
			x.fail(cs, key("altered-plaintext"), "V2ReceivePacket delivered %s as message #%d, original was %s; %s", trunc(got), i, trunc(allowed[i]), desc())
			return
		}
		keptT = append(keptT, got)
	}
	x.fail(cs, key("no-error"), "impl never reported an error; %s", desc())
}

// isLenByte reports whether stream offset off lies in the 3-byte encrypted
// length of some packet.
func (t *transcript) isLenByte(off int) bool {
	for _, el := range t.elems {
		if el.start <= off && off < el.end {
			return (el.kind == "decoy" || el.kind == "version" || el.kind == "data") && off-el.start < 3
		}
	}
	return false
}

// lenMSB reports whether off is the most significant byte of a packet's
// encrypted length, and the index of that packet among the packet elements.
func (t *transcript) lenMSB(off int) (int, bool) {
	pj := 0
	for _, el := range t.elems {
		if el.kind != "decoy" && el.kind != "version" && el.kind != "data" {
			continue
		}
		if el.start <= off && off < el.end {
			return pj, off-el.start == 2
		}
		pj++
	}
	return 0, false
}

// packetElems returns the indices of packet elements (decoy/version/data).
func (t *transcript) packetElems() []int {
	var out []int
	for i, el := range t.elems {
		if el.kind == "decoy" || el.kind == "version" || el.kind == "data" {
			out = append(out, i)
		}
	}
	return out
}

// tamperedStream builds T for one structural tamper; ok=false if T == S.
func tamperedStream(tr *transcript, kind string, off, mask int) (T []byte, fd int, ok bool) {
	S := tr.toImpl
	switch kind {
	case "xor":
		T = append([]byte(nil), S...)
		T[off] ^= byte(mask)
	case "trunc":
		T = append([]byte(nil), S[:off]...)
	case "ins":
		T = append(append(append([]byte(nil), S[:off]...), byte(mask)), S[off:]...)
	case "del":
		T = append(append([]byte(nil), S[:off]...), S[off+1:]...)
	case "drop", "dup", "swap":
		pe := tr.packetElems()
		el := tr.elems[pe[off]]
		switch kind {
		case "drop":
			T = append(append([]byte(nil), S[:el.start]...), S[el.end:]...)
		case "dup":
			T = append(append(append([]byte(nil), S[:el.end]...), S[el.start:el.end]...), S[el.end:]...)
		case "swap":
			if off+1 >= len(pe) {
				return nil, 0, false
			}
			nx := tr.elems[pe[off+1]]
			T = append([]byte(nil), S[:el.start]...)
			T = append(T, S[nx.start:nx.end]...)
			T = append(T, S[el.start:el.end]...)
			T = append(T, S[nx.end:]...)
		}
	default:
		panic("unknown tamper kind " + kind)
	}
	fd = firstDiff(T, S)
	if fd == len(S) && len(T) == len(S) {
		return nil, 0, false
	}
	return T, fd, true
}

// semanticStream builds a stream in which the reference endpoint deliberately
// breaks one handshake rule (wrong AAD, wrong terminator, too much garbage).
func semanticStream(cs caseSpec, tr *transcript, variant int) (T []byte, fd int, name string) {
	priv, _ := refKey(cs.KeyIdx)
	pk := cs.PrefixK
	if cs.ImplInit {
		pk = -1
	}
	wire := refGarbage(cs.GR)
	e := &ref.Endpoint{Initiating: !cs.ImplInit, Magic: magicOf(cs.Net), Priv: priv, Ours: refEncoding(cs.KeyIdx, pk, cs.Net)}
	setTheirs(e, tr.implKey)
	aadG := append([]byte(nil), wire...)
	term := func() []byte { return append([]byte(nil), e.SendTerm...) }
	tm := term()
	switch variant {
	case 0:
		name, aadG = "aad-empty", nil
	case 1:
		name = "aad-last-byte-flipped"
		aadG[len(aadG)-1] ^= 1
	case 2:
		name, aadG = "aad-one-byte-longer", append(aadG, 0)
	case 3:
		name, aadG = "aad-one-byte-shorter", aadG[:len(aadG)-1]
	case 4:
		name, aadG = "aad-includes-terminator", append(aadG, tm...)
	case 5:
		name, tm = "terminator-of-other-role", append([]byte(nil), e.RecvTerm...)
	case 6:
		name, tm = "terminator-zero", make([]byte, 16)
	case 7:
		name = "terminator-last-bit"
		tm[15] ^= 1
	case 8:
		name = "terminator-first-bit"
		tm[0] ^= 0x80
	case 9:
		name, tm = "terminator-15-bytes", tm[:15]
	case 10:
		name = "garbage-4096"
		wire = stream("garbage/4096", 4096)
		aadG = wire
	case 11:
		name = "garbage-4097"
		wire = stream("garbage/4097", 4097)
		aadG = wire
	default:
		return nil, 0, ""
	}
	e.Garbage = aadG
	T = append(T, e.Ours[:]...)
	T = append(T, wire...)
	T = append(T, tm...)
	aad := aadG
	for _, n := range cs.DecR {
		T = append(T, e.Enc(make([]byte, n), aad, true)...)
		aad = nil
	}
	T = append(T, e.Enc(nil, aad, false)...)
	for i := 0; i < 4; i++ {
		T = append(T, e.Enc(contents(1, i, 5), nil, false)...)
	}
	return T, 64, name // everything after the key counts as modified handshake
}

// firstChanged returns the index of the first retained slice that no longer
// equals what it held when it was delivered (-1: none).
func firstChanged(kept, want [][]byte) int {
	for j := range kept {
		if !bytes.Equal(kept[j], want[j]) {
			return j
		}
	}
	return -1
}
