// Free-running -race pass for C18: the same lifecycle scenarios as the
// scheduler-controlled check, on the UNMODIFIED peer package with real
// goroutines, repeated N times.  A cooperative scheduler's hand-offs are
// happens-before edges that blind the race detector, hence this separate pass.
package main

import (
	"fmt"
	"io"
	"net"
	"os"
	"strconv"
	"sync"
	"time"

	"github.com/btcsuite/btcd/chaincfg/v2"
	"github.com/btcsuite/btcd/peer"
	"github.com/btcsuite/btcd/wire/v2"
)

var params = &chaincfg.RegressionNetParams

func mkPeer(inbound bool) *peer.Peer {
	cfg := &peer.Config{
		UserAgentName: "verif", UserAgentVersion: "1.0", ChainParams: params,
		Services: wire.SFNodeNetwork | wire.SFNodeWitness, TrickleInterval: 5 * time.Millisecond,
		Listeners: peer.MessageListeners{
			OnPing: func(p *peer.Peer, m *wire.MsgPing) {},
			OnInv:  func(p *peer.Peer, m *wire.MsgInv) {},
		},
	}
	if inbound {
		return peer.NewInboundPeer(cfg)
	}
	p, err := peer.NewOutboundPeer(cfg, "10.0.0.2:18444")
	if err != nil {
		panic(err)
	}
	return p
}

func remote(c io.ReadWriter, sendPing bool, wg *sync.WaitGroup) {
	defer wg.Done()
	me := wire.NewNetAddressIPPort(net.IPv4(10, 0, 0, 2), 18444, wire.SFNodeNetwork)
	you := wire.NewNetAddressIPPort(net.IPv4(10, 0, 0, 1), 18444, 0)
	v := wire.NewMsgVersion(me, you, 99, 0)
	v.Services = wire.SFNodeNetwork | wire.SFNodeWitness
	wire.WriteMessage(c, v, peer.MaxProtocolVersion, params.Net)
	wire.WriteMessage(c, wire.NewMsgVerAck(), peer.MaxProtocolVersion, params.Net)
	if sendPing {
		wire.WriteMessage(c, wire.NewMsgPing(5), peer.MaxProtocolVersion, params.Net)
	}
	for {
		_, _, err := wire.ReadMessage(c, peer.MaxProtocolVersion, params.Net)
		if err != nil && err != wire.ErrUnknownMessage {
			if _, ok := err.(*wire.MessageError); ok {
				continue
			}
			return
		}
	}
}

// bufConn is one end of a buffered in-memory duplex connection (net.Pipe is
// unbuffered: two sides writing their version message at once would deadlock).
type half struct {
	mu     sync.Mutex
	cond   *sync.Cond
	buf    []byte
	closed bool
}
type bufConn struct{ r, w *half }

func newPair() (*bufConn, *bufConn) {
	x, y := &half{}, &half{}
	x.cond, y.cond = sync.NewCond(&x.mu), sync.NewCond(&y.mu)
	return &bufConn{r: x, w: y}, &bufConn{r: y, w: x}
}
func (c *bufConn) Read(p []byte) (int, error) {
	c.r.mu.Lock()
	defer c.r.mu.Unlock()
	for len(c.r.buf) == 0 && !c.r.closed {
		c.r.cond.Wait()
	}
	if len(c.r.buf) == 0 {
		return 0, io.EOF
	}
	n := copy(p, c.r.buf)
	c.r.buf = c.r.buf[n:]
	return n, nil
}
func (c *bufConn) Write(p []byte) (int, error) {
	c.w.mu.Lock()
	defer c.w.mu.Unlock()
	if c.w.closed {
		return 0, io.ErrClosedPipe
	}
	c.w.buf = append(c.w.buf, p...)
	c.w.cond.Broadcast()
	return len(p), nil
}
func (c *bufConn) Close() error {
	for _, h := range []*half{c.r, c.w} {
		h.mu.Lock()
		h.closed = true
		h.cond.Broadcast()
		h.mu.Unlock()
	}
	return nil
}
func (c *bufConn) LocalAddr() net.Addr                { return &net.TCPAddr{IP: net.IPv4(10, 0, 0, 1), Port: 18444} }
func (c *bufConn) RemoteAddr() net.Addr               { return &net.TCPAddr{IP: net.IPv4(10, 0, 0, 2), Port: 18444} }
func (c *bufConn) SetDeadline(t time.Time) error      { return nil }
func (c *bufConn) SetReadDeadline(t time.Time) error  { return nil }
func (c *bufConn) SetWriteDeadline(t time.Time) error { return nil }

func scenario(inbound bool, disc int, sendPing bool) {
	a, b := newPair()
	var rwg sync.WaitGroup
	rwg.Add(1)
	go remote(b, sendPing, &rwg)
	p := mkPeer(inbound)
	p.AssociateConnection(a)
	deadline := time.Now().Add(2 * time.Second)
	for !p.VerAckReceived() && time.Now().Before(deadline) {
		time.Sleep(200 * time.Microsecond)
	}
	var wg sync.WaitGroup
	for q := 0; q < 2; q++ {
		wg.Add(1)
		go func(q int) {
			defer wg.Done()
			for k := 0; k < 2; k++ {
				d := make(chan struct{}, 2)
				p.QueueMessage(wire.NewMsgPing(uint64(10*q+k)), d)
			}
		}(q)
	}
	wg.Add(1)
	go func() {
		defer wg.Done()
		h := params.GenesisBlock.Header.MerkleRoot
		p.QueueInventory(wire.NewInvVect(wire.InvTypeTx, &h))
		_ = p.LastRecv()
		_ = p.StatsSnapshot()
	}()
	wg.Add(1)
	go func() {
		defer wg.Done()
		switch disc {
		case 0:
			p.Disconnect()
		case 1:
			b.Close()
		case 2:
			time.Sleep(time.Millisecond)
			p.Disconnect()
		}
	}()
	wg.Wait()
	p.Disconnect()
	p.WaitForDisconnect()
	b.Close()
	rwg.Wait()
}

func main() {
	n := 100
	if len(os.Args) > 1 {
		n, _ = strconv.Atoi(os.Args[1])
	}
	cnt := 0
	for i := 0; i < n; i++ {
		for _, inbound := range []bool{false, true} {
			for disc := 0; disc < 3; disc++ {
				scenario(inbound, disc, i%2 == 0)
				cnt++
			}
		}
	}
	fmt.Printf("race pass: %d scenario runs completed\n", cnt)
}
