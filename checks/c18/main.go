// C18 — peers obey the handshake and shut down cleanly under any timing.
//
// The real peer package is compiled through an overlay produced by
// engine/rewrite: sync -> vsync, goroutines / channel operations / selects /
// timers of peer.go made visible to the vsched cooperative scheduler.  The
// harness owns the connection (an in-memory conn whose Read blocks exactly when
// no bytes are buffered), so quiescence is observed, not timed.
//
//	(a) protocol: every sequence of <= L remote frames over an alphabet of valid,
//	    out-of-order, duplicated, unknown and malformed frames, both directions,
//	    against a small reference handshake state machine.
//	(b) lifecycle: after a deterministic handshake, concurrent QueueMessage /
//	    QueueInventory callers, Disconnect / remote close / inbound traffic and
//	    timer ticks; ALL schedules up to a preemption bound.
package main

import (
	"bytes"
	"encoding/json"
	"errors"
	"fmt"
	"io"
	"net"
	"os"
	"os/exec"
	"sort"
	"strings"
	"time"

	"github.com/btcsuite/btcd/chaincfg/v2"
	"github.com/btcsuite/btcd/peer"
	"github.com/btcsuite/btcd/wire/v2"

	"verif/engine/ev"
	"verif/engine/vsched"
	"verif/engine/vtime"
)

// ---------------------------------------------------------------- conn

type connReadOp struct{ c *vconn }

func (o connReadOp) Enabled() bool {
	return o.c.in.Len() > 0 || o.c.closed || (o.c.link != nil && o.c.link.closed)
}
func (o connReadOp) String() string { return "conn.Read" }

type vconn struct {
	in      bytes.Buffer // remote -> peer
	out     bytes.Buffer // peer -> remote
	closed  bool
	closes  int
	failWr  bool // writes fail (connection loss on the write side)
	wrCalls int
	// link: the other end when two real peers are wired to each other; what
	// this end writes becomes readable there *before* Write returns (as with a
	// socket or pipe), so Write has a second scheduling point after the data
	// has been handed over
	link *vconn
}

func (c *vconn) Read(b []byte) (int, error) {
	vsched.Point(connReadOp{c})
	if c.in.Len() == 0 && (c.closed || (c.link != nil && c.link.closed)) {
		return 0, io.EOF
	}
	return c.in.Read(b)
}

func (c *vconn) Write(b []byte) (int, error) {
	vsched.Yield("conn.Write")
	c.wrCalls++
	if c.closed {
		return 0, errors.New("write on closed conn")
	}
	if c.failWr {
		return 0, errors.New("injected write error")
	}
	if c.link != nil {
		if c.link.closed {
			return 0, errors.New("write: broken pipe")
		}
		c.link.in.Write(b)
		n, err := c.out.Write(b)
		vsched.Yield("conn.Write returns")
		return n, err
	}
	return c.out.Write(b)
}

func (c *vconn) Close() error {
	c.closed = true
	c.closes++
	return nil
}
func (c *vconn) LocalAddr() net.Addr                { return &net.TCPAddr{IP: net.IPv4(10, 0, 0, 1), Port: 18444} }
func (c *vconn) RemoteAddr() net.Addr               { return &net.TCPAddr{IP: net.IPv4(10, 0, 0, 2), Port: 18444} }
func (c *vconn) SetDeadline(t time.Time) error      { return nil }
func (c *vconn) SetReadDeadline(t time.Time) error  { return nil }
func (c *vconn) SetWriteDeadline(t time.Time) error { return nil }

// ---------------------------------------------------------------- frames

var params = &chaincfg.RegressionNetParams

const ourPver = peer.MaxProtocolVersion

func frame(msg wire.Message, pver uint32, magic wire.BitcoinNet) []byte {
	var b bytes.Buffer
	if _, err := wire.WriteMessageWithEncodingN(&b, msg, pver, magic, wire.LatestEncoding); err != nil {
		panic(err)
	}
	return b.Bytes()
}

func versionMsg(pver int32, nonce uint64, services wire.ServiceFlag) *wire.MsgVersion {
	me := wire.NewNetAddressIPPort(net.IPv4(10, 0, 0, 2), 18444, services)
	you := wire.NewNetAddressIPPort(net.IPv4(10, 0, 0, 1), 18444, 0)
	m := wire.NewMsgVersion(me, you, nonce, 0)
	m.ProtocolVersion = pver
	m.Services = services
	m.Timestamp = time.Unix(1_600_000_000, 0)
	m.UserAgent = "/remote:0.0.1/"
	return m
}

// frame kinds of the remote alphabet
const (
	fVersion      = iota // valid version, pver = ours
	fVersionLow          // valid version, lower pver (BIP0031 + 1 ... > min acceptable)
	fVersionHigh         // pver above ours
	fVersionObs          // obsolete pver (one below the minimum acceptable)
	fVersionMin          // exactly the minimum acceptable pver
	fVersionSelf         // version carrying the nonce the peer itself sent (self connection)
	fVersionNoWit        // services without witness
	fVerAck
	fSendAddrV2
	fPing
	fPong
	fInv
	fUnknown
	fWrongMagic
	fBadChecksum
	fTruncated
	fOversize
	fVersionNeg // negative pver (-1): below every acceptable version
	nFrameKinds
)

var frameNames = []string{"version", "version-low", "version-high", "version-obsolete", "version-min", "version-self", "version-nowitness", "verack", "sendaddrv2", "ping", "pong", "inv", "unknown-cmd", "wrong-magic", "bad-checksum", "truncated", "oversize-length", "version-negative"}

const lowPver = wire.BIP0037Version // 70001: below sendaddrv2/feefilter etc, above min acceptable

func buildFrame(kind int, selfNonce uint64, negotiated ...uint32) []byte {
	magic := params.Net
	pingPver := uint32(ourPver)
	if len(negotiated) > 0 && negotiated[0] != 0 {
		pingPver = negotiated[0]
	}
	switch kind {
	case fVersion:
		return frame(versionMsg(int32(ourPver), 1111, wire.SFNodeNetwork|wire.SFNodeWitness), 0, magic)
	case fVersionLow:
		return frame(versionMsg(int32(lowPver), 1112, wire.SFNodeNetwork|wire.SFNodeWitness), 0, magic)
	case fVersionHigh:
		return frame(versionMsg(int32(ourPver)+5, 1113, wire.SFNodeNetwork|wire.SFNodeWitness), 0, magic)
	case fVersionObs:
		return frame(versionMsg(int32(peer.MinAcceptableProtocolVersion)-1, 1114, wire.SFNodeNetwork), 0, magic)
	case fVersionNeg:
		return frame(versionMsg(-1, 1117, wire.SFNodeNetwork|wire.SFNodeWitness), 0, magic)
	case fVersionMin:
		return frame(versionMsg(int32(peer.MinAcceptableProtocolVersion), 1116, wire.SFNodeNetwork), 0, magic)
	case fVersionSelf:
		return frame(versionMsg(int32(ourPver), selfNonce, wire.SFNodeNetwork|wire.SFNodeWitness), 0, magic)
	case fVersionNoWit:
		return frame(versionMsg(int32(ourPver), 1115, wire.SFNodeNetwork), 0, magic)
	case fVerAck:
		return frame(wire.NewMsgVerAck(), ourPver, magic)
	case fSendAddrV2:
		return frame(wire.NewMsgSendAddrV2(), ourPver, magic)
	case fPing:
		return frame(wire.NewMsgPing(77), pingPver, magic) // well-formed for the negotiated version
	case fPong:
		return frame(wire.NewMsgPong(78), ourPver, magic)
	case fInv:
		m := wire.NewMsgInv()
		m.AddInvVect(wire.NewInvVect(wire.InvTypeTx, &params.GenesisBlock.Header.MerkleRoot))
		return frame(m, ourPver, magic)
	case fUnknown:
		f := frame(wire.NewMsgPing(1), ourPver, magic)
		copy(f[4:16], []byte("bogus\x00\x00\x00\x00\x00\x00\x00"))
		return f
	case fWrongMagic:
		return frame(wire.NewMsgPing(2), ourPver, wire.MainNet)
	case fBadChecksum:
		f := frame(wire.NewMsgPing(3), ourPver, magic)
		f[20] ^= 0xff
		return f
	case fTruncated:
		f := frame(wire.NewMsgPing(4), ourPver, magic)
		return f[:len(f)-3]
	case fOversize:
		f := frame(wire.NewMsgPing(5), ourPver, magic)
		f[16], f[17], f[18], f[19] = 0xff, 0xff, 0xff, 0x7f
		return f
	}
	panic("kind")
}

// ---------------------------------------------------------------- observation

type obs struct {
	Callbacks    []string // listener callbacks in order
	Wire         []string // commands written by the peer, in order
	WireRaw      []wire.Message
	Connected    bool
	VersionKnown bool
	VerAck       bool
	Pver         uint32
	QuitClosed   bool
}

func parseWire(b []byte) ([]string, []wire.Message) {
	var cmds []string
	var msgs []wire.Message
	r := bytes.NewReader(b)
	for r.Len() > 0 {
		_, m, _, err := wire.ReadMessageWithEncodingN(r, ourPver, params.Net, wire.LatestEncoding)
		if err != nil {
			cmds = append(cmds, "?"+err.Error())
			break
		}
		cmds = append(cmds, m.Command())
		msgs = append(msgs, m)
	}
	return cmds, msgs
}

func listeners(log *[]string) peer.MessageListeners {
	add := func(s string) { *log = append(*log, s) }
	return peer.MessageListeners{
		OnVersion:    func(p *peer.Peer, m *wire.MsgVersion) *wire.MsgReject { add("version"); return nil },
		OnVerAck:     func(p *peer.Peer, m *wire.MsgVerAck) { add("verack") },
		OnSendAddrV2: func(p *peer.Peer, m *wire.MsgSendAddrV2) { add("sendaddrv2") },
		OnPing:       func(p *peer.Peer, m *wire.MsgPing) { add("ping") },
		OnPong:       func(p *peer.Peer, m *wire.MsgPong) { add("pong") },
		OnInv:        func(p *peer.Peer, m *wire.MsgInv) { add("inv") },
		OnGetAddr:    func(p *peer.Peer, m *wire.MsgGetAddr) { add("getaddr") },
		OnAddr:       func(p *peer.Peer, m *wire.MsgAddr) { add("addr") },
		OnReject:     func(p *peer.Peer, m *wire.MsgReject) { add("reject") },
		OnTx:         func(p *peer.Peer, m *wire.MsgTx) { add("tx") },
	}
}

func newPeer(inbound bool, allowSelf bool, log *[]string) *peer.Peer {
	cfg := &peer.Config{
		UserAgentName:    "verif",
		UserAgentVersion: "1.0",
		ChainParams:      params,
		Services:         wire.SFNodeNetwork | wire.SFNodeWitness,
		Listeners:        listeners(log),
		TrickleInterval:  7 * time.Second,
		AllowSelfConns:   allowSelf,
	}
	if inbound {
		return peer.NewInboundPeer(cfg)
	}
	p, err := peer.NewOutboundPeer(cfg, "10.0.0.2:18444")
	if err != nil {
		panic(err)
	}
	return p
}

// ---------------------------------------------------------------- part (a)

type protoCase struct {
	Inbound   bool  `json:"inbound"`
	AllowSelf bool  `json:"allow_self"`
	Frames    []int `json:"frames"`
	Choices   []int `json:"choices,omitempty"` // schedule (empty: canonical)
}

func (pc protoCase) String() string {
	n := make([]string, len(pc.Frames))
	for i, f := range pc.Frames {
		n[i] = frameNames[f]
	}
	d := "outbound"
	if pc.Inbound {
		d = "inbound"
	}
	return fmt.Sprintf("%s self=%v [%s]", d, pc.AllowSelf, strings.Join(n, ","))
}

// refProto is the reference handshake state machine.
type refProto struct {
	dead            bool
	versionSeen     bool // a well-formed, non-self version arrived first (OnVersion fires)
	versionAccepted bool // ... and its protocol version is acceptable
	established     bool
	pver            uint32
	callbacks       []string
	stalled         bool // a truncated frame is pending: nothing further can be parsed
	pongsDue        int
}

func isVersionKind(k int) bool { return k <= fVersionNoWit || k == fVersionNeg }

func (r *refProto) feed(kind int, allowSelf bool) {
	if r.dead {
		return
	}
	if r.stalled {
		// the bytes of this frame complete the truncated one: checksum failure
		r.dead = true
		return
	}
	malformed := kind == fWrongMagic || kind == fBadChecksum || kind == fOversize
	if kind == fTruncated {
		r.stalled = true
		return
	}
	// messages that are invalid for the negotiated protocol version are malformed
	if r.versionAccepted {
		if kind == fSendAddrV2 && r.pver < wire.AddrV2Version {
			malformed = true
		}
		if kind == fPong && r.pver <= wire.BIP0031Version {
			malformed = true
		}
	}
	switch {
	case !r.versionSeen:
		if malformed || !isVersionKind(kind) {
			r.dead = true // anything but a well-formed version first is refused
			return
		}
		if kind == fVersionSelf && !allowSelf {
			r.dead = true
			return
		}
		theirs := map[int]uint32{fVersion: ourPver, fVersionLow: lowPver, fVersionHigh: ourPver + 5,
			fVersionObs: peer.MinAcceptableProtocolVersion - 1, fVersionMin: peer.MinAcceptableProtocolVersion,
			fVersionSelf: ourPver, fVersionNoWit: ourPver, fVersionNeg: 0}[kind] // a negative version is below everything
		r.pver = theirs
		if ourPver < theirs {
			r.pver = ourPver
		}
		r.versionSeen = true
		r.callbacks = append(r.callbacks, "version")
		if theirs < peer.MinAcceptableProtocolVersion {
			r.dead = true
			return
		}
		r.versionAccepted = true
	case !r.established:
		switch {
		case malformed:
			r.dead = true
		case kind == fUnknown:
		case kind == fSendAddrV2:
			r.callbacks = append(r.callbacks, "sendaddrv2")
		case kind == fVerAck:
			r.established = true
			r.callbacks = append(r.callbacks, "verack")
		default:
			r.dead = true
		}
	default:
		switch {
		case malformed:
			r.dead = true
		case kind == fUnknown:
		case isVersionKind(kind), kind == fVerAck, kind == fSendAddrV2:
			r.dead = true
		case kind == fPing:
			r.callbacks = append(r.callbacks, "ping")
			if r.pver > wire.BIP0031Version {
				r.pongsDue++
			}
		case kind == fPong:
			r.callbacks = append(r.callbacks, "pong")
		case kind == fInv:
			r.callbacks = append(r.callbacks, "inv")
		}
	}
}

type protoResult struct {
	o        obs
	selfSeen bool
}

// runProto executes one case under the scheduler's default schedule.
func runProto(pc protoCase, prefix ...int) (*vsched.Exec, *obs, *obs) {
	if pc.Inbound {
		for _, k := range pc.Frames {
			if k == fVersionSelf {
				// the process-wide sentNonces cache holds only the last 50 nonces
				// (inbound peers add theirs too): make sure a fresh outbound nonce
				// is in it (harness state, not part of the case)
				runProto(protoCase{Inbound: false, Frames: []int{fVersion}})
				break
			}
		}
	}
	var atEnd, afterDisc obs
	body := func() {
		vtime.ResetRegistry()
		var log []string
		c := &vconn{}
		p := newPeer(pc.Inbound, pc.AllowSelf, &log)
		p.AssociateConnection(c)
		shadow := &refProto{}
		for _, k := range pc.Frames {
			vsched.WaitQuiescent()
			var nonce uint64
			if k == fVersionSelf {
				// the nonce the peer put into its own version message; an inbound
				// peer has not sent one yet: use the nonce of an earlier outbound
				// peer of this process instead (sentNonces is process wide)
				_, msgs := parseWire(c.out.Bytes())
				for _, m := range msgs {
					if v, ok := m.(*wire.MsgVersion); ok {
						nonce = v.Nonce
					}
				}
				if nonce == 0 {
					nonce = lastOutboundNonce
				}
			}
			var neg uint32
			if shadow.versionAccepted {
				neg = shadow.pver
			}
			c.in.Write(buildFrame(k, nonce, neg))
			shadow.feed(k, pc.AllowSelf)
		}
		vsched.WaitQuiescent()
		snapshot := func(o *obs) {
			o.Callbacks = append([]string(nil), log...)
			o.Wire, o.WireRaw = parseWire(c.out.Bytes())
			o.Connected = p.Connected()
			o.VersionKnown = p.VersionKnown()
			o.VerAck = p.VerAckReceived()
			o.Pver = p.ProtocolVersion()
			select {
			case <-p.Done():
				o.QuitClosed = true
			default:
			}
		}
		snapshot(&atEnd)
		if !pc.Inbound {
			_, msgs := parseWire(c.out.Bytes())
			for _, m := range msgs {
				if v, ok := m.(*wire.MsgVersion); ok {
					lastOutboundNonce = v.Nonce
				}
			}
		}
		p.Disconnect()
		p.WaitForDisconnect()
		vsched.WaitQuiescent()
		snapshot(&afterDisc)
	}
	x := vsched.RunOnce(prefix, 20000, body)
	return x, &atEnd, &afterDisc
}

var lastOutboundNonce uint64 = 424242

func checkProto(pc protoCase) string {
	x, o, od := runProto(pc)
	return judgeProto(pc, x, o, od)
}

// checkProtoSched runs the case under EVERY schedule with at most bound
// deviations from the canonical one (the handshake itself is explored, not
// only the default schedule).  Returns the number of schedules and the first
// violation with its schedule.
func checkProtoSched(pc protoCase, bound int, stop func() bool) (int, string, []int) {
	n := 0
	var viol string
	var violChoices []int
	var explore func(prefix []int)
	explore = func(prefix []int) {
		if viol != "" || stop() {
			return
		}
		x, o, od := runProto(pc, prefix...)
		n++
		if x.Diverged != "" {
			viol, violChoices = "replay divergence: "+x.Diverged, prefix
			return
		}
		if w := judgeProto(pc, x, o, od); w != "" {
			viol, violChoices = w, x.Choices()
			return
		}
		for i := len(prefix); i < len(x.Points); i++ {
			p := x.Points[i]
			if len(p.Enabled) <= 1 {
				continue
			}
			cost := 1
			for k := 0; k < i; k++ {
				if x.Points[k].Choice != 0 {
					cost++
				}
			}
			if cost > bound {
				continue
			}
			for alt := 1; alt < len(p.Enabled); alt++ {
				explore(append(append([]int(nil), x.Choices()[:i]...), alt))
			}
		}
	}
	explore(nil)
	return n, viol, violChoices
}

func judgeProto(pc protoCase, x *vsched.Exec, o, od *obs) string {
	if x.Panic != "" {
		return "panic: " + firstLine(x.Panic)
	}
	if x.Horizon || x.Diverged != "" || x.Zombies {
		return fmt.Sprintf("execution did not finish cleanly: horizon=%v diverged=%q zombies=%v", x.Horizon, x.Diverged, x.Zombies)
	}
	if x.Deadlock {
		return "goroutine leak after Disconnect/WaitForDisconnect: still blocked: " + strings.Join(x.Blocked, "; ")
	}
	ref := &refProto{}
	for _, k := range pc.Frames {
		ref.feed(k, pc.AllowSelf)
	}
	// no application callback before both version and verack were seen; exactly
	// the reference's callback sequence overall
	if strings.Join(o.Callbacks, ",") != strings.Join(ref.callbacks, ",") {
		return fmt.Sprintf("listener callbacks %v, reference %v", o.Callbacks, ref.callbacks)
	}
	if ref.dead {
		if o.Connected || !o.QuitClosed {
			return fmt.Sprintf("peer must have disconnected (connected=%v quit=%v)", o.Connected, o.QuitClosed)
		}
	} else {
		if !o.Connected || o.QuitClosed {
			return fmt.Sprintf("peer disconnected although the remote behaved (connected=%v quit=%v)", o.Connected, o.QuitClosed)
		}
	}
	if ref.versionAccepted {
		if o.Pver != ref.pver {
			return fmt.Sprintf("negotiated protocol version %d, want min(ours,theirs)=%d", o.Pver, ref.pver)
		}
	}
	if o.VerAck != ref.established && !ref.dead {
		return fmt.Sprintf("VerAckReceived=%v want %v", o.VerAck, ref.established)
	}
	// bytes written during the handshake: version, [sendaddrv2], verack in order
	var hs []string
	for _, c := range o.Wire {
		if c == "version" || c == "verack" || c == "sendaddrv2" {
			hs = append(hs, c)
		}
	}
	var want []string
	if !pc.Inbound || ref.versionAccepted {
		want = append(want, "version")
	}
	if ref.versionAccepted {
		if ref.pver >= wire.AddrV2Version {
			want = append(want, "sendaddrv2")
		}
		want = append(want, "verack")
	}
	if strings.Join(hs, ",") != strings.Join(want, ",") {
		return fmt.Sprintf("handshake messages written %v, want %v (all written: %v)", hs, want, o.Wire)
	}
	// every ping after establishment is answered by a pong
	pings := ref.pongsDue
	pongs := 0
	for _, c := range o.Wire {
		if c == "pong" {
			pongs++
		}
	}
	if !ref.dead && pongs != pings {
		return fmt.Sprintf("%d pongs due but %d pongs written", pings, pongs)
	}
	// after Disconnect: no further callbacks, quit closed
	if len(od.Callbacks) != len(o.Callbacks) {
		return fmt.Sprintf("callbacks after Disconnect: %v", od.Callbacks[len(o.Callbacks):])
	}
	if !od.QuitClosed || od.Connected {
		return "WaitForDisconnect returned but the peer still reports connected"
	}
	return ""
}

func firstLine(s string) string {
	if i := strings.IndexByte(s, '\n'); i >= 0 {
		return s[:i]
	}
	return s
}

// ---------------------------------------------------------------- part (b)

type lifeCase struct {
	Name       string `json:"name"`
	Inbound    bool   `json:"inbound"`
	Queuers    int    `json:"queuers"`               // 1..2 threads calling QueueMessage
	PerQ       int    `json:"per_queuer"`            // messages per queuer
	PerQ2      int    `json:"per_queuer2,omitempty"` // messages of the second queuer when different
	Inv        bool   `json:"inv"`                   // one thread calls QueueInventory + a trickle tick
	Disc       string `json:"disc"`                  // "api" (p.Disconnect), "remote-close", "write-error", "none"
	RemotePing bool   `json:"remote_ping"`
	// Hs: "" = the threads start after a completed handshake; "silent" = the
	// remote has sent nothing yet; "version" = the remote has sent its version
	// only (the peer is inside negotiate*Protocol).  Disc "timeout" fires the
	// negotiation timer.
	Hs    string `json:"hs,omitempty"`
	Bound int    `json:"bound"`
	Choices    []int  `json:"choices,omitempty"`
	// Shard k of N: the subtrees below the first deviation are dealt round-robin
	// to N processes (every shard also runs the canonical schedule).
	ShardK int `json:"shard_k,omitempty"`
	ShardN int `json:"shard_n,omitempty"`
}

type lifeObs struct {
	wireNonces  []uint64 // ping nonces on the wire, in order
	doneCount   map[uint64]int
	retTime     map[uint64]int
	callTime    map[uint64]int
	discCall    int
	invOnWire   int
	leakBlocked []string
	pongOnWire  int
	ticked      bool
	selfProblem string // selfpair: a peer wired to a peer of its own process got through the handshake
}

func runLife(lc lifeCase, prefix []int) (*vsched.Exec, *lifeObs) {
	o := &lifeObs{doneCount: map[uint64]int{}, retTime: map[uint64]int{}, callTime: map[uint64]int{}}
	body := func() {
		vtime.ResetRegistry()
		if lc.Name == "selfpair" {
			// an outbound and an inbound peer of this process wired to each other
			// (the node dialled its own listening address): both must refuse
			var logO, logI []string
			a, b := &vconn{}, &vconn{}
			a.link, b.link = b, a
			po := newPeer(false, false, &logO)
			pi := newPeer(true, false, &logI)
			vsched.BeginExplore()
			po.AssociateConnection(a)
			pi.AssociateConnection(b)
			vsched.WaitQuiescent()
			switch {
			case po.VerAckReceived() || pi.VerAckReceived():
				o.selfProblem = fmt.Sprintf("self-connection completed the handshake: outbound verack=%v inbound verack=%v; callbacks outbound %v inbound %v", po.VerAckReceived(), pi.VerAckReceived(), logO, logI)
			case len(logO)+len(logI) > 0:
				o.selfProblem = fmt.Sprintf("self-connection delivered messages to the application: outbound %v inbound %v", logO, logI)
			case po.Connected() || pi.Connected():
				o.selfProblem = fmt.Sprintf("self-connection still up at quiescence: outbound connected=%v inbound connected=%v", po.Connected(), pi.Connected())
			}
			po.Disconnect()
			pi.Disconnect()
			po.WaitForDisconnect()
			pi.WaitForDisconnect()
			vsched.WaitQuiescent()
			return
		}
		clock := 0
		tick := func() int { clock++; return clock }
		var log []string
		c := &vconn{}
		p := newPeer(lc.Inbound, false, &log)
		p.AssociateConnection(c)
		vsched.WaitQuiescent()
		switch lc.Hs {
		case "silent":
		case "version":
			c.in.Write(buildFrame(fVersion, 0))
			vsched.WaitQuiescent()
		default:
			c.in.Write(buildFrame(fVersion, 0))
			vsched.WaitQuiescent()
			c.in.Write(buildFrame(fVerAck, 0))
			vsched.WaitQuiescent()
			if !p.Connected() || !p.VerAckReceived() {
				panic("handshake prefix failed")
			}
		}
		hsLen := c.out.Len()
		dones := map[uint64]chan struct{}{}
		vsched.BeginExplore()
		var wg waitGroup
		for q := 0; q < lc.Queuers; q++ {
			q := q
			wg.add()
			vsched.Go(fmt.Sprintf("queuer%d", q), func() {
				defer wg.done()
				n := lc.PerQ
				if q == 1 && lc.PerQ2 > 0 {
					n = lc.PerQ2
				}
				for k := 0; k < n; k++ {
					nonce := uint64(100*(q+1) + k)
					d := make(chan struct{}, 2)
					dones[nonce] = d
					o.callTime[nonce] = tick()
					p.QueueMessage(wire.NewMsgPing(nonce), d)
					o.retTime[nonce] = tick()
				}
			})
		}
		if lc.Inv {
			wg.add()
			vsched.Go("inv", func() {
				defer wg.done()
				h := params.GenesisBlock.Header.MerkleRoot
				p.QueueInventory(wire.NewInvVect(wire.InvTypeTx, &h))
				for _, t := range vtime.Tickers() {
					if t.D == 7*time.Second {
						o.ticked = t.Fire() || o.ticked
					}
				}
			})
		}
		if lc.RemotePing {
			wg.add()
			vsched.Go("remote", func() {
				defer wg.done()
				vsched.Yield("remote sends ping")
				c.in.Write(buildFrame(fPing, 0))
			})
		}
		if lc.Disc != "none" {
			wg.add()
			vsched.Go("disconnector", func() {
				defer wg.done()
				switch lc.Disc {
				case "api":
					o.discCall = tick()
					p.Disconnect()
				case "remote-close":
					vsched.Yield("remote closes")
					o.discCall = tick()
					c.closed = true
				case "write-error":
					vsched.Yield("writes start failing")
					o.discCall = tick()
					c.failWr = true
				case "timeout":
					vsched.Yield("negotiation timer expires")
					o.discCall = tick()
					for _, t := range vtime.Timers() {
						if t.D == 30*time.Second {
							t.Fire()
						}
					}
				}
			})
		}
		wg.wait()
		vsched.WaitQuiescent()
		if lc.Disc == "none" || lc.Disc == "write-error" || lc.Disc == "timeout" {
			// with failing writes the peer only notices at its next write; make
			// sure the test ends with a disconnect request in every variant
			p.Disconnect()
		}
		p.WaitForDisconnect()
		vsched.WaitQuiescent()
		for n, d := range dones {
			o.doneCount[n] = len(d)
		}
		_, msgs := parseWire(c.out.Bytes()[hsLen:])
		for _, m := range msgs {
			switch v := m.(type) {
			case *wire.MsgPing:
				o.wireNonces = append(o.wireNonces, v.Nonce)
			case *wire.MsgInv:
				o.invOnWire++
			case *wire.MsgPong:
				o.pongOnWire++
			}
		}
	}
	x := vsched.RunOnce(prefix, 20000, body)
	return x, o
}

// waitGroup: a tiny scheduler-aware wait group for harness threads.
type waitGroup struct{ n int }
type wgOp struct{ w *waitGroup }

func (o wgOp) Enabled() bool  { return o.w.n == 0 }
func (o wgOp) String() string { return "harness-wait" }
func (w *waitGroup) add()     { w.n++ }
func (w *waitGroup) done()    { w.n-- }
func (w *waitGroup) wait()    { vsched.Point(wgOp{w}) }

func checkLife(lc lifeCase, x *vsched.Exec, o *lifeObs) (string, string) {
	if x.Panic != "" {
		return "panic", "panic: " + firstLine(x.Panic)
	}
	if x.Horizon || x.Zombies {
		return "unfinished", fmt.Sprintf("execution did not finish cleanly: horizon=%v zombies=%v", x.Horizon, x.Zombies)
	}
	if x.Deadlock {
		return "leak", "deadlock / goroutine leak: blocked threads: " + strings.Join(x.Blocked, "; ")
	}
	if o.selfProblem != "" {
		return "self-connection", o.selfProblem
	}
	// completion signals: never twice; exactly once when queued before the disconnect request
	var keys []uint64
	for n := range o.callTime {
		keys = append(keys, n)
	}
	sort.Slice(keys, func(i, j int) bool { return keys[i] < keys[j] })
	for _, n := range keys {
		if o.doneCount[n] > 1 {
			return "double-done", fmt.Sprintf("completion of message %d signalled %d times", n, o.doneCount[n])
		}
		queuedBefore := o.retTime[n] != 0 && (o.discCall == 0 || o.retTime[n] < o.discCall)
		if queuedBefore && o.doneCount[n] != 1 {
			return "lost-done", fmt.Sprintf("message %d was queued (QueueMessage returned at t=%d) before the disconnect request (t=%d) but its completion was signalled %d times", n, o.retTime[n], o.discCall, o.doneCount[n])
		}
	}
	// FIFO on the wire: per queuer and across queuers when ordered by happens-before
	pos := map[uint64]int{}
	for i, n := range o.wireNonces {
		if _, dup := pos[n]; dup {
			return "dup-wire", fmt.Sprintf("message %d written twice", n)
		}
		pos[n] = i
	}
	for _, a := range keys {
		for _, b := range keys {
			if a == b {
				continue
			}
			pa, oka := pos[a]
			pb, okb := pos[b]
			if o.retTime[a] != 0 && o.retTime[a] < o.callTime[b] {
				if oka && okb && pa > pb {
					return "fifo", fmt.Sprintf("message %d was queued before %d but written after it (wire order %v)", a, b, o.wireNonces)
				}
				if !oka && okb {
					return "fifo-skip", fmt.Sprintf("message %d (queued first) never written although the later %d was (wire %v)", a, b, o.wireNonces)
				}
			}
		}
	}
	out := fmt.Sprintf("wire=%v done=%v inv=%d pong=%d", o.wireNonces, o.doneCount, o.invOnWire, o.pongOnWire)
	return out, ""
}

// ---------------------------------------------------------------- driver

func protoCases(maxLen int) []protoCase {
	var out []protoCase
	var rec func(prefix []int)
	rec = func(prefix []int) {
		if len(prefix) > 0 {
			for _, inbound := range []bool{true, false} {
				for _, self := range []bool{false, true} {
					uses := false
					for _, k := range prefix {
						if k == fVersionSelf {
							uses = true
						}
					}
					if self && !uses {
						continue // AllowSelfConns only matters with a self-nonce frame
					}
					out = append(out, protoCase{Inbound: inbound, AllowSelf: self, Frames: append([]int(nil), prefix...)})
				}
			}
		}
		if len(prefix) == maxLen {
			return
		}
		for k := 0; k < nFrameKinds; k++ {
			rec(append(prefix, k))
		}
	}
	rec(nil)
	return out
}

type shardResult struct {
	Evals      int              `json:"evals"`
	Points     int              `json:"points"`
	Outcomes   map[string]int   `json:"outcomes"`
	Violations []shardViolation `json:"violations"`
	Complete   bool             `json:"complete"`
	Samples    []string         `json:"samples"`
}
type shardViolation struct {
	Key    string      `json:"key"`
	What   string      `json:"what"`
	Replay interface{} `json:"replay"`
}

func lifeCases(thorough bool) []lifeCase {
	b := 2
	if thorough {
		b = 3
	}
	var out []lifeCase
	for _, inbound := range []bool{false, true} {
		for _, disc := range []string{"api", "remote-close", "write-error", "none"} {
			out = append(out, lifeCase{Name: "1q2", Inbound: inbound, Queuers: 1, PerQ: 2, Disc: disc, Bound: b})
			if !inbound && (disc == "api" || disc == "remote-close") {
				// three sends in flight: two of them can be parked in the queue
				// handler's pending list when the disconnect arrives
				out = append(out, lifeCase{Name: "1q3", Inbound: inbound, Queuers: 1, PerQ: 3, Disc: disc, Bound: b})
			}
			if !inbound {
				out = append(out, lifeCase{Name: "2q1", Inbound: inbound, Queuers: 2, PerQ: 1, Disc: disc, Bound: b})
			}
		}
		if !inbound {
			// a burst of three sends plus a late fourth from another caller, with a
			// disconnect: three deviations are needed to park the fourth send
			// behind an in-flight write, so this case runs at bound 3 in both tiers,
			// sharded over processes by first-deviation subtree
			const n = 12
			for k := 0; k < n; k++ {
				out = append(out, lifeCase{Name: "2q31", Inbound: inbound, Queuers: 2, PerQ: 3, PerQ2: 1, Disc: "api", Bound: 3, ShardK: k, ShardN: n})
			}
		}
		// disconnect requests during the handshake (the remote silent, or after
		// its version only) while a caller queues a message: every goroutine
		// must end, a completion is never signalled twice
		for _, hs := range []string{"silent", "version"} {
			for _, disc := range []string{"api", "remote-close", "timeout"} {
				out = append(out, lifeCase{Name: "hs-" + hs, Inbound: inbound, Queuers: 1, PerQ: 1, Hs: hs, Disc: disc, Bound: b})
			}
		}
		if !inbound {
			out = append(out, lifeCase{Name: "selfpair", Disc: "none", Bound: b})
		}
		out = append(out, lifeCase{Name: "inv", Inbound: inbound, Queuers: 1, PerQ: 1, Inv: true, Disc: "api", Bound: b})
		// (three deviations in both tiers: the input handler has to be held between
		// reading the ping and announcing it to the stall handler while the
		// disconnect runs to the end of the output side)
		out = append(out, lifeCase{Name: "rping", Inbound: inbound, Queuers: 1, PerQ: 1, RemotePing: true, Disc: "api", Bound: 3})
	}
	return out
}

// runShard is the worker entry: `c18 shard proto <i> <n> <maxLen>` or
// `c18 shard life <index> <thorough>`; prints a JSON shardResult.
func runShard(args []string, deadline time.Time) {
	res := shardResult{Outcomes: map[string]int{}, Complete: true}
	// warm-up: an outbound peer of this process must have sent a version so that
	// the process-wide sentNonces cache holds a nonce for the inbound
	// self-connection cases (harness state, not part of any case)
	runProto(protoCase{Inbound: false, Frames: []int{fVersion}})
	switch args[0] {
	case "proto":
		var i, n, maxLen int
		fmt.Sscan(args[1], &i)
		fmt.Sscan(args[2], &n)
		fmt.Sscan(args[3], &maxLen)
		cases := protoCases(maxLen)
		for k := i; k < len(cases); k += n {
			if time.Now().After(deadline) {
				res.Complete = false
				break
			}
			pc := cases[k]
			what := checkProto(pc)
			res.Evals++
			if what != "" {
				// confirm
				if checkProto(pc) == "" || checkProto(pc) == "" {
					res.Violations = append(res.Violations, shardViolation{Key: "nondeterministic", What: "verdict flipped for " + pc.String(), Replay: pc})
				} else if len(res.Violations) < 20 {
					res.Violations = append(res.Violations, shardViolation{Key: "proto/" + classify(what), What: pc.String() + ": " + what, Replay: pc})
				}
				res.Outcomes["violation"]++
			} else {
				res.Outcomes["ok"]++
			}
			if len(res.Samples) < 2 && len(pc.Frames) >= 3 {
				res.Samples = append(res.Samples, pc.String())
			}
		}
	case "protosched":
		var i, n, maxLen, bound int
		fmt.Sscan(args[1], &i)
		fmt.Sscan(args[2], &n)
		fmt.Sscan(args[3], &maxLen)
		fmt.Sscan(args[4], &bound)
		cases := protoCases(maxLen)
		for k := i; k < len(cases); k += n {
			if time.Now().After(deadline) {
				res.Complete = false
				break
			}
			pc := cases[k]
			cnt, what, ch := checkProtoSched(pc, bound, func() bool { return time.Now().After(deadline) })
			res.Evals += cnt
			res.Outcomes[fmt.Sprintf("schedules=%d", cnt/50*50)]++
			if what != "" {
				pc.Choices = ch
				// replay the schedule twice
				same := true
				for t := 0; t < 2; t++ {
					x, o, od := runProto(pc, ch...)
					if (judgeProto(pc, x, o, od) == "") != false {
						same = false
					}
				}
				if !same {
					res.Violations = append(res.Violations, shardViolation{Key: "nondeterministic", What: "schedule replay gave a different verdict for " + pc.String() + ": " + what, Replay: pc})
				} else if len(res.Violations) < 10 {
					res.Violations = append(res.Violations, shardViolation{Key: "protosched/" + classify(what), What: pc.String() + " under a non-canonical schedule: " + what, Replay: pc})
				}
			}
		}
	case "life":
		var idx int
		var thorough bool
		fmt.Sscan(args[1], &idx)
		thorough = args[2] == "true"
		lc := lifeCases(thorough)[idx]
		res = exploreLife(lc, func() bool { return time.Now().After(deadline) })
	}
	b, _ := json.Marshal(res)
	fmt.Println(string(b))
}

func classify(what string) string {
	for _, p := range []string{"goroutine leak", "listener callbacks", "must have disconnected", "disconnected although", "negotiated protocol version", "handshake messages written", "pongs written", "callbacks after Disconnect", "panic", "did not finish"} {
		if strings.Contains(what, p) {
			return strings.ReplaceAll(p, " ", "-")
		}
	}
	return "other"
}

// exploreLife is the preemption-bounded DFS for one lifecycle case.
func exploreLife(lc lifeCase, stop func() bool) shardResult {
	res := shardResult{Outcomes: map[string]int{}, Complete: true}
	topCount := 0
	var explore func(prefix []int)
	explore = func(prefix []int) {
		if stop() {
			res.Complete = false
			return
		}
		x, o := runLife(lc, prefix)
		res.Evals++
		res.Points += len(x.Points)
		if x.Diverged != "" {
			res.Violations = append(res.Violations, shardViolation{Key: "replay-divergence", What: x.Diverged, Replay: lc})
			res.Complete = false
			return
		}
		outcome, viol := checkLife(lc, x, o)
		res.Outcomes[outcome]++
		if viol != "" && len(res.Violations) < 10 {
			// replay the recorded schedule twice: identical verdict required
			c := x.Choices()
			same := true
			for k := 0; k < 2; k++ {
				x2, o2 := runLife(lc, c)
				out2, v2 := checkLife(lc, x2, o2)
				// (descriptions carry channel addresses, so compare the verdict class)
				if out2 != outcome || (v2 == "") != (viol == "") {
					same = false
				}
			}
			l2 := lc
			l2.Choices = c
			if !same {
				res.Violations = append(res.Violations, shardViolation{Key: "nondeterministic", What: "schedule replay gave a different verdict: " + viol, Replay: l2})
			} else {
				res.Violations = append(res.Violations, shardViolation{Key: "life/" + outcome, What: fmt.Sprintf("%s inbound=%v disc=%s bound=%d schedule{%s}: %s", lc.Name, lc.Inbound, lc.Disc, lc.Bound, vsched.Describe(x), viol), Replay: l2})
			}
		}
		for i := len(prefix); i < len(x.Points); i++ {
			p := x.Points[i]
			if len(p.Enabled) <= 1 || i < x.ExploreFrom {
				continue
			}
			// deviation bounding: every choice other than the canonical one (keep the
			// running thread, else lowest thread id, else first ready select case)
			// costs one deviation, whether or not it preempts a runnable thread
			cost := 1
			for k := x.ExploreFrom; k < i; k++ {
				if x.Points[k].Choice != 0 {
					cost++
				}
			}
			if cost > lc.Bound {
				continue
			}
			for alt := 1; alt < len(p.Enabled); alt++ {
				if len(prefix) == 0 && lc.ShardN > 1 {
					topCount++
					if topCount%lc.ShardN != lc.ShardK {
						continue
					}
				}
				explore(append(append([]int(nil), x.Choices()[:i]...), alt))
			}
		}
	}
	explore(nil)
	if len(res.Samples) == 0 {
		res.Samples = append(res.Samples, fmt.Sprintf("%+v", lc))
	}
	return res
}

func main() {
	if len(os.Args) > 2 && os.Args[1] == "shard" {
		secs := 600
		if v := os.Getenv("C18_SHARD_SECS"); v != "" {
			fmt.Sscan(v, &secs)
		}
		runShard(os.Args[2:], time.Now().Add(time.Duration(secs)*time.Second))
		return
	}
	r := ev.Start("C18")
	r.Rule("(a) every sequence of <=L remote frames over a 16-frame alphabet x direction x AllowSelfConns, run on the real (rewritten) peer under the cooperative scheduler's default schedule, against a reference handshake state machine; (b) lifecycle scenarios (queuers x disconnect kind x inbound traffic x trickle tick) explored over ALL schedules with at most k deviations from the canonical schedule (deviation = any non-canonical choice at a scheduling point: a preemption, a non-canonical wake-up order, or a non-first ready select case); a case is distinct by its frame sequence / its schedule's observable outcome")
	r.Assume("timers fire only when the harness says so (idle/ping/stall/negotiation timeouts never fire inside the explored horizon)")
	r.Assume("scheduling points: lock, channel, select, conn read/write, spawn and 32-bit atomic operations (connected/disconnect flags); 64-bit statistics atomics are not points")
	r.Assume("the data-race clause is covered by a separate free-running -race pass of the same scenarios (race_pass in coverage), because a cooperative scheduler's hand-offs hide races")

	if r.ReplayPath != "" {
		var raw json.RawMessage
		r.LoadReplay(&raw)
		var lc lifeCase
		var pc protoCase
		if json.Unmarshal(raw, &lc) == nil && lc.Name != "" {
			x, o := runLife(lc, lc.Choices)
			if _, v := checkLife(lc, x, o); v != "" {
				r.Violation("life/replay", v, lc)
			}
		} else if json.Unmarshal(raw, &pc) == nil {
			x, o, od := runProto(pc, pc.Choices...)
			if v := judgeProto(pc, x, o, od); v != "" {
				r.Violation("proto/replay", v, pc)
			}
		}
		r.Eval(1)
		r.Finish(false)
	}

	self, _ := os.Executable()
	maxLen := 3
	shardSecs := 150
	if r.Thorough() {
		maxLen = 4
		shardSecs = 1500
	}
	type job struct{ args []string }
	var jobs []job
	nProto := 12
	for i := 0; i < nProto; i++ {
		jobs = append(jobs, job{[]string{"shard", "proto", fmt.Sprint(i), fmt.Sprint(nProto), fmt.Sprint(maxLen)}})
	}
	nPS := 12
	psLen, psBound := 2, 1
	if r.Thorough() {
		psLen, psBound = 2, 2
	}
	for i := 0; i < nPS; i++ {
		jobs = append(jobs, job{[]string{"shard", "protosched", fmt.Sprint(i), fmt.Sprint(nPS), fmt.Sprint(psLen), fmt.Sprint(psBound)}})
	}
	lcs := lifeCases(r.Thorough())
	for i := range lcs {
		jobs = append(jobs, job{[]string{"shard", "life", fmt.Sprint(i), fmt.Sprint(r.Thorough())}})
	}
	results := make([]shardResult, len(jobs))
	errs := make([]string, len(jobs))
	ev.Par(len(jobs), 16, func(i int) {
		cmd := exec.Command(self, jobs[i].args...)
		cmd.Env = append(os.Environ(), "GOMAXPROCS=2", fmt.Sprintf("C18_SHARD_SECS=%d", shardSecs))
		out, err := cmd.Output()
		if err != nil {
			errs[i] = fmt.Sprintf("shard %v: %v: %s", jobs[i].args, err, tail(out))
			return
		}
		lines := strings.Split(strings.TrimSpace(string(out)), "\n")
		if e := json.Unmarshal([]byte(lines[len(lines)-1]), &results[i]); e != nil {
			errs[i] = fmt.Sprintf("shard %v: bad output: %s", jobs[i].args, tail(out))
		}
	})
	for _, e := range errs {
		if e != "" {
			r.Broken("%s", e)
		}
	}
	complete := true
	outcomes := map[string]int{}
	protoEvals, lifeExecs, points, protoSched := 0, 0, 0, 0
	perCase := map[string]interface{}{}
	for i, res := range results {
		if !res.Complete {
			complete = false
			r.Cap(fmt.Sprintf("shard %v hit its time box after %d executions", jobs[i].args, res.Evals))
		}
		if jobs[i].args[1] == "proto" {
			protoEvals += res.Evals
		} else if jobs[i].args[1] == "protosched" {
			protoSched += res.Evals
		} else {
			lifeExecs += res.Evals
			var idx int
			fmt.Sscan(jobs[i].args[2], &idx)
			perCase[fmt.Sprintf("%s/inbound=%v/disc=%s/bound=%d/shard=%d", lcs[idx].Name, lcs[idx].Inbound, lcs[idx].Disc, lcs[idx].Bound, lcs[idx].ShardK)] = map[string]interface{}{"schedules": res.Evals, "distinct_outcomes": len(res.Outcomes), "complete": res.Complete}
		}
		points += res.Points
		for k, v := range res.Outcomes {
			outcomes[k] += v
			r.Nontrivial(jobs[i].args[1] + jobs[i].args[2] + k)
		}
		for _, s := range res.Samples {
			r.Sample(s)
		}
		for _, v := range res.Violations {
			if v.Key == "nondeterministic" || v.Key == "replay-divergence" {
				r.Broken("%s: %s", v.Key, v.What)
			}
			if strings.Contains(v.What, "is not modelled") {
				// the code uses a construct the scheduler does not model: the
				// harness cannot judge it (engine limitation, not a verdict)
				r.Broken("%s: %s", v.Key, v.What)
			}
			r.Violation(v.Key, v.What, v.Replay)
		}
	}
	r.Eval(protoEvals + lifeExecs + protoSched)
	r.Trace(protoEvals + lifeExecs + protoSched)
	r.Set("protocol_schedules", map[string]interface{}{"max_frames": psLen, "deviation_bound": psBound, "schedules": protoSched})
	r.State(len(outcomes) + protoEvals)
	r.Trans(points + protoEvals)
	r.Set("protocol_sequences", protoEvals)
	r.Set("lifecycle_schedules", lifeExecs)
	r.Set("lifecycle_cases", perCase)
	r.Set("scheduling_points_total", points)
	r.Set("bounds", map[string]interface{}{"max_frames": maxLen, "frame_alphabet": frameNames, "deviation_bound": lcs[0].Bound})
	racePass(r)
	r.Finish(complete)
}

func tail(b []byte) string {
	s := string(b)
	if len(s) > 600 {
		s = s[len(s)-600:]
	}
	return s
}

// racePass runs the free-running -race build of the lifecycle scenarios (a
// separate binary without the overlay, built by run.sh) and folds its result in.
func racePass(r *ev.Run) {
	bin := os.Getenv("C18_RACE_BIN")
	if bin == "" {
		r.Set("race_pass", "not run (C18_RACE_BIN unset)")
		return
	}
	iters := "40"
	if r.Thorough() {
		iters = "400"
	}
	cmd := exec.Command(bin, iters)
	out, err := cmd.CombinedOutput()
	txt := string(out)
	if strings.Contains(txt, "WARNING: DATA RACE") {
		i := strings.Index(txt, "WARNING: DATA RACE")
		rep := txt[i:]
		if len(rep) > 1500 {
			rep = rep[:1500]
		}
		r.Violation("race/"+raceSite(rep), "data race reported by the free-running -race pass: "+strings.ReplaceAll(rep, "\n", " | "), map[string]string{"report": rep})
	} else if err != nil {
		r.Broken("race pass failed: %v: %s", err, tail(out))
	}
	r.Set("race_pass", map[string]interface{}{"iterations_per_scenario": iters, "output_tail": tail(out)})
}

func raceSite(rep string) string {
	for _, l := range strings.Split(rep, "\n") {
		l = strings.TrimSpace(l)
		if strings.HasPrefix(l, "github.com/btcsuite/btcd/peer.") {
			return strings.Fields(l)[0]
		}
	}
	return "unknown"
}
