#!/bin/bash
# C18 runner: regenerate the scheduler overlay from the CURRENT peer sources,
# build the controlled binary with it, build the free-running -race binary
# without it, run.
cd "$(dirname "$0")/../.." || exit 2
. scripts/env.sh
REPO=${VERIF_REPO:-/repo}
out=${VERIF_OUT:-bin/c18}
work=bin/c18-overlay-$(echo "$REPO" | md5sum | cut -c1-8)
rm -rf "$work"; mkdir -p "$work"
if ! $VGO run ./engine/rewrite -sync "$REPO/peer" -full "$REPO/peer/peer.go" -out "$work" -overlay "$work/overlay.json" 2> "$out.buildlog"; then
  cat "$out.buildlog"; echo "BROKEN-CHECK property=C18 rewriter failed on the current peer sources"; exit 2
fi
if [ -n "$VERIF_DEV_EXCLUDE_HOOKS" ]; then
  python3 - "$work/overlay.json" <<'PY'
import glob,json,sys
o=json.load(open(sys.argv[1]))
for f in glob.glob('/repo/**/verif_c*_export.go', recursive=True): o["Replace"][f]=""
json.dump(o,open(sys.argv[1],'w'))
PY
fi
if ! $VGO build $VERIF_MODFLAG -overlay "$work/overlay.json" -tags verif -o "$out" ./checks/c18 2> "$out.buildlog"; then
  head -40 "$out.buildlog"; echo "BROKEN-CHECK property=C18 build failed"; exit 2
fi
if ! $VGO build $VERIF_MODFLAG -race -tags verif -o "$out-race" ./checks/c18/race 2> "$out.buildlog"; then
  head -40 "$out.buildlog"; echo "BROKEN-CHECK property=C18 race build failed"; exit 2
fi
export C18_RACE_BIN="$PWD/$out-race"
ulimit -v 67108864 2>/dev/null
exec "$out" "$@"
