package main

// Binding refwire to ground truth the repository ships (and to the worked
// examples of the protocol documentation) before it is trusted as an oracle.
// Any disagreement is a broken oracle (exit 2), never a violation.

import (
	"bytes"
	"compress/bzip2"
	"encoding/hex"
	"encoding/json"
	"fmt"
	"io"
	"os"
	"path/filepath"
	"strings"

	rw "verif/ref/refwire"
)

func repoRoot() string {
	if v := os.Getenv("VERIF_REPO"); v != "" {
		return v
	}
	return "/repo"
}

type bindStats struct {
	blocks, blockTxs, witnessCommitments int
	txVectors, txVectorsWitness          int
	realBlocks                           []Rec
}

func revHex(h [32]byte) string {
	var r [32]byte
	for i := range h {
		r[i] = h[31-i]
	}
	return hex.EncodeToString(r[:])
}

func bindReference(broken func(format string, a ...interface{})) *bindStats {
	st := &bindStats{}
	// 1. protocol documentation worked examples
	verack, _ := hex.DecodeString("f9beb4d976657261636b000000000000000000005df6e0e2")
	if got := rw.Frame(0xd9b4bef9, "verack", nil); !bytes.Equal(got, verack) {
		broken("refwire.Frame disagrees with the documented verack example: %x", got)
	}
	// the documented 60002 version message of /Satoshi:0.7.2/
	docVersion := "f9beb4d976657273696f6e000000000064000000358d4932" +
		"62ea0000" + "0100000000000000" + "11b2d05000000000" +
		"010000000000000000000000000000000000ffff000000000000" +
		"000000000000000000000000000000000000ffff000000000000" +
		"3b2eb35d8ce61765" + "0f2f5361746f7368693a302e372e322f" + "c03e0300"
	dv, _ := hex.DecodeString(docVersion)
	{
		ip := append(append(make([]byte, 10), 0xff, 0xff), 0, 0, 0, 0)
		na := Rec{"services": uint64(1), "ip": ip, "port": uint64(0)}
		nf := Rec{"services": uint64(0), "ip": ip, "port": uint64(0)}
		v := Rec{"version": uint64(60002), "services": uint64(1), "timestamp": uint64(0x50d0b211),
			"addr_recv": na, "addr_from": nf, "nonce": uint64(0x6517e68c5db32e3b),
			"user_agent": []byte("/Satoshi:0.7.2/"), "start_height": uint64(212672), "relay": uint64(1)}
		p := rw.EncodeBytes(rw.ByCmd("version").Fields, v, rw.Ctx{Pver: 60002})
		if got := rw.Frame(0xd9b4bef9, "version", p); !bytes.Equal(got, dv) {
			broken("refwire version layout disagrees with the protocol documentation example: %s", firstDiff(got, dv))
		}
	}
	// 2. real mainnet blocks shipped with the wire package: hash in the file
	// name, merkle root in the header, BIP141 witness commitment in the coinbase
	files, _ := filepath.Glob(filepath.Join(repoRoot(), "wire/testdata/block-*.blk"))
	if len(files) == 0 {
		broken("no block vectors under %s/wire/testdata", repoRoot())
	}
	for _, f := range files {
		raw, err := os.ReadFile(f)
		if err != nil {
			broken("read %s: %v", f, err)
		}
		name := strings.TrimSuffix(strings.TrimPrefix(filepath.Base(f), "block-"), ".blk")
		blk, n, err := rw.Decode(rw.BlockFields, raw, rw.Ctx{Witness: true})
		if err != nil || n != len(raw) {
			broken("refwire cannot parse %s: %v (%d of %d bytes)", f, err, n, len(raw))
		}
		re := rw.EncodeBytes(rw.BlockFields, blk, rw.Ctx{Witness: true})
		if !bytes.Equal(re, raw) {
			broken("refwire re-encoding of %s differs: %s", f, firstDiff(re, raw))
		}
		if got := revHex(rw.DSha256(raw[:80])); got != name {
			broken("refwire block hash of %s is %s", f, got)
		}
		txns := blk.L("txns")
		var ids, wids [][32]byte
		anyWit := false
		for i, t := range txns {
			ids = append(ids, rw.TxID(t))
			if i == 0 {
				wids = append(wids, [32]byte{})
			} else {
				wids = append(wids, rw.WTxID(t))
			}
			if rw.TxHasWitness(t) {
				anyWit = true
			}
		}
		root := rw.MerkleRoot(ids)
		if !bytes.Equal(root[:], blk.R("header").B("merkle_root")) {
			broken("refwire txids of %s do not hash to the header's merkle root", f)
		}
		if anyWit {
			cb := txns[0]
			var commit []byte
			for _, o := range cb.L("vout") {
				pk := o.B("pk_script")
				if len(pk) >= 38 && bytes.Equal(pk[:6], []byte{0x6a, 0x24, 0xaa, 0x21, 0xa9, 0xed}) {
					commit = pk[6:38]
				}
			}
			cw := cb.L("vin")[0].BL("witness")
			if commit == nil || len(cw) != 1 || len(cw[0]) != 32 {
				broken("%s: cannot locate the witness commitment", f)
			}
			wr := rw.MerkleRoot(wids)
			want := rw.DSha256(append(append([]byte(nil), wr[:]...), cw[0]...))
			if !bytes.Equal(want[:], commit) {
				broken("refwire wtxids of %s do not hash to the coinbase witness commitment", f)
			}
			st.witnessCommitments++
		}
		st.blocks++
		st.blockTxs += len(txns)
		st.realBlocks = append(st.realBlocks, blk)
	}
	// 3. Bitcoin Core's transaction vectors shipped with txscript
	for _, name := range []string{"tx_valid.json", "tx_invalid.json"} {
		b, err := os.ReadFile(filepath.Join(repoRoot(), "txscript/data", name))
		if err != nil {
			broken("read %s: %v", name, err)
		}
		var rows [][]interface{}
		if err := json.Unmarshal(b, &rows); err != nil {
			broken("parse %s: %v", name, err)
		}
		for _, row := range rows {
			if len(row) != 3 {
				continue
			}
			hs, ok := row[1].(string)
			if !ok {
				continue
			}
			raw, err := hex.DecodeString(hs)
			if err != nil {
				continue
			}
			t, n, err := rw.DecodeTx(raw, true)
			if err != nil || n != len(raw) {
				continue // deliberately malformed vectors exist in tx_invalid
			}
			re := rw.EncodeTxBytes(t, true)
			if !bytes.Equal(re, raw) {
				broken("refwire re-encoding of a %s vector differs: %s", name, firstDiff(re, raw))
			}
			st.txVectors++
			if rw.TxHasWitness(t) {
				st.txVectorsWitness++
			}
		}
	}
	if b, err := os.ReadFile(filepath.Join(repoRoot(), "txscript/data/sighash.json")); err == nil {
		var rows [][]interface{}
		if err := json.Unmarshal(b, &rows); err != nil {
			broken("parse sighash.json: %v", err)
		}
		for _, row := range rows {
			if len(row) != 5 {
				continue
			}
			raw, err := hex.DecodeString(row[0].(string))
			if err != nil {
				continue
			}
			t, n, err := rw.DecodeTx(raw, false)
			if err != nil || n != len(raw) {
				broken("refwire cannot parse a sighash.json transaction: %v", err)
			}
			re := rw.EncodeTxBytes(t, false)
			if !bytes.Equal(re, raw) {
				broken("refwire re-encoding of a sighash.json vector differs")
			}
			st.txVectors++
		}
	}
	if st.txVectors < 500 || st.txVectorsWitness < 10 {
		broken("too few transaction vectors bound (%d, %d with witness)", st.txVectors, st.txVectorsWitness)
	}
	// 4. the "mega" transaction shipped with the wire package
	if f, err := os.Open(filepath.Join(repoRoot(), "wire/testdata/megatx.bin.bz2")); err == nil {
		raw, err := io.ReadAll(bzip2.NewReader(f))
		f.Close()
		if err != nil {
			broken("megatx: %v", err)
		}
		t, n, err := rw.DecodeTx(raw, true)
		if err != nil || n != len(raw) {
			broken("refwire cannot parse megatx: %v", err)
		}
		re := rw.EncodeTxBytes(t, true)
		if !bytes.Equal(re, raw) {
			broken("refwire re-encoding of megatx differs")
		}
		st.txVectors++
	}
	return st
}

// ---------------------------------------------------------------------------
// JSON form of records (for replay files)

func recToJSON(v interface{}) interface{} {
	switch x := v.(type) {
	case uint64:
		return fmt.Sprintf("u:%d", x)
	case []byte:
		return "b:" + hex.EncodeToString(x)
	case [][]byte:
		l := make([]interface{}, len(x))
		for i := range x {
			l[i] = hex.EncodeToString(x[i])
		}
		return map[string]interface{}{"$bl": l}
	case Rec:
		m := map[string]interface{}{}
		for k, vv := range x {
			m[k] = recToJSON(vv)
		}
		return m
	case []Rec:
		l := make([]interface{}, len(x))
		for i := range x {
			l[i] = recToJSON(x[i])
		}
		return map[string]interface{}{"$l": l}
	case nil:
		return nil
	}
	panic(fmt.Sprintf("recToJSON: %T", v))
}

func recFromJSON(v interface{}) interface{} {
	switch x := v.(type) {
	case string:
		if strings.HasPrefix(x, "u:") {
			var u uint64
			fmt.Sscanf(x[2:], "%d", &u)
			return u
		}
		b, _ := hex.DecodeString(strings.TrimPrefix(x, "b:"))
		return b
	case map[string]interface{}:
		if l, ok := x["$bl"]; ok {
			out := [][]byte{}
			for _, e := range l.([]interface{}) {
				b, _ := hex.DecodeString(e.(string))
				out = append(out, b)
			}
			return out
		}
		if l, ok := x["$l"]; ok {
			out := []Rec{}
			for _, e := range l.([]interface{}) {
				out = append(out, recFromJSON(e).(Rec))
			}
			return out
		}
		r := Rec{}
		for k, vv := range x {
			r[k] = recFromJSON(vv)
		}
		return r
	case nil:
		return nil
	}
	panic(fmt.Sprintf("recFromJSON: %T", v))
}
